(* C03 end to end, for EVERY visibility policy and SEVERAL sessions: composition of the server half
   (Properties/C03V.v: every update message is the structural diff of the part of the world visible to
   that client; ghost `g_sent`, invariant `ginv_v`) and the client half (Repl/ClientStruct_proofs.v,
   Repl/ClientHist_proofs.v: update messages are applied as `abs_apply`, mutate messages keep the
   structure) over whole-system runs (Repl/Sys.v `run` from `sys_init`).

   Generalises Repl/StructE2E_proofs.v / Repl/StructE2EMut_proofs.v:
     - no hypothesis on `cfg_policy`; `SVis` operations anywhere; the structure a client is compared with
       is `struct_vis s1 cl1`, the part of `struct_of s1` visible to the record [cl1] of its slot;
     - scripts may contain `StDisconnect` and `StStop`, under the premise [sessions_ok] (decidable, on the
       script): between the end of a session of a slot (`StDisconnect slot`, or `StStop` while the
       slot was connected) and the next `StConnect slot` there is a `StDisconnect slot` followed by a
       `StCFrame slot _` (the client notices the disconnect: `client_just_disconnected` resets it).
   Still required: legal scripts, no `SMap` operation, fewer than 2^31 ticking server frames.

   Per slot the script determines a mode (`mode_of`):
     MClean  never connected, or disconnected and reset since
     MLive   `StConnect` seen (it may not have taken effect: then the client is still clean)
     MLeft   the session was ended by `StDisconnect`, the client has not run a frame since
     MStale  the server was stopped while the slot was live and the client has not been disconnected yet
   The C03 statement is proved for MClean / MLive; for MLeft / MStale the client may still hold the
   structure of the session that ended (the server has forgotten it, or, when it is started again
   without having run a frame while stopped, still sends to a client that missed messages): only the
   client-local invariants are kept, which is what the next `StCFrame` after the `StDisconnect` needs
   to reset it. *)
From RV Require Import Lib.Res Repl.ClientTicks Repl.ClientTicks_proofs Repl.World Vis.Visibility Vis.VisSpec
  Vis.Visibility_proofs Tick.RepliconTick Tick.RepliconTick_proofs Tick.ConfirmHistory Tick.MutateTicks
  Repl.Server Repl.ServerSpec Repl.Server_proofs Repl.StructSpec Repl.Struct_proofs
  Repl.StructOps_proofs Repl.StructRun_proofs
  Repl.StructVisSpec Repl.StructVis_proofs Repl.StructVisOps_proofs Repl.StructVisRun_proofs
  Repl.Client Repl.Sys Repl.Client_proofs Repl.ClientEnt_proofs Repl.ClientMut_proofs Repl.ClientSys_proofs
  Repl.Session_proofs
  Repl.ClientStructSpec Repl.ClientStruct_proofs Repl.ClientHist_proofs
  Repl.StructE2E_proofs Repl.StructE2EMut_proofs Repl.StructE2EVis_proofs.
From Coq Require Import ZifyBool ZifyN.
Open Scope N_scope.
Ltac Zify.zify_post_hook ::= Z.div_mod_to_equations.
Arguments N.add : simpl never. Arguments N.mul : simpl never. Arguments N.pow : simpl never.
Arguments N.ltb : simpl never. Arguments N.leb : simpl never. Arguments N.div : simpl never.
Arguments N.modulo : simpl never. Arguments N.sub : simpl never. Arguments N.eqb : simpl never.

(* ================================================================== *)
(* 0. scripts: sessions                                               *)
(* ================================================================== *)

Inductive smode := MClean | MLive | MLeft | MStale.

Definition mode_step (slot : N) (m : smode) (st : step) : smode :=
  match st with
  | StConnect sl _ => if sl =? slot then match m with MClean => MLive | _ => m end else m
  | StDisconnect sl => if sl =? slot then match m with MClean => MClean | _ => MLeft end else m
  | StCFrame sl _ => if sl =? slot then match m with MLeft => MClean | _ => m end else m
  | StStop => match m with MLive => MStale | _ => m end
  | _ => m
  end.

Definition mode_of (script : list step) (slot : N) : smode := fold_left (mode_step slot) script MClean.

Definition connect_slots (script : list step) : list N :=
  flat_map (fun st => match st with StConnect sl _ => [sl] | _ => [] end) script.

(* what [sessions_ok] asks of a step, given the script before it *)
Definition sess_step_ok (pre : list step) (st : step) : bool :=
  match st with
  | StConnect sl _ => match mode_of pre sl with MClean | MLive => true | _ => false end
  | _ => true
  end.

Fixpoint sess_ok_from (pre script : list step) : bool :=
  match script with
  | [] => true
  | st :: r => sess_step_ok pre st && sess_ok_from (pre ++ [st]) r
  end.
Definition sessions_ok (script : list step) : bool := sess_ok_from [] script.

(* the step ends the session of the slot *)
Definition ends_session (slot : N) (st : step) : bool :=
  match st with StStop => true | StDisconnect sl => sl =? slot | _ => false end.

Definition script_okf (script : list step) : bool := legal script && no_smap script && sessions_ok script.

Lemma mode_of_snoc script st slot : mode_of (script ++ [st]) slot = mode_step slot (mode_of script slot) st.
Proof. unfold mode_of. rewrite fold_left_app. reflexivity. Qed.

Lemma connect_slots_snoc script st :
  connect_slots (script ++ [st]) = connect_slots script ++ match st with StConnect sl _ => [sl] | _ => [] end.
Proof. unfold connect_slots. rewrite flat_map_app. cbn [flat_map]. rewrite app_nil_r. reflexivity. Qed.

Lemma sess_ok_from_snoc a : forall pre st,
  sess_ok_from pre (a ++ [st]) = sess_ok_from pre a && sess_step_ok (pre ++ a) st.
Proof.
  induction a as [|x t IH]; intros pre st; cbn [app sess_ok_from].
  - rewrite app_nil_r, andb_true_r. reflexivity.
  - rewrite IH, <- app_assoc. cbn [app]. rewrite andb_assoc. reflexivity.
Qed.

Lemma sessions_ok_snoc script st : sessions_ok (script ++ [st]) = sessions_ok script && sess_step_ok script st.
Proof. unfold sessions_ok. rewrite sess_ok_from_snoc. reflexivity. Qed.

(* a slot that is not clean has been connected *)
Lemma mode_not_clean script : forall slot, mode_of script slot <> MClean -> In slot (connect_slots script).
Proof.
  induction script as [|st t IH] using rev_ind; intros slot H; [exfalso; apply H; reflexivity|].
  rewrite mode_of_snoc in H. rewrite connect_slots_snoc. apply in_or_app.
  destruct st as [| |sl max|sl|sl|tick dt cleanup ops parts|sl ops|sl s2c ch w|sl s2c ch w]; cbn [mode_step] in H;
    try (left; apply IH; exact H).
  - left. apply IH. destruct (mode_of t slot); try discriminate; exact H.
  - destruct (sl =? slot) eqn:E; [|left; apply IH; exact H]. right. left. lia.
  - left. apply IH. destruct (sl =? slot); [|exact H]. destruct (mode_of t slot); [exact H|discriminate..].
  - left. apply IH. destruct (sl =? slot); [|exact H]. destruct (mode_of t slot); try discriminate; exact H.
Qed.

(* single-session scripts (no StStop, no StDisconnect) satisfy the premise; every slot stays clean or live *)
Lemma single_session_modes script : single_session script = true ->
  sessions_ok script = true /\ forall slot, mode_of script slot = MClean \/ mode_of script slot = MLive.
Proof.
  induction script as [|st t IH] using rev_ind; intros H; [split; [reflexivity|intros; left; reflexivity]|].
  unfold single_session in H. rewrite forallb_app in H. apply andb_prop in H. destruct H as [H1 H2].
  cbn [forallb] in H2. rewrite andb_true_r in H2. destruct (IH H1) as [I1 I2]. split.
  - rewrite sessions_ok_snoc, I1. cbn [andb].
    destruct st as [| |sl max|sl|sl|tick dt cleanup ops parts|sl ops|sl s2c ch w|sl s2c ch w]; try reflexivity; try discriminate.
    cbn [sess_step_ok]. destruct (I2 sl) as [-> | ->]; reflexivity.
  - intros slot. rewrite mode_of_snoc.
    destruct st as [| |sl max|sl|sl|tick dt cleanup ops parts|sl ops|sl s2c ch w|sl s2c ch w]; try discriminate; cbn [mode_step];
      try exact (I2 slot).
    + destruct (sl =? slot); [|exact (I2 slot)]. destruct (I2 slot) as [-> | ->]; auto.
    + destruct (sl =? slot); [|exact (I2 slot)]. destruct (I2 slot) as [-> | ->]; auto.
Qed.

(* ---------- the ghost, with sessions ---------- *)

Definition ghost_step_s (y : sys) (gs : list (N * structure)) (st : step) : list (N * structure) :=
  match st with
  | StDisconnect slot =>
    match al_get slot (y_clients y) with
    | Some _ => sync_sent (disconnect_client (y_server y) slot) gs []
    | None => gs
    end
  | _ => ghost_step y gs st
  end.

Fixpoint erun_s (y : sys) (gs : list (N * structure)) (script : list step) : res (sys * list (N * structure)) :=
  match script with
  | [] => Ok (y, gs)
  | st :: rest => let* (y', _) := sys_step y st in erun_s y' (ghost_step_s y gs st) rest
  end.

Lemma erun_s_app s1 : forall y gs s2,
  erun_s y gs (s1 ++ s2) = let* (y1, gs1) := erun_s y gs s1 in erun_s y1 gs1 s2.
Proof.
  induction s1 as [|st t IH]; intros y gs s2; cbn [app erun_s bind]; [reflexivity|].
  destruct (sys_step y st) as [[y' o]| |]; cbn [bind]; [apply IH|reflexivity|reflexivity].
Qed.

Lemma erun_s_run script : forall y gs y' gs', erun_s y gs script = Ok (y', gs') -> run y script = Ok y'.
Proof.
  induction script as [|st t IH]; intros y gs y' gs' H; cbn [erun_s run] in *.
  - inversion H; reflexivity.
  - destruct (sys_step y st) as [[y1 o]| |]; cbn [bind] in *; try discriminate. exact (IH _ _ _ _ H).
Qed.

Lemma run_erun_s script : forall y gs y', run y script = Ok y' -> exists gs', erun_s y gs script = Ok (y', gs').
Proof.
  induction script as [|st t IH]; intros y gs y' H; cbn [erun_s run] in *.
  - inversion H; subst. eexists; reflexivity.
  - destruct (sys_step y st) as [[y1 o]| |]; cbn [bind] in *; try discriminate. exact (IH _ _ _ H).
Qed.

(* without session steps it is the ghost of Repl/StructE2E_proofs.v *)
Lemma erun_s_erun script : forall y gs, single_session script = true -> erun_s y gs script = erun y gs script.
Proof.
  induction script as [|st t IH]; intros y gs H; cbn [erun_s erun]; [reflexivity|].
  unfold single_session in H. cbn [forallb] in H. apply andb_prop in H. destruct H as [H1 H2].
  destruct (sys_step y st) as [[y1 o]| |]; cbn [bind]; try reflexivity.
  assert (E : ghost_step_s y gs st = ghost_step y gs st) by (destruct st; try reflexivity; discriminate).
  rewrite E. apply IH. exact H2.
Qed.

(* ================================================================== *)
(* 1. small facts                                                     *)
(* ================================================================== *)

Definition clean (c : client) : Prop :=
  srel c [] /\ cl_buffered c = [] /\ cl_inbox_upd c = [] /\ cl_inbox_mut c = [].

(* a client whose session was ended and that has not run a frame since: `reset` will run at its next
   frame, unless it never ran a frame while connected (then it is still clean) *)
Definition left_ok (c : client) : Prop :=
  cl_inbox_upd c = [] /\ cl_inbox_mut c = [] /\ (cl_last_not_disconnected c = false -> srel c [] /\ cl_buffered c = []).

Lemma clean_left c : clean c -> left_ok c.
Proof. intros (A & B & C & D). split; [exact C|]. split; [exact D|]. auto. Qed.

Lemma has_auth_rec s slot : has_auth s slot -> has_rec s slot.
Proof. intros [cl [A [B _]]]. exists cl. auto. Qed.

Lemma sync_sent_of_slot s gs s' outs slot :
  ginv_v (mkG s gs) -> NoDup (map sc_slot (sv_clients s')) ->
  (has_auth s slot -> has_auth s' slot) ->
  (forall o, In o outs -> co_slot o = slot -> has_auth s' slot) ->
  sent_of slot (sync_sent s' gs outs) = abs_send (sent_of slot gs) (upd_for slot outs).
Proof. intros Hg. exact (sync_sent_of_slot_v (mkG s gs) s' outs slot Hg). Qed.

Lemma tick_add_one t : t + 1 < 2 ^ 32 -> tick_add t 1 = t + 1.
Proof. intros H. unfold tick_add. apply N.mod_small. exact H. Qed.

Lemma tick_add_le t : tick_add t 1 <= t + 1.
Proof. unfold tick_add. apply N.mod_le. pose proof Npow32. lia. Qed.

(* ================================================================== *)
(* 2. the invariant of a whole-system run                             *)
(* ================================================================== *)

Section SESS.
  Variables (cfg0 : cfg) (nclients : N).

  (* a state the run went through during the CURRENT session of the slot: the result of a prefix of
     the script after which the session of the slot has not been ended *)
  Definition reached_s (script : list step) (slot : N) (y1 : sys) : Prop :=
    exists pre post, script = pre ++ post /\ run (sys_init cfg0 nclients) pre = Ok y1 /\
                     forallb (fun st => negb (ends_session slot st)) post = true.

  (* every non-empty prefix of the update messages sent to the slot in its current session is the
     structure visible to the slot's record at an earlier moment of the session, at the tick of the
     prefix's last message *)
  Definition snaps_v (script : list step) (slot : N) (sent : list update_msg) : Prop :=
    forall p q, sent = p ++ q -> p <> [] ->
      exists y1 cl1, reached_s script slot y1 /\
        find_client (y_server y1) slot = Some cl1 /\ sc_authorized cl1 = true /\
        struct_equiv (fold_left abs_apply p []) (struct_vis (y_server y1) cl1) /\
        u_tick (last p dflt_upd) = sv_tick (y_server y1).

  (* the client side of a connection: [applied] are the update messages the client has applied, [pend]
     (inbox ++ queue) those sent and not yet applied, [lmut] the queued mutate messages *)
  Record cside (c : client) (applied pend : list update_msg) (lmut : list mutate_msg) : Prop := mkCSide {
    cd_rel : srel c (fold_left abs_apply applied []);
    cd_nomaps : forallb no_maps pend = true;
    cd_tick : applied <> [] -> cl_upd_tick c = u_tick (last applied dflt_upd);
    cd_small : forall u, In u (applied ++ pend) -> small_tick (u_tick u);
    cd_incr : ticks_incr (applied ++ pend);
    cd_hist : ent_hist_ok applied c;
    cd_muts : forall m, In m (lmut ++ cl_inbox_mut c ++ cl_buffered c) -> mmsg_ok (applied ++ pend) m;
    cd_first : cl_last_not_disconnected c = false -> applied = [] /\ cl_buffered c = []
  }.

  (* the server side: [sent] are the update messages of the current session, [muts] its mutate messages
     still around *)
  Record slink (script : list step) (s : server) (gs : list (N * structure)) (slot : N)
         (sent : list update_msg) (muts : list mutate_msg) : Prop := mkSLink {
    sl_sent : fold_left abs_apply sent [] = sent_of slot gs;
    sl_snaps : snaps_v script slot sent;
    sl_bound : forall u, In u sent -> bound_ok s (u_tick u);
    sl_mbound : forall m, In m muts -> bound_ok s (m_tick m);
    sl_auth : sent <> [] -> has_auth s slot;
    sl_srv : forall cl, In cl (sv_clients s) -> sc_slot cl = slot -> sc_authorized cl = true ->
             sent <> [] -> ct_update_tick (sc_ticks cl) = u_tick (last sent dflt_upd)
  }.

  Definition inv_clean (s : server) (slot : N) (lupd : list update_msg) (lmut : list mutate_msg) (c : client) : Prop :=
    cl_status c = Disconnected /\ clean c /\ ~ has_rec s slot /\ lupd = [] /\ lmut = [].

  Definition inv_left (s : server) (slot : N) (lupd : list update_msg) (lmut : list mutate_msg) (c : client) : Prop :=
    cl_status c = Disconnected /\ left_ok c /\ ~ has_rec s slot /\ lupd = [] /\ lmut = [].

  Definition inv_live (script : list step) (s : server) (gs : list (N * structure)) (slot : N)
             (lupd : list update_msg) (lmut : list mutate_msg) (c : client) : Prop :=
    (has_rec s slot <-> cl_status c = Connected) /\
    (cl_status c = Disconnected -> clean c /\ lupd = [] /\ lmut = []) /\
    (cl_status c = Connected -> sv_running s = true /\
       exists applied, cside c applied (cl_inbox_upd c ++ lupd) lmut /\
                       slink script s gs slot (applied ++ cl_inbox_upd c ++ lupd) (lmut ++ cl_inbox_mut c ++ cl_buffered c)).

  (* a connected client whose server was stopped: what it has applied and what it may still receive (the
     server may be started again without a reset) is not a prefix of what the server believes it was sent;
     only what a client frame needs to keep the client invariants is recorded *)
  Definition stale_conn (c : client) (lupd : list update_msg) (lmut : list mutate_msg) : Prop :=
    forallb no_maps (cl_inbox_upd c ++ lupd) = true /\
    (forall u, In u (cl_inbox_upd c ++ lupd) -> small_tick (u_tick u)) /\
    (forall m, In m (lmut ++ cl_inbox_mut c ++ cl_buffered c) -> small_tick (m_tick m)) /\
    (cl_last_not_disconnected c = false -> srel c [] /\ cl_buffered c = []).

  Definition inv_stale (s : server) (slot : N) (lupd : list update_msg) (lmut : list mutate_msg) (c : client) : Prop :=
    (cl_status c = Disconnected -> clean c /\ ~ has_rec s slot /\ lupd = [] /\ lmut = []) /\
    (cl_status c = Connected -> stale_conn c lupd lmut).

  Definition mode_inv (script : list step) (m : smode) (s : server) (gs : list (N * structure)) (slot : N)
             (lupd : list update_msg) (lmut : list mutate_msg) (c : client) : Prop :=
    match m with
    | MClean => inv_clean s slot lupd lmut c
    | MLive => inv_live script s gs slot lupd lmut c
    | MLeft => inv_left s slot lupd lmut c
    | MStale => inv_stale s slot lupd lmut c
    end.

  Record slot_inv (script : list step) (m : smode) (s : server) (gs : list (N * structure)) (slot : N)
         (lupd : list update_msg) (lmut : list mutate_msg) (c : client) : Prop := mkSlotInv {
    sv_cs : cs_inv c;
    sv_pu : pu c;
    sv_hs : hist_small c;
    sv_mode : mode_inv script m s gs slot lupd lmut c
  }.

  Record f_inv (script : list step) (y : sys) (gs : list (N * structure)) : Prop := mkFInv {
    fi_cfg : y_cfg y = cfg0;
    fi_ginv : ginv_v (mkG (y_server y) gs);
    fi_nomaps : nomaps_srv (y_server y);
    fi_tick : sv_tick (y_server y) <= tick_frames script;
    fi_slots : forall slot c, al_get slot (y_clients y) = Some c ->
               slot_inv script (mode_of script slot) (y_server y) gs slot
                        (l_upd (get_link y slot)) (l_mut (get_link y slot)) c
  }.

  (* ---------- monotonicity ---------- *)

  Lemma reached_s_mono script st slot y1 : ends_session slot st = false ->
    reached_s script slot y1 -> reached_s (script ++ [st]) slot y1.
  Proof.
    intros He (pre & post & -> & H & Hp). exists pre, (post ++ [st]). split; [rewrite app_assoc; reflexivity|].
    split; [exact H|]. rewrite forallb_app, Hp. cbn. rewrite He. reflexivity.
  Qed.

  Lemma reached_s_last script slot y : run (sys_init cfg0 nclients) script = Ok y -> reached_s script slot y.
  Proof. intros H. exists script, []. split; [rewrite app_nil_r; reflexivity|]. split; [exact H|reflexivity]. Qed.

  Lemma snaps_v_mono script st slot sent : ends_session slot st = false ->
    snaps_v script slot sent -> snaps_v (script ++ [st]) slot sent.
  Proof.
    intros He H p q E Hne. destruct (H p q E Hne) as (y1 & cl1 & R & A). exists y1, cl1.
    split; [apply reached_s_mono; assumption|exact A].
  Qed.

  Lemma slink_mono script st s s' gs gs' slot sent muts :
    ends_session slot st = false ->
    sent_of slot gs' = sent_of slot gs -> sv_tick s' = sv_tick s -> sv_dirty s' = sv_dirty s ->
    (has_auth s slot -> has_auth s' slot) ->
    (sent <> [] -> has_auth s slot ->
       forall cl', In cl' (sv_clients s') -> sc_slot cl' = slot -> sc_authorized cl' = true ->
       exists cl, In cl (sv_clients s) /\ sc_slot cl = slot /\ sc_authorized cl = true /\ sc_ticks cl = sc_ticks cl') ->
    slink script s gs slot sent muts -> slink (script ++ [st]) s' gs' slot sent muts.
  Proof.
    intros He E Et Ed Ha Hs [H1 H2 H3 H4 H5 H6].
    assert (Hb : forall t, bound_ok s t -> bound_ok s' t) by (unfold bound_ok; intros t; rewrite Et, Ed; auto).
    constructor.
    - congruence.
    - apply snaps_v_mono; assumption.
    - intros u Hu. apply Hb. exact (H3 u Hu).
    - intros m Hm. apply Hb. exact (H4 m Hm).
    - auto.
    - intros cl' Hin Hsl Hau Hne. destruct (Hs Hne (H5 Hne) cl' Hin Hsl Hau) as (cl & A & B & C & D). rewrite <- D.
      exact (H6 cl A B C Hne).
  Qed.

  (* the invariant of a slot after a step that ends no session of the slot and leaves its client and its
     queues alone: the mode is the same *)
  Lemma mode_inv_mono script st m s s' gs gs' slot lupd lmut c :
    ends_session slot st = false ->
    (has_rec s' slot <-> has_rec s slot) -> sent_of slot gs' = sent_of slot gs ->
    sv_tick s' = sv_tick s -> sv_dirty s' = sv_dirty s -> (sv_running s = true -> sv_running s' = true) ->
    (has_auth s slot -> has_auth s' slot) ->
    (has_auth s slot ->
       forall cl', In cl' (sv_clients s') -> sc_slot cl' = slot -> sc_authorized cl' = true ->
       exists cl, In cl (sv_clients s) /\ sc_slot cl = slot /\ sc_authorized cl = true /\ sc_ticks cl = sc_ticks cl') ->
    mode_inv script m s gs slot lupd lmut c -> mode_inv (script ++ [st]) m s' gs' slot lupd lmut c.
  Proof.
    intros He Hr E Et Ed Hrun Ha Hs H. destruct m; cbn [mode_inv] in *.
    - destruct H as (A & B & C & D). split; [exact A|]. split; [exact B|]. split; [rewrite Hr; exact C|exact D].
    - destruct H as (A & B & C). split; [rewrite Hr; exact A|]. split; [exact B|].
      intros Hc. destruct (C Hc) as [R [applied [C1 C2]]]. split; [auto|]. exists applied. split; [exact C1|].
      apply (slink_mono script st s s' gs gs'); auto.
    - destruct H as (A & B & C & D). split; [exact A|]. split; [exact B|]. split; [rewrite Hr; exact C|exact D].
    - destruct H as (C & D). split; [|exact D].
      intros Hc. destruct (C Hc) as (C1 & C2 & C3). split; [exact C1|]. split; [rewrite Hr; exact C2|exact C3].
  Qed.

  Lemma slot_inv_mono script st m s s' gs gs' slot lupd lmut c :
    ends_session slot st = false ->
    (has_rec s' slot <-> has_rec s slot) -> sent_of slot gs' = sent_of slot gs ->
    sv_tick s' = sv_tick s -> sv_dirty s' = sv_dirty s -> (sv_running s = true -> sv_running s' = true) ->
    (has_auth s slot -> has_auth s' slot) ->
    (has_auth s slot ->
       forall cl', In cl' (sv_clients s') -> sc_slot cl' = slot -> sc_authorized cl' = true ->
       exists cl, In cl (sv_clients s) /\ sc_slot cl = slot /\ sc_authorized cl = true /\ sc_ticks cl = sc_ticks cl') ->
    slot_inv script m s gs slot lupd lmut c -> slot_inv (script ++ [st]) m s' gs' slot lupd lmut c.
  Proof.
    intros He Hr E Et Ed Hrun Ha Hs [H1 H2 H3 H4]. constructor; [exact H1|exact H2|exact H3|].
    exact (mode_inv_mono script st m s s' gs gs' slot lupd lmut c He Hr E Et Ed Hrun Ha Hs H4).
  Qed.

  (* ---------- changes of mode ---------- *)

  Lemma clean_to_live script s gs slot lupd lmut c : inv_clean s slot lupd lmut c -> inv_live script s gs slot lupd lmut c.
  Proof.
    intros (A & B & C & D & E). split; [|split].
    - split; [intros Hr; contradiction|intros Hc; congruence].
    - intros _. auto.
    - intros Hc. congruence.
  Qed.

  Lemma clean_to_left s slot lupd lmut c : inv_clean s slot lupd lmut c -> inv_left s slot lupd lmut c.
  Proof. intros (A & B & C & D). split; [exact A|]. split; [apply clean_left; exact B|]. auto. Qed.

  (* ---------- a step that leaves clients, queues and client records alone ---------- *)

  Lemma f_same script st y gs y' :
    f_inv script y gs -> is_tick_frame st = false ->
    (forall slot m, mode_step slot m st = m) -> (forall slot, ends_session slot st = false) ->
    y_cfg y' = y_cfg y -> (forall slot, al_get slot (y_clients y') = al_get slot (y_clients y)) ->
    (forall slot, l_upd (get_link y' slot) = l_upd (get_link y slot)) ->
    (forall slot, l_mut (get_link y' slot) = l_mut (get_link y slot)) ->
    sv_clients (y_server y') = sv_clients (y_server y) ->
    sv_tick (y_server y') = sv_tick (y_server y) -> sv_dirty (y_server y') = sv_dirty (y_server y) ->
    sv_running (y_server y') = sv_running (y_server y) ->
    ginv_v (mkG (y_server y') gs) -> f_inv (script ++ [st]) y' gs.
  Proof.
    intros [H1 H2 H3 H4 H6] Hnt Hmode Hends E1 E2 E3 E3m E4 Et Ed Er Hg. constructor.
    - congruence.
    - exact Hg.
    - revert H3. apply nomaps_same. exact E4.
    - rewrite tick_frames_snoc, Hnt, Et. exact H4.
    - intros slot c Hc. rewrite E2 in Hc. rewrite E3, E3m, mode_of_snoc, Hmode.
      apply (slot_inv_mono script st _ (y_server y) _ gs gs); try assumption; try reflexivity.
      + apply Hends.
      + split; apply has_rec_clients; [exact E4|symmetry; exact E4].
      + rewrite Er. auto.
      + apply has_auth_clients. exact E4.
      + intros _. apply same_records. exact E4.
      + exact (H6 slot c Hc).
  Qed.

  (* ---------- the initial state ---------- *)

  Lemma f_init : f_inv [] (sys_init cfg0 nclients) [].
  Proof.
    constructor; try reflexivity.
    - exact ginit_inv_v.
    - intros cl [].
    - intros slot c Hc. cbn [sys_init y_clients] in Hc. apply al_get_map_const in Hc. subst c.
      assert (Hl : get_link (sys_init cfg0 nclients) slot = link_empty).
      { unfold get_link. cbn [sys_init y_links].
        destruct (al_get slot (map (fun i : N => (i, link_empty)) (map N.of_nat (seq 0 (N.to_nat nclients))))) as [l|] eqn:E; [|reflexivity].
        apply al_get_map_const in E. exact E. }
      rewrite Hl. constructor.
      + apply cs_inv_init.
      + apply pu_init.
      + intros cid x h H. discriminate.
      + cbn. split; [reflexivity|]. split; [split; [intros e; exact I|auto]|]. split; [intros [cl [[] _]]|auto].
  Qed.

  (* ---------- StStart ---------- *)

  Lemma f_start script y gs : f_inv script y gs ->
    f_inv (script ++ [StStart]) (set_server y (set_running (y_server y) true)) gs.
  Proof.
    intros H.
    destruct H as [H1 H2 H3 H4 H6]. constructor.
    - exact H1.
    - exact (gstep_inv_v cfg0 (mkG (y_server y) gs) GStart _ H2 eq_refl).
    - revert H3. apply nomaps_same. reflexivity.
    - rewrite tick_frames_snoc. exact H4.
    - intros slot c Hc. rewrite mode_of_snoc. cbn [mode_step].
      apply (slot_inv_mono script StStart _ (y_server y) _ gs gs); try reflexivity; try tauto.
      + intros _. apply same_records. reflexivity.
      + exact (H6 slot c Hc).
  Qed.

  (* ---------- StStop ---------- *)

  (* when the server stops, the links are emptied *)
  Lemma cside_stale c applied lupd lmut : cside c applied (cl_inbox_upd c ++ lupd) lmut -> stale_conn c [] [].
  Proof.
    intros [C1 C2 C3 C4 C5 C6 C7 C8]. rewrite forallb_app in C2. apply andb_prop in C2. destruct C2 as [C2 _].
    split; [rewrite app_nil_r; exact C2|]. split; [|split].
    - intros u Hu. rewrite app_nil_r in Hu. apply C4. apply in_or_app. right. apply in_or_app. left. exact Hu.
    - intros m Hm. cbn [app] in Hm. apply (C7 m). apply in_or_app. right. exact Hm.
    - intros Hl. destruct (C8 Hl) as [-> B]. split; [exact C1|exact B].
  Qed.

  Lemma stale_conn_weaken c lupd lmut : stale_conn c lupd lmut -> stale_conn c [] [].
  Proof.
    intros (A & B & C & D). rewrite forallb_app in A. apply andb_prop in A. destruct A as [A _].
    split; [rewrite app_nil_r; exact A|]. split; [|split; [|exact D]].
    - intros u Hu. rewrite app_nil_r in Hu. apply B. apply in_or_app. left. exact Hu.
    - intros m Hm. cbn [app] in Hm. apply C. apply in_or_app. right. exact Hm.
  Qed.

  Lemma f_stop script y gs y' o : f_inv script y gs -> sys_step y StStop = Ok (y', o) -> f_inv (script ++ [StStop]) y' gs.
  Proof.
    intros [H1 H2 H3 H4 H6] H. cbn [sys_step] in H. inversion H; subst o. clear H.
    match goal with H : ?t = y' |- _ => set (y2 := t) in *; assert (Ecfg : y_cfg y2 = y_cfg y) by reflexivity;
      assert (S1 : y_server y2 = set_running (y_server y) false) by reflexivity;
      assert (S3 : y_clients y2 = y_clients y) by reflexivity;
      assert (S4 : forall slot, get_link y2 slot = link_empty)
        by (intros slot; unfold get_link, y2; cbn [y_links set_server]; apply get_link_map_empty);
      clearbody y2; subst y2 end.
    constructor.
    - congruence.
    - rewrite S1. exact (gstep_inv_v cfg0 (mkG (y_server y) gs) GStop _ H2 eq_refl).
    - rewrite S1. revert H3. apply nomaps_same. reflexivity.
    - rewrite S1, tick_frames_snoc. exact H4.
    - intros slot c Hc. rewrite S3 in Hc. rewrite S4, S1. cbn [link_empty l_upd l_mut]. rewrite mode_of_snoc.
      destruct (H6 slot c Hc) as [I1 I2 I3 I4]. constructor; [exact I1|exact I2|exact I3|].
      assert (Hrec : has_rec (set_running (y_server y) false) slot <-> has_rec (y_server y) slot) by (split; apply has_rec_clients; reflexivity).
      destruct (mode_of script slot); cbn [mode_step mode_inv] in *.
      + destruct I4 as (A & B & C & _). split; [exact A|]. split; [exact B|]. rewrite Hrec. auto.
      + destruct I4 as (A & B & C). split.
        * intros Hd. split; [exact (proj1 (B Hd))|]. split; [rewrite Hrec, A; congruence|auto].
        * intros Hcn. destruct (C Hcn) as [_ [applied [C1 _]]]. exact (cside_stale c applied _ _ C1).
      + destruct I4 as (A & B & C & _). split; [exact A|]. split; [exact B|]. rewrite Hrec. auto.
      + destruct I4 as (C & D). split.
        * intros Hd. destruct (C Hd) as (C1 & C2 & _). split; [exact C1|]. split; [rewrite Hrec; exact C2|auto].
        * intros Hcn. exact (stale_conn_weaken c _ _ (D Hcn)).
  Qed.

  (* ---------- StConnect ---------- *)

  Lemma mode_connect script slot0 max slot : sess_step_ok script (StConnect slot0 max) = true ->
    mode_of (script ++ [StConnect slot0 max]) slot = (if slot0 =? slot then MLive else mode_of script slot) /\
    (slot0 = slot -> mode_of script slot = MClean \/ mode_of script slot = MLive).
  Proof.
    intros H. cbn [sess_step_ok] in H. rewrite mode_of_snoc. cbn [mode_step]. destruct (slot0 =? slot) eqn:E.
    - assert (slot0 = slot) by lia. subst slot0. destruct (mode_of script slot); try discriminate; auto.
    - split; [reflexivity|]. intros ->. lia.
  Qed.

  (* a connected client just after the connection *)
  Lemma fresh_connection script s gs slot c :
    cs_inv c -> clean c -> sv_running s = true -> sent_of slot gs = [] ->
    exists applied, cside c applied (cl_inbox_upd c ++ []) [] /\
                    slink script s gs slot (applied ++ cl_inbox_upd c ++ []) ([] ++ cl_inbox_mut c ++ cl_buffered c).
  Proof.
    intros Hinv (R & B & I & M) Hr Hs. exists []. rewrite I, M, B. cbn [app]. split.
    - constructor.
      + exact R.
      + reflexivity.
      + congruence.
      + intros u [].
      + exact ticks_incr_nil.
      + apply ent_hist_nil; assumption.
      + intros m Hm. rewrite M, B in Hm. destruct Hm.
      + intros _. auto.
    - constructor.
      + cbn. symmetry. exact Hs.
      + intros p q E Hp. destruct p; [congruence|discriminate].
      + intros u [].
      + intros m [].
      + congruence.
      + congruence.
  Qed.

  Lemma f_connect script y gs slot0 max y' o :
    f_inv script y gs -> sess_step_ok script (StConnect slot0 max) = true ->
    sys_step y (StConnect slot0 max) = Ok (y', o) ->
    f_inv (script ++ [StConnect slot0 max]) y' (ghost_step_s y gs (StConnect slot0 max)).
  Proof.
    intros Hinv Hs H. pose proof Hinv as [Hcfg Hg Hnm Htk Hslots].
    assert (Hnoop : f_inv (script ++ [StConnect slot0 max]) y gs).
    { constructor; [exact Hcfg|exact Hg|exact Hnm|rewrite tick_frames_snoc; exact Htk|].
      intros slot c Hc. destruct (mode_connect script slot0 max slot Hs) as [E Hm0]. rewrite E.
      pose proof (slot_inv_mono script (StConnect slot0 max) _ (y_server y) (y_server y) gs gs slot _ _ c eq_refl
                    (conj (fun x => x) (fun x => x)) eq_refl eq_refl eq_refl (fun x => x) (fun x => x)
                    (fun _ => same_records _ _ slot eq_refl) (Hslots slot c Hc)) as G.
      destruct (slot0 =? slot) eqn:E0; [|exact G]. assert (slot0 = slot) by lia. subst slot0.
      destruct (Hm0 eq_refl) as [Em|Em]; rewrite Em in G; [|exact G].
      destruct G as [G1 G2 G3 G4]. constructor; [exact G1|exact G2|exact G3|]. apply clean_to_live. exact G4. }
    cbn [sys_step ghost_step_s ghost_step] in *. rewrite Hcfg in *.
    destruct (find_client (y_server y) slot0) as [c0|] eqn:Ef; [inversion H; subst; exact Hnoop|].
    destruct (al_get slot0 (y_clients y)) as [cl|] eqn:Ec; [|inversion H; subst; exact Hnoop].
    destruct (sv_running (y_server y)) eqn:Er; [|inversion H; subst; exact Hnoop].
    inversion H; subst y' o. clear H Hnoop. set (s := y_server y) in *.
    set (s' := connect_client cfg0 s slot0 max).
    pose proof (connect_inv_v cfg0 (mkG s gs) slot0 max Hg) as Hg'. cbn [g_srv g_sent] in Hg'. fold s' in Hg'.
    assert (F1 : exists cnew, sv_clients s' = sv_clients s ++ [cnew] /\ sc_slot cnew = slot0 /\ sc_pending_map cnew = []).
    { unfold s', connect_client. fold s. rewrite Er, Ef. eexists. split; [reflexivity|].
      destruct (cfg_auth cfg0); cbn; auto. }
    destruct F1 as (cnew & F1 & F2 & F3).
    assert (Hnorec : ~ has_rec s slot0) by (intros Hr; apply has_rec_find in Hr; congruence).
    assert (Hsent : forall slot, sent_of slot (sync_sent s' gs []) = sent_of slot gs).
    { intros slot. rewrite (sync_sent_of_slot s gs s' [] slot Hg (gv_slots _ Hg')); [reflexivity| |intros o []].
      intros [c1 [Hin Hc1]]. exists c1. split; [|exact Hc1]. cbn [g_srv]. rewrite F1. apply in_or_app. left. exact Hin. }
    assert (Hflags : sv_tick s' = sv_tick s /\ sv_dirty s' = sv_dirty s /\ sv_running s' = true).
    { unfold s', connect_client. fold s. rewrite Er, Ef. cbn. auto. }
    destruct Hflags as (T1 & T2 & T3).
    constructor.
    - exact Hcfg.
    - exact Hg'.
    - intros c1 Hin. cbn [set_client set_server y_server] in Hin. fold s' in Hin. rewrite F1 in Hin. apply in_app_or in Hin.
      destruct Hin as [Hin|[<-|[]]]; [exact (Hnm c1 Hin)|exact F3].
    - cbn [set_client set_server y_server]. fold s'. rewrite tick_frames_snoc. cbn [is_tick_frame]. rewrite T1. exact Htk.
    - intros slot c Hc. cbn [set_client set_server y_clients y_server] in *.
      change (get_link (set_client (set_server y s') slot0 (set_status cl Connected)) slot) with (get_link y slot).
      destruct (mode_connect script slot0 max slot Hs) as [E Hm0]. rewrite E.
      destruct (N.eq_dec slot slot0) as [->|Hne].
      + rewrite N.eqb_refl. rewrite al_get_insert_same in Hc. inversion Hc; subst c. clear Hc.
        destruct (Hslots slot0 cl Ec) as [O1 O2 O3 O4].
        assert (Hold : cl_status cl = Disconnected /\ clean cl /\ l_upd (get_link y slot0) = [] /\ l_mut (get_link y slot0) = []).
        { destruct (Hm0 eq_refl) as [Em|Em]; rewrite Em in O4; cbn [mode_inv] in O4.
          - destruct O4 as (A & B & _ & D & F). auto.
          - destruct O4 as (A & B & _). destruct (status_dec cl) as [Es|Es]; [|exfalso; apply Hnorec; apply A; exact Es].
            destruct (B Es) as (B1 & B2 & B3). auto. }
        destruct Hold as (Es & Hcl & Hlu & Hlm). rewrite Hlu, Hlm.
        assert (Ei : cl_inbox_upd (set_status cl Connected) = cl_inbox_upd cl) by (unfold set_status; rewrite Es; reflexivity).
        assert (Em : cl_inbox_mut (set_status cl Connected) = cl_inbox_mut cl) by (unfold set_status; rewrite Es; reflexivity).
        assert (Hcl' : clean (set_status cl Connected)).
        { destruct Hcl as (R & B & I & M). split; [revert R; apply srel_ext; reflexivity|]. rewrite Ei, Em. auto. }
        constructor.
        * apply cs_inv_set_status. exact O1.
        * revert O2. apply pu_ext; reflexivity.
        * revert O3. apply hist_small_ext. reflexivity.
        * cbn [mode_inv]. split; [|split].
          -- split; [intros _; reflexivity|]. intros _. exists cnew. split; [rewrite F1; apply in_or_app; right; left; reflexivity|exact F2].
          -- cbn. discriminate.
          -- intros _. split; [exact T3|].
             apply fresh_connection; [apply cs_inv_set_status; exact O1|exact Hcl'|exact T3|].
             rewrite Hsent. exact (sent_of_norec_v (mkG s gs) slot0 Hg Hnorec).
      + replace (slot0 =? slot) with false by lia. rewrite al_get_insert_other in Hc by exact Hne.
        refine (slot_inv_mono script _ _ s s' gs _ slot _ _ c _ _ (Hsent slot) T1 T2 (fun _ => T3) _ _ (Hslots slot c Hc)).
        * cbn. lia.
        * split.
          -- intros [c1 [Hin Hs1]]. rewrite F1 in Hin. apply in_app_or in Hin. destruct Hin as [Hin|[<-|[]]]; [exists c1; auto|congruence].
          -- intros [c1 [Hin Hs1]]. exists c1. split; [rewrite F1; apply in_or_app; left; exact Hin|exact Hs1].
        * intros [c1 [Hin Hc1]]. exists c1. split; [rewrite F1; apply in_or_app; left; exact Hin|exact Hc1].
        * intros _ cl' Hin Hs1 Ha1. rewrite F1 in Hin. apply in_app_or in Hin.
          destruct Hin as [Hin|[<-|[]]]; [exists cl'; auto|congruence].
  Qed.

  (* ---------- StAuthorize ---------- *)

  Lemma f_authorize script y gs slot0 :
    f_inv script y gs ->
    f_inv (script ++ [StAuthorize slot0]) (set_server y (authorize_client (y_cfg y) (y_server y) slot0))
          (ghost_step_s y gs (StAuthorize slot0)).
  Proof.
    intros [Hcfg Hg Hnm Htk Hslots]. cbn [ghost_step_s ghost_step]. rewrite Hcfg. set (s := y_server y) in *.
    set (s' := authorize_client cfg0 s slot0).
    destruct (authorize_clients cfg0 s slot0) as (A1 & A2 & A3 & A4 & A5). fold s' in A1, A2, A3, A4, A5.
    pose proof (authorize_inv_v cfg0 (mkG s gs) slot0 Hg) as Hg'. cbn [g_srv g_sent] in Hg'. fold s' in Hg'.
    assert (Hsent : forall slot, sent_of slot (sync_sent s' gs []) = sent_of slot gs).
    { intros slot. rewrite (sync_sent_of_slot s gs s' [] slot Hg (gv_slots _ Hg') (A2 slot)); [reflexivity|intros o []]. }
    assert (Hflags : sv_tick s' = sv_tick s /\ sv_dirty s' = sv_dirty s).
    { unfold s', authorize_client. destruct (find_client s slot0) as [cl|]; [|auto]. destruct (sc_authorized cl); cbn; auto. }
    destruct Hflags as (T1 & T2).
    assert (Hrecs : forall cl', In cl' (sv_clients s') ->
              In cl' (sv_clients s) \/ (sc_slot cl' = slot0 /\ exists cl, In cl (sv_clients s) /\ sc_slot cl = slot0 /\ sc_authorized cl = false)).
    { unfold s', authorize_client. destruct (find_client s slot0) as [cl|] eqn:Ef; [|auto]. destruct (sc_authorized cl) eqn:Ea; [auto|].
      unfold find_client in Ef. apply find_some in Ef. destruct Ef as [Hcl Hs0]. cbn in Hs0.
      intros cl' Hin. unfold update_client, set_clients in Hin. cbn [sv_clients authorized_client sc_slot] in Hin.
      apply in_map_iff in Hin. destruct Hin as [c1 [E Hc1]]. destruct (sc_slot c1 =? slot0) eqn:E1; subst cl'; [|left; exact Hc1].
      right. split; [reflexivity|]. exists cl. split; [exact Hcl|]. split; [lia|exact Ea]. }
    assert (Hrec' : forall slot, has_rec s slot -> has_rec s' slot).
    { intros slot [c1 [Hin Hs1]]. unfold s', authorize_client. destruct (find_client s slot0) as [cl|] eqn:Ef; [|exists c1; auto].
      destruct (sc_authorized cl); [exists c1; auto|].
      exists (if sc_slot c1 =? slot0 then authorized_client cfg0 slot0 (sc_max_size cl) else c1). split.
      - unfold update_client, set_clients. cbn [sv_clients authorized_client sc_slot]. apply in_map_iff. exists c1. auto.
      - destruct (sc_slot c1 =? slot0) eqn:E1; [cbn; lia|exact Hs1]. }
    constructor.
    - exact Hcfg.
    - exact Hg'.
    - apply A3. exact Hnm.
    - cbn [set_server y_server]. fold s'. rewrite tick_frames_snoc. cbn [is_tick_frame]. rewrite T1. exact Htk.
    - intros slot c Hc. cbn [set_server y_clients y_server] in *.
      change (get_link (set_server y s') slot) with (get_link y slot). rewrite mode_of_snoc. cbn [mode_step].
      refine (slot_inv_mono script (StAuthorize slot0) _ s s' gs _ slot _ _ c eq_refl (conj (A1 slot) (Hrec' slot)) (Hsent slot) T1 T2 _ (A2 slot) _ (Hslots slot c Hc)).
      + rewrite A4. auto.
      + intros [ca [Hca [Hsa Haa]]] cl' Hin Hs1 Ha1. destruct (Hrecs cl' Hin) as [Hold|[Hs0 [cl [Hcl [Hsl Hna]]]]]; [exists cl'; auto|].
        exfalso. assert (ca = cl); [|subst ca; congruence].
        apply (nodup_slot_eq (sv_clients s)); [exact (gv_slots _ Hg)|exact Hca|exact Hcl|congruence].
  Qed.

  (* ---------- StDisconnect ---------- *)

  Lemma mode_disconnect script slot0 slot :
    mode_of (script ++ [StDisconnect slot0]) slot =
    (if slot0 =? slot then match mode_of script slot with MClean => MClean | _ => MLeft end else mode_of script slot).
  Proof. rewrite mode_of_snoc. reflexivity. Qed.

  (* the client of a session that is ended by a disconnect *)
  Lemma disconnected_left script m s gs slot lupd lmut cl :
    cs_inv cl -> mode_inv script m s gs slot lupd lmut cl -> left_ok (set_status cl Disconnected).
  Proof.
    intros Hinv H. destruct (set_status_disconnected_fields cl) as (_ & F2 & F3 & _).
    assert (Hdisc : cl_status cl = Disconnected -> left_ok cl -> left_ok (set_status cl Disconnected)).
    { intros Es (A & B & C). unfold left_ok, set_status. rewrite Es. cbn. auto. }
    assert (Hconn : cl_status cl = Connected -> (exists applied pend lm, cside cl applied pend lm) -> left_ok (set_status cl Disconnected)).
    { intros Es (applied & pend & lm & [C1 _ _ _ _ _ _ C8]). destruct (F2 Es) as [I1 I2]. split; [exact I1|]. split; [exact I2|].
      rewrite F3. intros Hl. destruct (C8 Hl) as [-> B]. split; [revert C1; apply srel_ext; reflexivity|exact B]. }
    destruct m; cbn [mode_inv] in H.
    - destruct H as (A & B & _). apply Hdisc; [exact A|apply clean_left; exact B].
    - destruct H as (_ & B & C). destruct (status_dec cl) as [Es|Es].
      + apply Hdisc; [exact Es|apply clean_left; exact (proj1 (B Es))].
      + destruct (C Es) as [_ [applied [C1 _]]]. apply Hconn; [exact Es|eauto].
    - destruct H as (A & B & _). apply Hdisc; assumption.
    - destruct H as (C & D). destruct (status_dec cl) as [Es|Es].
      + apply Hdisc; [exact Es|apply clean_left; exact (proj1 (C Es))].
      + destruct (D Es) as (_ & _ & _ & D4). destruct (F2 Es) as [I1 I2]. split; [exact I1|]. split; [exact I2|].
        rewrite F3. intros Hl. destruct (D4 Hl) as [R B]. split; [revert R; apply srel_ext; reflexivity|exact B].
  Qed.

  Lemma f_disconnect script y gs slot0 y' o :
    f_inv script y gs -> sys_step y (StDisconnect slot0) = Ok (y', o) ->
    f_inv (script ++ [StDisconnect slot0]) y' (ghost_step_s y gs (StDisconnect slot0)).
  Proof.
    intros Hinv H. pose proof Hinv as [Hcfg Hg Hnm Htk Hslots].
    cbn [sys_step ghost_step_s] in *.
    destruct (al_get slot0 (y_clients y)) as [cl|] eqn:Ec.
    2:{ inversion H; subst y' o. constructor; [exact Hcfg|exact Hg|exact Hnm|rewrite tick_frames_snoc; exact Htk|].
        intros slot c Hc. rewrite mode_disconnect. destruct (slot0 =? slot) eqn:E0; [assert (slot0 = slot) by lia; congruence|].
        refine (slot_inv_mono script _ _ (y_server y) (y_server y) gs gs slot _ _ c _
                    (conj (fun x => x) (fun x => x)) eq_refl eq_refl eq_refl (fun x => x) (fun x => x)
                    (fun _ => same_records _ _ slot eq_refl) (Hslots slot c Hc)). cbn. exact E0. }
    inversion H; subst y' o. clear H. set (s := y_server y) in *. set (s' := disconnect_client s slot0).
    pose proof (disconnect_inv_v (mkG s gs) slot0 Hg) as Hg'. cbn [g_srv g_sent] in Hg'. fold s' in Hg'.
    destruct (disconnect_forgets_client s slot0) as (D1 & _ & _ & D4 & _ & D6 & _ & _ & D9). fold s' in D1, D4, D6, D9.
    assert (Hrec : forall slot, slot <> slot0 -> (has_rec s' slot <-> has_rec s slot)).
    { intros slot Hne. split; intros [c1 [Hin Hs1]]; exists c1; (split; [|exact Hs1]).
      - apply D4 in Hin. tauto.
      - apply D4. split; [exact Hin|congruence]. }
    assert (Hauth : forall slot, slot <> slot0 -> has_auth s slot -> has_auth s' slot).
    { intros slot Hne [c1 [Hin [Hs1 Ha1]]]. exists c1. split; [apply D4; split; [exact Hin|congruence]|auto]. }
    assert (Hsent : forall slot, slot <> slot0 -> sent_of slot (sync_sent s' gs []) = sent_of slot gs).
    { intros slot Hne. rewrite (sync_sent_of_slot s gs s' [] slot Hg (gv_slots _ Hg') (Hauth slot Hne)); [reflexivity|intros o []]. }
    assert (Hnorec : ~ has_rec s' slot0) by (intros Hr; apply has_rec_find in Hr; congruence).
    constructor.
    - exact Hcfg.
    - exact Hg'.
    - intros c1 Hin. cbn in Hin. fold s in Hin. apply filter_In in Hin. exact (Hnm c1 (proj1 Hin)).
    - change (sv_tick s' <= tick_frames (script ++ [StDisconnect slot0])). rewrite tick_frames_snoc, D6. cbn [is_tick_frame]. exact Htk.
    - intros slot c Hc. unfold clear_link in *. cbn [set_link set_client set_server y_clients y_server] in *. fold s'.
      change (get_link (set_link (set_client (set_server y s') slot0 (set_status cl Disconnected)) slot0 link_empty) slot)
        with (get_link (set_link y slot0 link_empty) slot).
      rewrite mode_disconnect. destruct (N.eq_dec slot slot0) as [->|Hne].
      + rewrite N.eqb_refl, get_link_set_link_same. cbn [link_empty l_upd l_mut].
        rewrite al_get_insert_same in Hc. inversion Hc; subst c. clear Hc. destruct (Hslots slot0 cl Ec) as [O1 O2 O3 O4].
        destruct (set_status_disconnected_fields cl) as (F1 & _).
        constructor.
        * apply cs_inv_set_status. exact O1.
        * revert O2. apply pu_ext; reflexivity.
        * revert O3. apply hist_small_ext. reflexivity.
        * pose proof (disconnected_left script _ s gs slot0 _ _ cl O1 O4) as Hleft.
          destruct (mode_of script slot0) eqn:Em; cbn [mode_inv] in *; try (split; [exact F1|split; [exact Hleft|auto]]).
          destruct O4 as (A & (R & B & I & M) & _). split; [exact F1|]. split; [|auto].
          unfold clean, set_status. rewrite A. cbn. split; [revert R; apply srel_ext; reflexivity|auto].
      + replace (slot0 =? slot) with false by lia. rewrite al_get_insert_other in Hc by exact Hne.
        rewrite get_link_set_link_other by exact Hne.
        refine (slot_inv_mono script _ _ s s' gs _ slot _ _ c _ (Hrec slot Hne) (Hsent slot Hne) D6 eq_refl _ (Hauth slot Hne) _ (Hslots slot c Hc)).
        * cbn. lia.
        * rewrite D9. auto.
        * intros _ cl' Hin Hs1 Ha1. apply D4 in Hin. exists cl'. tauto.
  Qed.

  (* ---------- StSFrame ---------- *)

  Lemma in_app3 {A} (a b c : list A) x : In x ((a ++ b) ++ c) -> In x (a ++ c) \/ In x b.
  Proof.
    intros H. apply in_app_or in H. destruct H as [H|H]; [apply in_app_or in H; destruct H as [H|H]|].
    - left. apply in_or_app. left. exact H.
    - right. exact H.
    - left. apply in_or_app. right. exact H.
  Qed.

  Lemma f_sframe script y gs tick dt (cleanup : bool) ops parts y' o :
    f_inv script y gs -> run (sys_init cfg0 nclients) script = Ok y -> forallb sop_ok ops = true ->
    tick_frames (script ++ [StSFrame tick dt cleanup ops parts]) < 2 ^ 31 ->
    sys_step y (StSFrame tick dt cleanup ops parts) = Ok (y', o) ->
    f_inv (script ++ [StSFrame tick dt cleanup ops parts]) y' (ghost_step_s y gs (StSFrame tick dt cleanup ops parts)).
  Proof.
    intros [Hcfg Hg Hnm Htk Hslots] Hrun0 Hops Hbound H.
    assert (Hreach : forall slot, reached_s (script ++ [StSFrame tick dt cleanup ops parts]) slot y').
    { intros slot. apply reached_s_last. rewrite run_app, Hrun0. cbn [bind run]. rewrite H. reflexivity. }
    cbn [sys_step ghost_step_s ghost_step] in *. rewrite Hcfg in *. set (s := y_server y) in *.
    destruct (server_frame cfg0 s tick dt cleanup ops parts) as [[s' fo]| |] eqn:Ef; cbn [bind] in H; try discriminate.
    inversion H; subst y' o. clear H. set (outs := fo_clients fo) in *.
    destruct (gframe_ok_v cfg0 (mkG s gs) tick dt cleanup ops parts s' fo Hg Ef) as (Hg' & Hran & Hnot). cbn [g_srv g_sent] in *.
    destruct (server_frame_clients_v cfg0 (mkG s gs) tick dt cleanup ops parts s' fo Hg Hnm Hops Ef)
      as (N1 & N2 & N3 & N4 & N5 & N6 & N7 & N8). cbn [g_srv] in *. fold outs in N5, N6, N7, N8.
    destruct (server_frame_ticks_v cfg0 s tick dt cleanup ops parts s' fo Ef) as (K1 & K2 & K3 & K4 & K5). fold outs in K5.
    destruct (enqueue_fields outs (set_server y s')) as (Q1 & Q2 & Q3).
    pose proof Npow31 as P31. pose proof Npow32 as P32.
    rewrite tick_frames_snoc in Hbound. cbn [is_tick_frame] in Hbound.
    assert (Htk' : sv_tick s' <= tick_frames (script ++ [StSFrame tick dt cleanup ops parts])).
    { rewrite tick_frames_snoc. cbn [is_tick_frame]. destruct K4 as [K4|K4]; rewrite K4; [lia|].
      destruct tick; [pose proof (tick_add_le (sv_tick s)); lia|lia]. }
    constructor.
    - rewrite Q1. exact Hcfg.
    - rewrite Q2. exact Hg'.
    - rewrite Q2. exact N1.
    - rewrite Q2. exact Htk'.
    - intros slot c Hc. rewrite Q3 in Hc. cbn [set_server y_clients] in Hc. rewrite Q2. cbn [set_server y_server].
      rewrite enqueue_lupd, enqueue_lmut. change (get_link (set_server y s') slot) with (get_link y slot).
      rewrite mode_of_snoc. cbn [mode_step].
      destruct (Hslots slot c Hc) as [O1 O2 O3 O4]. constructor; [exact O1|exact O2|exact O3|].
      rewrite (updates_for_upd_for slot outs N5).
      destruct (sv_running s) eqn:Er.
      2:{ (* the server is stopped: nothing is sent, records are kept or reset *)
          rewrite (N8 eq_refl). cbn [upd_for find mutates_for flat_map]. rewrite !app_nil_r.
          destruct (mode_of script slot) eqn:Em; cbn [mode_inv] in *.
          - destruct O4 as (A & B & C & D). split; [exact A|]. split; [exact B|]. split; [intros Hr; exact (C (N3 slot Hr))|exact D].
          - destruct O4 as (A & B & C). destruct (status_dec c) as [Es|Es]; [|destruct (C Es) as [Hr _]; congruence].
            split; [|split; [exact B|intros Hc'; congruence]].
            split; [intros Hr; apply A; exact (N3 slot Hr)|intros Hc'; congruence].
          - destruct O4 as (A & B & C & D). split; [exact A|]. split; [exact B|]. split; [intros Hr; exact (C (N3 slot Hr))|exact D].
          - destruct O4 as (C & D). split; [|exact D].
            intros Hd. destruct (C Hd) as (C1 & C2 & C3). split; [exact C1|]. split; [intros Hr; exact (C2 (N3 slot Hr))|exact C3]. }
      (* the server is running *)
      specialize (N4 eq_refl). specialize (K3 eq_refl).
      assert (Hrec : has_rec s' slot <-> has_rec s slot) by (rewrite !has_rec_sig, N4; reflexivity).
      assert (Hau : has_auth s slot -> has_auth s' slot).
      { intros Ha. apply has_auth_sig. rewrite N4. apply has_auth_sig. exact Ha. }
      assert (Hsent : sent_of slot (sync_sent s' gs outs) = abs_send (sent_of slot gs) (upd_for slot outs)).
      { apply (sync_sent_of_slot s gs s' outs slot Hg (gv_slots _ Hg') Hau). intros o1 Ho1 <-. exact (N6 o1 Ho1). }
      assert (Hnoout : ~ has_rec s slot -> upd_for slot outs = None /\ mutates_for slot outs = []).
      { intros Hno. assert (Hn : ~ In slot (map co_slot outs)).
        { intros Hin. apply in_map_iff in Hin. destruct Hin as [o1 [Es Ho1]]. apply Hno. apply Hrec.
          destruct (N6 o1 Ho1) as [c1 [A [B _]]]. exists c1. split; [exact A|congruence]. }
        split; [exact (proj1 (upd_for_none slot outs Hn))|].
        destruct (mutates_for slot outs) as [|m0 t0] eqn:Em; [reflexivity|]. exfalso.
        destruct (mutates_for_in slot outs m0) as [o1 [Ho1 [Es _]]]; [rewrite Em; left; reflexivity|].
        apply Hn. apply in_map_iff. exists o1. auto. }
      assert (Hidle : ~ has_rec s slot -> forall P : list update_msg -> list mutate_msg -> Prop,
                P (l_upd (get_link y slot)) (l_mut (get_link y slot)) ->
                P (l_upd (get_link y slot) ++ match upd_for slot outs with Some u => [u] | None => [] end)
                  (l_mut (get_link y slot) ++ mutates_for slot outs)).
      { intros Hno P HP. destruct (Hnoout Hno) as [-> ->]. rewrite !app_nil_r. exact HP. }
      destruct (mode_of script slot) eqn:Em; cbn [mode_inv] in *.
      + destruct O4 as (A & B & C & D). apply (Hidle C (fun lu lm => inv_clean s' slot lu lm c)).
        split; [exact A|]. split; [exact B|]. split; [rewrite Hrec; exact C|exact D].
      + destruct O4 as (A & B & C). destruct (status_dec c) as [Es|Es].
        { assert (Hno : ~ has_rec s slot) by (intros Hr; apply A in Hr; congruence).
          apply (Hidle Hno (fun lu lm => inv_live _ s' _ slot lu lm c)).
          split; [rewrite Hrec; exact A|]. split; [exact B|intros Hc'; congruence]. }
        destruct (C Es) as [_ [applied [[C1 C2 C3 C4 C5 C6 C7 C8] [L1 L2 L3 L4 L5 L6]]]].
        set (sent := applied ++ cl_inbox_upd c ++ l_upd (get_link y slot)) in *.
        set (oldm := l_mut (get_link y slot) ++ cl_inbox_mut c ++ cl_buffered c) in *.
        (* ticks *)
        assert (Htke : sv_tick s' = (if tick then sv_tick s + 1 else sv_tick s)).
        { rewrite K3. destruct tick; [|reflexivity]. apply tick_add_one. lia. }
        assert (Hsm' : sv_tick s' < 2 ^ 31) by (rewrite Htke; destruct tick; lia).
        assert (Hle : sv_tick s <= sv_tick s') by (rewrite Htke; destruct tick; lia).
        assert (Hb_old : forall t, bound_ok s t -> bound_ok s' t) by (unfold bound_ok; intros t [X Y]; split; [lia|exact K1]).
        assert (Hstrict : outs <> [] -> forall t, bound_ok s t -> t < sv_tick s').
        { intros Hne t [X Y]. destruct (K5 Hne) as [_ [Ht|Hd]]; [|congruence]. subst tick. rewrite Htke. lia. }
        assert (Hfr : outs <> [] -> fo_ran fo = true).
        { intros Hne. destruct (fo_ran fo) eqn:E; [reflexivity|]. exfalso. apply Hne. exact (Hnot eq_refl). }
        (* the update tick the server keeps *)
        set (lt := fun sl : N => if sl =? slot then match sent with [] => None | _ => Some (u_tick (last sent dflt_upd)) end else None).
        assert (Hut : upd_ticks_ok lt s).
        { intros cl Hin Ha t Hl. unfold lt in Hl. destruct (sc_slot cl =? slot) eqn:E1; [|discriminate].
          destruct sent as [|u0 t0] eqn:Esent; [discriminate|]. inversion Hl; subst t.
          apply L6; [exact Hin|lia|exact Ha|discriminate]. }
        destruct (server_frame_muts_v cfg0 (mkG s gs) tick dt cleanup ops parts s' fo lt Hg Hut Hops Ef) as [M1 M2].
        fold outs in M1, M2. cbn [g_srv] in M2.
        assert (Hltsome : sent <> [] -> lt slot = Some (u_tick (last sent dflt_upd))).
        { intros Hne. unfold lt. rewrite N.eqb_refl. destruct sent; [congruence|reflexivity]. }
        assert (Hstr : forall cl', In cl' (sv_clients s') -> sc_slot cl' = slot -> sc_authorized cl' = true -> outs <> [] ->
                  struct_equiv (abs_send (sent_of slot gs) (upd_for slot outs)) (struct_vis s' cl')).
        { intros cl' X Y Z Hne. pose proof (Hran (Hfr Hne) cl' X Z) as G. rewrite Y in G. exact G. }
        (* a mutate message produced by this frame for the slot *)
        assert (Hnew : forall m, In m (mutates_for slot outs) ->
                  outs <> [] /\ m_tick m = sv_tick s' /\
                  match upd_for slot outs with
                  | Some u => m_upd_tick m = u_tick u
                  | None => sent <> [] -> m_upd_tick m = u_tick (last sent dflt_upd)
                  end /\
                  forall e comps, In (e, comps) (m_body m) ->
                    kinds_sub (map fst comps) (kinds_of (abs_send (sent_of slot gs) (upd_for slot outs)) e)).
        { intros m Hm. destruct (mutates_for_in slot outs m Hm) as (o1 & Ho1 & Eso & Hmo).
          destruct (M1 o1 m Ho1 Hmo) as (G1 & G2 & cl' & X & Y & Z & G3). pose proof (upd_for_of_out outs o1 N5 Ho1) as Eup. rewrite Eso in Eup.
          assert (Hne : outs <> []) by (intros E0; rewrite E0 in Ho1; destruct Ho1).
          split; [exact Hne|]. split; [exact G1|]. split.
          - rewrite Eup. destruct (co_update o1) as [u|]; [exact G2|]. intros Hne0. apply G2. rewrite Eso. exact (Hltsome Hne0).
          - intros e comps Hb. apply (kinds_sub_equiv _ (struct_vis s' cl')); [|exact (G3 e comps Hb)].
            apply struct_equiv_symm. apply Hstr; [exact X|congruence|exact Z|exact Hne]. }
        assert (Hconn : cl_status c = Connected) by exact Es.
        destruct (upd_for slot outs) as [u|] eqn:Eu.
        * destruct (upd_for_in slot outs u Eu) as (o1 & Ho1 & Hso & Huo).
          destruct (N7 o1 u Ho1 Huo) as [Hmp Ht]. pose proof (N6 o1 Ho1) as Hauth. rewrite Hso in Hauth.
          assert (Hne : outs <> []) by (intros E0; rewrite E0 in Ho1; destruct Ho1).
          assert (Eassoc : applied ++ cl_inbox_upd c ++ l_upd (get_link y slot) ++ [u] = sent ++ [u]).
          { unfold sent. rewrite <- !app_assoc. reflexivity. }
          assert (Hfold : fold_left abs_apply (sent ++ [u]) [] = abs_apply (sent_of slot gs) u).
          { rewrite fold_left_app. cbn [fold_left]. rewrite L1. reflexivity. }
          split; [rewrite Hrec; exact A|]. split; [intros Hd; congruence|].
          intros _. split; [rewrite N2; reflexivity|]. exists applied. split.
          -- constructor.
             ++ exact C1.
             ++ rewrite !forallb_app in *. apply andb_prop in C2. destruct C2 as [X Y]. rewrite X, Y. cbn. unfold no_maps. rewrite Hmp. reflexivity.
             ++ exact C3.
             ++ rewrite Eassoc. intros u0 Hin. apply in_app_or in Hin. destruct Hin as [Hin|[<-|[]]]; [exact (C4 u0 Hin)|].
                unfold small_tick. rewrite Ht. exact Hsm'.
             ++ rewrite Eassoc. apply ticks_incr_snoc; [exact C5|]. intros a Ha. rewrite Ht. exact (Hstrict Hne _ (L3 a Ha)).
             ++ exact C6.
             ++ rewrite Eassoc. intros m Hm. apply in_app3 in Hm. destruct Hm as [Hm|Hm].
                ** apply mmsg_ok_snoc; [exact (C7 m Hm)|]. rewrite Ht. exact (Hstrict Hne _ (L4 m Hm)).
                ** destruct (Hnew m Hm) as (_ & G1 & G2 & G3).
                   split; [unfold small_tick; rewrite G1; exact Hsm'|]. exists (sent ++ [u]), [].
                   split; [rewrite app_nil_r; reflexivity|]. split; [intros _; rewrite last_snoc; exact G2|]. split; [intros u0 []|].
                   intros e comps Hb. rewrite Hfold. exact (G3 e comps Hb).
             ++ exact C8.
          -- rewrite Eassoc. constructor.
             ++ rewrite Hfold, Hsent. reflexivity.
             ++ intros p q E Hp. symmetry in E. apply app_snoc_split in E. destruct E as [[-> ->]|[q' [-> E]]].
                ** destruct Hauth as [cl' [X [Y Z]]]. exists (enqueue_outputs (set_server y s') outs), cl'.
                   split; [apply Hreach|]. rewrite Q2. cbn [set_server y_server].
                   split; [rewrite <- Y; exact (find_client_of_in s' cl' (gv_slots _ Hg') X)|]. split; [exact Z|].
                   split; [rewrite Hfold; exact (Hstr cl' X Y Z Hne)|rewrite last_snoc; exact Ht].
                ** destruct (L2 p q' E Hp) as (y1 & cl1 & R & X). exists y1, cl1. split; [apply reached_s_mono; [reflexivity|exact R]|exact X].
             ++ intros u0 Hin. apply in_app_or in Hin. destruct Hin as [Hin|[<-|[]]]; [exact (Hb_old _ (L3 u0 Hin))|].
                split; [rewrite Ht; lia|exact K1].
             ++ intros m Hm. apply in_app3 in Hm. destruct Hm as [Hm|Hm]; [exact (Hb_old _ (L4 m Hm))|].
                destruct (Hnew m Hm) as (_ & G1 & _). split; [rewrite G1; lia|exact K1].
             ++ intros _. exact Hauth.
             ++ intros cl' Hin Hsl Ha _. pose proof (M2 cl' Hin Ha Er) as G. rewrite Hsl, Eu in G.
                rewrite last_snoc. exact G.
        * rewrite app_nil_r. fold sent.
          split; [rewrite Hrec; exact A|]. split; [intros Hd; congruence|].
          intros _. split; [rewrite N2; reflexivity|]. exists applied. fold sent. split.
          -- constructor; try assumption.
             intros m Hm. apply in_app3 in Hm. destruct Hm as [Hm|Hm]; [exact (C7 m Hm)|].
             destruct (Hnew m Hm) as (Hne & G1 & G2 & G3).
             split; [unfold small_tick; rewrite G1; exact Hsm'|]. exists sent, [].
             split; [rewrite app_nil_r; reflexivity|]. split; [exact G2|]. split; [intros u0 []|].
             intros e comps Hb. rewrite L1. exact (G3 e comps Hb).
          -- constructor.
             ++ rewrite L1, Hsent. reflexivity.
             ++ apply snaps_v_mono; [reflexivity|exact L2].
             ++ intros u0 Hin. exact (Hb_old _ (L3 u0 Hin)).
             ++ intros m Hm. apply in_app3 in Hm. destruct Hm as [Hm|Hm]; [exact (Hb_old _ (L4 m Hm))|].
                destruct (Hnew m Hm) as (_ & G1 & _). split; [rewrite G1; lia|exact K1].
             ++ intros Hne. apply Hau. exact (L5 Hne).
             ++ intros cl' Hin Hsl Ha Hne. pose proof (M2 cl' Hin Ha Er) as G. rewrite Hsl, Eu in G. apply G. exact (Hltsome Hne).
      + destruct O4 as (A & B & C & D). apply (Hidle C (fun lu lm => inv_left s' slot lu lm c)).
        split; [exact A|]. split; [exact B|]. split; [rewrite Hrec; exact C|exact D].
      + (* the server was stopped and started again without a reset: it still sends to the slot *)
        destruct O4 as (C & D). split.
        * intros Hd. destruct (C Hd) as (C1 & C2 & C3).
          apply (Hidle C2 (fun lu lm => clean c /\ ~ has_rec s' slot /\ lu = [] /\ lm = [])). rewrite Hrec. auto.
        * intros Hcn. destruct (D Hcn) as (D1 & D2 & D3 & D4).
          assert (Hsm' : sv_tick s' < 2 ^ 31).
          { rewrite tick_frames_snoc in Htk'. cbn [is_tick_frame] in Htk'. destruct tick; lia. }
          assert (Hut : upd_ticks_ok (fun _ : N => None) s) by (intros cl Hin Ha t Hl; discriminate).
          destruct (server_frame_muts_v cfg0 (mkG s gs) tick dt cleanup ops parts s' fo _ Hg Hut Hops Ef) as [M1 _].
          fold outs in M1.
          assert (Hups : forall u, In u (match upd_for slot outs with Some u => [u] | None => [] end) ->
                    no_maps u = true /\ small_tick (u_tick u)).
          { intros u Hu. destruct (upd_for slot outs) as [u1|] eqn:Eu; [|destruct Hu]. destruct Hu as [<-|[]].
            destruct (upd_for_in slot outs u1 Eu) as (o1 & Ho1 & _ & Huo). destruct (N7 o1 u1 Ho1 Huo) as [Hmp Ht].
            split; [unfold no_maps; rewrite Hmp; reflexivity|unfold small_tick; rewrite Ht; exact Hsm']. }
          split; [|split; [|split; [|exact D4]]].
          -- rewrite app_assoc, forallb_app, D1. cbn [andb]. apply forallb_forall. intros u Hu. exact (proj1 (Hups u Hu)).
          -- intros u Hu. rewrite app_assoc in Hu. apply in_app_or in Hu. destruct Hu as [Hu|Hu]; [exact (D2 u Hu)|exact (proj2 (Hups u Hu))].
          -- intros m Hm. apply in_app3 in Hm. destruct Hm as [Hm|Hm]; [exact (D3 m Hm)|].
             destruct (mutates_for_in slot outs m Hm) as (o1 & Ho1 & _ & Hmo). destruct (M1 o1 m Ho1 Hmo) as (G1 & _).
             unfold small_tick. rewrite G1. exact Hsm'.
  Qed.

  (* ---------- StCFrame ---------- *)

  Lemma slink_weaken script s gs slot sent muts muts' :
    (forall m, In m muts' -> In m muts) -> slink script s gs slot sent muts -> slink script s gs slot sent muts'.
  Proof. intros Hi [H1 H2 H3 H4 H5 H6]. constructor; auto. Qed.

  Lemma frame_lnd c ops c' out : client_frame c ops = Ok (c', out) ->
    cl_last_not_disconnected c' = match cl_status c' with Connected => true | Disconnected => false end.
  Proof.
    intros H. unfold client_frame in H. apply bind_ok in H. destruct H as [[c2 out2] [_ H]]. inversion H; subst c' out. reflexivity.
  Qed.

  (* a frame of a client that is not connected: afterwards it is clean *)
  Lemma cframe_disc cl ops cl' cfo :
    cs_inv cl -> pu cl -> hist_small cl -> cl_status cl = Disconnected -> left_ok cl ->
    client_frame cl ops = Ok (cl', cfo) ->
    cs_inv cl' /\ pu cl' /\ hist_small cl' /\ cl_status cl' = Disconnected /\ clean cl'.
  Proof.
    intros Hinv Hpu Hhs Es (I & M & F) H.
    destruct (frame_disconnected_gen cl ops cl' cfo Hinv Hpu F Es H) as (D1 & D2 & D3 & D4 & D5 & D6 & D7 & _).
    split; [exact D1|]. split; [exact D2|]. split; [exact (frame_disconnected_hs_gen cl ops cl' cfo Hhs Es H)|].
    split; [exact D4|]. split; [exact D3|]. rewrite D5, D6. auto.
  Qed.

  (* a frame of a connected client *)
  Lemma cframe_conn c applied rest lmut ops c' out :
    cs_inv c -> pu c -> hist_small c -> cl_status c = Connected ->
    cside c applied (cl_inbox_upd c ++ rest) lmut -> client_frame c ops = Ok (c', out) ->
    cs_inv c' /\ pu c' /\ hist_small c' /\ cl_status c' = Connected /\ cl_inbox_upd c' = [] /\ cl_inbox_mut c' = [] /\
    (forall m, In m (cl_buffered c') -> In m (cl_inbox_mut c ++ cl_buffered c)) /\
    cside c' (applied ++ cl_inbox_upd c) (cl_inbox_upd c' ++ rest) lmut.
  Proof.
    intros Hinv Hpu Hhs Es [C1 C2 C3 C4 C5 C6 C7 C8] H.
    pose proof C2 as C2'. rewrite forallb_app in C2'. apply andb_prop in C2'. destruct C2' as [C2a C2b].
    assert (Hpre : hist_pre c applied rest).
    { constructor; try assumption. intros m Hm. apply C7. apply in_or_app. right. exact Hm. }
    destruct (frame_hist c applied rest ops c' out Hpre Es H) as (I & P & R & Hh & S & Tk & Ei & Em & St & Kb).
    pose proof (frame_lnd c ops c' out H) as Hl. rewrite St in Hl.
    split; [exact I|]. split; [exact P|]. split; [exact S|]. split; [exact St|]. split; [exact Ei|]. split; [exact Em|].
    split; [exact Kb|]. rewrite Ei. cbn [app].
    assert (Eassoc : (applied ++ cl_inbox_upd c) ++ rest = applied ++ cl_inbox_upd c ++ rest) by (rewrite <- app_assoc; reflexivity).
    constructor.
    - exact R.
    - exact C2b.
    - exact Tk.
    - rewrite Eassoc. exact C4.
    - rewrite Eassoc. exact C5.
    - exact Hh.
    - rewrite Eassoc, Em. cbn [app]. intros m Hm. apply C7. apply in_app_or in Hm. apply in_or_app.
      destruct Hm as [Hm|Hm]; [left; exact Hm|right; exact (Kb m Hm)].
    - intros Hf. congruence.
  Qed.

  Lemma mode_cframe script slot0 ops slot :
    mode_of (script ++ [StCFrame slot0 ops]) slot =
    (if slot0 =? slot then match mode_of script slot with MLeft => MClean | m => m end else mode_of script slot).
  Proof. rewrite mode_of_snoc. cbn [mode_step]. destruct (slot0 =? slot); [destruct (mode_of script slot)|]; reflexivity. Qed.

  Lemma f_cframe script y gs slot0 ops y' o :
    f_inv script y gs -> sys_step y (StCFrame slot0 ops) = Ok (y', o) ->
    f_inv (script ++ [StCFrame slot0 ops]) y' gs.
  Proof.
    intros Hinv H. pose proof Hinv as [Hcfg Hg Hnm Htk Hslots].
    assert (Hother : forall (s' : server) slot c, slot <> slot0 -> sv_clients s' = sv_clients (y_server y) ->
              sv_tick s' = sv_tick (y_server y) -> sv_dirty s' = sv_dirty (y_server y) -> sv_running s' = sv_running (y_server y) ->
              al_get slot (y_clients y) = Some c ->
              slot_inv (script ++ [StCFrame slot0 ops]) (mode_of (script ++ [StCFrame slot0 ops]) slot) s' gs slot
                       (l_upd (get_link y slot)) (l_mut (get_link y slot)) c).
    { intros s' slot c Hne Ecl Et Ed Er Hc. rewrite mode_cframe. replace (slot0 =? slot) with false by lia.
      refine (slot_inv_mono script (StCFrame slot0 ops) _ (y_server y) s' gs gs slot _ _ c eq_refl _ eq_refl Et Ed _ _ _ (Hslots slot c Hc)).
      - split; apply has_rec_clients; [exact Ecl|symmetry; exact Ecl].
      - rewrite Er. auto.
      - apply has_auth_clients. exact Ecl.
      - intros _. apply same_records. exact Ecl. }
    destruct (al_get slot0 (y_clients y)) as [cl|] eqn:Ec.
    2:{ cbn [sys_step] in H. rewrite Ec in H. inversion H; subst y' o.
        constructor; [exact Hcfg|exact Hg|exact Hnm|rewrite tick_frames_snoc; exact Htk|].
        intros slot c Hc. apply Hother; try reflexivity; [intros ->; congruence|exact Hc]. }
    destruct (client_frame cl ops) as [[cl' cfo]| |] eqn:Ef;
      [|cbn [sys_step] in H; rewrite Ec, Ef in H; discriminate|cbn [sys_step] in H; rewrite Ec, Ef in H; discriminate].
    pose proof (cframe_sys_lmut y slot0 ops y' o H) as F3m.
    destruct (cframe_sys y slot0 ops cl cl' cfo y' o Ec Ef H) as (F1 & F2 & F3 & [pcs F4]).
    set (s := y_server y) in *.
    assert (Ecl : sv_clients (y_server y') = sv_clients s) by (rewrite F4; reflexivity).
    assert (Hrec : forall slot, has_rec (y_server y') slot <-> has_rec s slot).
    { intros slot. split; apply has_rec_clients; [exact Ecl|symmetry; exact Ecl]. }
    constructor.
    - congruence.
    - rewrite F4. exact (gstep_inv_v cfg0 (mkG s gs) (GPublish slot0 pcs) _ Hg eq_refl).
    - rewrite F4. revert Hnm. apply nomaps_same. reflexivity.
    - rewrite F4, tick_frames_snoc. exact Htk.
    - intros slot c Hc. rewrite F2 in Hc. rewrite F3, F3m. destruct (N.eq_dec slot slot0) as [->|Hne].
      2:{ rewrite al_get_insert_other in Hc by exact Hne. apply Hother; try (rewrite F4; reflexivity); assumption. }
      rewrite al_get_insert_same in Hc. inversion Hc; subst c. clear Hc. rewrite mode_cframe, N.eqb_refl.
      destruct (Hslots slot0 cl Ec) as [O1 O2 O3 O4].
      (* the client was not connected *)
      assert (Hdisc : cl_status cl = Disconnected -> left_ok cl ->
                cs_inv cl' /\ pu cl' /\ hist_small cl' /\ cl_status cl' = Disconnected /\ clean cl').
      { intros Es Hl. exact (cframe_disc cl ops cl' cfo O1 O2 O3 Es Hl Ef). }
      destruct (mode_of script slot0) eqn:Em; cbn [mode_inv] in O4.
      + destruct O4 as (A & B & C & D). destruct (Hdisc A (clean_left _ B)) as (I & P & S & St & Cl).
        constructor; [exact I|exact P|exact S|]. cbn [mode_inv]. split; [exact St|]. split; [exact Cl|]. rewrite Hrec. auto.
      + destruct O4 as (A & B & C). destruct (status_dec cl) as [Es|Es].
        * destruct (B Es) as (B1 & B2). destruct (Hdisc Es (clean_left _ B1)) as (I & P & S & St & Cl).
          constructor; [exact I|exact P|exact S|]. cbn [mode_inv]. split; [|split; [intros _; auto|intros Hc'; congruence]].
          rewrite Hrec, St. rewrite Es in A. exact A.
        * destruct (C Es) as [Hr [applied [C1 L]]].
          destruct (cframe_conn cl applied _ _ ops cl' cfo O1 O2 O3 Es C1 Ef) as (I & P & S & St & Ei & Emu & Kb & C1').
          constructor; [exact I|exact P|exact S|]. cbn [mode_inv]. split; [|split; [intros Hd; congruence|]].
          { rewrite Hrec, St. rewrite Es in A. exact A. }
          intros _. split; [rewrite F4; exact Hr|]. exists (applied ++ cl_inbox_upd cl). split; [exact C1'|].
          rewrite Ei, Emu. cbn [app]. rewrite <- app_assoc.
          apply (slink_weaken _ _ _ _ _ (l_mut (get_link y slot0) ++ cl_inbox_mut cl ++ cl_buffered cl)).
          { intros m Hm. apply in_app_or in Hm. apply in_or_app. destruct Hm as [Hm|Hm]; [left; exact Hm|right; exact (Kb m Hm)]. }
          apply (slink_mono script (StCFrame slot0 ops) s (y_server y') gs gs); try (rewrite F4; reflexivity); try reflexivity.
          -- apply has_auth_clients. exact Ecl.
          -- intros _ _. apply same_records. exact Ecl.
          -- exact L.
      + destruct O4 as (A & B & C & D). destruct (Hdisc A B) as (I & P & S & St & Cl).
        constructor; [exact I|exact P|exact S|]. cbn [mode_inv]. split; [exact St|]. split; [exact Cl|]. rewrite Hrec. auto.
      + destruct O4 as (C & D). destruct (status_dec cl) as [Es|Es].
        * destruct (C Es) as (C1 & C2 & C3). destruct (Hdisc Es (clean_left _ C1)) as (I & P & S & St & Cl).
          constructor; [exact I|exact P|exact S|]. cbn [mode_inv].
          split; [intros _; split; [exact Cl|]; split; [rewrite Hrec; exact C2|exact C3]|intros Hc'; congruence].
        * destruct (D Es) as (D1 & D2 & D3 & D4).
          pose proof D1 as D1'. rewrite forallb_app in D1'. apply andb_prop in D1'. destruct D1' as [D1a D1b].
          destruct (cframe_weak cl ops cl' cfo O1 O2 O3 Es D1a
                      (fun u Hu => D2 u (in_or_app _ _ _ (or_introl Hu)))
                      (fun m Hm => D3 m (in_or_app _ _ _ (or_intror Hm))) Ef) as (I & P & S & St & Ei & Emu & Kb).
          pose proof (frame_lnd cl ops cl' cfo Ef) as Hl. rewrite St in Hl.
          constructor; [exact I|exact P|exact S|]. cbn [mode_inv]. split; [intros Hd; congruence|]. intros _.
          rewrite <- F3, <- F3m. unfold stale_conn. rewrite Ei, Emu, F3, F3m. cbn [app].
          split; [exact D1b|]. split; [intros u Hu; apply D2; apply in_or_app; right; exact Hu|].
          split; [|intros Hf; congruence].
          intros m Hm. apply D3. apply in_app_or in Hm. apply in_or_app.
          destruct Hm as [Hm|Hm]; [left; exact Hm|right; exact (Kb m Hm)].
  Qed.

  (* ---------- StDeliver / StDrop ---------- *)

  Lemma deliver_acks_fold_v slot picked : forall s gs, ginv_v (mkG s gs) ->
    let s' := fold_left (fun s idxs => deliver_acks s slot idxs) picked s in
    ginv_v (mkG s' gs) /\ sv_clients s' = sv_clients s /\ sv_running s' = sv_running s.
  Proof.
    induction picked as [|idxs t IH]; intros s gs Hg; cbn [fold_left]; [auto|].
    pose proof (gstep_inv_v cfg0 (mkG s gs) (GAcks slot idxs) _ Hg eq_refl) as Hg1. cbn [g_srv g_sent] in Hg1.
    destruct (IH (deliver_acks s slot idxs) gs Hg1) as (A & B & C). destruct (deliver_acks_clients s slot idxs) as [D E].
    cbv zeta in *. split; [exact A|]. split; congruence.
  Qed.

  (* only a connected client has something queued *)
  Lemma queued_live script m s gs slot lupd lmut c :
    mode_inv script m s gs slot lupd lmut c -> lupd <> [] \/ lmut <> [] -> (m = MLive \/ m = MStale) /\ cl_status c = Connected.
  Proof.
    intros H Hne. destruct m; cbn [mode_inv] in H.
    - destruct H as (_ & _ & _ & -> & ->). destruct Hne; congruence.
    - split; [left; reflexivity|]. destruct H as (_ & B & _). destruct (status_dec c) as [Es|Es]; [|exact Es].
      destruct (B Es) as (_ & -> & ->). destruct Hne; congruence.
    - destruct H as (_ & _ & _ & -> & ->). destruct Hne; congruence.
    - split; [right; reflexivity|]. destruct H as (C & _). destruct (status_dec c) as [Es|Es]; [|exact Es].
      destruct (C Es) as (_ & _ & -> & ->). destruct Hne; congruence.
  Qed.

  (* a step that only moves messages between the queues of a live slot and the inboxes of its client *)
  Lemma f_link_live script st y gs slot0 cl cl' lu lm la :
    f_inv script y gs -> is_tick_frame st = false ->
    (forall slot m, mode_step slot m st = m) -> (forall slot, ends_session slot st = false) ->
    al_get slot0 (y_clients y) = Some cl -> mode_of script slot0 = MLive \/ mode_of script slot0 = MStale -> cl_status cl = Connected ->
    cl_s2c cl' = cl_s2c cl -> cl_c2s cl' = cl_c2s cl -> cl_ents cl' = cl_ents cl -> cl_next cl' = cl_next cl ->
    cl_upd_tick cl' = cl_upd_tick cl -> cl_status cl' = cl_status cl -> cl_buffered cl' = cl_buffered cl ->
    cl_last_not_disconnected cl' = cl_last_not_disconnected cl ->
    cl_inbox_upd cl' ++ lu = cl_inbox_upd cl ++ l_upd (get_link y slot0) ->
    (forall m, In m (lm ++ cl_inbox_mut cl') -> In m (l_mut (get_link y slot0) ++ cl_inbox_mut cl)) ->
    f_inv (script ++ [st]) (set_client (set_link y slot0 (mkLink lu lm la)) slot0 cl') gs.
  Proof.
    intros [Hcfg Hg Hnm Htk Hslots] Hnt Hmode Hends Ec Em Es E1 E2 E3 E4 E5 E6 E7 E8 Hupd Hmut.
    constructor; [exact Hcfg|exact Hg|exact Hnm|rewrite tick_frames_snoc, Hnt; exact Htk|].
    intros slot c Hc. cbn [set_client set_link y_clients y_server] in *.
    change (get_link (set_client (set_link y slot0 (mkLink lu lm la)) slot0 cl') slot)
      with (get_link (set_link y slot0 (mkLink lu lm la)) slot).
    rewrite mode_of_snoc, Hmode.
    destruct (N.eq_dec slot slot0) as [->|Hne].
    2:{ rewrite al_get_insert_other in Hc by exact Hne. rewrite get_link_set_link_other by exact Hne.
        refine (slot_inv_mono script st _ (y_server y) _ gs gs slot _ _ c (Hends slot) _ eq_refl eq_refl eq_refl _ _ _ (Hslots slot c Hc));
          [tauto|auto|auto|]. intros _. apply same_records. reflexivity. }
    rewrite al_get_insert_same in Hc. inversion Hc; subst c. clear Hc. rewrite get_link_set_link_same. cbn [l_upd l_mut].
    destruct (Hslots slot0 cl Ec) as [O1 O2 O3 O4].
    assert (Hsub : forall m, In m (lm ++ cl_inbox_mut cl' ++ cl_buffered cl') ->
              In m (l_mut (get_link y slot0) ++ cl_inbox_mut cl ++ cl_buffered cl)).
    { intros m Hm. rewrite E7 in Hm. rewrite app_assoc in Hm. apply in_app_or in Hm. rewrite app_assoc. apply in_or_app.
      destruct Hm as [Hm|Hm]; [left; exact (Hmut m Hm)|right; exact Hm]. }
    constructor.
    - revert O1. apply cs_inv_ext; assumption.
    - revert O2. apply pu_ext; assumption.
    - revert O3. apply hist_small_ext. exact E3.
    - destruct Em as [Em|Em]; rewrite Em in *; cbn [mode_inv] in *.
      2:{ destruct O4 as (_ & D). split; [rewrite E6; intros Hd; congruence|]. intros _.
          destruct (D Es) as (D1 & D2 & D3 & D4). unfold stale_conn. rewrite Hupd.
          split; [exact D1|]. split; [exact D2|]. split; [intros m Hm; exact (D3 m (Hsub m Hm))|].
          rewrite E8, E7. intros Hl. destruct (D4 Hl) as [R B]. split; [revert R; apply srel_ext; assumption|exact B]. }
      destruct O4 as (A & B & C).
      split; [rewrite E6; exact A|]. split; [rewrite E6; intros Hd; congruence|]. intros _.
      destruct (C Es) as [Hr [applied [[C1 C2 C3 C4 C5 C6 C7 C8] L]]]. split; [exact Hr|]. exists applied. rewrite Hupd.
      split.
      + constructor; try assumption.
        * revert C1. apply srel_ext; assumption.
        * rewrite E5. exact C3.
        * revert C6. apply ent_hist_ok_ext; assumption.
        * intros m Hm. apply C7. exact (Hsub m Hm).
        * rewrite E8, E7. exact C8.
      + apply (slink_weaken _ _ _ _ _ _ _ Hsub).
        apply (slink_mono script st (y_server y) (y_server y) gs gs); try reflexivity; auto.
        intros _ _. apply same_records. reflexivity.
  Qed.

  Lemma deliver_updates_lnd p : forall cl, cl_last_not_disconnected (fold_left deliver_update p cl) = cl_last_not_disconnected cl.
  Proof.
    induction p as [|u t IH]; intros cl; cbn [fold_left]; [reflexivity|]. rewrite IH. unfold deliver_update. destruct (cl_status cl); reflexivity.
  Qed.

  Lemma deliver_mutates_lnd p : forall cl, cl_last_not_disconnected (fold_left deliver_mutate p cl) = cl_last_not_disconnected cl.
  Proof.
    induction p as [|u t IH]; intros cl; cbn [fold_left]; [reflexivity|]. rewrite IH. unfold deliver_mutate. destruct (cl_status cl); reflexivity.
  Qed.

  Lemma f_transport script st y gs y' o :
    transport_step st = true -> legal_step st = true ->
    f_inv script y gs -> sys_step y st = Ok (y', o) -> f_inv (script ++ [st]) y' gs.
  Proof.
    intros Ht Hl Hinv H. pose proof Hinv as [Hcfg Hg Hnm Htk Hslots].
    assert (Hnt : is_tick_frame st = false) by (destruct st; try discriminate; reflexivity).
    assert (Hmode : forall slot m, mode_step slot m st = m) by (intros slot m; destruct st; try discriminate; reflexivity).
    assert (Hends : forall slot, ends_session slot st = false) by (intros slot; destruct st; try discriminate; reflexivity).
    assert (Hnoop : f_inv (script ++ [st]) y gs) by (apply (f_same script st y gs); try reflexivity; auto).
    (* a state that differs from [y] only in the acknowledgement queue of one link and in one re-inserted client *)
    assert (Hsame : forall slot0 cl lu lm la, al_get slot0 (y_clients y) = Some cl ->
              lu = l_upd (get_link y slot0) -> lm = l_mut (get_link y slot0) ->
              f_inv (script ++ [st]) (set_client (set_link y slot0 (mkLink lu lm la)) slot0 cl) gs).
    { intros slot0 cl lu lm la Ec -> ->. apply (f_same script st y gs); try reflexivity; auto.
      - intros slot. cbn [set_client y_clients set_link]. apply al_get_reinsert. exact Ec.
      - intros slot. change (get_link (set_client ?a ?b ?c) slot) with (get_link a slot).
        destruct (N.eq_dec slot slot0) as [->|Hne];
          [rewrite get_link_set_link_same|rewrite get_link_set_link_other by exact Hne]; reflexivity.
      - intros slot. change (get_link (set_client ?a ?b ?c) slot) with (get_link a slot).
        destruct (N.eq_dec slot slot0) as [->|Hne];
          [rewrite get_link_set_link_same|rewrite get_link_set_link_other by exact Hne]; reflexivity. }
    destruct st as [| | | | | | |slot0 s2c ch w|slot0 s2c ch w]; try discriminate; cbn [sys_step] in H.
    - (* deliver *)
      destruct (al_get slot0 (y_clients y)) as [cl|] eqn:Ec; [|inversion H; subst y' o; exact Hnoop].
      pose proof (Hslots slot0 cl Ec) as [_ _ _ Hmi].
      destruct s2c.
      + destruct (ch =? 0) eqn:Ech.
        * cbn [legal_step] in Hl. rewrite Ech in Hl. assert (Hw : w <> Last) by (destruct w; congruence).
          destruct (l_upd (get_link y slot0)) as [|u0 q0] eqn:Eq.
          { rewrite take_nil in H. inversion H; subst y' o. cbn [fold_left]. apply Hsame; [exact Ec|auto|reflexivity]. }
          destruct (queued_live _ _ _ _ _ _ _ _ Hmi) as [Em Es]; [left; discriminate|].
          rewrite <- Eq in *. clear Eq u0 q0.
          destruct (take w (l_upd (get_link y slot0))) as [picked rest] eqn:Etk. inversion H; subst y' o. clear H.
          apply take_app in Etk; [|exact Hw].
          destruct (deliver_updates_fields picked cl) as (A & B & C & D & E & F & G & K). cbv zeta in A, B, C, D, E, F, G, K.
          apply (f_link_live script _ y gs slot0 cl); try assumption.
          -- apply deliver_updates_lnd.
          -- destruct (deliver_updates_inbox picked cl Es) as [Hi _]. rewrite Hi, <- app_assoc, Etk. reflexivity.
          -- intros m Hm. rewrite F in Hm. exact Hm.
        * destruct (ch =? 1) eqn:Ech1; [|inversion H; subst y' o; exact Hnoop].
          destruct (l_mut (get_link y slot0)) as [|m0 q0] eqn:Eq.
          { rewrite take_nil in H. inversion H; subst y' o. cbn [fold_left]. apply Hsame; [exact Ec|reflexivity|auto]. }
          destruct (queued_live _ _ _ _ _ _ _ _ Hmi) as [Em Es]; [right; discriminate|].
          rewrite <- Eq in *. clear Eq m0 q0.
          destruct (take w (l_mut (get_link y slot0))) as [picked rest] eqn:Etk. inversion H; subst y' o. clear H.
          destruct (deliver_mutates_fields picked cl Es) as (A & B & C & D & E & F & G & K & L). cbv zeta in A, B, C, D, E, F, G, K, L.
          refine (f_link_live script _ y gs slot0 cl _ _ _ _ Hinv Hnt Hmode Hends Ec Em Es A B C D E (eq_trans K (eq_sym Es)) G _ _ _).
          -- apply deliver_mutates_lnd.
          -- rewrite L. reflexivity.
          -- intros m Hm. rewrite F in Hm. apply in_app_or in Hm. apply in_or_app. destruct Hm as [Hm|Hm].
             ++ left. exact (take_in _ _ _ _ m Etk (or_intror Hm)).
             ++ apply in_app_or in Hm. destruct Hm as [Hm|Hm]; [right; exact Hm|left; exact (take_in _ _ _ _ m Etk (or_introl Hm))].
      + destruct (ch =? 0); [|inversion H; subst y' o; exact Hnoop].
        destruct (take w (l_ack (get_link y slot0))) as [picked rest] eqn:Etk. inversion H; subst y' o. clear H.
        destruct (deliver_acks_fold_v slot0 picked (y_server y) gs Hg) as (A & B & C). cbv zeta in A, B, C.
        destruct (deliver_acks_fold_flags slot0 picked (y_server y)) as (X1 & X2 & _).
        apply (f_same script _ y gs); [exact Hinv|reflexivity|exact Hmode|exact Hends|reflexivity|reflexivity| | |exact B|exact X1|exact X2|exact C|exact A].
        -- intros slot. change (get_link (set_server ?a ?b) slot) with (get_link a slot).
           destruct (N.eq_dec slot slot0) as [->|Hne];
             [rewrite get_link_set_link_same|rewrite get_link_set_link_other by exact Hne]; reflexivity.
        -- intros slot. change (get_link (set_server ?a ?b) slot) with (get_link a slot).
           destruct (N.eq_dec slot slot0) as [->|Hne];
             [rewrite get_link_set_link_same|rewrite get_link_set_link_other by exact Hne]; reflexivity.
    - (* drop: only the mutation channel *)
      cbn [legal_step] in Hl. destruct s2c; [|discriminate].
      destruct (al_get slot0 (y_clients y)) as [cl|] eqn:Ec; [|inversion H; subst y' o; exact Hnoop].
      pose proof (Hslots slot0 cl Ec) as [_ _ _ Hmi].
      assert (Hch : ch = 1) by lia. subst ch. cbn in H.
      destruct (l_mut (get_link y slot0)) as [|m0 q0] eqn:Eq.
      { rewrite take_nil in H. inversion H; subst y' o. apply Hsame; [exact Ec|reflexivity|auto]. }
      destruct (queued_live _ _ _ _ _ _ _ _ Hmi) as [Em Es]; [right; discriminate|].
      rewrite <- Eq in *. clear Eq m0 q0.
      destruct (take w (l_mut (get_link y slot0))) as [picked rest] eqn:Etk. inversion H; subst y' o. clear H.
      apply (f_link_live script _ y gs slot0 cl); try assumption; try reflexivity.
      intros m Hm. apply in_app_or in Hm. apply in_or_app. destruct Hm as [Hm|Hm]; [left; exact (take_in _ _ _ _ m Etk (or_intror Hm))|right; exact Hm].
  Qed.

  (* ---------- every step ---------- *)

  Lemma f_step script y gs st y' o :
    f_inv script y gs -> run (sys_init cfg0 nclients) script = Ok y ->
    legal_step st = true -> no_smap_step st = true -> sess_step_ok script st = true ->
    tick_frames (script ++ [st]) < 2 ^ 31 ->
    sys_step y st = Ok (y', o) -> f_inv (script ++ [st]) y' (ghost_step_s y gs st).
  Proof.
    intros Hinv Hrun H1 H3 Hs Hb H.
    destruct st as [| |slot max|slot|slot|tick dt cleanup ops parts|slot ops|slot s2c ch w|slot s2c ch w].
    - cbn [sys_step] in H. inversion H; subst y' o. exact (f_start script y gs Hinv).
    - exact (f_stop script y gs y' o Hinv H).
    - exact (f_connect script y gs slot max y' o Hinv Hs H).
    - cbn [sys_step] in H. inversion H; subst y' o. exact (f_authorize script y gs slot Hinv).
    - exact (f_disconnect script y gs slot y' o Hinv H).
    - exact (f_sframe script y gs tick dt cleanup ops parts y' o Hinv Hrun H3 Hb H).
    - exact (f_cframe script y gs slot ops y' o Hinv H).
    - exact (f_transport script (StDeliver slot s2c ch w) y gs y' o eq_refl H1 Hinv H).
    - exact (f_transport script (StDrop slot s2c ch w) y gs y' o eq_refl H1 Hinv H).
  Qed.

  Theorem f_run script : forall y gs,
    script_okf script = true -> tick_frames script < 2 ^ 31 ->
    erun_s (sys_init cfg0 nclients) [] script = Ok (y, gs) -> f_inv script y gs.
  Proof.
    induction script as [|st t IH] using rev_ind; intros y gs Hok Hb H.
    - cbn in H. inversion H; subst. exact f_init.
    - unfold script_okf, legal, no_smap in Hok. rewrite !forallb_app, sessions_ok_snoc in Hok. cbn [forallb] in Hok.
      rewrite !andb_true_r in Hok.
      apply andb_prop in Hok. destruct Hok as [Hok S]. apply andb_prop in Hok. destruct Hok as [L M].
      apply andb_prop in S. destruct S as [S1 S2]. apply andb_prop in L. destruct L as [L1 L2]. apply andb_prop in M. destruct M as [M1 M2].
      rewrite erun_s_app in H. destruct (erun_s (sys_init cfg0 nclients) [] t) as [[y1 gs1]| |] eqn:E1; cbn [bind] in H; try discriminate.
      cbn [erun_s] in H. destruct (sys_step y1 st) as [[y2 o]| |] eqn:E2; cbn [bind] in H; try discriminate.
      inversion H; subst y gs. clear H. pose proof (tick_frames_mono t st) as Hm.
      refine (f_step t y1 gs1 st y2 o (IH y1 gs1 _ _ eq_refl) (erun_s_run _ _ _ _ _ E1) L2 M2 S2 Hb E2); [|lia].
      unfold script_okf, legal, no_smap. rewrite L1, M1, S1. reflexivity.
  Qed.

  (* ================================================================ *)
  (* 3. the theorems                                                  *)
  (* ================================================================ *)

  (* (a) FIFO and atomicity, per session: the update messages sent to a connected client SINCE ITS CURRENT
         CONNECT (the ghost of the slot starts from [] at every connect) split into those it has applied
         (its structure is their `abs_apply` fold) and those still in its inbox or in the queue, in order;
         every non-empty prefix is the structure visible to the slot's record at a moment of the current
         session (no session end of the slot since), at the tick of the prefix's last message *)
  Theorem f_fifo script y gs slot c :
    script_okf script = true -> tick_frames script < 2 ^ 31 ->
    erun_s (sys_init cfg0 nclients) [] script = Ok (y, gs) ->
    al_get slot (y_clients y) = Some c -> mode_of script slot = MLive -> cl_status c = Connected ->
    ginv_v (mkG (y_server y) gs) /\
    exists applied,
      struct_equiv (client_struct c) (fold_left abs_apply applied []) /\
      fold_left abs_apply (applied ++ cl_inbox_upd c ++ l_upd (get_link y slot)) [] = sent_of slot gs /\
      (applied <> [] -> cl_upd_tick c = u_tick (last applied dflt_upd)) /\
      ticks_incr (applied ++ cl_inbox_upd c ++ l_upd (get_link y slot)) /\
      (forall p q, applied ++ cl_inbox_upd c ++ l_upd (get_link y slot) = p ++ q -> p <> [] ->
         exists pre post y1 cl1, script = pre ++ post /\ run (sys_init cfg0 nclients) pre = Ok y1 /\
           forallb (fun st => negb (ends_session slot st)) post = true /\
           find_client (y_server y1) slot = Some cl1 /\ sc_authorized cl1 = true /\
           struct_equiv (fold_left abs_apply p []) (struct_vis (y_server y1) cl1) /\
           u_tick (last p dflt_upd) = sv_tick (y_server y1)).
  Proof.
    intros Hok Hb H Hc Hm Hs. pose proof (f_run script y gs Hok Hb H) as [_ Hg _ _ Hslots]. split; [exact Hg|].
    destruct (Hslots slot c Hc) as [O1 _ _ O4]. rewrite Hm in O4. cbn [mode_inv] in O4. destruct O4 as (_ & _ & C).
    destruct (C Hs) as [_ [applied [[C1 _ C3 _ C5 _ _ _] [L1 L2 _ _ _ _]]]].
    exists applied. split; [apply srel_struct_equiv; [exact (cs_inv_nodup c O1)|exact C1]|]. split; [exact L1|].
    split; [exact C3|]. split; [exact C5|]. intros p q E Hp. destruct (L2 p q E Hp) as (y1 & cl1 & (pre & post & E1 & R & Hp1) & A).
    exists pre, post, y1, cl1. auto.
  Qed.

  Theorem f_in_flight script y gs slot c :
    script_okf script = true -> tick_frames script < 2 ^ 31 ->
    erun_s (sys_init cfg0 nclients) [] script = Ok (y, gs) ->
    al_get slot (y_clients y) = Some c -> mode_of script slot = MLive -> cl_status c = Connected ->
    struct_equiv (fold_left abs_apply (cl_inbox_upd c ++ l_upd (get_link y slot)) (client_struct c)) (sent_of slot gs).
  Proof.
    intros Hok Hb H Hc Hm Hs. destruct (f_fifo script y gs slot c Hok Hb H Hc Hm Hs) as (_ & applied & C1 & C2 & _).
    rewrite <- C2. rewrite (fold_left_app abs_apply applied). apply abs_apply_fold_equiv. exact C1.
  Qed.

  (* ... and once everything in flight is applied the client holds what is visible to it now *)
  Corollary f_synced script y gs slot c :
    script_okf script = true -> tick_frames script < 2 ^ 31 ->
    erun_s (sys_init cfg0 nclients) [] script = Ok (y, gs) ->
    al_get slot (y_clients y) = Some c -> mode_of script slot = MLive -> cl_status c = Connected ->
    cl_inbox_upd c = [] -> l_upd (get_link y slot) = [] ->
    struct_equiv (client_struct c) (sent_of slot gs).
  Proof.
    intros Hok Hb H Hc Hm Hs Hi Hl. pose proof (f_in_flight script y gs slot c Hok Hb H Hc Hm Hs) as G.
    rewrite Hi, Hl in G. exact G.
  Qed.

  (* (b) C03: at every moment, for every slot that is clean or live, the structure its client holds is
         the empty structure or the structure that was visible to the slot's record at an earlier moment
         of its CURRENT session, namely at the tick the client reports as its update tick *)
  Theorem f_every_moment script y slot c :
    script_okf script = true -> tick_frames script < 2 ^ 31 ->
    run (sys_init cfg0 nclients) script = Ok y -> al_get slot (y_clients y) = Some c ->
    mode_of script slot = MClean \/ mode_of script slot = MLive ->
    struct_equiv (client_struct c) [] \/
    exists pre post y1 cl1, script = pre ++ post /\ run (sys_init cfg0 nclients) pre = Ok y1 /\
      forallb (fun st => negb (ends_session slot st)) post = true /\
      find_client (y_server y1) slot = Some cl1 /\ sc_authorized cl1 = true /\
      struct_equiv (client_struct c) (struct_vis (y_server y1) cl1) /\ cl_upd_tick c = sv_tick (y_server y1).
  Proof.
    intros Hok Hb H Hc Hm. destruct (run_erun_s script (sys_init cfg0 nclients) [] y H) as [gs He].
    pose proof (f_run script y gs Hok Hb He) as [_ _ _ _ Hslots].
    destruct (Hslots slot c Hc) as [O1 _ _ O4]. pose proof (cs_inv_nodup c O1) as Hnd.
    destruct Hm as [Hm|Hm]; rewrite Hm in O4; cbn [mode_inv] in O4.
    - left. destruct O4 as (_ & (R & _) & _). apply srel_struct_equiv; [exact Hnd|exact R].
    - destruct O4 as (_ & B & C). destruct (status_dec c) as [Es|Es].
      + left. destruct (B Es) as ((R & _) & _). apply srel_struct_equiv; [exact Hnd|exact R].
      + destruct (C Es) as [_ [applied [[C1 _ C3 _ _ _ _ _] [_ L2 _ _ _ _]]]]. destruct applied as [|u0 t0] eqn:Ea.
        * left. apply srel_struct_equiv; [exact Hnd|exact C1].
        * right. rewrite <- Ea in *. assert (Hne : applied <> []) by (rewrite Ea; discriminate).
          destruct (L2 applied _ eq_refl Hne) as (y1 & cl1 & (pre & post & E & R & Hp) & F & Au & A & B0).
          exists pre, post, y1, cl1. split; [exact E|]. split; [exact R|]. split; [exact Hp|]. split; [exact F|]. split; [exact Au|]. split.
          -- eapply struct_equiv_trans; [|exact A]. apply srel_struct_equiv; [exact Hnd|exact C1].
          -- rewrite (C3 Hne). exact B0.
  Qed.

  (* (c) the update tick a client reports never decreases within a session: the update messages of a
         session have strictly increasing ticks and are applied in order (the statement about the list) *)
  Theorem f_ticks_increase script y gs slot c :
    script_okf script = true -> tick_frames script < 2 ^ 31 ->
    erun_s (sys_init cfg0 nclients) [] script = Ok (y, gs) ->
    al_get slot (y_clients y) = Some c -> mode_of script slot = MLive -> cl_status c = Connected ->
    forall u, In u (cl_inbox_upd c ++ l_upd (get_link y slot)) -> struct_equiv (client_struct c) [] \/ cl_upd_tick c < u_tick u.
  Proof.
    intros Hok Hb H Hc Hm Hs u Hu. pose proof (f_run script y gs Hok Hb H) as [_ _ _ _ Hslots].
    destruct (Hslots slot c Hc) as [O1 _ _ O4]. rewrite Hm in O4. cbn [mode_inv] in O4. destruct O4 as (_ & _ & C).
    destruct (C Hs) as [_ [applied [[C1 _ C3 _ C5 _ _ _] _]]]. destruct applied as [|u0 t0] eqn:Ea.
    - left. apply srel_struct_equiv; [exact (cs_inv_nodup c O1)|exact C1].
    - right. rewrite <- Ea in *. assert (Hne : applied <> []) by (rewrite Ea; discriminate). rewrite (C3 Hne).
      apply (C5 applied _ eq_refl); [apply last_in; exact Hne|exact Hu].
  Qed.

  (* ... and a client frame never moves the update tick of a connected client backwards (the other steps do
     not touch it); before the first update message of a session is applied the structure is empty *)
  Lemma cside_frame_tick c applied rest lmut ops c' out :
    cs_inv c -> pu c -> hist_small c -> cl_status c = Connected ->
    cside c applied (cl_inbox_upd c ++ rest) lmut -> client_frame c ops = Ok (c', out) ->
    applied <> [] -> cl_upd_tick c <= cl_upd_tick c'.
  Proof.
    intros Hinv Hpu Hhs Es C1 H Hne.
    destruct (cframe_conn c applied rest lmut ops c' out Hinv Hpu Hhs Es C1 H) as (_ & _ & _ & _ & _ & _ & _ & C1').
    rewrite (cd_tick _ _ _ _ C1 Hne). rewrite (cd_tick _ _ _ _ C1') by (destruct applied; [congruence|discriminate]).
    destruct (cl_inbox_upd c) as [|u0 t0] eqn:Ei; [rewrite app_nil_r; lia|].
    rewrite last_app_ne by discriminate. apply N.lt_le_incl.
    apply (cd_incr _ _ _ _ C1 applied ((u0 :: t0) ++ rest) eq_refl); [apply last_in; exact Hne|].
    apply in_or_app. left. apply last_in. discriminate.
  Qed.

  Theorem f_tick_monotone script y gs slot c ops y' o c' :
    script_okf script = true -> tick_frames script < 2 ^ 31 ->
    erun_s (sys_init cfg0 nclients) [] script = Ok (y, gs) ->
    al_get slot (y_clients y) = Some c -> mode_of script slot = MLive -> cl_status c = Connected ->
    sys_step y (StCFrame slot ops) = Ok (y', o) -> al_get slot (y_clients y') = Some c' ->
    struct_equiv (client_struct c) [] \/ cl_upd_tick c <= cl_upd_tick c'.
  Proof.
    intros Hok Hb H Hc Hm Hs Hstep Hc'. pose proof (f_run script y gs Hok Hb H) as [_ _ _ _ Hslots].
    destruct (Hslots slot c Hc) as [O1 O2 O3 O4]. rewrite Hm in O4. cbn [mode_inv] in O4. destruct O4 as (_ & _ & C).
    destruct (C Hs) as [_ [applied [C1 _]]].
    destruct (client_frame c ops) as [[cl' cfo]| |] eqn:Ef;
      [|cbn [sys_step] in Hstep; rewrite Hc, Ef in Hstep; discriminate|cbn [sys_step] in Hstep; rewrite Hc, Ef in Hstep; discriminate].
    destruct (cframe_sys y slot ops c cl' cfo y' o Hc Ef Hstep) as (_ & F2 & _).
    rewrite F2, al_get_insert_same in Hc'. inversion Hc'; subst c'.
    destruct applied as [|u0 t0] eqn:Ea.
    - left. apply srel_struct_equiv; [exact (cs_inv_nodup c O1)|exact (cd_rel _ _ _ _ C1)].
    - right. rewrite <- Ea in *. apply (cside_frame_tick c applied _ _ ops cl' cfo O1 O2 O3 Hs C1 Ef). rewrite Ea. discriminate.
  Qed.

  (* (d) what is proved for the other slots *)

  (* a clean slot: the client is not connected and holds nothing of the server, nothing is queued, buffered
     or in its inboxes, the server has no record of it *)
  Theorem f_clean script y slot c :
    script_okf script = true -> tick_frames script < 2 ^ 31 ->
    run (sys_init cfg0 nclients) script = Ok y -> al_get slot (y_clients y) = Some c ->
    mode_of script slot = MClean ->
    cl_status c = Disconnected /\ struct_equiv (client_struct c) [] /\ cl_buffered c = [] /\
    cl_inbox_upd c = [] /\ cl_inbox_mut c = [] /\ find_client (y_server y) slot = None /\
    l_upd (get_link y slot) = [] /\ l_mut (get_link y slot) = [].
  Proof.
    intros Hok Hb H Hc Hm. destruct (run_erun_s script (sys_init cfg0 nclients) [] y H) as [gs He].
    pose proof (f_run script y gs Hok Hb He) as [_ _ _ _ Hslots].
    destruct (Hslots slot c Hc) as [O1 _ _ O4]. rewrite Hm in O4. cbn [mode_inv] in O4.
    destruct O4 as (A & (R & B & I & M) & C & D & E). split; [exact A|].
    split; [apply srel_struct_equiv; [exact (cs_inv_nodup c O1)|exact R]|]. split; [exact B|]. split; [exact I|]. split; [exact M|].
    split; [|auto]. destruct (find_client (y_server y) slot) eqn:Ef; [|reflexivity]. exfalso. apply C. apply has_rec_find. congruence.
  Qed.

  (* a slot whose session was ended by `StDisconnect` and whose client has not run a frame since: the
     client may still hold the old structure; the server has forgotten it, nothing is queued or in the
     inboxes, and the next frame of the client makes the slot clean (mode_left_cframe, f_clean) *)
  Theorem f_left script y slot c :
    script_okf script = true -> tick_frames script < 2 ^ 31 ->
    run (sys_init cfg0 nclients) script = Ok y -> al_get slot (y_clients y) = Some c ->
    mode_of script slot = MLeft ->
    cl_status c = Disconnected /\ cs_inv c /\ cl_inbox_upd c = [] /\ cl_inbox_mut c = [] /\
    find_client (y_server y) slot = None /\ l_upd (get_link y slot) = [] /\ l_mut (get_link y slot) = [].
  Proof.
    intros Hok Hb H Hc Hm. destruct (run_erun_s script (sys_init cfg0 nclients) [] y H) as [gs He].
    pose proof (f_run script y gs Hok Hb He) as [_ _ _ _ Hslots].
    destruct (Hslots slot c Hc) as [O1 _ _ O4]. rewrite Hm in O4. cbn [mode_inv] in O4.
    destruct O4 as (A & (I & M & _) & C & D & E). split; [exact A|]. split; [exact O1|]. split; [exact I|]. split; [exact M|].
    split; [|auto]. destruct (find_client (y_server y) slot) eqn:Ef; [|reflexivity]. exfalso. apply C. apply has_rec_find. congruence.
  Qed.

  (* a slot that was live when the server stopped and has not been disconnected yet: the client invariant is
     kept, so that `StDisconnect slot; StCFrame slot _` brings the slot back to MClean; a client that is not
     connected is clean *)
  Theorem f_stale script y slot c :
    script_okf script = true -> tick_frames script < 2 ^ 31 ->
    run (sys_init cfg0 nclients) script = Ok y -> al_get slot (y_clients y) = Some c ->
    mode_of script slot = MStale ->
    cs_inv c /\ (cl_status c = Disconnected -> struct_equiv (client_struct c) [] /\ find_client (y_server y) slot = None).
  Proof.
    intros Hok Hb H Hc Hm. destruct (run_erun_s script (sys_init cfg0 nclients) [] y H) as [gs He].
    pose proof (f_run script y gs Hok Hb He) as [_ _ _ _ Hslots].
    destruct (Hslots slot c Hc) as [O1 _ _ O4]. rewrite Hm in O4. cbn [mode_inv] in O4.
    destruct O4 as (C & _). split; [exact O1|]. intros Hd. destruct (C Hd) as ((R & _) & C2 & _).
    split; [apply srel_struct_equiv; [exact (cs_inv_nodup c O1)|exact R]|].
    destruct (find_client (y_server y) slot) eqn:Ef; [|reflexivity]. exfalso. apply C2. apply has_rec_find. congruence.
  Qed.

  (* the invariant of the ghost run of C03V along the whole run *)
  Theorem f_ghost_invariant script y gs :
    script_okf script = true -> tick_frames script < 2 ^ 31 ->
    erun_s (sys_init cfg0 nclients) [] script = Ok (y, gs) -> ginv_v (mkG (y_server y) gs).
  Proof. intros Hok Hb H. exact (fi_ginv _ _ _ (f_run script y gs Hok Hb H)). Qed.

  (* ================================================================ *)
  (* 4. G1: single-session scripts, every policy                      *)
  (* ================================================================ *)

  Lemma okm_okf script : script_okm script = true ->
    script_okf script = true /\ forall slot, mode_of script slot = MClean \/ mode_of script slot = MLive.
  Proof.
    intros H. rewrite script_okm_split in H. apply andb_prop in H. destruct H as [H N0]. apply andb_prop in H. destruct H as [L S].
    destruct (single_session_modes script S) as [S1 S2]. split; [|exact S2]. unfold script_okf. rewrite L, N0, S1. reflexivity.
  Qed.

  Lemma okm_single script : script_okm script = true -> single_session script = true.
  Proof.
    intros H. rewrite script_okm_split in H. apply andb_prop in H. destruct H as [H _]. apply andb_prop in H. exact (proj2 H).
  Qed.

  Theorem v_fifo script y gs slot c :
    script_okm script = true -> tick_frames script < 2 ^ 31 ->
    erun (sys_init cfg0 nclients) [] script = Ok (y, gs) ->
    al_get slot (y_clients y) = Some c -> cl_status c = Connected ->
    ginv_v (mkG (y_server y) gs) /\
    exists applied,
      struct_equiv (client_struct c) (fold_left abs_apply applied []) /\
      fold_left abs_apply (applied ++ cl_inbox_upd c ++ l_upd (get_link y slot)) [] = sent_of slot gs /\
      (applied <> [] -> cl_upd_tick c = u_tick (last applied dflt_upd)) /\
      ticks_incr (applied ++ cl_inbox_upd c ++ l_upd (get_link y slot)) /\
      (forall p q, applied ++ cl_inbox_upd c ++ l_upd (get_link y slot) = p ++ q -> p <> [] ->
         exists pre post y1 cl1, script = pre ++ post /\ run (sys_init cfg0 nclients) pre = Ok y1 /\
           find_client (y_server y1) slot = Some cl1 /\ sc_authorized cl1 = true /\
           struct_equiv (fold_left abs_apply p []) (struct_vis (y_server y1) cl1) /\
           u_tick (last p dflt_upd) = sv_tick (y_server y1)).
  Proof.
    intros Hok Hb H Hc Hs. destruct (okm_okf script Hok) as [Hf Hmodes].
    rewrite <- (erun_s_erun script _ _ (okm_single script Hok)) in H.
    assert (Hm : mode_of script slot = MLive).
    { destruct (Hmodes slot) as [Hm|Hm]; [|exact Hm]. exfalso.
      pose proof (f_run script y gs Hf Hb H) as [_ _ _ _ Hslots]. destruct (Hslots slot c Hc) as [_ _ _ O4].
      rewrite Hm in O4. cbn [mode_inv] in O4. destruct O4 as (A & _). congruence. }
    destruct (f_fifo script y gs slot c Hf Hb H Hc Hm Hs) as (Hg & applied & A1 & A2 & A3 & A4 & A5).
    split; [exact Hg|]. exists applied. split; [exact A1|]. split; [exact A2|]. split; [exact A3|]. split; [exact A4|].
    intros p q E Hp. destruct (A5 p q E Hp) as (pre & post & y1 & cl1 & B1 & B2 & _ & B4). exists pre, post, y1, cl1. auto.
  Qed.

  Theorem v_in_flight script y gs slot c :
    script_okm script = true -> tick_frames script < 2 ^ 31 ->
    erun (sys_init cfg0 nclients) [] script = Ok (y, gs) ->
    al_get slot (y_clients y) = Some c -> cl_status c = Connected ->
    struct_equiv (fold_left abs_apply (cl_inbox_upd c ++ l_upd (get_link y slot)) (client_struct c)) (sent_of slot gs).
  Proof.
    intros Hok Hb H Hc Hs. destruct (v_fifo script y gs slot c Hok Hb H Hc Hs) as (_ & applied & C1 & C2 & _).
    rewrite <- C2. rewrite (fold_left_app abs_apply applied). apply abs_apply_fold_equiv. exact C1.
  Qed.

  Theorem v_every_moment script y slot c :
    script_okm script = true -> tick_frames script < 2 ^ 31 ->
    run (sys_init cfg0 nclients) script = Ok y -> al_get slot (y_clients y) = Some c ->
    struct_equiv (client_struct c) [] \/
    exists pre post y1 cl1, script = pre ++ post /\ run (sys_init cfg0 nclients) pre = Ok y1 /\
      find_client (y_server y1) slot = Some cl1 /\ sc_authorized cl1 = true /\
      struct_equiv (client_struct c) (struct_vis (y_server y1) cl1) /\ cl_upd_tick c = sv_tick (y_server y1).
  Proof.
    intros Hok Hb H Hc. destruct (okm_okf script Hok) as [Hf Hmodes].
    destruct (f_every_moment script y slot c Hf Hb H Hc (Hmodes slot)) as [G|(pre & post & y1 & cl1 & B1 & B2 & _ & B4)]; [left; exact G|].
    right. exists pre, post, y1, cl1. auto.
  Qed.
End SESS.

(* ================================================================== *)
(* 5. the ghost is the ghost of the server-only run (`grun`, C03V) of *)
(*    the projected script                                            *)
(* ================================================================== *)

Definition proj_step_s (y : sys) (st : step) : list gop :=
  match st with
  | StDisconnect slot => match al_get slot (y_clients y) with Some _ => [GDisconnect slot] | None => [] end
  | _ => proj_step y st
  end.

Fixpoint proj_script_s (y : sys) (script : list step) : list gop :=
  match script with
  | [] => []
  | st :: rest => proj_step_s y st ++ match sys_step y st with Ok (y', _) => proj_script_s y' rest | _ => [] end
  end.

Lemma step_grun_s y gs st y' o : sys_step y st = Ok (y', o) ->
  grun (y_cfg y) (mkG (y_server y) gs) (proj_step_s y st) = Ok (mkG (y_server y') (ghost_step_s y gs st)).
Proof.
  intros H. destruct (single_session_step st) eqn:Es.
  - assert (E1 : proj_step_s y st = proj_step y st) by (destruct st; try reflexivity; discriminate).
    assert (E2 : ghost_step_s y gs st = ghost_step y gs st) by (destruct st; try reflexivity; discriminate).
    rewrite E1, E2. exact (step_grun y gs st y' o Es H).
  - destruct st; try discriminate; cbn [sys_step proj_step_s proj_step ghost_step_s ghost_step] in *.
    + inversion H; subst. reflexivity.
    + destruct (al_get slot (y_clients y)); inversion H; subst; reflexivity.
Qed.

Theorem erun_s_grun script : forall y gs y' gs',
  erun_s y gs script = Ok (y', gs') ->
  grun (y_cfg y) (mkG (y_server y) gs) (proj_script_s y script) = Ok (mkG (y_server y') gs').
Proof.
  induction script as [|st t IH]; intros y gs y' gs' H; cbn [erun_s proj_script_s] in *.
  - inversion H; subst. reflexivity.
  - destruct (sys_step y st) as [[y1 o]| |] eqn:E; cbn [bind] in H; try discriminate.
    rewrite grun_app, (step_grun_s y gs st y1 o E). cbn [bind]. rewrite <- (sys_step_cfg y st y1 o E).
    exact (IH y1 _ y' gs' H).
Qed.

Corollary erun_s_grun_init cfg0 nclients script y gs :
  erun_s (sys_init cfg0 nclients) [] script = Ok (y, gs) ->
  grun cfg0 ginit (proj_script_s (sys_init cfg0 nclients) script) = Ok (mkG (y_server y) gs).
Proof. intros H. exact (erun_s_grun script (sys_init cfg0 nclients) [] y gs H). Qed.

(* ================================================================== *)
(* 6. the policy decides the kind of ClientVisibility of the records  *)
(*    the statements speak about; PAll gives back the statement of    *)
(*    Repl/StructE2EMut_proofs.v                                      *)
(* ================================================================== *)

Lemma reached_kind cfg0 nclients pre y1 slot cl1 :
  run (sys_init cfg0 nclients) pre = Ok y1 -> find_client (y_server y1) slot = Some cl1 -> sc_authorized cl1 = true ->
  vis_kind (cfg_policy cfg0) (sc_vis cl1).
Proof.
  intros H Hf Ha. destruct (run_erun_s pre (sys_init cfg0 nclients) [] y1 H) as [gs He].
  pose proof (erun_s_grun_init cfg0 nclients pre y1 gs He) as G.
  assert (Hk : clients_kind cfg0 (y_server y1)).
  { exact (run_clients_kind cfg0 _ ginit (mkG (y_server y1) gs) (fun x (Hx : In x []) => match Hx with end) G). }
  exact (Hk cl1 (proj1 (find_client_in _ _ _ Hf)) Ha).
Qed.

Theorem v_every_moment_pall cfg0 nclients script y slot c :
  cfg_policy cfg0 = PAll ->
  script_okm script = true -> tick_frames script < 2 ^ 31 ->
  run (sys_init cfg0 nclients) script = Ok y -> al_get slot (y_clients y) = Some c ->
  struct_equiv (client_struct c) [] \/
  exists pre post y1, script = pre ++ post /\ run (sys_init cfg0 nclients) pre = Ok y1 /\
    struct_equiv (client_struct c) (struct_of (y_server y1)) /\ cl_upd_tick c = sv_tick (y_server y1).
Proof.
  intros Hpol Hok Hb H Hc.
  destruct (v_every_moment cfg0 nclients script y slot c Hok Hb H Hc) as [G|(pre & post & y1 & cl1 & B1 & B2 & B3 & B4 & B5 & B6)]; [left; exact G|].
  right. exists pre, post, y1. split; [exact B1|]. split; [exact B2|]. split; [|exact B6].
  pose proof (reached_kind cfg0 nclients pre y1 slot cl1 B2 B3 B4) as Hk. rewrite Hpol in Hk.
  unfold struct_vis in B5. destruct (sc_vis cl1); [destruct Hk|]. rewrite vis_filter_none in B5. exact B5.
Qed.
