(* C03, server half, all visibility policies: whole frames and whole runs.  In every history of
   operations (including `SVis`), frames, acknowledgements, connects, authorizations, stop / reset /
   restart, the update messages sent to a client are the structural diffs of the part of the server
   world visible to that client.  Definitions: Repl/StructVisSpec.v; the ghost run (gstate, gstep,
   grun, sync_sent) is the one of Repl/StructSpec.v. *)
From RV Require Import Lib.Res Repl.ClientTicks Repl.ClientTicks_proofs Repl.World Vis.Visibility Vis.VisSpec
  Vis.Visibility_proofs Tick.RepliconTick Repl.Server Repl.ServerSpec Repl.Server_proofs Repl.StructSpec
  Repl.Struct_proofs Repl.StructOps_proofs Repl.StructRun_proofs Repl.StructVisSpec Repl.StructVis_proofs
  Repl.StructVisOps_proofs.
From Coq Require Import ZifyBool ZifyN.
Open Scope N_scope.
Ltac Zify.zify_post_hook ::= Z.div_mod_to_equations.
Arguments N.add : simpl never. Arguments N.mul : simpl never. Arguments N.pow : simpl never.
Arguments N.ltb : simpl never. Arguments N.leb : simpl never. Arguments N.div : simpl never.
Arguments N.modulo : simpl never. Arguments N.sub : simpl never. Arguments N.eqb : simpl never.

(* ================= 1. the game operations of a frame ================= *)

Lemma ops_running_v ops : forall s, srv_ok_v s -> sv_running s = true -> NoDup (map sc_slot (sv_clients s)) ->
  let s' := fold_left apply_sop ops s in
  srv_ok_v s' /\ flags_same s s' /\ Forall2 cl_keep (sv_clients s) (sv_clients s') /\
  forall t st, pending_ok s t st -> pending_ok s' t st.
Proof.
  induction ops as [|op ops IH]; intros s Hok Hrun Hnd; cbn [fold_left].
  - split; [exact Hok|]. split; [apply flags_same_refl|]. split; [apply Forall2_same, cl_keep_refl|auto].
  - pose proof (apply_sop_flags s op) as Hfl.
    pose proof (apply_sop_keep s op Hnd) as Hsame.
    assert (Hok1 : srv_ok_v (apply_sop s op)) by (apply apply_sop_preserves_srv_ok_v; assumption).
    assert (Hrun1 : sv_running (apply_sop s op) = true) by (destruct Hfl as [-> _]; exact Hrun).
    assert (Hnd1 : NoDup (map sc_slot (sv_clients (apply_sop s op)))) by (rewrite (cl_keep_slots _ _ Hsame); exact Hnd).
    destruct (IH _ Hok1 Hrun1 Hnd1) as [H1 [H2 [H3 H4]]].
    split; [exact H1|]. split; [eapply flags_same_trans; eassumption|].
    split; [eapply (Forall2_trans cl_keep cl_keep_trans); eassumption|].
    intros t st Hp. apply H4. apply apply_sop_preserves_pending_v; [exact (proj1 Hok)|exact Hrun|exact Hp].
Qed.

Lemma ops_any_v ops : forall s, srv_base_v s -> NoDup (map sc_slot (sv_clients s)) ->
  let s' := fold_left apply_sop ops s in
  srv_base_v s' /\ flags_same s s' /\ Forall2 cl_keep (sv_clients s) (sv_clients s').
Proof.
  induction ops as [|op ops IH]; intros s Hb Hnd; cbn [fold_left].
  - split; [exact Hb|]. split; [apply flags_same_refl|apply Forall2_same, cl_keep_refl].
  - pose proof (apply_sop_flags s op) as Hfl.
    pose proof (apply_sop_keep s op Hnd) as Hsame.
    assert (Hb1 : srv_base_v (apply_sop s op)) by (apply apply_sop_preserves_base_v; exact Hb).
    assert (Hnd1 : NoDup (map sc_slot (sv_clients (apply_sop s op)))) by (rewrite (cl_keep_slots _ _ Hsame); exact Hnd).
    destruct (IH _ Hb1 Hnd1) as [H1 [H2 H3]].
    split; [exact H1|]. split; [eapply flags_same_trans; eassumption|].
    eapply (Forall2_trans cl_keep cl_keep_trans); eassumption.
Qed.

(* ================= 2. the ghost ================= *)

Lemma ginv_sync_v s' old outs :
  srv_ok_v s' -> NoDup (map sc_slot (sv_clients s')) ->
  (sv_last_running s' = false -> sv_removal_buf s' = []) ->
  (forall cl, In cl (sv_clients s') -> sc_authorized cl = true ->
     pending_ok_v s' cl (abs_send (sent_of (sc_slot cl) old) (upd_for (sc_slot cl) outs)) /\
     (sv_last_running s' = false ->
      abs_send (sent_of (sc_slot cl) old) (upd_for (sc_slot cl) outs) = [] /\ fresh_ticks (sc_ticks cl))) ->
  ginv_v (mkG s' (sync_sent s' old outs)).
Proof.
  intros Hok Hnd Hidle Hcl. constructor; cbn [g_srv g_sent].
  - exact Hok.
  - exact Hnd.
  - exact Hidle.
  - intros cl Hin Ha. rewrite (sync_sent_of s' old outs cl Hnd Hin Ha). exact (Hcl cl Hin Ha).
  - apply sync_dom.
Qed.

(* ================= 3. a frame of a running server, before `send_replication` ================= *)

Lemma frame_running_pre_v c s tick dt (cleanup : bool) ops :
  srv_ok_v s -> sv_running s = true -> NoDup (map sc_slot (sv_clients s)) ->
  let s1 := with_time_tick s tick dt in
  let s2 := (let r := receive_acks s1 in if cleanup then cleanup_acks c r else r) in
  let s3 := fold_left apply_sop ops s2 in
  let s3' := buffer_removals s3 in
  srv_ok_v s3' /\ sv_removed_events s3' = [] /\ sv_running s3 = true /\
  sv_last_running s3' = sv_last_running s /\
  Forall2 cl_keep (sv_clients s) (sv_clients s3') /\
  forall t st, pending_ok s t st -> pending_ok s3' t st.
Proof.
  intros Hok Hrun Hnd s1 s2 s3 s3'.
  assert (H12 : Forall2 cl_keep (sv_clients s) (sv_clients s2)).
  { unfold s2. cbv zeta. destruct cleanup.
    - eapply (Forall2_trans cl_keep cl_keep_trans); [apply (receive_acks_keep s1)|apply cleanup_acks_keep].
    - apply (receive_acks_keep s1). }
  assert (Hf2 : sv_ents s2 = sv_ents s /\ sv_despawn_buf s2 = sv_despawn_buf s /\ sv_removal_buf s2 = sv_removal_buf s /\
                sv_removed_events s2 = sv_removed_events s /\ sv_last_run s2 = sv_last_run s /\ sv_now s2 = sv_now s /\
                sv_running s2 = sv_running s /\ sv_last_running s2 = sv_last_running s).
  { unfold s2. cbv zeta. destruct cleanup; repeat split. }
  destruct Hf2 as [F1 [F2 [F3 [F4 [F5 [F6 [F7 F8]]]]]]].
  assert (Hok2 : srv_ok_v s2) by (apply (srv_ok_v_ext s); assumption).
  assert (Hnd2 : NoDup (map sc_slot (sv_clients s2))) by (rewrite (cl_keep_slots _ _ H12); exact Hnd).
  assert (Hrun2 : sv_running s2 = true) by congruence.
  destruct (ops_running_v ops s2 Hok2 Hrun2 Hnd2) as [Hok3 [Hfl3 [H23 Hp3]]]. fold s3 in Hok3, Hfl3, H23, Hp3.
  destruct (buffer_removals_ok_v s3 (proj1 Hok3)) as [Hb' [Hrb' [Hp' Hev']]]. fold s3' in Hb', Hrb', Hp', Hev'.
  destruct Hfl3 as [G1 [G2 _]].
  split; [split; [exact Hb'|exact (Hrb' (proj2 Hok3))]|]. split; [exact Hev'|]. split; [congruence|].
  split; [change (sv_last_running s3 = sv_last_running s); congruence|].
  split; [change (Forall2 cl_keep (sv_clients s) (sv_clients s3)); eapply (Forall2_trans cl_keep cl_keep_trans); eassumption|].
  intros t st Hp. apply Hp', Hp3. apply (pending_ok_ext s); assumption.
Qed.

(* ================= 4. `send_replication`, all clients ================= *)

Lemma send_clients_ok_v c s parts old :
  srv_ok_v s -> sv_removed_events s = [] -> NoDup (map sc_slot (sv_clients s)) ->
  (forall cl, In cl (sv_clients s) -> sc_authorized cl = true ->
     pending_ok_v s cl (sent_of (sc_slot cl) old)) ->
  let rs := map (client_result_pure c s parts) (sv_clients s) in
  let s4 := set_after_send s (map fst rs) (sv_now s) in
  srv_ok_v s4 /\ map sc_slot (map fst rs) = map sc_slot (sv_clients s) /\
  forall cl', In cl' (map fst rs) -> sc_authorized cl' = true ->
    struct_equiv (abs_send (sent_of (sc_slot cl') old) (upd_for (sc_slot cl') (outs_of rs))) (struct_vis s cl') /\
    pending_ok_v s4 cl' (abs_send (sent_of (sc_slot cl') old) (upd_for (sc_slot cl') (outs_of rs))).
Proof.
  intros Hok Hev Hnd Hcl rs s4.
  assert (Hone : forall cl, In cl (sv_clients s) ->
            let cl' := fst (client_result_pure c s parts cl) in
            sc_slot cl' = sc_slot cl /\
            (sc_authorized cl' = true ->
             struct_equiv (abs_send (sent_of (sc_slot cl') old) (upd_for (sc_slot cl') (outs_of rs))) (struct_vis s cl') /\
             pending_ok_v s4 cl' (abs_send (sent_of (sc_slot cl') old) (upd_for (sc_slot cl') (outs_of rs))))).
  { intros cl Hin. cbv zeta.
    unfold client_result_pure. destruct (sc_authorized cl) eqn:Ea; cbn [fst].
    - pose proof (send_for_client_eq c s (sv_now s) cl (part_for parts cl)) as Hs.
      destruct (sfc_pure c s (sv_now s) cl (part_for parts cl)) as [cl' out] eqn:Epure. cbn [fst].
      destruct (tick_sends_diff_any c s (sv_now s) cl (part_for parts cl) cl' out (sent_of (sc_slot cl) old) (map fst rs)
                  Hok Hev (Hcl cl Hin Ea) Hs) as [T1 [T2 [T4 [T5 T6]]]].
      split; [exact T4|]. intros _.
      assert (Hu : upd_for (sc_slot cl') (outs_of rs) = co_update out).
      { rewrite T4. unfold rs. rewrite (upd_for_outs c s parts _ cl Hnd Hin Ea), Epure. reflexivity. }
      rewrite Hu, T4. split; [exact T1|]. apply (pending_ok_v_equiv _ _ (struct_vis s cl')); [|exact T2].
      apply struct_equiv_sym. exact T1.
    - split; [reflexivity|]. congruence. }
  assert (Hslots : map sc_slot (map fst rs) = map sc_slot (sv_clients s)).
  { unfold rs. rewrite !map_map. apply map_ext_in. intros cl Hin. apply (Hone cl Hin). }
  split; [|split; [exact Hslots|]].
  - apply srv_ok_after_send_v; assumption.
  - intros cl' Hin Ha. unfold rs in Hin. rewrite map_map in Hin. apply in_map_iff in Hin.
    destruct Hin as [cl [<- Hin]]. apply (Hone cl Hin). exact Ha.
Qed.

(* ================= 5. one frame ================= *)

Lemma client_inv_transfer_v s old cl cl3 :
  client_inv_v s old cl -> cl_keep cl cl3 -> sc_authorized cl3 = true ->
  pending_ok_v s cl3 (sent_of (sc_slot cl3) old) /\
  (sv_last_running s = false -> sent_of (sc_slot cl3) old = [] /\ fresh_ticks (sc_ticks cl3)).
Proof.
  intros Hinv Hk Ha. pose proof Hk as [S1 [S2 [S3 S4]]]. rewrite S1.
  destruct (Hinv (eq_trans (eq_sym S2) Ha)) as [Hp Hf]. split.
  - apply (pending_ok_v_keep s cl); assumption.
  - intros Hl. destruct (Hf Hl) as [F1 F2]. split; [exact F1|]. intros e.
    destruct (mutation_tick (sc_ticks cl3) e) eqn:Em; [|reflexivity].
    exfalso. apply (proj1 (S3 e)); [rewrite Em; discriminate|apply F2].
Qed.

Lemma struct_vis_ext s s' cl : sv_ents s' = sv_ents s -> struct_vis s' cl = struct_vis s cl.
Proof. intros H. unfold struct_vis. rewrite (struct_of_ext s s' H). reflexivity. Qed.

Theorem gframe_ok_v c g tick dt (cleanup : bool) ops parts s' fo :
  ginv_v g -> server_frame c (g_srv g) tick dt cleanup ops parts = Ok (s', fo) ->
  ginv_v (mkG s' (sync_sent s' (g_sent g) (fo_clients fo))) /\
  (fo_ran fo = true -> forall cl, In cl (sv_clients s') -> sc_authorized cl = true ->
     struct_equiv (abs_send (sent_of (sc_slot cl) (g_sent g)) (upd_for (sc_slot cl) (fo_clients fo))) (struct_vis s' cl)) /\
  (fo_ran fo = false -> fo_clients fo = []).
Proof.
  intros [Hok Hnd Hidle Hcl Hdom] H. set (s := g_srv g) in *. set (old := g_sent g) in *.
  unfold server_frame in H. change (sv_running (with_time_tick s tick dt)) with (sv_running s) in H.
  destruct (sv_running s) eqn:Erun.
  - (* running *)
    destruct (frame_running_pre_v c s tick dt cleanup ops Hok Erun Hnd) as [Hok3 [Hev3 [Hrun3 [Hlr3 [Hsame3 Hp3]]]]].
    cbv zeta in Hok3, Hev3, Hrun3, Hlr3, Hsame3, Hp3.
    set (s3 := fold_left apply_sop ops
                 (if cleanup then cleanup_acks c (receive_acks (with_time_tick s tick dt))
                  else receive_acks (with_time_tick s tick dt))) in *.
    cbv zeta in H.
    replace (fold_left apply_sop ops
               (if cleanup then cleanup_acks c (receive_acks (with_time_tick s tick dt))
                else receive_acks (with_time_tick s tick dt))) with s3 in H by reflexivity.
    rewrite Hrun3 in H. set (s3' := buffer_removals s3) in *.
    assert (Hnd3 : NoDup (map sc_slot (sv_clients s3'))) by (rewrite (cl_keep_slots _ _ Hsame3); exact Hnd).
    assert (Hcl3 : forall cl3, In cl3 (sv_clients s3') -> sc_authorized cl3 = true ->
              pending_ok_v s3' cl3 (sent_of (sc_slot cl3) old)).
    { intros cl3 Hin Ha. destruct (Forall2_In_r _ _ _ _ Hsame3 Hin) as [cl [Hcl0 Hs]].
      apply (pending_ok_v_srv s); [exact Hp3|].
      exact (proj1 (client_inv_transfer_v s old cl cl3 (Hcl cl Hcl0) Hs Ha)). }
    destruct (sv_dirty s3') eqn:Ed.
    + (* a tick *)
      rewrite send_replication_eq in H. cbn [bind] in H. injection H as <- <-. cbn [fo_ran fo_clients].
      destruct (send_clients_ok_v c s3' parts old Hok3 Hev3 Hnd3 Hcl3) as [Hok4 [Hslots Hone]].
      cbv zeta in Hok4, Hslots, Hone.
      set (rs := map (client_result_pure c s3' parts) (sv_clients s3')) in *.
      set (s4 := set_after_send s3' (map fst rs) (sv_now s3')) in *.
      split; [|split; [|discriminate]].
      * apply ginv_sync_v.
        -- apply (srv_ok_v_ext s4); try reflexivity. exact Hok4.
        -- change (NoDup (map sc_slot (map fst rs))). rewrite Hslots. exact Hnd3.
        -- cbn. rewrite Hrun3. discriminate.
        -- intros cl' Hin Ha. change (In cl' (map fst rs)) in Hin. destruct (Hone cl' Hin Ha) as [_ Hp]. split.
           ++ apply (pending_ok_v_ext s4); try reflexivity. exact Hp.
           ++ cbn. rewrite Hrun3. discriminate.
      * intros _ cl' Hin Ha. change (In cl' (map fst rs)) in Hin.
        match goal with |- struct_equiv _ (struct_vis ?x _) => rewrite (struct_vis_ext s3' x cl' eq_refl) end.
        exact (proj1 (Hone cl' Hin Ha)).
    + (* no tick *)
      cbn [bind] in H. injection H as <- <-. cbn [fo_ran fo_clients].
      split; [|split; [discriminate|reflexivity]].
      apply ginv_sync_v.
      * apply (srv_ok_v_ext s3'); try reflexivity. exact Hok3.
      * exact Hnd3.
      * cbn. change (sv_running s3') with (sv_running s3). rewrite Hrun3. discriminate.
      * intros cl' Hin Ha. change (In cl' (sv_clients s3')) in Hin. split.
        -- apply (pending_ok_v_ext s3'); try reflexivity. exact (Hcl3 cl' Hin Ha).
        -- cbn. change (sv_running s3') with (sv_running s3). rewrite Hrun3. discriminate.
  - (* stopped *)
    set (s1 := with_time_tick s tick dt) in *.
    assert (Hb1 : srv_base_v s1) by (apply (srv_base_v_ext s); try reflexivity; exact (proj1 Hok)).
    destruct (ops_any_v ops s1 Hb1 Hnd) as [Hb3 [Hfl3 Hsame3]]. cbv zeta in Hb3, Hfl3, Hsame3.
    set (s3 := fold_left apply_sop ops s1) in *.
    destruct Hfl3 as [G1 [G2 [_ [_ [_ [_ G7]]]]]].
    change (sv_running s1) with (sv_running s) in G1, G7. change (sv_last_running s1) with (sv_last_running s) in G2.
    change (sv_removal_buf s1) with (sv_removal_buf s) in G7. specialize (G7 Erun).
    rewrite G1, Erun in H. cbn [bind] in H. injection H as <- <-. cbn [fo_ran fo_clients].
    split; [|split; [discriminate|reflexivity]].
    destruct (sv_last_running s3) eqn:Elr.
    + (* `reset` *)
      apply ginv_sync_v.
      * pose proof (reset_ok_v s3 Hb3) as [Hbr Hrr]. split.
        -- apply (srv_base_v_ext (age_events (reset s3))); try reflexivity.
           apply age_events_base_v. exact Hbr.
        -- intros e He. cbn in He. congruence.
      * constructor.
      * reflexivity.
      * intros cl' [].
    + (* nothing has run since the last reset *)
      assert (Hl : sv_last_running s = false) by congruence.
      assert (Hr3 : sv_removal_buf s3 = []) by (rewrite G7; exact (Hidle Hl)).
      apply ginv_sync_v.
      * split.
        -- apply (srv_base_v_ext (age_events s3)); try reflexivity.
           apply age_events_base_v. exact Hb3.
        -- intros e He. cbn in He. rewrite Hr3 in He. cbn in He. congruence.
      * change (NoDup (map sc_slot (sv_clients s3))). rewrite (cl_keep_slots _ _ Hsame3). exact Hnd.
      * intros _. exact Hr3.
      * intros cl' Hin Ha. change (In cl' (sv_clients s3)) in Hin.
        destruct (Forall2_In_r _ _ _ _ Hsame3 Hin) as [cl [Hcl0 Hs]].
        destruct (client_inv_transfer_v s old cl cl' (Hcl cl Hcl0) Hs Ha) as [Hpv Hf].
        destruct (Hf Hl) as [F1 F2]. cbn [upd_for find abs_send]. rewrite F1.
        split; [|intros _; split; [reflexivity|exact F2]].
        apply pending_ok_v_fresh; [exact F2|]. apply (vis_ok_legal _ (sent_of (sc_slot cl') old)). exact (pv_vis _ _ _ Hpv).
Qed.

(* ================= 6. the other steps ================= *)

Lemma ginv_clients_change_v g s' :
  ginv_v g ->
  sv_ents s' = sv_ents (g_srv g) -> sv_despawn_buf s' = sv_despawn_buf (g_srv g) ->
  sv_removal_buf s' = sv_removal_buf (g_srv g) -> sv_removed_events s' = sv_removed_events (g_srv g) ->
  sv_last_run s' = sv_last_run (g_srv g) -> sv_now s' = sv_now (g_srv g) ->
  sv_last_running s' = sv_last_running (g_srv g) ->
  NoDup (map sc_slot (sv_clients s')) ->
  (forall cl', In cl' (sv_clients s') -> sc_authorized cl' = true ->
     In cl' (sv_clients (g_srv g)) \/
     (fresh_ticks (sc_ticks cl') /\ vis_ok (sc_vis cl') [] /\ sent_of (sc_slot cl') (g_sent g) = [])) ->
  ginv_v (mkG s' (sync_sent s' (g_sent g) [])).
Proof.
  intros [Hok Hnd Hidle Hcl Hdom] He Hd Hr Hv Hl Hn Hlr Hnd' Hcls.
  apply ginv_sync_v.
  - apply (srv_ok_v_ext (g_srv g)); assumption.
  - exact Hnd'.
  - rewrite Hlr, Hr. exact Hidle.
  - intros cl' Hin Ha. cbn [upd_for find abs_send]. destruct (Hcls cl' Hin Ha) as [Hold | [Hf [Hvo Hs]]].
    + destruct (Hcl cl' Hold Ha) as [Hp Hfr]. split; [apply (pending_ok_v_ext (g_srv g)); assumption|].
      rewrite Hlr. exact Hfr.
    + rewrite Hs. split; [apply pending_ok_v_fresh; assumption|]. intros _. split; [reflexivity|exact Hf].
Qed.

Lemma ginv_server_change_v g s' :
  ginv_v g ->
  sv_ents s' = sv_ents (g_srv g) -> sv_despawn_buf s' = sv_despawn_buf (g_srv g) ->
  sv_removal_buf s' = sv_removal_buf (g_srv g) -> sv_removed_events s' = sv_removed_events (g_srv g) ->
  sv_last_run s' = sv_last_run (g_srv g) -> sv_now s' = sv_now (g_srv g) ->
  sv_last_running s' = sv_last_running (g_srv g) -> sv_clients s' = sv_clients (g_srv g) ->
  ginv_v (mkG s' (g_sent g)).
Proof.
  intros [Hok Hnd Hidle Hcl Hdom] He Hd Hr Hv Hl Hn Hlr Hc. constructor; cbn [g_srv g_sent].
  - apply (srv_ok_v_ext (g_srv g)); assumption.
  - rewrite Hc. exact Hnd.
  - rewrite Hlr, Hr. exact Hidle.
  - intros cl Hin Ha. rewrite Hc in Hin. destruct (Hcl cl Hin Ha) as [Hp Hf].
    split; [apply (pending_ok_v_ext (g_srv g)); assumption|]. rewrite Hlr. exact Hf.
  - intros slot H. rewrite Hc. apply Hdom. exact H.
Qed.

Lemma sent_of_unknown_v g slot : ginv_v g ->
  (forall cl, In cl (sv_clients (g_srv g)) -> sc_slot cl = slot -> sc_authorized cl = false) ->
  sent_of slot (g_sent g) = [].
Proof.
  intros Hg Hno. unfold sent_of. destruct (al_get slot (g_sent g)) eqn:E; [|reflexivity].
  destruct (gv_dom g Hg slot) as [cl [Hin [Hs Ha]]]; [rewrite E; discriminate|].
  rewrite (Hno cl Hin Hs) in Ha. discriminate.
Qed.

(* a new client starts with the empty ClientVisibility of the policy *)
Lemma new_vis_ok c : vis_ok (new_vis c) [].
Proof.
  apply vis_ok_nil. unfold new_vis. destruct (cfg_policy c); [exact I|apply vis_legal_blacklist|apply vis_legal_whitelist].
Qed.

Lemma connect_inv_v c g slot max : ginv_v g ->
  ginv_v (mkG (connect_client c (g_srv g) slot max) (sync_sent (connect_client c (g_srv g) slot max) (g_sent g) [])).
Proof.
  intros Hg. set (s := g_srv g).
  assert (Hsame : ginv_v (mkG s (sync_sent s (g_sent g) []))).
  { apply ginv_clients_change_v; try reflexivity; [exact Hg|exact (gv_slots g Hg)|].
    intros cl' Hin _. left. exact Hin. }
  unfold connect_client. fold s. destruct (sv_running s); [|exact Hsame].
  destruct (find_client s slot) eqn:Ef; [exact Hsame|].
  pose proof (find_client_none s slot Ef) as Hnone.
  set (cl := match cfg_auth c with AuthNone => authorized_client c slot max | _ => mkSC slot false max ct_default None [] end).
  assert (Hcl : sc_slot cl = slot /\ vis_ok (sc_vis cl) [] /\ sc_ticks cl = ct_default).
  { unfold cl, authorized_client. destruct (cfg_auth c); cbn [sc_slot sc_vis sc_ticks];
      (split; [reflexivity|split; [|reflexivity]]); try exact I; apply new_vis_ok. }
  destruct Hcl as [C1 [C2 C3]].
  apply ginv_clients_change_v; try reflexivity; [exact Hg| |].
  - cbn [set_clients sv_clients]. rewrite map_app. cbn [map]. apply NoDup_snoc; [exact (gv_slots g Hg)|].
    rewrite C1. intros Hin. apply in_map_iff in Hin. destruct Hin as [c0 [Hs Hin]]. exact (Hnone c0 Hin Hs).
  - intros cl' Hin _. cbn [set_clients sv_clients] in Hin. apply in_app_or in Hin. destruct Hin as [Hin | [<- | []]].
    + left. exact Hin.
    + right. split; [rewrite C3; intros e; reflexivity|]. split; [exact C2|].
      rewrite C1. apply sent_of_unknown_v; [exact Hg|]. intros c0 Hin Hs. exfalso. exact (Hnone c0 Hin Hs).
Qed.

Lemma authorize_inv_v c g slot : ginv_v g ->
  ginv_v (mkG (authorize_client c (g_srv g) slot) (sync_sent (authorize_client c (g_srv g) slot) (g_sent g) [])).
Proof.
  intros Hg. set (s := g_srv g).
  assert (Hsame : ginv_v (mkG s (sync_sent s (g_sent g) []))).
  { apply ginv_clients_change_v; try reflexivity; [exact Hg|exact (gv_slots g Hg)|].
    intros cl' Hin _. left. exact Hin. }
  unfold authorize_client. fold s. destruct (find_client s slot) as [cl|] eqn:Ef; [|exact Hsame].
  destruct (sc_authorized cl) eqn:Ea; [exact Hsame|].
  unfold find_client in Ef. apply find_some in Ef. destruct Ef as [Hcl Hs]. cbn in Hs. assert (Hslot : sc_slot cl = slot) by lia.
  set (cnew := authorized_client c slot (sc_max_size cl)).
  apply ginv_clients_change_v; try reflexivity; [exact Hg| |].
  - unfold update_client, set_clients. cbn [sv_clients]. rewrite map_map.
    rewrite (map_ext_in _ sc_slot); [exact (gv_slots g Hg)|]. intros c0 _.
    destruct (sc_slot c0 =? sc_slot cnew) eqn:E; [|reflexivity]. lia.
  - intros cl' Hin _. unfold update_client, set_clients in Hin. cbn [sv_clients] in Hin.
    apply in_map_iff in Hin. destruct Hin as [c0 [Heq Hc0]].
    destruct (sc_slot c0 =? sc_slot cnew) eqn:E.
    + subst cl'. right. split; [intros e; reflexivity|]. split; [apply new_vis_ok|].
      cbn [cnew authorized_client sc_slot]. apply sent_of_unknown_v; [exact Hg|]. intros c1 Hc1 Hs1.
      assert (c1 = cl); [|subst c1; exact Ea].
      apply (nodup_slot_eq (sv_clients s)); [exact (gv_slots g Hg)|exact Hc1|exact Hcl|congruence].
    + subst cl'. left. exact Hc0.
Qed.

Lemma disconnect_inv_v g slot : ginv_v g ->
  ginv_v (mkG (disconnect_client (g_srv g) slot) (sync_sent (disconnect_client (g_srv g) slot) (g_sent g) [])).
Proof.
  intros Hg. apply ginv_clients_change_v; try reflexivity; [exact Hg| |].
  - cbn [disconnect_client sv_clients]. apply NoDup_map_filter. exact (gv_slots g Hg).
  - intros cl' Hin _. cbn [disconnect_client sv_clients] in Hin. apply filter_In in Hin. destruct Hin as [Hin _].
    left. exact Hin.
Qed.

Lemma ginit_inv_v : ginv_v ginit.
Proof.
  constructor; cbn.
  - split; [constructor|]; cbn.
    + constructor.
    + lia.
    + intros e k x c [[ks [H _]] | [a []]]. discriminate.
    + constructor.
    + intros e H. cbn in H. congruence.
  - constructor.
  - reflexivity.
  - intros cl [].
  - intros slot H. congruence.
Qed.

(* no hypothesis on the policy *)
Theorem gstep_inv_v c g o g' : ginv_v g -> gstep c g o = Ok g' -> ginv_v g'.
Proof.
  intros Hg H. destruct o; cbn [gstep] in H.
  - injection H as <-. apply ginv_server_change_v; try reflexivity. exact Hg.
  - injection H as <-. apply ginv_server_change_v; try reflexivity. exact Hg.
  - injection H as <-. apply connect_inv_v; assumption.
  - injection H as <-. apply authorize_inv_v; assumption.
  - injection H as <-. apply disconnect_inv_v; assumption.
  - injection H as <-. unfold deliver_acks. destruct (sv_running (g_srv g)); [|destruct g; exact Hg].
    destruct (find_client (g_srv g) slot); [|destruct g; exact Hg].
    apply ginv_server_change_v; try reflexivity. exact Hg.
  - injection H as <-. apply ginv_server_change_v; try reflexivity. exact Hg.
  - destruct (server_frame c (g_srv g) tick dt cleanup ops parts) as [[s' fo]| |] eqn:Ef; cbn [bind] in H; try discriminate.
    injection H as <-. exact (proj1 (gframe_ok_v c g tick dt cleanup ops parts s' fo Hg Ef)).
Qed.

Theorem grun_inv_v c l : forall g g', ginv_v g -> grun c g l = Ok g' -> ginv_v g'.
Proof.
  induction l as [|o l IH]; intros g g' Hg H; cbn [grun] in H.
  - injection H as <-. exact Hg.
  - destruct (gstep c g o) as [g1| |] eqn:E; cbn [bind] in H; try discriminate.
    apply (IH g1 g'); [|exact H]. exact (gstep_inv_v c g o g1 Hg E).
Qed.

(* ================= 7. THEOREM 4: whole runs, every policy ================= *)

(* in every history: after a tick frame every authorized client has been sent exactly the part of the
   structure the server replicates in that frame that is visible to this client (its visibility
   as it is after the frame); in a frame without tick nothing is sent and nothing changes *)
Theorem run_sends_diffs_v c steps g tick dt (cleanup : bool) ops parts g' :
  grun c ginit steps = Ok g ->
  gstep c g (GFrame tick dt cleanup ops parts) = Ok g' ->
  exists fo, server_frame c (g_srv g) tick dt cleanup ops parts = Ok (g_srv g', fo) /\
    forall cl, In cl (sv_clients (g_srv g')) -> sc_authorized cl = true ->
      al_get (sc_slot cl) (g_sent g')
        = Some (abs_send (sent_of (sc_slot cl) (g_sent g)) (upd_for (sc_slot cl) (fo_clients fo))) /\
      (fo_ran fo = true -> struct_equiv (sent_of (sc_slot cl) (g_sent g')) (struct_vis (g_srv g') cl)) /\
      (fo_ran fo = false -> upd_for (sc_slot cl) (fo_clients fo) = None /\
                            sent_of (sc_slot cl) (g_sent g') = sent_of (sc_slot cl) (g_sent g)).
Proof.
  intros Hrun H. pose proof (grun_inv_v c steps ginit g ginit_inv_v Hrun) as Hg.
  cbn [gstep] in H.
  destruct (server_frame c (g_srv g) tick dt cleanup ops parts) as [[s' fo]| |] eqn:Ef; cbn [bind] in H; try discriminate.
  injection H as <-. cbn [g_srv g_sent]. exists fo. split; [reflexivity|].
  destruct (gframe_ok_v c g tick dt cleanup ops parts s' fo Hg Ef) as [Hg' [Hran Hnot]].
  intros cl Hin Ha. pose proof (gv_slots _ Hg') as Hnd. cbn [g_srv] in Hnd.
  split; [apply sync_get; assumption|]. rewrite (sync_sent_of s' (g_sent g) (fo_clients fo) cl Hnd Hin Ha). split.
  - intros Hr. exact (Hran Hr cl Hin Ha).
  - intros Hr. rewrite (Hnot Hr). split; reflexivity.
Qed.

(* the first update after authorization carries the whole visible structure *)
Corollary first_update_is_full_visible_structure c steps g tick dt (cleanup : bool) ops parts g' fo cl :
  grun c ginit steps = Ok g ->
  gstep c g (GFrame tick dt cleanup ops parts) = Ok g' ->
  server_frame c (g_srv g) tick dt cleanup ops parts = Ok (g_srv g', fo) -> fo_ran fo = true ->
  In cl (sv_clients (g_srv g')) -> sc_authorized cl = true ->
  sent_of (sc_slot cl) (g_sent g) = [] ->
  struct_equiv (abs_send [] (upd_for (sc_slot cl) (fo_clients fo))) (struct_vis (g_srv g') cl).
Proof.
  intros Hrun H Hf Hran Hin Ha Hempty.
  destruct (run_sends_diffs_v c steps g tick dt cleanup ops parts g' Hrun H) as [fo' [Hf' Hall]].
  assert (fo' = fo) by congruence. subst fo'.
  destruct (Hall cl Hin Ha) as [Hget [Hr _]]. specialize (Hr Hran).
  unfold sent_of in Hr at 1. rewrite Hget, Hempty in Hr. exact Hr.
Qed.

(* ... and a client starts with the empty structure when it becomes authorized *)
Lemma authorized_starts_empty_v c steps g slot cl g' :
  grun c ginit steps = Ok g ->
  find_client (g_srv g) slot = Some cl -> sc_authorized cl = false ->
  gstep c g (GAuthorize slot) = Ok g' -> sent_of slot (g_sent g') = [].
Proof.
  intros Hrun Hf Hna H. pose proof (grun_inv_v c steps ginit g ginit_inv_v Hrun) as Hg.
  pose proof (gstep_inv_v c g _ g' Hg H) as Hg'.
  cbn [gstep] in H. injection H as <-. cbn [g_sent].
  set (s' := authorize_client c (g_srv g) slot) in *.
  pose proof Hf as Hf0. unfold find_client in Hf0. apply find_some in Hf0. destruct Hf0 as [Hcl Hs]. cbn in Hs.
  assert (Hfn : find_client s' slot = Some (authorized_client c slot (sc_max_size cl))).
  { unfold s', authorize_client. rewrite Hf, Hna. eapply find_update_client; [exact Hf|reflexivity]. }
  unfold find_client in Hfn. apply find_some in Hfn. destruct Hfn as [Hin' _].
  pose proof (sync_sent_of s' (g_sent g) [] _ (gv_slots _ Hg') Hin' eq_refl) as Hsy.
  cbn [authorized_client sc_slot upd_for find abs_send] in Hsy. rewrite Hsy.
  apply sent_of_unknown_v; [exact Hg|]. intros c1 Hc1 Hs1.
  assert (c1 = cl); [|subst c1; exact Hna].
  apply (nodup_slot_eq (sv_clients (g_srv g))); [exact (gv_slots g Hg)|exact Hc1|exact Hcl|lia].
Qed.

(* ================= 8. the policy decides the kind of ClientVisibility ================= *)

Lemma vis_kind_new c : vis_kind (cfg_policy c) (new_vis c).
Proof. unfold new_vis. destruct (cfg_policy c); reflexivity. Qed.

Lemma is_whitelist_mid s v : is_whitelist (mid_vis s v) = is_whitelist v.
Proof.
  unfold mid_vis. pose proof (is_whitelist_drain_lost v) as H1.
  destruct (despawn_loop (fst (drain_lost v)) (sv_despawn_buf s)) as [v2 ds] eqn:E.
  exact (proj1 (despawn_loop_spec _ _ _ _ _ H1 E)).
Qed.

Lemma vis_kind_same p vo vo' :
  match vo, vo' with Some v, Some v' => is_whitelist v' = is_whitelist v | None, None => True | _, _ => False end ->
  vis_kind p vo -> vis_kind p vo'.
Proof. destruct p, vo as [v|], vo' as [v'|]; cbn; try tauto; congruence. Qed.

Lemma clients_kind_same c s s' : Forall2 cl_same (sv_clients s) (sv_clients s') -> clients_kind c s -> clients_kind c s'.
Proof.
  intros HF Hk cl' Hin Ha. destruct (Forall2_In_r _ _ _ _ HF Hin) as [cl [Hcl [_ [S2 [S3 _]]]]].
  rewrite S3. apply (Hk cl Hcl). congruence.
Qed.

Lemma clients_kind_ext c s s' : sv_clients s' = sv_clients s -> clients_kind c s -> clients_kind c s'.
Proof. intros H Hk cl Hin. rewrite H in Hin. exact (Hk cl Hin). Qed.

Lemma clients_kind_update c s n : clients_kind c s ->
  (sc_authorized n = true -> vis_kind (cfg_policy c) (sc_vis n)) -> clients_kind c (update_client s n).
Proof.
  intros Hk Hn cl Hin Ha. cbn [update_client set_clients sv_clients] in Hin. apply in_map_iff in Hin.
  destruct Hin as [c0 [Heq Hc0]]. destruct (sc_slot c0 =? sc_slot n); subst cl; [exact (Hn Ha)|exact (Hk c0 Hc0 Ha)].
Qed.

Lemma apply_sop_kind c s op : clients_kind c s -> clients_kind c (apply_sop s op).
Proof.
  intros Hk. pose proof (apply_sop_clients s op) as Hcl.
  destruct op as [e marker comps|e|e k v|e k|e k v|e|e|slot e visible|slot e pc];
    try (apply (clients_kind_ext c s); [exact Hcl|exact Hk]); clear Hcl; unfold apply_sop.
  - destruct (find_client s slot) as [c0|] eqn:Ef; [|exact Hk]. destruct (get_ent s e); [|exact Hk].
    destruct (sc_vis c0) as [v|] eqn:Ev; [|exact Hk].
    unfold find_client in Ef. apply find_some in Ef. destruct Ef as [Hc0 _].
    apply clients_kind_update; [exact Hk|]. cbn [sc_authorized sc_vis]. intros Ha.
    apply (vis_kind_same _ (Some v)); [apply is_whitelist_set_visibility|]. rewrite <- Ev. exact (Hk c0 Hc0 Ha).
  - destruct (find_client s slot) as [c0|] eqn:Ef; [|exact Hk]. destruct (get_ent s e); [|exact Hk].
    destruct (sc_authorized c0 && existsb _ (sv_premap s)) eqn:Ec; [|exact Hk].
    apply andb_prop in Ec. destruct Ec as [Ha0 _].
    unfold find_client in Ef. apply find_some in Ef. destruct Ef as [Hc0 _].
    apply clients_kind_update; [exact Hk|]. cbn [sc_authorized sc_vis]. intros _. exact (Hk c0 Hc0 Ha0).
Qed.

Lemma fold_apply_sop_kind c ops : forall s, clients_kind c s -> clients_kind c (fold_left apply_sop ops s).
Proof. induction ops as [|op ops IH]; intros s Hk; cbn [fold_left]; [exact Hk|]. apply IH, apply_sop_kind, Hk. Qed.

Lemma send_kind c s parts : clients_kind c s ->
  forall cl', In cl' (map fst (map (client_result_pure c s parts) (sv_clients s))) -> sc_authorized cl' = true ->
    vis_kind (cfg_policy c) (sc_vis cl').
Proof.
  intros Hk cl' Hin Ha. rewrite map_map in Hin. apply in_map_iff in Hin. destruct Hin as [cl [<- Hin]].
  unfold client_result_pure in *. destruct (sc_authorized cl) eqn:Ea; cbn [fst] in *; [|congruence].
  specialize (Hk cl Hin Ea). cbn [sfc_pure fst sc_vis]. destruct (sc_vis cl) as [v|] eqn:Ev.
  - rewrite (sv_vis1 s cl v Ev). apply (vis_kind_same _ (Some v)); [|exact Hk].
    rewrite is_whitelist_update. apply is_whitelist_mid.
  - rewrite (nv_vis1 s cl Ev). exact Hk.
Qed.

Lemma server_frame_kind c s tick dt (cleanup : bool) ops parts s' fo :
  clients_kind c s -> server_frame c s tick dt cleanup ops parts = Ok (s', fo) -> clients_kind c s'.
Proof.
  intros Hk H. unfold server_frame in H.
  set (s1 := with_time_tick s tick dt) in *.
  assert (Hk1 : clients_kind c s1) by exact Hk.
  set (s2 := if sv_running s1 then (let r := receive_acks s1 in if cleanup then cleanup_acks c r else r) else s1) in *.
  assert (Hk2 : clients_kind c s2).
  { unfold s2. destruct (sv_running s1); [|exact Hk1]. cbv zeta.
    assert (Hr : clients_kind c (receive_acks s1)) by (apply (clients_kind_same c s1); [apply receive_acks_same|exact Hk1]).
    destruct cleanup; [|exact Hr]. apply (clients_kind_same c (receive_acks s1)); [apply cleanup_acks_same|exact Hr]. }
  pose proof (fold_apply_sop_kind c ops s2 Hk2) as Hk3. set (s3 := fold_left apply_sop ops s2) in *.
  destruct (sv_running s3).
  - assert (Hk4 : clients_kind c (buffer_removals s3)) by exact Hk3.
    destruct (sv_dirty (buffer_removals s3)).
    + rewrite send_replication_eq in H. cbn [bind] in H. injection H as <- _.
      intros cl' Hin Ha. exact (send_kind c (buffer_removals s3) parts Hk4 cl' Hin Ha).
    + cbn [bind] in H. injection H as <- _. exact Hk4.
  - cbn [bind] in H. injection H as <- _. destruct (sv_last_running s3); [intros cl []|exact Hk3].
Qed.

Theorem gstep_kind c g o g' : clients_kind c (g_srv g) -> gstep c g o = Ok g' -> clients_kind c (g_srv g').
Proof.
  intros Hk H. destruct o; cbn [gstep] in H.
  - injection H as <-. exact Hk.
  - injection H as <-. exact Hk.
  - injection H as <-. cbn [g_srv]. unfold connect_client. destruct (sv_running (g_srv g)); [|exact Hk].
    destruct (find_client (g_srv g) slot); [exact Hk|].
    intros cl Hin Ha. cbn [set_clients sv_clients] in Hin. apply in_app_or in Hin. destruct Hin as [Hin | [<- | []]]; [exact (Hk cl Hin Ha)|].
    destruct (cfg_auth c); cbn [authorized_client sc_authorized sc_vis] in *; try discriminate; apply vis_kind_new.
  - injection H as <-. cbn [g_srv]. unfold authorize_client. destruct (find_client (g_srv g) slot) as [cl|]; [|exact Hk].
    destruct (sc_authorized cl); [exact Hk|]. apply clients_kind_update; [exact Hk|]. intros _. apply vis_kind_new.
  - injection H as <-. cbn [g_srv]. intros cl Hin Ha. cbn [disconnect_client sv_clients] in Hin.
    apply filter_In in Hin. exact (Hk cl (proj1 Hin) Ha).
  - injection H as <-. cbn [g_srv]. unfold deliver_acks. destruct (sv_running (g_srv g)); [|exact Hk].
    destruct (find_client (g_srv g) slot); exact Hk.
  - injection H as <-. exact Hk.
  - destruct (server_frame c (g_srv g) tick dt cleanup ops parts) as [[s' fo]| |] eqn:Ef; cbn [bind] in H; try discriminate.
    injection H as <-. exact (server_frame_kind c _ tick dt cleanup ops parts s' fo Hk Ef).
Qed.

(* in a run every authorized client carries the ClientVisibility of the configured policy:
   none (PAll), a blacklist (PBlack), a whitelist (PWhite) *)
Theorem run_clients_kind c steps : forall g g', clients_kind c (g_srv g) -> grun c g steps = Ok g' -> clients_kind c (g_srv g').
Proof.
  induction steps as [|o l IH]; intros g g' Hk H; cbn [grun] in H.
  - injection H as <-. exact Hk.
  - destruct (gstep c g o) as [g1| |] eqn:E; cbn [bind] in H; try discriminate.
    apply (IH g1 g'); [|exact H]. exact (gstep_kind c g o g1 Hk E).
Qed.
