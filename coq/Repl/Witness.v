(* The witnesses of the open known findings as model scripts: the faithful model refutes C01
   (and C08 for D22) on them, exactly as the implementation does (corpus/known/*.sim replays
   the same scripts on the real apps on every run). *)
From RV Require Import Lib.Res Repl.ClientTicks Repl.World Repl.Server Repl.Client Repl.Sys Repl.Converge Vis.Visibility.
Open Scope N_scope.

Definition cfg_plain : cfg := mkCfg PAll AuthNone false 10000.
Definition cfg_black : cfg := mkCfg PBlack AuthNone false 10000.

Definition deliver_all (slot : N) : list step :=
  [StDeliver slot true 0 All; StDeliver slot true 1 All; StCFrame slot []; StDeliver slot false 0 All].

(* after a tick with a single mutated entity the observed partition is that single message *)
Definition one (slot e : N) : list (N * partition) := [(slot, [[e]])].

(* D25: entity 2 references entity 1; 1 stops replicating and starts again *)
Definition script_d25 : list step :=
  [StStart; StSFrame false 10 false [] []; StConnect 0 1200;
   StSFrame true 16 false [SSpawn 1 true [(0, VNat 5)]; SSpawn 2 true [(3, VRef 1)]] []]
  ++ deliver_all 0
  ++ [StSFrame true 16 false [SUnmark 1] []] ++ deliver_all 0
  ++ [StSFrame true 16 false [SMark 1] []] ++ deliver_all 0.

(* D02: periodic component changed on a non-period tick, another component's ack moves the stamp past it *)
Definition script_d02 : list step :=
  [StStart; StSFrame false 10 false [] []; StConnect 0 1200;
   StSFrame true 16 false [SSpawn 1 true [(0, VNat 1); (4, VNat 1)]] []]
  ++ deliver_all 0
  ++ [StSFrame true 16 false [] [];
      StSFrame true 16 false [SMutate 1 0 (VNat 2); SMutate 1 4 (VNat 2)] (one 0 1)]
  ++ deliver_all 0.

(* D19: authorized while the server replicates at tick 0 *)
Definition script_d19 : list step :=
  [StStart; StConnect 0 1200;
   StSFrame false 10 false [SSpawn 1 true [(0, VNat 5)]] [];
   StSFrame true 16 false [SMutate 1 0 (VNat 6)] (one 0 1);
   StDeliver 0 true 1 All; StCFrame 0 []; StDeliver 0 false 0 All;
   StSFrame true 16 false [] []]
  ++ deliver_all 0.

(* D17: reference to a hidden entity, later shown together with a pre-spawn mapping *)
Definition script_d17 : list step :=
  [StStart; StSFrame false 10 false [] []; StConnect 0 1200;
   StSFrame true 16 false [SSpawn 1 true [(0, VNat 1)]; SVis 0 1 false; SSpawn 2 true [(3, VRef 1)]] [];
   StDeliver 0 true 0 All; StCFrame 0 [CPrespawn 0];
   StSFrame true 16 false [SVis 0 1 true; SMap 0 1 0] []]
  ++ deliver_all 0.

Definition after (c : cfg) (script : list step) : res sys := run_steps (sys_init c 1) script.

Definition not_converged_after_settling (c : cfg) (script : list step) : bool :=
  match after c script with
  | Ok y => match settle 3 y with Ok y' => negb (converged y') | _ => false end
  | _ => false
  end.

(* D22: the visibility applied by the server differs from the most recent setting *)
Definition script_d22 : list step :=
  [StStart; StSFrame false 10 false [] []; StConnect 0 1200;
   StSFrame true 16 false [SSpawn 1 true [(0, VNat 5)]] []]
  ++ deliver_all 0
  ++ [StSFrame true 16 false [SUnmark 1; SVis 0 1 false; SMark 1] []].

Definition hidden_entity_is_sent (c : cfg) (script : list step) (slot e : N) : bool :=
  match after c script with
  | Ok y => match find_client (y_server y) slot with
            | Some cl => match al_get e (server_view (y_server y) cl) with Some _ => true | None => false end
            | None => false
            end
  | _ => false
  end.
