(* Acknowledgement driven re-sending (property C11) proved about the Layer 1 model:
   Repl.Server (`collect_entity`, `send_for_client`, `receive_acks`, `cleanup_acks`, `server_frame`)
   on top of Repl.ClientTicks.  Definitions in this file are specification vocabulary only
   (quiescence, "this pair is in the client's output"); the model itself is untouched. *)
From RV Require Import Lib.Res Repl.ClientTicks Repl.ClientTicks_proofs Wire.AckCodec Wire.AckCodec_proofs.
(* Server after AckCodec: both define a `receive_acks`; this file means the one of Repl.Server *)
From RV Require Import Repl.World Repl.Server Vis.Visibility Tick.RepliconTick.
From Coq Require Import ZifyBool ZifyN.
Open Scope N_scope.
Ltac Zify.zify_post_hook ::= Z.div_mod_to_equations.
Arguments N.add : simpl never. Arguments N.mul : simpl never. Arguments N.pow : simpl never.
Arguments N.ltb : simpl never. Arguments N.leb : simpl never. Arguments N.div : simpl never.
Arguments N.modulo : simpl never. Arguments N.sub : simpl never. Arguments N.eqb : simpl never.

(* ---------- folds whose accumulator is a [res] ---------- *)

Section FoldRes.
  Context {A B : Type} (g : A -> B -> res A).
  Definition fold_res (l : list B) (r : res A) : res A :=
    fold_left (fun acc x => bind acc (fun a => g a x)) l r.

  Lemma fold_res_Err l : fold_res l Err = Err.
  Proof. induction l as [|x t IH]; [reflexivity|exact IH]. Qed.
  Lemma fold_res_Panic l : fold_res l Panic = Panic.
  Proof. induction l as [|x t IH]; [reflexivity|exact IH]. Qed.
  Lemma fold_res_cons x l a : fold_res (x :: l) (Ok a) = fold_res l (g a x).
  Proof. reflexivity. Qed.

  Lemma fold_res_inv (P : A -> Prop) l : forall a0 a',
    P a0 -> (forall a x a1, In x l -> P a -> g a x = Ok a1 -> P a1) ->
    fold_res l (Ok a0) = Ok a' -> P a'.
  Proof.
    induction l as [|x t IH]; intros a0 a' H0 Hstep Hf.
    - cbn in Hf. inversion Hf; subst; exact H0.
    - rewrite fold_res_cons in Hf. destruct (g a0 x) as [a1| |] eqn:E.
      + apply (IH a1 a'); [apply (Hstep a0 x); [left; reflexivity|exact H0|exact E]| |exact Hf].
        intros a y a2 Hy. apply Hstep. right; exact Hy.
      + rewrite fold_res_Err in Hf. discriminate.
      + rewrite fold_res_Panic in Hf. discriminate.
  Qed.

  Lemma fold_res_total l : forall a0,
    (forall a x, In x l -> exists a1, g a x = Ok a1) -> exists a', fold_res l (Ok a0) = Ok a'.
  Proof.
    induction l as [|x t IH]; intros a0 Hstep.
    - exists a0. reflexivity.
    - rewrite fold_res_cons. destruct (Hstep a0 x (or_introl eq_refl)) as [a1 ->].
      apply IH. intros a y Hy. apply Hstep. right; exact Hy.
  Qed.

  (* a step that is the identity on every element leaves the accumulator alone *)
  Lemma fold_res_id l a0 : (forall x, In x l -> g a0 x = Ok a0) -> fold_res l (Ok a0) = Ok a0.
  Proof.
    induction l as [|x t IH]; intros H; [reflexivity|].
    rewrite fold_res_cons, H by (left; reflexivity). apply IH. intros y Hy. apply H. right; exact Hy.
  Qed.
End FoldRes.

(* ---------- send rates of the harness pool ---------- *)

Lemma send_mutations_rate_ok k tick : exists b, send_mutations (rate_of k) tick = Ok b.
Proof.
  unfold rate_of. destruct (k =? 2); [eexists; reflexivity|].
  destruct (k =? 4); [|eexists; reflexivity].
  cbn [send_mutations]. change (2 =? 0) with false. cbn iota. eexists; reflexivity.
Qed.

Lemma send_mutations_every_tick k tick : rate_of k = EveryTick -> send_mutations (rate_of k) tick = Ok true.
Proof. intros ->. reflexivity. Qed.

(* ---------- collect_entity, named pieces ---------- *)

Definition ce_incr (last_run : N) (st : vstate) (marker_added : bool) (mt : option N) (c : comp) : option N :=
  match mt with
  | Some t => if negb marker_added && negb (is_gained st) && negb (last_run <? c_added c) then Some t else None
  | None => None
  end.

Definition ce_step (last_run tick : N) (st : vstate) (marker_added : bool) (mt : option N)
  (a : list (N * val) * list (N * val)) (kc : N * comp) : res (list (N * val) * list (N * val)) :=
  let '(ins, muts) := a in
  let '(k, c) := kc in
  match ce_incr last_run st marker_added mt c with
  | Some t =>
    let* sm := send_mutations (rate_of k) tick in
    if (t <? c_changed c) && sm then Ok (ins, muts ++ [(k, c_val c)]) else Ok (ins, muts)
  | None => Ok (ins ++ [(k, c_val c)], muts)
  end.

Definition ce_finish (new_entity has_removal : bool) (a : list (N * val) * list (N * val)) : ent_changes :=
  let '(ins, muts) := a in
  let has_ins := match ins with [] => false | _ => true end in
  if new_entity || has_ins || has_removal then
    match ins ++ muts with
    | [] => mkEC (if new_entity then Some [] else None) [] true
    | entry => mkEC (Some entry) [] true
    end
  else mkEC None muts false.

Definition ce_new_entity (last_run : N) (st : vstate) (madd : N) (mt : option N) : bool :=
  (last_run <? madd) || is_gained st || match mt with None => true | Some _ => false end.
Definition ce_has_removal (rb : list (N * list N)) (e : N) : bool :=
  match al_get e rb with Some _ => true | None => false end.

Lemma collect_entity_unfold last_run tick rb ticks st e x madd :
  collect_entity last_run tick rb ticks st e x madd =
  if is_hidden st then Ok (mkEC None [] false) else
  let* a := fold_res (ce_step last_run tick st (last_run <? madd) (mutation_tick ticks e)) (se_comps x) (Ok ([], [])) in
  Ok (ce_finish (ce_new_entity last_run st madd (mutation_tick ticks e)) (ce_has_removal rb e) a).
Proof.
  unfold collect_entity, fold_res, ce_new_entity, ce_has_removal. destruct (is_hidden st); [reflexivity|].
  match goal with |- bind ?X _ = bind ?Y _ => change X with Y; destruct Y as [[ins muts]| |] end; try reflexivity.
  cbn [bind ce_finish]. destruct (_ || _ || _); [|reflexivity]. destruct (ins ++ muts); reflexivity.
Qed.

Lemma ce_step_total last_run tick st ma mt a kc : exists a', ce_step last_run tick st ma mt a kc = Ok a'.
Proof.
  destruct a as [ins muts], kc as [k c]. cbn [ce_step].
  destruct (ce_incr last_run st ma mt c) as [t|]; [|eexists; reflexivity].
  destruct (send_mutations_rate_ok k tick) as [b ->]. cbn [bind].
  destruct ((t <? c_changed c) && b); eexists; reflexivity.
Qed.

(* `collect_entity` cannot fail: the only failing primitive is `Periodic(0)` *)
Lemma collect_entity_total last_run tick rb ticks st e x madd :
  exists ec, collect_entity last_run tick rb ticks st e x madd = Ok ec.
Proof.
  rewrite collect_entity_unfold. destruct (is_hidden st); [eexists; reflexivity|].
  destruct (fold_res_total (ce_step last_run tick st (last_run <? madd) (mutation_tick ticks e)) (se_comps x) ([], []))
    as [a ->]; [intros; apply ce_step_total|].
  cbn [bind]. eexists; reflexivity.
Qed.

(* everything the finishing step can produce: whatever was collected is in the entry or in the
   mutations handed to the mutate messages *)
Lemma ce_finish_covers ne hr ins muts kv :
  In kv (ins ++ muts) ->
  In kv (ec_muts (ce_finish ne hr (ins, muts))) \/
  exists entry, ec_entry (ce_finish ne hr (ins, muts)) = Some entry /\ In kv entry.
Proof.
  intros Hin. cbn [ce_finish]. destruct (ne || match ins with [] => false | _ => true end || hr) eqn:E.
  - right. destruct (ins ++ muts) as [|y r] eqn:El; [destruct Hin|].
    cbn [ec_entry]. eexists; split; [reflexivity|exact Hin].
  - left. cbn [ec_muts]. destruct ins as [|i r]; [exact Hin|].
    rewrite orb_true_r in E. discriminate.
Qed.

(* ---------- 1. an unacknowledged change is in this tick's messages ---------- *)

Theorem resend_until_acked last_run tick rb ticks st e x madd ec k comp t :
  collect_entity last_run tick rb ticks st e x madd = Ok ec ->
  st <> VHidden ->
  In (k, comp) (se_comps x) -> rate_of k = EveryTick ->
  mutation_tick ticks e = Some t -> t < c_changed comp ->
  In (k, c_val comp) (ec_muts ec) \/
  exists entry, ec_entry ec = Some entry /\ In (k, c_val comp) entry.
Proof.
  intros Hce Hst Hin Hrate Hmt Hlt. rewrite collect_entity_unfold in Hce.
  destruct (is_hidden st) eqn:Eh; [destruct st; try discriminate; congruence|].
  destruct (fold_res _ _ _) as [[ins muts]| |] eqn:Ef; try discriminate.
  cbn [bind] in Hce. inversion Hce; subst ec; clear Hce.
  apply ce_finish_covers.
  (* fold invariant: every element seen so far that satisfies the premises has been collected *)
  rewrite Hmt in Ef.
  assert (G : forall l i0 m0, fold_res (ce_step last_run tick st (last_run <? madd) (Some t)) l (Ok (i0, m0)) = Ok (ins, muts) ->
              (In (k, c_val comp) (i0 ++ m0) \/ In (k, comp) l) -> In (k, c_val comp) (ins ++ muts)).
  { clear Ef Hin. induction l as [|[k1 c1] l IH]; intros i0 m0 Ef Hor.
    - cbn in Ef. inversion Ef; subst. destruct Hor as [H|[]]; exact H.
    - rewrite fold_res_cons in Ef. cbn [ce_step] in Ef.
      destruct (ce_incr last_run st (last_run <? madd) (Some t) c1) as [t1|] eqn:Ei.
      + assert (t1 = t) as -> by (cbn [ce_incr] in Ei; destruct (_ && _ && _); congruence).
        destruct (send_mutations_rate_ok k1 tick) as [b Eb]. rewrite Eb in Ef. cbn [bind] in Ef.
        destruct ((t <? c_changed c1) && b) eqn:Ec.
        * apply (IH _ _ Ef). destruct Hor as [H|[H|H]]; [left|left|right; exact H].
          -- rewrite in_app_iff in *. rewrite in_app_iff. tauto.
          -- inversion H; subst. rewrite in_app_iff, in_app_iff. right; right; left; reflexivity.
        * apply (IH _ _ Ef). destruct Hor as [H|[H|H]]; [left; exact H| |right; exact H].
          exfalso. inversion H; subst k1 c1. rewrite send_mutations_every_tick in Eb by exact Hrate.
          inversion Eb; subst b. lia.
      + apply (IH _ _ Ef). destruct Hor as [H|[H|H]]; [left|left|right; exact H].
        * rewrite in_app_iff in *. rewrite in_app_iff. tauto.
        * inversion H; subst. rewrite in_app_iff, in_app_iff. left; right; left; reflexivity. }
  apply (G _ _ _ Ef). right; exact Hin.
Qed.

(* the same without a stamp: an entity the client has no stamp for is sent completely *)
Theorem unknown_entity_sent_completely last_run tick rb ticks st e x madd ec k comp :
  collect_entity last_run tick rb ticks st e x madd = Ok ec ->
  st <> VHidden ->
  In (k, comp) (se_comps x) -> mutation_tick ticks e = None ->
  exists entry, ec_entry ec = Some entry /\ In (k, c_val comp) entry.
Proof.
  intros Hce Hst Hin Hmt. rewrite collect_entity_unfold in Hce.
  destruct (is_hidden st) eqn:Eh; [destruct st; try discriminate; congruence|].
  destruct (fold_res _ _ _) as [[ins muts]| |] eqn:Ef; try discriminate.
  cbn [bind] in Hce. inversion Hce; subst ec; clear Hce. rewrite Hmt in *.
  assert (G : forall l i0 m0, fold_res (ce_step last_run tick st (last_run <? madd) None) l (Ok (i0, m0)) = Ok (ins, muts) ->
              (In (k, c_val comp) i0 \/ In (k, comp) l) -> In (k, c_val comp) ins).
  { induction l as [|[k1 c1] l IH]; intros i0 m0 Ef' Hor.
    - cbn in Ef'. inversion Ef'; subst. destruct Hor as [H|[]]; exact H.
    - rewrite fold_res_cons in Ef'. cbn [ce_step ce_incr] in Ef'. apply (IH _ _ Ef').
      destruct Hor as [H|[H|H]]; [left|left|right; exact H]; rewrite in_app_iff; [tauto|].
      inversion H; subst. right; left; reflexivity. }
  assert (Hi : In (k, c_val comp) ins) by (apply (G _ _ _ Ef); right; exact Hin).
  cbn [ce_finish]. unfold ce_new_entity. rewrite orb_true_r. cbn [orb].
  destruct (ins ++ muts) as [|y r] eqn:El.
  - destruct ins; [destruct Hi|discriminate].
  - cbn [ec_entry]. eexists; split; [reflexivity|]. rewrite <- El, in_app_iff. left; exact Hi.
Qed.

(* ---------- 2. an acknowledged, unchanged entity is not sent at all ---------- *)

Definition ent_settled (last_run : N) (ticks : client_ticks) (e : N) (x : sent) (madd : N) : Prop :=
  exists t, mutation_tick ticks e = Some t /\ (last_run <? madd) = false /\
            forall k comp, In (k, comp) (se_comps x) -> c_changed comp <= t /\ c_added comp <= last_run.

Theorem acked_not_resent last_run tick rb ticks e x madd t :
  mutation_tick ticks e = Some t ->
  (last_run <? madd) = false ->
  al_get e rb = None ->
  (forall k comp, In (k, comp) (se_comps x) -> c_changed comp <= t /\ c_added comp <= last_run) ->
  collect_entity last_run tick rb ticks VVisible e x madd = Ok (mkEC None [] false).
Proof.
  intros Hmt Hma Hrb Hall. rewrite collect_entity_unfold. cbn [is_hidden].
  rewrite fold_res_id.
  - cbn [bind ce_finish]. unfold ce_new_entity, ce_has_removal. rewrite Hma, Hmt, Hrb. reflexivity.
  - intros [k c] Hin. destruct (Hall k c Hin) as [Hc Ha]. cbn [ce_step]. rewrite Hmt, Hma. cbn [ce_incr is_gained negb andb].
    replace (last_run <? c_added c) with false by lia. cbn [negb].
    destruct (send_mutations_rate_ok k tick) as [b ->]. cbn [bind].
    replace (t <? c_changed c) with false by lia. reflexivity.
Qed.

Corollary settled_not_resent last_run tick rb ticks e x madd :
  ent_settled last_run ticks e x madd -> al_get e rb = None ->
  collect_entity last_run tick rb ticks VVisible e x madd = Ok (mkEC None [] false).
Proof. intros (t & H1 & H2 & H3) Hrb. exact (acked_not_resent _ _ _ _ _ _ _ _ H1 H2 Hrb H3). Qed.

Lemma hidden_not_sent last_run tick rb ticks e x madd :
  collect_entity last_run tick rb ticks VHidden e x madd = Ok (mkEC None [] false).
Proof. reflexivity. Qed.

(* ---------- 3. receive_acks ---------- *)

(* all indices a slot sent in this frame, in arrival order *)
Definition acks_for (slot : N) (inbox : list (N * list N)) : list N :=
  concat (map snd (filter (fun m => fst m =? slot) inbox)).

Definition ack_client (now : N) (inbox : list (N * list N)) (cl : sclient) : sclient :=
  if sc_authorized cl then
    mkSC (sc_slot cl) true (sc_max_size cl) (ack_all (sc_ticks cl) now (acks_for (sc_slot cl) inbox))
         (sc_vis cl) (sc_pending_map cl)
  else cl.

Lemma ack_all_app ct now a b : ack_all ct now (a ++ b) = ack_all (ack_all ct now a) now b.
Proof. unfold ack_all. apply fold_left_app. Qed.

Lemma acks_for_cons slot m r :
  acks_for slot (m :: r) = if fst m =? slot then snd m ++ acks_for slot r else acks_for slot r.
Proof. unfold acks_for. cbn [filter]. destruct (fst m =? slot); reflexivity. Qed.

Lemma ack_client_nil now cl : ack_client now [] cl = cl.
Proof. destruct cl as [sl au mx tk vs pm]. unfold ack_client; cbn. destruct au; reflexivity. Qed.

(* exact effect of `receive_acks` on the client records *)
Lemma receive_acks_clients s :
  sv_clients (receive_acks s) = map (ack_client (sv_now s) (sv_inbox_acks s)) (sv_clients s).
Proof.
  unfold receive_acks; cbn [sv_clients]. generalize (sv_clients s) as cls. generalize (sv_now s) as now.
  intros now. induction (sv_inbox_acks s) as [|[slot idxs] r IH]; intros cls.
  - cbn [fold_left]. rewrite (map_ext _ (fun cl => cl)) by (apply ack_client_nil). symmetry; apply map_id.
  - cbn [fold_left]. rewrite IH, map_map. apply map_ext. intros [sl au mx tk vs pm].
    unfold ack_client at 2. cbn [sc_slot sc_authorized sc_max_size sc_ticks sc_vis sc_pending_map].
    rewrite acks_for_cons. cbn [fst snd]. rewrite (N.eqb_sym slot sl).
    destruct (sl =? slot); destruct au; cbn [andb]; unfold ack_client; cbn [sc_slot sc_authorized sc_max_size sc_ticks sc_vis sc_pending_map];
      try reflexivity.
    rewrite ack_all_app. reflexivity.
Qed.

(* ... and on everything else: the world, the buffers and the clocks are not touched *)
Lemma receive_acks_frame s :
  sv_ents (receive_acks s) = sv_ents s /\ sv_despawn_buf (receive_acks s) = sv_despawn_buf s /\
  sv_removal_buf (receive_acks s) = sv_removal_buf s /\ sv_removed_events (receive_acks s) = sv_removed_events s /\
  sv_tick (receive_acks s) = sv_tick s /\ sv_now (receive_acks s) = sv_now s /\ sv_last_run (receive_acks s) = sv_last_run s /\
  sv_dirty (receive_acks s) = sv_dirty s /\ sv_elapsed (receive_acks s) = sv_elapsed s /\
  sv_running (receive_acks s) = sv_running s /\ sv_last_running (receive_acks s) = sv_last_running s /\
  sv_premap (receive_acks s) = sv_premap s /\ sv_inbox_acks (receive_acks s) = [].
Proof. repeat split. Qed.

(* only the acknowledgement bookkeeping of a record can change *)
Lemma ack_client_frame now inbox cl :
  sc_slot (ack_client now inbox cl) = sc_slot cl /\ sc_authorized (ack_client now inbox cl) = sc_authorized cl /\
  sc_max_size (ack_client now inbox cl) = sc_max_size cl /\ sc_vis (ack_client now inbox cl) = sc_vis cl /\
  sc_pending_map (ack_client now inbox cl) = sc_pending_map cl.
Proof. unfold ack_client. destruct (sc_authorized cl) eqn:E; cbn; auto. Qed.

(* isolation: a record only sees the indices sent under its own slot ... *)
Lemma ack_client_own_slot now inbox inbox' cl :
  acks_for (sc_slot cl) inbox = acks_for (sc_slot cl) inbox' -> ack_client now inbox cl = ack_client now inbox' cl.
Proof. unfold ack_client. intros ->. reflexivity. Qed.

Lemma acks_for_none slot inbox : (forall m, In m inbox -> fst m <> slot) -> acks_for slot inbox = [].
Proof.
  induction inbox as [|m r IH]; intros H; [reflexivity|]. rewrite acks_for_cons.
  destruct (fst m =? slot) eqn:E; [exfalso; apply (H m (or_introl eq_refl)); lia|].
  apply IH. intros m' Hm'. apply H. right; exact Hm'.
Qed.

(* ... so a client that sent nothing, and a slot that is not an authorized client, are untouched *)
Lemma ack_client_silent now inbox cl : (forall m, In m inbox -> fst m <> sc_slot cl) -> ack_client now inbox cl = cl.
Proof.
  intros H. rewrite (ack_client_own_slot now inbox [] cl); [apply ack_client_nil|].
  rewrite acks_for_none by exact H. reflexivity.
Qed.

Lemma ack_client_unauthorized now inbox cl : sc_authorized cl = false -> ack_client now inbox cl = cl.
Proof. unfold ack_client. intros ->. reflexivity. Qed.

Lemma acks_for_Forall (P : N -> Prop) slot inbox :
  (forall m, In m inbox -> fst m = slot -> Forall P (snd m)) -> Forall P (acks_for slot inbox).
Proof.
  induction inbox as [|m r IH]; intros H; [constructor|]. rewrite acks_for_cons.
  assert (Hr : Forall P (acks_for slot r)) by (apply IH; intros m' Hm'; apply H; right; exact Hm').
  destruct (fst m =? slot) eqn:E; [|exact Hr].
  apply Forall_app. split; [apply H; [left; reflexivity|lia]|exact Hr].
Qed.

Definition junk_for (cl : sclient) (m : N * list N) : Prop :=
  fst m = sc_slot cl -> sc_authorized cl = true ->
  Forall (fun i => al_get i (ct_mutations (sc_ticks cl)) = None) (snd m).

(* acknowledgements that name no in-flight message of their sender (or come from a slot that
   is not an authorized client) change nothing at all *)
Theorem junk_acks_harmless s :
  (forall cl m, In cl (sv_clients s) -> In m (sv_inbox_acks s) -> junk_for cl m) ->
  sv_clients (receive_acks s) = sv_clients s.
Proof.
  intros H. rewrite receive_acks_clients. rewrite <- (map_id (sv_clients s)) at 2.
  apply map_ext_in. intros cl Hcl. destruct (sc_authorized cl) eqn:Ea; [|apply ack_client_unauthorized; exact Ea].
  unfold ack_client. rewrite Ea. rewrite ack_all_unknown_identity.
  - destruct cl; cbn in *. subst; reflexivity.
  - apply acks_for_Forall. intros m Hm Hs. apply (H cl m Hcl Hm Hs Ea).
Qed.

(* per record version: the junk of one sender is harmless whatever the others sent *)
Theorem junk_acks_harmless_for now inbox cl :
  (forall m, In m inbox -> junk_for cl m) -> ack_client now inbox cl = cl.
Proof.
  intros H. destruct (sc_authorized cl) eqn:Ea; [|apply ack_client_unauthorized; exact Ea].
  unfold ack_client. rewrite Ea. rewrite ack_all_unknown_identity.
  - destruct cl; cbn in *. subst; reflexivity.
  - apply acks_for_Forall. intros m Hm Hs. apply (H m Hm Hs Ea).
Qed.

(* the network labels every acknowledgement with the slot of the link it travelled on *)
Lemma deliver_acks_label s slot picked m :
  In m (sv_inbox_acks (fold_left (fun s idxs => deliver_acks s slot idxs) picked s)) ->
  In m (sv_inbox_acks s) \/ fst m = slot.
Proof.
  revert s; induction picked as [|idxs r IH]; intros s Hin; [left; exact Hin|].
  cbn [fold_left] in Hin. destruct (IH _ Hin) as [H|H]; [|right; exact H].
  unfold deliver_acks in H. destruct (sv_running s); [|left; exact H].
  destruct (find_client s slot); [|left; exact H]. cbn [sv_inbox_acks] in H.
  apply in_app_or in H. destruct H as [H|[H|[]]]; [left; exact H|right; subst m; reflexivity].
Qed.

(* ---------- 4. an acknowledgement that arrives after cleanup is an unknown index ---------- *)

Theorem late_ack_after_cleanup_is_junk ct min_ts run idx info :
  ct_wf ct -> al_get idx (ct_mutations ct) = Some info -> mi_timestamp info < min_ts ->
  ack_mutate_message (cleanup_older_mutations ct min_ts) run idx = cleanup_older_mutations ct min_ts.
Proof.
  intros Hwf Hi Hlt. apply ack_unknown_identity. rewrite cleanup_spec by exact Hwf. rewrite Hi.
  replace (mi_timestamp info <? min_ts) with true by lia. reflexivity.
Qed.

Lemma cleanup_keeps_stamps ct min_ts e : mutation_tick (cleanup_older_mutations ct min_ts) e = mutation_tick ct e.
Proof. reflexivity. Qed.

(* ---------- 5. an acknowledgement never moves a stamp past the acknowledged message ---------- *)

(* after `ack_mutate_message` every stamp is the old one, or the tick of the acknowledged message
   and then the entity was listed in that message *)
Theorem ack_bounded_by_message_tick ct run idx e :
  mutation_tick (ack_mutate_message ct run idx) e = mutation_tick ct e \/
  exists info old, al_get idx (ct_mutations ct) = Some info /\ In e (mi_entities info) /\
                   mutation_tick ct e = Some old /\
                   mutation_tick (ack_mutate_message ct run idx) e = Some (mi_tick info).
Proof.
  rewrite ack_stamps. destruct (al_get idx (ct_mutations ct)) as [info|] eqn:Ei; [|left; reflexivity].
  destruct (existsb (N.eqb e) (mi_entities info)) eqn:Ex; [|left; reflexivity].
  destruct (mutation_tick ct e) as [old|] eqn:Eo; [|left; reflexivity]. cbn [option_map].
  destruct (ack_stamp_cases (mi_tick info) run old) as [[-> _]|[-> _]]; [left; reflexivity|].
  right. exists info, old. repeat split; auto.
  apply existsb_exists in Ex. destruct Ex as [y [Hy Heq]]. assert (e = y) by lia. subst y. exact Hy.
Qed.

(* consequently a change that is newer than the old stamp and newer than every message that
   could be acknowledged stays newer than the stamp: [resend_until_acked] keeps applying *)
Theorem ack_never_skips_data ct run idx e old ch :
  mutation_tick ct e = Some old -> old < ch ->
  (forall info, al_get idx (ct_mutations ct) = Some info -> In e (mi_entities info) -> mi_tick info < ch) ->
  exists t', mutation_tick (ack_mutate_message ct run idx) e = Some t' /\ t' < ch.
Proof.
  intros Ho Hlt Hmsg. destruct (ack_bounded_by_message_tick ct run idx e) as [E|(info & old' & Ei & Hin & _ & E)].
  - exists old. rewrite E. auto.
  - exists (mi_tick info). split; [exact E|]. apply (Hmsg info Ei Hin).
Qed.

(* in the plain order of the logical stamp counter (no wrap: everything at most [run] < MAX_CHANGE_AGE)
   the acknowledged stamp is the maximum of the old stamp and the message tick *)
Lemma ack_stamp_max T run t : t <= run -> T <= run -> run < MAX_CHANGE_AGE ->
  ack_stamp T run t = N.max t T.
Proof.
  intros H1 H2 H3. rewrite max_change_age_value in H3.
  unfold ack_stamp, tick_is_newer_than, tick_age, relative_to. rewrite max_change_age_value.
  change (2 ^ 32) with 4294967296.
  destruct (N.min ((run + 4294967296 - t) mod 4294967296) 3258167296 <? N.min ((run + 4294967296 - T) mod 4294967296) 3258167296) eqn:E;
    cbn [negb]; lia.
Qed.

(* the same for a whole sequence of acknowledgements *)
Theorem ack_all_never_skips_data ct run idxs e old ch :
  mutation_tick ct e = Some old -> old < ch ->
  (forall idx info, In idx idxs -> al_get idx (ct_mutations ct) = Some info -> In e (mi_entities info) -> mi_tick info < ch) ->
  exists t', mutation_tick (ack_all ct run idxs) e = Some t' /\ t' < ch.
Proof.
  revert ct old. induction idxs as [|i r IH]; intros ct old Ho Hlt Hmsg.
  - exists old. auto.
  - rewrite ack_all_cons.
    destruct (ack_never_skips_data ct run i e old ch Ho Hlt) as (t1 & E1 & L1).
    { intros info. apply (Hmsg i). left; reflexivity. }
    apply (IH _ t1 E1 L1). intros idx info Hidx Hget. apply (Hmsg idx); [right; exact Hidx|].
    destruct (N.eq_dec idx i) as [->|Hne].
    + rewrite ack_entry_removed in Hget. discriminate.
    + rewrite ack_other_entries in Hget by exact Hne. exact Hget.
Qed.

(* ---------- send_for_client, named pieces ---------- *)

Notation sfc_acc := (list (N * list (N * val)) * list (N * list (N * val)) * client_ticks)%type.

Definition sfc_step (s : server) (this_run : N) (vis1 : option vis) (a : sfc_acc) (exm : N * sent * N) : res sfc_acc :=
  let '(changes, muts, ticks) := a in
  let '(e, x, madd) := exm in
  let* ec := collect_entity (sv_last_run s) (sv_tick s) (sv_removal_buf s) ticks (vis_state_of vis1 e) e x madd in
  let changes' := match ec_entry ec with Some en => changes ++ [(e, en)] | None => changes end in
  let muts' := match ec_muts ec with [] => muts | m => muts ++ [(e, m)] end in
  let ticks' := if ec_bump ec then set_mutation_tick ticks e this_run else ticks in
  Ok (changes', muts', ticks').

Definition sfc_body (muts : list (N * list (N * val))) (ents : list N) : list (N * list (N * val)) :=
  map (fun e => (e, match al_get e muts with Some m => m | None => [] end)) ents.

Definition sfc_messages (c : cfg) (s : server) (this_run : N) (ticks3 : client_ticks)
  (muts : list (N * list (N * val))) (p' : partition) : client_ticks * list mutate_msg :=
  fold_left (fun acc ents =>
    let '(t, msgs) := acc in
    let '(t', idx) := register_mutate_message t this_run (sv_elapsed s) in
    let t'' := add_entities t' idx ents in
    (t'', msgs ++ [mkMut (ct_update_tick ticks3) (sv_tick s) (if cfg_track c then N.of_nat (length p') else 1) idx (sfc_body muts ents)]))
    p' (ticks3, []).

Definition sfc_partition (c : cfg) (muts : list (N * list (N * val))) (p : partition) : partition :=
  if negb (partition_ok (cfg_track c) muts p)
  then (match muts with [] => if cfg_track c then [[]] else [] | _ => [map fst muts] end) else p.

Definition sfc_finish (c : cfg) (s : server) (this_run : N) (cl : sclient) (p : partition)
  (despawns : list N) (vis1 : option vis) (a : sfc_acc) : sclient * client_out :=
  let '(changes, muts, ticks2) := a in
  let tick := sv_tick s in
  let upd := mkUpd tick (sort_by_key (sc_pending_map cl)) despawns
                   (sort_by_key (collect_removals (sv_removal_buf s) vis1)) changes in
  let has_upd := negb (update_is_empty upd) in
  let ticks3 := if has_upd then set_update_tick ticks2 tick else ticks2 in
  let send_muts := match muts with [] => cfg_track c | _ => true end in
  let '(ticks4, msgs) :=
    if send_muts then sfc_messages c s this_run ticks3 muts (sfc_partition c muts p) else (ticks3, []) in
  (mkSC (sc_slot cl) true (sc_max_size cl) ticks4 (match vis1 with Some v => Some (update v) | None => None end) [],
   mkCO (sc_slot cl) (if has_upd then Some upd else None) msgs (negb (partition_ok (cfg_track c) muts p))).

Lemma send_for_client_unfold c s this_run cl p :
  send_for_client c s this_run cl p =
  let '(despawns, ticks1, vis1) := collect_despawns (sv_despawn_buf s) (sc_ticks cl) (sc_vis cl) in
  let* a := fold_res (sfc_step s this_run vis1) (replicated_ents s) (Ok ([], [], ticks1)) in
  Ok (sfc_finish c s this_run cl p despawns vis1 a).
Proof.
  unfold send_for_client. destruct (collect_despawns _ _ _) as [[despawns ticks1] vis1].
  unfold fold_res.
  match goal with |- bind ?X _ = bind ?Y _ => change X with Y; destruct Y as [[[changes muts] ticks2]| |] end; try reflexivity.
  cbn [bind sfc_finish]. unfold sfc_messages, sfc_partition, sfc_body.
  destruct (match muts with [] => cfg_track c | _ => true end); [|reflexivity].
  match goal with |- (let '(_, _) := ?X in _) = Ok (let '(_, _) := ?Y in _) => change Y with X; destruct X end.
  reflexivity.
Qed.

Lemma sfc_step_total s run vis1 a exm : exists a', sfc_step s run vis1 a exm = Ok a'.
Proof.
  destruct a as [[ch mu] tk], exm as [[e x] madd]. cbn [sfc_step].
  destruct (collect_entity_total (sv_last_run s) (sv_tick s) (sv_removal_buf s) tk (vis_state_of vis1 e) e x madd) as [ec ->].
  cbn [bind]. eexists; reflexivity.
Qed.

(* `send_for_client` cannot fail *)
Lemma send_for_client_total c s run cl p : exists r, send_for_client c s run cl p = Ok r.
Proof.
  rewrite send_for_client_unfold. destruct (collect_despawns _ _ _) as [[despawns ticks1] vis1].
  destruct (fold_res_total (sfc_step s run vis1) (replicated_ents s) ([], [], ticks1)) as [a ->];
    [intros; apply sfc_step_total|].
  cbn [bind]. eexists; reflexivity.
Qed.

(* ---------- 6. a quiescent client is sent nothing ---------- *)

Definition vis_settled (v : option vis) : Prop :=
  match v with None => True | Some v => v_added v = [] /\ v_removed v = [] end.

Definition quiescent_for (s : server) (cl : sclient) : Prop :=
  sc_pending_map cl = [] /\ sv_despawn_buf s = [] /\ sv_removal_buf s = [] /\
  vis_settled (sc_vis cl) /\
  forall e x madd, In (e, x, madd) (replicated_ents s) ->
    vis_state_of (sc_vis cl) e = VHidden \/
    (vis_state_of (sc_vis cl) e = VVisible /\ ent_settled (sv_last_run s) (sc_ticks cl) e x madd).

Lemma update_settled v : v_added v = [] -> v_removed v = [] -> update v = v.
Proof. destruct v as [[l|l] a r]; cbn; intros -> ->; reflexivity. Qed.

Lemma collect_despawns_settled ticks v : vis_settled v -> collect_despawns [] ticks v = ([], ticks, v).
Proof.
  destruct v as [[[l|l] a r]|]; cbn; [intros [-> ->]..|intros _]; reflexivity.
Qed.

(* the canonical partition is used whatever the oracle proposed when nothing has to be sent *)
Lemma sfc_partition_nil c p : sfc_partition c [] p = if cfg_track c then [[]] else [].
Proof.
  unfold sfc_partition, partition_ok. destruct (cfg_track c).
  - destruct p as [|[|a l] [|b q]]; cbn; rewrite ?andb_false_r; reflexivity.
  - destruct p as [|a q]; cbn; rewrite ?andb_false_r; reflexivity.
Qed.

Lemma add_entities_nil ct idx : add_entities ct idx [] = ct.
Proof.
  destruct ct as [mt ut ms mi]. unfold add_entities; cbn. f_equal.
  induction ms as [|[k [a b l]] r IH]; cbn [al_adjust]; [reflexivity|].
  destruct (k =? idx); cbn; [rewrite app_nil_r; reflexivity|rewrite IH; reflexivity].
Qed.

(* what a silent tick leaves behind / puts on the wire *)
Definition silent_ticks (c : cfg) (s : server) (run : N) (t : client_ticks) : client_ticks :=
  if cfg_track c then fst (register_mutate_message t run (sv_elapsed s)) else t.
Definition silent_msgs (c : cfg) (s : server) (t : client_ticks) : list mutate_msg :=
  if cfg_track c then [mkMut (ct_update_tick t) (sv_tick s) 1 (ct_mutate_index t) []] else [].
Definition silent_client (c : cfg) (s : server) (run : N) (cl : sclient) : sclient :=
  mkSC (sc_slot cl) true (sc_max_size cl) (silent_ticks c s run (sc_ticks cl)) (sc_vis cl) [].

Theorem idle_server_silent c s run cl p :
  quiescent_for s cl ->
  send_for_client c s run cl p =
  Ok (silent_client c s run cl,
      mkCO (sc_slot cl) None (silent_msgs c s (sc_ticks cl)) (negb (partition_ok (cfg_track c) [] p))).
Proof.
  intros (Hpm & Hdb & Hrb & Hvs & Hents). rewrite send_for_client_unfold, Hdb.
  rewrite collect_despawns_settled by exact Hvs.
  rewrite fold_res_id.
  - cbn [bind sfc_finish]. rewrite Hpm, Hrb. cbn [sort_by_key collect_removals filter fold_right update_is_empty
      u_maps u_despawns u_removals u_changes negb].
    rewrite sfc_partition_nil. unfold silent_client, silent_ticks, silent_msgs.
    assert (Ev : match sc_vis cl with Some v => Some (update v) | None => None end = sc_vis cl).
    { destruct (sc_vis cl) as [v|]; [|reflexivity]. destruct Hvs as [Ha Hr]. rewrite update_settled by assumption. reflexivity. }
    rewrite Ev. destruct (cfg_track c) eqn:Et; [|reflexivity].
    unfold sfc_messages, register_mutate_message. cbn [fold_left fst]. rewrite Et.
    rewrite add_entities_nil. reflexivity.
  - intros [[e x] madd] Hin. cbn [sfc_step]. rewrite Hrb.
    destruct (Hents e x madd Hin) as [Hh|[Hv Hset]].
    + rewrite Hh, hidden_not_sent. reflexivity.
    + rewrite Hv, settled_not_resent; [reflexivity|exact Hset|reflexivity].
Qed.

(* ---------- send_replication / server_frame: named pieces, totality ---------- *)

Definition sr_step (c : cfg) (s : server) (parts : list (N * partition)) (run : N)
  (a : list sclient * list client_out) (cl : sclient) : res (list sclient * list client_out) :=
  let '(cls, outs) := a in
  if sc_authorized cl then
    let p := match al_get (sc_slot cl) parts with Some p => p | None => [] end in
    let* (cl', out) := send_for_client c s run cl p in
    Ok (cls ++ [cl'], outs ++ [out])
  else Ok (cls ++ [cl], outs).

Lemma send_replication_unfold c s parts :
  send_replication c s parts =
  let* a := fold_res (sr_step c s parts (sv_now s)) (sv_clients s) (Ok ([], [])) in
  Ok (set_after_send s (fst a) (sv_now s), snd a).
Proof.
  unfold send_replication, fold_res.
  match goal with |- bind ?X _ = bind ?Y _ => change X with Y; destruct Y as [[cls outs]| |] end; reflexivity.
Qed.

Lemma sr_step_total c s parts run a cl : exists a', sr_step c s parts run a cl = Ok a'.
Proof.
  destruct a as [cls outs]. cbn [sr_step]. destruct (sc_authorized cl); [|eexists; reflexivity].
  destruct (send_for_client_total c s run cl (match al_get (sc_slot cl) parts with Some p => p | None => [] end)) as [[cl' out] ->].
  cbn [bind]. eexists; reflexivity.
Qed.

Lemma send_replication_total c s parts : exists r, send_replication c s parts = Ok r.
Proof.
  rewrite send_replication_unfold.
  destruct (fold_res_total (sr_step c s parts (sv_now s)) (sv_clients s) ([], [])) as [a ->];
    [intros; apply sr_step_total|].
  cbn [bind]. eexists; reflexivity.
Qed.

(* 12 (server part): a server frame never fails, whatever the state, the operations, the inbox
   and the proposed partitions are *)
Theorem server_frame_total c s tick dt cleanup ops parts :
  exists r, server_frame c s tick dt cleanup ops parts = Ok r.
Proof.
  unfold server_frame.
  match goal with |- context [if sv_running ?S3 then _ else _] => destruct (sv_running S3) end.
  - match goal with |- context [if sv_dirty ?S then _ else _] => destruct (sv_dirty S); [destruct (send_replication_total c S parts) as [[s4 outs] ->]|] end;
      cbn [bind]; eexists; reflexivity.
  - cbn [bind]. eexists; reflexivity.
Qed.

Lemma fold_res_map2 {X B C : Type} (g : list B * list C -> X -> res (list B * list C)) (f : X -> B) (h : X -> list C) l :
  (forall cls outs x, In x l -> g (cls, outs) x = Ok (cls ++ [f x], outs ++ h x)) ->
  forall cls outs, fold_res g l (Ok (cls, outs)) = Ok (cls ++ map f l, outs ++ flat_map h l).
Proof.
  induction l as [|x t IH]; intros Hg cls outs.
  - cbn. rewrite !app_nil_r. reflexivity.
  - rewrite fold_res_cons, Hg by (left; reflexivity). rewrite IH by (intros; apply Hg; right; assumption).
    cbn [map flat_map]. rewrite <- !app_assoc. reflexivity.
Qed.

(* ---------- 6 (continued). silence is stable ---------- *)

Definition quiescent (s : server) : Prop :=
  sv_removed_events s = [] /\ sv_inbox_acks s = [] /\ sv_last_run s <= sv_now s /\
  forall cl, In cl (sv_clients s) -> sc_authorized cl = true -> quiescent_for s cl.

Definition silent_out (c : cfg) (o : client_out) : Prop :=
  co_update o = None /\
  if cfg_track c then exists m, co_mutates o = [m] /\ m_body m = [] /\ m_count m = 1 else co_mutates o = [].

(* the parts of a client record quiescence looks at *)
Definition sc_equiv (cl cl' : sclient) : Prop :=
  sc_authorized cl = sc_authorized cl' /\ sc_vis cl = sc_vis cl' /\ sc_pending_map cl = sc_pending_map cl' /\
  ct_mutation_ticks (sc_ticks cl) = ct_mutation_ticks (sc_ticks cl').

Lemma sc_equiv_refl cl : sc_equiv cl cl.
Proof. repeat split. Qed.

Lemma replicated_ents_ext s s' : sv_ents s' = sv_ents s -> replicated_ents s' = replicated_ents s.
Proof. unfold replicated_ents. intros ->. reflexivity. Qed.

Lemma quiescent_for_transfer s s' cl cl' :
  sv_ents s' = sv_ents s -> sv_despawn_buf s' = [] -> sv_removal_buf s' = [] ->
  sv_last_run s <= sv_last_run s' -> sc_equiv cl cl' ->
  quiescent_for s cl -> quiescent_for s' cl'.
Proof.
  intros He Hd Hr Hl (_ & Ev & Ep & Et) (Hpm & _ & _ & Hvs & Hents).
  unfold quiescent_for. rewrite <- Ev, <- Ep, (replicated_ents_ext _ _ He). repeat split; auto.
  intros e x madd Hin. destruct (Hents e x madd Hin) as [Hh|[Hv (t & H1 & H2 & H3)]]; [left; exact Hh|right].
  split; [exact Hv|]. exists t. unfold mutation_tick in *. rewrite <- Et. split; [exact H1|]. split; [lia|].
  intros k comp Hk. destruct (H3 k comp Hk). lia.
Qed.

Lemma quiescent_transfer s s' :
  sv_ents s' = sv_ents s -> sv_despawn_buf s' = [] -> sv_removal_buf s' = [] ->
  sv_removed_events s' = [] -> sv_inbox_acks s' = [] ->
  sv_last_run s <= sv_last_run s' -> sv_last_run s' <= sv_now s' ->
  (forall cl', In cl' (sv_clients s') -> exists cl, In cl (sv_clients s) /\ sc_equiv cl cl') ->
  quiescent s -> quiescent s'.
Proof.
  intros He Hd Hr Hev Hib Hl Hn Hcl (_ & _ & _ & Hq). split; [exact Hev|]. split; [exact Hib|]. split; [exact Hn|].
  intros cl' Hin' Ha'. destruct (Hcl cl' Hin') as (cl & Hin & Heq).
  apply (quiescent_for_transfer s s' cl cl'); auto. apply Hq; [exact Hin|]. destruct Heq as (-> & _). exact Ha'.
Qed.

Lemma quiescent_bufs s : quiescent s -> (exists cl, In cl (sv_clients s) /\ sc_authorized cl = true) ->
  sv_despawn_buf s = [] /\ sv_removal_buf s = [].
Proof. intros (_ & _ & _ & Hq) (cl & Hin & Ha). destruct (Hq cl Hin Ha) as (_ & Hd & Hr & _). auto. Qed.

(* one run of `send_replication` in a quiescent server *)
Lemma send_replication_quiescent c s parts :
  (forall cl, In cl (sv_clients s) -> sc_authorized cl = true -> quiescent_for s cl) ->
  send_replication c s parts =
  Ok (set_after_send s (map (fun cl => if sc_authorized cl then silent_client c s (sv_now s) cl else cl) (sv_clients s)) (sv_now s),
      flat_map (fun cl => if sc_authorized cl
                          then [mkCO (sc_slot cl) None (silent_msgs c s (sc_ticks cl))
                                     (negb (partition_ok (cfg_track c) []
                                              (match al_get (sc_slot cl) parts with Some p => p | None => [] end)))]
                          else []) (sv_clients s)).
Proof.
  intros Hq. rewrite send_replication_unfold.
  rewrite (fold_res_map2 (sr_step c s parts (sv_now s))
             (fun cl => if sc_authorized cl then silent_client c s (sv_now s) cl else cl)
             (fun cl => if sc_authorized cl
                        then [mkCO (sc_slot cl) None (silent_msgs c s (sc_ticks cl))
                                   (negb (partition_ok (cfg_track c) []
                                            (match al_get (sc_slot cl) parts with Some p => p | None => [] end)))]
                        else [])).
  - reflexivity.
  - intros cls outs cl Hin. cbn [sr_step]. destruct (sc_authorized cl) eqn:Ea.
    + rewrite idle_server_silent by (apply Hq; assumption). reflexivity.
    + rewrite app_nil_r. reflexivity.
Qed.

Lemma silent_msgs_silent c s cl b : silent_out c (mkCO (sc_slot cl) None (silent_msgs c s (sc_ticks cl)) b).
Proof.
  unfold silent_out, silent_msgs. cbn [co_update co_mutates]. split; [reflexivity|].
  destruct (cfg_track c); [|reflexivity]. eexists. repeat split.
Qed.

Lemma silent_client_equiv c s run cl : sc_authorized cl = true -> quiescent_for s cl -> sc_equiv cl (silent_client c s run cl).
Proof.
  intros Ha (Hpm & _). unfold sc_equiv, silent_client, silent_ticks. cbn [sc_authorized sc_vis sc_pending_map sc_ticks].
  repeat split; auto. destruct (cfg_track c); reflexivity.
Qed.

Theorem silence_stable c s tick dt cleanup parts :
  sv_running s = true -> quiescent s ->
  exists s' fo, server_frame c s tick dt cleanup [] parts = Ok (s', fo) /\
                quiescent s' /\ sv_running s' = true /\ Forall (silent_out c) (fo_clients fo).
Proof.
  intros Hrun Hq.
  (* the state `send_replication` starts from *)
  set (s2 := if cleanup then cleanup_acks c (receive_acks (with_time_tick s tick dt)) else receive_acks (with_time_tick s tick dt)).
  set (pre := buffer_removals s2).
  assert (Hsf : server_frame c s tick dt cleanup [] parts =
                let* (s4, outs, ran) := (if sv_dirty pre then let* (s4, outs) := send_replication c pre parts in Ok (s4, outs, true)
                                         else Ok (pre, [], false)) in
                Ok (set_last_running s4, mkFO (sv_tick s4) ran outs)).
  { unfold server_frame. cbn [fold_left]. cbn [sv_running with_time_tick]. rewrite Hrun. fold s2.
    assert (sv_running s2 = true) as -> by (unfold s2; destruct cleanup; cbn; exact Hrun). reflexivity. }
  destruct Hq as (Hev & Hib & Hln & Hcls).
  assert (Hcl2 : forall cl', In cl' (sv_clients s2) -> exists cl, In cl (sv_clients s) /\ sc_equiv cl cl').
  { assert (Hr : sv_clients (receive_acks (with_time_tick s tick dt)) = sv_clients s).
    { rewrite receive_acks_clients. cbn [sv_inbox_acks sv_clients with_time_tick]. rewrite Hib.
      rewrite (map_ext _ (fun cl => cl)) by (intros; apply ack_client_nil). apply map_id. }
    unfold s2. destruct cleanup.
    - unfold cleanup_acks. cbn [sv_clients set_clients]. rewrite Hr. intros cl' Hin. apply in_map_iff in Hin.
      destruct Hin as (cl & <- & Hin). exists cl. split; [exact Hin|]. repeat split.
    - rewrite Hr. intros cl' Hin. exists cl'. split; [exact Hin|apply sc_equiv_refl]. }
  assert (Hpre_ents : sv_ents pre = sv_ents s) by (unfold pre, s2; destruct cleanup; reflexivity).
  assert (Hpre_ev : sv_removed_events pre = []) by reflexivity.
  assert (Hpre_ib : sv_inbox_acks pre = []) by (unfold pre, s2; destruct cleanup; reflexivity).
  assert (Hpre_lr : sv_last_run pre = sv_last_run s) by (unfold pre, s2; destruct cleanup; reflexivity).
  assert (Hpre_now : sv_now pre = sv_now s) by (unfold pre, s2; destruct cleanup; reflexivity).
  assert (Hpre_run : sv_running pre = true) by (unfold pre, s2; destruct cleanup; cbn; exact Hrun).
  assert (Hpre_db : sv_despawn_buf pre = sv_despawn_buf s) by (unfold pre, s2; destruct cleanup; reflexivity).
  assert (Hpre_rb : sv_removal_buf pre = sv_removal_buf s).
  { unfold pre, buffer_removals. cbn [sv_removal_buf set_bufs].
    assert (sv_removed_events s2 = []) as -> by (unfold s2; destruct cleanup; cbn; exact Hev).
    cbn. unfold s2; destruct cleanup; reflexivity. }
  assert (Hpre_cl : sv_clients pre = sv_clients s2) by reflexivity.
  assert (Hpre_q : forall cl', In cl' (sv_clients pre) -> sc_authorized cl' = true -> quiescent_for pre cl').
  { intros cl' Hin Ha. rewrite Hpre_cl in Hin. destruct (Hcl2 cl' Hin) as (cl & Hin0 & Heq).
    assert (Hqc : quiescent_for s cl) by (apply Hcls; [exact Hin0|destruct Heq as (-> & _); exact Ha]).
    destruct Hqc as (Hq1 & Hq2 & Hq3 & Hq45).
    apply (quiescent_for_transfer s pre cl cl'); auto; try congruence; try lia. repeat split; auto; apply Hq45. }
  rewrite Hsf. destruct (sv_dirty pre).
  - rewrite send_replication_quiescent by exact Hpre_q. cbn [bind].
    eexists; eexists; split; [reflexivity|]. split; [|split].
    + split; [exact Hpre_ev|]. split; [exact Hpre_ib|]. split; [cbn; lia|].
      cbn [set_last_running set_after_send sv_clients].
      intros cl' Hin Ha. apply in_map_iff in Hin. destruct Hin as (cl & <- & Hin).
      assert (Hqc : quiescent_for pre cl).
      { apply Hpre_q; [exact Hin|]. destruct (sc_authorized cl) eqn:E; [reflexivity|congruence]. }
      assert (Hac : sc_authorized cl = true) by (destruct (sc_authorized cl) eqn:E; [reflexivity|congruence]).
      rewrite Hac. eapply (quiescent_for_transfer pre); [..|exact Hqc]; try reflexivity.
      * cbn [sv_last_run set_last_running set_after_send]. lia.
      * apply silent_client_equiv; assumption.
    + cbn. exact Hpre_run.
    + cbn [fo_clients]. apply Forall_forall. intros o Ho. apply in_flat_map in Ho. destruct Ho as (cl & Hin & Ho).
      destruct (sc_authorized cl); [|destruct Ho]. destruct Ho as [<-|[]]. apply silent_msgs_silent.
  - cbn [bind]. eexists; eexists; split; [reflexivity|]. split; [|split].
    + split; [exact Hpre_ev|]. split; [exact Hpre_ib|]. split; [cbn [set_last_running sv_last_run sv_now]; lia|].
      cbn [set_last_running sv_clients].
      intros cl' Hin Ha. eapply (quiescent_for_transfer pre); [..|apply (Hpre_q cl' Hin Ha)]; try reflexivity.
      * apply (Hpre_q cl' Hin Ha).
      * apply (Hpre_q cl' Hin Ha).
      * apply sc_equiv_refl.
    + cbn. exact Hpre_run.
    + constructor.
Qed.

(* ---------- 1 (lifted). what `send_for_client` puts on the wire ---------- *)

Definition sent_in_update (out : client_out) (e k : N) (v : val) : Prop :=
  exists u en, co_update out = Some u /\ In (e, en) (u_changes u) /\ In (k, v) en.
Definition sent_in_mutate (out : client_out) (e k : N) (v : val) : Prop :=
  exists m en, In m (co_mutates out) /\ In (e, en) (m_body m) /\ In (k, v) en.

Definition ekey (y : N * sent * N) : N := fst (fst y).

Lemma In_insert_ent y x l : In y (insert_ent x l) <-> y = x \/ In y l.
Proof.
  induction l as [|z t IH]; cbn [insert_ent In]; [intuition|].
  destruct (fst (fst x) <=? fst (fst z)); cbn [In]; [intuition|]. rewrite IH. intuition.
Qed.

Lemma replicated_ents_In s e x madd :
  In (e, x, madd) (replicated_ents s) <-> In (e, x) (sv_ents s) /\ se_marker x = Some madd /\ se_alive x = true.
Proof.
  unfold replicated_ents. induction (sv_ents s) as [|[e1 x1] t IH]; cbn [fold_right In]; [tauto|].
  destruct (se_marker x1) as [m1|] eqn:Em.
  - destruct (se_alive x1) eqn:Ea.
    + rewrite In_insert_ent, IH. split.
      * intros [H|H]; [inversion H; subst; auto|tauto].
      * intros ([H|H] & H2 & H3); [inversion H; subst; left; congruence|tauto].
    + rewrite IH. split; [tauto|]. intros ([H|H] & H2 & H3); [inversion H; subst; congruence|tauto].
  - rewrite IH. split; [tauto|]. intros ([H|H] & H2 & H3); [inversion H; subst; congruence|tauto].
Qed.

Lemma replicated_ents_keys_nodup s : NoDup (al_keys (sv_ents s)) -> NoDup (map ekey (replicated_ents s)).
Proof.
  unfold replicated_ents, al_keys. induction (sv_ents s) as [|[e1 x1] t IH]; cbn [fold_right map fst]; intros Hnd; [constructor|].
  inversion Hnd as [|? ? Hnin Hnd']; subst. specialize (IH Hnd').
  set (r := fold_right _ _ t) in *.
  assert (Hsub : forall e, In e (map ekey r) -> In e (map fst t)).
  { clear. subst r. induction t as [|[e2 x2] t IH]; cbn [fold_right map fst In]; [tauto|]. intros e.
    destruct (se_marker x2); [destruct (se_alive x2)|]; try (intros H; right; apply IH; exact H).
    intros H. apply in_map_iff in H. destruct H as (y & <- & Hy). apply In_insert_ent in Hy.
    destruct Hy as [->|Hy]; [left; reflexivity|right; apply IH; apply in_map; exact Hy]. }
  destruct (se_marker x1); [destruct (se_alive x1)|]; try exact IH.
  assert (Hins : forall x l, ~ In (ekey x) (map ekey l) -> NoDup (map ekey l) -> NoDup (map ekey (insert_ent x l))).
  { clear. intros x l. induction l as [|z u IHu]; cbn [insert_ent map]; intros Hn Hd.
    - constructor; [intros []|constructor].
    - destruct (fst (fst x) <=? fst (fst z)); cbn [map].
      + constructor; assumption.
      + inversion Hd as [|? ? Hz Hd']; subst. constructor.
        * intros H. apply in_map_iff in H. destruct H as (y & Ey & Hy). apply In_insert_ent in Hy.
          destruct Hy as [->|Hy]; [apply Hn; left; symmetry; exact Ey|]. apply Hz. rewrite <- Ey. apply in_map; exact Hy.
        * apply IHu; [|exact Hd']. intros H. apply Hn. right; exact H. }
  apply Hins; [|exact IH]. intros H. apply Hnin. apply Hsub. exact H.
Qed.

Lemma al_get_app_some {V} k (v : V) l l' : al_get k l = Some v -> al_get k (l ++ l') = Some v.
Proof.
  induction l as [|[k1 v1] t IH]; cbn [al_get app]; [discriminate|]. destruct (k1 =? k); auto.
Qed.

Lemma al_get_app_none {V} k (l l' : list (N * V)) : al_get k l = None -> al_get k (l ++ l') = al_get k l'.
Proof.
  induction l as [|[k1 v1] t IH]; cbn [al_get app]; [reflexivity|]. destruct (k1 =? k); [discriminate|auto].
Qed.

Lemma al_get_In {V} k (v : V) l : al_get k l = Some v -> In (k, v) l.
Proof.
  induction l as [|[k1 v1] t IH]; cbn [al_get In]; [discriminate|]. destruct (k1 =? k) eqn:E.
  - intros H; inversion H; subst. left. f_equal. lia.
  - intros H; right; auto.
Qed.

(* the entity loop: before the entity is reached its stamp and its (absent) mutation entry are
   untouched; once its data has been collected it stays collected *)
Lemma sfc_fold_before s run vis1 e l : ~ In e (map ekey l) -> forall ch mu tk ch' mu' tk',
  fold_res (sfc_step s run vis1) l (Ok (ch, mu, tk)) = Ok (ch', mu', tk') ->
  mutation_tick tk' e = mutation_tick tk e /\ (al_get e mu = None -> al_get e mu' = None).
Proof.
  induction l as [|[[e1 x1] m1] t IH]; intros Hn ch mu tk ch' mu' tk' Hf.
  - cbn in Hf. inversion Hf; subst. auto.
  - rewrite fold_res_cons in Hf. cbn [sfc_step] in Hf.
    assert (Hne : e1 <> e) by (intros ->; apply Hn; left; reflexivity).
    destruct (collect_entity _ _ _ tk _ e1 x1 m1) as [ec| |]; cbn [bind] in Hf;
      [|rewrite fold_res_Err in Hf; discriminate|rewrite fold_res_Panic in Hf; discriminate].
    apply IH in Hf; [|intros H; apply Hn; right; exact H]. destruct Hf as [H1 H2]. split.
    + rewrite H1. destruct (ec_bump ec); [|reflexivity]. rewrite set_get_mutation_tick.
      replace (e =? e1) with false by lia. reflexivity.
    + intros Hm. apply H2. destruct (ec_muts ec); [exact Hm|]. rewrite al_get_app_none by exact Hm.
      cbn [al_get]. replace (e1 =? e) with false by lia. reflexivity.
Qed.

Definition collected (e k : N) (v : val) (a : sfc_acc) : Prop :=
  (exists en, In (e, en) (fst (fst a)) /\ In (k, v) en) \/ (exists m, al_get e (snd (fst a)) = Some m /\ In (k, v) m).

Lemma sfc_fold_after s run vis1 e k v l : forall a a',
  collected e k v a -> fold_res (sfc_step s run vis1) l (Ok a) = Ok a' -> collected e k v a'.
Proof.
  induction l as [|[[e1 x1] m1] t IH]; intros [[ch mu] tk] a' Hc Hf.
  - cbn in Hf. inversion Hf; subst. exact Hc.
  - rewrite fold_res_cons in Hf. cbn [sfc_step] in Hf.
    destruct (collect_entity _ _ _ tk _ e1 x1 m1) as [ec| |]; cbn [bind] in Hf;
      [|rewrite fold_res_Err in Hf; discriminate|rewrite fold_res_Panic in Hf; discriminate].
    eapply IH; [|exact Hf]. destruct Hc as [(en & H1 & H2)|(m & H1 & H2)]; cbn [fst snd] in *.
    + left. exists en. split; [|exact H2]. destruct (ec_entry ec); [apply in_or_app; left|]; exact H1.
    + right. exists m. split; [|exact H2]. destruct (ec_muts ec); [exact H1|]. apply al_get_app_some; exact H1.
Qed.

Lemma count_one_nodup (l : list N) :
  forallb (fun e => (length (filter (N.eqb e) l) =? 1)%nat) l = true -> NoDup l.
Proof.
  rewrite forallb_forall. induction l as [|a t IH]; intros H; [constructor|].
  assert (Ha : filter (N.eqb a) t = []).
  { specialize (H a (or_introl eq_refl)). cbn [filter] in H. rewrite N.eqb_refl in H. cbn [length] in H.
    destruct (filter (N.eqb a) t); [reflexivity|]. cbn [length] in H. apply Nat.eqb_eq in H. lia. }
  constructor.
  - intros Hin. assert (In a (filter (N.eqb a) t)) by (apply filter_In; split; [exact Hin|apply N.eqb_refl]).
    rewrite Ha in *. assumption.
  - apply IH. intros e He. specialize (H e (or_intror He)). cbn [filter] in H.
    destruct (e =? a) eqn:E; [|exact H].
    assert (e = a) by lia. subst e. exfalso.
    assert (In a (filter (N.eqb a) t)) by (apply filter_In; split; [exact He|apply N.eqb_refl]).
    rewrite Ha in *. assumption.
Qed.

(* every entity that has mutations is named by the partition actually used *)
Lemma sfc_partition_covers c muts p e m : al_get e muts = Some m -> In e (concat (sfc_partition c muts p)).
Proof.
  intros Hget. assert (Hin : In e (map fst muts)) by (apply al_get_In in Hget; apply in_map_iff; exists (e, m); auto).
  unfold sfc_partition. destruct (partition_ok (cfg_track c) muts p) eqn:Eok; cbn [negb].
  - unfold partition_ok in Eok. apply andb_prop in Eok. destruct Eok as [Eok _].
    apply andb_prop in Eok. destruct Eok as [Eok Hcnt]. apply andb_prop in Eok. destruct Eok as [Hlen Hall].
    apply count_one_nodup in Hcnt. apply Nat.eqb_eq in Hlen.
    apply (NoDup_length_incl Hcnt (l' := map fst muts)); [rewrite map_length; lia| |exact Hin].
    intros y Hy. rewrite forallb_forall in Hall. specialize (Hall y Hy).
    destruct (al_get y muts) as [my|] eqn:Ey; [|discriminate]. apply al_get_In in Ey.
    apply in_map_iff. exists (y, my); auto.
  - destruct muts as [|a r]; [destruct Hin|]. cbn [concat]. rewrite app_nil_r. exact Hin.
Qed.

Lemma sfc_messages_bodies c s run t3 muts p' : forall ents, In ents p' ->
  exists msg, In msg (snd (sfc_messages c s run t3 muts p')) /\ m_body msg = sfc_body muts ents.
Proof.
  unfold sfc_messages. generalize (if cfg_track c then N.of_nat (length p') else 1) as cnt. intros cnt.
  assert (G : forall l t0 msgs0 ents, (In ents l \/ exists msg, In msg msgs0 /\ m_body msg = sfc_body muts ents) ->
            exists msg, In msg (snd (fold_left (fun acc ents =>
              let '(t, msgs) := acc in
              let '(t', idx) := register_mutate_message t run (sv_elapsed s) in
              (add_entities t' idx ents, msgs ++ [mkMut (ct_update_tick t3) (sv_tick s) cnt idx (sfc_body muts ents)])) l (t0, msgs0)))
              /\ m_body msg = sfc_body muts ents).
  { induction l as [|a r IH]; intros t0 msgs0 ents Hor.
    - destruct Hor as [[]|H]. exact H.
    - cbn [fold_left]. destruct (register_mutate_message t0 run (sv_elapsed s)) as [t' idx]. apply IH.
      destruct Hor as [[->|H]|(msg & H1 & H2)].
      + right. eexists. split; [apply in_or_app; right; left; reflexivity|reflexivity].
      + left; exact H.
      + right. exists msg. split; [apply in_or_app; left; exact H1|exact H2]. }
  intros ents Hin. apply G. left; exact Hin.
Qed.

Lemma sfc_finish_sends c s run cl p despawns vis1 a e k v :
  collected e k v a ->
  let out := snd (sfc_finish c s run cl p despawns vis1 a) in sent_in_update out e k v \/ sent_in_mutate out e k v.
Proof.
  destruct a as [[ch mu] tk]. intros [(en & H1 & H2)|(m & H1 & H2)]; cbn [fst snd] in *.
  - left. unfold sent_in_update. cbn [sfc_finish].
    assert (Hne : update_is_empty (mkUpd (sv_tick s) (sort_by_key (sc_pending_map cl)) despawns
                     (sort_by_key (collect_removals (sv_removal_buf s) vis1)) ch) = false).
    { unfold update_is_empty; cbn [u_maps u_despawns u_removals u_changes]. destruct ch; [destruct H1|].
      repeat match goal with |- context [match ?X with _ => _ end] => destruct X end; reflexivity. }
    rewrite Hne. cbn [negb]. destruct (if match mu with [] => cfg_track c | _ => true end then _ else _) as [t4 msgs].
    cbn [snd co_update]. eexists; exists en. split; [reflexivity|]. cbn [u_changes]. auto.
  - right. unfold sent_in_mutate. cbn [sfc_finish].
    assert (Hmu : match mu with [] => cfg_track c | _ => true end = true) by (destruct mu; [discriminate|reflexivity]).
    rewrite Hmu.
    pose proof (sfc_partition_covers c mu p e m H1) as Hcov. apply in_concat in Hcov. destruct Hcov as (ents & Hents & He).
    match goal with |- context [sfc_messages c s run ?T3 mu ?P] =>
      destruct (sfc_messages_bodies c s run T3 mu P ents Hents) as (msg & Hmsg & Hbody);
      destruct (sfc_messages c s run T3 mu P) as [t4 msgs] end.
    cbn [snd co_mutates] in *. exists msg, m. split; [exact Hmsg|]. split; [|exact H2].
    rewrite Hbody. unfold sfc_body. apply in_map_iff. exists e. rewrite H1. auto.
Qed.

(* 1, at the level of one client's messages: an unacknowledged change of an every-tick component
   of a visible entity is in this tick's update message or in one of its mutate messages
   (whatever partition the oracle proposed) *)
Theorem resend_until_acked_client c s run cl p cl' out e x madd k comp t :
  send_for_client c s run cl p = Ok (cl', out) ->
  NoDup (al_keys (sv_ents s)) ->
  In (e, x, madd) (replicated_ents s) ->
  (let '(_, ticks1, vis1) := collect_despawns (sv_despawn_buf s) (sc_ticks cl) (sc_vis cl) in
   vis_state_of vis1 e <> VHidden /\ mutation_tick ticks1 e = Some t) ->
  In (k, comp) (se_comps x) -> rate_of k = EveryTick -> t < c_changed comp ->
  sent_in_update out e k (c_val comp) \/ sent_in_mutate out e k (c_val comp).
Proof.
  intros Hs Hnd Hin Hcd Hk Hrate Hlt. rewrite send_for_client_unfold in Hs.
  destruct (collect_despawns _ _ _) as [[despawns ticks1] vis1]. destruct Hcd as [Hvis Hmt].
  destruct (fold_res _ _ _) as [a| |] eqn:Ef; try discriminate. cbn [bind] in Hs. inversion Hs as [Hs']; clear Hs.
  assert (Hout : out = snd (sfc_finish c s run cl p despawns vis1 a)) by (rewrite Hs'; reflexivity).
  rewrite Hout. apply sfc_finish_sends. clear Hs' Hout.
  apply replicated_ents_keys_nodup in Hnd. apply in_split in Hin. destruct Hin as (l1 & l2 & El).
  rewrite El in *. rewrite map_app in Hnd. cbn [map] in Hnd. apply NoDup_remove_2 in Hnd.
  assert (Hn1 : ~ In e (map ekey l1)) by (intros H; apply Hnd; apply in_or_app; left; exact H).
  unfold fold_res in Ef. rewrite fold_left_app in Ef. fold (fold_res (sfc_step s run vis1) l1 (Ok ([], [], ticks1))) in Ef.
  destruct (fold_res (sfc_step s run vis1) l1 (Ok ([], [], ticks1))) as [[[ch1 mu1] tk1]| |] eqn:E1;
    [|fold (fold_res (sfc_step s run vis1) ((e, x, madd) :: l2) Err) in Ef; rewrite fold_res_Err in Ef; discriminate
     |fold (fold_res (sfc_step s run vis1) ((e, x, madd) :: l2) Panic) in Ef; rewrite fold_res_Panic in Ef; discriminate].
  destruct (sfc_fold_before s run vis1 e l1 Hn1 _ _ _ _ _ _ E1) as [Ht1 Hm1]. specialize (Hm1 eq_refl).
  fold (fold_res (sfc_step s run vis1) ((e, x, madd) :: l2) (Ok (ch1, mu1, tk1))) in Ef.
  rewrite fold_res_cons in Ef. cbn [sfc_step] in Ef.
  destruct (collect_entity _ _ _ tk1 _ e x madd) as [ec| |] eqn:Ece; cbn [bind] in Ef;
    [|rewrite fold_res_Err in Ef; discriminate|rewrite fold_res_Panic in Ef; discriminate].
  apply (sfc_fold_after s run vis1 e k (c_val comp) l2 _ a) in Ef; [exact Ef|].
  rewrite Hmt in Ht1.
  destruct (resend_until_acked _ _ _ _ _ _ _ _ _ k comp t Ece Hvis Hk Hrate Ht1 Hlt) as [Hmu|(en & Hen & Hin)].
  - right. cbn [fst snd]. destruct (ec_muts ec) as [|y r] eqn:Em; [destruct Hmu|].
    exists (y :: r). split; [|exact Hmu]. rewrite al_get_app_none by exact Hm1. cbn [al_get]. rewrite N.eqb_refl. reflexivity.
  - left. cbn [fst snd]. rewrite Hen. exists en. split; [apply in_or_app; right; left; reflexivity|exact Hin].
Qed.

(* ---------- 7. the server resumes with the next change ---------- *)

Lemma al_insert_In {V} k (v : V) l : In (k, v) (al_insert k v l).
Proof.
  induction l as [|[k1 v1] t IH]; cbn [al_insert]; [left; reflexivity|].
  destruct (k1 =? k); [left; reflexivity|right; exact IH].
Qed.

Lemma kinsert_In {V} k (v : V) l : In (k, v) (kinsert k v l).
Proof.
  induction l as [|[k1 v1] t IH]; cbn [kinsert]; [left; reflexivity|].
  destruct (k =? k1); [left; reflexivity|]. destruct (k <? k1); [left; reflexivity|right; exact IH].
Qed.

Theorem resume_after_change c s run cl p e x madd k old v t cl' out :
  quiescent_for s cl -> NoDup (al_keys (sv_ents s)) ->
  get_ent s e = Some x -> se_alive x = true -> se_marker x = Some madd ->
  al_get k (se_comps x) = Some old -> val_ok s v = true -> rate_of k = EveryTick ->
  vis_state_of (sc_vis cl) e = VVisible ->
  mutation_tick (sc_ticks cl) e = Some t -> t < sv_now s ->
  send_for_client c (apply_sop s (SMutate e k v)) run cl p = Ok (cl', out) ->
  sent_in_update out e k v \/ sent_in_mutate out e k v.
Proof.
  intros (Hpm & Hdb & Hrb & Hvs & _) Hnd Hget Hal Hmk Hk Hvok Hrate Hvis Hmt Hlt Hs.
  cbn [apply_sop] in Hs. rewrite Hget, Hal, Hvok, Hk in Hs. cbn [andb] in Hs.
  set (comp' := mkComp v (c_added old) (sv_now s)) in *.
  set (x' := mkSEnt true (se_marker x) (kinsert k comp' (se_comps x))) in *.
  change v with (c_val comp').
  apply (resend_until_acked_client _ _ _ _ _ _ _ e x' madd k comp' t Hs).
  - cbn [set_ent sv_ents]. apply al_insert_nodup. exact Hnd.
  - apply replicated_ents_In. cbn [set_ent sv_ents]. split; [apply al_insert_In|]. split; [exact Hmk|reflexivity].
  - cbn [set_ent sv_despawn_buf]. rewrite Hdb, collect_despawns_settled by exact Hvs.
    split; [rewrite Hvis; discriminate|exact Hmt].
  - apply kinsert_In.
  - exact Hrate.
  - exact Hlt.
Qed.

(* ---------- "exactly one": with an accepted partition no entity is in two mutate bodies ---------- *)

Lemma sfc_messages_bodies_eq c s run t3 muts p' :
  map m_body (snd (sfc_messages c s run t3 muts p')) = map (sfc_body muts) p'.
Proof.
  unfold sfc_messages. generalize (if cfg_track c then N.of_nat (length p') else 1) as cnt. intros cnt.
  assert (G : forall l t0 msgs0,
            map m_body (snd (fold_left (fun acc ents =>
              let '(t, msgs) := acc in
              let '(t', idx) := register_mutate_message t run (sv_elapsed s) in
              (add_entities t' idx ents, msgs ++ [mkMut (ct_update_tick t3) (sv_tick s) cnt idx (sfc_body muts ents)])) l (t0, msgs0)))
            = map m_body msgs0 ++ map (sfc_body muts) l).
  { induction l as [|a r IH]; intros t0 msgs0; cbn [fold_left map snd]; [rewrite app_nil_r; reflexivity|].
    destruct (register_mutate_message t0 run (sv_elapsed s)) as [t' idx]. rewrite IH, map_app. cbn [map m_body].
    rewrite <- app_assoc. reflexivity. }
  apply G.
Qed.

Lemma sfc_body_keys muts ents : map fst (sfc_body muts ents) = ents.
Proof. unfold sfc_body. rewrite map_map. cbn [fst]. apply map_id. Qed.

Lemma concat_bodies_keys muts (p : partition) : map fst (concat (map (sfc_body muts) p)) = concat p.
Proof.
  induction p as [|a r IH]; [reflexivity|]. cbn [map concat]. rewrite map_app, sfc_body_keys, IH. reflexivity.
Qed.

Theorem mutate_bodies_disjoint c s run cl p cl' out :
  send_for_client c s run cl p = Ok (cl', out) -> co_bad_partition out = false ->
  NoDup (map fst (concat (map m_body (co_mutates out)))).
Proof.
  intros Hs Hbad. rewrite send_for_client_unfold in Hs.
  destruct (collect_despawns _ _ _) as [[despawns ticks1] vis1].
  destruct (fold_res _ _ _) as [[[ch mu] tk]| |]; try discriminate. cbn [bind] in Hs.
  apply (f_equal (fun r => match r with Ok x => Some (snd x) | _ => None end)) in Hs. cbv beta iota in Hs.
  injection Hs as Hs. subst out. cbn [sfc_finish] in *.
  destruct (match mu with [] => cfg_track c | _ => true end).
  - destruct (sfc_messages c s run _ mu (sfc_partition c mu p)) as [t4 msgs] eqn:Em.
    cbn [snd co_bad_partition co_mutates] in *. apply negb_false_iff in Hbad.
    assert (Hm : msgs = snd (sfc_messages c s run (if negb (update_is_empty (mkUpd (sv_tick s) (sort_by_key (sc_pending_map cl)) despawns
                      (sort_by_key (collect_removals (sv_removal_buf s) vis1)) ch)) then set_update_tick tk (sv_tick s) else tk)
                      mu (sfc_partition c mu p))) by (rewrite Em; reflexivity).
    rewrite Hm, sfc_messages_bodies_eq, concat_bodies_keys. unfold sfc_partition. rewrite Hbad. cbn [negb].
    unfold partition_ok in Hbad. apply andb_prop in Hbad. destruct Hbad as [Hbad _].
    apply andb_prop in Hbad. destruct Hbad as [_ Hcnt]. apply count_one_nodup. exact Hcnt.
  - cbn [snd co_mutates map concat]. constructor.
Qed.
