(* C03 end to end for EVERY visibility policy, server side of the composition: what a server frame
   does to the client records, the ticks, the update messages and the mutate messages, stated with
   the policy-free ghost invariant `ginv_v` of Repl/StructVisSpec.v (Properties/C03V.v) instead of the
   PAll invariant `ginv` used by Repl/StructE2E_proofs.v / Repl/StructE2EMut_proofs.v.
   No hypothesis on `cfg_policy`; the server may be stopped and may hold clients while it is stopped
   (StStop), so the two side conditions of the PAll versions ("stopped => no clients",
   "stopped => last_running = false") are gone.
   The composition itself (the invariant of a whole-system run, sessions) is in
   Repl/StructE2ESess_proofs.v; pinned statements: Properties/C03F.v. *)
From RV Require Import Lib.Res Repl.ClientTicks Repl.ClientTicks_proofs Repl.World Vis.Visibility Vis.VisSpec
  Vis.Visibility_proofs Tick.RepliconTick Tick.RepliconTick_proofs Tick.ConfirmHistory Tick.MutateTicks
  Repl.Server Repl.ServerSpec Repl.Server_proofs Repl.StructSpec Repl.Struct_proofs
  Repl.StructOps_proofs Repl.StructRun_proofs
  Repl.StructVisSpec Repl.StructVis_proofs Repl.StructVisOps_proofs Repl.StructVisRun_proofs
  Repl.Client Repl.Sys Repl.Client_proofs Repl.ClientEnt_proofs Repl.ClientMut_proofs Repl.ClientSys_proofs
  Repl.ClientStructSpec Repl.ClientStruct_proofs Repl.ClientHist_proofs
  Repl.StructE2E_proofs Repl.StructE2EMut_proofs.
From Coq Require Import ZifyBool ZifyN.
Open Scope N_scope.
Ltac Zify.zify_post_hook ::= Z.div_mod_to_equations.
Arguments N.add : simpl never. Arguments N.mul : simpl never. Arguments N.pow : simpl never.
Arguments N.ltb : simpl never. Arguments N.leb : simpl never. Arguments N.div : simpl never.
Arguments N.modulo : simpl never. Arguments N.sub : simpl never. Arguments N.eqb : simpl never.

(* ================================================================== *)
(* 1. client records                                                  *)
(* ================================================================== *)

Lemma auth_sig_keep l l' : Forall2 cl_keep l l' ->
  map (fun cl => (sc_slot cl, sc_authorized cl)) l' = map (fun cl => (sc_slot cl, sc_authorized cl)) l.
Proof.
  induction 1 as [|a b l l' H _ IH]; cbn [map]; [reflexivity|]. destruct H as (-> & -> & _). rewrite IH. reflexivity.
Qed.

Lemma has_rec_slots s slot : has_rec s slot <-> In slot (map sc_slot (sv_clients s)).
Proof.
  unfold has_rec. rewrite in_map_iff. split; intros [cl [A B]]; exists cl; auto.
Qed.

Lemma find_client_of_in s cl : NoDup (map sc_slot (sv_clients s)) -> In cl (sv_clients s) ->
  find_client s (sc_slot cl) = Some cl.
Proof.
  intros Hnd Hin. unfold find_client. destruct (find (fun c => sc_slot c =? sc_slot cl) (sv_clients s)) as [c1|] eqn:E.
  - apply find_some in E. destruct E as [H1 H2]. f_equal.
    apply (nodup_slot_eq (sv_clients s)); [exact Hnd|exact H1|exact Hin|lia].
  - pose proof (find_none _ _ E cl Hin) as H. cbn in H. lia.
Qed.

Lemma find_client_in s slot cl : find_client s slot = Some cl -> In cl (sv_clients s) /\ sc_slot cl = slot.
Proof. unfold find_client. intros H. apply find_some in H. destruct H as [A B]. split; [exact A|lia]. Qed.

Lemma legal_of_client_inv_v s old cl cl3 :
  client_inv_v s old cl -> cl_keep cl cl3 -> sc_authorized cl3 = true ->
  match sc_vis cl3 with Some v => vis_legal v | None => True end.
Proof.
  intros Hinv Hk Ha. destruct (client_inv_transfer_v s old cl cl3 Hinv Hk Ha) as [Hp _].
  exact (pending_ok_v_legal _ _ _ Hp).
Qed.

(* ================================================================== *)
(* 2. what a server frame does to the client records, what it outputs *)
(* ================================================================== *)

Lemma server_frame_clients_v c g tick dt (cleanup : bool) ops parts s' fo :
  ginv_v g -> nomaps_srv (g_srv g) -> forallb sop_ok ops = true ->
  server_frame c (g_srv g) tick dt cleanup ops parts = Ok (s', fo) ->
  nomaps_srv s' /\ sv_running s' = sv_running (g_srv g) /\
  (forall slot, has_rec s' slot -> has_rec (g_srv g) slot) /\
  (sv_running (g_srv g) = true -> auth_sig s' = auth_sig (g_srv g)) /\
  NoDup (map co_slot (fo_clients fo)) /\
  (forall o, In o (fo_clients fo) -> has_auth s' (co_slot o)) /\
  (forall o u, In o (fo_clients fo) -> co_update o = Some u -> u_maps u = [] /\ u_tick u = sv_tick s') /\
  (sv_running (g_srv g) = false -> fo_clients fo = []).
Proof.
  intros [Hok Hnd Hidle Hcl Hdom] Hnm Hops H. set (s := g_srv g) in *.
  unfold server_frame in H. change (sv_running (with_time_tick s tick dt)) with (sv_running s) in H.
  destruct (sv_running s) eqn:Erun.
  - destruct (frame_running_pre_v c s tick dt cleanup ops Hok Erun Hnd) as [Hok3 [Hev3 [Hrun3 [Hlr3 [Hsame3 Hp3]]]]].
    cbv zeta in Hok3, Hev3, Hrun3, Hlr3, Hsame3, Hp3.
    set (s2 := if cleanup then cleanup_acks c (receive_acks (with_time_tick s tick dt))
               else receive_acks (with_time_tick s tick dt)) in *.
    set (s3 := fold_left apply_sop ops s2) in *.
    cbv zeta in H. fold s2 in H. fold s3 in H. rewrite Hrun3 in H. set (s3' := buffer_removals s3) in *.
    assert (Hnm3 : nomaps_srv s3').
    { apply (nomaps_same s3); [reflexivity|]. apply ops_nomaps; [exact Hops|]. unfold s2.
      destruct cleanup; [apply cleanup_acks_nomaps|]; apply receive_acks_nomaps;
        (apply (nomaps_same s); [reflexivity|exact Hnm]). }
    assert (Hsig3 : auth_sig s3' = auth_sig s) by (apply auth_sig_keep; exact Hsame3).
    assert (Hnd3 : NoDup (map sc_slot (sv_clients s3'))) by (rewrite (cl_keep_slots _ _ Hsame3); exact Hnd).
    destruct (sv_dirty s3') eqn:Ed.
    + rewrite send_replication_eq in H. cbn [bind] in H. injection H as <- <-. cbn [fo_clients].
      set (rs := map (client_result_pure c s3' parts) (sv_clients s3')) in *.
      assert (Hone : forall cl, In cl (sv_clients s3') ->
                sc_slot (fst (client_result_pure c s3' parts cl)) = sc_slot cl /\
                sc_authorized (fst (client_result_pure c s3' parts cl)) = sc_authorized cl /\
                sc_pending_map (fst (client_result_pure c s3' parts cl)) = []).
      { intros cl Hin. unfold client_result_pure. destruct (sc_authorized cl) eqn:Ea; cbn [fst].
        - unfold sfc_pure. cbn. auto.
        - split; [reflexivity|]. split; [exact Ea|exact (Hnm3 cl Hin)]. }
      assert (Hsig4 : auth_sig (set_last_running (set_after_send s3' (map fst rs) (sv_now s3'))) = auth_sig s).
      { rewrite <- Hsig3. unfold auth_sig. cbn [set_last_running set_after_send sv_clients]. unfold rs. rewrite !map_map.
        apply map_ext_in. intros cl Hin. destruct (Hone cl Hin) as (-> & -> & _). reflexivity. }
      split; [|split; [change (sv_running s3 = true); exact Hrun3|split; [|split; [|split; [|split; [|split]]]]]].
      * intros cl' Hin. cbn in Hin. unfold rs in Hin. rewrite map_map in Hin. apply in_map_iff in Hin.
        destruct Hin as [cl [<- Hin]]. apply (Hone cl Hin).
      * intros slot Hr. apply has_rec_sig. rewrite <- Hsig4. apply has_rec_sig. exact Hr.
      * intros _. exact Hsig4.
      * unfold rs. rewrite outs_of_slots. apply NoDup_map_filter. exact Hnd3.
      * intros o Ho. unfold outs_of in Ho. apply in_flat_map in Ho. destruct Ho as [r [Hr Ho]].
        unfold rs in Hr. apply in_map_iff in Hr. destruct Hr as [cl [<- Hcl0]].
        unfold client_result_pure in Ho. destruct (sc_authorized cl) eqn:Ea; [|destruct Ho].
        cbn [snd] in Ho. destruct Ho as [<- | []]. cbn [sfc_pure snd co_slot].
        exists (fst (client_result_pure c s3' parts cl)). split.
        -- cbn [set_last_running set_after_send sv_clients]. unfold rs. rewrite map_map. apply in_map_iff. exists cl. auto.
        -- destruct (Hone cl Hcl0) as (A & B & _). split; [exact A|congruence].
      * intros o u Ho Hu. unfold outs_of in Ho. apply in_flat_map in Ho. destruct Ho as [r [Hr Ho]].
        unfold rs in Hr. apply in_map_iff in Hr. destruct Hr as [cl [<- Hcl0]].
        unfold client_result_pure in Ho. destruct (sc_authorized cl) eqn:Ea; [|destruct Ho].
        cbn [snd] in Ho. destruct Ho as [<- | []]. cbn [sfc_pure snd co_update] in Hu.
        destruct (sfc_has_upd s3' (sv_now s3') cl); [|discriminate]. inversion Hu; subst u.
        cbn [sfc_upd u_maps u_tick]. rewrite (Hnm3 cl Hcl0). split; reflexivity.
      * discriminate.
    + cbn [bind] in H. injection H as <- <-. cbn [fo_clients].
      split; [exact Hnm3|]. split; [exact Hrun3|].
      split; [intros slot Hr; apply has_rec_sig; rewrite <- Hsig3; apply has_rec_sig; exact Hr|].
      split; [intros _; exact Hsig3|].
      split; [constructor|]. split; [intros o []|]. split; [intros o u []|discriminate].
  - set (s1 := with_time_tick s tick dt) in *.
    assert (Hb1 : srv_base_v s1) by (apply (srv_base_v_ext s); try reflexivity; exact (proj1 Hok)).
    destruct (ops_any_v ops s1 Hb1 Hnd) as [Hb3 [Hfl3 Hsame3]]. cbv zeta in Hb3, Hfl3, Hsame3.
    set (s3 := fold_left apply_sop ops s1) in *.
    destruct Hfl3 as [G1 _]. change (sv_running s1) with (sv_running s) in G1.
    rewrite G1, Erun in H. cbn [bind] in H. injection H as <- <-. cbn [fo_clients].
    assert (Hnm3 : nomaps_srv s3).
    { apply ops_nomaps; [exact Hops|]. apply (nomaps_same s); [reflexivity|exact Hnm]. }
    assert (Hslots3 : map sc_slot (sv_clients s3) = map sc_slot (sv_clients s)) by exact (cl_keep_slots _ _ Hsame3).
    split; [|split; [|split; [|split; [discriminate|split; [constructor|split; [intros o []|split; [intros o u []|reflexivity]]]]]]].
    + intros cl Hin. destruct (sv_last_running s3); [destruct Hin|]. exact (Hnm3 cl Hin).
    + destruct (sv_last_running s3); cbn; rewrite G1; exact Erun.
    + intros slot Hr. apply has_rec_slots in Hr. apply has_rec_slots. destruct (sv_last_running s3); [destruct Hr|].
      change (In slot (map sc_slot (sv_clients s3))) in Hr. rewrite Hslots3 in Hr. exact Hr.
Qed.

(* ================================================================== *)
(* 3. ticks                                                           *)
(* ================================================================== *)

Lemma server_frame_ticks_v c s tick dt (cleanup : bool) ops parts s' fo :
  server_frame c s tick dt cleanup ops parts = Ok (s', fo) ->
  sv_dirty s' = false /\ sv_running s' = sv_running s /\
  (sv_running s = true -> sv_tick s' = (if tick then tick_add (sv_tick s) 1 else sv_tick s)) /\
  (sv_tick s' = 0 \/ sv_tick s' = (if tick then tick_add (sv_tick s) 1 else sv_tick s)) /\
  (fo_clients fo <> [] -> sv_running s = true /\ (tick = true \/ sv_dirty s = true)).
Proof.
  intros H. unfold server_frame in H.
  set (s1 := with_time_tick s tick dt) in *.
  set (s2 := if sv_running s1 then (let r := receive_acks s1 in if cleanup then cleanup_acks c r else r) else s1) in *.
  assert (F2 : sv_tick s2 = sv_tick s1 /\ sv_dirty s2 = sv_dirty s1 /\ sv_running s2 = sv_running s1).
  { unfold s2. destruct (sv_running s1) eqn:E; [|auto]. cbv zeta. destruct cleanup; repeat split; try reflexivity; exact E. }
  destruct F2 as (A1 & A2 & A3).
  destruct (ops_flags ops s2) as (B1 & B2 & B3 & B4 & _). set (s3 := fold_left apply_sop ops s2) in *.
  assert (T3 : sv_tick s3 = (if tick then tick_add (sv_tick s) 1 else sv_tick s)) by (rewrite B4, A1; reflexivity).
  assert (D3 : sv_dirty s3 = sv_dirty s || tick) by (rewrite B3, A2; reflexivity).
  assert (R3 : sv_running s3 = sv_running s) by (rewrite B1, A3; reflexivity).
  destruct (sv_running s3) eqn:Er3.
  - change (sv_dirty (buffer_removals s3)) with (sv_dirty s3) in H. destruct (sv_dirty s3) eqn:Ed.
    + rewrite send_replication_eq in H. cbn [bind] in H. injection H as <- <-. cbn.
      split; [reflexivity|]. split; [congruence|]. split; [intros _; exact T3|]. split; [right; exact T3|].
      intros _. split; [congruence|]. symmetry in D3. apply orb_prop in D3. destruct D3; auto.
    + cbn [bind] in H. injection H as <- <-. cbn.
      split; [exact Ed|]. split; [congruence|]. split; [intros _; exact T3|]. split; [right; exact T3|].
      intros Hn. congruence.
  - cbn [bind] in H. injection H as <- <-.
    split; [reflexivity|]. split; [destruct (sv_last_running s3); cbn; congruence|].
    split; [intros Hr; congruence|]. split; [destruct (sv_last_running s3); cbn; [left; reflexivity|right; exact T3]|].
    cbn. intros Hn. congruence.
Qed.

(* ================================================================== *)
(* 4. the mutate messages of a frame, the update tick kept afterwards *)
(* ================================================================== *)

Lemma server_frame_muts_v c g tick dt (cleanup : bool) ops parts s' fo lt :
  ginv_v g -> upd_ticks_ok lt (g_srv g) -> forallb sop_ok ops = true ->
  server_frame c (g_srv g) tick dt cleanup ops parts = Ok (s', fo) ->
  (forall o m, In o (fo_clients fo) -> In m (co_mutates o) ->
     m_tick m = sv_tick s' /\
     match co_update o with
     | Some u => m_upd_tick m = u_tick u
     | None => forall t, lt (co_slot o) = Some t -> m_upd_tick m = t
     end /\
     exists cl', In cl' (sv_clients s') /\ sc_slot cl' = co_slot o /\ sc_authorized cl' = true /\
       forall e comps, In (e, comps) (m_body m) -> kinds_sub (map fst comps) (kinds_of (struct_vis s' cl') e)) /\
  (forall cl', In cl' (sv_clients s') -> sc_authorized cl' = true -> sv_running (g_srv g) = true ->
     match upd_for (sc_slot cl') (fo_clients fo) with
     | Some u => ct_update_tick (sc_ticks cl') = u_tick u
     | None => forall t, lt (sc_slot cl') = Some t -> ct_update_tick (sc_ticks cl') = t
     end).
Proof.
  intros [Hok Hnd Hidle Hcl Hdom] Hut Hops H. set (s := g_srv g) in *.
  unfold server_frame in H. change (sv_running (with_time_tick s tick dt)) with (sv_running s) in H.
  destruct (sv_running s) eqn:Erun.
  - destruct (frame_running_pre_v c s tick dt cleanup ops Hok Erun Hnd) as [Hok3 [Hev3 [Hrun3 [Hlr3 [Hsame3 Hp3]]]]].
    cbv zeta in Hok3, Hev3, Hrun3, Hlr3, Hsame3, Hp3.
    set (s2 := if cleanup then cleanup_acks c (receive_acks (with_time_tick s tick dt))
               else receive_acks (with_time_tick s tick dt)) in *.
    set (s3 := fold_left apply_sop ops s2) in *.
    cbv zeta in H. fold s2 in H. fold s3 in H. rewrite Hrun3 in H. set (s3' := buffer_removals s3) in *.
    assert (Hut3 : upd_ticks_ok lt s3').
    { apply (upd_ticks_same lt s3); [reflexivity|]. apply ops_upd_ticks; [exact Hops|]. unfold s2.
      destruct cleanup; [apply cleanup_acks_upd_ticks|]; apply receive_acks_upd_ticks;
        (apply (upd_ticks_same lt s); [reflexivity|exact Hut]). }
    assert (Hnd3 : NoDup (map sc_slot (sv_clients s3'))) by (rewrite (cl_keep_slots _ _ Hsame3); exact Hnd).
    assert (Hwf3 : ents_wf s3') by exact (sb_wf _ (proj1 Hok3)).
    assert (Hleg3 : forall cl3, In cl3 (sv_clients s3') -> sc_authorized cl3 = true ->
              match sc_vis cl3 with Some v => vis_legal v | None => True end).
    { intros cl3 Hin Ha. destruct (Forall2_In_r _ _ _ _ Hsame3 Hin) as [cl [Hcl0 Hs]].
      exact (legal_of_client_inv_v s (g_sent g) cl cl3 (Hcl cl Hcl0) Hs Ha). }
    destruct (sv_dirty s3') eqn:Ed.
    + rewrite send_replication_eq in H. cbn [bind] in H. injection H as <- <-. cbn [fo_clients].
      set (rs := map (client_result_pure c s3' parts) (sv_clients s3')) in *.
      set (sfin := set_last_running (set_after_send s3' (map fst rs) (sv_now s3'))).
      assert (Hsfc : forall cl3, In cl3 (sv_clients s3') -> sc_authorized cl3 = true ->
                let P := sfc_pure c s3' (sv_now s3') cl3 (part_for parts cl3) in
                (forall m, In m (co_mutates (snd P)) ->
                   m_tick m = sv_tick s3' /\
                   m_upd_tick m = (if sfc_has_upd s3' (sv_now s3') cl3 then sv_tick s3' else ct_update_tick (sc_ticks cl3)) /\
                   forall e comps, In (e, comps) (m_body m) -> kinds_sub (map fst comps) (kinds_of (struct_vis s3' (fst P)) e)) /\
                co_update (snd P) = (if sfc_has_upd s3' (sv_now s3') cl3 then Some (sfc_upd s3' (sv_now s3') cl3) else None) /\
                co_slot (snd P) = sc_slot cl3 /\
                ct_update_tick (sc_ticks (fst P)) = (if sfc_has_upd s3' (sv_now s3') cl3 then sv_tick s3' else ct_update_tick (sc_ticks cl3))).
      { intros cl3 Hin Ha P. pose proof (send_for_client_eq c s3' (sv_now s3') cl3 (part_for parts cl3)) as Hsend. fold P in Hsend.
        destruct P as [cl' out] eqn:EP. cbn [fst snd].
        destruct (sfc_result _ _ _ _ _ _ _ Hsend) as [Ecl Eout].
        destruct (sfc_ticks3_fields s3' (sv_now s3') cl3) as (_ & _ & _ & T3).
        split; [|split; [rewrite Eout; reflexivity|split; [rewrite Eout; reflexivity|]]].
        - intros m Hm. pose proof Hm as Hm0. rewrite Eout in Hm. cbn [co_mutates] in Hm. apply mut_msgs_header in Hm.
          destruct Hm as (M1 & M2 & _ & _). split; [exact M2|]. split; [rewrite M1; exact T3|].
          intros e comps Hb.
          destruct (proj2 (changes_only_visible c s3' (sv_now s3') cl3 (part_for parts cl3) cl' out Hsend) m e comps Hm0 Hb)
            as (Hst & _ & x & madd & Hrep & Hk).
          assert (Hget : repl_get s3' e = Some x) by (apply repl_get_spec; [exact Hwf3|exists madd; exact Hrep]).
          assert (Hv : vis_visible (sc_vis cl') e = true).
          { rewrite (visible_after_tick c s3' (sv_now s3') cl3 (part_for parts cl3) cl' out e (Hleg3 cl3 Hin Ha) Hsend).
            apply vis_visible_state. exact Hst. }
          unfold kinds_of, struct_vis. rewrite al_get_vis_filter, Hv, (al_get_struct_of s3' e Hwf3), Hget. cbn [option_map].
          intros k Hin0. apply in_map_iff in Hin0. destruct Hin0 as [[k0 v0] [Ek Hkv]]. cbn in Ek. subst k0.
          destruct (Hk k v0 Hkv) as [comp [Hc _]]. apply in_map_iff. exists (k, comp). auto.
        - rewrite Ecl. cbn [sc_ticks]. destruct (mut_ticks_fields (sv_now s3') (sv_elapsed s3') (sfc_parts c s3' (sv_now s3') cl3 (part_for parts cl3))
                                             (sfc_ticks3 s3' (sv_now s3') cl3)) as (_ & M & _). rewrite M. exact T3. }
      split.
      * intros o m Ho Hm. unfold outs_of in Ho. apply in_flat_map in Ho. destruct Ho as [r [Hr Ho]].
        unfold rs in Hr. apply in_map_iff in Hr. destruct Hr as [cl3 [<- Hcl3]].
        unfold client_result_pure in Ho. destruct (sc_authorized cl3) eqn:Ea; [|destruct Ho].
        cbn [snd] in Ho. destruct Ho as [<- | []].
        destruct (Hsfc cl3 Hcl3 Ea) as (F1 & F2 & F3 & _). cbv zeta in F1, F2, F3.
        destruct (F1 m Hm) as (G1 & G2 & G3). split; [exact G1|]. split.
        -- rewrite F2, F3. destruct (sfc_has_upd s3' (sv_now s3') cl3); [rewrite G2; reflexivity|].
           intros t Hl. rewrite G2. exact (Hut3 cl3 Hcl3 Ea t Hl).
        -- exists (fst (sfc_pure c s3' (sv_now s3') cl3 (part_for parts cl3))).
           split; [|split; [rewrite F3; reflexivity|split; [reflexivity|]]].
           ++ cbn [set_last_running set_after_send sv_clients]. unfold rs. rewrite map_map. apply in_map_iff.
              exists cl3. split; [|exact Hcl3]. unfold client_result_pure. rewrite Ea. reflexivity.
           ++ intros e comps Hb. rewrite (struct_vis_ext s3' sfin _ eq_refl). exact (G3 e comps Hb).
      * intros cl' Hin Ha _. cbn [set_last_running set_after_send sv_clients] in Hin. fold rs in Hin. unfold rs in Hin.
        rewrite map_map in Hin. apply in_map_iff in Hin. destruct Hin as [cl3 [<- Hcl3]].
        assert (Ea : sc_authorized cl3 = true).
        { unfold client_result_pure in Ha. destruct (sc_authorized cl3) eqn:Ea0; [reflexivity|]. cbn [fst] in Ha. congruence. }
        assert (Efst : fst (client_result_pure c s3' parts cl3) = fst (sfc_pure c s3' (sv_now s3') cl3 (part_for parts cl3)))
          by (unfold client_result_pure; rewrite Ea; reflexivity).
        rewrite Efst. destruct (Hsfc cl3 Hcl3 Ea) as (_ & F2 & F3 & F4). cbv zeta in F2, F3, F4.
        change (sc_slot (fst (sfc_pure c s3' (sv_now s3') cl3 (part_for parts cl3)))) with (sc_slot cl3).
        unfold rs. change (sv_clients s3) with (sv_clients s3').
        rewrite (upd_for_outs c s3' parts _ cl3 Hnd3 Hcl3 Ea), F2, F4.
        destruct (sfc_has_upd s3' (sv_now s3') cl3); [reflexivity|]. intros t Hl. exact (Hut3 cl3 Hcl3 Ea t Hl).
    + cbn [bind] in H. injection H as <- <-. cbn [fo_clients]. split; [intros o m []|].
      intros cl' Hin Ha _. cbn [upd_for find]. intros t Hl. exact (Hut3 cl' Hin Ha t Hl).
  - set (s1 := with_time_tick s tick dt) in *.
    assert (G1 : sv_running (fold_left apply_sop ops s1) = false).
    { destruct (ops_flags ops s1) as (B1 & _). rewrite B1. exact Erun. }
    rewrite G1 in H. cbn [bind] in H. injection H as <- <-. cbn [fo_clients].
    split; [intros o m []|]. intros cl' _ _ Hr. discriminate.
Qed.

(* ================================================================== *)
(* 5. the ghost of one slot after a step                              *)
(* ================================================================== *)

Lemma sync_sent_of_slot_v g s' outs slot :
  ginv_v g -> NoDup (map sc_slot (sv_clients s')) ->
  (has_auth (g_srv g) slot -> has_auth s' slot) ->
  (forall o, In o outs -> co_slot o = slot -> has_auth s' slot) ->
  sent_of slot (sync_sent s' (g_sent g) outs) = abs_send (sent_of slot (g_sent g)) (upd_for slot outs).
Proof.
  intros Hg Hnd Hkeep Houts.
  assert (Hyes : has_auth s' slot ->
            sent_of slot (sync_sent s' (g_sent g) outs) = abs_send (sent_of slot (g_sent g)) (upd_for slot outs)).
  { intros [cl [Hin [Hs Ha]]]. rewrite <- Hs. apply sync_sent_of; assumption. }
  destruct (al_get slot (sync_sent s' (g_sent g) outs)) as [st|] eqn:E.
  - apply Hyes. destruct (sync_dom s' (g_sent g) outs slot) as [cl Hcl]; [rewrite E; discriminate|]. exists cl. exact Hcl.
  - assert (Hno : ~ has_auth s' slot).
    { intros [cl [Hin [Hs Ha]]]. pose proof (sync_get s' (g_sent g) outs cl Hnd Hin Ha) as G. rewrite Hs in G. congruence. }
    unfold sent_of at 1. rewrite E.
    assert (H1 : sent_of slot (g_sent g) = []).
    { unfold sent_of. destruct (al_get slot (g_sent g)) eqn:E2; [|reflexivity]. exfalso. apply Hno. apply Hkeep.
      apply (gv_dom g Hg slot). rewrite E2. discriminate. }
    assert (H2 : upd_for slot outs = None).
    { destruct (upd_for slot outs) as [u|] eqn:E2; [|reflexivity]. exfalso. apply Hno.
      destruct (upd_for_in slot outs u E2) as [o [Ho [Hs _]]]. exact (Houts o Ho Hs). }
    rewrite H1, H2. reflexivity.
Qed.

Lemma sent_of_norec_v g slot : ginv_v g -> ~ has_rec (g_srv g) slot -> sent_of slot (g_sent g) = [].
Proof.
  intros Hg Hno. apply sent_of_unknown_v; [exact Hg|]. intros cl Hin Hs. exfalso. apply Hno. exists cl. auto.
Qed.

(* a slot without an authorized record is not in the ghost *)
Lemma sent_of_noauth_v g slot : ginv_v g -> ~ has_auth (g_srv g) slot -> sent_of slot (g_sent g) = [].
Proof.
  intros Hg Hno. apply sent_of_unknown_v; [exact Hg|]. intros cl Hin Hs.
  destruct (sc_authorized cl) eqn:Ea; [|reflexivity]. exfalso. apply Hno. exists cl. auto.
Qed.

(* ================================================================== *)
(* 6. a client frame of a client that is not connected (with `reset`) *)
(* ================================================================== *)

(* generalises ClientStruct_proofs.frame_disconnected: the client may still hold the structure of the
   session that just ended; `client_just_disconnected` then resets it *)
Lemma frame_disconnected_gen c ops c' out :
  cs_inv c -> pu c -> (cl_last_not_disconnected c = false -> srel c [] /\ cl_buffered c = []) ->
  cl_status c = Disconnected -> client_frame c ops = Ok (c', out) ->
  cs_inv c' /\ pu c' /\ srel c' [] /\ cl_status c' = Disconnected /\ cl_inbox_upd c' = cl_inbox_upd c /\
  cl_inbox_mut c' = cl_inbox_mut c /\ cl_buffered c' = [] /\ cl_last_not_disconnected c' = false /\
  out = mkCFO [] [].
Proof.
  intros Hinv Hp Hrel Hc H. unfold client_frame in H. rewrite Hc in H. cbn [negb bind] in H. rewrite andb_true_r in H.
  inversion H; subst c' out. clear H.
  set (c1 := if cl_last_not_disconnected c then client_reset c else c).
  assert (H1 : cs_inv c1 /\ pu c1 /\ srel c1 [] /\ cl_status c1 = Disconnected /\ cl_inbox_upd c1 = cl_inbox_upd c /\
               cl_inbox_mut c1 = cl_inbox_mut c /\ cl_buffered c1 = []).
  { unfold c1. destruct (cl_last_not_disconnected c).
    - split; [apply cs_inv_reset; exact Hinv|]. split; [|split; [|auto]].
      + split; [intros cid x _ _; reflexivity|]. generalize (proj2 Hp). apply ents_fresh_ext; reflexivity.
      + intros e. cbn. exact I.
    - destruct (Hrel eq_refl) as [R B]. auto 8. }
  destruct H1 as (I1 & P1 & R1 & S1 & B1 & B2 & B3).
  pose proof (pre_unmapped_cops_safe ops c1 I1 P1) as Hs. destruct (cops_step ops c1 I1 Hs) as [I3 G3].
  destruct (cops_fields ops c1) as (K1 & K2 & K3 & K4).
  split; [revert I3; apply cs_inv_ext; reflexivity|]. split; [generalize (pu_cops ops c1 I1 Hs P1); apply pu_ext; reflexivity|].
  split; [apply (srel_ext (fold_left apply_cop ops c1)); [reflexivity|reflexivity|exact (cops_srel ops c1 _ I1 Hs R1)]|].
  cbn [set_locals cl_status cl_inbox_upd cl_inbox_mut cl_buffered cl_last_not_disconnected]. rewrite K1, K2, K3, K4, S1.
  auto 8.
Qed.

Lemma frame_disconnected_hs_gen c ops c' out :
  hist_small c -> cl_status c = Disconnected -> client_frame c ops = Ok (c', out) -> hist_small c'.
Proof.
  intros Hs Hc H. unfold client_frame in H. rewrite Hc in H. cbn [negb bind] in H. rewrite andb_true_r in H.
  inversion H; subst c' out. apply (hist_small_ext (fold_left apply_cop ops (if cl_last_not_disconnected c then client_reset c else c)));
    [reflexivity|]. apply hs_cops. destruct (cl_last_not_disconnected c); [|exact Hs]. revert Hs. apply hist_small_ext. reflexivity.
Qed.

(* ================================================================== *)
(* 7. a client frame of a connected client WITHOUT the history        *)
(*    argument: whatever it receives (update messages without         *)
(*    pre-spawn mappings, ticks below 2^31), the client invariants    *)
(*    survive.  Used for a client whose server was stopped: what it   *)
(*    applies is no longer what the server believes it holds.         *)
(* ================================================================== *)

Lemma mut_W_step c T e comps r :
  cs_inv c -> hist_small c -> small_tick T -> apply_mutations c T e comps = Ok r ->
  cs_inv (sr_client r) /\ hist_small (sr_client r).
Proof.
  intros Hinv Hsm HT H. unfold apply_mutations in H.
  destruct (al_get e (cl_s2c c)) as [cid|] eqn:He; [|inversion H; subst; cbn; auto].
  destruct (get_cent c cid) as [x|] eqn:Hx; [|inversion H; subst; cbn; auto].
  destruct (ce_alive x) eqn:Ha; cbn [negb] in H; [|inversion H; subst; cbn; auto].
  destruct (ce_hist x) as [h|] eqn:Hh; [|inversion H; subst; cbn; auto].
  destruct (tick_gtb T (h_last h)) eqn:Eg; [|inversion H; subst; cbn; auto].
  apply bind_ok in H. destruct H as [h' [Eh' H]]. inversion H; subst r. clear H. cbn [sr_client].
  apply hist_set_last_tick_ok in Eh'. destruct Eh' as [Hl' _].
  assert (Hm : ce_marker x = true).
  { destruct (ce_marker x) eqn:Em; [reflexivity|]. destruct (ci_blank c Hinv cid x Hx Em) as [_ Hn]. congruence. }
  set (x1 := mkCEnt true (ce_pre x) (ce_marker x) (Some h') (ce_comps x)).
  set (c2 := set_cent c cid x1).
  assert (Hinv2 : cs_inv c2) by (eapply cs_inv_set_cent; [exact Hinv|exact Hx|reflexivity|cbn; congruence]).
  destruct (write_comps_props comps c2 e cid x1 Hinv2 He (get_cent_set_cent_same _ _ _) eq_refl Hm)
    as [G1 G2 (x' & Hx' & Ha' & Hm' & Hh' & _ & _) G4 G5 G6].
  split; [exact G1|].
  intros cid0 x0 h0 Hx0 Hh0. destruct (N.eq_dec cid0 cid) as [->|Hne].
  - rewrite Hx' in Hx0. inversion Hx0; subst x0. rewrite Hh' in Hh0. cbn in Hh0. inversion Hh0; subst h0.
    rewrite Hl'. exact HT.
  - destruct (G6 cid0 x0 Hne Hx0) as [Hy | ->]; [|discriminate].
    unfold c2 in Hy. rewrite get_cent_set_cent_other in Hy by exact Hne. exact (Hsm cid0 x0 h0 Hy Hh0).
Qed.

Theorem mutate_messages_weak c c' out :
  cs_inv c -> hist_small c -> (forall m, In m (cl_buffered c) -> small_tick (m_tick m)) ->
  apply_mutate_messages c = Ok (c', out) -> cs_inv c' /\ hist_small c'.
Proof.
  intros Hinv Hsm Hsmall H. rewrite apply_mutate_messages_eq in H. apply bind_ok in H. destruct H as [st [E H]].
  set (W := fun c0 : client => cs_inv c0 /\ hist_small c0).
  assert (Wext : forall a b, cl_s2c b = cl_s2c a -> cl_c2s b = cl_c2s a -> cl_ents b = cl_ents a -> cl_next b = cl_next a -> W a -> W b).
  { intros a b E1 E2 E3 E4 [A B]. split; [exact (cs_inv_ext a b E1 E2 E3 E4 A)|exact (hist_small_ext a b E3 B)]. }
  assert (Hst : W (mm_client st)).
  { refine (fold_res_rel (fun a b => W (mm_client a) -> W (mm_client b)) _ _ _ _ _ _ _ E (conj Hinv Hsm)); [auto|auto|].
    intros [[[c0 kept] acks] evs] m st1 Hin Hs HK0. unfold mm_client in *; cbn [fst] in *. cbn [mm_step] in Hs.
    destruct (tick_gtb (m_upd_tick m) (cl_upd_tick c)) eqn:Eg.
    - inversion Hs; subst; cbn [fst]. exact HK0.
    - apply bind_ok in Hs. destruct Hs as [r [Er Hs]].
      assert (H1 : W (sr_client r)).
      { refine (run_array_rel (fun a b => W a -> W b) _ (m_body m) _ _ _ c0 r Er HK0); [auto|auto|].
        intros c1 [e comps] r0 _ E0 [A B]. cbn [fst snd] in E0. exact (mut_W_step c1 (m_tick m) e comps r0 A B (Hsmall m Hin) E0). }
      change (match r with Continue ca => ca | Abort cb => cb end) with (sr_client r) in Hs.
      destruct (cl_mticks (sr_client r)) as [mtk|].
      + apply bind_ok in Hs. destruct Hs as [[mtk' done] [_ Hs]]. inversion Hs; subst; cbn [fst].
        revert H1. apply Wext; reflexivity.
      + inversion Hs; subst; cbn [fst]. exact H1. }
  destruct st as [[[c0 kept] acks] evs]. inversion H; subst. unfold mm_client in Hst; cbn [fst] in Hst.
  revert Hst. apply Wext; reflexivity.
Qed.

Lemma inbox_fold_hs us : forall c c1, hist_small c -> forallb no_maps us = true ->
  (forall u, In u us -> small_tick (u_tick u)) ->
  fold_left (res_step apply_update_message) us (Ok c) = Ok c1 -> hist_small c1.
Proof.
  induction us as [|u t IH]; intros c c1 Hs Hn Hst H.
  - cbn in H. inversion H; subst. exact Hs.
  - cbn [forallb] in Hn. apply andb_prop in Hn. destruct Hn as [Hn1 Hn2].
    apply fold_res_cons_ok in H. destruct H as [c2 [E H]].
    assert (Hm : u_maps u = []) by (unfold no_maps in Hn1; destruct (u_maps u); [reflexivity|discriminate]).
    apply (IH c2 c1); [|exact Hn2|intros u0 Hu0; apply Hst; right; exact Hu0|exact H].
    exact (hs_update_nomaps c u c2 (Hst u (or_introl eq_refl)) Hs Hm E).
Qed.

Theorem cframe_weak c ops c' out :
  cs_inv c -> pu c -> hist_small c -> cl_status c = Connected ->
  forallb no_maps (cl_inbox_upd c) = true -> (forall u, In u (cl_inbox_upd c) -> small_tick (u_tick u)) ->
  (forall m, In m (cl_inbox_mut c ++ cl_buffered c) -> small_tick (m_tick m)) ->
  client_frame c ops = Ok (c', out) ->
  cs_inv c' /\ pu c' /\ hist_small c' /\ cl_status c' = Connected /\ cl_inbox_upd c' = [] /\ cl_inbox_mut c' = [] /\
  (forall m, In m (cl_buffered c') -> In m (cl_inbox_mut c ++ cl_buffered c)).
Proof.
  intros Hinv Hpu Hsm Hc Hn Hsmu Hsmm H.
  destruct (frame_clears_inbox c ops c' out Hc H) as [Hi Hst].
  unfold client_frame in H. rewrite Hc, andb_false_r in H.
  apply bind_ok in H. destruct H as [[c2 out2] [E H]]. inversion H; subst c' out. clear H.
  unfold apply_replication in E. apply bind_ok in E. destruct E as [c1 [E1 E]].
  change (fold_left (res_step apply_update_message) (cl_inbox_upd c) (Ok c) = Ok c1) in E1. fold (merge_mut_inbox c1) in E.
  destruct (inbox_fold_props _ c (client_struct c) c1 Hinv (srel_self c (cs_inv_nodup c Hinv)) Hn E1) as (I1 & _ & P1 & [B1 B2]).
  pose proof (inbox_fold_hs _ c c1 Hsm Hn Hsmu E1) as S1.
  set (cm := merge_mut_inbox c1) in *.
  assert (Im : cs_inv cm) by (revert I1; apply cs_inv_ext; reflexivity).
  assert (Sm : hist_small cm) by (revert S1; apply hist_small_ext; reflexivity).
  assert (Mm : forall m, In m (cl_buffered cm) -> In m (cl_inbox_mut c ++ cl_buffered c)).
  { intros m Hin. unfold cm, merge_mut_inbox in Hin. cbn in Hin. apply fold_buffer_insert_in in Hin. rewrite B1, B2 in Hin. exact Hin. }
  destruct (mutate_messages_weak cm c2 out2 Im Sm (fun m Hm => Hsmm m (Mm m Hm)) E) as (I2 & S2).
  assert (P2 : pu c2). { apply (pu_mutate_messages cm c2 out2); [|exact E]. generalize (P1 Hpu). apply pu_ext; reflexivity. }
  pose proof (pre_unmapped_cops_safe ops c2 I2 P2) as Hs. destruct (cops_step ops c2 I2 Hs) as [I3 G3].
  destruct (cops_fields ops c2) as (K1 & K2 & K3 & K4).
  destruct (mutate_messages_kept_acks cm c2 out2 E) as [Kb _].
  split; [revert I3; apply cs_inv_ext; reflexivity|].
  split; [generalize (pu_cops ops c2 I2 Hs P2); apply pu_ext; reflexivity|].
  split; [apply (hist_small_ext (fold_left apply_cop ops c2)); [reflexivity|exact (hs_cops ops c2 S2)]|].
  split; [exact Hst|]. split; [exact Hi|]. split.
  - cbn [set_locals cl_inbox_mut]. rewrite K2, (mutate_messages_keep_inbox_mut cm c2 out2 E). reflexivity.
  - intros m Hin. cbn [set_locals cl_buffered] in Hin. rewrite K3, Kb in Hin. apply filter_In in Hin. destruct Hin as [Hin _].
    exact (Mm m Hin).
Qed.
