(* C09F with pre-spawn mappings (P3): scripts with `SMap` operations under the premise [run_maps_ok] of
   Repl/StructE2EMaps_proofs.v (what C16 promises about a mapping: the mapped server entity is unknown to the client, the
   pre-spawned client entity, if alive, is neither marked nor mapped, every mapped entity is in the changes array of the
   same message).
   Client side: a mapping adopts a pre-spawned client entity into the entity map.  That entity may be OLDER than the last
   reset, so the set W of "entities of the current session" of [cli] (Repl/NoPanicCli_proofs.v) grows by it: it has no
   marker, hence (client invariant `cs_inv`, `ci_blank`) no confirm history, so nothing has to be shown about its history.
   Run level: the instance of the generic development of Repl/NoPanicAll_proofs.v for UP := `maps_in_changes`, on top of
   `g_inv` (Repl/StructE2EMaps_proofs.v) instead of `f_inv`. *)
From Coq Require Import Permutation.
From RV Require Import Lib.Res Repl.ClientTicks Repl.ClientTicks_proofs Repl.World Vis.Visibility Repl.Server Repl.ServerSpec
  Repl.Client Repl.Sys Tick.RepliconTick Tick.RepliconTick_proofs Tick.ConfirmHistory Tick.MutateTicks Tick.MutateTicks_proofs Tick.TickSpec
  Repl.Client_proofs Repl.ClientEnt_proofs Repl.ClientMut_proofs Repl.ClientSys_proofs Repl.ClientStructSpec Repl.ClientStruct_proofs
  Repl.ClientHist_proofs Repl.ClientMaps_proofs Repl.ClientHistMaps_proofs Repl.Session_proofs Repl.StructSpec Repl.Struct_proofs Repl.StructVisSpec
  Repl.StructVisOps_proofs Repl.StructVisRun_proofs Repl.AckRunSrv_proofs
  Repl.StructE2E_proofs Repl.StructE2EMut_proofs Repl.StructE2EVis_proofs Repl.StructE2ESess_proofs Repl.StructE2EMaps_proofs
  Repl.MtRunSrv_proofs Repl.MtRunSpec Repl.MtRunCli_proofs Repl.MtRun_proofs Repl.MtRunThm_proofs Repl.SessRun_proofs
  Repl.NoPanicCli_proofs Repl.NoPanicRun_proofs Repl.NoPanicAll_proofs.
From Coq Require Import ZifyBool ZifyN.
Open Scope N_scope.
Ltac Zify.zify_post_hook ::= Z.div_mod_to_equations.
Arguments N.add : simpl never. Arguments N.mul : simpl never. Arguments N.pow : simpl never.
Arguments N.ltb : simpl never. Arguments N.leb : simpl never. Arguments N.div : simpl never.
Arguments N.modulo : simpl never. Arguments N.sub : simpl never. Arguments N.eqb : simpl never.

(* ================================================================== *)
(* 1. one client: update messages with harmless mappings              *)
(* ================================================================== *)

Definition wsub (W W' : N -> Prop) : Prop := forall k, W k -> W' k.

Lemma cli_extend W Phi c cid x : cli W Phi c -> get_cent c cid = Some x -> ce_hist x = None ->
  cli (fun k => W k \/ k = cid) Phi c.
Proof.
  intros [A B C] Hx Hh. constructor.
  - intros k Hk. left. exact (A k Hk).
  - intros e k Hk. left. exact (B e k Hk).
  - intros k x0 h [Hw | ->] Hx0 Hh0; [exact (C k x0 h Hw Hx0 Hh0)|]. rewrite Hx in Hx0. inversion Hx0; subst x0. congruence.
Qed.

Lemma cli_emap_insert (W : N -> Prop) Phi c e cid : cli W Phi c -> W cid -> cli W Phi (emap_insert c e cid).
Proof.
  intros [A B C] Hw. constructor; [exact A| |exact C].
  intros e0 k. unfold emap_insert. cbn [set_maps cl_s2c]. rewrite al_get_insert.
  destruct (e0 =? e); [intros E; inversion E; subst; exact Hw|apply B].
Qed.

Lemma mapping_cli W Phi c e pc : cs_inv c -> map_step_ok c e pc -> cli W Phi c ->
  exists W', wsub W W' /\ cli W' Phi (apply_entity_mapping c e pc) /\ cs_inv (apply_entity_mapping c e pc).
Proof.
  intros Hinv Hok Hp. pose proof (map_step c e pc Hinv Hok) as [Hinv1 _]. cbv zeta in Hinv1.
  destruct (mapping_cases c e pc) as [[E _]|(cid & x & Hin & Hpre & Ha & Hf & E)].
  - exists W. rewrite E in *. split; [intros k H; exact H|]. split; [exact Hp|exact Hinv].
  - destruct Hok as [_ Htgt]. destruct (Htgt cid x Hf Ha) as [Hm _]. pose proof Hinv as [H1 H2 H3 H4].
    pose proof (al_get_in_nodup _ _ _ (proj1 H2) Hin) as Hx. change (get_cent c cid = Some x) in Hx.
    destruct (H4 cid x Hx Hm) as [_ Hhist].
    exists (fun k => W k \/ k = cid). split; [intros k H; left; exact H|]. split; [|exact Hinv1].
    rewrite E. apply cli_emap_insert; [|right; reflexivity].
    apply cli_set_cent; [exact (cli_extend W Phi c cid x Hp Hx Hhist)|]. cbn. rewrite Hhist. discriminate.
Qed.

Lemma maps_cli Phi maps : forall W c, cs_inv c -> maps_ok c maps -> cli W Phi c ->
  exists W', wsub W W' /\ cli W' Phi (fold_left (fun c m => apply_entity_mapping c (fst m) (snd m)) maps c).
Proof.
  induction maps as [|[e pc] t IH]; intros W c Hinv Hok Hp; cbn [fold_left fst snd].
  - exists W. split; [intros k H; exact H|exact Hp].
  - destruct Hok as [Hstep Hok]. destruct (mapping_cli W Phi c e pc Hinv Hstep Hp) as (W1 & S1 & P1 & I1).
    destruct (IH W1 _ I1 Hok P1) as (W2 & S2 & P2). exists W2. split; [intros k H; exact (S2 k (S1 k H))|exact P2].
Qed.

Theorem update_safe_maps (W : N -> Prop) (Phi : N -> Prop) (T : N) :
  (forall t, Phi t -> t <= T) -> T < 2 ^ 31 -> Phi T ->
  forall c u, u_tick u = T -> cs_inv c -> maps_ok (maps_pre c u) (u_maps u) -> cli W Phi c ->
  apply_update_message c u <> Panic /\ forall c', apply_update_message c u = Ok c' -> exists W', wsub W W' /\ cli W' Phi c'.
Proof.
  intros Hle HT HPT c u Et Hinv Hmok Hp. unfold apply_update_message. rewrite Et.
  assert (Epre : fold_left apply_despawn (u_despawns u) (set_upd_tick c T) = maps_pre c u) by (unfold maps_pre; rewrite Et; reflexivity).
  rewrite Epre. set (c1 := maps_pre c u) in *.
  assert (H1 : cli W Phi c1).
  { unfold c1, maps_pre. apply Client_proofs.fold_left_inv; [intros; apply cli_despawn; assumption|]. revert Hp. apply cli_ext; reflexivity. }
  assert (I1 : cs_inv c1).
  { unfold c1, maps_pre. assert (I0 : cs_inv (set_upd_tick c (u_tick u))) by (revert Hinv; apply cs_inv_ext; reflexivity).
    exact (proj1 (despawns_struct (u_despawns u) _ _ I0 (srel_self _ (cs_inv_nodup _ I0)))). }
  destruct (maps_cli Phi (u_maps u) W c1 I1 Hmok H1) as (W2 & S2 & H2).
  set (c2 := fold_left (fun c m => apply_entity_mapping c (fst m) (snd m)) (u_maps u) c1) in *.
  set (fr := fun (c : client) (r : N * list N) => apply_removals c T (fst r) (snd r)).
  set (fc := fun (c : client) (ch : N * list (N * val)) => apply_changes c T (fst ch) (snd ch)).
  assert (N3 : run_array fr (u_removals u) c2 <> Panic).
  { apply (run_array_nopanic (cli W2 Phi)); [intros c0 a P0; exact (proj1 (removals_safe W2 Phi T Hle HT HPT c0 _ _ P0))| |exact H2].
    intros c0 a r P0 E0. exact (proj2 (removals_safe W2 Phi T Hle HT HPT c0 _ _ P0) r E0). }
  destruct (run_array fr (u_removals u) c2) as [r3| |] eqn:E3; [|cbn [bind]; split; [discriminate|intros; discriminate]|congruence].
  assert (H3 : cli W2 Phi (sr_client r3)).
  { exact (run_array_inv (cli W2 Phi) fr _ (fun c0 a r P0 E0 => proj2 (removals_safe W2 Phi T Hle HT HPT c0 _ _ P0) r E0) _ _ H2 E3). }
  cbn [bind]. destruct r3 as [c3|c3]; cbn [sr_client] in H3; [|split; [discriminate|intros c' H; inversion H; subst; exists W2; auto]].
  assert (N4 : run_array fc (u_changes u) c3 <> Panic).
  { apply (run_array_nopanic (cli W2 Phi)); [intros c0 a P0; exact (proj1 (changes_safe W2 Phi T Hle HT HPT c0 _ _ P0))| |exact H3].
    intros c0 a r P0 E0. exact (proj2 (changes_safe W2 Phi T Hle HT HPT c0 _ _ P0) r E0). }
  destruct (run_array fc (u_changes u) c3) as [r4| |] eqn:E4; [|cbn [bind]; split; [discriminate|intros; discriminate]|congruence].
  assert (H4 : cli W2 Phi (sr_client r4)).
  { exact (run_array_inv (cli W2 Phi) fc _ (fun c0 a r P0 E0 => proj2 (changes_safe W2 Phi T Hle HT HPT c0 _ _ P0) r E0) _ _ H3 E4). }
  cbn [bind]. destruct r4 as [c4|c4]; cbn [sr_client] in H4; (split; [discriminate|intros c' H; inversion H; subst; exists W2; auto]).
Qed.

Theorem inbox_safe_maps (Psi : N -> Prop) (I : list update_msg) : forall (W : N -> Prop) (R : list update_msg) c,
  ticks_incr (I ++ R) -> (forall u, In u I -> u_tick u < 2 ^ 31 /\ maps_in_changes u /\ Psi (u_tick u)) ->
  cs_inv c -> inbox_maps_ok c I ->
  cli W (fun t => Psi t /\ below (I ++ R) t) c ->
  fold_left (res_step apply_update_message) I (Ok c) <> Panic /\
  forall c1, fold_left (res_step apply_update_message) I (Ok c) = Ok c1 ->
    exists W', wsub W W' /\ cli W' (fun t => Psi t /\ below R t) c1.
Proof.
  induction I as [|u t IH]; intros W R c Hincr HI Hinv Hmok Hc.
  - cbn [fold_left app] in *. split; [discriminate|]. intros c1 H; inversion H; subst. exists W. split; [intros k H0; exact H0|exact Hc].
  - rewrite fold_res_cons. cbn [app] in Hincr, Hc. cbn [inbox_maps_ok] in Hmok. destruct Hmok as [Hm1 Hm2].
    destruct (incr_tail_below _ _ Hincr) as [Hincr' Hb]. destruct (HI u (or_introl eq_refl)) as (S1 & S2 & S3).
    set (Phi := fun x => (Psi x /\ below (t ++ R) x) /\ x <= u_tick u).
    assert (Hc0 : cli W Phi c).
    { revert Hc. apply cli_mono. intros x [P1 P2]. split; [split; [exact P1|]|].
      - intros b Hb0. apply P2. right. exact Hb0.
      - pose proof (P2 u (or_introl eq_refl)). lia. }
    destruct (update_safe_maps W Phi (u_tick u) (fun x P => proj2 P) S1 (conj (conj S3 Hb) (N.le_refl _)) c u eq_refl Hinv Hm1 Hc0) as [N1 K1].
    destruct (apply_update_message c u) as [c2| |] eqn:E2; [|rewrite fold_res_err; split; [discriminate|intros; discriminate]|congruence].
    destruct (K1 c2 eq_refl) as (W1 & Sub1 & P1).
    destruct (update_message_struct_maps c u c2 Hinv Hm1 S2 E2) as (_ & Hinv2 & _).
    assert (P1' : cli W1 (fun x => Psi x /\ below (t ++ R) x) c2) by (revert P1; apply cli_mono; intros x [P _]; exact P).
    destruct (IH W1 R c2 Hincr' (fun u0 H0 => HI u0 (or_intror H0)) Hinv2 (Hm2 c2 eq_refl) P1') as [N2 K2].
    split; [exact N2|]. intros c1 E1. destruct (K2 c1 E1) as (W2 & Sub2 & P2). exists W2. split; [intros k H0; exact (Sub2 k (Sub1 k H0))|exact P2].
Qed.

Theorem frame_cli_maps (W : N -> Prop) (Psi : N -> Prop) (R : list update_msg) c ops c' out :
  cl_status c = Connected -> cs_inv c -> inbox_maps_ok c (cl_inbox_upd c) ->
  ticks_incr (cl_inbox_upd c ++ R) ->
  (forall u, In u (cl_inbox_upd c) -> u_tick u < 2 ^ 31 /\ maps_in_changes u /\ Psi (u_tick u)) ->
  cli W (fun t => Psi t /\ below (cl_inbox_upd c ++ R) t) c ->
  ((forall m, In m (frame_applied c) -> Psi (m_tick m) /\ below R (m_tick m)) \/ (cl_s2c c = [] /\ cl_inbox_upd c = [])) ->
  client_frame c ops = Ok (c', out) ->
  (exists W', cli W' (fun t => Psi t /\ below R t) c') /\ (cl_s2c c = [] /\ cl_inbox_upd c = [] -> cl_s2c c' = []).
Proof.
  intros Hc Hinv Hmok Hincr HI Hp Hm H.
  unfold client_frame in H. rewrite Hc, andb_false_r in H.
  apply bind_ok in H. destruct H as [[c2 out2] [E H]]. inversion H; subst c' out. clear H.
  unfold apply_replication in E. apply bind_ok in E. destruct E as [c1 [E1 E]].
  change (fold_left (res_step apply_update_message) (cl_inbox_upd c) (Ok c) = Ok c1) in E1. fold (merge_mut_inbox c1) in E.
  set (cm := merge_mut_inbox c1) in *.
  destruct (proj2 (inbox_safe_maps Psi (cl_inbox_upd c) W R c Hincr HI Hinv Hmok Hp) c1 E1) as (W1 & _ & H1).
  assert (Hcm : cli W1 (fun t => Psi t /\ below R t) cm) by (revert H1; apply cli_ext; reflexivity).
  rewrite apply_mutate_messages_eq in E. apply bind_ok in E. destruct E as [[[[c0 kept] acks] evs] [Ef E]].
  inversion E; subst c2 out2. clear E.
  assert (Hnil : cl_s2c c = [] /\ cl_inbox_upd c = [] -> cl_s2c c0 = [] /\ cl_ents c0 = cl_ents cm /\ cl_next c0 = cl_next cm).
  { intros [Hn Hi]. rewrite Hi in E1. cbn in E1. inversion E1; subst c1.
    assert (Hn' : cl_s2c cm = []) by (cbn [cm merge_mut_inbox clear_inboxes set_buffered cl_s2c]; exact Hn).
    exact (mm_fold_nil _ _ _ _ _ _ _ Hn' Ef). }
  assert (H2 : cli W1 (fun t => Psi t /\ below R t) c0).
  { destruct Hm as [Hm|Hn].
    - refine (mm_fold_cli W1 _ (cl_upd_tick cm) (cl_buffered cm) cm [] [] [] (c0, kept, acks, evs) _ Hcm Ef).
      intros m Hin Hg. apply Hm. unfold frame_applied. rewrite E1. cbv zeta. fold cm. apply filter_In. split; [exact Hin|].
      rewrite Hg. reflexivity.
    - destruct (Hnil Hn) as (Z1 & Z2 & Z3). revert Hcm. apply cli_ext; [|exact Z2|exact Z3].
      rewrite Z1. symmetry. destruct Hn as [Hn Hi]. rewrite Hi in E1. cbn in E1. inversion E1; subst c1.
      cbn [cm merge_mut_inbox clear_inboxes set_buffered cl_s2c]. exact Hn. }
  split.
  - exists W1. apply (cli_ext W1 _ (fold_left apply_cop ops (set_buffered c0 kept (cl_mticks c0)))); try reflexivity.
    apply cli_cops. revert H2. apply cli_ext; reflexivity.
  - intros Hn. cbn [set_locals cl_s2c]. rewrite cops_s2c. cbn [set_buffered cl_s2c]. exact (proj1 (Hnil Hn)).
Qed.

(* the tick facts with harmless mappings *)
Definition mapsP (u : update_msg) : Prop := maps_in_changes u.

Section TFrameMaps.
  Variable Psi : N -> Prop.
  Hypothesis HPsi : forall t, Psi t -> t < 2 ^ 31.

  Lemma tfacts_inbox_maps c lupd lmut : cs_inv c -> inbox_maps_ok c (cl_inbox_upd c) -> tfacts mapsP Psi c lupd lmut ->
    fold_left (res_step apply_update_message) (cl_inbox_upd c) (Ok c) <> Panic.
  Proof.
    intros Hinv Hmok [[W Hw] _ Hincr HU _ _].
    refine (proj1 (inbox_safe_maps Psi (cl_inbox_upd c) W lupd c Hincr _ Hinv Hmok Hw)).
    intros u Hu. destruct (HU u (in_or_app _ _ _ (or_introl Hu))) as [A B]. split; [exact (HPsi _ B)|]. split; [exact A|exact B].
  Qed.

  Theorem tfacts_frame_maps c lupd lmut ops c' out : cl_status c = Connected -> cs_inv c -> inbox_maps_ok c (cl_inbox_upd c) ->
    tfacts mapsP Psi c lupd lmut -> client_frame c ops = Ok (c', out) -> tfacts mapsP Psi c' lupd lmut.
  Proof.
    intros Hcc Hinv Hmok [[W Hw] Hd Hincr HU HM Hgate] Efr.
    assert (HI : forall u, In u (cl_inbox_upd c) -> u_tick u < 2 ^ 31 /\ maps_in_changes u /\ Psi (u_tick u)).
    { intros u Hu. destruct (HU u (in_or_app _ _ _ (or_introl Hu))) as [A B]. split; [exact (HPsi _ B)|]. split; [exact A|exact B]. }
    set (uf := last (map u_tick (cl_inbox_upd c)) (cl_upd_tick c)).
    assert (HG : (below lupd uf /\ Psi uf) \/ (cl_s2c c = [] /\ cl_inbox_upd c = [])).
    { assert (Hcase : cl_inbox_upd c = [] \/ cl_inbox_upd c <> []) by (destruct (cl_inbox_upd c); [left; reflexivity|right; discriminate]).
      destruct Hcase as [EI|EI].
      - unfold uf. rewrite EI in *. cbn [map last app] in *. destruct Hd as [[D1 D2]|D]; [left; auto|right; auto].
      - left. destruct (last_map_in (cl_inbox_upd c) (cl_upd_tick c) EI) as (u & Hu & El & Hbl). fold uf in El. rewrite El.
        split; [exact (Hbl lupd Hincr)|exact (proj2 (proj2 (HI u Hu)))]. }
    assert (Hsub : forall m, In m (frame_applied c) -> In m (cl_inbox_mut c ++ cl_buffered c) /\ gated uf m = false).
    { intros m Hma. unfold frame_applied in Hma.
      destruct (fold_left (res_step apply_update_message) (cl_inbox_upd c) (Ok c)) as [c1| |] eqn:E1; [|destruct Hma|destruct Hma].
      cbv zeta in Hma. apply filter_In in Hma. destruct Hma as [Hin Hgt].
      assert (Etick : cl_upd_tick (merge_mut_inbox c1) = uf) by (cbn; exact (update_fold_tick _ _ _ E1)).
      rewrite Etick in Hgt. apply negb_true_iff in Hgt. split; [|exact Hgt].
      destruct (inbox_fold_same_buf_mt _ _ _ E1) as (B1 & B2 & _). cbn [merge_mut_inbox clear_inboxes set_buffered cl_buffered] in Hin.
      rewrite B1, B2 in Hin. exact (fold_buffer_insert_in _ _ _ Hin). }
    assert (Hmm : (forall m, In m (frame_applied c) -> Psi (m_tick m) /\ below lupd (m_tick m)) \/ (cl_s2c c = [] /\ cl_inbox_upd c = [])).
    { destruct HG as [(G1 & G2)|G]; [left|right; exact G].
      intros m Hma. destruct (Hsub m Hma) as [Hin Hgt].
      assert (Hq : In m (lmut ++ cl_inbox_mut c ++ cl_buffered c)) by (apply in_or_app; right; exact Hin).
      destruct (HM m Hq) as [X Y]. split; [exact X|].
      intros u Hu. destruct (Hgate m u Hq (in_or_app _ _ _ (or_intror Hu))) as [Hle|Hlt]; [exfalso|exact Hlt].
      pose proof (HPsi _ G2) as G3. unfold gated in Hgt. rewrite tick_gtb_small in Hgt by (unfold small_tick; lia).
      pose proof (G1 u Hu). destruct (N.ltb_spec uf (m_upd_tick m)); [discriminate|lia]. }
    destruct (frame_cli_maps W Psi lupd c ops c' out Hcc Hinv Hmok Hincr HI Hw Hmm Efr) as [[W1 R1] R2].
    destruct (frame_clears_inbox c ops c' out Hcc Efr) as [Ei _].
    destruct (frame_connected_mt c ops c' out Hcc Efr) as (_ & _ & _ & Eim & Hperm).
    assert (Hkb : forall m, In m (lmut ++ cl_inbox_mut c' ++ cl_buffered c') -> In m (lmut ++ cl_inbox_mut c ++ cl_buffered c)).
    { intros m Hm. rewrite Eim in Hm. cbn [app] in Hm. apply in_app_or in Hm. apply in_or_app. destruct Hm as [Hm|Hm]; [left; exact Hm|right].
      assert (H0 : In m (cl_buffered c ++ cl_inbox_mut c)).
      { apply (Permutation_in m (Permutation_sym Hperm)). apply in_or_app. right. exact Hm. }
      apply in_app_or in H0. apply in_or_app. tauto. }
    constructor; rewrite ?Ei; cbn [app].
    - exists W1. exact R1.
    - rewrite (frame_upd_tick c ops c' out Efr Hcc). fold uf.
      destruct HG as [(G1 & G2)|G]; [left; auto|right; exact (R2 G)].
    - exact (incr_suffix _ _ Hincr).
    - intros u Hu. apply HU. apply in_or_app. right. exact Hu.
    - intros m Hm. exact (HM m (Hkb m Hm)).
    - intros m u Hm Hu. exact (Hgate m u (Hkb m Hm) (in_or_app _ _ _ (or_intror Hu))).
  Qed.
End TFrameMaps.

(* ================================================================== *)
(* 2. the server side, with `SMap` operations                         *)
(* ================================================================== *)

Lemma server_frame_stopped_g c g tick dt (cleanup : bool) ops parts s' fo lt :
  ginv_v g -> upd_ticks_ok lt (g_srv g) -> sv_running (g_srv g) = false ->
  server_frame c (g_srv g) tick dt cleanup ops parts = Ok (s', fo) ->
  sv_clients s' = [] \/ (auth_sig s' = auth_sig (g_srv g) /\ upd_ticks_ok lt s').
Proof.
  intros [Hok Hnd Hidle Hcl Hdom] Hut Erun H. set (s := g_srv g) in *.
  unfold server_frame in H. change (sv_running (with_time_tick s tick dt)) with (sv_running s) in H. rewrite Erun in H.
  set (s1 := with_time_tick s tick dt) in *.
  assert (Hb1 : srv_base_v s1) by (apply (srv_base_v_ext s); try reflexivity; exact (proj1 Hok)).
  destruct (ops_any_v ops s1 Hb1 Hnd) as [Hb3 [Hfl3 Hsame3]]. cbv zeta in Hb3, Hfl3, Hsame3.
  set (s3 := fold_left apply_sop ops s1) in *.
  destruct Hfl3 as [G1 _]. change (sv_running s1) with (sv_running s) in G1. rewrite G1, Erun in H. cbn [bind] in H. injection H as <- _.
  destruct (sv_last_running s3); [left; reflexivity|right]. split.
  - exact (auth_sig_keep _ _ Hsame3).
  - apply (upd_ticks_same lt s3); [reflexivity|]. apply ops_upd_ticks_g. apply (upd_ticks_same lt s); [reflexivity|exact Hut].
Qed.

Lemma sframe_records_g cfg0 s gs tick dt (cleanup : bool) ops parts s' fo slot :
  ginv_v (mkG s gs) ->
  server_frame cfg0 s tick dt cleanup ops parts = Ok (s', fo) ->
  let nct := fun r => match upd_for slot (fo_clients fo) with Some u => u_tick u | None => ct_update_tick (sc_ticks r) end in
  (forall r', find_client s' slot = Some r' -> exists r, find_client s slot = Some r /\ sc_authorized r' = sc_authorized r /\
      (sc_authorized r = true -> ct_update_tick (sc_ticks r') = nct r)) /\
  (forall o1, In o1 (fo_clients fo) -> co_slot o1 = slot -> exists r, find_client s slot = Some r /\ sc_authorized r = true /\
      forall m', In m' (co_mutates o1) -> m_upd_tick m' = nct r).
Proof.
  intros Hg Ef nct. pose proof (gv_slots _ Hg) as Hnd. cbn [g_srv] in Hnd. set (outs := fo_clients fo) in *.
  destruct (server_frame_clients_g cfg0 (mkG s gs) tick dt cleanup ops parts s' fo Hg Ef)
    as (_ & _ & N4 & N5 & N6 & _ & N8). cbn [g_srv] in *. fold outs in N5, N6, N8.
  assert (Hlt : forall r, find_client s slot = Some r ->
            upd_ticks_ok (fun k => if k =? slot then Some (ct_update_tick (sc_ticks r)) else None) s).
  { intros r Hr cl0 Hin Ha t Hl. destruct (sc_slot cl0 =? slot) eqn:E; [|discriminate]. inversion Hl; subst t.
    pose proof (find_client_nodup s cl0 Hnd Hin) as H0. replace (sc_slot cl0) with slot in H0 by lia. congruence. }
  assert (Hauth : forall r', In r' (sv_clients s') -> sc_slot r' = slot -> auth_sig s' = auth_sig s ->
            exists r, find_client s slot = Some r /\ sc_authorized r' = sc_authorized r).
  { intros r' Hin Hs Esig. assert (H0 : In (slot, sc_authorized r') (auth_sig s')).
    { unfold auth_sig. apply in_map_iff. exists r'. split; [rewrite Hs; reflexivity|exact Hin]. }
    rewrite Esig in H0. unfold auth_sig in H0. apply in_map_iff in H0. destruct H0 as [cl0 [E Hin0]]. injection E as E1 E2.
    exists cl0. split; [rewrite <- E1; apply find_client_nodup; assumption|congruence]. }
  destruct (sv_running s) eqn:Er.
  - specialize (N4 eq_refl). split.
    + intros r' Hr'. apply find_client_in in Hr'. destruct Hr' as [Hin' Hs'].
      destruct (Hauth r' Hin' Hs' N4) as (r & Hr & Ea). exists r. split; [exact Hr|]. split; [exact Ea|]. intros Har.
      destruct (server_frame_muts_g cfg0 (mkG s gs) tick dt cleanup ops parts s' fo _ Hg (Hlt r Hr) Ef) as [_ V2]. cbn [g_srv] in V2.
      assert (Ha' : sc_authorized r' = true) by congruence.
      specialize (V2 r' Hin' Ha' Er). rewrite Hs' in V2. fold outs in V2. unfold nct. fold outs.
      destruct (upd_for slot outs); [exact V2|]. apply V2. rewrite N.eqb_refl. reflexivity.
    + intros o1 Ho1 Eso. destruct (N6 o1 Ho1) as (cl' & Hin' & Hs' & Ha'). rewrite Eso in Hs'.
      destruct (Hauth cl' Hin' Hs' N4) as (r & Hr & Ea). exists r. split; [exact Hr|]. split; [congruence|]. intros m' Hm'.
      destruct (server_frame_muts_g cfg0 (mkG s gs) tick dt cleanup ops parts s' fo _ Hg (Hlt r Hr) Ef) as [V1 _].
      fold outs in V1. destruct (V1 o1 m' Ho1 Hm') as (_ & G2 & _).
      pose proof (upd_for_of_out outs o1 N5 Ho1) as Eup. rewrite Eso in Eup. unfold nct. fold outs. rewrite Eup.
      destruct (co_update o1); [exact G2|]. apply G2. rewrite Eso, N.eqb_refl. reflexivity.
  - specialize (N8 eq_refl). split.
    + intros r' Hr'. apply find_client_in in Hr'. destruct Hr' as [Hin' Hs'].
      assert (Hne : sv_clients s' <> []) by (intros E; rewrite E in Hin'; destruct Hin').
      assert (Hsig : auth_sig s' = auth_sig s).
      { assert (Hut0 : upd_ticks_ok (fun _ => None) s) by (intros cl0 _ _ t Hl; discriminate).
        destruct (server_frame_stopped_g cfg0 (mkG s gs) tick dt cleanup ops parts s' fo (fun _ => None) Hg Hut0 Er Ef) as [E|[E _]]; [congruence|exact E]. }
      destruct (Hauth r' Hin' Hs' Hsig) as (r & Hr & Ea). exists r. split; [exact Hr|]. split; [exact Ea|]. intros Har.
      destruct (server_frame_stopped_g cfg0 (mkG s gs) tick dt cleanup ops parts s' fo _ Hg (Hlt r Hr) Er Ef) as [E|[_ Hut']]; [congruence|].
      unfold nct. fold outs. rewrite N8. cbn [upd_for find].
      apply (Hut' r' Hin'); [congruence|]. rewrite Hs', N.eqb_refl. reflexivity.
    + intros o1 Ho1. rewrite N8 in Ho1. destruct Ho1.
Qed.

(* ================================================================== *)
(* 3. scripts with pre-spawn mappings (`script_okg` + `run_maps_ok`)   *)
(* ================================================================== *)

Lemma okg_snoc t st : script_okg (t ++ [st]) = true -> script_okg t = true /\ legal_step st = true /\ sess_step_ok t st = true.
Proof.
  intros Hok. unfold script_okg, legal in *. rewrite !forallb_app, sessions_ok_snoc in Hok. cbn [forallb] in Hok.
  rewrite !andb_true_r in Hok. apply andb_prop in Hok. destruct Hok as [L S].
  apply andb_prop in S. destruct S as [S1 S2]. apply andb_prop in L. destruct L as [L1 L2]. rewrite L1, S1. auto.
Qed.

Lemma okg_sessions t : script_okg t = true -> sessions_ok t = true.
Proof. intros H. unfold script_okg in H. apply andb_prop in H. exact (proj2 H). Qed.

Section MapsRun.
  Variables (cfg0 : cfg) (nclients : N).
  Notation track := (cfg_track cfg0).
  Notation all_inv := (all_inv cfg0 mapsP).

  Lemma sframe_facts_g script y gs tick dt (cleanup : bool) ops parts :
    g_inv cfg0 nclients script y gs -> sframe_ok y tick dt cleanup ops parts -> sframe_facts cfg0 mapsP script y tick dt cleanup ops parts.
  Proof.
    intros [Hcfg Hg Htk Hslots] Hsok. split; [exact Hcfg|]. split; [exact Htk|]. split; [exact (gv_slots _ Hg)|].
    intros s' fo Ef.
    destruct (server_frame_clients_g cfg0 (mkG (y_server y) gs) tick dt cleanup ops parts s' fo Hg Ef) as (_ & N3 & _ & N5 & N6 & N7 & _).
    cbn [g_srv] in *. split; [exact N3|]. split; [exact N5|]. split; [exact N6|]. split.
    - intros o1 u Ho1 Eu. split; [|exact (N7 o1 u Ho1 Eu)]. unfold sframe_ok in Hsok. rewrite Hcfg in Hsok. exact (Hsok s' fo Ef o1 u Ho1 Eu).
    - intros slot. exact (sframe_records_g cfg0 (y_server y) gs tick dt cleanup ops parts s' fo slot Hg Ef).
  Qed.

  Theorem all_run_maps script : forall y,
    script_okg script = true -> run_maps_ok (sys_init cfg0 nclients) script -> parts_small script = true -> tick_frames script < 2 ^ 31 ->
    run (sys_init cfg0 nclients) script = Ok y -> all_inv script y.
  Proof.
    induction script as [|st t IH] using rev_ind; intros y Hok Hmk Hps Hb H.
    - cbn in H. inversion H; subst. exact (all_init cfg0 nclients mapsP).
    - destruct (okg_snoc t st Hok) as (Hok1 & L2 & S2).
      apply run_maps_ok_snoc in Hmk. destruct Hmk as [Hmk1 Hmk2].
      unfold parts_small in Hps. rewrite forallb_app in Hps. apply andb_prop in Hps. destruct Hps as [Hps1 Hps2].
      cbn [forallb] in Hps2. rewrite andb_true_r in Hps2.
      pose proof (tick_frames_mono t st) as Hmono.
      rewrite run_app in H. destruct (run (sys_init cfg0 nclients) t) as [y1| |] eqn:E1; cbn [bind] in H; try discriminate.
      cbn [run] in H. destruct (sys_step y1 st) as [[y2 o]| |] eqn:E2; cbn [bind] in H; try discriminate. inversion H; subst y. clear H.
      assert (Hb1 : tick_frames t < 2 ^ 31) by lia.
      pose proof (IH y1 Hok1 Hmk1 Hps1 Hb1 eq_refl) as Hall. specialize (Hmk2 y1 eq_refl).
      destruct (run_erun_s t (sys_init cfg0 nclients) [] y1 E1) as [gs1 Eg].
      pose proof (g_run cfg0 nclients t y1 gs1 Hok1 Hmk1 Hb1 Eg) as Hf.
      destruct st as [| |slot max|slot|slot|tick dt cleanup ops parts|slot ops|slot s2c ch w|slot s2c ch w].
      + cbn [sys_step] in E2. inversion E2; subst y2 o. exact (all_start cfg0 mapsP t y1 Hall).
      + exact (all_stop cfg0 mapsP t y1 y2 o Hall E2).
      + refine (all_connect cfg0 mapsP t y1 slot max y2 o _ _ Hall E2).
        * intros cl Hc Ef. pose proof (gi2_slots _ _ _ _ _ Hf slot cl Hc) as [Hcs _ Hmi]. split; [|exact (proj2 (ci_ewf _ Hcs))].
          destruct (status_dec cl) as [Hd|Hd]; [exact Hd|]. exfalso. destruct (mode_connect t slot max slot S2) as [_ Hpre].
          destruct (Hpre eq_refl) as [Hp|Hp]; rewrite Hp in Hmi; cbn [mode_inv_m] in Hmi.
          -- destruct Hmi as (A & _). congruence.
          -- destruct Hmi as (A & _). apply (proj2 A) in Hd. apply has_rec_find in Hd. congruence.
        * intros cl Hc Hd. destruct (run_mrun t (sys_init cfg0 nclients) mgs_empty y1 E1) as [G1 Em].
          destruct (mode_connect t slot max slot S2) as [_ Hpre].
          assert (Hmode : mode_of t slot = MClean \/ mode_of t slot = MLive /\ cl_status cl = Disconnected).
          { destruct (Hpre eq_refl) as [Hp|Hp]; [left; exact Hp|right; auto]. }
          destruct (run_clean_is_initial cfg0 nclients t y1 G1 slot cl (okg_sessions t Hok1) Hps1 Hb1 Em Hc Hmode) as (Hrs & _ & Hlm & Hlu & _).
          unfold repl_state in Hrs. cbn [client_init cl_status cl_last_connected cl_last_not_disconnected cl_upd_tick cl_s2c cl_c2s cl_buffered cl_mticks cl_inbox_upd cl_inbox_mut] in Hrs.
          injection Hrs as R1 R2 R3 R4 R5 R6 R7 R8 R9 R10. repeat split; assumption.
      + cbn [sys_step] in E2. inversion E2; subst y2 o. exact (all_authorize cfg0 mapsP t y1 slot Hall).
      + exact (all_disconnect cfg0 mapsP t y1 slot y2 o Hall E2).
      + exact (all_sframe cfg0 mapsP t y1 tick dt cleanup ops parts y2 o (sframe_facts_g t y1 gs1 tick dt cleanup ops parts Hf Hmk2) Hall Hps2 Hb E2).
      + refine (all_cframe cfg0 mapsP t y1 slot ops y2 o Hb1 Hall _ E2).
        intros cl cl' cfo Psi lupd lmut Hc Efr Hcc HPsi T1. pose proof (gi2_slots _ _ _ _ _ Hf slot cl Hc) as [Hcs _ _].
        cbn [step_maps_ok] in Hmk2. destruct (Hmk2 cl Hc) as [Hmok _].
        exact (tfacts_frame_maps Psi HPsi cl lupd lmut ops cl' cfo Hcc Hcs (Hmok Hcc) T1 Efr).
      + exact (all_transport cfg0 mapsP t (StDeliver slot s2c ch w) y1 y2 o eq_refl L2 Hall E2).
      + exact (all_transport cfg0 mapsP t (StDrop slot s2c ch w) y1 y2 o eq_refl L2 Hall E2).
  Qed.

  Theorem run_nopanic_maps script :
    script_okg script = true -> run_maps_ok (sys_init cfg0 nclients) script -> parts_small script = true -> tick_frames script < 2 ^ 31 ->
    run (sys_init cfg0 nclients) script <> Panic.
  Proof.
    induction script as [|st t IH] using rev_ind; intros Hok Hmk Hps Hb; [cbn; discriminate|].
    destruct (okg_snoc t st Hok) as (Hok1 & L2 & S2).
    apply run_maps_ok_snoc in Hmk. destruct Hmk as [Hmk1 Hmk2].
    pose proof Hps as Hps0. unfold parts_small in Hps. rewrite forallb_app in Hps. apply andb_prop in Hps. destruct Hps as [Hps1 _].
    pose proof (tick_frames_mono t st) as Hmono. assert (Hb1 : tick_frames t < 2 ^ 31) by lia.
    rewrite run_app. pose proof (IH Hok1 Hmk1 Hps1 Hb1) as N1. pose proof (run_noerr t (sys_init cfg0 nclients)) as N2.
    destruct (run (sys_init cfg0 nclients) t) as [y1| |] eqn:E1; [|congruence|congruence]. cbn [bind run].
    destruct (sys_step y1 st) as [[y2 o]| |] eqn:E2; [cbn [bind]; discriminate|cbn [bind]; discriminate|]. exfalso.
    destruct (step_panic_source y1 st E2) as (slot & ops & cl & -> & Ec & Hcc & Hp).
    specialize (Hmk2 y1 eq_refl). cbn [step_maps_ok] in Hmk2. destruct (Hmk2 cl Ec) as [Hmok _].
    destruct (run_erun_s t (sys_init cfg0 nclients) [] y1 E1) as [gs1 Eg].
    pose proof (g_run cfg0 nclients t y1 gs1 Hok1 Hmk1 Hb1 Eg) as Hf.
    pose proof (gi2_slots _ _ _ _ _ Hf slot cl Ec) as [Hcs _ _].
    destruct (all_run_maps t y1 Hok1 Hmk1 Hps1 Hb1 E1 slot cl Ec) as [A1 A2 A3]. destruct (A3 Hcc) as [T1 _].
    revert Hp. apply frame_nopanic; [exact Hcc| |exact (tk_nopanic _ cl _ A1)].
    apply (tfacts_inbox_maps _ (fun x (H : psiS (tick_frames t) (y_server y1) slot x) => N.le_lt_trans _ _ _ (proj1 H) Hb1) cl _ _ Hcs (Hmok Hcc) T1).
  Qed.
End MapsRun.
