(* C02G: the history of the server over whole-system runs ([srv_histr], Repl/ValRefSpec.v) for scripts whose components
   are of every-tick kinds and hold any value (`VNat` or `VRef`).  Port of Repl/ValVisHist_proofs.v (whose
   script-independent lemmas are imported) with [comps_okr] instead of `comps_ok`. *)
From RV Require Import Lib.Res Repl.ClientTicks Repl.ClientTicks_proofs Repl.World Vis.Visibility
  Tick.RepliconTick Tick.RepliconTick_proofs Tick.ConfirmHistory Tick.MutateTicks
  Repl.Server Repl.ServerSpec Repl.Server_proofs Repl.StructSpec Repl.Struct_proofs
  Repl.StructOps_proofs Repl.StructRun_proofs
  Repl.Client Repl.Sys Repl.Client_proofs Repl.ClientSys_proofs
  Repl.ClientStructSpec Repl.ClientStruct_proofs Repl.StructE2E_proofs Repl.StructE2EMut_proofs Repl.StructE2ESess_proofs
  Repl.ValSpec Repl.ValSnap_proofs Repl.ValHist_proofs Repl.ValVisSpec Repl.ValVisHist_proofs Repl.ValRefSpec.
From Coq Require Import ZifyBool ZifyN.
Open Scope N_scope.
Ltac Zify.zify_post_hook ::= Z.div_mod_to_equations.
Arguments N.add : simpl never. Arguments N.mul : simpl never. Arguments N.pow : simpl never.
Arguments N.ltb : simpl never. Arguments N.leb : simpl never. Arguments N.div : simpl never.
Arguments N.modulo : simpl never. Arguments N.sub : simpl never. Arguments N.eqb : simpl never.

(* ================================================================== *)
(* 1. scripts                                                         *)
(* ================================================================== *)

Lemma kind_et_rate k : kind_et k = true <-> rate_of k = EveryTick.
Proof.
  unfold kind_et, rate_of. destruct (k =? 2) eqn:E2; cbn [negb andb]; [split; discriminate|].
  destruct (k =? 4) eqn:E4; cbn [negb]; split; intros H; try reflexivity; discriminate.
Qed.

Lemma kind01_et k : kind01 k = true -> kind_et k = true.
Proof. unfold kind01, kind_et. lia. Qed.

Lemma script_valsr_app a b : script_valsr (a ++ b) = script_valsr a && script_valsr b.
Proof. unfold script_valsr. apply forallb_app. Qed.

(* the scripts of Properties/C02F.v are in scope *)
Lemma script_valsu_valsr script : script_valsu script = true -> script_valsr script = true.
Proof.
  unfold script_valsu, script_valsr. intros H. rewrite forallb_forall in *. intros st Hin. specialize (H st Hin).
  destruct st; try reflexivity. cbn [step_valsu step_valsr] in *. rewrite forallb_forall in *. intros op Hop. specialize (H op Hop).
  destruct op; try reflexivity; cbn [sop_valsu sop_valsr] in *.
  - rewrite forallb_forall in *. intros kv Hkv. specialize (H kv Hkv). apply andb_prop in H. destruct H as [A B]. exact (kind01_et _ A).
  - apply andb_prop in H. destruct H as [A B]. exact (kind01_et _ A).
  - apply andb_prop in H. destruct H as [A B]. exact (kind01_et _ A).
Qed.

(* ================================================================== *)
(* 2. component records                                               *)
(* ================================================================== *)

Lemma comps_okr_nil now : comps_okr now [].
Proof. split; [exact I|intros k c []]. Qed.

Lemma comps_okr_kinsert now k c l :
  comps_okr now l -> kind_et k = true -> c_added c <= c_changed c -> c_changed c <= now ->
  comps_okr now (kinsert k c l).
Proof.
  intros [H1 H2] A C D. split; [apply ksorted_kinsert; exact H1|].
  intros k' c' Hin. apply In_kinsert in Hin. destruct Hin as [E | Hin]; [|exact (H2 k' c' Hin)].
  injection E as -> ->. auto.
Qed.

Lemma comps_okr_al_remove now k l : comps_okr now l -> comps_okr now (al_remove k l).
Proof.
  intros [H1 H2]. split; [apply ksorted_al_remove; exact H1|].
  intros k' c' Hin. apply In_al_remove in Hin. exact (H2 k' c' (proj1 Hin)).
Qed.

Lemma comps_okr_mono now now' l : now <= now' -> comps_okr now l -> comps_okr now' l.
Proof.
  intros Hle [H1 H2]. split; [exact H1|]. intros k c Hin. destruct (H2 k c Hin) as (A & C & D).
  repeat split; try assumption. lia.
Qed.

Lemma spawn_comps_okr (ok : val -> bool) now comps : forall acc,
  forallb (fun kv : N * val => kind_et (fst kv)) comps = true ->
  comps_okr now acc ->
  comps_okr now (fold_left (fun acc (kv : N * val) => if ok (snd kv) then kinsert (fst kv) (mkComp (snd kv) now now) acc else acc)
                                comps acc).
Proof.
  induction comps as [|kv comps IH]; intros acc Hv Hacc; cbn [fold_left]; [assumption|].
  cbn [forallb] in Hv. apply andb_prop in Hv. destruct Hv as [Hk Hv2].
  apply IH; [exact Hv2|].
  destruct (ok (snd kv)); [|exact Hacc]. apply comps_okr_kinsert; cbn [c_val c_added c_changed]; try assumption; lia.
Qed.

Lemma ents_okr_ext s s' : sv_ents s' = sv_ents s -> sv_now s <= sv_now s' -> ents_okr s -> ents_okr s'.
Proof.
  intros E Hn H e x Hx. rewrite (get_ent_ext s s' e E) in Hx. exact (comps_okr_mono _ _ _ Hn (H e x Hx)).
Qed.

Lemma ents_okr_set s e x' : ents_okr s -> comps_okr (sv_now s) (se_comps x') -> ents_okr (set_ent s e x').
Proof.
  intros H Hx e0 x0 H0. change (sv_now (set_ent s e x')) with (sv_now s). rewrite get_ent_set_ent in H0.
  destruct (e0 =? e); [injection H0 as <-; exact Hx|exact (H e0 x0 H0)].
Qed.

Lemma apply_sop_ents_okr s op : sop_valsr op = true -> ents_okr s -> ents_okr (apply_sop s op).
Proof.
  intros Hv H.
  assert (Hbd : forall s0 e, ents_okr s0 -> ents_okr (buffer_despawn s0 e)).
  { intros s0 e H0. apply (ents_okr_ext s0); [apply sv_ents_buffer_despawn| |exact H0].
    unfold buffer_despawn. destruct (sv_running s0); cbn; lia. }
  destruct op as [e marker comps|e|e k v|e k|e k v|e|e|slot e visible|slot e pc]; unfold apply_sop.
  - destruct (get_ent s e) as [x0|] eqn:Eg; [exact H|]. apply ents_okr_set; [exact H|]. cbn [se_comps sop_valsr] in *.
    apply spawn_comps_okr; [exact Hv|apply comps_okr_nil].
  - destruct (get_ent s e) as [x|] eqn:Eg; [|exact H]. destruct (se_alive x); [|exact H].
    assert (H1 : ents_okr (set_ent s e (mkSEnt false None []))) by (apply ents_okr_set; [exact H|apply comps_okr_nil]).
    destruct (se_marker x); [apply Hbd; exact H1|exact H1].
  - destruct (get_ent s e) as [x|] eqn:Eg; [|exact H]. destruct (se_alive x && val_ok s v); [|exact H].
    cbn [sop_valsr] in Hv. pose proof Hv as Hk. pose proof (H e x Eg) as Hx.
    apply ents_okr_set; [exact H|]. cbn [se_comps].
    destruct (al_get k (se_comps x)) as [old|] eqn:Eo.
    + apply al_get_In in Eo. destruct (proj2 Hx k old Eo) as (_ & A & B).
      apply comps_okr_kinsert; cbn [c_val c_added c_changed]; try assumption; lia.
    + apply comps_okr_kinsert; cbn [c_val c_added c_changed]; try assumption; lia.
  - destruct (get_ent s e) as [x|] eqn:Eg; [|exact H]. destruct (se_alive x); [|exact H].
    destruct (al_get k (se_comps x)) as [old|] eqn:Eo; [|exact H].
    assert (H1 : ents_okr (set_ent s e (mkSEnt true (se_marker x) (al_remove k (se_comps x))))).
    { apply ents_okr_set; [exact H|]. cbn [se_comps]. apply comps_okr_al_remove. exact (H e x Eg). }
    intros e0 x0 H0. exact (H1 e0 x0 H0).
  - destruct (get_ent s e) as [x|] eqn:Eg; [|exact H]. destruct (se_alive x && val_ok s v); [|exact H].
    destruct (al_get k (se_comps x)) as [old|] eqn:Eo; [|exact H].
    cbn [sop_valsr] in Hv. pose proof Hv as Hk. pose proof (H e x Eg) as Hx.
    apply ents_okr_set; [exact H|]. cbn [se_comps].
    apply al_get_In in Eo. destruct (proj2 Hx k old Eo) as (_ & A & B).
    apply comps_okr_kinsert; cbn [c_val c_added c_changed]; try assumption; lia.
  - destruct (get_ent s e) as [x|] eqn:Eg; [|exact H]. destruct (se_alive x); [|exact H].
    destruct (se_marker x); [exact H|]. apply ents_okr_set; [exact H|]. exact (H e x Eg).
  - destruct (get_ent s e) as [x|] eqn:Eg; [|exact H]. destruct (se_alive x); [|exact H].
    destruct (se_marker x); [|exact H]. apply Hbd. apply ents_okr_set; [exact H|]. exact (H e x Eg).
  - destruct (find_client s slot) as [c0|]; [|exact H]. destruct (get_ent s e); [|exact H]. destruct (sc_vis c0); exact H.
  - destruct (find_client s slot) as [c0|]; [|exact H]. destruct (get_ent s e); [|exact H].
    destruct (sc_authorized c0 && existsb _ (sv_premap s)); exact H.
Qed.

Lemma ops_ents_okr ops : forall s, forallb sop_valsr ops = true -> ents_okr s -> ents_okr (fold_left apply_sop ops s).
Proof.
  induction ops as [|op t IH]; intros s Hv Hok; cbn [fold_left]; [exact Hok|].
  cbn [forallb] in Hv. apply andb_prop in Hv. destruct Hv as [H1 H2]. apply IH; [exact H2|]. apply apply_sop_ents_okr; assumption.
Qed.

Section HistRunR.
  Variables (cfg0 : cfg) (nclients : N).
  Local Notation init := (sys_init cfg0 nclients).
  Local Notation snap := (snap cfg0 nclients).
  Local Notation esnap := (esnap cfg0 nclients).
  Local Notation srv_histr := (srv_histr cfg0 nclients).

  Lemma histr_init : srv_histr [] (y_server init).
  Proof.
    cbn [sys_init y_server]. constructor.
    - exact server_init_wf.
    - intros e x Hx. discriminate.
    - cbn. lia.
    - cbn. lia.
    - intros t r s1 Hs. destruct (snap_nil cfg0 nclients t r s1 Hs).
    - intros t1 r1 s1 t2 r2 s2 Hs. destruct (snap_nil cfg0 nclients t1 r1 s1 Hs).
    - intros t r s1 Hs. destruct (snap_nil cfg0 nclients t r s1 Hs).
    - intros t1 r1 s1 t2 r2 s2 Hs. destruct (snap_nil cfg0 nclients t1 r1 s1 Hs).
    - intros (t & r & s1 & Hs). destruct (snap_nil cfg0 nclients t r s1 (su_snap _ _ _ _ _ _ _ Hs)).
    - intros t r s1 Hs. destruct (snap_nil cfg0 nclients t r s1 (su_snap _ _ _ _ _ _ _ Hs)).
    - intros t1 r1 s1 t2 r2 s2 Hs. destruct (snap_nil cfg0 nclients t1 r1 s1 (su_snap _ _ _ _ _ _ _ Hs)).
    - unfold t0_invv. cbn [fold_left]. split; [reflexivity|]. split; [reflexivity|]. split; [cbn; discriminate|]. split; [intros _; reflexivity|].
      intros t r s1. apply snap_nil.
  Qed.

  Lemma histr_nonframe script y st y' o :
    run init script = Ok y -> sys_step y st = Ok (y', o) -> is_sframe st = false ->
    srv_histr script (y_server y) -> srv_histr (script ++ [st]) (y_server y').
  Proof.
    intros Hr Hs Hnf H. destruct (nonframe_fields y st y' o Hs Hnf) as [(E1 & E2 & E3 & E4 & E5 & E6) Hrun].
    set (s := y_server y) in *. set (s' := y_server y') in *.
    assert (Hsn : forall t r s1, snap (script ++ [st]) t r s1 -> snap script t r s1)
      by (intros t r s1; exact (snap_snoc_nonframe cfg0 nclients script y st t r s1 Hr Hnf)).
    assert (Hes : forall t r s1, esnap (script ++ [st]) t r s1 -> is_stop st = false /\ esnap script t r s1)
      by (intros t r s1; exact (su_nonframe cfg0 nclients is_stop script y st t r s1 Hr Hnf)).
    assert (Hg : forall e, get_ent s' e = get_ent s e) by (intros e; apply get_ent_ext; exact E1).
    constructor.
    - exact (ents_wf_same s s' E1 (hr_wf _ _ _ _ H)).
    - intros e x Hx. rewrite Hg in Hx. rewrite E2. exact (hr_ents _ _ _ _ H e x Hx).
    - rewrite E2, E3. exact (hr_now _ _ _ _ H).
    - rewrite E4, tick_frames_snoc. replace (is_tick_frame st) with false by (destruct st; try reflexivity; discriminate).
      exact (hr_tick _ _ _ _ H).
    - intros t r s1 Hsnap. rewrite E3. exact (hr_r _ _ _ _ H t r s1 (Hsn _ _ _ Hsnap)).
    - intros t1 r1 s1 t2 r2 s2 H1 H2. exact (hr_rinj _ _ _ _ H t1 r1 s1 t2 r2 s2 (Hsn _ _ _ H1) (Hsn _ _ _ H2)).
    - intros t1 r1 s1 H1. apply (keeps_ext r1 s1 s s' E1). exact (hr_keep _ _ _ _ H t1 r1 s1 (Hsn _ _ _ H1)).
    - intros t1 r1 s1 t2 r2 s2 H1 H2. exact (hr_keep2 _ _ _ _ H t1 r1 s1 t2 r2 s2 (Hsn _ _ _ H1) (Hsn _ _ _ H2)).
    - intros (t & r & s1 & Hsnap). destruct (Hes _ _ _ Hsnap) as [Hst He].
      pose proof (hr_run _ _ _ _ H (ex_intro _ t (ex_intro _ r (ex_intro _ s1 He)))) as Hrn. fold s in Hrn.
      destruct Hrun as [->|[->|Hx]]; [cbn [sys_step] in Hs; injection Hs as <- _; reflexivity|discriminate|congruence].
    - intros t r s1 Hsnap. destruct (Hes _ _ _ Hsnap) as [_ He]. rewrite E4, E5. exact (hr_bound _ _ _ _ H t r s1 He).
    - intros t1 r1 s1 t2 r2 s2 H1 H2. exact (hr_inj _ _ _ _ H t1 r1 s1 t2 r2 s2 (proj2 (Hes _ _ _ H1)) (proj2 (Hes _ _ _ H2))).
    - pose proof (hr_t0 _ _ _ _ H) as Ht. unfold t0_invv in *. rewrite fold_left_app. cbn [fold_left].
      destruct (fold_left t0_step script (T0A false false)) as [started connected| |].
      + destruct Ht as (T1 & T2 & T3 & T5 & T4).
        assert (Hc : sv_tick s' = 0 /\ sv_dirty s' = true /\ forall t r s1, ~ snap (script ++ [st]) t r s1).
        { rewrite E4, E5. split; [exact T1|]. split; [exact T2|]. intros t r s1 Hsnap. exact (T4 t r s1 (Hsn _ _ _ Hsnap)). }
        destruct Hc as (C1 & C2 & C3).
        assert (Hsame : st <> StStart -> sv_running s' = true -> started = true).
        { intros Hne Hr'. apply T3. destruct Hrun as [Hx | [Hx | Hx]]; [contradiction| |congruence].
          subst st. cbn [sys_step] in Hs. injection Hs as <- _. unfold s' in Hr'. cbn in Hr'. discriminate. }
        assert (Hnc : (forall slot max, st = StConnect slot max -> started = false) -> connected = false -> sv_clients s' = []).
        { intros Hcon Hcf. apply (nonframe_noclients_any y st y' o Hs Hnf); [|exact (T5 Hcf)].
          intros slot max E. destruct (sv_running (y_server y)) eqn:Erun; [|reflexivity]. pose proof (T3 Erun). pose proof (Hcon slot max E). congruence. }
        destruct st; try discriminate Hnf; cbn [t0_step];
          (split; [exact C1|]; split; [exact C2|]; split; [|split; [|exact C3]]);
          try (apply Hsame; discriminate); try (apply Hnc; intros; discriminate).
        * intros _. reflexivity.
        * intros Hcf. apply orb_false_elim in Hcf. destruct Hcf as [Hcf Hst]. apply Hnc; [|exact Hcf]. intros; exact Hst.
      + cbn [t0_step]. destruct Ht as [Z1 Z2]. rewrite E4, E5. split; [exact Z1|].
        intros t r s1 Hsnap. exact (Z2 t r s1 (Hsn _ _ _ Hsnap)).
      + exact I.
  Qed.

  (* ---------- server frames ---------- *)

  Lemma histr_frame script y tick dt cu ops parts y' o :
    run init script = Ok y -> sys_step y (StSFrame tick dt cu ops parts) = Ok (y', o) ->
    forallb sop_valsr ops = true ->
    tick_frames (script ++ [StSFrame tick dt cu ops parts]) < 2 ^ 31 ->
    srv_histr script (y_server y) -> srv_histr (script ++ [StSFrame tick dt cu ops parts]) (y_server y').
  Proof.
    intros Hr Hs Hv Hb H.
    destruct (sframe_step_inv _ _ _ _ _ _ _ _ Hs) as (fo & vs & -> & Ef).
    set (s := y_server y) in *. set (s' := y_server y') in *.
    destruct (server_frame_flags _ _ _ _ _ _ _ _ _ Ef) as (R & LR & D & Hrunning & Hstopped).
    destruct (server_frame_core _ _ _ _ _ _ _ _ _ Ef) as (s2 & A1 & A2 & A3 & A4 & Hcase).
    set (s3 := fold_left apply_sop ops s2) in *.
    pose proof (hr_tick _ _ _ _ H) as Htk. fold s in Htk.
    pose proof (hr_now _ _ _ _ H) as Hnow. fold s in Hnow.
    rewrite tick_frames_snoc in Hb.
    assert (Htadd : tick_add (sv_tick s) 1 = sv_tick s + 1).
    { unfold tick_add. apply N.mod_small. rewrite pow32_val. rewrite pow31_val in Hb. destruct (is_tick_frame (StSFrame tick dt cu ops parts)); lia. }
    assert (Ht' : sv_tick s' <= (if tick then sv_tick s + 1 else sv_tick s)).
    { destruct (sv_running s) eqn:Er.
      - rewrite (proj1 (Hrunning eq_refl)), Htadd. lia.
      - rewrite (proj2 (Hstopped eq_refl)), Htadd. destruct (sv_last_running s); destruct tick; lia. }
    assert (Hn3 : sv_now s3 = sv_now s) by (unfold s3; rewrite ops_now; exact A2).
    assert (Hnle : sv_now s <= sv_now s').
    { destruct Hcase as [(_ & _ & _ & N1 & _) | (_ & N1 & _)]; rewrite N1; lia. }
    assert (Hok3 : ents_okr s3).
    { apply (ops_ents_okr); [exact Hv|]. apply (ents_okr_ext s s2 A1); [rewrite A2; lia|]. exact (hr_ents _ _ _ _ H). }
    assert (Hok' : ents_okr s') by (apply (ents_okr_ext s3 s' A4); [rewrite Hn3; exact Hnle|exact Hok3]).
    assert (Hkeep : forall r s1, keeps r s1 s -> r < sv_now s -> keeps r s1 s').
    { intros r s1 Hk Hr1. apply (keeps_ext r s1 s3 s' A4). apply ops_keeps; [|rewrite A2; exact Hr1].
      exact (keeps_ext r s1 s s2 A1 Hk). }
    pose proof (snap_frame_inv cfg0 nclients script y tick dt cu ops parts y' fo vs) as Hinv. fold s' in Hinv.
    pose proof (su_frame_inv cfg0 nclients is_stop script y tick dt cu ops parts y' fo vs) as Hinve. fold s' in Hinve.
    assert (Hwf' : ents_wf s') by exact (server_frame_wf _ _ _ _ _ _ _ _ _ (hr_wf _ _ _ _ H) Ef).
    (* the new snapshot *)
    assert (Hnew : fo_ran fo = true ->
              sv_last_run s' = sv_now s /\ sv_running s = true /\ (sv_dirty s || tick = true) /\
              sv_tick s' = (if tick then sv_tick s + 1 else sv_tick s)).
    { intros Hran. destruct Hcase as [(_ & N0 & N1 & _ & N3 & _) | (N0 & _)]; [|congruence].
      split; [exact N3|]. split; [exact N0|]. split; [exact N1|]. rewrite (proj1 (Hrunning N0)), Htadd. reflexivity. }
    assert (Hlr' : sv_last_run s <= sv_last_run s').
    { destruct Hcase as [(_ & _ & _ & _ & N2 & _) | (_ & _ & N2 & _)]; rewrite N2; lia. }
    assert (Holdr : forall t1 r1 s1, snap script t1 r1 s1 -> r1 < sv_now s).
    { intros t1 r1 s1 H1. destruct (hr_r _ _ _ _ H t1 r1 s1 H1) as (B1 & _). fold s in B1. lia. }
    constructor.
    - exact Hwf'.
    - exact Hok'.
    - destruct Hcase as [(_ & _ & _ & N1 & N2 & _) | (_ & N1 & N2 & _)]; rewrite N1, N2; lia.
    - rewrite tick_frames_snoc. cbn [is_tick_frame]. destruct tick; lia.
    - intros t r s1 Hsn. destruct (Hinv t r s1 Hr Hs Hsn) as [Ho | (Hran & -> & -> & ->)].
      + destruct (hr_r _ _ _ _ H t r s1 Ho) as (B1 & B2 & B3). fold s in B1. split; [lia|]. split; [exact B2|exact B3].
      + split; [lia|]. split; [|exact Hwf']. cbn [is_tick_frame] in Hb. destruct tick; lia.
    - intros t1 r1 s1 t2 r2 s2' Hs1 Hs2.
      destruct (Hinv t1 r1 s1 Hr Hs Hs1) as [Ho1 | (Hran1 & -> & -> & ->)];
        destruct (Hinv t2 r2 s2' Hr Hs Hs2) as [Ho2 | (Hran2 & -> & -> & ->)].
      + exact (hr_rinj _ _ _ _ H t1 r1 s1 t2 r2 s2' Ho1 Ho2).
      + destruct (Hnew Hran2) as (L & _). pose proof (Holdr _ _ _ Ho1). intros E. lia.
      + destruct (Hnew Hran1) as (L & _). pose proof (Holdr _ _ _ Ho2). intros E. lia.
      + auto.
    - intros t1 r1 s1 Hs1. destruct (Hinv t1 r1 s1 Hr Hs Hs1) as [Ho | (Hran & -> & -> & ->)]; [|apply keeps_refl].
      apply Hkeep; [exact (hr_keep _ _ _ _ H t1 r1 s1 Ho)|exact (Holdr _ _ _ Ho)].
    - intros t1 r1 s1 t2 r2 s2' Hs1 Hs2 Hle.
      destruct (Hinv t1 r1 s1 Hr Hs Hs1) as [Ho1 | (Hran1 & -> & -> & ->)];
        destruct (Hinv t2 r2 s2' Hr Hs Hs2) as [Ho2 | (Hran2 & -> & -> & ->)].
      + exact (hr_keep2 _ _ _ _ H t1 r1 s1 t2 r2 s2' Ho1 Ho2 Hle).
      + apply Hkeep; [exact (hr_keep _ _ _ _ H t1 r1 s1 Ho1)|exact (Holdr _ _ _ Ho1)].
      + exfalso. destruct (Hnew Hran1) as (L & _). pose proof (Holdr _ _ _ Ho2). lia.
      + apply keeps_refl.
    - intros (t & r & s1 & Hsn). rewrite R. destruct (Hinve t r s1 Hr Hs Hsn) as [[_ Ho] | (Hran & _)].
      + exact (hr_run _ _ _ _ H (ex_intro _ t (ex_intro _ r (ex_intro _ s1 Ho)))).
      + exact (proj1 (proj2 (Hnew Hran))).
    - intros t r s1 Hsn. rewrite D. destruct (Hinve t r s1 Hr Hs Hsn) as [[_ Ho] | (Hran & -> & -> & ->)].
      + pose proof (hr_run _ _ _ _ H (ex_intro _ t (ex_intro _ r (ex_intro _ s1 Ho)))) as Hrn. fold s in Hrn.
        destruct (hr_bound _ _ _ _ H t r s1 Ho) as (B1 & _). fold s in B1.
        rewrite (proj1 (Hrunning Hrn)), Htadd. split; [destruct tick; lia|discriminate].
      + split; [lia|discriminate].
    - intros t1 r1 s1 t2 r2 s2' Hs1 Hs2 Hlt.
      destruct (Hinve t1 r1 s1 Hr Hs Hs1) as [[_ Ho1] | (Hran1 & -> & -> & ->)];
        destruct (Hinve t2 r2 s2' Hr Hs Hs2) as [[_ Ho2] | (Hran2 & -> & -> & ->)].
      + exact (hr_inj _ _ _ _ H t1 r1 s1 t2 r2 s2' Ho1 Ho2 Hlt).
      + destruct (Hnew Hran2) as (_ & _ & Hd & Et). destruct (hr_bound _ _ _ _ H t1 r1 s1 Ho1) as (B1 & B2). fold s in B1, B2.
        rewrite Et. destruct tick; [lia|]. rewrite orb_false_r in Hd. exact (B2 Hd).
      + exfalso. destruct (Hnew Hran1) as (L & _). pose proof (Holdr _ _ _ (su_snap _ _ _ _ _ _ _ Ho2)). lia.
      + lia.
    - pose proof (hr_t0 _ _ _ _ H) as Ht0. unfold t0_invv in *. rewrite fold_left_app. cbn [fold_left]. fold s in Ht0.
      destruct (fold_left t0_step script (T0A false false)) as [started connected| |]; cbn [t0_step].
      + destruct Ht0 as (Z1 & Z2 & Z3 & Z5 & Z4). destruct tick.
        * split; [rewrite D; discriminate|]. intros t r s1 Hsn.
          destruct (Hinv t r s1 Hr Hs Hsn) as [Ho | (Hran & -> & -> & ->)]; [destruct (Z4 _ _ _ Ho)|]. left.
          destruct (Hnew Hran) as (_ & _ & _ & Et). rewrite Et. lia.
        * destruct (started && connected) eqn:Esc; [exact I|]. split; [rewrite D; discriminate|]. intros t r s1 Hsn.
          destruct (Hinv t r s1 Hr Hs Hsn) as [Ho | (Hran & -> & _ & _)]; [destruct (Z4 _ _ _ Ho)|].
          destruct (Hnew Hran) as (_ & Hrun & _). specialize (Z3 Hrun). subst started. cbn [andb] in Esc. right.
          exact (frame_noclients _ _ _ _ _ _ _ _ _ (Z5 Esc) Ef).
      + destruct Ht0 as [Z1 Z2]. split; [rewrite D; discriminate|]. intros t r s1 Hsn.
        destruct (Hinv t r s1 Hr Hs Hsn) as [Ho | (Hran & -> & -> & ->)]; [exact (Z2 _ _ _ Ho)|]. left.
        destruct (Hnew Hran) as (_ & _ & Hd & Et). rewrite Et. destruct tick; [lia|].
        rewrite orb_false_r in Hd. exact (Z1 Hd).
      + exact I.
  Qed.

  (* ---------- the induction ---------- *)

  Theorem histr_run script : forall y,
    script_valsr script = true -> tick_frames script < 2 ^ 31 ->
    run init script = Ok y -> srv_histr script (y_server y).
  Proof.
    induction script as [|st t IH] using rev_ind; intros y Hv Hb H.
    - cbn [run] in H. injection H as <-. exact histr_init.
    - rewrite script_valsr_app in Hv. apply andb_prop in Hv. destruct Hv as [Hv1 Hv2].
      unfold script_valsr in Hv2. cbn [forallb] in Hv2. rewrite andb_true_r in Hv2.
      rewrite run_app in H. destruct (run init t) as [y1| |] eqn:E1; cbn [bind] in H; try discriminate.
      cbn [run] in H. destruct (sys_step y1 st) as [[y2 o]| |] eqn:E2; cbn [bind] in H; try discriminate.
      injection H as <-.
      assert (Hb1 : tick_frames t < 2 ^ 31) by (rewrite tick_frames_snoc in Hb; destruct (is_tick_frame st); lia).
      pose proof (IH y1 Hv1 Hb1 eq_refl) as IH1.
      destruct (is_sframe st) eqn:Esf.
      + destruct st as [| | | | |tick dt cleanup ops parts| | |]; try discriminate.
        exact (histr_frame t y1 tick dt cleanup ops parts y2 o E1 E2 Hv2 Hb IH1).
      + exact (histr_nonframe t y1 st y2 o E1 E2 Esf IH1).
  Qed.

  (* ---------- what the client half needs of the snapshots of a session ---------- *)

  Lemma snaps_factsr slot script s : srv_histr script s ->
    (forall t1 r1 s1 t2 r2 s2, snaps cfg0 nclients slot script t1 r1 s1 -> snaps cfg0 nclients slot script t2 r2 s2 ->
       (r1 = r2 -> t1 = t2 /\ s1 = s2) /\ (r1 < r2 -> t1 < t2)) /\
    (forall t1 r1 s1 t2 r2 s2, snaps cfg0 nclients slot script t1 r1 s1 -> snaps cfg0 nclients slot script t2 r2 s2 ->
       r1 <= r2 -> keeps r1 s1 s2) /\
    (forall t r s1, snaps cfg0 nclients slot script t r s1 -> small_tick t) /\
    (forall t r s1, snaps cfg0 nclients slot script t r s1 -> ents_wf s1).
  Proof.
    intros Hh.
    assert (Hs : forall t r s1, snaps cfg0 nclients slot script t r s1 -> snap script t r s1)
      by (intros t r s1; apply su_snap).
    split; [|split; [|split]].
    - intros t1 r1 s1 t2 r2 s2 H1 H2. split.
      + exact (hr_rinj _ _ _ _ Hh _ _ _ _ _ _ (Hs _ _ _ H1) (Hs _ _ _ H2)).
      + exact (hr_inj _ _ _ _ Hh _ _ _ _ _ _ (snaps_esnap _ _ _ _ _ _ _ H1) (snaps_esnap _ _ _ _ _ _ _ H2)).
    - intros t1 r1 s1 t2 r2 s2 H1 H2. exact (hr_keep2 _ _ _ _ Hh _ _ _ _ _ _ (Hs _ _ _ H1) (Hs _ _ _ H2)).
    - intros t r s1 H1. exact (proj1 (proj2 (hr_r _ _ _ _ Hh t r s1 (Hs _ _ _ H1)))).
    - intros t r s1 H1. exact (proj2 (proj2 (hr_r _ _ _ _ Hh t r s1 (Hs _ _ _ H1)))).
  Qed.

End HistRunR.
