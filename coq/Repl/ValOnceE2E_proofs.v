(* C02 / C01 end to end at the value level WITH THE `Once` KIND: the invariant over whole-system runs, composed from the
   client half (Repl/ValOnceCli_proofs.v), the server half (Repl/ValOnceSrv_proofs.v, Repl/ValOnceFrame_proofs.v), the
   server history (Repl/ValOnceHist_proofs.v) and the structural invariant of Repl/StructE2ESess_proofs.v (`f_run`).
   Port of Repl/ValRefE2E_proofs.v; the scope ([script_scopeo]) replaces [script_valsr] by [script_valso] (every kind
   but 4).  Theorems T (truthfulness: per kind, [e2eo_truthful]), K (acknowledged stamps are backed by the client) and Q
   (convergence, for the every-tick kinds). *)
From RV Require Import Lib.Res Repl.ClientTicks Repl.ClientTicks_proofs Repl.World Vis.Visibility
  Tick.RepliconTick Tick.RepliconTick_proofs Tick.ConfirmHistory Tick.MutateTicks
  Repl.Server Repl.ServerSpec Repl.Server_proofs Wire.AckCodec Wire.AckCodec_proofs Repl.Ack_proofs Repl.StructSpec Repl.Struct_proofs
  Repl.StructOps_proofs Repl.StructRun_proofs
  Repl.StructVisSpec Repl.StructVis_proofs Repl.StructVisOps_proofs Repl.StructVisRun_proofs
  Repl.Client Repl.Sys Repl.Client_proofs Repl.ClientEnt_proofs Repl.ClientMut_proofs Repl.ClientSys_proofs
  Repl.ClientStructSpec Repl.ClientStruct_proofs Repl.ClientHist_proofs Repl.StructE2E_proofs Repl.StructE2EMut_proofs
  Repl.StructE2EVis_proofs Repl.StructE2ESess_proofs
  Repl.ValSpec Repl.ValSnap_proofs Repl.ValHist_proofs Repl.ValClient_proofs Repl.ValServer_proofs Repl.ValCli_proofs
  Repl.ValSrv_proofs Repl.ValFrame_proofs Repl.ValE2E_proofs
  Repl.ValVisSpec Repl.ValVisHist_proofs Repl.ValVisCli_proofs Repl.ValVisSrv_proofs Repl.ValVisFrame_proofs Repl.ValVisE2E_proofs
  Repl.ValRefSpec Repl.ValRefHist_proofs Repl.ValRefCheck_proofs Repl.ValRefClient_proofs Repl.ValRefCli_proofs Repl.ValRefSrv_proofs Repl.ValRefFrame_proofs Repl.ValRefE2E_proofs
  Repl.ValOnceSpec Repl.ValOnceHist_proofs Repl.ValOnceCli_proofs Repl.ValOnceSrv_proofs Repl.ValOnceFrame_proofs.
From Coq Require Import ZifyBool ZifyN.
Open Scope N_scope.
Ltac Zify.zify_post_hook ::= Z.div_mod_to_equations.
Arguments N.add : simpl never. Arguments N.mul : simpl never. Arguments N.pow : simpl never.
Arguments N.ltb : simpl never. Arguments N.leb : simpl never. Arguments N.div : simpl never.
Arguments N.modulo : simpl never. Arguments N.sub : simpl never. Arguments N.eqb : simpl never.

(* ================================================================== *)
(* 0. the invariant                                                   *)
(* ================================================================== *)

Section ValInvR.
  Variable SN : N -> N -> server -> Prop.

  Record wslot_invo (y : sys) (regs : N) (m : smode) (slot : N) (c : client) : Prop := mkWSlotO {
    (* a client that has not run a frame while connected holds nothing *)
    wso_lnd : cl_last_not_disconnected c = false -> cl_s2c c = [] /\ cl_upd_tick c = 0;
    wso_fresh : fresh_mode m c -> cl_s2c c = [] /\ cl_upd_tick c = 0;
    wso_idle : cl_status c = Disconnected -> acks_of y slot = [];
    wso_cli : m = MLive -> cl_status c = Connected -> cli_invo slot SN c (pend_of y slot c) (muts_of y slot c);
    wso_srv : m = MLive -> cl_status c = Connected -> forall cl, In cl (sv_clients (y_server y)) -> sc_slot cl = slot ->
             srv_slot_invr slot SN (y_server y) cl c (pend_of y slot c) (muts_of y slot c) (acks_of y slot) /\
             ct_mutate_index (sc_ticks cl) <= regs /\
             (sc_authorized cl = false -> sc_ticks cl = ct_default) /\
             once_known (y_server y) cl
  }.
End ValInvR.

Lemma nonframe_ents y st y' o : sys_step y st = Ok (y', o) -> is_sframe st = false ->
  sv_ents (y_server y') = sv_ents (y_server y) /\ sv_last_run (y_server y') = sv_last_run (y_server y).
Proof. intros H Hnf. destruct (nonframe_fields y st y' o H Hnf) as [(E1 & E2 & E3 & _) _]. auto. Qed.

(* a step that leaves the replicas of a client alone, may move or drop what is on its way, and changes the server only
   in ways the invariant does not read *)
Lemma wsloto_mono slot (SN SN' : N -> N -> server -> Prop) y y' regs regs' m m' c c' :
  (forall t r s1, SN t r s1 -> SN' t r s1) -> (forall t r s1, SN' t r s1 -> SN t r s1) ->
  (m' = MLive -> cl_status c = Connected -> m = MLive) -> (fresh_mode m' c' -> fresh_mode m c) -> regs <= regs' ->
  sv_tick (y_server y) <= sv_tick (y_server y') -> sv_now (y_server y) <= sv_now (y_server y') ->
  (m' = MLive -> cl_status c = Connected -> forall cl', In cl' (sv_clients (y_server y')) -> sc_slot cl' = slot ->
     exists cl, In cl (sv_clients (y_server y)) /\ sc_slot cl = slot /\ sc_ticks cl' = sc_ticks cl /\
                (sc_authorized cl' = false -> sc_authorized cl = false)) ->
  same_corel c c' ->
  (cl_status c = Connected -> pend_of y' slot c' = pend_of y slot c) ->
  (cl_status c = Connected -> forall mm, In mm (muts_of y' slot c') -> In mm (muts_of y slot c)) ->
  (forall i, In i (acks_of y' slot) -> In i (acks_of y slot)) ->
  sv_ents (y_server y') = sv_ents (y_server y) -> sv_last_run (y_server y') = sv_last_run (y_server y) ->
  wslot_invo SN y regs m slot c -> wslot_invo SN' y' regs' m' slot c'.
Proof.
  intros Hsn Hback Hm Hfm Hregs Htk Hnw Hrec [(Est & E1 & E2 & E3 & E4 & E5) El] Hp Hmu Ha Hents Hlr [V0 V1 V2 V3 V4]. constructor.
  - intros Hl. rewrite El in Hl. rewrite E1, E5. exact (V0 Hl).
  - intros Hf. rewrite E1, E5. exact (V1 (Hfm Hf)).
  - intros Hd. rewrite Est in Hd. specialize (V2 Hd).
    destruct (acks_of y' slot) as [|i t] eqn:E; [reflexivity|]. exfalso. specialize (Ha i (or_introl eq_refl)). rewrite V2 in Ha. destruct Ha.
  - intros Hm' Hc. rewrite Est in Hc. rewrite (Hp Hc). apply (clio_muts slot SN' _ _ (muts_of y slot c)); [exact (Hmu Hc)|].
    apply (clio_srv slot SN SN'); [exact Hsn|intros t r s0 H0; left; exact (Hback _ _ _ H0)|intros t r s0 H0; left; exact (Hback _ _ _ H0)|].
    apply (clio_ext slot SN c c'); try assumption. exact (V3 (Hm Hm' Hc) Hc).
  - intros Hm' Hc cl' Hin Hs. rewrite Est in Hc. destruct (Hrec Hm' Hc cl' Hin Hs) as (cl & Hin0 & Hs0 & Et & Eau).
    destruct (V4 (Hm Hm' Hc) Hc cl Hin0 Hs0) as (A & B & C & D). split; [|split; [rewrite Et; lia|split; [intros Hu; rewrite Et; exact (C (Eau Hu))|]]].
    2:{ apply (once_known_ticks (y_server y') cl); [intros e0 a' Hst0; exists a'; split; [rewrite <- Et; exact Hst0|lia]|].
        apply (once_known_srv (y_server y) (y_server y')); [apply (keeps_added_ext _ _ (y_server y) _ Hents); apply keeps_added_refl|lia|exact D]. }
    rewrite (Hp Hc). apply (srv_sloto_ticks slot SN' _ cl cl'); [exact Et|].
    apply (srv_sloto_sub slot SN' _ cl c' _ (muts_of y slot c) (acks_of y slot)); [exact (Hmu Hc)|exact Ha|].
    apply (srv_sloto_srv slot SN SN' (y_server y)); [exact Hsn|intros e0 a0 t0 r0 s0 _ H0 _; exact (Hback _ _ _ H0)|exact Htk|exact Hnw|].
    apply (srv_sloto_mono slot SN (y_server y) cl c (pend_of y slot c) (muts_of y slot c) (acks_of y slot) (y_server y) c' (pend_of y slot c));
      [reflexivity|reflexivity|auto| | | |exact A].
    + intros g e a. apply (conf_sinceo_cg SN). intros t. apply cgo_ext. intros e0. apply centof_ext; assumption.
    + rewrite (client_struct_ext c c' E1 E3). apply struct_equiv_refl.
    + rewrite E5. reflexivity.
Qed.

Lemma wsloto_same slot (SN SN' : N -> N -> server -> Prop) y y' regs m c c' :
  (forall t r s1, SN t r s1 -> SN' t r s1) -> (forall t r s1, SN' t r s1 -> SN t r s1) ->
  sv_tick (y_server y') = sv_tick (y_server y) -> sv_now (y_server y') = sv_now (y_server y) ->
  sv_clients (y_server y') = sv_clients (y_server y) -> same_corel c c' ->
  (cl_status c = Connected -> pend_of y' slot c' = pend_of y slot c) ->
  (cl_status c = Connected -> forall mm, In mm (muts_of y' slot c') -> In mm (muts_of y slot c)) ->
  (forall i, In i (acks_of y' slot) -> In i (acks_of y slot)) ->
  sv_ents (y_server y') = sv_ents (y_server y) -> sv_last_run (y_server y') = sv_last_run (y_server y) ->
  wslot_invo SN y regs m slot c -> wslot_invo SN' y' regs m slot c'.
Proof.
  intros Hsn Hback Et En Ec Hcore Hp Hm Ha Hents Hlr Hv.
  apply (wsloto_mono slot SN SN' y y' regs regs m m c c'); try assumption; try lia; auto.
  - intros [H|[H1 H2]]; [left; exact H|right; split; [exact H1|]]. destruct Hcore as [(Est & _) _]. congruence.
  - intros _ _ cl' Hin Hs. rewrite Ec in Hin. exists cl'. auto.
Qed.

(* the client acknowledges messages it has processed *)
Lemma srv_sloto_add_acks slot (SN : N -> N -> server -> Prop) s cl c pend muts acks new :
  (forall i, In i new -> exists m, In m muts /\ m_idx m = i /\
     forall e vals, In (e, vals) (m_body m) -> cgr c pend 0 e (m_tick m)) ->
  srv_slot_invr slot SN s cl c pend muts acks -> srv_slot_invr slot SN s cl c pend muts (acks ++ new).
Proof.
  intros Hnew [H1 H2 H3 H4 H5 H6 H7 H8 H9 H10 H11 H12]. constructor; try assumption.
  - intros i info e Hi Hinfo He. apply in_app_or in Hi. destruct Hi as [Hi|Hi]; [exact (H2 i info e Hi Hinfo He)|].
    destruct (Hnew i Hi) as (m & Hm & Ei & Hcg). subst i. destruct (H3 m info Hm Hinfo) as [[s1 Hsn] Hents].
    rewrite Hents in He. apply in_map_iff in He. destruct He as [[e' vals] [Ee Hb]]. cbn in Ee. subst e'.
    exists (m_tick m), s1. split; [exact Hsn|exact (Hcg e vals Hb)].
  - intros i Hi. apply in_app_or in Hi. destruct Hi as [Hi|Hi]; [exact (H5 i Hi)|].
    destruct (Hnew i Hi) as (m & Hm & Ei & _). subst i. exact (H4 m Hm).
Qed.

Lemma clio_fresh slot (SN : N -> N -> server -> Prop) c : cs_inv c -> pu c -> cl_s2c c = [] -> cl_upd_tick c = 0 -> cli_invo slot SN c [] [].
Proof.
  intros Hcs Hpu Hs Ht. constructor; try assumption.
  - intros e cid H. rewrite Hs in H. discriminate.
  - intros e x h (Hc & _). unfold centof in Hc. rewrite Hs in Hc. discriminate.
  - left. exact Ht.
  - intros u [].
  - apply ticks_incr_nil.
  - intros e x h _ u [].
  - intros u [].
  - intros m [].
  - intros p u q E. destruct p; discriminate.
  - intros u [].
Qed.

Section E2ER.
  Variables (cfg0 : cfg) (nclients : N).
  Local Notation init := (sys_init cfg0 nclients).
  Local Notation SNof slot script := (snaps cfg0 nclients slot script).

  Definition w_invo (script : list step) (y : sys) : Prop :=
    forall slot c, al_get slot (y_clients y) = Some c ->
      wslot_invo (SNof slot script) y (regs_of init script slot) (mode_of script slot) slot c.

  Lemma regso_snoc script y st y' o slot :
    run init script = Ok y -> sys_step y st = Ok (y', o) ->
    regs_of init (script ++ [st]) slot = regs_of init script slot + regs_step y st slot.
  Proof. intros Hr Hs. rewrite regs_of_app, Hr. cbn [regs_of]. rewrite Hs. lia. Qed.

  Lemma snapso_mono slot script st t r s1 : ends_session slot st = false -> SNof slot script t r s1 -> SNof slot (script ++ [st]) t r s1.
  Proof. apply su_mono. Qed.

  Lemma snapso_back slot script y st t r s1 : run init script = Ok y -> is_sframe st = false ->
    SNof slot (script ++ [st]) t r s1 -> SNof slot script t r s1.
  Proof. intros Hr Hnf H. exact (proj2 (su_nonframe cfg0 nclients _ script y st t r s1 Hr Hnf H)). Qed.

  (* ---------- steps that do not end a session, start one, or run a frame ---------- *)

  (* a step that only changes the link and the client of slot0 *)
  Lemma wo_link_client script st y slot0 cl cl' l' y' o :
    is_sframe st = false -> (forall slot, ends_session slot st = false) -> (forall slot m, mode_step slot m st = m) ->
    run init script = Ok y -> sys_step y st = Ok (y', o) ->
    y' = set_client (set_link y slot0 l') slot0 cl' ->
    al_get slot0 (y_clients y) = Some cl -> same_corel cl cl' ->
    (cl_status cl = Connected -> cl_inbox_upd cl' ++ l_upd l' = cl_inbox_upd cl ++ l_upd (get_link y slot0)) ->
    (cl_status cl = Connected -> forall m, In m (l_mut l' ++ cl_inbox_mut cl' ++ cl_buffered cl') -> In m (muts_of y slot0 cl)) ->
    (forall i, In i (concat (l_ack l')) -> In i (concat (l_ack (get_link y slot0)))) ->
    w_invo script y -> w_invo (script ++ [st]) y'.
  Proof.
    intros Hnf Hends Hmode Hrun H -> Ec Hcore Hp Hm Ha Hinv slot c Hc.
    rewrite (regso_snoc script y st _ o slot Hrun H), (regs_step_nonframe y st slot Hnf), N.add_0_r, mode_of_snoc, Hmode.
    assert (Hsn : forall t r s1, SNof slot script t r s1 -> SNof slot (script ++ [st]) t r s1) by (intros t r s1; apply snapso_mono; apply Hends).
    assert (Hbk : forall t r s1, SNof slot (script ++ [st]) t r s1 -> SNof slot script t r s1) by (intros t r s1; exact (snapso_back slot script y st t r s1 Hrun Hnf)).
    cbn [set_client set_link y_clients] in Hc. destruct (N.eq_dec slot slot0) as [->|Hne].
    - rewrite al_get_insert_same in Hc. inversion Hc; subst c. clear Hc.
      apply (wsloto_same slot0 (SNof slot0 script) _ y _ _ _ cl cl' Hsn Hbk); [reflexivity|reflexivity|reflexivity|exact Hcore| | | |reflexivity|reflexivity|exact (Hinv slot0 cl Ec)].
      + intros Hcon. unfold pend_of. rewrite link_same. exact (Hp Hcon).
      + intros Hcon m Hin. unfold muts_of in Hin. rewrite link_same in Hin. exact (Hm Hcon m Hin).
      + intros i Hi. unfold acks_of in *. rewrite link_same in Hi. cbn [set_client set_link y_server] in Hi.
        apply in_app_or in Hi. apply in_or_app. destruct Hi as [Hi|Hi]; [left; exact Hi|right; exact (Ha i Hi)].
    - rewrite al_get_insert_other in Hc by exact Hne.
      apply (wsloto_same slot (SNof slot script) _ y _ _ _ c c Hsn Hbk); [reflexivity|reflexivity|reflexivity|apply same_corel_refl| | | |reflexivity|reflexivity|exact (Hinv slot c Hc)].
      + intros _. unfold pend_of. rewrite (link_other y slot0 l' cl' slot Hne). reflexivity.
      + intros _ m Hin. unfold muts_of in *. rewrite (link_other y slot0 l' cl' slot Hne) in Hin. exact Hin.
      + intros i Hi. unfold acks_of in *. rewrite (link_other y slot0 l' cl' slot Hne) in Hi. exact Hi.
  Qed.

  Lemma wo_noop script st y o :
    is_sframe st = false -> (forall slot, ends_session slot st = false) ->
    (forall slot c, al_get slot (y_clients y) = Some c ->
       (mode_step slot (mode_of script slot) st = MLive -> cl_status c = Connected -> mode_of script slot = MLive) /\
       (fresh_mode (mode_step slot (mode_of script slot) st) c -> fresh_mode (mode_of script slot) c)) ->
    run init script = Ok y -> sys_step y st = Ok (y, o) -> w_invo script y -> w_invo (script ++ [st]) y.
  Proof.
    intros Hnf Hends Hmode Hrun H Hinv slot c Hc.
    rewrite (regso_snoc script y st _ o slot Hrun H), (regs_step_nonframe y st slot Hnf), N.add_0_r, mode_of_snoc.
    destruct (Hmode slot c Hc) as [M1 M2].
    apply (wsloto_mono slot (SNof slot script) _ y y (regs_of init script slot) (regs_of init script slot) (mode_of script slot) _ c c); try lia; auto.
    - intros t r s1. apply snapso_mono. apply Hends.
    - intros t r s1. exact (snapso_back slot script y st t r s1 Hrun Hnf).
    - intros _ _ cl' Hin Hs. exists cl'. auto.
    - apply same_corel_refl.
  Qed.

  Lemma mode_id_noopo st : (forall slot m, mode_step slot m st = m) ->
    forall (script : list step) (y : sys) slot c, al_get slot (y_clients y) = Some c ->
       (mode_step slot (mode_of script slot) st = MLive -> cl_status c = Connected -> mode_of script slot = MLive) /\
       (fresh_mode (mode_step slot (mode_of script slot) st) c -> fresh_mode (mode_of script slot) c).
  Proof. intros H script y slot c _. rewrite H. auto. Qed.

  (* ---------- deliveries and drops ---------- *)

  Lemma deliveo_updates_lndr p : forall cl, cl_last_not_disconnected (fold_left deliver_update p cl) = cl_last_not_disconnected cl.
  Proof.
    induction p as [|u t IH]; intros cl; cbn [fold_left]; [reflexivity|]. rewrite IH. unfold deliver_update. destruct (cl_status cl); reflexivity.
  Qed.

  Lemma deliveo_mutates_lndr p : forall cl, cl_last_not_disconnected (fold_left deliver_mutate p cl) = cl_last_not_disconnected cl.
  Proof.
    induction p as [|u t IH]; intros cl; cbn [fold_left]; [reflexivity|]. rewrite IH. unfold deliver_mutate. destruct (cl_status cl); reflexivity.
  Qed.

  Lemma wo_transport script st y y' o :
    transport_step st = true -> legal_step st = true -> run init script = Ok y ->
    w_invo script y -> sys_step y st = Ok (y', o) -> w_invo (script ++ [st]) y'.
  Proof.
    intros Ht Hl Hrun Hinv H.
    assert (Hnf : is_sframe st = false) by (destruct st; try discriminate; reflexivity).
    assert (Hends : forall slot, ends_session slot st = false) by (intros slot; destruct st; try discriminate; reflexivity).
    assert (Hmode : forall slot m, mode_step slot m st = m) by (intros slot m; destruct st; try discriminate; reflexivity).
    destruct st as [| | | | | | |slot0 s2c ch w|slot0 s2c ch w]; try discriminate; pose proof H as H0; cbn [sys_step] in H.
    - (* deliver *)
      destruct (al_get slot0 (y_clients y)) as [cl|] eqn:Ec;
        [|inversion H; subst y' o; exact (wo_noop script _ y _ Hnf Hends (mode_id_noopo _ Hmode script y) Hrun H0 Hinv)].
      destruct s2c.
      + destruct (ch =? 0) eqn:Ech.
        * cbn [legal_step] in Hl. rewrite Ech in Hl. assert (Hw : w <> Last) by (destruct w; congruence).
          destruct (take w (l_upd (get_link y slot0))) as [picked rest] eqn:Etk. inversion H; subst y' o. clear H.
          apply take_app in Etk; [|exact Hw].
          destruct (deliver_updates_fields picked cl) as (A & B & C & D & E & F & G & K). cbv zeta in A, B, C, D, E, F, G, K.
          apply (wo_link_client script _ y slot0 cl _ _ _ _ Hnf Hends Hmode Hrun H0 eq_refl Ec);
            [split; [unfold same_core; auto 6|apply deliveo_updates_lndr]| | | |exact Hinv].
          -- intros Hcon. cbn [l_upd]. destruct (deliver_updates_inbox picked cl Hcon) as [Hi _]. rewrite Hi, <- app_assoc, Etk. reflexivity.
          -- intros _ m Hm. cbn [l_mut] in Hm. rewrite F, G in Hm. exact Hm.
          -- intros i Hi. exact Hi.
        * destruct (ch =? 1) eqn:Ech1; [|inversion H; subst y' o; exact (wo_noop script _ y _ Hnf Hends (mode_id_noopo _ Hmode script y) Hrun H0 Hinv)].
          destruct (take w (l_mut (get_link y slot0))) as [picked rest] eqn:Etk. inversion H; subst y' o. clear H.
          destruct (status_dec cl) as [Es|Es].
          -- rewrite (deliver_mutates_disc picked cl Es) in *.
             apply (wo_link_client script _ y slot0 cl _ _ _ _ Hnf Hends Hmode Hrun H0 eq_refl Ec); [apply same_corel_refl| | | |exact Hinv].
             ++ intros Hcon. congruence.
             ++ intros Hcon. congruence.
             ++ intros i Hi. exact Hi.
          -- destruct (deliver_mutates_fields picked cl Es) as (A & B & C & D & E & F & G & K & L). cbv zeta in A, B, C, D, E, F, G, K, L.
             apply (wo_link_client script _ y slot0 cl _ _ _ _ Hnf Hends Hmode Hrun H0 eq_refl Ec);
               [split; [unfold same_core; repeat split; congruence|apply deliveo_mutates_lndr]| | | |exact Hinv].
             ++ intros _. cbn [l_upd]. rewrite L. reflexivity.
             ++ intros _ m Hm. cbn [l_mut] in Hm. rewrite F, G in Hm. unfold muts_of.
                apply in_app_or in Hm. apply in_or_app. destruct Hm as [Hm|Hm]; [left; exact (take_in _ _ _ _ m Etk (or_intror Hm))|].
                rewrite <- app_assoc in Hm. apply in_app_or in Hm. destruct Hm as [Hm|Hm]; [right; apply in_or_app; left; exact Hm|].
                apply in_app_or in Hm. destruct Hm as [Hm|Hm]; [left; exact (take_in _ _ _ _ m Etk (or_introl Hm))|right; apply in_or_app; right; exact Hm].
             ++ intros i Hi. exact Hi.
      + destruct (ch =? 0); [|inversion H; subst y' o; exact (wo_noop script _ y _ Hnf Hends (mode_id_noopo _ Hmode script y) Hrun H0 Hinv)].
        destruct (take w (l_ack (get_link y slot0))) as [picked rest] eqn:Etk. inversion H; subst y' o. clear H.
        destruct (deliver_acks_fold_fields slot0 picked (y_server y)) as (X1 & X2 & X3 & X4). cbv zeta in X1, X2, X3, X4.
        intros slot c Hc. cbn [set_server set_link y_clients] in Hc.
        rewrite (regso_snoc script y _ _ _ slot Hrun H0), (regs_step_nonframe y _ slot Hnf), N.add_0_r, mode_of_snoc, Hmode.
        apply (wsloto_same slot (SNof slot script) _ y _ _ _ c c);
          [intros t r s1; apply snapso_mono; apply Hends|intros t r s1; exact (snapso_back slot script y _ t r s1 Hrun Hnf)|exact X2|exact X4|exact X3|apply same_corel_refl| | | |exact (proj1 (nonframe_ents y _ _ _ H0 Hnf))|exact (proj2 (nonframe_ents y _ _ _ H0 Hnf))|exact (Hinv slot c Hc)].
        * intros _. unfold pend_of. change (get_link (set_server ?a ?b) slot) with (get_link a slot).
          destruct (N.eq_dec slot slot0) as [->|Hne]; [rewrite get_link_set_link_same|rewrite get_link_set_link_other by exact Hne]; reflexivity.
        * intros _ m Hm. unfold muts_of in *. change (get_link (set_server ?a ?b) slot) with (get_link a slot) in Hm.
          destruct (N.eq_dec slot slot0) as [->|Hne]; [rewrite get_link_set_link_same in Hm|rewrite get_link_set_link_other in Hm by exact Hne]; exact Hm.
        * intros i Hi. unfold acks_of in *. cbn [set_server y_server] in Hi. change (get_link (set_server ?a ?b) slot) with (get_link a slot) in Hi.
          apply in_app_or in Hi. destruct Hi as [Hi|Hi].
          -- destruct (deliver_acks_fold_inbox slot0 picked (y_server y) slot i Hi) as [Hi'|[-> Hi']]; [apply in_or_app; left; exact Hi'|].
             apply in_or_app. right. apply (take_concat w _ picked rest i Etk). apply in_or_app. left. exact Hi'.
          -- destruct (N.eq_dec slot slot0) as [->|Hne].
             ++ rewrite get_link_set_link_same in Hi. cbn [l_ack] in Hi. apply in_or_app. right.
                apply (take_concat w _ picked rest i Etk). apply in_or_app. right. exact Hi.
             ++ rewrite get_link_set_link_other in Hi by exact Hne. apply in_or_app. right. exact Hi.
    - (* drop: only the mutation channel *)
      cbn [legal_step] in Hl. destruct s2c; [|discriminate].
      destruct (al_get slot0 (y_clients y)) as [cl|] eqn:Ec;
        [|inversion H; subst y' o; exact (wo_noop script _ y _ Hnf Hends (mode_id_noopo _ Hmode script y) Hrun H0 Hinv)].
      assert (Hch : ch = 1) by lia. subst ch. cbn in H.
      destruct (take w (l_mut (get_link y slot0))) as [picked rest] eqn:Etk. inversion H; subst y' o. clear H.
      apply (wo_link_client script _ y slot0 cl _ _ _ _ Hnf Hends Hmode Hrun H0 eq_refl Ec); [apply same_corel_refl| | | |exact Hinv].
      + intros _. reflexivity.
      + intros _ m Hm. cbn [l_mut] in Hm. unfold muts_of. apply in_app_or in Hm. apply in_or_app.
        destruct Hm as [Hm|Hm]; [left; exact (take_in _ _ _ _ m Etk (or_intror Hm))|right; exact Hm].
      + intros i Hi. exact Hi.
  Qed.

  (* ---------- StStart ---------- *)

  Lemma wo_start script y :
    run init script = Ok y -> w_invo script y -> w_invo (script ++ [StStart]) (set_server y (set_running (y_server y) true)).
  Proof.
    intros Hrun Hinv slot c Hc. cbn [set_server y_clients] in Hc.
    rewrite (regso_snoc script y StStart _ ONone slot Hrun eq_refl), mode_of_snoc. cbn [regs_step mode_step]. rewrite N.add_0_r.
    apply (wsloto_same slot (SNof slot script) _ y _ _ _ c c);
      [intros t r s1; apply snapso_mono; reflexivity|intros t r s1; exact (snapso_back slot script y StStart t r s1 Hrun eq_refl)|reflexivity|reflexivity|reflexivity|apply same_corel_refl| | | |reflexivity|reflexivity|exact (Hinv slot c Hc)].
    - intros _. reflexivity.
    - intros _ m Hm. exact Hm.
    - intros i Hi. exact Hi.
  Qed.

  (* ---------- StAuthorize ---------- *)

  Lemma wo_authorize script y slot0 :
    run init script = Ok y -> y_cfg y = cfg0 -> w_invo script y ->
    w_invo (script ++ [StAuthorize slot0]) (set_server y (authorize_client (y_cfg y) (y_server y) slot0)).
  Proof.
    intros Hrun Hcfg Hinv. set (s := y_server y). set (s' := authorize_client (y_cfg y) s slot0).
    assert (Fe : sv_ents s' = sv_ents s /\ sv_tick s' = sv_tick s /\ sv_inbox_acks s' = sv_inbox_acks s /\ sv_now s' = sv_now s).
    { unfold s', authorize_client. destruct (find_client s slot0) as [c0|]; [|auto]. destruct (sc_authorized c0); cbn; auto. }
    destruct Fe as (Fe1 & Fe2 & Fe3 & Fe4).
    assert (Hrec : forall rec', In rec' (sv_clients s') ->
              In rec' (sv_clients s) \/
              (sc_ticks rec' = ct_default /\ sc_slot rec' = slot0 /\ sc_authorized rec' = true /\
               exists rec, In rec (sv_clients s) /\ sc_slot rec = slot0 /\ sc_authorized rec = false)).
    { intros rec' Hin. unfold s', authorize_client in Hin. destruct (find_client s slot0) as [c0|] eqn:Ef; [|left; exact Hin].
      destruct (sc_authorized c0) eqn:Ea; [left; exact Hin|].
      unfold update_client, set_clients in Hin. cbn [sv_clients] in Hin. apply in_map_iff in Hin. destruct Hin as [c1 [E Hc1]].
      destruct (sc_slot c1 =? sc_slot (authorized_client (y_cfg y) slot0 (sc_max_size c0))) eqn:Eq; subst rec'; [|left; exact Hc1].
      right. cbn. split; [reflexivity|]. split; [reflexivity|]. split; [reflexivity|].
      unfold find_client in Ef. apply find_some in Ef. destruct Ef as [Hin0 Hs0]. exists c0. split; [exact Hin0|]. split; [lia|exact Ea]. }
    intros slot c Hc. cbn [set_server y_clients] in Hc.
    rewrite (regso_snoc script y (StAuthorize slot0) _ ONone slot Hrun eq_refl), mode_of_snoc. cbn [regs_step mode_step]. rewrite N.add_0_r.
    pose proof (Hinv slot c Hc) as Hv.
    refine (wsloto_mono slot (SNof slot script) _ y _ _ _ _ _ c c _ _ (fun H _ => H) (fun H => H) (N.le_refl _) _ _ _ (same_corel_refl c) _ _ _ _ _ Hv).
    - intros t r s1. apply snapso_mono. reflexivity.
    - intros t r s1. exact (snapso_back slot script y (StAuthorize slot0) t r s1 Hrun eq_refl).
    - change (sv_tick s <= sv_tick s'). rewrite Fe2. lia.
    - change (sv_now s <= sv_now s'). rewrite Fe4. lia.
    - intros Em Es rec' Hin Hs. change (In rec' (sv_clients s')) in Hin.
      destruct (Hrec rec' Hin) as [Hold|(T1 & T2 & T3 & rec & Hr1 & Hr2 & Hr3)]; [exists rec'; auto|].
      exists rec. split; [exact Hr1|]. split; [congruence|]. split; [|congruence].
      destruct Hv as [_ _ _ _ V4]. assert (Hsl : sc_slot rec = slot) by congruence.
      destruct (V4 Em Es rec Hr1 Hsl) as (_ & _ & V & _). rewrite T1. symmetry. exact (V Hr3).
    - intros _. reflexivity.
    - intros _ m Hm0. exact Hm0.
    - intros i Hi. unfold acks_of in *. change (In i (acks_for slot (sv_inbox_acks s') ++ concat (l_ack (get_link y slot)))) in Hi. rewrite Fe3 in Hi. exact Hi.
    - exact (proj1 (nonframe_ents y (StAuthorize slot0) _ ONone eq_refl eq_refl)).
    - exact (proj2 (nonframe_ents y (StAuthorize slot0) _ ONone eq_refl eq_refl)).
  Qed.

  (* ---------- StConnect ---------- *)

  (* what the structural invariant knows about a slot that is not connected *)
  Lemma f_disconnectedo script y gs slot c :
    f_inv cfg0 nclients script y gs -> al_get slot (y_clients y) = Some c ->
    cs_inv c /\ pu c /\
    (mode_of script slot = MClean \/ mode_of script slot = MLeft -> cl_status c = Disconnected) /\
    (mode_of script slot = MLive -> cl_status c = Connected -> sv_running (y_server y) = true /\ has_rec (y_server y) slot) /\
    (fresh_mode (mode_of script slot) c ->
       ~ has_rec (y_server y) slot /\ cl_buffered c = [] /\ cl_inbox_upd c = [] /\ cl_inbox_mut c = [] /\
       l_upd (get_link y slot) = [] /\ l_mut (get_link y slot) = []).
  Proof.
    intros Hf Hc. destruct (fi_slots _ _ _ _ _ Hf slot c Hc) as [O1 O2 _ O4].
    split; [exact O1|]. split; [exact O2|]. split; [|split].
    - intros [Em|Em]; rewrite Em in O4; cbn [mode_inv] in O4; destruct O4 as (A & _); exact A.
    - intros Em Es. rewrite Em in O4. cbn [mode_inv] in O4. destruct O4 as (A & _ & C). split; [exact (proj1 (C Es))|apply A; exact Es].
    - intros [Em|[Em Es]]; rewrite Em in O4; cbn [mode_inv] in O4.
      + destruct O4 as (_ & (_ & B1 & B2 & B3) & Hn & L1 & L2). auto 8.
      + destruct O4 as (A & B & _). destruct (B Es) as ((_ & B1 & B2 & B3) & L1 & L2).
        split; [intros Hr; apply A in Hr; congruence|auto 8].
  Qed.

  Lemma wo_connect script y gs slot0 max y' o :
    run init script = Ok y -> f_inv cfg0 nclients script y gs -> w_invo script y ->
    sess_step_ok script (StConnect slot0 max) = true ->
    sys_step y (StConnect slot0 max) = Ok (y', o) -> w_invo (script ++ [StConnect slot0 max]) y'.
  Proof.
    intros Hrun Hf Hinv Hss H. pose proof H as H0. pose proof (fi_cfg _ _ _ _ _ Hf) as Hcfg.
    cbn [sess_step_ok] in Hss.
    assert (Hends : forall slot, ends_session slot (StConnect slot0 max) = false) by reflexivity.
    (* the step has no effect *)
    assert (Hnoop : y' = y -> w_invo (script ++ [StConnect slot0 max]) y').
    { intros ->. apply (wo_noop script (StConnect slot0 max) y o eq_refl Hends); [|exact Hrun|exact H0|exact Hinv].
      intros slot c Hc. cbn [mode_step]. destruct (slot0 =? slot) eqn:E; [|auto]. assert (slot0 = slot) by lia. subst slot0.
      destruct (f_disconnectedo script y gs slot c Hf Hc) as (_ & _ & D & _).
      destruct (mode_of script slot) eqn:Em; try discriminate Hss; [|auto]. split.
      - intros _ Es. rewrite (D (or_introl eq_refl)) in Es. discriminate.
      - intros _. left. reflexivity. }
    cbn [sys_step] in H. rewrite Hcfg in H.
    destruct (find_client (y_server y) slot0) as [c0|] eqn:Ef; [inversion H; subst y' o; exact (Hnoop eq_refl)|].
    destruct (al_get slot0 (y_clients y)) as [cl|] eqn:Ec; [|inversion H; subst y' o; exact (Hnoop eq_refl)].
    destruct (sv_running (y_server y)) eqn:Er; [|inversion H; subst y' o; exact (Hnoop eq_refl)].
    inversion H; subst y' o. clear H Hnoop. set (s := y_server y) in *. set (s' := connect_client cfg0 s slot0 max).
    assert (F1 : exists cnew, sv_clients s' = sv_clients s ++ [cnew] /\ sc_slot cnew = slot0 /\ sc_ticks cnew = ct_default).
    { unfold s', connect_client. fold s. rewrite Er, Ef. eexists. split; [reflexivity|]. destruct (cfg_auth cfg0); cbn; auto. }
    destruct F1 as (cnew & F1 & F2 & F3).
    assert (Fe : sv_ents s' = sv_ents s /\ sv_tick s' = sv_tick s /\ sv_inbox_acks s' = sv_inbox_acks s /\ sv_now s' = sv_now s).
    { unfold s', connect_client. fold s. rewrite Er, Ef. cbn. auto. }
    destruct Fe as (Fe1 & Fe2 & Fe3 & Fe4).
    assert (Hnorec : forall rec, In rec (sv_clients s) -> sc_slot rec <> slot0).
    { intros rec Hin Hs. unfold find_client in Ef. pose proof (find_none _ _ Ef rec Hin) as Hf0. cbn in Hf0. lia. }
    intros slot c Hc. cbn [set_client set_server y_clients] in Hc.
    rewrite (regso_snoc script y _ _ _ slot Hrun H0), mode_of_snoc. cbn [regs_step mode_step]. rewrite N.add_0_r.
    destruct (N.eq_dec slot slot0) as [->|Hne].
    - rewrite al_get_insert_same in Hc. inversion Hc; subst c. clear Hc. rewrite N.eqb_refl.
      destruct (f_disconnectedo script y gs slot0 cl Hf Ec) as (O1 & O2 & D1 & D2 & D3).
      pose proof (Hinv slot0 cl Ec) as [V0 V1 V2 _ _].
      (* the slot was fresh *)
      assert (Hfresh : fresh_mode (mode_of script slot0) cl).
      { destruct (mode_of script slot0) eqn:Em; try discriminate Hss; [left; reflexivity|right; split; [reflexivity|]].
        destruct (status_dec cl) as [E|E]; [exact E|]. exfalso. destruct (D2 eq_refl E) as [_ Hr]. apply has_rec_find in Hr. fold s in Hr. congruence. }
      assert (Es : cl_status cl = Disconnected).
      { destruct Hfresh as [Em|[_ E]]; [exact (D1 (or_introl Em))|exact E]. }
      destruct (D3 Hfresh) as (_ & I6 & I2 & I5 & I3 & I4). destruct (V1 Hfresh) as [A1 A2]. pose proof (V2 Es) as A3.
      assert (Ei : cl_inbox_upd (set_status cl Connected) = []) by (unfold set_status; rewrite Es; exact I2).
      assert (Em : cl_inbox_mut (set_status cl Connected) = []) by (unfold set_status; rewrite Es; exact I5).
      assert (Hp : pend_of (set_client (set_server y s') slot0 (set_status cl Connected)) slot0 (set_status cl Connected) = []).
      { unfold pend_of. rewrite Ei. change (get_link (set_client ?a ?b ?c1) slot0) with (get_link y slot0). rewrite I3. reflexivity. }
      assert (Hmu : muts_of (set_client (set_server y s') slot0 (set_status cl Connected)) slot0 (set_status cl Connected) = []).
      { unfold muts_of. rewrite Em. change (get_link (set_client ?a ?b ?c1) slot0) with (get_link y slot0). rewrite I4. cbn. exact I6. }
      assert (Hak : acks_of (set_client (set_server y s') slot0 (set_status cl Connected)) slot0 = []).
      { unfold acks_of in *. change (acks_for slot0 (sv_inbox_acks s') ++ concat (l_ack (get_link y slot0)) = []). rewrite Fe3. exact A3. }
      constructor.
      + intros _. cbn [set_status cl_s2c cl_upd_tick]. auto.
      + intros _. cbn [set_status cl_s2c cl_upd_tick]. auto.
      + cbn. discriminate.
      + intros _ _. rewrite Hp, Hmu. apply clio_fresh; [apply cs_inv_set_status; exact O1|revert O2; apply pu_ext; reflexivity|exact A1|exact A2].
      + intros _ _ rec Hin Hs. change (In rec (sv_clients s')) in Hin. rewrite F1 in Hin. apply in_app_or in Hin.
        destruct Hin as [Hin|[<-|[]]]; [exfalso; exact (Hnorec rec Hin Hs)|].
        rewrite Hp, Hmu, Hak. split; [apply srv_sloto_default; [exact F3|exact A2]|]. split; [rewrite F3; cbn; lia|split; [intros _; exact F3|apply once_known_default; exact F3]].
    - rewrite al_get_insert_other in Hc by exact Hne. replace (slot0 =? slot) with false by lia.
      refine (wsloto_mono slot (SNof slot script) _ y _ _ _ _ _ c c _ _ (fun H _ => H) (fun H => H) (N.le_refl _) _ _ _ (same_corel_refl c) _ _ _ _ _ (Hinv slot c Hc)).
      + intros t r s1. apply snapso_mono. reflexivity.
      + intros t r s1. exact (snapso_back slot script y (StConnect slot0 max) t r s1 Hrun eq_refl).
      + change (sv_tick s <= sv_tick s'). rewrite Fe2. lia.
      + change (sv_now s <= sv_now s'). rewrite Fe4. lia.
      + intros _ _ rec Hin Hs. change (In rec (sv_clients s')) in Hin. rewrite F1 in Hin. apply in_app_or in Hin.
        destruct Hin as [Hin|[<-|[]]]; [exists rec; auto|congruence].
      + intros _. unfold pend_of. change (get_link (set_client ?a ?b ?c1) slot) with (get_link y slot). reflexivity.
      + intros _ m Hm0. exact Hm0.
      + intros i Hi. unfold acks_of in *. change (In i (acks_for slot (sv_inbox_acks s') ++ concat (l_ack (get_link y slot)))) in Hi.
        rewrite Fe3 in Hi. exact Hi.
      + exact (proj1 (nonframe_ents y (StConnect slot0 max) _ _ H0 eq_refl)).
      + exact (proj2 (nonframe_ents y (StConnect slot0 max) _ _ H0 eq_refl)).
  Qed.

  (* ---------- StDisconnect ---------- *)

  Lemma wo_disconnect script y slot0 y' o :
    run init script = Ok y -> w_invo script y ->
    sys_step y (StDisconnect slot0) = Ok (y', o) -> w_invo (script ++ [StDisconnect slot0]) y'.
  Proof.
    intros Hrun Hinv H. pose proof H as H0. cbn [sys_step] in H.
    destruct (al_get slot0 (y_clients y)) as [cl|] eqn:Ec.
    2:{ inversion H; subst y' o. intros slot c Hc.
        assert (Hne : slot <> slot0) by (intros ->; congruence).
        rewrite (regso_snoc script y _ _ _ slot Hrun H0), mode_of_snoc. cbn [regs_step mode_step]. rewrite N.add_0_r.
        replace (slot0 =? slot) with false by lia.
        apply (wsloto_same slot (SNof slot script) _ y _ _ _ c c);
          [intros t r s1; apply snapso_mono; cbn; lia|intros t r s1; exact (snapso_back slot script y (StDisconnect slot0) t r s1 Hrun eq_refl)|reflexivity|reflexivity|reflexivity|apply same_corel_refl|auto|auto|auto|reflexivity|reflexivity|exact (Hinv slot c Hc)]. }
    inversion H; subst y' o. clear H. set (s := y_server y) in *.
    intros slot c Hc. cbn [clear_link set_link set_client set_server y_clients] in Hc.
    rewrite (regso_snoc script y _ _ _ slot Hrun H0), mode_of_snoc. cbn [regs_step mode_step]. rewrite N.add_0_r.
    destruct (N.eq_dec slot slot0) as [->|Hne].
    - rewrite al_get_insert_same in Hc. inversion Hc; subst c. clear Hc. rewrite N.eqb_refl.
      pose proof (Hinv slot0 cl Ec) as [V0 V1 V2 _ _].
      constructor.
      + intros Hl. cbn [set_status cl_s2c cl_upd_tick cl_last_not_disconnected] in *. exact (V0 Hl).
      + intros [Em|[Em _]]; [|destruct (mode_of script slot0); discriminate].
        cbn [set_status cl_s2c cl_upd_tick]. apply V1. left. destruct (mode_of script slot0); try discriminate. reflexivity.
      + intros _. unfold acks_of, clear_link. rewrite get_link_set_link_same. cbn [set_link set_client set_server y_server disconnect_client sv_inbox_acks l_ack concat].
        rewrite acks_for_filter_same. reflexivity.
      + intros Em. destruct (mode_of script slot0); discriminate.
      + intros Em. destruct (mode_of script slot0); discriminate.
    - rewrite al_get_insert_other in Hc by exact Hne. replace (slot0 =? slot) with false by lia.
      refine (wsloto_mono slot (SNof slot script) _ y _ _ _ _ _ c c _ _ (fun H _ => H) (fun H => H) (N.le_refl _) _ _ _ (same_corel_refl c) _ _ _ _ _ (Hinv slot c Hc)).
      + intros t r s1. apply snapso_mono. cbn. lia.
      + intros t r s1. exact (snapso_back slot script y (StDisconnect slot0) t r s1 Hrun eq_refl).
      + unfold s. cbn [clear_link set_link set_client set_server y_server disconnect_client sv_tick]. lia.
      + unfold s. cbn [clear_link set_link set_client set_server y_server disconnect_client sv_now]. lia.
      + intros _ _ rec Hin Hs. cbn [clear_link set_link set_client set_server y_server disconnect_client sv_clients] in Hin.
        apply filter_In in Hin. exists rec. split; [exact (proj1 Hin)|auto].
      + intros _. unfold pend_of, clear_link. rewrite get_link_set_link_other by exact Hne. reflexivity.
      + intros _ m Hm0. unfold muts_of, clear_link in Hm0. rewrite get_link_set_link_other in Hm0 by exact Hne. exact Hm0.
      + intros i Hi. unfold acks_of, clear_link in *. rewrite get_link_set_link_other in Hi by exact Hne.
        cbn [set_link set_client set_server y_server disconnect_client sv_inbox_acks] in Hi.
        rewrite (acks_for_filter_other slot slot0 _ Hne) in Hi. exact Hi.
      + exact (proj1 (nonframe_ents y (StDisconnect slot0) _ _ H0 eq_refl)).
      + exact (proj2 (nonframe_ents y (StDisconnect slot0) _ _ H0 eq_refl)).
  Qed.

  (* ---------- StStop ---------- *)

  Lemma get_link_emptiedo (y : sys) (links : list (N * link)) slot :
    match al_get slot (map (fun kv : N * link => (fst kv, link_empty)) links) with Some l => l | None => link_empty end = link_empty.
  Proof.
    induction links as [|[k l] t IH]; cbn [map al_get fst]; [reflexivity|]. destruct (k =? slot); [reflexivity|exact IH].
  Qed.

  Lemma wo_stop script y y' o :
    run init script = Ok y -> w_invo script y -> sys_step y StStop = Ok (y', o) -> w_invo (script ++ [StStop]) y'.
  Proof.
    intros Hrun Hinv H. pose proof H as H0. cbn [sys_step] in H. inversion H; subst y' o. clear H.
    intros slot c Hc. cbn [y_clients set_server] in Hc.
    rewrite (regso_snoc script y _ _ _ slot Hrun H0), mode_of_snoc. cbn [regs_step mode_step]. rewrite N.add_0_r.
    pose proof (Hinv slot c Hc) as [V0 V1 V2 _ _].
    constructor.
    - exact V0.
    - intros [Em|[Em _]]; [|destruct (mode_of script slot); discriminate]. apply V1. left. destruct (mode_of script slot); try discriminate; reflexivity.
    - intros _. unfold acks_of, get_link. cbn [y_links y_server set_server set_running sv_inbox_acks]. rewrite (get_link_emptiedo y). reflexivity.
    - intros Em. destruct (mode_of script slot); discriminate.
    - intros Em. destruct (mode_of script slot); discriminate.
  Qed.

  (* ---------- StCFrame ---------- *)

  Lemma wo_cframe script y gs slot0 ops y' o :
    run init script = Ok y -> f_inv cfg0 nclients script y gs -> srv_histo cfg0 nclients script (y_server y) ->
    w_invo script y -> sys_step y (StCFrame slot0 ops) = Ok (y', o) -> w_invo (script ++ [StCFrame slot0 ops]) y'.
  Proof.
    intros Hrun Hf Hh Hinv H. pose proof H as H0.
    assert (Hends : forall slot, ends_session slot (StCFrame slot0 ops) = false) by reflexivity.
    cbn [sys_step] in H. destruct (al_get slot0 (y_clients y)) as [cl|] eqn:Ec.
    2:{ inversion H; subst y' o. apply (wo_noop script (StCFrame slot0 ops) y ONone eq_refl Hends); [|exact Hrun|exact H0|exact Hinv].
        intros slot c Hc. cbn [mode_step]. destruct (slot0 =? slot) eqn:E; [|auto]. assert (slot0 = slot) by lia. subst slot0. congruence. }
    destruct (client_frame cl ops) as [[cl' cfo]| |] eqn:Ef; cbn [bind] in H; try discriminate.
    clear H. destruct (cframe_links y slot0 ops cl cl' cfo y' o Ec Ef H0) as ([pcs G1] & G2 & G3 & G4 & G5 & G6).
    set (l := get_link y slot0) in *.
    assert (Etick : sv_tick (y_server y') = sv_tick (y_server y)) by (rewrite G1; reflexivity).
    assert (Ecls : sv_clients (y_server y') = sv_clients (y_server y)) by (rewrite G1; reflexivity).
    assert (Einb : sv_inbox_acks (y_server y') = sv_inbox_acks (y_server y)) by (rewrite G1; reflexivity).
    assert (Enow : sv_now (y_server y') = sv_now (y_server y)) by (rewrite G1; reflexivity).
    intros slot c Hc. rewrite G2 in Hc.
    rewrite (regso_snoc script y _ _ _ slot Hrun H0), mode_of_snoc. cbn [regs_step mode_step]. rewrite N.add_0_r.
    assert (Hsn : forall t r s1, SNof slot script t r s1 -> SNof slot (script ++ [StCFrame slot0 ops]) t r s1) by (intros t r s1; apply snapso_mono; reflexivity).
    assert (Hbk : forall t r s1, SNof slot (script ++ [StCFrame slot0 ops]) t r s1 -> SNof slot script t r s1)
      by (intros t r s1; exact (snapso_back slot script y (StCFrame slot0 ops) t r s1 Hrun eq_refl)).
    destruct (N.eq_dec slot slot0) as [->|Hne].
    2:{ rewrite al_get_insert_other in Hc by exact Hne. replace (slot0 =? slot) with false by lia.
        apply (wsloto_same slot (SNof slot script) _ y _ _ _ c c Hsn Hbk Etick Enow Ecls (same_corel_refl c)); [| | |exact (proj1 (nonframe_ents y _ _ _ H0 eq_refl))|exact (proj2 (nonframe_ents y _ _ _ H0 eq_refl))|exact (Hinv slot c Hc)].
        - intros _. unfold pend_of. rewrite (G3 slot Hne). reflexivity.
        - intros _ m Hm. unfold muts_of in *. rewrite (G3 slot Hne) in Hm. exact Hm.
        - intros i Hi. unfold acks_of in *. rewrite Einb, (G3 slot Hne) in Hi. exact Hi. }
    rewrite al_get_insert_same in Hc. inversion Hc; subst c. clear Hc. rewrite N.eqb_refl.
    pose proof (Hinv slot0 cl Ec) as [V0 V1 V2 V3 V4].
    destruct (f_disconnectedo script y gs slot0 cl Hf Ec) as (_ & _ & D1 & _ & _).
    destruct (status_dec cl) as [Es|Es].
    - (* not connected: the client is reset (or was never used) *)
      destruct (frame_disc_fields cl ops cl' cfo Es V0 Ef) as (E1 & E2 & E3 & E4 & E5).
      constructor.
      + intros _. auto.
      + intros _. auto.
      + intros _. unfold acks_of in *. rewrite Einb. destruct G6 as [G6|(G6 & _)]; [rewrite G6; exact (V2 Es)|congruence].
      + intros _ Hcon. congruence.
      + intros _ Hcon. congruence.
    - (* connected *)
      destruct (frame_clears_inbox cl ops cl' cfo Es Ef) as [Ei Est].
      pose proof (frame_lnd cl ops cl' cfo Ef) as Elnd. rewrite Est in Elnd.
      destruct (mode_of script slot0) eqn:Em.
      + exfalso. rewrite (D1 (or_introl eq_refl)) in Es. discriminate.
      + (* live *)
        destruct (snaps_factso cfg0 nclients slot0 script _ Hh) as (SNinj & SNkeep & SNsmall & SNwf).
        pose proof (V3 eq_refl Es) as Hi. unfold pend_of, muts_of in Hi. fold l in Hi.
        destruct (clio_frame slot0 (SNof slot0 script) SNinj SNkeep SNsmall SNwf cl (l_upd l) (l_mut l ++ cl_inbox_mut cl ++ cl_buffered cl) ops cl' cfo Hi
                    (fun m Hm => in_or_app _ _ m (or_intror Hm)) Es Ef) as (Hi' & Hcf & _ & Emi & _ & Hbuf & Hacks & Hstr & Htk' & _).
        assert (Hmuts' : forall m, In m (l_mut (get_link y' slot0) ++ cl_inbox_mut cl' ++ cl_buffered cl') -> In m (l_mut l ++ cl_inbox_mut cl ++ cl_buffered cl)).
        { intros m Hm. rewrite G5, Emi in Hm. cbn [app] in Hm. apply in_app_or in Hm. apply in_or_app.
          destruct Hm as [Hm|Hm]; [left; exact Hm|right; exact (Hbuf m Hm)]. }
        constructor.
        * intros Hl. congruence.
        * intros [Hx|[_ Hx]]; congruence.
        * intros Hd. congruence.
        * intros _ _. unfold pend_of, muts_of. rewrite Ei, G4. cbn [app].
          apply (clio_muts slot0 _ _ _ (l_mut l ++ cl_inbox_mut cl ++ cl_buffered cl)); [exact Hmuts'|].
          apply (clio_srv slot0 (SNof slot0 script)); [exact Hsn|intros t r s0 H1; left; exact (Hbk _ _ _ H1)|intros t r s0 H1; left; exact (Hbk _ _ _ H1)|exact Hi'].
        * intros _ _ rec Hin Hs. rewrite Ecls in Hin.
          destruct (V4 eq_refl Es rec Hin Hs) as (S1 & S2 & S3 & S4). split; [|split; [exact S2|split; [exact S3|]]].
          2:{ destruct (nonframe_ents y _ _ _ H0 eq_refl) as [Ee El].
              apply (once_known_srv (y_server y) (y_server y')); [apply (keeps_added_ext _ _ (y_server y) _ Ee); apply keeps_added_refl|lia|exact S4]. }
          unfold pend_of, muts_of, acks_of in *. rewrite Einb, Ei, G4. cbn [app]. fold l in S1.
          apply (srv_sloto_sub slot0 _ _ rec cl' (l_upd l) (l_mut l ++ cl_inbox_mut cl ++ cl_buffered cl)
                   ((acks_for slot0 (sv_inbox_acks (y_server y)) ++ concat (l_ack l)) ++ cfo_acks cfo)); [exact Hmuts'| |].
          -- intros i Hi0. destruct G6 as [G6|(_ & G6)]; rewrite G6 in Hi0.
             ++ apply in_or_app. left. exact Hi0.
             ++ rewrite concat_app in Hi0. cbn [concat] in Hi0. rewrite app_nil_r, app_assoc in Hi0. exact Hi0.
          -- apply (srv_sloto_srv slot0 (SNof slot0 script) _ (y_server y)); [exact Hsn|intros e0 a0 t0 r0 s0 _ H1 _; exact (Hbk _ _ _ H1)|rewrite Etick; lia|rewrite Enow; lia|].
             apply srv_sloto_add_acks.
             ++ intros i Hi0. destruct (Hacks i Hi0) as (m & Hm & Eidx & Hcg). exists m. split; [apply in_or_app; right; exact Hm|]. split; [exact Eidx|exact Hcg].
             ++ apply (srv_sloto_mono slot0 (SNof slot0 script) (y_server y) rec cl (cl_inbox_upd cl ++ l_upd l) _ _ (y_server y) cl' (l_upd l)); [reflexivity|reflexivity| |exact Hcf|exact Hstr| |exact S1].
                ** intros u Hu. apply in_or_app. right. exact Hu.
                ** rewrite Htk', map_app. generalize (map u_tick (l_upd l)) as l2. generalize (cl_upd_tick cl) as d. generalize (map u_tick (cl_inbox_upd cl)) as l1.
                   clear. intros l1 d l2. destruct l2 as [|b t]; [rewrite app_nil_r; reflexivity|]. rewrite (last_app_ne l1 (b :: t)) by discriminate. apply last_cons_indep.
      + exfalso. rewrite (D1 (or_intror eq_refl)) in Es. discriminate.
      + (* stale: nothing is claimed *)
        constructor.
        * intros Hl. congruence.
        * intros [Hx|[Hx _]]; discriminate.
        * intros Hd. congruence.
        * intros Hx. discriminate.
        * intros Hx. discriminate.
  Qed.

  (* ---------- StSFrame ---------- *)

  Lemma t0_poso script s t r s1 : srv_histo cfg0 nclients script s -> no_tick0 script = true ->
    snap cfg0 nclients script t r s1 -> 1 <= t \/ sv_clients s1 = [].
  Proof.
    intros Hh Hn Hs. pose proof (ho_t0 _ _ _ _ Hh) as H0. unfold t0_invv in H0. unfold no_tick0 in Hn.
    destruct (fold_left t0_step script (T0A false false)) as [st cn| |]; [|exact (proj2 H0 t r s1 Hs)|discriminate].
    destruct H0 as (_ & _ & _ & _ & Hno). exfalso. exact (Hno t r s1 Hs).
  Qed.

  Lemma wo_sframe script y gs tick dt (cleanup : bool) ops parts y' o :
    let st := StSFrame tick dt cleanup ops parts in
    run init script = Ok y -> f_inv cfg0 nclients script y gs -> erun_s init [] script = Ok (y, gs) -> script_okf script = true ->
    srv_histo cfg0 nclients script (y_server y) -> srv_histo cfg0 nclients (script ++ [st]) (y_server y') ->
    no_tick0 (script ++ [st]) = true -> forallb sop_ok ops = true -> forallb sop_valso ops = true ->
    (forall slot, regs_of init (script ++ [st]) slot < 2 ^ 16) -> tick_frames (script ++ [st]) < 2 ^ 31 ->
    (forall slot, In slot (client_slots nclients) -> refs_kept cfg0 nclients (script ++ [st]) slot) ->
    w_invo script y -> sys_step y st = Ok (y', o) -> w_invo (script ++ [st]) y'.
  Proof.
    intros st Hrun Hf Eg Hokf Hh Hh' Hn0 Hops Hvals Hregs Hb' Hrk Hinv H. unfold st in H. pose proof H as H0.
    pose proof (fi_cfg _ _ _ _ _ Hf) as Hcfg. pose proof (fi_ginv _ _ _ _ _ Hf) as Hg. pose proof (fi_nomaps _ _ _ _ _ Hf) as Hnm.
    assert (Hb : tick_frames script < 2 ^ 31) by (rewrite tick_frames_snoc in Hb'; destruct (is_tick_frame st); lia).
    cbn [sys_step] in H. rewrite Hcfg in H. set (s := y_server y) in *.
    destruct (server_frame cfg0 s tick dt cleanup ops parts) as [[s' fo]| |] eqn:Ef; cbn [bind] in H; try discriminate.
    inversion H; subst y' o. clear H. set (outs := fo_clients fo) in *.
    destruct (enqueue_fields outs (set_server y s')) as (Q1 & Q2 & Q3). cbn [set_server y_server y_clients] in Q2, Q3.
    destruct (server_frame_clients_v cfg0 (mkG s gs) tick dt cleanup ops parts s' fo Hg Hnm Hops Ef) as (_ & _ & _ & _ & N5 & _).
    fold outs in N5.
    destruct (frame_inbox cfg0 s tick dt cleanup ops parts s' fo Ef) as [Hinb Hinb0].
    rewrite Q2 in Hh'.
    intros slot c Hc. rewrite Q3 in Hc.
    rewrite (regso_snoc script y st _ _ slot Hrun H0), mode_of_snoc. unfold regs_step, st. cbn [mode_step]. rewrite Hcfg. fold s. rewrite Ef. fold outs.
    pose proof (Hinv slot c Hc) as [V0 V1 V2 V3 V4].
    assert (Elack : l_ack (get_link (enqueue_outputs (set_server y s') outs) slot) = l_ack (get_link y slot)).
    { rewrite enqueue_lack. reflexivity. }
    assert (Elupd : l_upd (get_link (enqueue_outputs (set_server y s') outs) slot) = l_upd (get_link y slot) ++ sfo_extra slot fo).
    { rewrite enqueue_lupd, (updates_for_upd_for slot outs N5). reflexivity. }
    assert (Elmut : l_mut (get_link (enqueue_outputs (set_server y s') outs) slot) = l_mut (get_link y slot) ++ sfo_newm slot fo).
    { rewrite enqueue_lmut. reflexivity. }
    assert (Hidle : cl_status c = Disconnected -> acks_of (enqueue_outputs (set_server y s') outs) slot = []).
    { intros Es. pose proof (V2 Es) as A3. unfold acks_of in A3. apply app_eq_nil in A3. destruct A3 as [A3a A3b].
      unfold acks_of. rewrite Q2, Elack. fold s. rewrite A3b, app_nil_r.
      destruct (acks_for slot (sv_inbox_acks s')) as [|i t] eqn:E; [reflexivity|]. exfalso.
      pose proof (acks_for_sub slot _ _ Hinb i) as Hs. change (y_server y) with s in A3a. rewrite E, A3a in Hs. exact (Hs (or_introl eq_refl)). }
    destruct (f_disconnectedo script y gs slot c Hf Hc) as (_ & _ & _ & D2 & _).
    destruct (mode_of script slot) eqn:Em;
      try (constructor; [exact V0|exact V1|exact Hidle|intros Hx; discriminate|intros Hx; discriminate]).
    destruct (status_dec c) as [Es|Es].
    { constructor; [exact V0|exact V1|exact Hidle|intros _ Hcon; congruence|intros _ Hcon; congruence]. }
    (* live and connected: the server runs and has a record for the slot *)
    destruct (D2 eq_refl Es) as [Hrunning Hrec].
    destruct (server_frame_flags _ _ _ _ _ _ _ _ _ Ef) as (_ & _ & _ & Hfr & _). destruct (Hfr Hrunning) as [Etk' Eran].
    destruct (server_frame_core cfg0 s tick dt cleanup ops parts s' fo Ef) as (s2 & _ & _ & _ & _ & Hcore).
    pose proof (ho_tick _ _ _ _ Hh) as Htk. fold s in Htk.
    assert (Htadd : tick_add (sv_tick s) 1 = sv_tick s + 1).
    { unfold tick_add. apply N.mod_small. rewrite pow32_val. rewrite pow31_val in Hb. lia. }
    assert (Hlast : fo_ran fo = true -> sv_last_run s' = sv_now s).
    { intros Hr. destruct Hcore as [(_ & _ & _ & _ & E & _)|(E & _)]; [exact E|congruence]. }
    assert (Hstep : fo_ran fo = true -> snap_step y st (sv_tick s') (sv_now s) s').
    { intros Hr. eexists _, tick, dt, cleanup, ops, parts, fo, _. split; [reflexivity|]. split; [exact H0|]. split; [exact Hr|].
      split; [exact Q2|]. split; [reflexivity|exact (Hlast Hr)]. }
    assert (Hsn : forall t r s1, SNof slot script t r s1 -> SNof slot (script ++ [st]) t r s1) by (intros t r s1; apply snapso_mono; reflexivity).
    assert (Hsnapnew : fo_ran fo = true -> SNof slot (script ++ [st]) (sv_tick s') (sv_now s) s').
    { intros Hr. exact (su_last cfg0 nclients _ script y st _ _ _ Hrun (Hstep Hr)). }
    assert (Hbndr : forall t r s1, SNof slot script t r s1 -> r < sv_now s).
    { intros t r s1 Hs1. destruct (ho_r _ _ _ _ Hh t r s1 (su_snap _ _ _ _ _ _ _ Hs1)) as (B1 & _). pose proof (ho_now _ _ _ _ Hh) as B2. fold s in B1, B2. lia. }
    assert (Hbnd : fo_ran fo = true -> forall t r s1, SNof slot script t r s1 -> t < sv_tick s').
    { intros Hr t r s1 Hs1.
      apply (ho_inj _ _ _ _ Hh' t r s1 (sv_tick s') (sv_now s) s' (snaps_esnap _ _ _ _ _ _ _ (Hsn _ _ _ Hs1)) (su_last cfg0 nclients _ script y st _ _ _ Hrun (Hstep Hr))).
      exact (Hbndr _ _ _ Hs1). }
    assert (Hposn : fo_ran fo = true -> sv_clients s' <> [] -> 1 <= sv_tick s').
    { intros Hr Hne. destruct (t0_poso (script ++ [st]) s' _ _ _ Hh' Hn0 (su_snap _ _ _ _ _ _ _ (Hsnapnew Hr))) as [Hp|Hnil]; [exact Hp|contradiction]. }
    assert (Htk3 : sv_tick s <= sv_tick s') by (rewrite Etk', Htadd; destruct tick; lia).
    assert (Hwrap : regs_of init script slot + N.of_nat (length (mutates_for slot (fo_clients fo))) < 2 ^ 16).
    { pose proof (Hregs slot) as Hr. rewrite (regso_snoc script y st _ _ slot Hrun H0) in Hr. unfold regs_step, st in Hr.
      rewrite Hcfg in Hr. fold s in Hr. rewrite Ef in Hr. exact Hr. }
    assert (Hmax : sv_now s < MAX_CHANGE_AGE).
    { pose proof (now_boundv cfg0 nclients script y Hrun) as Hnb. fold s in Hnb. pose proof max_change_age_far as Hfar. rewrite pow31_val in *. lia. }
    assert (Hsnap' : forall t r s0, SNof slot (script ++ [st]) t r s0 ->
              SNof slot script t r s0 \/ (fo_ran fo = true /\ t = sv_tick s' /\ r = sv_now s /\ s0 = s')).
    { intros t r s0 Hs0. destruct (su_frame_inv cfg0 nclients _ script y tick dt cleanup ops parts _ fo _ t r s0 Hrun H0 Hs0) as [[_ Ho]|(Hran & A & B & C)];
        [left; exact Ho|right].
      rewrite Q2 in A, B, C. subst s0. split; [exact Hran|]. split; [exact B|]. split; [rewrite C; exact (Hlast Hran)|reflexivity]. }
    assert (Hpendok : forall rec, In rec (sv_clients s) -> sc_slot rec = slot -> sc_authorized rec = true ->
              pending_ok_v s rec (fold_left abs_apply (pend_of y slot c) (client_struct c))).
    { intros rec Hin Hs Hau. destruct (gv_clients _ Hg rec Hin Hau) as [Hp _]. cbn [g_srv g_sent] in Hp. rewrite Hs in Hp.
      apply (pending_ok_v_equiv s rec (sent_of slot gs)); [|exact Hp]. apply struct_equiv_symm.
      exact (f_in_flight cfg0 nclients script y gs slot c Hokf Hb Eg Hc Em Es). }
    assert (Hdf : forall u, upd_for slot (fo_clients fo) = Some u -> forall d, In d (u_despawns u) ->
              forall t r s0, SNof slot script t r s0 -> ~ refd slot s0 d).
    { intros u Hu d Hd. apply (Hrk slot (client_slot_in cfg0 nclients script y slot c Hrun Hc) script st [] y eq_refl Hrun d).
      unfold desp_step, st. rewrite Hcfg. fold s. rewrite Ef, Hu. exact Hd. }
    destruct (sframeo_slot slot (SNof slot script) (SNof slot (script ++ [st])) Hsn cfg0 s tick dt cleanup ops parts s' fo
                (gv_srv _ Hg) Hrunning (gv_slots _ Hg) Hops Hvals Hnm (ho_ents _ _ _ _ Hh) Ef Htk3
                Hsnapnew Hbnd Hposn Hmax Hsnap' Hbndr c (pend_of y slot c) (muts_of y slot c) (concat (l_ack (get_link y slot)))
                (regs_of init script slot) (V3 eq_refl Es) (V4 eq_refl Es) Hwrap Hpendok Hdf) as [Hcli' Hsrv'].
    assert (Epend : pend_of (enqueue_outputs (set_server y s') outs) slot c = pend_of y slot c ++ sfo_extra slot fo).
    { unfold pend_of. rewrite Elupd, app_assoc. reflexivity. }
    assert (Hmsub : forall m, In m (muts_of (enqueue_outputs (set_server y s') outs) slot c) -> In m (muts_of y slot c ++ sfo_newm slot fo)).
    { intros m Hm0. unfold muts_of in *. rewrite Elmut in Hm0. rewrite <- app_assoc in Hm0.
      apply in_app_or in Hm0. apply in_or_app. destruct Hm0 as [Hm0|Hm0]; [left; apply in_or_app; left; exact Hm0|].
      apply in_app_or in Hm0. destruct Hm0 as [Hm0|Hm0]; [right; exact Hm0|left; apply in_or_app; right; exact Hm0]. }
    assert (Eacks : acks_of (enqueue_outputs (set_server y s') outs) slot = concat (l_ack (get_link y slot))).
    { unfold acks_of. rewrite Q2, Elack, (Hinb0 Hrunning). reflexivity. }
    constructor.
    - exact V0.
    - exact V1.
    - intros Hd. congruence.
    - intros _ _. rewrite Epend. apply (clio_muts slot _ _ _ (muts_of y slot c ++ sfo_newm slot fo)); [exact Hmsub|exact Hcli'].
    - intros _ _ rec' Hin Hs. rewrite Q2 in Hin. destruct (Hsrv' rec' Hin Hs) as (S1 & S2 & S3). rewrite Q2, Epend, Eacks.
      split; [|split; [exact S2|exact S3]].
      apply (srv_sloto_sub slot _ _ rec' c _ (muts_of y slot c ++ sfo_newm slot fo) (concat (l_ack (get_link y slot)))); [exact Hmsub|auto|exact S1].
  Qed.

  (* ---------- every step, every run ---------- *)

  Lemma wo_init : w_invo [] init.
  Proof.
    intros slot c Hc. cbn [sys_init y_clients] in Hc. apply al_get_map_const in Hc. subst c. constructor.
    - intros _. split; reflexivity.
    - intros _. split; reflexivity.
    - intros _. unfold acks_of, get_link. cbn [sys_init y_server server_init sv_inbox_acks y_links].
      destruct (al_get slot (map (fun i : N => (i, link_empty)) (map N.of_nat (seq 0 (N.to_nat nclients))))) as [l|] eqn:E; [|reflexivity].
      apply al_get_map_const in E. subst l. reflexivity.
    - cbn. discriminate.
    - cbn. discriminate.
  Qed.

  (* the hypotheses on the script *)
  Definition script_scopeo (script : list step) : Prop :=
    script_okf script = true /\ script_valso script = true /\ no_tick0 script = true /\ tick_frames script < 2 ^ 31 /\
    (forall slot, regs_of init script slot < 2 ^ 16) /\
    forall slot, In slot (client_slots nclients) -> refs_kept cfg0 nclients script slot.

  Lemma refs_kept_prefix_o a b slot : refs_kept cfg0 nclients (a ++ b) slot -> refs_kept cfg0 nclients a slot.
  Proof.
    intros H pre st post y0 E Hr. apply (H pre st (post ++ b) y0); [|exact Hr]. rewrite E, <- app_assoc. reflexivity.
  Qed.

  Lemma scopeo_prefix a b y : script_scopeo (a ++ b) -> run init a = Ok y -> script_scopeo a.
  Proof.
    intros (H1 & H2 & H3 & H4 & H5 & H6) Hr. rewrite script_valso_app in H2. apply andb_prop in H2.
    split; [exact (script_okf_app a b H1)|]. split; [tauto|]. split; [exact (no_tick0_prefix a b H3)|].
    split; [pose proof (tick_frames_app_le a b); lia|]. split.
    - intros slot. specialize (H5 slot). rewrite regs_of_app, Hr in H5. lia.
    - intros slot Hin. exact (refs_kept_prefix_o a b slot (H6 slot Hin)).
  Qed.

  (* a slot-independent way to establish the scope *)
  Lemma scopeo_by_bound script :
    script_okf script = true -> script_valso script = true -> no_tick0 script = true -> tick_frames script < 2 ^ 31 ->
    regs_all init script < 2 ^ 16 -> refs_keptb_all cfg0 nclients script = true -> script_scopeo script.
  Proof.
    intros H1 H2 H3 H4 H5 H6. split; [exact H1|]. split; [exact H2|]. split; [exact H3|]. split; [exact H4|].
    split; [|exact (refs_keptb_all_sound cfg0 nclients script H6)].
    intros slot. eapply N.le_lt_trans; [apply regs_of_le_all|exact H5].
  Qed.

  (* without references nothing is ever referenced: the scope of Properties/C02F.v is a special case *)
  Lemma refs_kept_valsu_o script slot : script_valsu script = true -> tick_frames script < 2 ^ 31 -> refs_kept cfg0 nclients script slot.
  Proof.
    intros Hv Hb pre st post y0 E Hr d _ t r s0 Hs (e & x1 & k & cc & Hvr & Hk & Hval).
    destruct (snaps_reached cfg0 nclients slot pre t r s0 Hs) as (pre' & post' & y1 & E' & R' & Es & _).
    assert (Hv' : script_valsu pre' = true).
    { rewrite E, E' in Hv. rewrite !script_valsu_app in Hv. apply andb_prop in Hv. destruct Hv as [Hv _]. apply andb_prop in Hv. exact (proj1 Hv). }
    assert (Hb' : tick_frames pre' < 2 ^ 31).
    { rewrite E, E' in Hb. pose proof (tick_frames_app_le (pre' ++ post') (st :: post)). pose proof (tick_frames_app_le pre' post'). lia. }
    pose proof (hv_ents _ _ _ _ (histv_run cfg0 nclients pre' y1 Hv' Hb' R')) as He. rewrite Es in He.
    pose proof (vrepl_ent slot s0 e x1 Hvr) as Hg. destruct (He e x1 Hg) as [_ Hall].
    destruct (Hall k cc (Server_proofs.al_get_In _ _ _ Hk)) as (_ & Hn & _). rewrite Hval in Hn. discriminate.
  Qed.

  Lemma scopev_scopeo script : script_scopev cfg0 nclients script -> script_scopeo script.
  Proof.
    intros (H1 & H2 & H3 & H4 & H5). split; [exact H1|]. split; [exact (script_valsr_valso _ (script_valsu_valsr script H2))|]. split; [exact H3|].
    split; [exact H4|]. split; [exact H5|]. intros slot _. exact (refs_kept_valsu_o script slot H2 H4).
  Qed.

  (* the scripts of Properties/C02G.v are in scope *)
  Lemma scoper_scopeo script : script_scoper cfg0 nclients script -> script_scopeo script.
  Proof.
    intros (H1 & H2 & H3 & H4 & H5 & H6). split; [exact H1|]. split; [exact (script_valsr_valso _ H2)|]. split; [exact H3|].
    split; [exact H4|]. split; [exact H5|exact H6].
  Qed.

  Theorem wo_run script : forall y, script_scopeo script -> run init script = Ok y -> w_invo script y.
  Proof.
    induction script as [|st t IH] using rev_ind; intros y Hsc H.
    - cbn in H. inversion H; subst. exact wo_init.
    - rewrite run_app in H. destruct (run init t) as [y1| |] eqn:E1; cbn [bind] in H; try discriminate.
      cbn [run] in H. destruct (sys_step y1 st) as [[y2 o]| |] eqn:E2; cbn [bind] in H; try discriminate. inversion H; subst y. clear H.
      pose proof (scopeo_prefix t [st] y1 Hsc E1) as Hsc1. pose proof (IH y1 Hsc1 eq_refl) as Hinv1.
      destruct Hsc as (K1 & K2 & K3 & K4 & K5 & K6). destruct Hsc1 as (J1 & J2 & J3 & J4 & J5 & J6).
      assert (Hrun2 : run init (t ++ [st]) = Ok y2) by (rewrite run_app, E1; cbn [bind run]; rewrite E2; reflexivity).
      destruct (run_erun_s t init [] y1 E1) as [gs1 Eg1].
      pose proof (f_run cfg0 nclients t y1 gs1 J1 J4 Eg1) as Hf1.
      pose proof (histo_run cfg0 nclients t y1 J2 J4 E1) as Hh1.
      pose proof (histo_run cfg0 nclients (t ++ [st]) y2 K2 K4 Hrun2) as Hh2.
      destruct (script_okf_last t st K1) as (HL & HS & HSS).
      assert (Hv : step_valso st = true).
      { rewrite script_valso_app in K2. apply andb_prop in K2. destruct K2 as [_ K2]. unfold script_valso in K2. cbn [forallb] in K2. rewrite andb_true_r in K2. exact K2. }
      destruct st as [| |slot max|slot|slot|tick dt cleanup ops parts|slot ops|slot s2c ch w|slot s2c ch w].
      + cbn [sys_step] in E2. inversion E2; subst y2 o. exact (wo_start t y1 E1 Hinv1).
      + exact (wo_stop t y1 y2 o E1 Hinv1 E2).
      + exact (wo_connect t y1 gs1 slot max y2 o E1 Hf1 Hinv1 HSS E2).
      + cbn [sys_step] in E2. inversion E2; subst y2 o. exact (wo_authorize t y1 slot E1 (fi_cfg _ _ _ _ _ Hf1) Hinv1).
      + exact (wo_disconnect t y1 slot y2 o E1 Hinv1 E2).
      + exact (wo_sframe t y1 gs1 tick dt cleanup ops parts y2 o E1 Hf1 Eg1 J1 Hh1 Hh2 K3 HS Hv K5 K4 K6 Hinv1 E2).
      + exact (wo_cframe t y1 gs1 slot ops y2 o E1 Hf1 Hh1 Hinv1 E2).
      + exact (wo_transport t (StDeliver slot s2c ch w) y1 y2 o eq_refl HL E1 Hinv1 E2).
      + exact (wo_transport t (StDrop slot s2c ch w) y1 y2 o eq_refl HL E1 Hinv1 E2).
  Qed.

  (* ================================================================ *)
  (* T: the confirmed tick of an entity is truthful (values)          *)
  (* ================================================================ *)

  (* for the kinds other than 2: the values of the snapshot of the confirmed tick; for kind 2 (`Once`): the value that
     the same instance of the component (same `c_added`: never removed and inserted again in between) had in a prefix
     state of the current session, with tick <= the confirmed tick, in which the entity was visible to the slot *)
  Theorem e2eo_truthful script y slot c e cid x h :
    script_scopeo script -> run init script = Ok y ->
    al_get slot (y_clients y) = Some c -> mode_of script slot = MLive -> cl_status c = Connected ->
    al_get e (cl_s2c c) = Some cid -> get_cent c cid = Some x -> ce_alive x = true -> ce_marker x = true -> ce_hist x = Some h ->
    exists pre post y1 cl1 x1, script = pre ++ post /\ run init pre = Ok y1 /\
      forallb (fun st => negb (ends_session slot st)) post = true /\
      sv_tick (y_server y1) = h_last h /\
      find_client (y_server y1) slot = Some cl1 /\ vis_visible (sc_vis cl1) e = true /\
      al_get e (struct_vis (y_server y1) cl1) = Some (map fst (se_comps x1)) /\
      repl_get (y_server y1) e = Some x1 /\
      kinds_equiv (map fst (ce_comps x)) (map fst (se_comps x1)) /\
      (forall k cv c0, k <> 2 -> al_get k (ce_comps x) = Some cv -> al_get k (se_comps x1) = Some c0 -> vrel c (c_val c0) cv) /\
      (forall cv c0, al_get 2 (ce_comps x) = Some cv -> al_get 2 (se_comps x1) = Some c0 ->
         exists pre0 post0 y0 x0 c00, script = pre0 ++ post0 /\ run init pre0 = Ok y0 /\
           forallb (fun st => negb (ends_session slot st)) post0 = true /\
           sv_tick (y_server y0) <= h_last h /\ sv_last_run (y_server y0) <= sv_last_run (y_server y1) /\
           vrepl slot (y_server y0) e = Some x0 /\ al_get 2 (se_comps x0) = Some c00 /\
           c_added c00 = c_added c0 /\ vrel c (c_val c00) cv).
  Proof.
    intros Hsc Hrun Hc Hm Hst He Hx Ha Hmk Hh. pose proof Hsc as (K1 & K2 & K3 & K4 & K5 & K6).
    pose proof (wo_run script y Hsc Hrun slot c Hc) as [_ _ _ V3 _]. specialize (V3 Hm Hst).
    assert (Hhas : has c e x h) by (split; [unfold centof; rewrite He; exact Hx|auto]).
    destruct (co_T _ _ _ _ _ V3 e x h Hhas) as (r & s1 & x1 & Hsn & Hx1 & Hag & Hk).
    pose proof (histo_run cfg0 nclients script y K2 K4 Hrun) as Hh0.
    destruct (snaps_factso cfg0 nclients slot script _ Hh0) as (SNinj & _ & _ & SNwf).
    pose proof (vstruct_get slot s1 e (SNwf _ _ _ Hsn)) as Hvs. rewrite Hx1 in Hvs. cbn [option_map] in Hvs.
    destruct (snaps_reached cfg0 nclients slot script _ _ _ Hsn) as (pre & post & y1 & E & R & Es & Et & Er & Hp).
    subst s1. pose proof Hx1 as Hx1'. unfold vrepl in Hx1. unfold vstruct in Hvs. destruct (find_client (y_server y1) slot) as [cl1|] eqn:Ef; [|discriminate].
    destruct (vis_visible (sc_vis cl1) e) eqn:Ev; [|discriminate].
    exists pre, post, y1, cl1, x1. split; [exact E|]. split; [exact R|]. split; [exact Hp|]. split; [exact Et|]. split; [exact Ef|].
    split; [exact Ev|]. split; [exact Hvs|]. split; [exact Hx1|]. split; [exact Hk|]. split.
    - intros k cv c0 Hk2 Hcv Hc0. pose proof (Hag k cv c0 Hcv Hc0) as G. replace (k =? 2) with false in G by lia. exact G.
    - intros cv c0 Hcv Hc0. pose proof (Hag 2 cv c0 Hcv Hc0) as G. rewrite N.eqb_refl in G.
      destruct G as (t0 & r0 & s0 & x0 & c00 & G1 & G2 & G3 & G4 & G5 & G6).
      destruct (snaps_reached cfg0 nclients slot script _ _ _ G1) as (pre0 & post0 & y0 & E0 & R0 & Es0 & Et0 & Er0 & Hp0).
      subst s0. exists pre0, post0, y0, x0, c00. split; [exact E0|]. split; [exact R0|]. split; [exact Hp0|]. split.
      + rewrite Et0, <- Et. destruct (SNinj _ _ _ _ _ _ G1 Hsn) as [I1 I2]. destruct (N.eq_dec r0 r) as [Er'|Hne]; [destruct (I1 Er'); lia|].
        assert (Hlt : r0 < r) by lia. pose proof (I2 Hlt). lia.
      + split; [rewrite Er0, Er; exact G2|]. auto.
  Qed.

  (* the kinds other than 2, as a pointwise statement on the two finite maps kind -> value; for kind 2: the client holds
     it exactly when the entity has it *)
  Corollary e2eo_truthful_exact script y slot c e cid x h :
    script_scopeo script -> run init script = Ok y ->
    al_get slot (y_clients y) = Some c -> mode_of script slot = MLive -> cl_status c = Connected ->
    al_get e (cl_s2c c) = Some cid -> get_cent c cid = Some x -> ce_alive x = true -> ce_marker x = true -> ce_hist x = Some h ->
    exists pre post y1, script = pre ++ post /\ run init pre = Ok y1 /\
      forallb (fun st => negb (ends_session slot st)) post = true /\ sv_tick (y_server y1) = h_last h /\
      vrepl slot (y_server y1) e <> None /\
      (forall k, k <> 2 -> opt_vrel c (sviewv slot (y_server y1) e k) (al_get k (ce_comps x))) /\
      (al_get 2 (ce_comps x) <> None <-> sviewv slot (y_server y1) e 2 <> None).
  Proof.
    intros Hsc Hrun Hc Hm Hst He Hx Ha Hmk Hh.
    destruct (e2eo_truthful script y slot c e cid x h Hsc Hrun Hc Hm Hst He Hx Ha Hmk Hh) as (pre & post & y1 & cl1 & x1 & E & R & Hp & Et & Ef & Ev & _ & Hr & Hk & Hag & _).
    exists pre, post, y1. split; [exact E|]. split; [exact R|]. split; [exact Hp|]. split; [exact Et|].
    assert (Hv : vrepl slot (y_server y1) e = Some x1) by (unfold vrepl; rewrite Ef, Ev; exact Hr).
    split; [rewrite Hv; discriminate|]. split.
    - intros k Hk2. unfold sviewv. rewrite Hv.
      specialize (Hk k). rewrite !mem_keys_get in Hk.
      destruct (al_get k (ce_comps x)) as [cv|] eqn:Ec; destruct (al_get k (se_comps x1)) as [cc|] eqn:Es; cbn [option_map opt_vrel]; try discriminate; [|exact I].
      exact (Hag k cv cc Hk2 Ec Es).
    - unfold sviewv. rewrite Hv. specialize (Hk 2). rewrite !mem_keys_get in Hk.
      destruct (al_get 2 (ce_comps x)); destruct (al_get 2 (se_comps x1)); cbn [option_map]; try discriminate; split; congruence.
  Qed.

  (* references under the kinds other than 2 (as `e2er_truthful_ref`) *)
  Corollary e2eo_truthful_ref script y slot c e cid x h :
    script_scopeo script -> run init script = Ok y ->
    al_get slot (y_clients y) = Some c -> mode_of script slot = MLive -> cl_status c = Connected ->
    al_get e (cl_s2c c) = Some cid -> get_cent c cid = Some x -> ce_alive x = true -> ce_marker x = true -> ce_hist x = Some h ->
    exists pre post y1, script = pre ++ post /\ run init pre = Ok y1 /\
      forallb (fun st => negb (ends_session slot st)) post = true /\ sv_tick (y_server y1) = h_last h /\
      (forall k rcid, k <> 2 -> al_get k (ce_comps x) = Some (CRef rcid) ->
         exists t xt, sviewv slot (y_server y1) e k = Some (VRef t) /\ al_get rcid (cl_c2s c) = Some t /\
                      al_get t (cl_s2c c) = Some rcid /\ get_cent c rcid = Some xt /\ ce_alive xt = true) /\
      (forall k t, k <> 2 -> sviewv slot (y_server y1) e k = Some (VRef t) ->
         exists rcid, al_get k (ce_comps x) = Some (CRef rcid) /\ al_get rcid (cl_c2s c) = Some t).
  Proof.
    intros Hsc Hrun Hc Hm Hst He Hx Ha Hmk Hh.
    destruct (e2eo_truthful_exact script y slot c e cid x h Hsc Hrun Hc Hm Hst He Hx Ha Hmk Hh) as (pre & post & y1 & E & R & Hp & Et & _ & Hv & _).
    pose proof (wo_run script y Hsc Hrun slot c Hc) as [_ _ _ V3 _]. specialize (V3 Hm Hst). pose proof (co_cs _ _ _ _ _ V3) as Hcs.
    exists pre, post, y1. split; [exact E|]. split; [exact R|]. split; [exact Hp|]. split; [exact Et|]. split.
    - intros k rcid Hk2 Hk. specialize (Hv k Hk2). rewrite Hk in Hv. unfold opt_vrel in Hv.
      destruct (sviewv slot (y_server y1) e k) as [[n|t]|]; cbn [vrel] in Hv; try contradiction.
      pose proof (proj2 (s2c_c2s c t rcid (ci_emap c Hcs)) Hv) as Hs. destruct (ci_mapped c Hcs t rcid Hs) as [xt [Hxt Hat]].
      exists t, xt. auto 6.
    - intros k t Hk2 Hk. specialize (Hv k Hk2). rewrite Hk in Hv. unfold opt_vrel in Hv.
      destruct (al_get k (ce_comps x)) as [[n|rcid]|]; cbn [vrel] in Hv; try contradiction. exists rcid. auto.
  Qed.

  (* ================================================================ *)
  (* K: an acknowledged stamp is backed by the client                 *)
  (* ================================================================ *)

  (* an entity that appears while update messages are applied is mentioned by one of them *)
  Lemma fold_apply_someo pend : forall S e, al_get e S = None -> al_get e (fold_left abs_apply pend S) <> None ->
    exists u, In u pend /\ mentions u e.
  Proof.
    induction pend as [|u t IH]; intros S e H0 Hn; cbn [fold_left] in Hn; [congruence|].
    destruct (touched u e) eqn:Et; [exists u; split; [left; reflexivity|apply touched_mentions; exact Et]|].
    assert (Hnm : ~ mentions u e) by (intros Hm; apply touched_mentions in Hm; congruence).
    destruct (IH (abs_apply S u) e (abs_apply_none S u e H0 Hnm) Hn) as (u0 & Hu0 & Hm0). exists u0. split; [right; exact Hu0|exact Hm0].
  Qed.

  Theorem e2eo_ack_sound script y slot c cl e a :
    script_scopeo script -> run init script = Ok y ->
    al_get slot (y_clients y) = Some c -> mode_of script slot = MLive -> cl_status c = Connected ->
    In cl (sv_clients (y_server y)) -> sc_slot cl = slot -> mutation_tick (sc_ticks cl) e = Some a ->
    exists pre post y1, script = pre ++ post /\ run init pre = Ok y1 /\
      forallb (fun st => negb (ends_session slot st)) post = true /\ sv_last_run (y_server y1) = a /\
      ((exists u, In u (cl_inbox_upd c ++ l_upd (get_link y slot)) /\ mentions u e /\ sv_tick (y_server y1) <= u_tick u) \/
       (exists x h, has c e x h /\ sv_tick (y_server y1) <= h_last h)).
  Proof.
    intros Hsc Hrun Hc Hm Hst Hin Hs Hmt. pose proof Hsc as (K1 & K2 & K3 & K4 & K5 & K6).
    pose proof (wo_run script y Hsc Hrun slot c Hc) as [_ _ _ V3 V4]. specialize (V3 Hm Hst). destruct (V4 Hm Hst cl Hin Hs) as (S1 & _ & S3 & _).
    destruct (sr_K _ _ _ _ _ _ _ _ S1 e a Hmt) as (t_a & s_a & Hsn & Hcg).
    destruct (snaps_reached cfg0 nclients slot script _ _ _ Hsn) as (pre & post & y1 & E & R & Es & Et & Er & Hp).
    exists pre, post, y1. subst s_a. split; [exact E|]. split; [exact R|]. split; [exact Hp|]. split; [exact Er|]. rewrite Et.
    destruct Hcg as [(u & Hu & _ & Hmn & Hle)|[Hh|(Hnone & Hno)]]; [left; exists u; auto|right; exact Hh|].
    (* unknown to the client: then an update message on its way mentions it *)
    left. destruct (run_erun_s script init [] y Hrun) as [gs Eg].
    pose proof (f_run cfg0 nclients script y gs K1 K4 Eg) as Hf. pose proof (fi_ginv _ _ _ _ _ Hf) as Hg.
    assert (Hau : sc_authorized cl = true).
    { destruct (sc_authorized cl) eqn:Ea; [reflexivity|]. rewrite (S3 eq_refl) in Hmt. discriminate. }
    destruct (gv_clients _ Hg cl Hin Hau) as [Hpv _]. cbn [g_srv g_sent] in Hpv. rewrite Hs in Hpv.
    pose proof (f_in_flight cfg0 nclients script y gs slot c K1 K4 Eg Hc Hm Hst e) as Hfl.
    pose proof (co_cs _ _ _ _ _ V3) as Hcs.
    assert (Hcs0 : al_get e (client_struct c) = None).
    { rewrite (al_get_client_struct c e (cs_inv_nodup c Hcs)). unfold cs_get.
      destruct (al_get e (cl_s2c c)) as [cid0|] eqn:Es2; [|reflexivity].
      destruct (co_mo _ _ _ _ _ V3 e cid0 Es2) as [(x0 & h0 & Hh0)|(x0 & Hx0 & Hm0)]; [exfalso; exact (Hnone _ _ Hh0)|].
      unfold centof in Hx0. rewrite Es2 in Hx0. rewrite Hx0, Hm0, andb_false_r. reflexivity. }
    assert (Hk : al_get e (sent_of slot gs) <> None) by (apply (pk_known _ _ _ (pv_pending _ _ _ Hpv) e); rewrite Hmt; discriminate).
    assert (Hfn : al_get e (fold_left abs_apply (cl_inbox_upd c ++ l_upd (get_link y slot)) (client_struct c)) <> None).
    { intros Hn0. rewrite Hn0 in Hfl. destruct (al_get e (sent_of slot gs)); [destruct Hfl|congruence]. }
    destruct (fold_apply_someo _ _ e Hcs0 Hfn) as (u & Hu & Hmn). exists u. split; [exact Hu|]. split; [exact Hmn|exact (Hno u Hu Hmn)].
  Qed.

  (* ================================================================ *)
  (* Q: convergence                                                   *)
  (* ================================================================ *)

  (* a server that has nothing pending for a client has sent it exactly what is visible to it now *)
  Lemma quiescent_synced_o s cl S :
    ents_wf s -> pending_ok_v s cl S -> sv_despawn_buf s = [] -> sv_removal_buf s = [] -> sv_removed_events s = [] ->
    vis_settled (sc_vis cl) ->
    (forall e x madd, In (e, x, madd) (replicated_ents s) ->
       vis_state_of (sc_vis cl) e = VHidden \/
       (vis_state_of (sc_vis cl) e = VVisible /\ ent_settled_o (sv_last_run s) (sc_ticks cl) e x madd)) ->
    struct_equiv S (struct_vis s cl).
  Proof.
    intros Hwf [[Hk Hg Hl Hn] Hvo] Hd Hr He Hvs Hset e. unfold struct_vis. rewrite al_get_vis_filter, (al_get_struct_of s e Hwf).
    assert (Hnd : ~ In e (sv_despawn_buf s)) by (rewrite Hd; intros []).
    destruct (al_get e S) as [ks|] eqn:ES.
    - (* the client has been sent e: it is replicated, visible and settled *)
      assert (Hne : al_get e S <> None) by (rewrite ES; discriminate).
      destruct (repl_get s e) as [x|] eqn:ER; [|exfalso; pose proof (Hg e Hne ER) as Hin; rewrite Hd in Hin; destruct Hin].
      destruct (proj1 (repl_get_spec s e x Hwf) ER) as [madd Hin].
      assert (Hvv : vis_state_of (sc_vis cl) e = VVisible /\ ent_settled_o (sv_last_run s) (sc_ticks cl) e x madd).
      { destruct (Hset e x madd Hin) as [Hh|Hv]; [|exact Hv]. exfalso.
        destruct (sc_vis cl) as [v|] eqn:Ev; [|discriminate]. destruct Hvo as [_ Hprev]. cbn [vis_state_of] in Hh.
        pose proof (Hprev e Hne) as Hp. unfold v_prev in Hp. rewrite Hh in Hp. unfold lost_in in Hp.
        destruct Hvs as [Ha Hrm]. rewrite Ha, Hrm in Hp. destruct (is_whitelist v); discriminate. }
      destruct Hvv as [Hvis (t0 & _ & _ & Hall)].
      assert (Hv : vis_visible (sc_vis cl) e = true) by (apply vis_visible_state; rewrite Hvis; discriminate).
      rewrite Hv. cbn [option_map]. apply kinds_equiv_iff. intros k. split.
      + intros Hm. destruct (in_dec N.eq_dec k (map fst (se_comps x))) as [Hi|Hni]; [exact Hi|]. exfalso.
        destruct (Hl e ks x ES ER Hnd k Hm Hni) as [(ks0 & Hb & _)|(a & Hev)]; [rewrite Hr in Hb; discriminate|rewrite He in Hev; destruct Hev].
      + intros Hi. destruct (mem_N k ks) eqn:Em; [reflexivity|]. exfalso. apply in_map_iff in Hi. destruct Hi as [[k0 cc] [E Hkc]]. cbn in E. subst k0.
        pose proof (Hn e ks x ES ER Hnd k cc Hkc Em). destruct (Hall k cc Hkc). lia.
    - destruct (vis_visible (sc_vis cl) e) eqn:Hv; [|exact I]. destruct (repl_get s e) as [x|] eqn:ER; cbn [option_map]; [|exact I].
      destruct (proj1 (repl_get_spec s e x Hwf) ER) as [madd Hin].
      destruct (Hset e x madd Hin) as [Hh|[_ (t0 & Hmt & _)]].
      + apply vis_visible_state in Hv. contradiction.
      + apply (proj1 (Hk e)); [rewrite Hmt; discriminate|exact ES].
  Qed.

  (* what the server knows about the instances a client holds *)
  Theorem e2eo_once_known script y slot c cl :
    script_scopeo script -> run init script = Ok y ->
    al_get slot (y_clients y) = Some c -> mode_of script slot = MLive -> cl_status c = Connected ->
    In cl (sv_clients (y_server y)) -> sc_slot cl = slot ->
    forall e a x k cc, mutation_tick (sc_ticks cl) e = Some a -> get_ent (y_server y) e = Some x -> al_get k (se_comps x) = Some cc ->
      c_added cc <= sv_last_run (y_server y) -> c_added cc <= a.
  Proof.
    intros Hsc Hrun Hc Hm Hst Hin Hs. pose proof (wo_run script y Hsc Hrun slot c Hc) as [_ _ _ _ V4].
    destruct (V4 Hm Hst cl Hin Hs) as (_ & _ & _ & K). exact K.
  Qed.

  (* the premise of C02G's Q implies the one used here *)
  Lemma quiescent_for_weaken s cl : quiescent_for s cl -> quiescent_for_o s cl.
  Proof.
    intros (A & B & C & D & E). split; [exact A|]. split; [exact B|]. split; [exact C|]. split; [exact D|].
    intros e x madd Hin. destruct (E e x madd Hin) as [H|[H (t & T1 & T2 & T3)]]; [left; exact H|right]. split; [exact H|].
    exists t. split; [exact T1|]. split; [exact T2|]. intros k comp Hk. destruct (T3 k comp Hk) as [P Q]. split; [intros _; exact P|exact Q].
  Qed.

  Theorem e2eo_converged script y slot c cl :
    script_scopeo script -> run init script = Ok y ->
    al_get slot (y_clients y) = Some c -> mode_of script slot = MLive -> cl_status c = Connected ->
    In cl (sv_clients (y_server y)) -> sc_slot cl = slot -> sc_authorized cl = true ->
    (* no update message on its way *)
    l_upd (get_link y slot) = [] -> cl_inbox_upd c = [] ->
    (* the server has nothing pending for the client *)
    quiescent_for_o (y_server y) cl -> sv_removed_events (y_server y) = [] ->
    struct_equiv (client_struct c) (struct_vis (y_server y) cl) /\
    forall e k, kind_et k = true -> view_agrees c slot (y_server y) e k.
  Proof.
    intros Hsc Hrun Hc Hm Hst Hin Hs Hau Hl Hi (Hpm & Hdb & Hrb & Hvs & Hq) Hev.
    pose proof Hsc as (K1 & K2 & K3 & K4 & K5 & K6). set (s := y_server y) in *.
    destruct (run_erun_s script init [] y Hrun) as [gs Eg].
    pose proof (f_run cfg0 nclients script y gs K1 K4 Eg) as Hf. pose proof (fi_ginv _ _ _ _ _ Hf) as Hg.
    pose proof (histo_run cfg0 nclients script y K2 K4 Hrun) as Hh. fold s in Hh.
    pose proof (wo_run script y Hsc Hrun slot c Hc) as [_ _ _ V3 V4]. specialize (V3 Hm Hst). destruct (V4 Hm Hst cl Hin Hs) as (S1 & _).
    unfold pend_of in V3, S1. rewrite Hl, Hi in V3, S1. cbn [app] in V3, S1.
    pose proof (ho_wf _ _ _ _ Hh) as Hwf.
    assert (Hfind : find_client s slot = Some cl) by (rewrite <- Hs; apply find_client_of_in; [exact (gv_slots _ Hg)|exact Hin]).
    (* structure *)
    assert (Hstruct : struct_equiv (client_struct c) (struct_vis s cl)).
    { apply (struct_equiv_trans _ (sent_of slot gs)).
      - exact (f_synced cfg0 nclients script y gs slot c K1 K4 Eg Hc Hm Hst Hi Hl).
      - destruct (gv_clients _ Hg cl Hin Hau) as [Hp _]. cbn [g_srv g_sent] in Hp. rewrite Hs in Hp.
        exact (quiescent_synced_o s cl _ Hwf Hp Hdb Hrb Hev Hvs Hq). }
    split; [exact Hstruct|].
    pose proof (co_cs _ _ _ _ _ V3) as Hcs. pose proof (co_mo _ _ _ _ _ V3) as Hmo.
    destruct (snaps_factso cfg0 nclients slot script s Hh) as (SNinj & SNkeep & SNsmall & SNwf).
    intros e k Hket. unfold view_agrees, cview, sviewv, vrepl. rewrite Hfind.
    pose proof (Hstruct e) as He. rewrite (al_get_client_struct c e (cs_inv_nodup c Hcs)) in He.
    unfold struct_vis in He. rewrite al_get_vis_filter, (al_get_struct_of s e Hwf) in He.
    unfold cs_get in He. unfold centof.
    destruct (vis_visible (sc_vis cl) e) eqn:Evis.
    2:{ destruct (al_get e (cl_s2c c)) as [cid|]; [|exact I]. destruct (get_cent c cid) as [xc|]; [|exact I].
        destruct (ce_alive xc && ce_marker xc); [destruct He|exact I]. }
    destruct (repl_get s e) as [x|] eqn:Er; cbn [option_map] in He |- *.
    2:{ destruct (al_get e (cl_s2c c)) as [cid|]; [|exact I]. destruct (get_cent c cid) as [xc|]; [|exact I].
        destruct (ce_alive xc && ce_marker xc); [destruct He|exact I]. }
    destruct (al_get e (cl_s2c c)) as [cid|] eqn:Ee; [|destruct He]. destruct (get_cent c cid) as [xc|] eqn:Ex; [|destruct He].
    destruct (ce_alive xc && ce_marker xc) eqn:Eam; [|destruct He].
    (* the acknowledged stamp of the entity covers all its components *)
    destruct (proj1 (repl_get_spec s e x Hwf) Er) as [madd Hr].
    assert (Hset : ent_settled_o (sv_last_run s) (sc_ticks cl) e x madd).
    { destruct (Hq e x madd Hr) as [Hh0|[_ Hh0]]; [|exact Hh0]. exfalso. apply vis_visible_state in Evis. contradiction. }
    destruct Hset as (t0 & Hmt & _ & Hall).
    destruct (sr_K _ _ _ _ _ _ _ _ S1 e t0 Hmt) as (t_a & s_a & Hsa & Hcg).
    destruct (Hmo e cid Ee) as [(xc' & h & Hhas)|(xc' & Hxc' & Hmk')].
    2:{ exfalso. unfold centof in Hxc'. rewrite Ee, Ex in Hxc'. inversion Hxc'; subst xc'. rewrite Hmk', andb_false_r in Eam. discriminate. }
    assert (xc' = xc) by (destruct Hhas as [Hc0 _]; unfold centof in Hc0; rewrite Ee in Hc0; congruence). subst xc'.
    assert (Hconf : t_a <= h_last h).
    { destruct Hcg as [(u & [] & _)|[(x1 & h1 & Hh1 & Hle)|(Hn0 & _)]].
      - destruct (has_fun c e xc h x1 h1 Hhas Hh1) as [-> ->]. exact Hle.
      - exfalso. exact (Hn0 _ _ Hhas). }
    destruct (co_T _ _ _ _ _ V3 e xc h Hhas) as (r0 & s0 & x0 & Hs0 & Hx0r & Hag & _). pose proof (vrepl_ent slot s0 e x0 Hx0r) as Hx0.
    assert (Hr0 : t0 <= r0).
    { exact (SN_le (SNof slot script) SNinj (fun t1 r1 s1 t2 r2 s2 H1 H2 Hle => proj1 (SNkeep t1 r1 s1 t2 r2 s2 H1 H2 Hle)) SNsmall SNwf _ _ _ _ _ _ Hsa Hs0 Hconf). }
    pose proof (ho_keep _ _ _ _ Hh _ _ _ (su_snap _ _ _ _ _ _ _ Hs0)) as Hkeep.
    assert (Hxg : get_ent s e = Some x) by exact (repl_get_ent s e x Er).
    destruct (al_get k (se_comps x)) as [cc|] eqn:Ek; cbn [option_map].
    - assert (Hkin : In (k, cc) (se_comps x)) by exact (Server_proofs.al_get_In _ _ _ Ek).
      destruct (proj1 Hkeep e x k cc Hxg Ek) as [x0' [Hx0' Hk0]]; [pose proof (proj1 (Hall k cc Hkin) Hket); lia|]. assert (x0' = x0) by congruence. subst x0'.
      assert (Hmem : mem_N k (map fst (ce_comps xc)) = true).
      { rewrite (He k). apply mem_N_In. apply in_map_iff. exists (k, cc). auto. }
      apply mem_N_In in Hmem. apply al_get_keys_iff in Hmem. destruct (al_get k (ce_comps xc)) as [cv|] eqn:Ecv; [|congruence].
      pose proof (Hag k cv cc Ecv Hk0) as G. replace (k =? 2) with false in G by (unfold kind_et in Hket; lia). exact G.
    - destruct (al_get k (ce_comps xc)) as [cv|] eqn:Ecv; [|exact I]. exfalso.
      assert (Hmem : mem_N k (map fst (ce_comps xc)) = true) by (apply mem_N_In; apply al_get_keys_iff; rewrite Ecv; discriminate).
      rewrite (He k) in Hmem. apply mem_N_In in Hmem. apply al_get_keys_iff in Hmem. congruence.
  Qed.

  (* ================================================================ *)
  (* single-session scripts: a connected client is live               *)
  (* ================================================================ *)

  Lemma connected_liveo script y slot c :
    script_okf script = true -> tick_frames script < 2 ^ 31 -> run init script = Ok y ->
    al_get slot (y_clients y) = Some c -> cl_status c = Connected ->
    mode_of script slot = MClean \/ mode_of script slot = MLive -> mode_of script slot = MLive.
  Proof.
    intros Hok Hb Hrun Hc Hst [Hm|Hm]; [|exact Hm]. exfalso.
    destruct (run_erun_s script init [] y Hrun) as [gs Eg].
    pose proof (f_run cfg0 nclients script y gs Hok Hb Eg) as Hf.
    destruct (f_disconnectedo script y gs slot c Hf Hc) as (_ & _ & D1 & _). rewrite (D1 (or_introl Hm)) in Hst. discriminate.
  Qed.

  Lemma okm_liveo script y slot c :
    script_okm script = true -> tick_frames script < 2 ^ 31 -> run init script = Ok y ->
    al_get slot (y_clients y) = Some c -> cl_status c = Connected -> mode_of script slot = MLive.
  Proof.
    intros Hok Hb Hrun Hc Hst. destruct (okm_okf script Hok) as [Hf Hmodes].
    exact (connected_liveo script y slot c Hf Hb Hrun Hc Hst (Hmodes slot)).
  Qed.

  Theorem no_tick0_runo script y t r s1 :
    script_valso script = true -> tick_frames script < 2 ^ 31 -> no_tick0 script = true ->
    run init script = Ok y -> snap cfg0 nclients script t r s1 -> 1 <= t \/ sv_clients s1 = [].
  Proof. intros Hv Hb Hn Hrun Hs. exact (t0_poso script (y_server y) t r s1 (histo_run cfg0 nclients script y Hv Hb Hrun) Hn Hs). Qed.
End E2ER.
