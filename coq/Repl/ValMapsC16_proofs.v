(* C16 over whole-system runs: a pre-spawn mapping that is applied makes the server entity land on the client's pre-spawned
   entity, and it STAYS there for the rest of the session as long as no despawn record for the entity reaches the client
   (section 3); the truthfulness theorem (T, Repl/ValMapsE2E_proofs.v) then speaks about that entity.  A dead pre-spawned
   entity is replaced by a fresh one (section 4).
     adopted_c c e pc cid    server entity [e] is mapped to client entity [cid], which was pre-spawned under [pc]
   Client level: sections 1, 2 (one message, one frame; no invariant of runs needed beyond the table invariants). *)
From RV Require Import Lib.Res Repl.ClientTicks Repl.ClientTicks_proofs Repl.World Vis.Visibility
  Tick.RepliconTick Tick.RepliconTick_proofs Tick.ConfirmHistory Tick.MutateTicks
  Repl.Server Repl.ServerSpec Repl.Server_proofs Repl.StructSpec Repl.Struct_proofs
  Repl.StructVisSpec Repl.StructVis_proofs
  Repl.Client Repl.Sys Repl.Client_proofs Repl.ClientEnt_proofs Repl.ClientMut_proofs Repl.ClientSys_proofs
  Repl.ClientStructSpec Repl.ClientStruct_proofs Repl.ClientHist_proofs Repl.ClientMaps_proofs Repl.ClientHistMaps_proofs
  Repl.StructE2E_proofs Repl.StructE2EMut_proofs Repl.StructE2EVis_proofs Repl.StructE2ESess_proofs Repl.StructE2EMaps_proofs
  Repl.ValSpec Repl.ValClient_proofs Repl.ValCli_proofs Repl.ValE2E_proofs Repl.ValVisSpec Repl.ValVisE2E_proofs
  Repl.ValRefSpec Repl.ValRefClient_proofs Repl.ValRefE2E_proofs
  Repl.ValMapsSpec Repl.ValMapsNorm_proofs Repl.ValMapsCli_proofs Repl.ValMapsE2E_proofs.
From Coq Require Import ZifyBool ZifyN.
Open Scope N_scope.
Ltac Zify.zify_post_hook ::= Z.div_mod_to_equations.
Arguments N.add : simpl never. Arguments N.mul : simpl never. Arguments N.pow : simpl never.
Arguments N.ltb : simpl never. Arguments N.leb : simpl never. Arguments N.div : simpl never.
Arguments N.modulo : simpl never. Arguments N.sub : simpl never. Arguments N.eqb : simpl never.

(* ================================================================== *)
(* 1. what keeps a map entry and a pre-spawn id                       *)
(* ================================================================== *)

Definition adopted_c (c : client) (e pc cid : N) : Prop := al_get e (cl_s2c c) = Some cid /\ pre_ent c pc cid.

(* the server-to-client map only grows *)
Definition sgrow (c c' : client) : Prop := forall e cid, al_get e (cl_s2c c) = Some cid -> al_get e (cl_s2c c') = Some cid.

Lemma sgrow_refl c : sgrow c c.
Proof. intros e cid H. exact H. Qed.
Lemma sgrow_trans a b c : sgrow a b -> sgrow b c -> sgrow a c.
Proof. intros H1 H2 e cid H. apply H2, H1, H. Qed.
Lemma sgrow_same c c' : cl_s2c c' = cl_s2c c -> sgrow c c'.
Proof. intros E e cid H. rewrite E. exact H. Qed.

Lemma sgrow_map_value c v : sgrow c (fst (map_value c v)).
Proof.
  destruct v as [n|t]; cbn [map_value fst]; [apply sgrow_refl|]. destruct (al_get t (cl_s2c c)) eqn:Et; cbn [fst]; [apply sgrow_refl|].
  intros e cid He. cbn [spawn_cent emap_vacant_insert set_maps cl_s2c fst]. rewrite al_get_insert_other; [exact He|]. intros ->. congruence.
Qed.

Lemma sgrow_write_comps comps : forall c cid, sgrow c (write_comps c cid comps).
Proof.
  unfold write_comps. induction comps as [|kv t IH]; intros c cid; cbn [fold_left]; [apply sgrow_refl|].
  pose proof (sgrow_map_value c (snd kv)) as G. destruct (map_value c (snd kv)) as [c1 cv]. cbn [fst] in G.
  destruct (get_cent c1 cid) as [x|]; (eapply sgrow_trans; [exact G|]); [|apply IH].
  eapply sgrow_trans; [|apply IH]. apply sgrow_same. reflexivity.
Qed.

Lemma sgrow_mutations c T e comps r : apply_mutations c T e comps = Ok r -> sgrow c (sr_client r).
Proof.
  unfold apply_mutations. destruct (al_get e (cl_s2c c)) as [cid|]; [|intros E; inversion E; apply sgrow_refl].
  destruct (get_cent c cid) as [x|]; [|intros E; inversion E; apply sgrow_refl]. destruct (ce_alive x); cbn [negb]; [|intros E; inversion E; apply sgrow_refl].
  destruct (ce_hist x) as [h|]; [|intros E; inversion E; apply sgrow_refl]. destruct (tick_gtb T (h_last h)); [|intros E; inversion E; apply sgrow_refl].
  intros E. apply bind_ok in E. destruct E as [h' [_ E]]. inversion E; subst r. cbn [sr_client].
  eapply sgrow_trans; [|apply sgrow_write_comps]. apply sgrow_same. reflexivity.
Qed.

Lemma sgrow_mutate_messages c c' out : apply_mutate_messages c = Ok (c', out) -> sgrow c c'.
Proof.
  apply (mutate_messages_rel sgrow sgrow_refl sgrow_trans).
  - intros c0 tick s comps r E. exact (sgrow_mutations c0 tick s comps r E).
  - intros c0 b m. apply sgrow_same. reflexivity.
Qed.

(* an update message keeps the map entry of an entity it does not despawn (its mappings are harmless: [maps_ok]) *)
Lemma maps_keep_s2c maps : forall c e cid, maps_ok c maps -> al_get e (cl_s2c c) = Some cid -> al_get e (cl_s2c (apply_maps maps c)) = Some cid.
Proof.
  unfold apply_maps. induction maps as [|[e1 pc1] t IH]; intros c e cid Hok He; cbn [fold_left fst snd]; [exact He|].
  destruct Hok as [[Hun _] Hok]. apply (IH _ e cid Hok).
  destruct (mapping_cases c e1 pc1) as [[-> _]|(cid1 & x1 & _ & _ & _ & _ & ->)]; [exact He|].
  cbn [emap_insert set_maps cl_s2c]. rewrite al_get_insert_other; [exact He|]. intros ->. congruence.
Qed.

Lemma s2c_kept_update c u c' e cid :
  apply_update_message c u = Ok c' -> al_get e (cl_s2c c) = Some cid -> ~ In e (u_despawns u) ->
  maps_ok (maps_pre c u) (u_maps u) -> al_get e (cl_s2c c') = Some cid.
Proof.
  intros H He Hd Hok. pose proof (update_message_phases c u c' H) as (P1 & _). apply P1. rewrite update_pre_maps.
  apply maps_keep_s2c; [exact Hok|]. unfold maps_pre. rewrite s2c_despawns.
  destruct (mem_N e (u_despawns u)) eqn:Em; [apply mem_N_In in Em; contradiction|exact He].
Qed.

(* no step of the client ever changes the pre-spawn id of an entity *)
Lemma cent_steps_pre P x y : cent_steps P x y -> ce_pre y = ce_pre x.
Proof.
  induction 1 as [|l x y z _ Hs _ IH]; [reflexivity|]. rewrite IH. destruct Hs as [x _|x _|x tick x1 E|x comps'|x h h' tick _ _ _ _]; try reflexivity.
  destruct (confirm_tick_fields _ _ _ E) as (_ & A & _). exact A.
Qed.

Lemma pre_ent_frame c ops c' out pc cid : ewf c -> client_frame c ops = Ok (c', out) -> pre_ent c pc cid -> pre_ent c' pc cid.
Proof.
  intros Hw H (x & Hx & Hp). destruct (frame_R_frame c ops c' out H Hw) as [_ S]. destruct (S cid x Hx) as [x' [Hx' St]].
  exists x'. split; [exact Hx'|]. rewrite (cent_steps_pre _ _ _ St). exact Hp.
Qed.

Lemma pre_ent_update c u c' pc cid : ewf c -> apply_update_message c u = Ok c' -> pre_ent c pc cid -> pre_ent c' pc cid.
Proof.
  intros Hw H (x & Hx & Hp). destruct (frame_R_update c u c' H Hw) as [_ S]. destruct (S cid x Hx) as [x' [Hx' St]].
  exists x'. split; [exact Hx'|]. rewrite (cent_steps_pre _ _ _ St). exact Hp.
Qed.

(* the inbox of a frame *)
Lemma adopted_inbox e pc cid us : forall c c1, ewf c -> inbox_maps_ok c us -> (forall u, In u us -> ~ In e (u_despawns u)) ->
  fold_left (res_step apply_update_message) us (Ok c) = Ok c1 -> adopted_c c e pc cid -> ewf c1 /\ adopted_c c1 e pc cid.
Proof.
  induction us as [|u t IH]; intros c c1 Hw Hmk Hnd H Ha.
  - cbn in H. inversion H; subst c1. auto.
  - apply fold_res_cons_ok in H. destruct H as [c2 [E H]]. cbn [inbox_maps_ok] in Hmk. destruct Hmk as [Hm1 Hm2]. destruct Ha as [A1 A2].
    apply (IH c2 c1); [exact (proj1 (frame_R_update c u c2 E Hw))|exact (Hm2 c2 E)|intros u0 Hu0; apply Hnd; right; exact Hu0|exact H|].
    split; [exact (s2c_kept_update c u c2 e cid E A1 (Hnd u (or_introl eq_refl)) Hm1)|exact (pre_ent_update c u c2 pc cid Hw E A2)].
Qed.

(* a whole frame of a connected client *)
Theorem adopted_frame c ops c' out e pc cid :
  ewf c -> cl_status c = Connected -> inbox_maps_ok c (cl_inbox_upd c) -> (forall u, In u (cl_inbox_upd c) -> ~ In e (u_despawns u)) ->
  client_frame c ops = Ok (c', out) -> adopted_c c e pc cid -> adopted_c c' e pc cid.
Proof.
  intros Hw Hc Hmk Hnd H [A1 A2]. split; [|exact (pre_ent_frame c ops c' out pc cid Hw H A2)].
  unfold client_frame in H. rewrite Hc, andb_false_r in H. apply bind_ok in H. destruct H as [[c2 out2] [E H]]. inversion H; subst c' out. clear H.
  cbn [set_locals cl_s2c]. rewrite cops_keep_s2c.
  unfold apply_replication in E. apply bind_ok in E. destruct E as [c1 [E1 E]].
  change (fold_left (res_step apply_update_message) (cl_inbox_upd c) (Ok c) = Ok c1) in E1.
  destruct (adopted_inbox e pc cid _ c c1 Hw Hmk Hnd E1 (conj A1 A2)) as [_ [B1 _]].
  apply (sgrow_mutate_messages _ c2 out2 E). exact B1.
Qed.

(* the parts of a frame of a connected client *)
Lemma frame_split c ops c' out : cl_status c = Connected -> client_frame c ops = Ok (c', out) ->
  exists c1 c2 out2, fold_left (res_step apply_update_message) (cl_inbox_upd c) (Ok c) = Ok c1 /\
    apply_mutate_messages (merge_mut_inbox c1) = Ok (c2, out2) /\ c' = set_locals (fold_left apply_cop ops c2).
Proof.
  intros Hc H. unfold client_frame in H. rewrite Hc, andb_false_r in H. apply bind_ok in H. destruct H as [[c2 out2] [E H]]. inversion H; subst c' out.
  unfold apply_replication in E. apply bind_ok in E. destruct E as [c1 [E1 E]]. exists c1, c2, out2. split; [exact E1|]. split; [exact E|reflexivity].
Qed.

Lemma ewf_inbox us : forall c c1, ewf c -> fold_left (res_step apply_update_message) us (Ok c) = Ok c1 -> ewf c1.
Proof.
  induction us as [|u t IH]; intros c c1 Hw H; [cbn in H; inversion H; subst; exact Hw|].
  apply fold_res_cons_ok in H. destruct H as [c2 [E H]]. exact (IH c2 c1 (proj1 (frame_R_update c u c2 E Hw)) H).
Qed.

Lemma adopted_tail c1 c2 out2 ops e pc cid : ewf c1 -> apply_mutate_messages (merge_mut_inbox c1) = Ok (c2, out2) ->
  adopted_c c1 e pc cid -> adopted_c (set_locals (fold_left apply_cop ops c2)) e pc cid.
Proof.
  intros Hw E [A1 (x & Hx & Hp)]. split.
  - cbn [set_locals cl_s2c]. rewrite cops_keep_s2c. apply (sgrow_mutate_messages _ c2 out2 E). exact A1.
  - assert (Hwm : ewf (merge_mut_inbox c1)) by (revert Hw; apply ewf_ext; reflexivity).
    destruct (frame_R_mutate_messages _ c2 out2 E Hwm) as [Hw2 S2]. destruct (S2 cid x Hx) as [x2 [Hx2 St2]].
    assert (G : frame_R c2 (fold_left apply_cop ops c2)).
    { apply fold_left_rel; [apply frame_R_refl|apply frame_R_trans|]. intros c0 a _. apply frame_R_cop. }
    destruct (G Hw2) as [_ S3]. destruct (S3 cid x2 Hx2) as [x3 [Hx3 St3]]. exists x3. split; [exact Hx3|].
    rewrite (cent_steps_pre _ _ _ St3), (cent_steps_pre _ _ _ St2). exact Hp.
Qed.

Lemma inbox_maps_ok_app a : forall b c c1, inbox_maps_ok c (a ++ b) -> fold_left (res_step apply_update_message) a (Ok c) = Ok c1 -> inbox_maps_ok c1 b.
Proof.
  induction a as [|u t IH]; intros b c c1 Hm H; [cbn in H; inversion H; subst; exact Hm|].
  apply fold_res_cons_ok in H. destruct H as [c2 [E H]]. cbn [app inbox_maps_ok] in Hm. exact (IH b c2 c1 (proj2 Hm c2 E) H).
Qed.

(* ================================================================== *)
(* 2. the message that carries the mapping                            *)
(* ================================================================== *)

(* overwriting an entity by one with the same pre-spawn id does not change which entity `find (has_pre pc)` designates *)
Lemma find_pre_insert pc k y : forall l y0, NoDup (al_keys l) -> al_get k l = Some y0 -> ce_pre y = ce_pre y0 ->
  find (has_pre pc) (al_insert k y l) = option_map (fun kv => if fst kv =? k then (k, y) else kv) (find (has_pre pc) l).
Proof.
  induction l as [|[k0 z0] t IH]; intros y0 Hnd Hg Hp; [discriminate|].
  cbn [al_keys map fst] in Hnd. inversion Hnd as [|? ? Hni Hnd']; subst. cbn [al_get] in Hg. cbn [al_insert find].
  destruct (k0 =? k) eqn:E0.
  - assert (k0 = k) by lia. subst k0. inversion Hg; subst z0. cbn [find].
    assert (Eh : has_pre pc (k, y) = has_pre pc (k, y0)) by (unfold has_pre; cbn [snd]; rewrite Hp; reflexivity).
    rewrite Eh. destruct (has_pre pc (k, y0)); cbn [option_map fst]; [rewrite N.eqb_refl; reflexivity|].
    destruct (find (has_pre pc) t) as [[k' z]|] eqn:Ef; cbn [option_map fst]; [|reflexivity].
    apply find_some in Ef. destruct Ef as [Hin _]. destruct (k' =? k) eqn:E1; [|reflexivity]. exfalso. apply Hni.
    assert (k' = k) by lia. subst k'. change k with (fst (k, z)). apply in_map. exact Hin.
  - cbn [find]. destruct (has_pre pc (k0, z0)); cbn [option_map fst]; [rewrite E0; reflexivity|]. exact (IH y0 Hnd' Hg Hp).
Qed.

(* a harmless mapping for another pair leaves the designated entity alive and where it is *)
Lemma mapping_keeps_find c e1 pc1 pc cid x : ewf c ->
  find (has_pre pc) (cl_ents c) = Some (cid, x) -> ce_alive x = true ->
  exists x1, find (has_pre pc) (cl_ents (apply_entity_mapping c e1 pc1)) = Some (cid, x1) /\ ce_alive x1 = true.
Proof.
  intros [Hnd _] Hf Ha. destruct (mapping_cases c e1 pc1) as [[-> _]|(cid1 & x1 & Hin & Hp & Ha1 & _ & ->)]; [exists x; auto|].
  cbn [emap_insert set_maps set_cent cl_ents].
  rewrite (find_pre_insert pc cid1 (mkCEnt true (ce_pre x1) true (ce_hist x1) (ce_comps x1)) (cl_ents c) x1 Hnd (al_get_in_nodup _ _ _ Hnd Hin) eq_refl), Hf. cbn [option_map fst].
  destruct (cid =? cid1) eqn:E1; [assert (cid = cid1) by lia; subst cid1|]; eexists; (split; [reflexivity|]); [reflexivity|exact Ha].
Qed.

Lemma maps_keep_adopted maps e pc cid : forall c, ewf c -> maps_ok c maps -> adopted_c c e pc cid -> adopted_c (apply_maps maps c) e pc cid.
Proof.
  intros c Hw Hok [A1 (x & Hx & Hp)]. split; [exact (maps_keep_s2c maps c e cid Hok A1)|].
  assert (G : frame_R c (apply_maps maps c)).
  { unfold apply_maps. apply fold_left_rel; [apply frame_R_refl|apply frame_R_trans|]. intros c0 a _. apply frame_R_mapping. }
  destruct (G Hw) as [_ S]. destruct (S cid x Hx) as [x' [Hx' St]]. exists x'. split; [exact Hx'|]. rewrite (cent_steps_pre _ _ _ St). exact Hp.
Qed.

Lemma maps_adopt maps e pc cid : forall c x, ewf c -> maps_ok c maps -> In (e, pc) maps ->
  find (has_pre pc) (cl_ents c) = Some (cid, x) -> ce_alive x = true -> adopted_c (apply_maps maps c) e pc cid.
Proof.
  induction maps as [|[e1 pc1] t IH]; intros c x Hw Hok Hin Hf Ha; [destruct Hin|].
  destruct Hok as [Hstep Hok]. change (apply_maps ((e1, pc1) :: t) c) with (apply_maps t (apply_entity_mapping c e1 pc1)).
  pose proof (proj1 (frame_R_mapping c e1 pc1 Hw)) as Hw1.
  destruct (N.eq_dec e1 e) as [He|He]; [destruct (N.eq_dec pc1 pc) as [Hpc|Hpc]|].
  - (* the mapping itself *)
    subst e1 pc1. apply (maps_keep_adopted t e pc cid _ Hw1 Hok).
    destruct (mapping_cases c e pc) as [[_ Hdead]|(cid1 & x1 & Hin1 & Hp1 & Ha1 & Hf1 & ->)]; [rewrite (Hdead cid x Hf) in Ha; discriminate|].
    rewrite Hf in Hf1. inversion Hf1; subst cid1 x1. split; [cbn; apply al_get_insert_same|].
    eexists. split; [unfold emap_insert; rewrite get_cent_set_maps; apply get_cent_set_cent_same|exact Hp1].
  - destruct Hin as [Hin|Hin]; [inversion Hin; congruence|].
    destruct (mapping_keeps_find c e1 pc1 pc cid x Hw Hf Ha) as (x1 & Hf1 & Ha1).
    exact (IH _ x1 Hw1 Hok Hin Hf1 Ha1).
  - destruct Hin as [Hin|Hin]; [inversion Hin; congruence|].
    destruct (mapping_keeps_find c e1 pc1 pc cid x Hw Hf Ha) as (x1 & Hf1 & Ha1).
    exact (IH _ x1 Hw1 Hok Hin Hf1 Ha1).
Qed.

Lemma ewf_maps_pre c u : ewf c -> ewf (maps_pre c u).
Proof.
  intros Hw. unfold maps_pre.
  assert (G : frame_R (set_upd_tick c (u_tick u)) (fold_left apply_despawn (u_despawns u) (set_upd_tick c (u_tick u)))).
  { apply fold_left_rel; [apply frame_R_refl|apply frame_R_trans|]. intros c0 a _. apply frame_R_despawn. }
  apply G. revert Hw. apply ewf_ext; reflexivity.
Qed.

Lemma maps_pre_next c u : cl_next (maps_pre c u) = cl_next c.
Proof. unfold maps_pre. rewrite fold_next by apply despawn_next. reflexivity. Qed.

(* the message that carries the mapping (e, pc): when it is applied, the entity pre-spawned under [pc] (the one
   `apply_entity_mapping` designates) is alive.  Afterwards [e] is mapped to it; it is an entity that existed before *)
Theorem msg_adopts c u c' e pc cid x :
  ewf c -> maps_ok (maps_pre c u) (u_maps u) -> In (e, pc) (u_maps u) ->
  find (has_pre pc) (cl_ents (maps_pre c u)) = Some (cid, x) -> ce_alive x = true ->
  apply_update_message c u = Ok c' ->
  adopted_c c' e pc cid /\ cid < cl_next c.
Proof.
  intros Hw Hok Hin Hf Ha H. pose proof (ewf_maps_pre c u Hw) as Hw1.
  destruct (maps_adopt (u_maps u) e pc cid (maps_pre c u) x Hw1 Hok Hin Hf Ha) as [A1 (x2 & Hx2 & Hp2)].
  rewrite <- update_pre_maps in A1, Hx2.
  destruct (update_message_phases c u c' H) as (P1 & _ & _ & P4 & _).
  split; [split; [exact (P1 e cid A1)|]|].
  - destruct (P4 cid x2 Hx2) as [x' [Hx' St]]. exists x'. split; [exact Hx'|]. rewrite (cent_steps_pre _ _ _ St). exact Hp2.
  - apply find_some in Hf. destruct Hf as [Hi _]. rewrite <- (maps_pre_next c u).
    apply (ents_fresh_lt (maps_pre c u) cid x (proj2 Hw1)). exact (al_get_in_nodup _ _ _ (proj1 Hw1) Hi).
Qed.

(* ================================================================== *)
(* 3. whole-system runs                                               *)
(* ================================================================== *)

Section C16Run.
  Variables (cfg0 : cfg) (nclients : N).
  Local Notation init := (sys_init cfg0 nclients).
  Local Notation scope := (script_scopem cfg0 nclients).

  (* no despawn record for [e] is on its way to the client *)
  Definition no_desp (y : sys) (slot e : N) : Prop := forall u, In u (pending y slot) -> ~ In e (u_despawns u).

  Definition adopted (y : sys) (slot e pc cid : N) : Prop :=
    exists c, al_get slot (y_clients y) = Some c /\ cl_status c = Connected /\ adopted_c c e pc cid.

  Lemma run_cs_inv script y slot c : scope script -> run init script = Ok y -> al_get slot (y_clients y) = Some c -> cs_inv c.
  Proof.
    intros (K1 & Km & _ & _ & K4 & _) Hrun Hc. destruct (run_erun_s script init [] y Hrun) as [gs Eg].
    pose proof (g_run cfg0 nclients script y gs K1 Km K4 Eg) as Hf. exact (gs_cs _ _ _ _ _ _ _ _ _ _ (gi2_slots _ _ _ _ _ Hf slot c Hc)).
  Qed.

  Lemma pending_client y slot c : al_get slot (y_clients y) = Some c -> pending y slot = cl_inbox_upd c ++ l_upd (get_link y slot).
  Proof. intros H. unfold pending, inbox_of. rewrite H. reflexivity. Qed.

  (* a step that does not end the session of the slot and sends it no despawn record for [e] *)
  Lemma c16_step pre st y1 y2 o slot e pc cid :
    scope (pre ++ [st]) -> run init pre = Ok y1 -> sys_step y1 st = Ok (y2, o) -> ends_session slot st = false ->
    ~ In e (desp_step y1 st slot) ->
    adopted y1 slot e pc cid -> no_desp y1 slot e -> adopted y2 slot e pc cid /\ no_desp y2 slot e.
  Proof.
    intros Hsc Hrun H Hends Hds (c1 & Hc1 & Hs1 & Ha) Hnd.
    pose proof (scopem_prefix cfg0 nclients pre [st] y1 Hsc Hrun) as Hsc1.
    pose proof (run_cs_inv pre y1 slot c1 Hsc1 Hrun Hc1) as Hcs1.
    assert (Hkeep : forall y', y_clients y' = y_clients y1 -> (forall sl, l_upd (get_link y' sl) = l_upd (get_link y1 sl)) ->
              adopted y' slot e pc cid /\ no_desp y' slot e).
    { intros y' E1 E2. split; [exists c1; rewrite E1; auto|]. intros u Hu. apply Hnd. unfold pending, inbox_of in *. rewrite E1, E2 in Hu. exact Hu. }
    destruct st as [| |slot0 max|slot0|slot0|tick dt cleanup ops parts|slot0 ops|slot0 s2c ch w|slot0 s2c ch w]; cbn [sys_step] in H.
    - inversion H; subst y2 o. apply Hkeep; reflexivity.
    - discriminate Hends.
    - (* connect *)
      destruct (find_client (y_server y1) slot0); [inversion H; subst; apply Hkeep; reflexivity|].
      destruct (al_get slot0 (y_clients y1)) as [cl|] eqn:Ec; [|inversion H; subst; apply Hkeep; reflexivity].
      destruct (sv_running (y_server y1)); inversion H; subst y2 o; [|apply Hkeep; reflexivity].
      destruct (N.eq_dec slot0 slot) as [->|Hne].
      + rewrite Hc1 in Ec. inversion Ec; subst cl. split.
        * exists (set_status c1 Connected). split; [cbn [set_client set_server y_clients]; apply al_get_insert_same|]. split; [reflexivity|exact Ha].
        * intros u Hu. apply Hnd. unfold pending, inbox_of in *. cbn [set_client set_server y_clients] in Hu. rewrite al_get_insert_same in Hu.
          change (get_link (set_client ?a ?b ?c) slot) with (get_link y1 slot) in Hu. rewrite Hc1. unfold set_status in Hu. rewrite Hs1 in Hu. exact Hu.
      + split.
        * exists c1. split; [cbn [set_client set_server y_clients]; rewrite al_get_insert_other by congruence; exact Hc1|auto].
        * intros u Hu. apply Hnd. unfold pending, inbox_of in *. cbn [set_client set_server y_clients] in Hu. rewrite al_get_insert_other in Hu by congruence. exact Hu.
    - inversion H; subst y2 o. apply Hkeep; reflexivity.
    - (* disconnect of another slot *)
      cbn [ends_session] in Hends. assert (Hne : slot0 <> slot) by lia.
      destruct (al_get slot0 (y_clients y1)) as [cl|]; inversion H; subst y2 o; [|apply Hkeep; reflexivity]. split.
      + exists c1. split; [cbn [clear_link set_link set_client set_server y_clients]; rewrite al_get_insert_other by congruence; exact Hc1|auto].
      + intros u Hu. apply Hnd. unfold pending, inbox_of, clear_link in *. cbn [set_link set_client set_server y_clients] in Hu.
        rewrite al_get_insert_other in Hu by congruence.
        change (get_link (set_link (set_client ?a ?b ?c) ?d ?l) slot) with (get_link (set_link y1 d l) slot) in Hu.
        rewrite get_link_set_link_other in Hu by congruence. exact Hu.
    - (* a server frame: what it sends to the slot carries no despawn record for [e] *)
      destruct (server_frame (y_cfg y1) (y_server y1) tick dt cleanup ops parts) as [[s' fo]| |] eqn:Ef; cbn [bind] in H; try discriminate.
      inversion H; subst y2 o. clear H. destruct (enqueue_fields (fo_clients fo) (set_server y1 s')) as (_ & _ & Q3). cbn [set_server y_clients] in Q3.
      destruct Hsc1 as (K1 & Km & _ & _ & K4 & _). destruct (run_erun_s pre init [] y1 Hrun) as [gs Eg].
      pose proof (g_run cfg0 nclients pre y1 gs K1 Km K4 Eg) as Hf. pose proof (gi2_cfg _ _ _ _ _ Hf) as Hcfg. rewrite Hcfg in Ef.
      destruct (server_frame_clients_g cfg0 (mkG (y_server y1) gs) tick dt cleanup ops parts s' fo (gi2_ginv _ _ _ _ _ Hf) Ef) as (_ & _ & _ & N5 & _).
      split; [exists c1; rewrite Q3; auto|].
      intros u Hu. unfold pending, inbox_of in Hu. rewrite Q3, Hc1, enqueue_lupd, (updates_for_upd_for slot _ N5) in Hu.
      change (get_link (set_server y1 s') slot) with (get_link y1 slot) in Hu. rewrite app_assoc in Hu. apply in_app_or in Hu.
      destruct Hu as [Hu|Hu]; [apply Hnd; rewrite (pending_client y1 slot c1 Hc1); exact Hu|].
      unfold desp_step in Hds. rewrite Hcfg, Ef in Hds. destruct (upd_for slot (fo_clients fo)) as [u0|]; [|destruct Hu].
      destruct Hu as [<-|[]]. exact Hds.
    - (* a client frame *)
      destruct (al_get slot0 (y_clients y1)) as [cl|] eqn:Ec; [|inversion H; subst; apply Hkeep; reflexivity].
      destruct (client_frame cl ops) as [[cl' cfo]| |] eqn:Efr; cbn [bind] in H; try discriminate.
      assert (H0 : sys_step y1 (StCFrame slot0 ops) = Ok (y2, o)) by (cbn [sys_step]; rewrite Ec, Efr; exact H).
      destruct (cframe_links y1 slot0 ops cl cl' cfo y2 o Ec Efr H0) as (_ & G2 & G3 & G4 & _).
      destruct (N.eq_dec slot0 slot) as [->|Hne].
      + rewrite Hc1 in Ec. inversion Ec; subst cl.
        destruct Hsc as (_ & Km & _). pose proof (proj2 (proj1 (run_maps_ok_snoc pre init _) Km) y1 Hrun) as Hstep. cbn [step_maps_ok] in Hstep.
        destruct (Hstep c1 Hc1) as [Hmk _].
        assert (Hin1 : forall u, In u (cl_inbox_upd c1) -> ~ In e (u_despawns u)).
        { intros u Hu. apply Hnd. rewrite (pending_client y1 slot c1 Hc1). apply in_or_app. left. exact Hu. }
        destruct (frame_clears_inbox c1 ops cl' cfo Hs1 Efr) as [Ei Est]. split.
        * exists cl'. split; [rewrite G2; apply al_get_insert_same|]. split; [exact Est|].
          exact (adopted_frame c1 ops cl' cfo e pc cid (ci_ewf c1 Hcs1) Hs1 (Hmk Hs1) Hin1 Efr Ha).
        * intros u Hu. apply Hnd. unfold pending, inbox_of in Hu. rewrite G2, al_get_insert_same, Ei, G4 in Hu. cbn [app] in Hu.
          rewrite (pending_client y1 slot c1 Hc1). apply in_or_app. right. exact Hu.
      + split.
        * exists c1. split; [rewrite G2, al_get_insert_other by congruence; exact Hc1|auto].
        * intros u Hu. apply Hnd. unfold pending, inbox_of in *. rewrite G2, al_get_insert_other, (G3 slot) in Hu by congruence. exact Hu.
    - (* deliver *)
      destruct (al_get slot0 (y_clients y1)) as [cl|] eqn:Ec; [|inversion H; subst; apply Hkeep; reflexivity].
      destruct s2c.
      + destruct (ch =? 0) eqn:Ech.
        * destruct (take w (l_upd (get_link y1 slot0))) as [picked rest] eqn:Etk. inversion H; subst y2 o. clear H.
          destruct (N.eq_dec slot0 slot) as [->|Hne].
          -- rewrite Hc1 in Ec. inversion Ec; subst cl. destruct (deliver_updates_fields picked c1) as (A & _ & C & _). cbv zeta in A, C.
             destruct (deliver_updates_inbox picked c1 Hs1) as [Hi Hst]. split.
             ++ eexists. split; [cbn [set_client y_clients]; apply al_get_insert_same|]. split; [exact Hst|].
                destruct Ha as [A1 (x & Hx & Hp)]. split; [rewrite A; exact A1|]. exists x. unfold get_cent in *. rewrite C. auto.
             ++ intros u Hu. apply Hnd. rewrite (pending_client y1 slot c1 Hc1). unfold pending, inbox_of in Hu.
                cbn [set_client y_clients] in Hu. rewrite al_get_insert_same, Hi in Hu.
                change (get_link (set_client ?a ?b ?c) slot) with (get_link a slot) in Hu. rewrite get_link_set_link_same in Hu. cbn [l_upd] in Hu.
                rewrite <- app_assoc in Hu. apply in_app_or in Hu. apply in_or_app. destruct Hu as [Hu|Hu]; [left; exact Hu|right].
                apply in_app_or in Hu. exact (take_in _ _ _ _ u Etk Hu).
          -- split.
             ++ exists c1. split; [cbn [set_client y_clients]; rewrite al_get_insert_other by congruence; exact Hc1|auto].
             ++ intros u Hu. apply Hnd. unfold pending, inbox_of in *. cbn [set_client y_clients] in Hu. rewrite al_get_insert_other in Hu by congruence.
                change (get_link (set_client ?a ?b ?c) slot) with (get_link a slot) in Hu. rewrite get_link_set_link_other in Hu by congruence. exact Hu.
        * destruct (ch =? 1); [|inversion H; subst; apply Hkeep; reflexivity].
          destruct (take w (l_mut (get_link y1 slot0))) as [picked rest] eqn:Etk. inversion H; subst y2 o. clear H.
          destruct (N.eq_dec slot0 slot) as [->|Hne].
          -- rewrite Hc1 in Ec. inversion Ec; subst cl. destruct (deliver_mutates_fields picked c1 Hs1) as (A & _ & C & _ & _ & _ & _ & Hst & Hi). cbv zeta in A, C, Hst, Hi. split.
             ++ eexists. split; [cbn [set_client y_clients]; apply al_get_insert_same|]. split; [exact Hst|].
                destruct Ha as [A1 (x & Hx & Hp)]. split; [rewrite A; exact A1|]. exists x. unfold get_cent in *. rewrite C. auto.
             ++ intros u Hu. apply Hnd. rewrite (pending_client y1 slot c1 Hc1). unfold pending, inbox_of in Hu.
                cbn [set_client y_clients] in Hu. rewrite al_get_insert_same, Hi in Hu.
                change (get_link (set_client ?a ?b ?c) slot) with (get_link a slot) in Hu. rewrite get_link_set_link_same in Hu. exact Hu.
          -- split.
             ++ exists c1. split; [cbn [set_client y_clients]; rewrite al_get_insert_other by congruence; exact Hc1|auto].
             ++ intros u Hu. apply Hnd. unfold pending, inbox_of in *. cbn [set_client y_clients] in Hu. rewrite al_get_insert_other in Hu by congruence.
                change (get_link (set_client ?a ?b ?c) slot) with (get_link a slot) in Hu. rewrite get_link_set_link_other in Hu by congruence. exact Hu.
      + destruct (ch =? 0); [|inversion H; subst; apply Hkeep; reflexivity].
        destruct (take w (l_ack (get_link y1 slot0))) as [picked rest] eqn:Etk. inversion H; subst y2 o. clear H.
        apply Hkeep; [reflexivity|]. intros sl. change (get_link (set_server ?a ?b) sl) with (get_link a sl).
        destruct (N.eq_dec sl slot0) as [->|Hne]; [rewrite get_link_set_link_same|rewrite get_link_set_link_other by exact Hne]; reflexivity.
    - (* drop *)
      destruct (al_get slot0 (y_clients y1)) as [cl|] eqn:Ec; [|inversion H; subst; apply Hkeep; reflexivity].
      assert (Hleg : legal_step (StDrop slot0 s2c ch w) = true).
      { destruct Hsc as (K1 & _). exact (proj1 (script_okg_last pre _ K1)). }
      cbn [legal_step] in Hleg. destruct s2c; [|discriminate]. assert (ch = 1) by lia. subst ch. cbn in H.
      destruct (take w (l_mut (get_link y1 slot0))) as [picked rest] eqn:Etk. inversion H; subst y2 o. clear H.
      destruct (N.eq_dec slot0 slot) as [->|Hne].
      + rewrite Hc1 in Ec. inversion Ec; subst cl. split.
        * exists c1. split; [cbn [set_client y_clients]; apply al_get_insert_same|auto].
        * intros u Hu. apply Hnd. rewrite (pending_client y1 slot c1 Hc1). unfold pending, inbox_of in Hu.
          cbn [set_client y_clients] in Hu. rewrite al_get_insert_same in Hu.
          change (get_link (set_client ?a ?b ?c) slot) with (get_link a slot) in Hu. rewrite get_link_set_link_same in Hu. exact Hu.
      + split.
        * exists c1. split; [cbn [set_client y_clients]; rewrite al_get_insert_other by congruence; exact Hc1|auto].
        * intros u Hu. apply Hnd. unfold pending, inbox_of in *. cbn [set_client y_clients] in Hu. rewrite al_get_insert_other in Hu by congruence.
          change (get_link (set_client ?a ?b ?c) slot) with (get_link a slot) in Hu. rewrite get_link_set_link_other in Hu by congruence. exact Hu.
  Qed.

  (* ---- persistence: the rest of the session ---- *)
  Theorem c16_kept post : forall pre y1 y slot e pc cid,
    scope (pre ++ post) -> run init pre = Ok y1 -> run y1 post = Ok y ->
    forallb (fun st => negb (ends_session slot st)) post = true ->
    (forall p1 st p2 y0, post = p1 ++ st :: p2 -> run y1 p1 = Ok y0 -> ~ In e (desp_step y0 st slot)) ->
    adopted y1 slot e pc cid -> no_desp y1 slot e -> adopted y slot e pc cid /\ no_desp y slot e.
  Proof.
    induction post as [|st t IH]; intros pre y1 y slot e pc cid Hsc Hr1 Hr Hends Hds Ha Hnd.
    - cbn in Hr. inversion Hr; subst y. auto.
    - cbn [run] in Hr. destruct (sys_step y1 st) as [[y2 o]| |] eqn:Es; cbn [bind] in Hr; try discriminate.
      cbn [forallb] in Hends. apply andb_prop in Hends. destruct Hends as [He1 He2].
      assert (Hr2 : run init (pre ++ [st]) = Ok y2) by (rewrite run_app, Hr1; cbn [bind run]; rewrite Es; reflexivity).
      assert (Hsc' : scope ((pre ++ [st]) ++ t)) by (rewrite <- app_assoc; exact Hsc).
      pose proof (scopem_prefix cfg0 nclients _ t y2 Hsc' Hr2) as Hsc1.
      destruct (c16_step pre st y1 y2 o slot e pc cid Hsc1 Hr1 Es) as [Ha2 Hnd2]; [destruct (ends_session slot st); [discriminate|reflexivity]| |exact Ha|exact Hnd|].
      { exact (Hds [] st t y1 eq_refl eq_refl). }
      apply (IH (pre ++ [st]) y2 y slot e pc cid Hsc' Hr2 Hr He2); [|exact Ha2|exact Hnd2].
      intros p1 st' p2 y0 E R. apply (Hds (st :: p1) st' p2 y0); [rewrite E; reflexivity|]. cbn [run]. rewrite Es. exact R.
  Qed.

  (* ---- the frame in which the client applies the message that carries the mapping ---- *)
  Theorem c16_frame pre slot ops y0 y1 o c0 us1 u us2 c1 e pc cid x :
    scope (pre ++ [StCFrame slot ops]) -> run init pre = Ok y0 -> sys_step y0 (StCFrame slot ops) = Ok (y1, o) ->
    al_get slot (y_clients y0) = Some c0 -> cl_status c0 = Connected ->
    cl_inbox_upd c0 = us1 ++ u :: us2 -> fold_left (res_step apply_update_message) us1 (Ok c0) = Ok c1 ->
    In (e, pc) (u_maps u) -> find (has_pre pc) (cl_ents (maps_pre c1 u)) = Some (cid, x) -> ce_alive x = true ->
    (forall u2, In u2 us2 -> ~ In e (u_despawns u2)) ->
    adopted y1 slot e pc cid /\ cid < cl_next c1.
  Proof.
    intros Hsc Hrun H Hc0 Hs0 Hinb E1 Hin Hf Ha Hnd2.
    pose proof (scopem_prefix cfg0 nclients pre _ y0 Hsc Hrun) as Hsc0. pose proof (run_cs_inv pre y0 slot c0 Hsc0 Hrun Hc0) as Hcs0.
    destruct Hsc as (_ & Km & _). pose proof (proj2 (proj1 (run_maps_ok_snoc pre init _) Km) y0 Hrun) as Hstep. cbn [step_maps_ok] in Hstep.
    destruct (Hstep c0 Hc0) as [Hmk _]. specialize (Hmk Hs0). rewrite Hinb in Hmk.
    pose proof H as H0. cbn [sys_step] in H. rewrite Hc0 in H. destruct (client_frame c0 ops) as [[c' cfo]| |] eqn:Efr; cbn [bind] in H; try discriminate.
    destruct (cframe_links y0 slot ops c0 c' cfo y1 o Hc0 Efr H0) as (_ & G2 & _).
    destruct (frame_clears_inbox c0 ops c' cfo Hs0 Efr) as [_ Est].
    destruct (frame_split c0 ops c' cfo Hs0 Efr) as (c3 & c4 & out4 & F1 & F2 & ->). rewrite Hinb, fold_left_app, E1 in F1.
    apply fold_res_cons_ok in F1. destruct F1 as [c2 [E2 F1]].
    pose proof (ewf_inbox us1 c0 c1 (ci_ewf c0 Hcs0) E1) as Hw1.
    pose proof (inbox_maps_ok_app us1 (u :: us2) c0 c1 Hmk E1) as Hmk1. cbn [inbox_maps_ok] in Hmk1. destruct Hmk1 as [Hm1 Hm2].
    destruct (msg_adopts c1 u c2 e pc cid x Hw1 Hm1 Hin Hf Ha E2) as [A2 Hlt]. split; [|exact Hlt].
    pose proof (proj1 (frame_R_update c1 u c2 E2 Hw1)) as Hw2.
    destruct (adopted_inbox e pc cid us2 c2 c3 Hw2 (Hm2 c2 E2) Hnd2 F1 A2) as [Hw3 A3].
    exists (set_locals (fold_left apply_cop ops c4)). split; [rewrite G2; apply al_get_insert_same|]. split; [exact Est|].
    exact (adopted_tail c3 c4 out4 ops e pc cid Hw3 F2 A3).
  Qed.

  (* ---- what C16 promises about an adopted entity, at any moment of a run in scope ---- *)
  Theorem c16_truthful script y slot e pc cid :
    scope script -> run init script = Ok y -> mode_of script slot = MLive -> adopted y slot e pc cid ->
    exists c x, al_get slot (y_clients y) = Some c /\ cl_status c = Connected /\
      (* all replication for [e] lands on the entity pre-spawned under [pc] *)
      al_get e (cl_s2c c) = Some cid /\ get_cent c cid = Some x /\ ce_pre x = Some pc /\ ce_alive x = true /\
      (* no second entity: nothing else is mapped to [e] *)
      (forall cid', al_get cid' (cl_c2s c) = Some e -> cid' = cid) /\
      (* it holds exactly e's components and values at its confirmed tick *)
      (forall h, ce_marker x = true -> ce_hist x = Some h ->
         exists pre post y1, script = pre ++ post /\ run init pre = Ok y1 /\
           forallb (fun st => negb (ends_session slot st)) post = true /\ sv_tick (y_server y1) = h_last h /\
           vrepl slot (y_server y1) e <> None /\
           forall k, opt_vrel c (sviewv slot (y_server y1) e k) (al_get k (ce_comps x))).
  Proof.
    intros Hsc Hrun Hm (c & Hc & Hs & A1 & (x & Hx & Hp)). pose proof (run_cs_inv script y slot c Hsc Hrun Hc) as Hcs.
    exists c, x. split; [exact Hc|]. split; [exact Hs|]. split; [exact A1|]. split; [exact Hx|]. split; [exact Hp|].
    destruct (ci_mapped c Hcs e cid A1) as [x0 [Hx0 Ha0]]. assert (x0 = x) by congruence. subst x0. split; [exact Ha0|]. split.
    - intros cid' H'. apply (s2c_c2s c e cid' (ci_emap c Hcs)) in H'. congruence.
    - intros h Hmk Hh. exact (e2em_truthful_exact cfg0 nclients script y slot c e cid x h Hsc Hrun Hc Hm Hs A1 Hx Ha0 Hmk Hh).
  Qed.
End C16Run.

(* ================================================================== *)
(* 4. a dead pre-spawned entity                                       *)
(* ================================================================== *)

(* a message whose mappings are harmless runs to its end *)
Lemma update_completes_maps c u c' : cs_inv c -> maps_ok (maps_pre c u) (u_maps u) ->
  apply_update_message c u = Ok c' -> update_completes c u c'.
Proof.
  intros Hinv Hok H. unfold apply_update_message in H. cbv zeta in H. unfold maps_pre in Hok.
  set (c0 := set_upd_tick c (u_tick u)) in *.
  assert (Hinv0 : cs_inv c0) by (revert Hinv; apply cs_inv_ext; reflexivity).
  destruct (despawns_struct (u_despawns u) c0 (client_struct c0) Hinv0 (srel_self c0 (cs_inv_nodup c0 Hinv0))) as [Hinv1 _].
  destruct (maps_fold (u_maps u) _ Hinv1 Hok) as [Hinv2 _]. cbv zeta in Hinv2. fold (update_pre c u) in Hinv2, H.
  apply bind_ok in H. destruct H as [r3 [E3 H]].
  destruct (removals_struct _ _ _ _ _ Hinv2 (srel_self _ (cs_inv_nodup _ Hinv2)) E3) as (c3 & -> & Hinv3 & Hrel3).
  apply bind_ok in H. destruct H as [r4 [E4 H]].
  destruct (changes_struct _ _ _ _ _ Hinv3 Hrel3 E4) as (c4 & -> & _ & _). inversion H; subst c'. exists c3. auto.
Qed.

(* the client's pre-spawned entity no longer exists when the mapping arrives: the mapping is ignored and the entity, sent
   whole in the same message, gets a FRESH client entity (allocated at or above the counter: none of the entities the client
   had, in particular not the dead pre-spawned one), confirmed at the message tick *)
Theorem msg_dead_fresh c u c' pc e comps :
  cs_inv c -> maps_ok (maps_pre c u) (u_maps u) ->
  (forall cid x, In (cid, x) (cl_ents c) -> ce_pre x = Some pc -> ce_alive x = false) ->
  al_get e (cl_s2c c) = None -> (forall pc', In (e, pc') (u_maps u) -> pc' = pc) -> In (e, comps) (u_changes u) ->
  apply_update_message c u = Ok c' ->
  exists cid' x', al_get e (cl_s2c c') = Some cid' /\ cl_next c <= cid' /\ get_cent c' cid' = Some x' /\ confirmed_ent (u_tick u) x'.
Proof.
  intros Hinv Hok Hd He Hside Hch H. pose proof (update_completes_maps c u c' Hinv Hok H) as Hc.
  exact (mapping_dead_prespawn_spawns_fresh c u c' pc e comps (proj2 (ci_ewf c Hinv)) Hd He Hside Hc Hch).
Qed.
