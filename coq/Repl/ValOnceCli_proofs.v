(* C02I: the invariant of a connected client ([cli_invo], Repl/ValOnceSpec.v) under the client's own actions - with the
   `Once` kind.  Port of Repl/ValRefCli_proofs.v.  What is new: the agreement is per kind ([agreeo]); a value of kind 2
   that a message does not overwrite keeps standing for the same INSTANCE of the component ([keeps_added] of the
   snapshots, [entry_sinceo] of the entries). *)
From RV Require Import Lib.Res Repl.ClientTicks Repl.ClientTicks_proofs Repl.World Vis.Visibility
  Tick.RepliconTick Tick.RepliconTick_proofs Tick.ConfirmHistory Tick.MutateTicks
  Repl.Server Repl.ServerSpec Repl.Server_proofs Repl.StructSpec Repl.Struct_proofs
  Repl.StructVisSpec Repl.StructVis_proofs
  Repl.Client Repl.Sys Repl.Client_proofs Repl.ClientEnt_proofs Repl.ClientMut_proofs Repl.ClientSys_proofs
  Repl.ClientStructSpec Repl.ClientStruct_proofs Repl.ClientHist_proofs Repl.StructE2E_proofs Repl.StructE2EMut_proofs
  Repl.ValSpec Repl.ValClient_proofs Repl.ValCli_proofs Repl.ValVisSpec Repl.ValVisCli_proofs Repl.ValRefSpec Repl.ValRefClient_proofs Repl.ValRefCli_proofs Repl.ValOnceSpec.
From Coq Require Import ZifyBool ZifyN.
Open Scope N_scope.
Ltac Zify.zify_post_hook ::= Z.div_mod_to_equations.
Arguments N.add : simpl never. Arguments N.mul : simpl never. Arguments N.pow : simpl never.
Arguments N.ltb : simpl never. Arguments N.leb : simpl never. Arguments N.div : simpl never.
Arguments N.modulo : simpl never. Arguments N.sub : simpl never. Arguments N.eqb : simpl never.

Section CliInvR.
  Variable slot : N.
  Variable SN : N -> N -> server -> Prop.
  Hypothesis SNinj : forall t1 r1 s1 t2 r2 s2, SN t1 r1 s1 -> SN t2 r2 s2 ->
    (r1 = r2 -> t1 = t2 /\ s1 = s2) /\ (r1 < r2 -> t1 < t2).
  Hypothesis SNkeepo : forall t1 r1 s1 t2 r2 s2, SN t1 r1 s1 -> SN t2 r2 s2 -> r1 <= r2 -> keepso r1 s1 s2.
  Hypothesis SNsmall : forall t r s1, SN t r s1 -> small_tick t.
  Hypothesis SNwf : forall t r s1, SN t r s1 -> ents_wf s1.

  Local Notation SNkeep := (fun t1 r1 s1 t2 r2 s2 (H1 : SN t1 r1 s1) (H2 : SN t2 r2 s2) (Hle : r1 <= r2) => proj1 (SNkeepo t1 r1 s1 t2 r2 s2 H1 H2 Hle)).
  Local Notation SN_le := (SN_le SN SNinj SNkeep SNsmall SNwf).
  Local Notation SN_tick_inj := (SN_tick_inj SN SNinj SNkeep SNsmall SNwf).
  Local Notation struct_hasv := (struct_hasv slot).
  Local Notation conf_sincer := (conf_sincer SN).
  Local Notation onceo := (onceo slot SN).
  Local Notation agreeo := (agreeo slot SN).
  Local Notation ent_promiseo := (ent_promiseo SN).
  Local Notation upd_oko := (upd_oko SN).
  Local Notation desp_fresh := (desp_fresh slot SN).
  Local Notation mut_oko := (mut_oko slot SN).
  Local Notation cli_invo := (cli_invo slot SN).
  Local Notation srv_slot_invr := (srv_slot_invr slot SN).

  (* the stamp a message was built against is not newer than the snapshot the client has confirmed *)
  Lemma conf_stamp_leo c pend g e a x0 h0 r0 s0 :
    conf_sincer c pend g e a -> (forall t, ~ will_conf pend g e t) -> has c e x0 h0 -> SN (h_last h0) r0 s0 -> a <= r0.
  Proof.
    intros (t_a & s_a & Ha & Hcg) Hnw Hhas H0.
    destruct Hcg as [Hw|[(x & h & Hh & Hta)|(Hnone & _)]].
    - exfalso. exact (Hnw t_a Hw).
    - destruct (has_fun c e x0 h0 x h Hhas Hh) as [-> ->]. exact (SN_le _ _ _ _ _ _ Ha H0 Hta).
    - exfalso. exact (Hnone _ _ Hhas).
  Qed.

  (* ---------- the old values that a message does not overwrite ---------- *)

  Lemma onceo_kept c c' e r c0 cv : (forall v, vrel c v cv -> vrel c' v cv) -> onceo c e r c0 cv -> onceo c' e r c0 cv.
  Proof. intros H (t0 & r0 & s0 & x0 & c00 & A & B & C & D & E & F). exists t0, r0, s0, x0, c00. auto 10. Qed.

  Lemma onceo_le c e r r' c0 cv : r <= r' -> onceo c e r c0 cv -> onceo c e r' c0 cv.
  Proof. intros H (t0 & r0 & s0 & x0 & c00 & A & B & C & D & E & F). exists t0, r0, s0, x0, c00. split; [exact A|]. split; [lia|auto]. Qed.

  Lemma agreeo_kept c c' e r cc sc :
    (forall k cv v, al_get k cc = Some cv -> vrel c v cv -> vrel c' v cv) -> agreeo c e r cc sc -> agreeo c' e r cc sc.
  Proof.
    intros H Hag k cv c0 A B. pose proof (Hag k cv c0 A B) as G. destruct (k =? 2); [|exact (H k cv _ A G)].
    apply (onceo_kept c c'); [intros v; exact (H k cv v A)|exact G].
  Qed.

  (* the client values written stand for the values of the entry; the old ones are kept *)
  Lemma agreeo_write c e r s2c vals ks base sc :
    NoDup (map fst vals) ->
    (forall k v, In (k, v) vals -> exists c0, al_get k sc = Some c0 /\ c_val c0 = v /\
       if k =? 2 then onceo c e r c0 (cval_of s2c v) else vrel c v (cval_of s2c v)) ->
    (forall k cv c0, al_get k vals = None -> al_get k base = Some cv -> al_get k sc = Some c0 ->
       if k =? 2 then onceo c e r c0 cv else vrel c (c_val c0) cv) ->
    agreeo c e r (wr_compsr s2c vals (rm_comps ks base)) sc.
  Proof.
    intros Hnd Hv Hold k cv c0 Hg Hs. rewrite wr_compsr_get in Hg by exact Hnd.
    destruct (al_get k vals) as [v|] eqn:E.
    - inversion Hg; subst cv. destruct (Hv k v (Server_proofs.al_get_In _ _ _ E)) as (c' & Hc' & Hval & Hr). assert (c' = c0) by congruence. subst c'.
      destruct (k =? 2); [exact Hr|]. rewrite Hval. exact Hr.
    - rewrite rm_comps_get in Hg. destruct (mem_N k ks); [discriminate|]. exact (Hold k cv c0 E Hg Hs).
  Qed.

  Lemma agreeo_write0 c e r s2c vals base sc :
    NoDup (map fst vals) ->
    (forall k v, In (k, v) vals -> exists c0, al_get k sc = Some c0 /\ c_val c0 = v /\
       if k =? 2 then onceo c e r c0 (cval_of s2c v) else vrel c v (cval_of s2c v)) ->
    (forall k cv c0, al_get k vals = None -> al_get k base = Some cv -> al_get k sc = Some c0 ->
       if k =? 2 then onceo c e r c0 cv else vrel c (c_val c0) cv) ->
    agreeo c e r (wr_compsr s2c vals base) sc.
  Proof. intros A B C. rewrite <- (rm_comps_nil base). apply agreeo_write; assumption. Qed.

  Lemma old_value_oko c pend g e vals s1 x1 T r1 x0 h0 :
    SN T r1 s1 -> get_ent s1 e = Some x1 ->
    (entry_full s1 e vals \/ exists a, entry_sinceo s1 e vals a /\ conf_sincer c pend g e a) ->
    (forall t, ~ will_conf pend g e t) ->
    has c e x0 h0 -> h_last h0 <= T ->
    (exists r0 s0 x0', SN (h_last h0) r0 s0 /\ get_ent s0 e = Some x0' /\ agreeo c e r0 (ce_comps x0) (se_comps x0')) ->
    forall k cv cc, al_get k vals = None -> al_get k (ce_comps x0) = Some cv -> al_get k (se_comps x1) = Some cc ->
      if k =? 2 then onceo c e r1 cc cv else vrel c (c_val cc) cv.
  Proof.
    intros H1 Hx1 Hprom Hnw Hhas HleT (r0 & s0 & x0' & H0 & Hx0' & Hag) k cv cc Hkv Hcv Hcc.
    assert (Hnk : ~ In k (map fst vals)) by (apply al_get_none_keys; exact Hkv).
    destruct Hprom as [Hfull|(a & Hsince & (t_a & s_a & Ha & Hcg))].
    { exfalso. apply Hnk. exact (Hfull x1 k cc Hx1 Hcc). }
    destruct (Hsince x1 k cc Hx1 Hcc) as [Hin|Hch]; [contradiction|].
    destruct Hcg as [Hw|[(x & h & Hh & Hta)|(Hnone & _)]].
    - exfalso. exact (Hnw t_a Hw).
    - destruct (has_fun c e x0 h0 x h Hhas Hh) as [-> ->].
      assert (Hr0 : a <= r0) by exact (SN_le _ _ _ _ _ _ Ha H0 Hta).
      assert (Hr1 : r0 <= r1) by exact (SN_le _ _ _ _ _ _ H0 H1 HleT).
      destruct (k =? 2) eqn:E2.
      + destruct (proj2 (SNkeepo _ _ _ _ _ _ H0 H1 Hr1) e x1 k cc Hx1 Hcc) as (x0'' & c1 & Hx0'' & Hk0 & Ea); [lia|].
        assert (x0'' = x0') by congruence. subst x0''. pose proof (Hag k cv c1 Hcv Hk0) as Ho. rewrite E2 in Ho.
        destruct Ho as (t00 & r00 & s00 & x00 & c00 & A & B & C & D & E & F). exists t00, r00, s00, x00, c00.
        split; [exact A|]. split; [lia|]. split; [exact C|]. split; [exact D|]. split; [congruence|exact F].
      + destruct (SNkeep _ _ _ _ _ _ H0 H1 Hr1 e x1 k cc Hx1 Hcc) as [x0'' [Hx0'' Hk0]]; [lia|].
        assert (x0'' = x0') by congruence. subst x0''. pose proof (Hag k cv cc Hcv Hk0) as Ho. rewrite E2 in Ho. exact Ho.
    - exfalso. exact (Hnone _ _ Hhas).
  Qed.

  (* a reference held by a replica points at an entity that the replica's server entity referenced, visibly to the slot,
     in the snapshot of the replica's confirmed tick *)
  Lemma held_ref_refd_o c e x h k cid t :
    (exists r s1 x1, SN (h_last h) r s1 /\ vrepl slot s1 e = Some x1 /\ agreeo c e r (ce_comps x) (se_comps x1) /\
                     kinds_equiv (map fst (ce_comps x)) (map fst (se_comps x1))) ->
    al_get k (ce_comps x) = Some (CRef cid) -> al_get cid (cl_c2s c) = Some t ->
    exists t' r s1, SN t' r s1 /\ t' <= h_last h /\ refd slot s1 t.
  Proof.
    intros (r & s1 & x1 & Hsn & Hr & Hag & Hk) Hc Ht.
    assert (Hm : mem_N k (map fst (se_comps x1)) = true) by (rewrite <- (Hk k), mem_keys_get, Hc; reflexivity).
    rewrite mem_keys_get in Hm. destruct (al_get k (se_comps x1)) as [cc|] eqn:Ecc; [|discriminate].
    pose proof (Hag k (CRef cid) cc Hc Ecc) as Hv. destruct (k =? 2) eqn:E2.
    - destruct Hv as (t0 & r0 & s0 & x0 & c00 & A & B & C & D & E & F). exists t0, r0, s0. split; [exact A|]. split.
      + destruct (SNinj _ _ _ _ _ _ A Hsn) as [I1 I2]. destruct (N.eq_dec r0 r) as [Er|Hne]; [destruct (I1 Er); lia|].
        assert (r0 < r) by lia. pose proof (I2 H). lia.
      + exists e, x0, 2, c00. split; [exact C|]. split; [exact D|].
        destruct (c_val c00) as [n|t']; cbn [vrel] in F; [destruct F|]. congruence.
    - exists (h_last h), r, s1. split; [exact Hsn|]. split; [lia|]. exists e, x1, k, cc. split; [exact Hr|]. split; [exact Ecc|].
      destruct (c_val cc) as [n|t']; cbn [vrel] in Hv; [destruct Hv|]. congruence.
  Qed.

  (* ================================================================ *)
  (* 1. applying the next update message                              *)
  (* ================================================================ *)

  Section Update.
    Variables (c : client) (u : update_msg) (rest : list update_msg) (c' : client).
    Hypothesis Hcs : cs_inv c.
    Hypothesis Hmo : mapped_okr c.
    Hypothesis Hsu : small_tick (u_tick u).
    Hypothesis Hshape : upd_shaper u.
    Hypothesis Hhl : forall e x h, has c e x h -> forall u', In u' (u :: rest) -> h_last h < u_tick u'.
    Hypothesis Hincr : ticks_incr (u :: rest).
    Hypothesis Happ : apply_update_message c u = Ok c'.

    Let UV := update_view_r c u c' Hcs Hmo Hshape Happ.

    Lemma updo_cs : cs_inv c'.
    Proof. exact (proj1 UV). Qed.

    Lemma updo_mapped_okr : mapped_okr c'.
    Proof. exact (proj1 (proj2 (proj2 UV))). Qed.

    Let UVe := proj2 (proj2 (proj2 (proj2 UV))).

    (* an entity the message mentions is confirmed at the tick of the message *)
    Lemma updo_touched e : mentions u e ->
      geb_hist (u_tick u) (if mem_N e (u_despawns u) then None else centof c e) /\
      exists x' h', has c' e x' h' /\ h_last h' = u_tick u /\
        ce_comps x' = wr_compsr (cl_s2c c') (al_dflt e (u_changes u))
                               (rm_comps (al_dflt e (u_removals u)) (comps_of (if mem_N e (u_despawns u) then None else centof c e))) /\
        refs_mapped c' (al_dflt e (u_changes u)).
    Proof.
      intros Hm. apply touched_mentions in Hm. pose proof (UVe e) as V. cbv zeta in V. rewrite Hm in V.
      destruct V as (G & x' & X & L & C & R). split; [exact G|]. destruct (live_at_has c' e x' _ X L) as [h' [Hh Hl]].
      exists x', h'. auto.
    Qed.

    (* an entity the message does not mention: despawned, or left alone, or (unknown so far) reserved as a placeholder *)
    Lemma updo_untouched e : ~ mentions u e ->
      let o1 := if mem_N e (u_despawns u) then None else centof c e in
      centof c' e = o1 \/ (o1 = None /\ exists x', centof c' e = Some x' /\ ce_marker x' = false).
    Proof.
      intros Hm. pose proof (UVe e) as V. cbv zeta in V.
      destruct (touched u e) eqn:Et; [exfalso; apply Hm; apply touched_mentions; exact Et|exact V].
    Qed.

    (* ... its replica, if any *)
    Lemma updo_untouched_has e x h : ~ mentions u e ->
      (has c' e x h <-> (mem_N e (u_despawns u) = false /\ has c e x h)).
    Proof.
      intros Hm. pose proof (updo_untouched e Hm) as V. cbv zeta in V. unfold has.
      destruct V as [V|(V & x' & Hx' & Hm')].
      - rewrite V. destruct (mem_N e (u_despawns u)); [split; [intros (A & _); discriminate|intros (A & _); discriminate]|].
        split; [intros H; split; [reflexivity|exact H]|intros (_ & H); exact H].
      - split.
        + intros (A & _ & B & _). rewrite Hx' in A. inversion A; subst x'. congruence.
        + intros (Hd & A & _). rewrite Hd in V. congruence.
    Qed.

    Lemma updo_cg g e t : cgr c (u :: rest) g e t -> cgr c' rest g e t.
    Proof.
      intros [(u0 & Hin & Hlt & Hm & Hle)|[(x & h & Hh & Hle)|(Hc & Hno)]].
      - destruct Hin as [<-|Hin].
        + right. left. destruct (updo_touched e Hm) as (_ & x' & h' & Hh' & Hl & _). exists x', h'. split; [exact Hh'|lia].
        + left. exists u0. auto.
      - destruct (touched u e) eqn:Et.
        + apply touched_mentions in Et. destruct (updo_touched e Et) as (_ & x' & h' & Hh' & Hl & _).
          right. left. exists x', h'. split; [exact Hh'|]. pose proof (Hhl e x h Hh u (or_introl eq_refl)). lia.
        + assert (Hnm : ~ mentions u e) by (intros Hm; apply touched_mentions in Hm; congruence).
          destruct (mem_N e (u_despawns u)) eqn:Ed.
          * right. right. split; [|intros u' Hu' _; pose proof (Hhl e x h Hh u' (or_intror Hu')); lia].
            intros x' h' Hh'. apply (updo_untouched_has e x' h' Hnm) in Hh'. destruct Hh' as [Hd _]. congruence.
          * right. left. exists x, h. split; [|exact Hle]. apply (updo_untouched_has e x h Hnm). auto.
      - destruct (touched u e) eqn:Et.
        + apply touched_mentions in Et. destruct (updo_touched e Et) as (_ & x' & h' & Hh' & Hl & _).
          right. left. exists x', h'. split; [exact Hh'|]. rewrite Hl. exact (Hno u (or_introl eq_refl) Et).
        + assert (Hnm : ~ mentions u e) by (intros Hm; apply touched_mentions in Hm; congruence).
          right. right. split; [|intros u' Hu'; apply Hno; right; exact Hu'].
          intros x' h' Hh'. apply (updo_untouched_has e x' h' Hnm) in Hh'. exact (Hc x' h' (proj2 Hh')).
    Qed.

    Lemma updo_conf_since g e a : conf_sincer c (u :: rest) g e a -> conf_sincer c' rest g e a.
    Proof. intros (t_a & s_a & H1 & H2). exists t_a, s_a. split; [exact H1|exact (updo_cg g e t_a H2)]. Qed.

    (* a replica after the message is confirmed below the ticks of the rest *)
    Lemma updo_hl e x' h' : has c' e x' h' -> forall u', In u' rest -> h_last h' < u_tick u'.
    Proof.
      intros Hh' u' Hu'. destruct (touched u e) eqn:Et.
      - apply touched_mentions in Et. destruct (updo_touched e Et) as (_ & x'' & h'' & Hh'' & Hl & _).
        destruct (has_fun c' e x' h' x'' h'' Hh' Hh'') as [-> ->]. rewrite Hl. exact (ticks_incr_head u rest Hincr u' Hu').
      - assert (Hnm : ~ mentions u e) by (intros Hm; apply touched_mentions in Hm; congruence).
        apply (updo_untouched_has e x' h' Hnm) in Hh'. apply (Hhl e x' h'); [exact (proj2 Hh')|right; exact Hu'].
    Qed.

    Section UpdT.
      Hypothesis HT : forall e x h, has c e x h ->
        exists r s1 x1, SN (h_last h) r s1 /\ vrepl slot s1 e = Some x1 /\ agreeo c e r (ce_comps x) (se_comps x1) /\
                        kinds_equiv (map fst (ce_comps x)) (map fst (se_comps x1)).
      Hypothesis Hok : upd_oko c (u :: rest) u.
      Hypothesis Hstruct : exists r s1, SN (u_tick u) r s1 /\ struct_equiv (abs_apply (client_struct c) u) (vstruct slot s1).
      Hypothesis Hnd : desp_fresh u.

      Lemma updo_no_will e t : ~ will_conf (u :: rest) (u_tick u) e t.
      Proof.
        intros (u0 & Hin & Hlt & _). destruct Hin as [<-|Hin]; [lia|]. pose proof (ticks_incr_head u rest Hincr u0 Hin). lia.
      Qed.

      Lemma updo_struct' : exists r s1, SN (u_tick u) r s1 /\ struct_equiv (client_struct c') (vstruct slot s1).
      Proof.
        destruct Hstruct as (r & s1 & Hsn & Hst). exists r, s1. split; [exact Hsn|].
        eapply struct_equiv_trans; [|exact Hst]. exact (proj1 (update_message_struct c u c' Hcs (proj1 Hshape) Happ)).
      Qed.

      (* what a replica holds keeps standing for the same server value: the target of a reference it holds was referenced
         in the snapshot of its confirmed tick, which is older than the message, so the message does not despawn it *)
      Lemma updo_vrel_kept e x h v k cv : has c e x h -> al_get k (ce_comps x) = Some cv -> vrel c v cv -> vrel c' v cv.
      Proof.
        intros Hh Hk Hr. apply (vrel_update c u c' v cv Hcs Hmo Hshape Happ Hr). intros t ->.
        destruct cv as [m|cid]; cbn [vrel] in Hr; [destruct Hr|].
        destruct (held_ref_refd_o c e x h k cid t (HT e x h Hh) Hk Hr) as (t' & r & s1 & Hsn & Hle' & Hrf).
        destruct (mem_N t (u_despawns u)) eqn:Ed; [|reflexivity]. exfalso. apply mem_N_In in Ed.
        apply (Hnd t Ed _ _ _ Hsn); [|exact Hrf]. pose proof (Hhl e x h Hh u (or_introl eq_refl)). lia.
      Qed.

      Lemma updo_T e x' h' : has c' e x' h' ->
        exists r s1 x1, SN (h_last h') r s1 /\ vrepl slot s1 e = Some x1 /\ agreeo c' e r (ce_comps x') (se_comps x1) /\
                        kinds_equiv (map fst (ce_comps x')) (map fst (se_comps x1)).
      Proof.
        intros Hh'. destruct (touched u e) eqn:Et.
        - apply touched_mentions in Et. destruct (updo_touched e Et) as (G & x'' & h'' & Hh'' & Hl & Hcomps & Hrefs).
          destruct (has_fun c' e x' h' x'' h'' Hh' Hh'') as [-> ->].
          destruct Hok as (_ & r & s1 & Hsn & Hprom). destruct (Hprom e Et) as ((Hnd0 & x1 & Hx1 & Hvals) & Hcover).
          destruct updo_struct' as (r2 & s2 & Hsn2 & Hst2). destruct (SN_tick_inj _ _ _ _ _ Hsn Hsn2) as [<- <-].
          destruct (struct_hasv c' s1 e x' h' updo_cs (SNwf _ _ _ Hsn) Hst2 Hh') as (x1' & Hr1 & Hk1).
          assert (x1' = x1) by (pose proof (vrepl_ent slot s1 e x1' Hr1); congruence). subst x1'.
          exists r, s1, x1. rewrite Hl. split; [exact Hsn|]. split; [exact Hr1|]. split; [|exact Hk1]. rewrite Hcomps.
          apply agreeo_write; [exact Hnd0| |].
          + intros k v Hin. destruct (Hvals k v Hin) as (cc & Hcc & Hval). exists cc. split; [exact Hcc|]. split; [exact Hval|].
            assert (Hvr : vrel c' v (cval_of (cl_s2c c') v)).
            { apply vrel_cval_of; [exact (ci_emap c' updo_cs)|]. intros t ->. exact (Hrefs k t Hin). }
            destruct (k =? 2) eqn:E2; [|exact Hvr]. assert (k = 2) by lia. subst k.
            exists (u_tick u), r, s1, x1, cc. split; [exact Hsn|]. split; [lia|]. split; [exact Hr1|]. split; [exact Hcc|].
            split; [reflexivity|]. rewrite Hval. exact Hvr.
          + intros k cv cc Hkv Hold Hcc.
            destruct (mem_N e (u_despawns u)); [discriminate|].
            destruct (centof c e) as [x0|] eqn:Ec0; [|discriminate]. cbn [comps_of] in Hold.
            destruct (centof_some_mapped c e x0 Ec0) as [cid0 [Hs0 _]].
            destruct (Hmo e cid0 Hs0) as [(x0' & h0 & Hh0)|(x0' & Hx0' & Hm0')].
            2:{ exfalso. assert (x0' = x0) by congruence. subst x0'.
                rewrite (proj1 (centof_unmarked_blank c e x0 Hcs Ec0 Hm0')) in Hold. discriminate. }
            assert (x0' = x0) by (destruct Hh0 as [Hc0 _]; congruence). subst x0'.
            assert (Hle : h_last h0 <= u_tick u) by (pose proof (Hhl e x0 h0 Hh0 u (or_introl eq_refl)); lia).
            destruct (HT e x0 h0 Hh0) as (r0 & s0 & x00 & H0 & Hr0 & Hag0 & _).
            assert (Hov : if k =? 2 then onceo c e r cc cv else vrel c (c_val cc) cv).
            { refine (old_value_oko c (u :: rest) (u_tick u) e _ s1 x1 (u_tick u) r x0 h0 Hsn Hx1 Hcover (updo_no_will e) Hh0 Hle
                       _ k cv cc Hkv Hold Hcc).
              exists r0, s0, x00. split; [exact H0|]. split; [exact (vrepl_ent slot s0 e x00 Hr0)|exact Hag0]. }
            destruct (k =? 2).
            * apply (onceo_kept c c'); [|exact Hov]. intros v. exact (updo_vrel_kept e x0 h0 v k cv Hh0 Hold).
            * exact (updo_vrel_kept e x0 h0 (c_val cc) k cv Hh0 Hold Hov).
        - assert (Hnm : ~ mentions u e) by (intros Hm; apply touched_mentions in Hm; congruence).
          apply (updo_untouched_has e x' h' Hnm) in Hh'. destruct Hh' as [_ Hh].
          destruct (HT e x' h' Hh) as (r0 & s0 & x00 & H0 & Hr0 & Hag0 & Hk0). exists r0, s0, x00.
          split; [exact H0|]. split; [exact Hr0|]. split; [|exact Hk0].
          apply (agreeo_kept c c' e r0 _ _ (fun k cv v Hcv => updo_vrel_kept e x' h' v k cv Hh Hcv) Hag0).
      Qed.
    End UpdT.
  End Update.

  Lemma clio_has_small c pend muts e x h : cli_invo c pend muts -> has c e x h -> small_tick (h_last h).
  Proof. intros Hi Hh. destruct (co_T _ _ _ _ _ Hi e x h Hh) as (r & s1 & x1 & Hsn & _). exact (SNsmall _ _ _ Hsn). Qed.

  Lemma ent_promiseo_mono c pend g c' pend' g' s1 e vals :
    (forall a, conf_sincer c pend g e a -> conf_sincer c' pend' g' e a) ->
    ent_promiseo c pend g s1 e vals -> ent_promiseo c' pend' g' s1 e vals.
  Proof.
    intros H [Hv Hc]. split; [exact Hv|]. destruct Hc as [Hf|(a & Hs & Hcs)]; [left; exact Hf|right].
    exists a. split; [exact Hs|exact (H a Hcs)].
  Qed.

  Lemma upd_oko_mono c pend c' pend' u :
    (forall e a, conf_sincer c pend (u_tick u) e a -> conf_sincer c' pend' (u_tick u) e a) ->
    upd_oko c pend u -> upd_oko c' pend' u.
  Proof.
    intros H (Hsh & r & s1 & Hsn & Hp). split; [exact Hsh|]. exists r, s1. split; [exact Hsn|].
    intros e Hm. apply (ent_promiseo_mono c pend (u_tick u)); [intros a; apply H|exact (Hp e Hm)].
  Qed.

  Lemma mut_oko_mono c pend c' pend' m :
    (forall u, In u pend' -> In u pend) ->
    (forall e a, conf_sincer c pend (m_upd_tick m + 1) e a -> conf_sincer c' pend' (m_upd_tick m + 1) e a) ->
    mut_oko c pend m -> mut_oko c' pend' m.
  Proof.
    intros Hsub H (Hle & Hgap & r & s1 & Hsn & Hp). split; [exact Hle|]. split; [intros u Hu; exact (Hgap u (Hsub u Hu))|].
    exists r, s1. split; [exact Hsn|]. intros e vals Hin.
    destruct (Hp e vals Hin) as (Hv & a & Hs & Hcs & Hks). split; [exact Hv|]. exists a. split; [exact Hs|]. split; [exact (H e a Hcs)|exact Hks].
  Qed.

  Lemma fold_head_structo c u c' p : cs_inv c -> upd_shaper u -> apply_update_message c u = Ok c' ->
    struct_equiv (fold_left abs_apply p (client_struct c')) (fold_left abs_apply (u :: p) (client_struct c)).
  Proof.
    intros Hcs Hsh Happ. cbn [fold_left]. apply abs_apply_fold_equiv. exact (proj1 (update_message_struct c u c' Hcs (proj1 Hsh) Happ)).
  Qed.

  Theorem clio_update c u rest muts c' :
    cli_invo c (u :: rest) muts -> apply_update_message c u = Ok c' -> cli_invo c' rest muts.
  Proof.
    intros Hi Happ. pose proof Hi as [Hcs Hpu Hmo HT Hut Hlt Hincr Hhl Hpend Hmuts Hstr Hnd].
    pose proof (Hpend u (or_introl eq_refl)) as Hok. pose proof Hok as (Hshape & r & s1 & Hsn & _).
    assert (Hsu : small_tick (u_tick u)) by exact (SNsmall _ _ _ Hsn).
    assert (Hcf : forall g e a, conf_sincer c (u :: rest) g e a -> conf_sincer c' rest g e a).
    { intros g e a. apply (updo_conf_since c u rest c'); assumption. }
    assert (Etk : cl_upd_tick c' = u_tick u) by exact (proj1 (proj2 (update_view_r c u c' Hcs Hmo Hshape Happ))).
    pose proof (Hnd u (or_introl eq_refl)) as Hndu.
    assert (Hstruct : exists r s1, SN (u_tick u) r s1 /\ struct_equiv (abs_apply (client_struct c) u) (vstruct slot s1)).
    { destruct (Hstr [] u rest eq_refl) as (r2 & s2 & H2 & E2). exists r2, s2. split; [exact H2|exact E2]. }
    constructor.
    - apply (updo_cs c u c'); assumption.
    - exact (pu_update_nomaps c u c' Hpu (proj1 Hshape) Happ).
    - apply (updo_mapped_okr c u c'); assumption.
    - intros e x' h'. apply (updo_T c u rest c'); assumption.
    - right. rewrite Etk. exists r, s1. exact Hsn.
    - intros u' Hu'. rewrite Etk. exact (ticks_incr_head u rest Hincr u' Hu').
    - exact (ticks_incr_tail u rest Hincr).
    - intros e x' h'. apply (updo_hl c u rest c'); assumption.
    - intros u' Hu'. apply (upd_oko_mono c (u :: rest)); [intros e a; apply Hcf|]. apply Hpend. right. exact Hu'.
    - intros m Hm. apply (mut_oko_mono c (u :: rest)); [intros u0 Hu0; right; exact Hu0|intros e a; apply Hcf|]. exact (Hmuts m Hm).
    - intros p u' q E. destruct (Hstr (u :: p) u' q) as (r2 & s2 & H2 & E2); [rewrite E; reflexivity|].
      exists r2, s2. split; [exact H2|]. eapply struct_equiv_trans; [|exact E2]. exact (fold_head_structo c u c' (p ++ [u']) Hcs Hshape Happ).
    - intros u' Hu'. apply Hnd. right. exact Hu'.
  Qed.

  Lemma srv_sloto_mono s cl c pend muts acks s' c' pend' :
    sv_tick s' = sv_tick s -> sv_now s' = sv_now s -> (forall u, In u pend' -> In u pend) ->
    (forall g e a, conf_sincer c pend g e a -> conf_sincer c' pend' g e a) ->
    struct_equiv (fold_left abs_apply pend' (client_struct c')) (fold_left abs_apply pend (client_struct c)) ->
    last (map u_tick pend') (cl_upd_tick c') = last (map u_tick pend) (cl_upd_tick c) ->
    srv_slot_invr s cl c pend muts acks -> srv_slot_invr s' cl c' pend' muts acks.
  Proof.
    intros Et En Hsub H Hst Hl [H1 H2 H3 H4 H5 H6 H7 H8 H9 H10 H11 H12].
    constructor.
    - intros e a Hst0. rewrite Et. apply H. exact (H1 e a Hst0).
    - intros i info e Hi Hinfo He. apply H. exact (H2 i info e Hi Hinfo He).
    - exact H3.
    - exact H4.
    - exact H5.
    - rewrite Et. exact H6.
    - intros u Hu. apply H7. apply Hsub. exact Hu.
    - exact H8.
    - intros e a Hst0 t r s0 Hs0 Hle. eapply opt_equiv_trans; [exact (H9 e a Hst0 t r s0 Hs0 Hle)|].
      apply opt_equiv_sym. exact (proj1 (struct_equiv_pointwise _ _) Hst e).
    - rewrite En. exact H10.
    - exact H11.
    - rewrite Hl. exact H12.
  Qed.

  Theorem srv_sloto_update s cl c u rest muts acks c' :
    cli_invo c (u :: rest) muts -> apply_update_message c u = Ok c' ->
    srv_slot_invr s cl c (u :: rest) muts acks -> srv_slot_invr s cl c' rest muts acks.
  Proof.
    intros Hi Happ. pose proof Hi as [Hcs Hpu Hmo HT Hut Hlt Hincr Hhl Hpend Hmuts Hstr Hnd].
    pose proof (Hpend u (or_introl eq_refl)) as (Hshape & r & s1 & Hsn & _).
    assert (Hsu : small_tick (u_tick u)) by exact (SNsmall _ _ _ Hsn).
    apply srv_sloto_mono; [reflexivity|reflexivity|intros u0 Hu0; right; exact Hu0| | |].
    - intros g e a. apply (updo_conf_since c u rest c'); assumption.
    - exact (fold_head_structo c u c' rest Hcs Hshape Happ).
    - rewrite (proj1 (proj2 (update_view_r c u c' Hcs Hmo Hshape Happ))). cbn [map]. destruct rest as [|u0 t0]; [reflexivity|].
      cbn [map last]. apply last_cons_indep.
  Qed.

  (* ================================================================ *)
  (* 2. one entry of a mutate message whose update tick has been reached *)
  (* ================================================================ *)

  Section Mutation.
    Variables (c : client) (pend : list update_msg) (muts : list mutate_msg) (m : mutate_msg)
              (e0 : N) (vals : list (N * val)) (r : step_result).
    Hypothesis Hi : cli_invo c pend muts.
    Hypothesis Hok : mut_oko c pend m.
    Hypothesis Hgate : m_upd_tick m <= cl_upd_tick c.
    Hypothesis Hin : In (e0, vals) (m_body m).
    Hypothesis Happ : apply_mutations c (m_tick m) e0 vals = Ok r.

    Lemma muto_no_will e t : ~ will_conf pend (m_upd_tick m + 1) e t.
    Proof. intros (u0 & Hu0 & Hlt & _). pose proof (co_lt _ _ _ _ _ Hi u0 Hu0). lia. Qed.

    (* every update message on its way is newer than the mutate message *)
    Lemma muto_pend_later u : In u pend -> m_tick m < u_tick u.
    Proof.
      intros Hu. destruct Hok as (_ & Hgap & _). pose proof (co_lt _ _ _ _ _ Hi u Hu) as Hlt0.
      destruct (Hgap u Hu) as [Hg|Hg]; [lia|exact Hg].
    Qed.

    Lemma muto_small : small_tick (m_tick m).
    Proof. destruct Hok as (_ & _ & r1 & s1 & Hsn & _). exact (SNsmall _ _ _ Hsn). Qed.

    Lemma muto_applied c' x h x' : has c e0 x h -> h_last h < m_tick m ->
      cs_inv c' -> s2c_grows c c' -> refs_mapped c' vals ->
      ce_comps x' = wr_compsr (cl_s2c c') vals (ce_comps x) ->
      exists r1 s1 xs, SN (m_tick m) r1 s1 /\ vrepl slot s1 e0 = Some xs /\ agreeo c' e0 r1 (ce_comps x') (se_comps xs) /\
        kinds_equiv (map fst (ce_comps x')) (map fst (se_comps xs)) /\
        kinds_equiv (map fst (ce_comps x')) (map fst (ce_comps x)).
    Proof.
      intros Hh Hlt0 Hcs' Hgrow Hrefs Hcomps. pose proof Hi as [Hcs Hpu Hmo HT Hut Hlt Hincr Hhl Hpend Hmuts Hstr Hnd].
      destruct Hok as (_ & _ & r1 & s1 & Hsn & Hp). destruct (Hp e0 vals Hin) as ((Hnd0 & xs & Hxs & Hv) & a & Hsince & Hconf & Hks).
      destruct (HT e0 x h Hh) as (r0 & s0 & x0 & H0 & Hr0 & Hag0 & Hk0).
      assert (Ha0 : a <= r0) by exact (conf_stamp_leo c pend _ e0 a x h r0 s0 Hconf (muto_no_will e0) Hh H0).
      assert (H01 : r0 <= r1) by (apply (SN_le _ _ _ _ _ _ H0 Hsn); lia).
      pose proof (Hks _ r0 s0 H0 Ha0 H01) as Hst. rewrite (vstruct_get slot s0 e0 (SNwf _ _ _ H0)), (vstruct_get slot s1 e0 (SNwf _ _ _ Hsn)), Hr0 in Hst.
      cbn [option_map] in Hst. destruct (vrepl slot s1 e0) as [xs'|] eqn:Er1; cbn [option_map opt_equiv] in Hst; [|destruct Hst].
      assert (xs' = xs) by (pose proof (vrepl_ent slot s1 e0 xs' Er1); congruence). subst xs'.
      assert (Hsub : forall k, mem_N k (map fst vals) = true -> mem_N k (map fst (se_comps xs)) = true).
      { intros k Hk. apply mem_N_In in Hk. apply in_map_iff in Hk. destruct Hk as [[k0 v] [E Hkv]]. cbn in E. subst k0.
        destruct (Hv k v Hkv) as (cc & Hcc & _). rewrite mem_keys_get, Hcc. reflexivity. }
      assert (Hkeys : forall k, mem_N k (map fst (ce_comps x')) = mem_N k (map fst (ce_comps x)) || mem_N k (map fst vals)).
      { intros k. rewrite Hcomps, (wr_compsr_mem (cl_s2c c') vals (ce_comps x) k Hnd0). apply orb_comm. }
      exists r1, s1, xs. split; [exact Hsn|]. split; [exact Er1|]. split; [|split].
      - rewrite Hcomps. apply agreeo_write0; [exact Hnd0| |].
        + intros k v Hkv. destruct (Hv k v Hkv) as (cc & Hcc & Hval). exists cc. split; [exact Hcc|]. split; [exact Hval|].
          assert (Hvr : vrel c' v (cval_of (cl_s2c c') v)).
          { apply vrel_cval_of; [exact (ci_emap c' Hcs')|]. intros t ->. exact (Hrefs k t Hkv). }
          destruct (k =? 2) eqn:E2; [|exact Hvr]. assert (k = 2) by lia. subst k.
          exists (m_tick m), r1, s1, xs, cc. split; [exact Hsn|]. split; [lia|]. split; [exact Er1|]. split; [exact Hcc|].
          split; [reflexivity|]. rewrite Hval. exact Hvr.
        + intros k cv cc Hkv Hold Hcc.
          assert (Hov : if k =? 2 then onceo c e0 r1 cc cv else vrel c (c_val cc) cv).
          { refine (old_value_oko c pend (m_upd_tick m + 1) e0 vals s1 xs (m_tick m) r1 x h Hsn Hxs _ (muto_no_will e0) Hh _ _ k cv cc Hkv Hold Hcc); [|lia|].
            * right. exists a. auto.
            * exists r0, s0, x0. split; [exact H0|]. split; [exact (vrepl_ent slot s0 e0 x0 Hr0)|exact Hag0]. }
          destruct (k =? 2).
          * apply (onceo_kept c c'); [|exact Hov]. intros v. exact (vrel_grows c c' _ _ (ci_emap c Hcs) (ci_emap c' Hcs') Hgrow).
          * exact (vrel_grows c c' _ _ (ci_emap c Hcs) (ci_emap c' Hcs') Hgrow Hov).
      - intros k. rewrite Hkeys, (Hk0 k), (Hst k). destruct (mem_N k (map fst vals)) eqn:Ev; [rewrite (Hsub k Ev); apply orb_true_r|apply orb_false_r].
      - intros k. rewrite Hkeys. destruct (mem_N k (map fst vals)) eqn:Ev; [|apply orb_false_r].
        rewrite (Hk0 k), (Hst k), (Hsub k Ev). reflexivity.
    Qed.

    Theorem muto_step :
      exists c', r = Continue c' /\ cli_invo c' pend muts /\
        (forall g e t, cgr c pend g e t -> cgr c' pend g e t) /\
        cgr c' pend 0 e0 (m_tick m) /\ same_meta c c' /\ struct_equiv (client_struct c') (client_struct c).
    Proof.
      pose proof Hi as [Hcs Hpu Hmo HT Hut Hlt Hincr Hhl Hpend Hmuts Hstr Hnd].
      destruct (mutation_view_r c (m_tick m) e0 vals r Hcs Hmo Happ) as (c' & -> & Hcs' & Hmo' & Hgrow & Hoth & Hnone & Hcase).
      exists c'. split; [reflexivity|].
      assert (Etk : cl_upd_tick c' = cl_upd_tick c).
      { destruct (same_meta_mutations c (m_tick m) e0 vals _ Happ) as (_ & _ & _ & E & _). exact E. }
      (* what happened to e0 *)
      assert (Hcases : c' = c \/
                exists x h x' h', has c e0 x h /\ h_last h < m_tick m /\ has c' e0 x' h' /\ h_last h' = m_tick m /\
                                  ce_comps x' = wr_compsr (cl_s2c c') vals (ce_comps x) /\ refs_mapped c' vals).
      { destruct (Hok) as (_ & _ & r1 & s1 & Hsn1 & Hp1). destruct (Hp1 e0 vals Hin) as (_ & a & _ & (t_a & s_a & _ & Hcg) & _).
        destruct Hcg as [Hw|[(x & h & Hh & _)|(Hno & _)]]; [exfalso; exact (muto_no_will e0 t_a Hw)| |left; exact (Hnone Hno)].
        pose proof (Hcase x h Hh) as Hc. pose proof (clio_has_small c pend muts e0 x h Hi Hh) as Hsm.
        rewrite (tick_gtb_small _ _ muto_small Hsm) in Hc.
        destruct (h_last h <? m_tick m) eqn:El; [|left; exact Hc].
        destruct Hc as (_ & x' & Hx' & Hl' & Hcomps & Hrefs). destruct (live_at_has c' e0 x' _ Hx' Hl') as [h' [Hh' Hlast]].
        right. exists x, h, x', h'. split; [exact Hh|]. split; [lia|]. auto 6. }
      (* other entities *)
      assert (Hsame : forall e x h, e <> e0 -> (has c' e x h <-> has c e x h)).
      { intros e x h Hne. exact (others_has c c' e x h (Hoth e Hne)). }
      assert (Hcg : forall g e t, cgr c pend g e t -> cgr c' pend g e t).
      { intros g e t Hc. destruct Hcases as [->|(x & h & x' & h' & Hh & Hlt0 & Hh' & Hl' & _)]; [exact Hc|].
        destruct Hc as [Hw|[(x1 & h1 & Hh1 & Hle)|(Hn & Hno)]].
        - left. exact Hw.
        - right. left. destruct (N.eq_dec e e0) as [->|Hne].
          + destruct (has_fun c e0 x h x1 h1 Hh Hh1) as [-> ->]. exists x', h'. split; [exact Hh'|lia].
          + exists x1, h1. split; [apply Hsame; assumption|exact Hle].
        - right. right. split; [|exact Hno]. destruct (N.eq_dec e e0) as [->|Hne].
          + exfalso. exact (Hn x h Hh).
          + intros x1 h1 Hh1. apply (Hn x1 h1). apply Hsame; assumption. }
      assert (Hcf : forall g e a, conf_sincer c pend g e a -> conf_sincer c' pend g e a).
      { intros g e a (t_a & s_a & H1 & H2). exists t_a, s_a. split; [exact H1|exact (Hcg g e t_a H2)]. }
      assert (Hst : struct_equiv (client_struct c') (client_struct c)).
      { destruct Hcases as [->|(x & h & x' & h' & Hh & Hlt0 & Hh' & Hl' & Hcomps & Hrefs)]; [apply struct_equiv_refl|].
        destruct (muto_applied c' x h x' Hh Hlt0 Hcs' Hgrow Hrefs Hcomps) as (_ & _ & _ & _ & _ & _ & _ & Hkx).
        intros e. rewrite (al_get_client_struct c' e (cs_inv_nodup c' Hcs')), (al_get_client_struct c e (cs_inv_nodup c Hcs)).
        destruct (N.eq_dec e e0) as [->|Hne].
        - rewrite (cs_get_has c' e0 x' h' Hh'), (cs_get_has c e0 x h Hh). exact Hkx.
        - assert (E : cs_get c' e = cs_get c e).
          { assert (G : forall cc, cs_get cc e = match centof cc e with Some y => if ce_alive y && ce_marker y then Some (map fst (ce_comps y)) else None | None => None end).
            { intros cc. unfold cs_get, centof. destruct (al_get e (cl_s2c cc)); reflexivity. }
            rewrite !G. destruct (Hoth e Hne) as [Ho|(Ho & y & Hy & Hmy)]; [rewrite Ho; reflexivity|].
            rewrite Ho, Hy, Hmy, andb_false_r. reflexivity. }
          rewrite E. apply opt_equiv_refl. }
      (* values held by the other replicas keep standing for the same server values *)
      assert (Hag : forall e r cc sc, agreeo c e r cc sc -> agreeo c' e r cc sc).
      { intros e r1 cc sc. apply agreeo_kept. intros k cv v _. exact (vrel_grows c c' _ _ (ci_emap c Hcs) (ci_emap c' Hcs') Hgrow). }
      split; [|split; [exact Hcg|split; [|split; [exact (same_meta_mutations c (m_tick m) e0 vals _ Happ)|exact Hst]]]].
      - constructor.
        + exact Hcs'.
        + exact (pu_mutations c (m_tick m) e0 vals _ Hpu Happ).
        + exact Hmo'.
        + intros e x1 h1 Hh1.
          assert (Hold : has c e x1 h1 ->
                    exists r s1 xs, SN (h_last h1) r s1 /\ vrepl slot s1 e = Some xs /\ agreeo c' e r (ce_comps x1) (se_comps xs) /\
                                    kinds_equiv (map fst (ce_comps x1)) (map fst (se_comps xs))).
          { intros Hh. destruct (HT e x1 h1 Hh) as (r0 & s0 & xs & A & B & C & D). exists r0, s0, xs. auto using Hag. }
          destruct Hcases as [->|(x & h & x' & h' & Hh & Hlt0 & Hh' & Hl' & Hcomps & Hrefs)]; [exact (Hold Hh1)|].
          destruct (N.eq_dec e e0) as [->|Hne]; [|apply Hold; apply Hsame; assumption].
          destruct (has_fun c' e0 x1 h1 x' h' Hh1 Hh') as [-> ->].
          destruct (muto_applied c' x h x1 Hh Hlt0 Hcs' Hgrow Hrefs Hcomps) as (r1 & s1 & xs & Hsn & Hrs & Hag1 & Hk1 & _).
          exists r1, s1, xs. rewrite Hl'. auto.
        + rewrite Etk. exact Hut.
        + intros u0 Hu0. rewrite Etk. exact (Hlt u0 Hu0).
        + exact Hincr.
        + intros e x1 h1 Hh1 u0 Hu0. destruct Hcases as [->|(x & h & x' & h' & Hh & Hlt0 & Hh' & Hl' & Hcomps)]; [exact (Hhl e x1 h1 Hh1 u0 Hu0)|].
          destruct (N.eq_dec e e0) as [->|Hne]; [|apply (Hhl e x1 h1); [apply Hsame; assumption|exact Hu0]].
          destruct (has_fun c' e0 x1 h1 x' h' Hh1 Hh') as [-> ->]. rewrite Hl'. exact (muto_pend_later u0 Hu0).
        + intros u0 Hu0. apply (upd_oko_mono c pend); [intros e a; apply Hcf|exact (Hpend u0 Hu0)].
        + intros m0 Hm0. apply (mut_oko_mono c pend); [auto|intros e a; apply Hcf|exact (Hmuts m0 Hm0)].
        + intros p u q E. destruct (Hstr p u q E) as (r2 & s2 & H2 & E2). exists r2, s2. split; [exact H2|].
          eapply struct_equiv_trans; [|exact E2]. apply abs_apply_fold_equiv. exact Hst.
        + exact Hnd.
      - (* the entry has been processed: confirmed at the tick of the message or later, or no replica is held and
           everything on its way is newer *)
        destruct Hok as (_ & _ & r1 & s1 & Hsn1 & Hp1). destruct (Hp1 e0 vals Hin) as (_ & a & _ & (t_a & s_a & _ & Hcg0) & _).
        destruct Hcg0 as [Hw|[(x & h & Hh & _)|(Hno & _)]]; [exfalso; exact (muto_no_will e0 t_a Hw)| |].
        + destruct Hcases as [->|(x1 & h1 & x' & h' & Hh1 & _ & Hh' & Hl' & _)].
          * right. left. exists x, h. split; [exact Hh|].
            pose proof (Hcase x h Hh) as Hc. pose proof (clio_has_small c pend muts e0 x h Hi Hh) as Hsm.
            rewrite (tick_gtb_small _ _ muto_small Hsm) in Hc.
            destruct (h_last h <? m_tick m) eqn:El; [|lia].
            (* applied, yet nothing changed: impossible, the confirmed tick moved *)
            destruct Hc as (_ & x' & Hx' & (_ & _ & h' & Hh' & Hl') & _). destruct Hh as (E0 & _ & _ & E3).
            rewrite E0 in Hx'. inversion Hx'; subst x'. rewrite E3 in Hh'. inversion Hh'; subst h'. lia.
          * right. left. exists x', h'. split; [exact Hh'|lia].
        + rewrite (Hnone Hno). right. right. split; [exact Hno|]. intros u0 Hu0 _. pose proof (muto_pend_later u0 Hu0). lia.
    Qed.
  End Mutation.

  (* ================================================================ *)
  (* 3. steps that leave every replica alone                          *)
  (* ================================================================ *)

  Lemma cgo_ext c c' pend g e t : (forall e, centof c' e = centof c e) -> cgr c pend g e t -> cgr c' pend g e t.
  Proof.
    intros H [Hw|[(x & h & Hh & Hle)|(Hn & Hno)]]; [left; exact Hw| |].
    - right. left. exists x, h. split; [apply (has_ext c c'); assumption|exact Hle].
    - right. right. split; [|exact Hno]. intros x h Hh. apply (Hn x h). apply (has_ext c c'); assumption.
  Qed.

  Lemma conf_sinceo_cg c pend c' pend' g g' e a :
    (forall t, cgr c pend g e t -> cgr c' pend' g' e t) -> conf_sincer c pend g e a -> conf_sincer c' pend' g' e a.
  Proof. intros H (t_a & s_a & H1 & H2). exists t_a, s_a. split; [exact H1|exact (H t_a H2)]. Qed.

  Lemma clio_centof c c' pend muts :
    cl_s2c c' = cl_s2c c -> cl_c2s c' = cl_c2s c -> (forall e, centof c' e = centof c e) -> cs_inv c' -> pu c' -> cl_upd_tick c' = cl_upd_tick c ->
    cli_invo c pend muts -> cli_invo c' pend muts.
  Proof.
    intros E1 E2 Hc Hcs' Hpu' Etk [Hcs Hpu Hmo HT Hut Hlt Hincr Hhl Hpend Hmuts Hstr Hnd].
    assert (Hcf : forall g e a, conf_sincer c pend g e a -> conf_sincer c' pend g e a).
    { intros g e a. apply conf_sinceo_cg. intros t. apply cgo_ext. exact Hc. }
    constructor; [exact Hcs'|exact Hpu'| | |rewrite Etk; exact Hut|intros u Hu; rewrite Etk; exact (Hlt u Hu)|exact Hincr| | | | |exact Hnd].
    - intros e cid Hs. rewrite E1 in Hs. destruct (Hmo e cid Hs) as [(x & h & Hh)|(x & Hx & Hm)].
      + left. exists x, h. apply (has_ext c c'); assumption.
      + right. exists x. rewrite Hc. auto.
    - intros e x h Hh. apply (has_ext c c') in Hh; [|exact Hc]. destruct (HT e x h Hh) as (r0 & s0 & xs & A & B & C & D).
      exists r0, s0, xs. split; [exact A|]. split; [exact B|]. split; [|exact D].
      apply (agreeo_kept c c' e r0 _ _ (fun k cv v _ => vrel_ext c c' v cv E2) C).
    - intros e x h Hh. apply (Hhl e x h). apply (has_ext c c'); assumption.
    - intros u Hu. apply (upd_oko_mono c pend); [intros e a; apply Hcf|exact (Hpend u Hu)].
    - intros m Hm. apply (mut_oko_mono c pend); [auto|intros e a; apply Hcf|exact (Hmuts m Hm)].
    - intros p u q E. destruct (Hstr p u q E) as (r2 & s2 & H2 & E2'). exists r2, s2. split; [exact H2|].
      eapply struct_equiv_trans; [|exact E2']. apply abs_apply_fold_equiv. exact (client_struct_centof c c' Hcs Hcs' E1 Hc).
  Qed.

  Lemma clio_ext c c' pend muts :
    cl_s2c c' = cl_s2c c -> cl_c2s c' = cl_c2s c -> cl_ents c' = cl_ents c -> cl_next c' = cl_next c ->
    cl_upd_tick c' = cl_upd_tick c -> cli_invo c pend muts -> cli_invo c' pend muts.
  Proof.
    intros E1 E2 E3 E4 E5 Hi. apply (clio_centof c c'); [exact E1|exact E2| | | |exact E5|exact Hi].
    - intros e. apply centof_ext; assumption.
    - exact (cs_inv_ext c c' E1 E2 E3 E4 (co_cs _ _ _ _ _ Hi)).
    - exact (pu_ext c c' E2 E3 E4 (co_pu _ _ _ _ _ Hi)).
  Qed.

  Lemma clio_muts c pend muts muts' : (forall m, In m muts' -> In m muts) -> cli_invo c pend muts -> cli_invo c pend muts'.
  Proof. intros H [H1 H2 H3 H4 H5 H6 H7 H8 H9 H10 H11 H12]. constructor; try assumption. intros m Hm. apply H10. apply H. exact Hm. Qed.

  (* ================================================================ *)
  (* 4. a whole mutate message, the buffer                            *)
  (* ================================================================ *)

  Lemma muto_body pend muts m : forall body c0 r,
    incl body (m_body m) -> cli_invo c0 pend muts -> mut_oko c0 pend m -> m_upd_tick m <= cl_upd_tick c0 ->
    run_array (fun c b => apply_mutations c (m_tick m) (fst b) (snd b)) body c0 = Ok r ->
    exists c1, r = Continue c1 /\ cli_invo c1 pend muts /\
      (forall g e t, cgr c0 pend g e t -> cgr c1 pend g e t) /\ same_meta c0 c1 /\
      struct_equiv (client_struct c1) (client_struct c0) /\
      forall e vals, In (e, vals) body -> cgr c1 pend 0 e (m_tick m).
  Proof.
    induction body as [|[e0 vals] t IH]; intros c0 r Hincl Hi Hok Hgate H.
    - rewrite run_array_nil in H. inversion H; subst r. exists c0. split; [reflexivity|]. split; [exact Hi|]. split; [auto|].
      split; [apply same_meta_refl|]. split; [apply struct_equiv_refl|intros e vals []].
    - rewrite run_array_cons in H. cbn [fst snd] in H.
      destruct (apply_mutations c0 (m_tick m) e0 vals) as [r0| |] eqn:E0; try discriminate.
      destruct (muto_step c0 pend muts m e0 vals r0 Hi Hok Hgate (Hincl _ (or_introl eq_refl)) E0) as (c1 & -> & Hi1 & Hcg1 & Hack1 & Hsm1 & Hst1).
      assert (Hok1 : mut_oko c1 pend m).
      { apply (mut_oko_mono c0 pend); [auto| |exact Hok]. intros e a. apply conf_sinceo_cg. intros t0. apply Hcg1. }
      assert (Hgate1 : m_upd_tick m <= cl_upd_tick c1) by (destruct Hsm1 as (_ & _ & _ & E & _); rewrite E; exact Hgate).
      destruct (IH c1 r (fun b Hb => Hincl b (or_intror Hb)) Hi1 Hok1 Hgate1 H) as (c2 & -> & Hi2 & Hcg2 & Hsm2 & Hst2 & Hack2).
      exists c2. split; [reflexivity|]. split; [exact Hi2|]. split; [intros g e t1 Hc; apply Hcg2; apply Hcg1; exact Hc|].
      split; [exact (same_meta_trans _ _ _ Hsm1 Hsm2)|]. split; [exact (struct_equiv_trans _ _ _ Hst2 Hst1)|].
      intros e vals0 [Heq|Hin]; [inversion Heq; subst e vals0; apply Hcg2; exact Hack1|exact (Hack2 e vals0 Hin)].
  Qed.

  Lemma gateo_open c pend muts m : cli_invo c pend muts -> mut_oko c pend m ->
    gated (cl_upd_tick c) m = false -> m_upd_tick m <= cl_upd_tick c.
  Proof.
    intros Hi (Hle & _ & r1 & s1 & Hsn & _) Hg. unfold gated in Hg.
    assert (S1 : small_tick (m_upd_tick m)) by (pose proof (SNsmall _ _ _ Hsn) as S; unfold small_tick in *; lia).
    assert (S2 : small_tick (cl_upd_tick c)).
    { destruct (co_ut _ _ _ _ _ Hi) as [->|(r & s0 & H0)]; [unfold small_tick; rewrite Npow31; lia|exact (SNsmall _ _ _ H0)]. }
    rewrite (tick_gtb_small _ _ S1 S2) in Hg. lia.
  Qed.

  Lemma mmo_loop pend muts upd l : forall c0 kept acks evs st',
    (forall m, In m l -> In m muts) -> cli_invo c0 pend muts -> cl_upd_tick c0 = upd ->
    fold_left (res_step (mm_step upd)) l (Ok (c0, kept, acks, evs)) = Ok st' ->
    cli_invo (mm_client st') pend muts /\ cl_upd_tick (mm_client st') = upd /\
    (forall g e t, cgr c0 pend g e t -> cgr (mm_client st') pend g e t) /\
    struct_equiv (client_struct (mm_client st')) (client_struct c0) /\
    forall m, In m l -> gated upd m = false -> forall e vals, In (e, vals) (m_body m) -> cgr (mm_client st') pend 0 e (m_tick m).
  Proof.
    induction l as [|m t IH]; intros c0 kept acks evs st' Hsub Hi Etk H.
    - cbn in H. inversion H; subst st'. unfold mm_client; cbn [fst]. split; [exact Hi|]. split; [exact Etk|]. split; [auto|]. split; [apply struct_equiv_refl|intros m []].
    - apply fold_res_cons_ok in H. destruct H as [st1 [E1 H]]. cbn [mm_step] in E1.
      assert (Hm : In m muts) by (apply Hsub; left; reflexivity).
      pose proof (co_muts _ _ _ _ _ Hi m Hm) as Hok.
      destruct (tick_gtb (m_upd_tick m) upd) eqn:Eg.
      + inversion E1; subst st1. destruct (IH c0 _ _ _ st' (fun m0 H0 => Hsub m0 (or_intror H0)) Hi Etk H) as (A & B & C & S0 & D).
        split; [exact A|]. split; [exact B|]. split; [exact C|]. split; [exact S0|]. intros m0 [<-|Hin] Hg; [unfold gated in Hg; congruence|exact (D m0 Hin Hg)].
      + apply bind_ok in E1. destruct E1 as [r [Er E1]].
        assert (Hgate : m_upd_tick m <= cl_upd_tick c0) by (apply (gateo_open c0 pend muts m Hi Hok); unfold gated; rewrite Etk; exact Eg).
        destruct (muto_body pend muts m (m_body m) c0 r (fun b Hb => Hb) Hi Hok Hgate Er) as (c1 & -> & Hi1 & Hcg1 & Hsm1 & Hstb & Hack1).
        assert (Hst1 : exists c2 k2 a2 e2, st1 = (c2, k2, a2, e2) /\ cl_s2c c2 = cl_s2c c1 /\ cl_c2s c2 = cl_c2s c1 /\
                        cl_ents c2 = cl_ents c1 /\ cl_next c2 = cl_next c1 /\ cl_upd_tick c2 = cl_upd_tick c1).
        { destruct (cl_mticks c1) as [mtk|].
          - apply bind_ok in E1. destruct E1 as [[mtk' done] [_ E1]]. inversion E1; subst st1. do 4 eexists. split; [reflexivity|]. cbn. auto 6.
          - inversion E1; subst st1. do 4 eexists. split; [reflexivity|]. auto 6. }
        destruct Hst1 as (c2 & k2 & a2 & e2 & -> & X1 & X2 & X3 & X4 & X5).
        assert (Hi2 : cli_invo c2 pend muts) by (apply (clio_ext c1 c2); assumption).
        assert (Etk2 : cl_upd_tick c2 = upd) by (rewrite X5; destruct Hsm1 as (_ & _ & _ & E & _); rewrite E; exact Etk).
        assert (Hc21 : forall e, centof c2 e = centof c1 e) by (intros e; apply centof_ext; assumption).
        destruct (IH c2 _ _ _ st' (fun m0 H0 => Hsub m0 (or_intror H0)) Hi2 Etk2 H) as (A & B & C & S0 & D).
        split; [exact A|]. split; [exact B|]. split; [|split].
        * intros g e t1 Hc. apply C. apply (cgo_ext c1 c2); [exact Hc21|]. apply Hcg1. exact Hc.
        * eapply struct_equiv_trans; [exact S0|]. eapply struct_equiv_trans; [|exact Hstb].
          exact (client_struct_centof c1 c2 (co_cs _ _ _ _ _ Hi1) (co_cs _ _ _ _ _ Hi2) X1 Hc21).
        * intros m0 [<-|Hin] Hg; [|exact (D m0 Hin Hg)]. intros e vals Hb. apply C. apply (cgo_ext c1 c2); [exact Hc21|]. exact (Hack1 e vals Hb).
  Qed.

  (* ================================================================ *)
  (* 5. a whole client frame                                          *)
  (* ================================================================ *)

  Lemma inboxo_fold muts : forall us c lupd c1,
    cli_invo c (us ++ lupd) muts ->
    fold_left (res_step apply_update_message) us (Ok c) = Ok c1 ->
    cli_invo c1 lupd muts /\
    (forall g e a, conf_sincer c (us ++ lupd) g e a -> conf_sincer c1 lupd g e a) /\ same_buf c c1 /\
    struct_equiv (fold_left abs_apply lupd (client_struct c1)) (fold_left abs_apply (us ++ lupd) (client_struct c)).
  Proof.
    induction us as [|u t IH]; intros c lupd c1 Hi H.
    - cbn in H. inversion H; subst c1. split; [exact Hi|]. split; [auto|]. split; [split; reflexivity|apply struct_equiv_refl].
    - apply fold_res_cons_ok in H. destruct H as [c2 [E H]]. cbn [app] in Hi.
      pose proof (clio_update c u (t ++ lupd) muts c2 Hi E) as Hi2.
      destruct (IH c2 lupd c1 Hi2 H) as (A & B & [C1 C2] & S0).
      pose proof Hi as [Hcs Hpu Hmo HT Hut Hlt Hincr Hhl Hpend Hmuts Hstr Hnd].
      pose proof (Hpend u (or_introl eq_refl)) as (Hshape0 & _).
      split; [exact A|]. split; [|split].
      3:{ eapply struct_equiv_trans; [exact S0|]. exact (fold_head_structo c u c2 (t ++ lupd) Hcs Hshape0 E). }
      + intros g e a Hc. apply B.
        pose proof (Hpend u (or_introl eq_refl)) as (Hshape & r & s1 & Hsn & _).
        assert (Hsu : small_tick (u_tick u)) by exact (SNsmall _ _ _ Hsn).
        apply (updo_conf_since c u (t ++ lupd) c2); assumption.
      + destruct (same_buf_update c u c2 E) as [A1 A2]. split; congruence.
  Qed.

  Theorem clio_frame c lupd muts ops c' out :
    cli_invo c (cl_inbox_upd c ++ lupd) muts -> (forall m, In m (cl_inbox_mut c ++ cl_buffered c) -> In m muts) ->
    cl_status c = Connected -> client_frame c ops = Ok (c', out) ->
    cli_invo c' lupd muts /\
    (forall g e a, conf_sincer c (cl_inbox_upd c ++ lupd) g e a -> conf_sincer c' lupd g e a) /\
    cl_inbox_upd c' = [] /\ cl_inbox_mut c' = [] /\ cl_status c' = Connected /\
    (forall m, In m (cl_buffered c') -> In m (cl_inbox_mut c ++ cl_buffered c)) /\
    (forall i, In i (cfo_acks out) -> exists m, In m (cl_inbox_mut c ++ cl_buffered c) /\ m_idx m = i /\
       forall e vals, In (e, vals) (m_body m) -> cgr c' lupd 0 e (m_tick m)) /\
    struct_equiv (fold_left abs_apply lupd (client_struct c')) (fold_left abs_apply (cl_inbox_upd c ++ lupd) (client_struct c)) /\
    cl_upd_tick c' = last (map u_tick (cl_inbox_upd c)) (cl_upd_tick c) /\
    cl_buffered c' = filter (gated (cl_upd_tick c')) (fold_left (fun b m => buffer_insert m b) (cl_inbox_mut c) (cl_buffered c)) /\
    cfo_acks out = map m_idx (filter (fun m => negb (gated (cl_upd_tick c') m)) (fold_left (fun b m => buffer_insert m b) (cl_inbox_mut c) (cl_buffered c))).
  Proof.
    intros Hi Hsub Hc H.
    assert (Htick' : cl_upd_tick c' = last (map u_tick (cl_inbox_upd c)) (cl_upd_tick c)).
    { pose proof H as H'. unfold client_frame in H'. rewrite Hc, andb_false_r in H'. apply bind_ok in H'. destruct H' as [[c2' out2'] [E' H']].
      inversion H'; subst c' out. cbn [set_locals cl_upd_tick]. rewrite cops_keep_tick. exact (replication_tick_is_last c c2' out2' E'). }
    destruct (frame_clears_inbox c ops c' out Hc H) as [Hinb Hst].
    unfold client_frame in H. rewrite Hc, andb_false_r in H.
    apply bind_ok in H. destruct H as [[c2 out2] [E H]]. inversion H; subst c' out. clear H.
    unfold apply_replication in E. apply bind_ok in E. destruct E as [c1 [E1 E]].
    change (fold_left (res_step apply_update_message) (cl_inbox_upd c) (Ok c) = Ok c1) in E1. fold (merge_mut_inbox c1) in E.
    destruct (inboxo_fold muts _ c lupd c1 Hi E1) as (Hi1 & Hcf1 & [B1 B2] & Sfold).
    set (cm := merge_mut_inbox c1) in *.
    assert (Him : cli_invo cm lupd muts) by (apply (clio_ext c1 cm); try reflexivity; exact Hi1).
    assert (Hcm1 : forall e, centof cm e = centof c1 e) by (intros e; apply centof_ext; reflexivity).
    assert (Hbm : forall m, In m (cl_buffered cm) -> In m (cl_inbox_mut c ++ cl_buffered c)).
    { intros m Hin. unfold cm, merge_mut_inbox in Hin. cbn in Hin. apply fold_buffer_insert_in in Hin. rewrite B1, B2 in Hin. exact Hin. }
    destruct (mutate_messages_kept_acks cm c2 out2 E) as [Kb Ka].
    pose proof (mutate_messages_keep_inbox_mut cm c2 out2 E) as Kim.
    pose proof (mutate_messages_keep_tick cm c2 out2 E) as Ktk.
    rewrite apply_mutate_messages_eq in E. apply bind_ok in E. destruct E as [st [Ef E]].
    destruct (mmo_loop lupd muts (cl_upd_tick cm) (cl_buffered cm) cm [] [] [] st (fun m Hm => Hsub m (Hbm m Hm)) Him eq_refl Ef)
      as (His & Etks & Hcgs & Sloop & Hacks).
    destruct st as [[[c0 kept] acks] evs]. inversion E; subst c2 out2. clear E. unfold mm_client in *; cbn [fst] in *.
    set (c2 := set_buffered c0 kept (cl_mticks c0)) in *.
    assert (Hi2 : cli_invo c2 lupd muts) by (apply (clio_ext c0 c2); try reflexivity; exact His).
    assert (Hc20 : forall e, centof c2 e = centof c0 e) by (intros e; apply centof_ext; reflexivity).
    destruct (cops_view ops c2 (co_cs _ _ _ _ _ Hi2) (co_pu _ _ _ _ _ Hi2)) as (V1 & V2 & V3 & V4). cbv zeta in V1, V2, V3, V4.
    set (c3 := fold_left apply_cop ops c2) in *.
    destruct (cops_fields ops c2) as (K1 & K2 & K3 & K4). fold c3 in K1, K2, K3, K4.
    assert (Hi3 : cli_invo c3 lupd muts).
    { apply (clio_centof c2 c3); [exact V3|apply cops_c2s|exact V4|exact V1|exact V2|apply cops_keep_tick|exact Hi2]. }
    assert (Hc'3 : forall e, centof (set_locals c3) e = centof c3 e) by (intros e; apply centof_ext; reflexivity).
    assert (Hall : forall e, centof (set_locals c3) e = centof c0 e) by (intros e; rewrite Hc'3, V4, Hc20; reflexivity).
    split; [apply (clio_ext c3 (set_locals c3)); try reflexivity; exact Hi3|].
    split.
    { intros g e a Hcs. apply (conf_sinceo_cg c0 lupd (set_locals c3) lupd g g e a); [intros t; apply cgo_ext; exact Hall|].
      apply (conf_sinceo_cg cm lupd c0 lupd g g e a); [intros t; apply Hcgs|].
      apply (conf_sinceo_cg c1 lupd cm lupd g g e a); [intros t; apply cgo_ext; exact Hcm1|]. exact (Hcf1 g e a Hcs). }
    split; [exact Hinb|]. split.
    { cbn [set_locals cl_inbox_mut]. rewrite K2, Kim. reflexivity. }
    split; [exact Hst|]. split.
    { intros m Hin. cbn [set_locals cl_buffered] in Hin. rewrite K3, Kb in Hin. apply filter_In in Hin. exact (Hbm m (proj1 Hin)). }
    split.
    { intros i Hin. cbn [cfo_acks] in Ka. cbn [cfo_acks] in Hin. rewrite Ka in Hin. apply in_map_iff in Hin. destruct Hin as [m [Em Hin]].
      apply filter_In in Hin. destruct Hin as [Hin Hg]. exists m. split; [exact (Hbm m Hin)|]. split; [exact Em|].
      intros e vals Hb. apply (cgo_ext c0 (set_locals c3)); [exact Hall|].
      apply (Hacks m Hin) with (vals := vals); [|exact Hb]. destruct (gated (cl_upd_tick cm) m); [discriminate|reflexivity]. }
    (* the structure *)
    assert (S3 : struct_equiv (client_struct (set_locals c3)) (client_struct c1)).
    { assert (I3' : cs_inv (set_locals c3)) by (revert V1; apply cs_inv_ext; reflexivity).
      eapply struct_equiv_trans; [exact (client_struct_centof c3 (set_locals c3) V1 I3' eq_refl Hc'3)|].
      eapply struct_equiv_trans; [exact (client_struct_centof c2 c3 (co_cs _ _ _ _ _ Hi2) V1 V3 V4)|].
      eapply struct_equiv_trans; [exact (client_struct_centof c0 c2 (co_cs _ _ _ _ _ His) (co_cs _ _ _ _ _ Hi2) eq_refl Hc20)|].
      eapply struct_equiv_trans; [exact Sloop|].
      exact (client_struct_centof c1 cm (co_cs _ _ _ _ _ Hi1) (co_cs _ _ _ _ _ Him) eq_refl Hcm1). }
    split; [eapply struct_equiv_trans; [|exact Sfold]; apply abs_apply_fold_equiv; exact S3|].
    split; [exact Htick'|].
    assert (Ecm : cl_buffered cm = fold_left (fun b m => buffer_insert m b) (cl_inbox_mut c) (cl_buffered c)).
    { unfold cm, merge_mut_inbox. cbn. rewrite B1, B2. reflexivity. }
    assert (Etcm : cl_upd_tick cm = cl_upd_tick (set_locals c3)).
    { rewrite Htick'. unfold cm, merge_mut_inbox. cbn. exact (update_fold_tick _ _ _ E1). }
    cbn [set_locals cl_buffered]. rewrite K3. change (cl_buffered c2) with kept. cbn [cfo_acks] in Ka.
    change (cl_buffered (set_buffered c0 kept (cl_mticks c0))) with kept in Kb. rewrite <- Ecm, <- Etcm. split; [exact Kb|exact Ka].
  Qed.
End CliInvR.
