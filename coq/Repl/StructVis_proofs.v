(* C03, server half, all visibility policies: one tick.  `send_for_client` for a client that carries a
   ClientVisibility sends the structural diff between what the client holds and the VISIBLE part of
   the replicated structure.  Definitions: Repl/StructVisSpec.v. *)
From RV Require Import Lib.Res Repl.ClientTicks Repl.ClientTicks_proofs Repl.World Vis.Visibility Vis.VisSpec
  Vis.Visibility_proofs Tick.RepliconTick Repl.Server Repl.ServerSpec Repl.Server_proofs Repl.StructSpec
  Repl.Struct_proofs Repl.StructOps_proofs Repl.StructVisSpec.
From Coq Require Import ZifyBool ZifyN.
Open Scope N_scope.
Ltac Zify.zify_post_hook ::= Z.div_mod_to_equations.
Arguments N.add : simpl never. Arguments N.mul : simpl never. Arguments N.pow : simpl never.
Arguments N.ltb : simpl never. Arguments N.leb : simpl never. Arguments N.div : simpl never.
Arguments N.modulo : simpl never. Arguments N.sub : simpl never. Arguments N.eqb : simpl never.

(* ================= 0. the ClientVisibility, entity by entity ================= *)

Lemma lost_in_view v e : lost_in v e = lost_cell (is_whitelist v) (view v e).
Proof. destruct v as [[l|l] a r]; reflexivity. Qed.

(* a legal view determines everything the server reads *)
Lemma view_reads v e cur prev : view v e = conc (is_whitelist v) cur prev ->
  v_prev v e = prev /\ is_visible v e = cur /\ state v e = classify cur prev.
Proof.
  intros H. split; [|split; [exact (is_visible_conc v e cur prev H)|exact (state_conc v e cur prev H)]].
  unfold v_prev. rewrite (state_conc v e cur prev H), lost_in_view, H, lost_cell_conc.
  destruct cur, prev; reflexivity.
Qed.

Lemma vis_legal_blacklist : vis_legal blacklist.
Proof. intros e. exists true, true. reflexivity. Qed.

Lemma vis_legal_whitelist : vis_legal whitelist.
Proof. intros e. exists false, false. reflexivity. Qed.

(* `set_visibility` changes what is visible now, never what the last tick was told *)
Lemma set_visibility_legal v e b : vis_legal v ->
  vis_legal (set_visibility v e b) /\ forall e', v_prev (set_visibility v e b) e' = v_prev v e'.
Proof.
  intros Hl.
  assert (H : forall e', exists cur prev, view v e' = conc (is_whitelist v) cur prev /\
            exists cur', view (set_visibility v e b) e' = conc (is_whitelist (set_visibility v e b)) cur' prev).
  { intros e'. destruct (Hl e') as [cur [prev Hv]]. exists cur, prev. split; [exact Hv|].
    rewrite is_whitelist_set_visibility, view_set_visibility. destruct (e' =? e).
    - exists b. rewrite Hv. apply set_cell_conc.
    - exists cur. exact Hv. }
  split.
  - intros e'. destruct (H e') as [cur [prev [_ [cur' Hv']]]]. exists cur', prev. exact Hv'.
  - intros e'. destruct (H e') as [cur [prev [Hv [cur' Hv']]]].
    rewrite (proj1 (view_reads _ _ _ _ Hv')), (proj1 (view_reads _ _ _ _ Hv)). reflexivity.
Qed.

(* after `update` the last tick is the present *)
Lemma update_legal v : vis_legal v ->
  vis_legal (update v) /\ forall e, v_prev (update v) e = is_visible v e /\ is_visible (update v) e = is_visible v e.
Proof.
  intros Hl.
  assert (H : forall e, exists cur prev, view v e = conc (is_whitelist v) cur prev /\
            view (update v) e = conc (is_whitelist (update v)) cur cur).
  { intros e. destruct (Hl e) as [cur [prev Hv]]. exists cur, prev. split; [exact Hv|].
    rewrite is_whitelist_update, view_update, Hv. apply update_cell_conc. }
  split.
  - intros e. destruct (H e) as [cur [prev [_ Hv']]]. exists cur, cur. exact Hv'.
  - intros e. destruct (H e) as [cur [prev [Hv Hv']]].
    destruct (view_reads _ _ _ _ Hv) as [_ [Hc _]]. destruct (view_reads _ _ _ _ Hv') as [Hp' [Hc' _]].
    rewrite Hp', Hc', Hc. split; reflexivity.
Qed.

(* ================= 1. collect_despawns with a ClientVisibility ================= *)

Lemma collect_despawns_some buf t v :
  collect_despawns buf t (Some v) =
  (sort_N (snd (drain_lost v)) ++ snd (despawn_loop (fst (drain_lost v)) buf),
   fold_left remove_entity buf (fold_left remove_entity (sort_N (snd (drain_lost v))) t),
   Some (fst (despawn_loop (fst (drain_lost v)) buf))).
Proof.
  unfold collect_despawns. destruct (drain_lost v) as [v1 l]. cbn [fst snd].
  generalize (sort_N l) as des. intros des. generalize (fold_left remove_entity des t) as t0.
  revert des v1. induction buf as [|e buf IH]; intros des v1 t0; cbn [fold_left despawn_loop].
  - cbn [fst snd]. rewrite app_nil_r. reflexivity.
  - rewrite IH. destruct (despawn_loop (remove_despawned v1 e) buf) as [v' ds]. cbn [fst snd].
    destruct (is_visible v1 e); [rewrite <- app_assoc|]; reflexivity.
Qed.

Lemma mem_N_count l e : mem_N e l = match count_occ N.eq_dec l e with O => false | S _ => true end.
Proof.
  induction l as [|a l IH]; cbn [count_occ]; [reflexivity|]. rewrite mem_N_cons, IH.
  destruct (N.eq_dec a e) as [-> | Hne]; [rewrite N.eqb_refl; reflexivity|].
  replace (e =? a) with false by lia. reflexivity.
Qed.

Lemma mem_N_sort e l : mem_N e (sort_N l) = mem_N e l.
Proof.
  destruct (mem_N e l) eqn:E.
  - apply mem_N_In. apply In_sort_N. apply mem_N_In. exact E.
  - apply mem_N_false. intros H. apply (proj1 (In_sort_N l e)) in H. apply (proj2 (mem_N_In e l)) in H. congruence.
Qed.

(* what `collect_despawns` leaves, per entity: [n] is the number of occurrences of e in the despawn buffer *)
Lemma mid_spec s v e cur prev :
  view v e = conc (is_whitelist v) cur prev ->
  let wl := is_whitelist v in
  let n := count_occ N.eq_dec (sv_despawn_buf s) e in
  is_whitelist (mid_vis s v) = wl /\
  view (mid_vis s v) e = match n with O => conc wl cur (prev && cur) | S _ => conc wl (negb wl) (negb wl) end /\
  mem_N e (loop_list s v) = loop_record wl cur n /\
  mem_N e (lost_list v) = prev && negb cur.
Proof.
  intros Hv wl n. unfold mid_vis, loop_list, lost_list.
  pose proof (is_whitelist_drain_lost v) as Hwl1. pose proof (view_drain_lost v e) as Hv1.
  pose proof (In_drain_lost v e) as Hlost.
  destruct (drain_lost v) as [v1 lost]. cbn [fst snd] in *. fold wl in Hwl1, Hv1, Hlost, Hv.
  rewrite Hv, drain_cell_conc in Hv1. rewrite Hv, lost_cell_conc in Hlost.
  destruct (despawn_loop v1 (sv_despawn_buf s)) as [v2 ds] eqn:Hloop. cbn [fst snd].
  destruct (despawn_loop_spec wl _ _ _ _ Hwl1 Hloop) as [Hwl2 Hl].
  assert (Hside : wl = true -> cur = false -> prev && cur = false) by (intros _ ->; apply andb_false_r).
  destruct (Hl e cur (prev && cur) Hv1 Hside) as [Hv2 Hin]. fold n in Hv2, Hin.
  split; [exact Hwl2|]. split; [exact Hv2|]. split.
  - destruct (loop_record wl cur n) eqn:E.
    + apply mem_N_In. apply Hin. reflexivity.
    + apply mem_N_false. intros H. apply Hin in H. discriminate.
  - rewrite mem_N_sort. destruct (prev && negb cur) eqn:E.
    + apply mem_N_In. apply Hlost. reflexivity.
    + apply mem_N_false. intros H. apply Hlost in H. discriminate.
Qed.

Section SomeVis.
Variables (s : server) (cl : sclient) (run : N) (v : vis).
Hypothesis Hvis : sc_vis cl = Some v.

Lemma sv_despawns : sfc_despawns s cl = lost_list v ++ loop_list s v.
Proof. unfold sfc_despawns. rewrite Hvis, collect_despawns_some. reflexivity. Qed.

Lemma sv_ticks1 :
  sfc_ticks1 s cl = fold_left remove_entity (sv_despawn_buf s) (fold_left remove_entity (lost_list v) (sc_ticks cl)).
Proof. unfold sfc_ticks1. rewrite Hvis, collect_despawns_some. reflexivity. Qed.

Lemma sv_vis1 : sfc_vis1 s cl = Some (mid_vis s v).
Proof. unfold sfc_vis1. rewrite Hvis, collect_despawns_some. reflexivity. Qed.

Lemma sv_mt1 e :
  mutation_tick (sfc_ticks1 s cl) e =
  if mem_N e (sv_despawn_buf s) || mem_N e (lost_list v) then None else mutation_tick (sc_ticks cl) e.
Proof.
  rewrite sv_ticks1, !remove_fold_tick.
  destruct (mem_N e (sv_despawn_buf s)), (mem_N e (lost_list v)); reflexivity.
Qed.

Lemma sv_removals :
  sfc_removals s cl = sort_by_key (filter (fun r => is_visible (mid_vis s v) (fst r)) (sv_removal_buf s)).
Proof. unfold sfc_removals, collect_removals. rewrite sv_vis1. reflexivity. Qed.

(* the changes array: one entry per replicated entity whose `collect_entity` produces one *)
Lemma sv_changed_entry e x madd en : ents_wf s -> In (e, x, madd) (replicated_ents s) ->
  (In (e, en) (changed_set s run cl) <->
   ec_entry (cep (sv_last_run s) (sv_tick s) (sv_removal_buf s) (mutation_tick (sfc_ticks1 s cl) e)
                 (state (mid_vis s v) e) e x madd) = Some en).
Proof.
  intros Hwf Hin. rewrite changed_set_eq, In_entries_of, (sfc_ecs_nodup s run cl Hwf), sv_vis1. cbn [vis_state_of].
  split.
  - intros [ec [Hi Hen]]. apply in_map_iff in Hi. destruct Hi as [[[e' x'] madd'] [Heq Hi]].
    cbn [ent_id fst snd] in Heq. injection Heq as -> <-.
    destruct (repl_ents_unique _ _ _ _ _ _ Hwf Hin Hi) as [-> ->]. exact Hen.
  - intros Hen. eexists. split; [|exact Hen]. apply in_map_iff. exists (e, x, madd). split; [reflexivity|exact Hin].
Qed.

Lemma sv_changed_keys e : In e (map fst (changed_set s run cl)) -> In e (map ent_id (replicated_ents s)).
Proof.
  rewrite changed_set_eq. intros H. apply entries_of_keys_incl in H. rewrite sfc_ecs_ids in H. exact H.
Qed.

End SomeVis.

(* ================= 2. the structure filtered by a visibility ================= *)

Lemma al_get_vis_filter vo (st : structure) e :
  al_get e (vis_filter vo st) = if vis_visible vo e then al_get e st else None.
Proof.
  unfold vis_filter. induction st as [|[k ks] st IH]; cbn [filter al_get fst].
  - destruct (vis_visible vo e); reflexivity.
  - destruct (vis_visible vo k) eqn:Ek; cbn [al_get].
    + destruct (k =? e) eqn:E; [|exact IH]. assert (k = e) by lia. subst k. rewrite Ek. reflexivity.
    + rewrite IH. destruct (k =? e) eqn:E; [|reflexivity]. assert (k = e) by lia. subst k. rewrite Ek. reflexivity.
Qed.

Lemma vis_filter_none (st : structure) : vis_filter None st = st.
Proof. unfold vis_filter. apply filter_all. reflexivity. Qed.

Lemma vis_filter_ext vo vo' (st : structure) :
  (forall e, vis_visible vo' e = vis_visible vo e) -> vis_filter vo' st = vis_filter vo st.
Proof. intros H. unfold vis_filter. apply filter_ext. intros ek. apply H. Qed.

(* removal records of a visible entity: exactly what the removal buffer holds *)
Lemma rem_buffered_filtered s (p : N -> bool) e k : NoDup (al_keys (sv_removal_buf s)) ->
  (existsb (fun r => (fst r =? e) && mem_N k (snd r))
           (sort_by_key (filter (fun r : N * list N => p (fst r)) (sv_removal_buf s))) = true
   <-> p e = true /\ rem_buffered s e k).
Proof.
  intros Hnd. rewrite exists_removals. unfold rem_buffered. split.
  - intros [ks [Hin Hk]]. apply (proj1 (In_sort_by_key _ _)) in Hin. apply filter_In in Hin.
    destruct Hin as [Hin Hp]. cbn [fst] in Hp. split; [exact Hp|]. exists ks. split; [|exact Hk].
    apply In_al_get_nodup; assumption.
  - intros [Hp [ks [Hg Hk]]]. exists ks. split; [|exact Hk]. apply In_sort_by_key. apply filter_In.
    split; [apply al_get_In; exact Hg|exact Hp].
Qed.

(* ================= 3. the server without its clients ================= *)

Lemma srv_base_strip s : srv_base_v s <-> srv_base (strip s).
Proof.
  split.
  - intros [H1 H2 H3 H4]. constructor; [exact H1|intros cl []|exact H2|exact H3|exact H4].
  - intros [H1 _ H2 H3 H4]. constructor; [exact H1|exact H2|exact H3|exact H4].
Qed.

Lemma srv_ok_strip s : srv_ok_v s <-> srv_ok (strip s).
Proof. unfold srv_ok_v, srv_ok. rewrite srv_base_strip. reflexivity. Qed.

(* ================= 4. a tick sends the diff of the visible structure ================= *)

Section TickV.
Variables (s : server) (cl : sclient) (run : N) (st : structure) (v : vis).
Hypothesis Hok : srv_ok_v s.
Hypothesis Hev : sv_removed_events s = [].
Hypothesis Hvis : sc_vis cl = Some v.
Hypothesis Hp : pending_ok s (sc_ticks cl) st.
Hypothesis Hleg : vis_legal v.
Hypothesis Hprev : forall e, al_get e st <> None -> v_prev v e = true.

Let Hwf : ents_wf s := sb_wf s (proj1 Hok).
Let mid := mid_vis s v.
Let D := sfc_despawns s cl.

(* everything the proof needs to know about one entity *)
Lemma ent_facts e :
  (al_get e st <> None -> In e (sv_despawn_buf s) -> mem_N e D = true) /\
  (al_get e st <> None -> is_visible mid e = false -> mem_N e D = true) /\
  (mem_N e D = true -> mutation_tick (sfc_ticks1 s cl) e = None) /\
  (al_get e st = None -> mutation_tick (sfc_ticks1 s cl) e = None) /\
  (al_get e st <> None -> mem_N e D = false ->
   state mid e = VVisible /\ is_visible mid e = true /\ ~ In e (sv_despawn_buf s) /\
   mutation_tick (sfc_ticks1 s cl) e = mutation_tick (sc_ticks cl) e).
Proof.
  destruct (Hleg e) as [cur [prev Hv]].
  destruct (mid_spec s v e cur prev Hv) as [Hwl [Hmv [Hloop Hlost]]]. cbv zeta in Hwl, Hmv, Hloop, Hlost.
  fold mid in Hwl, Hmv.
  pose proof (sv_mt1 s cl v Hvis e) as Hmt. rewrite Hlost, (mem_N_count (sv_despawn_buf s) e) in Hmt.
  assert (HD : mem_N e D = (prev && negb cur) || loop_record (is_whitelist v) cur (count_occ N.eq_dec (sv_despawn_buf s) e)).
  { unfold D. rewrite (sv_despawns s cl v Hvis), mem_N_app, Hlost, Hloop. reflexivity. }
  assert (Hkn : al_get e st <> None -> prev = true).
  { intros H. rewrite <- (proj1 (view_reads v e cur prev Hv)). apply Hprev. exact H. }
  assert (Hbuf : In e (sv_despawn_buf s) <-> count_occ N.eq_dec (sv_despawn_buf s) e <> O).
  { rewrite (count_occ_In N.eq_dec). lia. }
  assert (Hmr : view mid e = conc (is_whitelist mid) (match count_occ N.eq_dec (sv_despawn_buf s) e with O => cur | S _ => negb (is_whitelist v) end)
                                  (match count_occ N.eq_dec (sv_despawn_buf s) e with O => prev && cur | S _ => negb (is_whitelist v) end)).
  { rewrite Hwl, Hmv. destruct (count_occ N.eq_dec (sv_despawn_buf s) e); reflexivity. }
  destruct (view_reads mid e _ _ Hmr) as [_ [Hvm Hsm]].
  destruct (count_occ N.eq_dec (sv_despawn_buf s) e) as [|n] eqn:En.
  - (* not in the despawn buffer *)
    cbn [loop_record] in HD. rewrite orb_false_r in HD. cbn [orb] in Hmt.
    split; [intros _ H; apply Hbuf in H; congruence|]. split; [|split; [|split]].
    + intros Hk Hi. rewrite HD, (Hkn Hk). rewrite Hvm in Hi. rewrite Hi. reflexivity.
    + intros H. rewrite Hmt, <- HD, H. reflexivity.
    + intros H. rewrite Hmt. destruct (prev && negb cur); [reflexivity|].
      destruct (mutation_tick (sc_ticks cl) e) eqn:Em; [|reflexivity]. exfalso.
      apply (proj1 (pk_known _ _ _ Hp e)); [rewrite Em; discriminate|exact H].
    + intros Hk H. rewrite HD, (Hkn Hk) in H. cbn [andb] in H. destruct cur; [|discriminate].
      rewrite (Hkn Hk) in Hsm, Hmt. cbn in Hsm. cbn [andb negb] in Hmt.
      split; [exact Hsm|]. split; [exact Hvm|]. split; [intros Hi; apply Hbuf in Hi; congruence|exact Hmt].
  - (* in the despawn buffer *)
    rewrite orb_true_l in Hmt.
    assert (Hk1 : al_get e st <> None -> mem_N e D = true).
    { intros Hk. rewrite HD, (Hkn Hk). destruct cur; cbn [andb negb orb]; [|reflexivity].
      destruct n; cbn [loop_record]; reflexivity. }
    split; [intros Hk _; exact (Hk1 Hk)|]. split; [intros Hk _; exact (Hk1 Hk)|]. split; [intros _; exact Hmt|].
    split; [intros _; exact Hmt|]. intros Hk H. rewrite (Hk1 Hk) in H. discriminate.
Qed.

Lemma visible_not_hidden e : is_visible mid e = true <-> state mid e <> VHidden.
Proof. unfold is_visible. destruct (state mid e); split; congruence. Qed.

Theorem tick_struct_v :
  struct_equiv (abs_apply st (sfc_upd s run cl)) (vis_filter (Some mid) (struct_of s)).
Proof.
  intros e. rewrite al_get_vis_filter. cbn [vis_visible].
  destruct (ent_facts e) as [F1 [F2 [F3 [F4 F5]]]].
  unfold abs_apply, sfc_upd. cbn [u_despawns u_removals u_changes].
  rewrite (sv_removals s cl v Hvis). fold mid. fold D.
  set (R := sort_by_key (filter (fun r : N * list N => is_visible mid (fst r)) (sv_removal_buf s))).
  set (S1 := fold_left abs_despawn D st). set (S2 := fold_left abs_removal R S1).
  set (CH := changed_set s run cl).
  pose proof (change_fold_get CH S2 e) as HC.
  pose proof (removal_fold_get R S1 e) as HR.
  assert (H1 : al_get e S1 = if mem_N e D then None else al_get e st) by apply despawn_fold_get.
  pose proof Hok as [Hb Hrb]. destruct Hb as [_ Hstamp Hfr Hnd].
  assert (Hrvis : forall e0, In e0 (map fst R) -> is_visible mid e0 = true /\ al_get e0 (sv_removal_buf s) <> None).
  { intros e0 H. apply in_map_iff in H. destruct H as [[e' ks] [Heq Hin]]. cbn in Heq. subst e'.
    unfold R in Hin. apply (proj1 (In_sort_by_key _ _)) in Hin. apply filter_In in Hin. destruct Hin as [Hin Hv].
    split; [exact Hv|]. apply al_get_keys_In. apply (in_map fst) in Hin. exact Hin. }
  assert (Hcvis : forall e0, In e0 (map fst CH) -> is_visible mid e0 = true).
  { intros e0 H. apply in_map_iff in H. destruct H as [[e' en] [Heq Hin]]. cbn in Heq. subst e'.
    apply changed_set_sound in Hin. destruct Hin as [Hst _]. rewrite (sv_vis1 s cl v Hvis) in Hst.
    apply visible_not_hidden. exact Hst. }
  destruct (is_visible mid e) eqn:Evm.
  2:{ (* hidden from this client after the tick *)
    assert (Hnc : ~ In e (map fst CH)) by (intros H; apply Hcvis in H; congruence).
    assert (Hnr : ~ In e (map fst R)) by (intros H; apply Hrvis in H; destruct H; congruence).
    assert (HS1 : al_get e S1 = None).
    { rewrite H1. destruct (mem_N e D) eqn:Ed; [reflexivity|].
      destruct (al_get e st) as [ks|] eqn:Es; [|reflexivity]. exfalso.
      assert (Hc : false = true) by (apply F2; [discriminate|reflexivity]). discriminate. }
    assert (HS2 : al_get e S2 = None).
    { fold S2 in HR. destruct (al_get e S2); [|reflexivity]. destruct HR as [[H | H] _]; contradiction. }
    destruct (al_get e (fold_left abs_change CH S2)); [|exact I].
    destruct HC as [[H | H] _]; contradiction. }
  rewrite (al_get_struct_of s e Hwf).
  destruct (repl_get s e) as [x|] eqn:Er; cbn [option_map].
  - (* replicated and visible *)
    destruct (proj1 (repl_get_spec s e x Hwf) Er) as [madd Hin].
    set (ec := cep (sv_last_run s) (sv_tick s) (sv_removal_buf s) (mutation_tick (sfc_ticks1 s cl) e)
                   (state mid e) e x madd).
    assert (Hchg : forall k, existsb (fun c => (fst c =? e) && mem_N k (map fst (snd c))) CH = true <->
                             exists en, ec_entry ec = Some en /\ In k (map fst en)).
    { intros k. rewrite exists_changes. split; intros [en [H Hk]]; exists en; (split; [|exact Hk]);
        apply (sv_changed_entry s cl run v Hvis e x madd en Hwf Hin); exact H. }
    assert (Hrm : forall k, existsb (fun r => (fst r =? e) && mem_N k (snd r)) R = true <-> rem_buffered s e k).
    { intros k. unfold R. rewrite (rem_buffered_filtered s (is_visible mid) e k Hnd). tauto. }
    assert (HS1 : forall k, mem_N k (kinds_of S1 e) = if mem_N e D then false else mem_N k (kinds_of st e)).
    { intros k. unfold kinds_of at 1. rewrite H1. destruct (mem_N e D); reflexivity. }
    assert (HS2 : forall k, mem_N k (kinds_of S2 e) =
                            mem_N k (kinds_of S1 e) && negb (existsb (fun r => (fst r =? e) && mem_N k (snd r)) R)).
    { intros k. unfold kinds_of at 1. fold S2 in HR. destruct (al_get e S2) as [ks2|].
      - apply HR.
      - destruct HR as [_ HR]. unfold kinds_of. rewrite HR. reflexivity. }
    assert (Hnh : state mid e <> VHidden) by (apply visible_not_hidden; exact Evm).
    (* the entry of an entity the client does not hold after the despawns *)
    assert (Hfresh : mem_N e D = true \/ al_get e st = None -> ec_entry ec = Some (all_comps x)).
    { intros H. assert (Hmt : mutation_tick (sfc_ticks1 s cl) e = None) by (destruct H; [apply F3|apply F4]; assumption).
      unfold ec. rewrite Hmt, cep_full; [reflexivity|exact Hnh|left; reflexivity]. }
    assert (HinC : forall en, ec_entry ec = Some en -> In e (map fst CH)).
    { intros en Hen. apply (sv_changed_entry s cl run v Hvis e x madd en Hwf Hin) in Hen.
      apply (in_map fst) in Hen. exact Hen. }
    (* the entity is present afterwards *)
    assert (Hpres : al_get e (fold_left abs_change CH S2) <> None).
    { fold S2 in HR. destruct (al_get e (fold_left abs_change CH S2)); [discriminate|].
      destruct HC as [HC1 HC2]. destruct (mem_N e D) eqn:Ed.
      - exfalso. apply HC1. apply (HinC (all_comps x)). apply Hfresh. left. reflexivity.
      - destruct (al_get e st) as [ks|] eqn:Es.
        + exfalso. destruct (al_get e S2); [discriminate|]. destruct HR as [_ HR]. congruence.
        + exfalso. apply HC1. apply (HinC (all_comps x)). apply Hfresh. right. reflexivity. }
    destruct (al_get e (fold_left abs_change CH S2)) as [ks3|]; [|congruence].
    destruct HC as [_ HC]. apply kinds_equiv_iff. intros k. rewrite HC, HS2, HS1. split.
    + (* sound *)
      intros H. apply orb_prop in H. destruct H as [H | H].
      * apply andb_prop in H. destruct H as [Hk Hnr].
        destruct (mem_N e D) eqn:Ed; [discriminate|].
        unfold kinds_of in Hk. destruct (al_get e st) as [ks|] eqn:Es; [|discriminate].
        assert (Hkn : al_get e st <> None) by (rewrite Es; discriminate). rewrite Es in Hkn.
        destruct (F5 Hkn eq_refl) as [_ [_ [HnD _]]].
        destruct (in_dec N.eq_dec k (map fst (se_comps x))) as [Hi | Hni]; [exact Hi|exfalso].
        assert (Hl : rem_listed s e k) by (apply (pk_lost _ _ _ Hp e ks x Es Er HnD); assumption).
        destruct Hl as [Hl | [a Ha]]; [|rewrite Hev in Ha; destruct Ha].
        apply Hrm in Hl. rewrite Hl in Hnr. discriminate.
      * apply Hchg in H. destruct H as [en [Hen Hk]]. unfold ec in Hen. eapply cep_entry_kinds; eassumption.
    + (* complete *)
      intros Hk. apply in_map_iff in Hk. destruct Hk as [[k' c] [Heq Hkc]]. cbn in Heq. subst k'.
      destruct (mem_N e D) eqn:Ed.
      { apply orb_true_intro. right. apply Hchg. exists (all_comps x). split; [apply Hfresh; left; reflexivity|].
        rewrite all_comps_keys. apply (in_map fst) in Hkc. exact Hkc. }
      destruct (al_get e st) as [ks|] eqn:Es.
      2:{ apply orb_true_intro. right. apply Hchg. exists (all_comps x). split; [apply Hfresh; right; reflexivity|].
          rewrite all_comps_keys. apply (in_map fst) in Hkc. exact Hkc. }
      assert (Hkn : al_get e st <> None) by (rewrite Es; discriminate). rewrite Es in Hkn.
      destruct (F5 Hkn eq_refl) as [Hsv [_ [HnD _]]].
      assert (Hins : sv_last_run s < c_added c ->
                     existsb (fun c0 => (fst c0 =? e) && mem_N k (map fst (snd c0))) CH = true).
      { intros Hlt. apply Hchg. unfold ec. rewrite Hsv.
        eapply cep_ins_entry; [exact Hkc|apply comp_is_ins_fresh; exact Hlt]. }
      unfold kinds_of. rewrite Es.
      destruct (mem_N k ks) eqn:Eks.
      * destruct (existsb (fun r => (fst r =? e) && mem_N k (snd r)) R) eqn:Erm; [|reflexivity].
        cbn [andb negb orb]. apply Hins. apply Hrm in Erm.
        apply (Hfr e k x c); [left; exact Erm|apply repl_get_ent; exact Er|exact Hkc].
      * cbn [andb orb]. apply Hins. apply (pk_new _ _ _ Hp e ks x Es Er HnD) with (k := k); [exact Hkc|exact Eks].
  - (* not replicated *)
    assert (Hnc : ~ In e (map fst CH)).
    { intros H. apply (sv_changed_keys s cl run) in H. exact (repl_get_none s e Hwf Er H). }
    assert (Hnr : ~ In e (map fst R)).
    { intros H. apply Hrvis in H. destruct H as [_ H]. apply (Hrb e) in H. congruence. }
    assert (HS1 : al_get e S1 = None).
    { rewrite H1. destruct (mem_N e D) eqn:Ed; [reflexivity|].
      destruct (al_get e st) as [ks|] eqn:Es; [|reflexivity]. exfalso.
      assert (HD : In e (sv_despawn_buf s)) by (apply (pk_gone _ _ _ Hp e); [rewrite Es; discriminate|exact Er]).
      assert (Hc : false = true) by (apply F1; [discriminate|exact HD]). discriminate. }
    assert (HS2 : al_get e S2 = None).
    { fold S2 in HR. destruct (al_get e S2); [|reflexivity]. destruct HR as [[H | H] _]; contradiction. }
    destruct (al_get e (fold_left abs_change CH S2)); [|exact I].
    destruct HC as [[H | H] _]; contradiction.
Qed.

(* ... also when the message is empty and therefore not sent *)
Corollary tick_struct_send_v :
  struct_equiv (abs_send st (if sfc_has_upd s run cl then Some (sfc_upd s run cl) else None))
               (vis_filter (Some mid) (struct_of s)).
Proof.
  unfold sfc_has_upd. destruct (update_is_empty (sfc_upd s run cl)) eqn:E; cbn [negb abs_send].
  - rewrite <- (abs_apply_empty st _ E). exact tick_struct_v.
  - exact tick_struct_v.
Qed.

(* the bookkeeping after the tick knows exactly the replicated entities visible to the client *)
Lemma tick_known_v e :
  mutation_tick (sfc_ticks2 s run cl) e <> None <-> (repl_get s e <> None /\ is_visible mid e = true).
Proof.
  destruct (ent_facts e) as [F1 [F2 [F3 [F4 F5]]]].
  destruct (sfc_ticks2_fields s run cl) as [_ [_ [_ H]]]. rewrite H. clear H.
  rewrite (sfc_ecs_nodup s run cl Hwf), (sv_vis1 s cl v Hvis). cbn [vis_state_of]. fold mid.
  set (ecs := map _ (replicated_ents s)).
  assert (Hb : existsb (fun eec : N * ent_changes => (fst eec =? e) && ec_bump (snd eec)) ecs = true <->
               exists x madd, In (e, x, madd) (replicated_ents s) /\
                 ec_bump (cep (sv_last_run s) (sv_tick s) (sv_removal_buf s) (mutation_tick (sfc_ticks1 s cl) e)
                              (state mid e) e x madd) = true).
  { rewrite existsb_exists. split.
    - intros [[e' ec] [Hin He]]. cbn [fst snd] in He. apply andb_prop in He. destruct He as [He Hbump].
      assert (e' = e) by lia. subst e'. unfold ecs in Hin. apply in_map_iff in Hin.
      destruct Hin as [[[e' x] madd] [Heq Hin]]. cbn [ent_id fst snd] in Heq. injection Heq as -> <-.
      exists x, madd. split; [exact Hin|exact Hbump].
    - intros [x [madd [Hin Hbump]]]. eexists (e, _). split.
      + unfold ecs. apply in_map_iff. exists (e, x, madd). split; [reflexivity|exact Hin].
      + cbn [fst snd]. rewrite N.eqb_refl. exact Hbump. }
  destruct (existsb _ ecs) eqn:Eb.
  - split; [intros _|discriminate]. destruct (proj1 Hb eq_refl) as [x [madd [Hin Hbump]]].
    split.
    + assert (Hr : repl_get s e = Some x) by (apply repl_get_spec; [exact Hwf|eauto]). rewrite Hr. discriminate.
    + apply visible_not_hidden. intros Hh. rewrite Hh, cep_hidden in Hbump. discriminate.
  - split.
    + intros Hm.
      assert (Hd : mem_N e D = false) by (destruct (mem_N e D); [exfalso; apply Hm, F3; reflexivity|reflexivity]).
      assert (Hk : al_get e st <> None) by (intros Hn; apply Hm, F4; exact Hn).
      destruct (F5 Hk Hd) as [_ [Hv [HnD _]]]. split; [|exact Hv].
      intros Hr. apply HnD. apply (pk_gone _ _ _ Hp e Hk Hr).
    + intros [Hr Hv]. destruct (repl_get s e) as [x|] eqn:Er; [|congruence].
      destruct (proj1 (repl_get_spec s e x Hwf) Er) as [madd Hin].
      destruct (mutation_tick (sfc_ticks1 s cl) e) eqn:Em; [discriminate|]. exfalso.
      assert (Ht : false = true); [|discriminate]. apply Hb. exists x, madd. split; [exact Hin|].
      rewrite cep_full; [reflexivity|apply visible_not_hidden; exact Hv|left; reflexivity].
Qed.

End TickV.

(* ================= 5. the invariant after the tick ================= *)

Lemma mid_legal s v : vis_legal v -> vis_legal (mid_vis s v).
Proof.
  intros Hl e. destruct (Hl e) as [cur [prev Hv]].
  destruct (mid_spec s v e cur prev Hv) as [Hwl [Hmv _]]. cbv zeta in Hwl, Hmv. rewrite Hwl, Hmv.
  destruct (count_occ N.eq_dec (sv_despawn_buf s) e); eauto.
Qed.

(* the visible part of the current structure needs no explanation by the buffers *)
Lemma pending_ok_synced_v s t vo : ents_wf s ->
  (forall e, mutation_tick t e <> None <-> (repl_get s e <> None /\ vis_visible vo e = true)) ->
  pending_ok s t (vis_filter vo (struct_of s)).
Proof.
  intros Hwf Hk.
  assert (Hget : forall e ks, al_get e (vis_filter vo (struct_of s)) = Some ks ->
            exists x, repl_get s e = Some x /\ ks = map fst (se_comps x)).
  { intros e ks. rewrite al_get_vis_filter, (al_get_struct_of s e Hwf).
    destruct (vis_visible vo e); [|discriminate]. destruct (repl_get s e) as [x|]; cbn [option_map]; [|discriminate].
    intros H. injection H as <-. exists x. auto. }
  constructor.
  - intros e. rewrite Hk, al_get_vis_filter, (al_get_struct_of s e Hwf).
    destruct (vis_visible vo e), (repl_get s e); cbn [option_map]; split; try tauto; try congruence.
    + intros _. split; [discriminate|reflexivity].
    + intros [_ H]. discriminate.
  - intros e H Hn. destruct (al_get e (vis_filter vo (struct_of s))) as [ks|] eqn:E; [|congruence].
    destruct (Hget e ks E) as [x [Hr _]]. congruence.
  - intros e ks x Hs Hr _ k Hm Hni. destruct (Hget e ks Hs) as [x' [Hr' ->]].
    assert (x' = x) by congruence. subst x'. apply mem_N_In in Hm. contradiction.
  - intros e ks x Hs Hr _ k c Hin Hm. destruct (Hget e ks Hs) as [x' [Hr' ->]].
    assert (x' = x) by congruence. subst x'. apply mem_N_false in Hm. exfalso. apply Hm.
    apply (in_map fst) in Hin. exact Hin.
Qed.

Lemma srv_ok_after_send_v s cls run : srv_ok_v s -> sv_removed_events s = [] ->
  srv_ok_v (set_after_send s cls run).
Proof.
  intros [Hb _] Hev. split; [constructor|].
  - exact (sb_wf s Hb).
  - cbn. lia.
  - intros e k x c [[ks [H _]] | [a H]]; cbn in H; [discriminate|]. rewrite Hev in H. destruct H.
  - constructor.
  - intros e H. cbn in H. congruence.
Qed.

Lemma pending_ok_strip s t st : pending_ok s t st <-> pending_ok (strip s) t st.
Proof. split; apply pending_ok_ext; reflexivity. Qed.

Lemma sfc_strip c s run cl p : send_for_client c (strip s) run cl p = send_for_client c s run cl p.
Proof. apply send_for_client_independent; reflexivity. Qed.

(* THEOREM 3 for a client with a ClientVisibility *)
Theorem tick_sends_diff_v c s run cl p cl' out st cls v :
  srv_ok_v s -> sv_removed_events s = [] -> sc_vis cl = Some v ->
  pending_ok_v s cl st ->
  send_for_client c s run cl p = Ok (cl', out) ->
  struct_equiv (abs_send st (co_update out)) (struct_vis s cl') /\
  pending_ok_v (set_after_send s cls run) cl' (struct_vis s cl') /\
  sc_vis cl' = Some (update (mid_vis s v)) /\
  sc_slot cl' = sc_slot cl /\ sc_authorized cl' = true /\ co_slot out = sc_slot cl.
Proof.
  intros Hok Hev Hvis [Hp Hvo] H. rewrite Hvis in Hvo. destruct Hvo as [Hleg Hprev].
  apply sfc_result in H. destruct H as [-> ->].
  cbn [co_update sc_ticks sc_vis sc_slot sc_authorized co_slot]. rewrite (sv_vis1 s cl v Hvis).
  pose proof (mid_legal s v Hleg) as Hml. destruct (update_legal _ Hml) as [Hul Hup].
  assert (Hsv : forall cl0, sc_vis cl0 = Some (update (mid_vis s v)) ->
            struct_vis s cl0 = vis_filter (Some (mid_vis s v)) (struct_of s)).
  { intros cl0 E. unfold struct_vis. rewrite E. apply vis_filter_ext. intros e. cbn [vis_visible]. apply Hup. }
  match goal with |- context [struct_vis s ?c0] => rewrite (Hsv c0 eq_refl) end.
  split; [apply tick_struct_send_v; assumption|]. split; [|auto].
  pose proof (sb_wf s (proj1 Hok)) as Hwf.
  split; cbn [sc_ticks sc_vis].
  - rewrite <- (struct_of_ext s (set_after_send s cls run)) by reflexivity.
    apply pending_ok_synced_v; [exact Hwf|].
    intros e. rewrite (repl_get_ext s (set_after_send s cls run)) by reflexivity. cbn [vis_visible].
    rewrite <- (tick_known_v s cl run st v Hok Hvis Hp Hleg Hprev e).
    destruct (mut_ticks_fields run (sv_elapsed s) (sfc_parts c s run cl p) (sfc_ticks3 s run cl)) as [M1 _].
    destruct (sfc_ticks3_fields s run cl) as [M2 _].
    unfold mutation_tick. rewrite M1, M2. reflexivity.
  - split; [exact Hul|]. intros e. rewrite al_get_vis_filter. cbn [vis_visible].
    destruct (is_visible (mid_vis s v) e) eqn:E; [|congruence]. intros _. rewrite (proj1 (Hup e)). exact E.
Qed.

(* THEOREM 3, every policy: with or without a ClientVisibility *)
Theorem tick_sends_diff_any c s run cl p cl' out st cls :
  srv_ok_v s -> sv_removed_events s = [] ->
  pending_ok_v s cl st ->
  send_for_client c s run cl p = Ok (cl', out) ->
  struct_equiv (abs_send st (co_update out)) (struct_vis s cl') /\
  pending_ok_v (set_after_send s cls run) cl' (struct_vis s cl') /\
  sc_slot cl' = sc_slot cl /\ sc_authorized cl' = true /\ co_slot out = sc_slot cl.
Proof.
  intros Hok Hev Hpv H. destruct (sc_vis cl) as [v|] eqn:Hvis.
  - destruct (tick_sends_diff_v c s run cl p cl' out st cls v Hok Hev Hvis Hpv H) as [T1 [T2 [_ T3]]]. auto.
  - rewrite <- sfc_strip in H.
    destruct (tick_sends_diff c (strip s) run cl p cl' out st cls (proj1 (srv_ok_strip s) Hok) Hev Hvis
                (proj1 (pending_ok_strip _ _ _) (pv_pending _ _ _ Hpv)) H) as [T1 [T2 [T3 T4]]].
    unfold struct_vis. rewrite T3, vis_filter_none.
    split; [exact T1|]. split; [|exact T4]. split; [|rewrite T3; exact I].
    revert T2. apply pending_ok_ext; reflexivity.
Qed.

(* ================= 6. consequences for single entities ================= *)

(* a non-empty despawn list forces an update message *)
Lemma sfc_update_present_despawn c s this_run cl p cl' out e :
  send_for_client c s this_run cl p = Ok (cl', out) -> In e (sfc_despawns s cl) ->
  co_update out = Some (sfc_upd s this_run cl).
Proof.
  intros H Hin. apply sfc_result in H. destruct H as [_ ->]. cbn [co_update].
  unfold sfc_has_upd, update_is_empty, sfc_upd. cbn [u_maps u_despawns u_removals u_changes].
  destruct (sfc_despawns s cl); [destruct Hin|].
  destruct (sort_by_key (sc_pending_map cl)); reflexivity.
Qed.

(* the visibility of the record after the tick is the one `collect_changes` read *)
Lemma visible_after_tick c s run cl p cl' out e :
  match sc_vis cl with Some v => vis_legal v | None => True end ->
  send_for_client c s run cl p = Ok (cl', out) ->
  vis_visible (sc_vis cl') e = vis_visible (sfc_vis1 s cl) e.
Proof.
  intros Hl H. apply sfc_result in H. destruct H as [-> _]. cbn [sc_vis].
  destruct (sc_vis cl) as [v|] eqn:Hvis.
  - rewrite (sv_vis1 s cl v Hvis). cbn [vis_visible].
    destruct (update_legal _ (mid_legal s v Hl)) as [_ Hup]. apply Hup.
  - rewrite (nv_vis1 s cl Hvis). reflexivity.
Qed.

Lemma pending_ok_v_legal s cl st : pending_ok_v s cl st ->
  match sc_vis cl with Some v => vis_legal v | None => True end.
Proof. intros [_ Hv]. destruct (sc_vis cl); [apply Hv|exact I]. Qed.

(* (1) an entity the client holds and that is hidden from it after the tick (visibility lost since the
   last tick, whatever else happened to the entity) gets a despawn record in this tick's update message,
   and the message is sent *)
Theorem known_hidden_is_despawned c s run cl p cl' out st e :
  pending_ok_v s cl st -> send_for_client c s run cl p = Ok (cl', out) ->
  al_get e st <> None -> vis_visible (sc_vis cl') e = false ->
  exists u, co_update out = Some u /\ In e (u_despawns u).
Proof.
  intros Hpv H Hk Hh. rewrite (visible_after_tick c s run cl p cl' out e (pending_ok_v_legal _ _ _ Hpv) H) in Hh.
  destruct Hpv as [Hp Hvo]. destruct (sc_vis cl) as [v|] eqn:Hvis.
  - destruct Hvo as [Hleg Hprev]. rewrite (sv_vis1 s cl v Hvis) in Hh. cbn [vis_visible] in Hh.
    destruct (ent_facts s cl st v Hvis Hp Hleg Hprev e) as [_ [F2 _]].
    pose proof (proj1 (mem_N_In _ _) (F2 Hk Hh)) as Hin.
    exists (sfc_upd s run cl). split; [eapply sfc_update_present_despawn; eassumption|exact Hin].
  - rewrite (nv_vis1 s cl Hvis) in Hh. discriminate.
Qed.

(* ... in the terms of the visibility BEFORE the tick: hidden now *)
Corollary lost_visibility_is_despawned c s run cl p cl' out st v e :
  sc_vis cl = Some v -> pending_ok_v s cl st -> send_for_client c s run cl p = Ok (cl', out) ->
  al_get e st <> None -> is_visible v e = false ->
  exists u, co_update out = Some u /\ In e (u_despawns u) /\ v_prev v e = true.
Proof.
  intros Hvis Hpv H Hk Hh. pose proof Hpv as [Hp Hvo]. rewrite Hvis in Hvo. destruct Hvo as [Hleg Hprev].
  destruct (Hleg e) as [cur [prev Hv]]. destruct (view_reads v e cur prev Hv) as [Hpr [Hc _]].
  destruct (mid_spec s v e cur prev Hv) as [_ [_ [_ Hlost]]]. cbv zeta in Hlost.
  assert (Hin : In e (sfc_despawns s cl)).
  { rewrite (sv_despawns s cl v Hvis). apply in_or_app. left. apply mem_N_In. rewrite Hlost.
    rewrite <- Hpr, <- Hc, (Hprev e Hk), Hh. reflexivity. }
  exists (sfc_upd s run cl). split; [eapply sfc_update_present_despawn; eassumption|]. split; [exact Hin|apply Hprev; exact Hk].
Qed.

(* ... and by nothing else: a despawn record is either a buffered despawn (`Replicated` removed) or an
   entity this client was told about at the last tick and that is hidden from it now *)
Theorem despawn_records_explained c s run cl p cl' out u e :
  match sc_vis cl with Some v => vis_legal v | None => True end ->
  send_for_client c s run cl p = Ok (cl', out) -> co_update out = Some u -> In e (u_despawns u) ->
  In e (sv_despawn_buf s) \/
  exists v, sc_vis cl = Some v /\ v_prev v e = true /\ is_visible v e = false.
Proof.
  intros Hl H Hu Hin. rewrite (sfc_update_some _ _ _ _ _ _ _ _ H Hu) in Hin. cbn [sfc_upd u_despawns] in Hin.
  destruct (sc_vis cl) as [v|] eqn:Hvis.
  - destruct (Hl e) as [cur [prev Hv]]. destruct (view_reads v e cur prev Hv) as [Hpr [Hc _]].
    destruct (mid_spec s v e cur prev Hv) as [_ [_ [Hloop Hlost]]]. cbv zeta in Hloop, Hlost.
    rewrite (sv_despawns s cl v Hvis) in Hin. apply in_app_or in Hin. destruct Hin as [Hin | Hin].
    + right. exists v. apply mem_N_In in Hin. rewrite Hlost in Hin. apply andb_prop in Hin. destruct Hin as [H1 H2].
      split; [reflexivity|]. rewrite Hpr, Hc. split; [exact H1|]. destruct cur; [discriminate|reflexivity].
    + left. apply mem_N_In in Hin. rewrite Hloop in Hin. apply (count_occ_In N.eq_dec).
      destruct (count_occ N.eq_dec (sv_despawn_buf s) e); [discriminate|lia].
  - left. rewrite (nv_despawns s cl Hvis) in Hin. exact Hin.
Qed.

(* the changes array, any client *)
Lemma changed_entry_any s cl run e x madd en : ents_wf s -> In (e, x, madd) (replicated_ents s) ->
  (In (e, en) (changed_set s run cl) <->
   ec_entry (cep (sv_last_run s) (sv_tick s) (sv_removal_buf s) (mutation_tick (sfc_ticks1 s cl) e)
                 (vis_state_of (sfc_vis1 s cl) e) e x madd) = Some en).
Proof.
  intros Hwf Hin. rewrite changed_set_eq, In_entries_of, (sfc_ecs_nodup s run cl Hwf).
  split.
  - intros [ec [Hi Hen]]. apply in_map_iff in Hi. destruct Hi as [[[e' x'] madd'] [Heq Hi]].
    cbn [ent_id fst snd] in Heq. injection Heq as -> <-.
    destruct (repl_ents_unique _ _ _ _ _ _ Hwf Hin Hi) as [-> ->]. exact Hen.
  - intros Hen. eexists. split; [|exact Hen]. apply in_map_iff. exists (e, x, madd). split; [reflexivity|exact Hin].
Qed.

(* (2) a replicated entity the client does not hold and that is visible to it after the tick (visibility
   gained, or a new entity, or a late joiner) is sent whole, in this tick's update message *)
Theorem unknown_visible_is_sent_whole c s run cl p cl' out st e x :
  ents_wf s -> pending_ok_v s cl st -> send_for_client c s run cl p = Ok (cl', out) ->
  repl_get s e = Some x -> al_get e st = None -> vis_visible (sc_vis cl') e = true ->
  exists u, co_update out = Some u /\ In (e, all_comps x) (u_changes u).
Proof.
  intros Hwf Hpv H Hr Hn Hv. rewrite (visible_after_tick c s run cl p cl' out e (pending_ok_v_legal _ _ _ Hpv) H) in Hv.
  destruct (proj1 (repl_get_spec s e x Hwf) Hr) as [madd Hin].
  assert (Hmt : mutation_tick (sfc_ticks1 s cl) e = None).
  { destruct (sfc_ticks1_shrunk s cl) as [_ [_ [_ Hsh]]]. apply Hsh.
    destruct (mutation_tick (sc_ticks cl) e) eqn:Em; [|reflexivity]. exfalso.
    apply (proj1 (pk_known _ _ _ (pv_pending _ _ _ Hpv) e)); [rewrite Em; discriminate|exact Hn]. }
  assert (Hc : In (e, all_comps x) (changed_set s run cl)).
  { apply (changed_entry_any s cl run e x madd _ Hwf Hin). rewrite Hmt, cep_full; [reflexivity| |left; reflexivity].
    apply vis_visible_state. exact Hv. }
  exists (sfc_upd s run cl). split; [eapply sfc_update_present; eassumption|exact Hc].
Qed.

(* nothing about an entity hidden after the tick is in the message except a despawn record *)
Theorem hidden_entity_not_in_message c s run cl p cl' out u e :
  match sc_vis cl with Some v => vis_legal v | None => True end ->
  send_for_client c s run cl p = Ok (cl', out) -> co_update out = Some u ->
  vis_visible (sc_vis cl') e = false ->
  ~ In e (map fst (u_changes u)) /\ ~ In e (map fst (u_removals u)).
Proof.
  intros Hl H Hu Hv. rewrite (visible_after_tick c s run cl p cl' out e Hl H) in Hv. split.
  - intros Hin. apply in_map_iff in Hin. destruct Hin as [[e' en] [Heq Hin]]. cbn in Heq. subst e'.
    destruct (proj1 (changes_only_visible c s run cl p cl' out H) u e en Hu Hin) as [Hst _].
    apply vis_visible_state in Hst. congruence.
  - intros Hin. apply in_map_iff in Hin. destruct Hin as [[e' ks] [Heq Hin]]. cbn in Heq. subst e'.
    destruct (removals_only_visible c s run cl p cl' out u e ks H Hu Hin) as [Hvv _]. congruence.
Qed.
