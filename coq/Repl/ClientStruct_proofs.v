(* C03, client half: the client model (Repl/Client.v) implements `abs_apply` (Repl/StructSpec.v).
   Definitions: Repl/ClientStructSpec.v. *)
From RV Require Import Lib.Res Repl.ClientTicks Repl.ClientTicks_proofs Repl.World Repl.Client
  Vis.Visibility Tick.RepliconTick Tick.RepliconTick_proofs Tick.ConfirmHistory Tick.MutateTicks
  Repl.Server Repl.ServerSpec Repl.Server_proofs Repl.StructSpec Repl.Struct_proofs
  Repl.Sys Repl.Client_proofs Repl.ClientEnt_proofs Repl.ClientMut_proofs Repl.ClientSys_proofs Repl.ClientStructSpec.
From Coq Require Import ZifyBool ZifyN.
Open Scope N_scope.
Ltac Zify.zify_post_hook ::= Z.div_mod_to_equations.
Arguments N.add : simpl never. Arguments N.mul : simpl never. Arguments N.pow : simpl never.
Arguments N.ltb : simpl never. Arguments N.leb : simpl never. Arguments N.div : simpl never.
Arguments N.modulo : simpl never. Arguments N.sub : simpl never. Arguments N.eqb : simpl never.

(* ================================================================== *)
(* 1. structures, pointwise                                           *)
(* ================================================================== *)

Definition opt_equiv (a b : option (list N)) : Prop :=
  match a, b with
  | Some x, Some y => kinds_equiv x y
  | None, None => True
  | _, _ => False
  end.

(* the client holds structure [S] *)
Definition srel (c : client) (S : structure) : Prop := forall e, opt_equiv (cs_get c e) (al_get e S).

Definition cs_kinds (c : client) (e : N) : list N := match cs_get c e with Some ks => ks | None => [] end.

Lemma kinds_equiv_refl a : kinds_equiv a a.
Proof. intros k. reflexivity. Qed.
Lemma kinds_equiv_sym a b : kinds_equiv a b -> kinds_equiv b a.
Proof. intros H k. symmetry. apply H. Qed.
Lemma kinds_equiv_trans a b c : kinds_equiv a b -> kinds_equiv b c -> kinds_equiv a c.
Proof. intros H1 H2 k. rewrite H1. apply H2. Qed.

Lemma opt_equiv_refl a : opt_equiv a a.
Proof. destruct a; cbn; [apply kinds_equiv_refl|exact I]. Qed.
Lemma opt_equiv_sym a b : opt_equiv a b -> opt_equiv b a.
Proof. destruct a, b; cbn; auto using kinds_equiv_sym. Qed.
Lemma opt_equiv_trans a b c : opt_equiv a b -> opt_equiv b c -> opt_equiv a c.
Proof. destruct a, b, c; cbn; try tauto. apply kinds_equiv_trans. Qed.

Lemma struct_equiv_pointwise S1 S2 : struct_equiv S1 S2 <-> forall e, opt_equiv (al_get e S1) (al_get e S2).
Proof. reflexivity. Qed.

Lemma struct_equiv_refl S : struct_equiv S S.
Proof. intros e. destruct (al_get e S); [apply kinds_equiv_refl|exact I]. Qed.
Lemma struct_equiv_symm a b : struct_equiv a b -> struct_equiv b a.
Proof. intros H e. apply opt_equiv_sym. apply H. Qed.
Lemma struct_equiv_trans a b c : struct_equiv a b -> struct_equiv b c -> struct_equiv a c.
Proof. intros H1 H2 e. eapply opt_equiv_trans; [apply H1|apply H2]. Qed.

Lemma srel_kinds c S e : srel c S -> kinds_equiv (cs_kinds c e) (kinds_of S e).
Proof.
  intros H. specialize (H e). unfold cs_kinds, kinds_of.
  destruct (cs_get c e), (al_get e S); cbn in H; try contradiction; [exact H|apply kinds_equiv_refl].
Qed.

Lemma srel_equiv c S S' : srel c S -> struct_equiv S S' -> srel c S'.
Proof. intros H1 H2 e. eapply opt_equiv_trans; [apply H1|apply H2]. Qed.

Lemma al_get_flat_map {V W} (f : V -> option W) (l : list (N * V)) e :
  NoDup (al_keys l) ->
  al_get e (flat_map (fun sc => match f (snd sc) with Some w => [(fst sc, w)] | None => [] end) l) =
  match al_get e l with Some v => f v | None => None end.
Proof.
  unfold al_keys. induction l as [|[k v] t IH]; intros Hnd; cbn [flat_map al_get map fst snd]; [reflexivity|].
  cbn [map fst] in Hnd. inversion Hnd as [|? ? Hnin Hnd']; subst. specialize (IH Hnd').
  destruct (k =? e) eqn:E.
  - assert (k = e) by lia. subst k.
    assert (Hn : al_get e t = None) by (apply al_get_none_keys; exact Hnin).
    rewrite Hn in IH. destruct (f v) as [w|]; cbn [app al_get].
    + rewrite N.eqb_refl. reflexivity.
    + exact IH.
  - destruct (f v) as [w|]; cbn [app al_get]; [rewrite E|]; exact IH.
Qed.

Lemma al_get_client_struct c e : NoDup (al_keys (cl_s2c c)) -> al_get e (client_struct c) = cs_get c e.
Proof.
  intros Hnd. unfold client_struct, cs_get.
  set (f := fun cid => match get_cent c cid with
                       | Some x => if ce_alive x && ce_marker x then Some (map fst (ce_comps x)) else None
                       | None => None end).
  transitivity (al_get e (flat_map (fun sc : N * N => match f (snd sc) with Some w => [(fst sc, w)] | None => [] end) (cl_s2c c))).
  - f_equal. apply flat_map_ext. intros [s cid]. unfold f. cbn [fst snd]. destruct (get_cent c cid) as [x|]; [|reflexivity].
    destruct (ce_alive x && ce_marker x); reflexivity.
  - rewrite al_get_flat_map by exact Hnd. reflexivity.
Qed.

Lemma srel_struct_equiv c S : NoDup (al_keys (cl_s2c c)) -> (srel c S <-> struct_equiv (client_struct c) S).
Proof.
  intros Hnd. unfold srel, struct_equiv. split; intros H e; specialize (H e).
  - rewrite al_get_client_struct by exact Hnd. exact H.
  - rewrite al_get_client_struct in H by exact Hnd. exact H.
Qed.

Lemma srel_self c : NoDup (al_keys (cl_s2c c)) -> srel c (client_struct c).
Proof. intros Hnd. apply srel_struct_equiv; [exact Hnd|apply struct_equiv_refl]. Qed.

(* the abstract operations respect extensional equality *)
Lemma kinds_of_equiv S1 S2 e : struct_equiv S1 S2 -> kinds_equiv (kinds_of S1 e) (kinds_of S2 e).
Proof.
  intros H. specialize (H e). unfold kinds_of. destruct (al_get e S1), (al_get e S2); try contradiction;
    [exact H|apply kinds_equiv_refl].
Qed.

Lemma abs_despawn_equiv S1 S2 d : struct_equiv S1 S2 -> struct_equiv (abs_despawn S1 d) (abs_despawn S2 d).
Proof.
  intros H e. unfold abs_despawn. rewrite !al_get_remove. destruct (e =? d); [exact I|apply H].
Qed.

Lemma abs_removal_equiv S1 S2 r : struct_equiv S1 S2 -> struct_equiv (abs_removal S1 r) (abs_removal S2 r).
Proof.
  intros H e. unfold abs_removal. rewrite !al_get_insert. destruct (e =? fst r); [|apply H].
  intros k. rewrite !mem_N_kinds_remove. rewrite (kinds_of_equiv S1 S2 (fst r) H k). reflexivity.
Qed.

Lemma abs_change_equiv S1 S2 ch : struct_equiv S1 S2 -> struct_equiv (abs_change S1 ch) (abs_change S2 ch).
Proof.
  intros H e. unfold abs_change. rewrite !al_get_insert. destruct (e =? fst ch); [|apply H].
  intros k. rewrite !mem_N_app. rewrite (kinds_of_equiv S1 S2 (fst ch) H k). reflexivity.
Qed.

Lemma fold_equiv {A} (f : structure -> A -> structure) l :
  (forall S1 S2 a, struct_equiv S1 S2 -> struct_equiv (f S1 a) (f S2 a)) ->
  forall S1 S2, struct_equiv S1 S2 -> struct_equiv (fold_left f l S1) (fold_left f l S2).
Proof. intros Hf. induction l as [|a t IH]; intros S1 S2 H; cbn [fold_left]; [exact H|]. apply IH. apply Hf. exact H. Qed.

Lemma abs_apply_equiv S1 S2 u : struct_equiv S1 S2 -> struct_equiv (abs_apply S1 u) (abs_apply S2 u).
Proof.
  intros H. unfold abs_apply.
  apply fold_equiv; [intros; apply abs_change_equiv; assumption|].
  apply fold_equiv; [intros; apply abs_removal_equiv; assumption|].
  apply fold_equiv; [intros; apply abs_despawn_equiv; assumption|exact H].
Qed.

Lemma abs_apply_fold_equiv us : forall S1 S2, struct_equiv S1 S2 ->
  struct_equiv (fold_left abs_apply us S1) (fold_left abs_apply us S2).
Proof. apply fold_equiv. intros; apply abs_apply_equiv; assumption. Qed.

(* ================================================================== *)
(* 2. the invariant: elementary steps                                 *)
(* ================================================================== *)

Lemma cs_inv_ext c c' :
  cl_s2c c' = cl_s2c c -> cl_c2s c' = cl_c2s c -> cl_ents c' = cl_ents c -> cl_next c' = cl_next c ->
  cs_inv c -> cs_inv c'.
Proof.
  intros E1 E2 E3 E4 [H1 H2 H3 H4]. constructor.
  - revert H1. apply emap_wf_ext; [exact E1|exact E2|lia].
  - revert H2. apply ewf_ext; assumption.
  - intros s cid. unfold get_cent. rewrite E1, E3. apply H3.
  - intros cid x. unfold get_cent. rewrite E3. apply H4.
Qed.

Lemma cs_get_ext c c' e : cl_s2c c' = cl_s2c c -> cl_ents c' = cl_ents c -> cs_get c' e = cs_get c e.
Proof. intros E1 E3. unfold cs_get, get_cent. rewrite E1, E3. reflexivity. Qed.

Lemma srel_ext c c' S : cl_s2c c' = cl_s2c c -> cl_ents c' = cl_ents c -> srel c S -> srel c' S.
Proof. intros E1 E3 H e. rewrite (cs_get_ext c c' e E1 E3). apply H. Qed.

Lemma cs_inv_init track : cs_inv (client_init track).
Proof.
  constructor.
  - apply emap_wf_init.
  - apply ewf_init.
  - intros s cid H. discriminate.
  - intros cid x H. discriminate.
Qed.

Lemma cs_inv_nodup c : cs_inv c -> NoDup (al_keys (cl_s2c c)).
Proof. intros H. exact (proj1 (ci_emap c H)). Qed.

(* the server-to-client map is injective *)
Lemma s2c_inj c s1 s2 cid : emap_wf c ->
  al_get s1 (cl_s2c c) = Some cid -> al_get s2 (cl_s2c c) = Some cid -> s1 = s2.
Proof.
  intros (_ & _ & H3 & _) A B. apply H3 in A. apply H3 in B. congruence.
Qed.

Lemma cs_get_unmapped c e : al_get e (cl_s2c c) = None -> cs_get c e = None.
Proof. intros H. unfold cs_get. rewrite H. reflexivity. Qed.

Lemma cs_get_mapped c e cid x : al_get e (cl_s2c c) = Some cid -> get_cent c cid = Some x ->
  cs_get c e = if ce_alive x && ce_marker x then Some (map fst (ce_comps x)) else None.
Proof. intros H1 H2. unfold cs_get. rewrite H1, H2. reflexivity. Qed.

(* the kinds of the client entity a server entity is mapped to *)
Lemma cs_kinds_mapped c e cid x : cs_inv c -> al_get e (cl_s2c c) = Some cid -> get_cent c cid = Some x ->
  ce_alive x = true -> map fst (ce_comps x) = cs_kinds c e.
Proof.
  intros Hinv H1 H2 Ha. unfold cs_kinds. rewrite (cs_get_mapped c e cid x H1 H2), Ha. cbn [andb].
  destruct (ce_marker x) eqn:Em; [reflexivity|].
  destruct (ci_blank c Hinv cid x H2 Em) as [-> _]. reflexivity.
Qed.

(* replacing a mapped entity by an alive record *)
Lemma cs_inv_set_cent c cid x x' :
  cs_inv c -> get_cent c cid = Some x -> ce_alive x' = true ->
  (ce_marker x' = false -> ce_comps x' = [] /\ ce_hist x' = None) ->
  cs_inv (set_cent c cid x').
Proof.
  intros [H1 H2 H3 H4] Hx Ha Hb. constructor.
  - apply emap_wf_set_cent. exact H1.
  - eapply ewf_set_cent; eauto.
  - intros s cid0 Hs. cbn [set_cent cl_s2c] in Hs. destruct (N.eq_dec cid0 cid) as [->|Hne].
    + exists x'. split; [apply get_cent_set_cent_same|exact Ha].
    + rewrite get_cent_set_cent_other by exact Hne. apply (H3 s). exact Hs.
  - intros cid0 x0. destruct (N.eq_dec cid0 cid) as [->|Hne].
    + rewrite get_cent_set_cent_same. intros E; inversion E; subst. exact Hb.
    + rewrite get_cent_set_cent_other by exact Hne. apply H4.
Qed.

Lemma cs_get_set_cent_same c e cid x' : al_get e (cl_s2c c) = Some cid ->
  cs_get (set_cent c cid x') e = if ce_alive x' && ce_marker x' then Some (map fst (ce_comps x')) else None.
Proof. intros H. unfold cs_get. cbn [set_cent cl_s2c]. rewrite H, get_cent_set_cent_same. reflexivity. Qed.

Lemma cs_get_set_cent_other c e e' cid x' : emap_wf c -> al_get e (cl_s2c c) = Some cid -> e' <> e ->
  cs_get (set_cent c cid x') e' = cs_get c e'.
Proof.
  intros Hwf H Hne. unfold cs_get. cbn [set_cent cl_s2c]. destruct (al_get e' (cl_s2c c)) as [cid'|] eqn:E; [|reflexivity].
  rewrite get_cent_set_cent_other; [reflexivity|]. intros ->. apply Hne. exact (s2c_inj c e' e cid Hwf E H).
Qed.

(* an entity nothing maps to does not contribute *)
Lemma cs_get_set_cent_unmapped c cid x' e : (forall s, al_get s (cl_s2c c) <> Some cid) ->
  cs_get (set_cent c cid x') e = cs_get c e.
Proof.
  intros Hun. unfold cs_get. cbn [set_cent cl_s2c]. destruct (al_get e (cl_s2c c)) as [cid'|] eqn:E; [|reflexivity].
  rewrite get_cent_set_cent_other; [reflexivity|]. intros ->. exact (Hun e E).
Qed.

Lemma al_get_snoc {V} k (l : list (N * V)) n v x :
  al_get k (l ++ [(n, v)]) = Some x -> al_get k l = Some x \/ (al_get k l = None /\ k = n /\ x = v).
Proof.
  destruct (al_get k l) as [y|] eqn:E.
  - rewrite (al_get_app_some k l [(n, v)] y E). auto.
  - rewrite al_get_app_none by exact E. cbn [al_get]. destruct (n =? k) eqn:E2; [|discriminate].
    intros H; inversion H; subst. right. split; [reflexivity|]. split; [lia|reflexivity].
Qed.

(* spawning an entity and mapping an unknown server entity to it (placeholder: m = false,
   `entry_entity`: m = true) *)
Lemma spawn_vacant_props c t m :
  cs_inv c -> al_get t (cl_s2c c) = None ->
  let c1 := emap_vacant_insert (fst (spawn_cent c None m)) t (cl_next c) in
  cs_inv c1 /\
  (forall cid x, get_cent c cid = Some x -> get_cent c1 cid = Some x) /\
  get_cent c1 (cl_next c) = Some (mkCEnt true None m None []) /\
  al_get t (cl_s2c c1) = Some (cl_next c) /\
  (forall e cid, al_get e (cl_s2c c) = Some cid -> al_get e (cl_s2c c1) = Some cid) /\
  (forall e, e <> t -> cs_get c1 e = cs_get c e) /\
  cs_get c1 t = (if m then Some [] else None) /\
  same_meta c c1 /\
  (forall cid x, get_cent c1 cid = Some x -> get_cent c cid = Some x \/ x = mkCEnt true None m None []).
Proof.
  intros Hinv Ht c1. pose proof Hinv as [H1 H2 H3 H4].
  assert (Hold : forall cid x, get_cent c cid = Some x -> get_cent c1 cid = Some x).
  { intros cid x H. unfold get_cent in *. cbn. apply al_get_app_some. exact H. }
  assert (Hnew : get_cent c1 (cl_next c) = Some (mkCEnt true None m None [])).
  { exact (spawn_get_new c None m (proj2 H2)). }
  assert (Hs2c : cl_s2c c1 = al_insert t (cl_next c) (cl_s2c c)) by reflexivity.
  split; [|split; [exact Hold|split; [exact Hnew|split; [|split; [|split; [|split; [|split]]]]]]].
  - constructor.
    + exact (emap_wf_spawn_vacant c t None m H1 Ht).
    + pose proof (ewf_spawn c None m H2) as Hw. revert Hw. apply ewf_ext; reflexivity.
    + intros s cid Hs. rewrite Hs2c in Hs. destruct (N.eq_dec s t) as [->|Hne].
      * rewrite al_get_insert_same in Hs. inversion Hs; subst. eexists. split; [exact Hnew|reflexivity].
      * rewrite al_get_insert_other in Hs by exact Hne. destruct (H3 s cid Hs) as [x [Hx Ha]].
        exists x. split; [apply Hold; exact Hx|exact Ha].
    + intros cid x Hx Hm. unfold get_cent in Hx. cbn in Hx. apply al_get_snoc in Hx.
      destruct Hx as [Hx|(_ & _ & ->)]; [exact (H4 cid x Hx Hm)|]. cbn. auto.
  - rewrite Hs2c. apply al_get_insert_same.
  - intros e cid He. rewrite Hs2c. rewrite al_get_insert_other; [exact He|]. intros ->. congruence.
  - intros e Hne. unfold cs_get. rewrite Hs2c, al_get_insert_other by exact Hne.
    destruct (al_get e (cl_s2c c)) as [cid|] eqn:E; [|reflexivity].
    destruct (H3 e cid E) as [x [Hx _]]. rewrite (Hold _ _ Hx), Hx. reflexivity.
  - unfold cs_get. rewrite Hs2c, al_get_insert_same, Hnew. cbn. destruct m; reflexivity.
  - unfold c1. meta.
  - intros cid x Hx. unfold get_cent in Hx. cbn in Hx. apply al_get_snoc in Hx.
    destruct Hx as [Hx|(_ & _ & ->)]; [left; exact Hx|right; reflexivity].
Qed.

(* ================================================================== *)
(* 3. despawns                                                        *)
(* ================================================================== *)

Lemma despawn_unmapped c s : al_get s (cl_s2c c) = None -> apply_despawn c s = c.
Proof. intros H. unfold apply_despawn, emap_remove_server. rewrite H. reflexivity. Qed.

Lemma despawn_mapped c s cid x : al_get s (cl_s2c c) = Some cid -> get_cent c cid = Some x -> ce_alive x = true ->
  apply_despawn c s = set_cent (set_maps c (al_remove s (cl_s2c c)) (al_remove cid (cl_c2s c))) cid
                               (mkCEnt false (ce_pre x) false None []).
Proof.
  intros H1 H2 H3. unfold apply_despawn, emap_remove_server. rewrite H1. cbv beta iota.
  rewrite get_cent_set_maps, H2, H3. reflexivity.
Qed.

Lemma despawn_step c S s : cs_inv c -> srel c S ->
  cs_inv (apply_despawn c s) /\ srel (apply_despawn c s) (abs_despawn S s).
Proof.
  intros Hinv Hrel. destruct (al_get s (cl_s2c c)) as [cid|] eqn:E.
  - destruct (ci_mapped c Hinv s cid E) as [x [Hx Ha]].
    pose proof (emap_wf_despawn c s (ci_emap c Hinv)) as Hwf'.
    pose proof (proj1 (frame_R_despawn c s (ci_ewf c Hinv))) as Hewf'.
    rewrite (despawn_mapped c s cid x E Hx Ha) in *.
    set (c1 := set_maps c (al_remove s (cl_s2c c)) (al_remove cid (cl_c2s c))) in *.
    assert (Hother : forall e cid', e <> s -> al_get e (cl_s2c c) = Some cid' -> cid' <> cid).
    { intros e cid' Hne He ->. apply Hne. exact (s2c_inj c e s cid (ci_emap c Hinv) He E). }
    split.
    + constructor; [exact Hwf'|exact Hewf'| |].
      * intros s' cid' Hs'. cbn in Hs'. destruct (N.eq_dec s' s) as [->|Hne].
        -- rewrite al_get_remove_same in Hs'. discriminate.
        -- rewrite al_get_remove_other in Hs' by exact Hne.
           rewrite get_cent_set_cent_other by exact (Hother s' cid' Hne Hs'). unfold c1. rewrite get_cent_set_maps.
           exact (ci_mapped c Hinv s' cid' Hs').
      * intros cid0 x0. destruct (N.eq_dec cid0 cid) as [->|Hne].
        -- rewrite get_cent_set_cent_same. intros H; inversion H; subst. cbn. auto.
        -- rewrite get_cent_set_cent_other by exact Hne. unfold c1. rewrite get_cent_set_maps. apply (ci_blank c Hinv).
    + intros e. unfold abs_despawn. rewrite al_get_remove. destruct (e =? s) eqn:Ee.
      * assert (e = s) by lia. subst e. rewrite cs_get_unmapped; [exact I|]. cbn. apply al_get_remove_same.
      * assert (Hne : e <> s) by lia. replace (cs_get (set_cent c1 cid _) e) with (cs_get c e); [apply Hrel|].
        unfold cs_get. cbn [set_cent cl_s2c c1 set_maps]. rewrite al_get_remove_other by exact Hne.
        destruct (al_get e (cl_s2c c)) as [cid'|] eqn:E'; [|reflexivity].
        rewrite get_cent_set_cent_other by exact (Hother e cid' Hne E'). reflexivity.
  - rewrite (despawn_unmapped c s E). split; [exact Hinv|]. intros e. unfold abs_despawn. rewrite al_get_remove.
    destruct (e =? s) eqn:Ee; [|apply Hrel]. assert (e = s) by lia. subst e. rewrite (cs_get_unmapped c s E). exact I.
Qed.

Lemma despawns_struct ds : forall c S, cs_inv c -> srel c S ->
  cs_inv (fold_left apply_despawn ds c) /\ srel (fold_left apply_despawn ds c) (fold_left abs_despawn ds S).
Proof.
  induction ds as [|d t IH]; intros c S Hinv Hrel; cbn [fold_left]; [auto|].
  destruct (despawn_step c S d Hinv Hrel) as [H1 H2]. apply IH; assumption.
Qed.

(* ================================================================== *)
(* 4. the entry lookup                                                *)
(* ================================================================== *)

Lemma entry_props c e : cs_inv c ->
  exists c1 cid x, entry_entity c e = Some (c1, cid) /\ cs_inv c1 /\ get_cent c1 cid = Some x /\ ce_alive x = true /\
    al_get e (cl_s2c c1) = Some cid /\ map fst (ce_comps x) = cs_kinds c e /\
    (forall e', e' <> e -> cs_get c1 e' = cs_get c e') /\
    (forall e' cid', al_get e' (cl_s2c c) = Some cid' -> al_get e' (cl_s2c c1) = Some cid') /\
    (forall cid' y, get_cent c cid' = Some y -> get_cent c1 cid' = Some y).
Proof.
  intros Hinv. destruct (al_get e (cl_s2c c)) as [cid|] eqn:E.
  - destruct (ci_mapped c Hinv e cid E) as [x [Hx Ha]]. exists c, cid, x.
    split; [unfold entry_entity, alive; rewrite E, Hx, Ha; reflexivity|].
    split; [exact Hinv|]. split; [exact Hx|]. split; [exact Ha|]. split; [exact E|].
    split; [exact (cs_kinds_mapped c e cid x Hinv E Hx Ha)|auto].
  - destruct (spawn_vacant_props c e true Hinv E) as (H1 & H2 & H3 & H4 & H5 & H6 & _ & _ & _).
    eexists _, (cl_next c), _. split; [unfold entry_entity; rewrite E; reflexivity|].
    split; [exact H1|]. split; [exact H3|]. split; [reflexivity|]. split; [exact H4|].
    split; [|split; [exact H6|split; [exact H5|exact H2]]]. unfold cs_kinds. rewrite (cs_get_unmapped c e E). reflexivity.
Qed.

(* ================================================================== *)
(* 5. removals                                                        *)
(* ================================================================== *)

Lemma map_filter_fst {V} (p : N -> bool) (l : list (N * V)) :
  map fst (filter (fun kv => p (fst kv)) l) = filter p (map fst l).
Proof.
  induction l as [|[k v] t IH]; cbn [filter map fst]; [reflexivity|].
  destruct (p k); cbn [map fst]; rewrite IH; reflexivity.
Qed.

Lemma removal_step c S T r0 r : cs_inv c -> srel c S ->
  apply_removals c T (fst r0) (snd r0) = Ok r ->
  exists c', r = Continue c' /\ cs_inv c' /\ srel c' (abs_removal S r0).
Proof.
  intros Hinv Hrel H. destruct r0 as [e ks]. cbn [fst snd] in H.
  destruct (entry_props c e Hinv) as (c1 & cid & x & He & Hinv1 & Hx & Ha & Hs & Hk & Hoth & _ & _).
  unfold apply_removals in H. rewrite He, Hx in H. apply bind_ok in H. destruct H as [x1 [E1 H]].
  inversion H; subst r. clear H. eexists. split; [reflexivity|].
  apply confirm_tick_fields in E1. cbn [with_marker ce_alive ce_pre ce_marker ce_comps ce_hist] in E1.
  destruct E1 as (A1 & _ & A3 & A4 & _).
  split.
  - eapply cs_inv_set_cent; [exact Hinv1|exact Hx|cbn; congruence|cbn; congruence].
  - intros e'. unfold abs_removal. cbn [fst snd]. rewrite al_get_insert. destruct (e' =? e) eqn:Ee.
    + assert (e' = e) by lia. subst e'. rewrite (cs_get_set_cent_same c1 e cid _ Hs).
      cbn [ce_alive ce_marker ce_comps]. rewrite A1, A3, Ha. cbn [andb opt_equiv].
      intros k. rewrite A4. rewrite (map_filter_fst (fun k0 => negb (mem_N k0 ks))).
      rewrite mem_N_filter, mem_N_kinds_remove, Hk. rewrite (srel_kinds c S e Hrel k). reflexivity.
    + assert (Hne : e' <> e) by lia. rewrite (cs_get_set_cent_other c1 e e' cid _ (ci_emap c1 Hinv1) Hs Hne).
      rewrite (Hoth e' Hne). apply Hrel.
Qed.

Lemma removals_struct T l : forall c S r, cs_inv c -> srel c S ->
  run_array (fun c r => apply_removals c T (fst r) (snd r)) l c = Ok r ->
  exists c', r = Continue c' /\ cs_inv c' /\ srel c' (fold_left abs_removal l S).
Proof.
  induction l as [|a t IH]; intros c S r Hinv Hrel H.
  - rewrite run_array_nil in H. inversion H; subst. exists c. auto.
  - rewrite run_array_cons in H. destruct (apply_removals c T (fst a) (snd a)) as [r1| |] eqn:E; try discriminate.
    destruct (removal_step c S T a r1 Hinv Hrel E) as (c1 & -> & Hinv1 & Hrel1). cbn [fold_left].
    exact (IH c1 _ r Hinv1 Hrel1 H).
Qed.

(* ================================================================== *)
(* 6. writing components, changes                                     *)
(* ================================================================== *)

(* a reference to an unknown server entity creates a placeholder: mapped, not marked, blank *)
Definition placeholder : cent := mkCEnt true None false None [].

Lemma map_value_props c v : cs_inv c ->
  let c1 := fst (map_value c v) in
  cs_inv c1 /\ (forall cid x, get_cent c cid = Some x -> get_cent c1 cid = Some x) /\
  (forall e cid, al_get e (cl_s2c c) = Some cid -> al_get e (cl_s2c c1) = Some cid) /\
  (forall e, cs_get c1 e = cs_get c e) /\
  (forall cid x, get_cent c1 cid = Some x -> get_cent c cid = Some x \/ x = placeholder).
Proof.
  intros Hinv. destruct v as [n|t]; [cbn; auto 6|]. unfold map_value.
  destruct (al_get t (cl_s2c c)) as [cid|] eqn:E; [cbn; auto 6|].
  destruct (spawn_vacant_props c t false Hinv E) as (H1 & H2 & _ & _ & H5 & H6 & H7 & _ & H9).
  cbn [spawn_cent fst snd] in *. split; [exact H1|]. split; [exact H2|]. split; [exact H5|]. split; [|exact H9].
  intros e. destruct (N.eq_dec e t) as [->|Hne]; [|exact (H6 e Hne)].
  rewrite H7. symmetry. exact (cs_get_unmapped c t E).
Qed.

Lemma mem_N_nil k : mem_N k [] = false.
Proof. reflexivity. Qed.

Lemma mem_N_kinsert {V} k' k (v : V) l : mem_N k' (map fst (kinsert k v l)) = (k' =? k) || mem_N k' (map fst l).
Proof.
  induction l as [|[k0 v0] t IH]; cbn [kinsert map fst]; [reflexivity|].
  destruct (k =? k0) eqn:E.
  - assert (k = k0) by lia. subst k0. cbn [map fst]. rewrite !mem_N_cons. destruct (k' =? k); reflexivity.
  - destruct (k <? k0); cbn [map fst]; rewrite !mem_N_cons; [reflexivity|]. rewrite IH.
    destruct (k' =? k), (k' =? k0); reflexivity.
Qed.

(* what writing components into the (marked) client entity [cid] of server entity [e] does *)
Record write_post (c c' : client) (e cid : N) (x : cent) (ks : list N) : Prop := mkWP {
  wp_inv : cs_inv c';
  wp_map : forall e' cid', al_get e' (cl_s2c c) = Some cid' -> al_get e' (cl_s2c c') = Some cid';
  wp_ent : exists x', get_cent c' cid = Some x' /\ ce_alive x' = true /\ ce_marker x' = true /\ ce_hist x' = ce_hist x /\
                      ce_pre x' = ce_pre x /\ kinds_equiv (map fst (ce_comps x')) (map fst (ce_comps x) ++ ks);
  wp_struct : forall e', e' <> e -> cs_get c' e' = cs_get c e';
  wp_fwd : forall cid' y, cid' <> cid -> get_cent c cid' = Some y -> get_cent c' cid' = Some y;
  wp_bwd : forall cid' y, cid' <> cid -> get_cent c' cid' = Some y -> get_cent c cid' = Some y \/ y = placeholder
}.

Lemma write_one_props c e cid x kv : cs_inv c -> al_get e (cl_s2c c) = Some cid -> get_cent c cid = Some x ->
  ce_alive x = true -> ce_marker x = true -> write_post c (write_one cid c kv) e cid x [fst kv].
Proof.
  intros Hinv He Hx Ha Hm. rewrite write_one_eq.
  destruct (map_value_props c (snd kv) Hinv) as (H1 & H2 & H3 & H4 & H5). cbv zeta in H1, H2, H3, H4, H5.
  set (c1 := fst (map_value c (snd kv))) in *. rewrite (H2 cid x Hx).
  set (x' := mkCEnt (ce_alive x) (ce_pre x) (ce_marker x) (ce_hist x) (kinsert (fst kv) (snd (map_value c (snd kv))) (ce_comps x))).
  constructor.
  - eapply cs_inv_set_cent; [exact H1|exact (H2 cid x Hx)|exact Ha|cbn; congruence].
  - intros e' cid' He'. cbn. exact (H3 e' cid' He').
  - exists x'. split; [apply get_cent_set_cent_same|]. split; [exact Ha|]. split; [exact Hm|].
    split; [reflexivity|]. split; [reflexivity|].
    intros k. cbn [x' ce_comps]. rewrite mem_N_kinsert, mem_N_app, mem_N_cons, mem_N_nil.
    destruct (k =? fst kv), (mem_N k (map fst (ce_comps x))); reflexivity.
  - intros e' Hne. rewrite (cs_get_set_cent_other c1 e e' cid x' (ci_emap c1 H1) (H3 e cid He) Hne). apply H4.
  - intros cid' y Hne Hy. rewrite get_cent_set_cent_other by exact Hne. exact (H2 cid' y Hy).
  - intros cid' y Hne Hy. rewrite get_cent_set_cent_other in Hy by exact Hne. exact (H5 cid' y Hy).
Qed.

Lemma write_comps_props comps : forall c e cid x, cs_inv c -> al_get e (cl_s2c c) = Some cid -> get_cent c cid = Some x ->
  ce_alive x = true -> ce_marker x = true -> write_post c (write_comps c cid comps) e cid x (map fst comps).
Proof.
  induction comps as [|kv t IH]; intros c e cid x Hinv He Hx Ha Hm.
  - cbn. constructor; auto. exists x. repeat (split; [first [assumption|reflexivity]|]).
    rewrite app_nil_r. apply kinds_equiv_refl.
  - rewrite write_comps_cons.
    destruct (write_one_props c e cid x kv Hinv He Hx Ha Hm) as [H1 H2 (x1 & Hx1 & Ha1 & Hm1 & Hh1 & Hp1 & Hk1) H4 H5 H6].
    destruct (IH _ e cid x1 H1 (H2 e cid He) Hx1 Ha1 Hm1) as [G1 G2 (x2 & Hx2 & Ha2 & Hm2 & Hh2 & Hp2 & Hk2) G4 G5 G6].
    constructor.
    + exact G1.
    + intros e' cid' He'. apply G2. apply H2. exact He'.
    + exists x2. split; [exact Hx2|]. split; [exact Ha2|]. split; [exact Hm2|]. split; [congruence|]. split; [congruence|].
      intros k. rewrite (Hk2 k). rewrite !mem_N_app. rewrite (Hk1 k). cbn [map]. rewrite mem_N_app, !mem_N_cons, mem_N_nil.
      destruct (mem_N k (map fst (ce_comps x))), (k =? fst kv), (mem_N k (map fst t)); reflexivity.
    + intros e' Hne. rewrite (G4 e' Hne). apply H4. exact Hne.
    + intros cid' y Hne Hy. apply G5; [exact Hne|]. apply H5; assumption.
    + intros cid' y Hne Hy. destruct (G6 cid' y Hne Hy) as [Hy1|Hy1]; [|right; exact Hy1]. exact (H6 cid' y Hne Hy1).
Qed.

Lemma change_step c S T ch r : cs_inv c -> srel c S ->
  apply_changes c T (fst ch) (snd ch) = Ok r ->
  exists c', r = Continue c' /\ cs_inv c' /\ srel c' (abs_change S ch).
Proof.
  intros Hinv Hrel H. destruct ch as [e comps]. cbn [fst snd] in H.
  destruct (entry_props c e Hinv) as (c1 & cid & x & He & Hinv1 & Hx & Ha & Hs & Hk & Hoth & _ & _).
  unfold apply_changes in H. rewrite He, Hx in H. apply bind_ok in H. destruct H as [x1 [E1 H]].
  inversion H; subst r. clear H. eexists. split; [reflexivity|].
  apply confirm_tick_fields in E1. cbn [with_marker ce_alive ce_pre ce_marker ce_comps ce_hist] in E1.
  destruct E1 as (A1 & _ & A3 & A4 & _).
  assert (Hinv2 : cs_inv (set_cent c1 cid x1)).
  { eapply cs_inv_set_cent; [exact Hinv1|exact Hx|congruence|congruence]. }
  destruct (write_comps_props comps (set_cent c1 cid x1) e cid x1 Hinv2 Hs (get_cent_set_cent_same _ _ _)
              (eq_trans A1 Ha) A3) as [G1 G2' (x2 & Hx2 & Ha2 & Hm2 & _ & _ & Hk2) G4 _ _].
  pose proof (G2' e cid Hs) as G2. split; [exact G1|].
  intros e'. unfold abs_change. cbn [fst snd]. rewrite al_get_insert. destruct (e' =? e) eqn:Ee.
  - assert (e' = e) by lia. subst e'. rewrite (cs_get_mapped _ e cid x2 G2 Hx2), Ha2, Hm2. cbn [andb opt_equiv].
    intros k. rewrite (Hk2 k), !mem_N_app, A4, Hk. rewrite (srel_kinds c S e Hrel k). reflexivity.
  - assert (Hne : e' <> e) by lia. rewrite (G4 e' Hne).
    rewrite (cs_get_set_cent_other c1 e e' cid x1 (ci_emap c1 Hinv1) Hs Hne). rewrite (Hoth e' Hne). apply Hrel.
Qed.

Lemma changes_struct T l : forall c S r, cs_inv c -> srel c S ->
  run_array (fun c ch => apply_changes c T (fst ch) (snd ch)) l c = Ok r ->
  exists c', r = Continue c' /\ cs_inv c' /\ srel c' (fold_left abs_change l S).
Proof.
  induction l as [|a t IH]; intros c S r Hinv Hrel H.
  - rewrite run_array_nil in H. inversion H; subst. exists c. auto.
  - rewrite run_array_cons in H. destruct (apply_changes c T (fst a) (snd a)) as [r1| |] eqn:E; try discriminate.
    destruct (change_step c S T a r1 Hinv Hrel E) as (c1 & -> & Hinv1 & Hrel1). cbn [fold_left].
    exact (IH c1 _ r Hinv1 Hrel1 H).
Qed.

(* ================================================================== *)
(* 7. THEOREM (client step): an update message without pre-spawn      *)
(*    mappings is applied completely and has the effect of abs_apply  *)
(* ================================================================== *)

Theorem update_message_srel c S u c' :
  cs_inv c -> srel c S -> u_maps u = [] -> apply_update_message c u = Ok c' ->
  srel c' (abs_apply S u) /\ cs_inv c' /\ cl_upd_tick c' = u_tick u /\ update_completes c u c'.
Proof.
  intros Hinv Hrel Hm H. pose proof (update_tick_follows_messages c u c' H) as Ht.
  unfold apply_update_message in H. cbv zeta in H. fold (update_pre c u) in H.
  assert (Hpre : cs_inv (update_pre c u) /\ srel (update_pre c u) (fold_left abs_despawn (u_despawns u) S)).
  { unfold update_pre. rewrite Hm. cbn [fold_left]. apply despawns_struct.
    - revert Hinv. apply cs_inv_ext; reflexivity.
    - revert Hrel. apply srel_ext; reflexivity. }
  destruct Hpre as [Hinv2 Hrel2].
  apply bind_ok in H. destruct H as [r3 [E3 H]].
  destruct (removals_struct _ _ _ _ _ Hinv2 Hrel2 E3) as (c3 & -> & Hinv3 & Hrel3).
  apply bind_ok in H. destruct H as [r4 [E4 H]].
  destruct (changes_struct _ _ _ _ _ Hinv3 Hrel3 E4) as (c4 & -> & Hinv4 & Hrel4).
  inversion H; subst c'. split; [exact Hrel4|]. split; [exact Hinv4|]. split; [exact Ht|].
  exists c3. auto.
Qed.

Theorem update_message_struct c u c' :
  cs_inv c -> u_maps u = [] -> apply_update_message c u = Ok c' ->
  struct_equiv (client_struct c') (abs_apply (client_struct c) u) /\ cs_inv c' /\ cl_upd_tick c' = u_tick u.
Proof.
  intros Hinv Hm H.
  destruct (update_message_srel c (client_struct c) u c' Hinv (srel_self c (cs_inv_nodup c Hinv)) Hm H) as (H1 & H2 & H3 & _).
  split; [|auto]. apply srel_struct_equiv; [exact (cs_inv_nodup c' H2)|exact H1].
Qed.

(* ================================================================== *)
(* 8. mutate messages keep the structure                              *)
(* ================================================================== *)

Lemma Npow31 : 2 ^ 31 = 2147483648. Proof. reflexivity. Qed.

(* below half the range the wrapping comparison is the usual one *)
Lemma tick_gtb_small a b : small_tick a -> small_tick b -> tick_gtb a b = (b <? a).
Proof.
  unfold small_tick. intros Ha Hb. pose proof Npow31 as P31. pose proof Npow32 as P32.
  replace (tick_gtb a b) with (tick_gtb (wrap (Z.of_N a)) (wrap (Z.of_N b)))
    by (rewrite !wrap_of_N by lia; reflexivity).
  rewrite tick_gtb_spec by (rewrite Zpow31; lia).
  destruct (Z.ltb_spec (Z.of_N b) (Z.of_N a)); destruct (N.ltb_spec b a); lia.
Qed.

Definition hist_small (c : client) : Prop :=
  forall cid x h, get_cent c cid = Some x -> ce_hist x = Some h -> small_tick (h_last h).

Lemma entry_safe_ext c c' T e comps : cl_s2c c' = cl_s2c c -> cl_ents c' = cl_ents c ->
  entry_safe c T e comps -> entry_safe c' T e comps.
Proof. intros E1 E3 H cid x. unfold get_cent. rewrite E1, E3. apply H. Qed.

Lemma hist_small_ext c c' : cl_ents c' = cl_ents c -> hist_small c -> hist_small c'.
Proof. intros E3 H cid x h. unfold get_cent. rewrite E3. apply H. Qed.

Section MutStruct.
  Variable S : structure.
  (* the body entries (tick, entity, components) still to be applied *)
  Variable P : N -> N -> list (N * val) -> Prop.

  Definition mut_J (c : client) : Prop :=
    cs_inv c /\ srel c S /\ hist_small c /\
    forall T e comps, P T e comps -> small_tick T /\ entry_safe c T e comps.

  Lemma mut_J_ext c c' :
    cl_s2c c' = cl_s2c c -> cl_c2s c' = cl_c2s c -> cl_ents c' = cl_ents c -> cl_next c' = cl_next c ->
    mut_J c -> mut_J c'.
  Proof.
    intros E1 E2 E3 E4 (H1 & H2 & H3 & H4). split; [exact (cs_inv_ext c c' E1 E2 E3 E4 H1)|].
    split; [exact (srel_ext c c' S E1 E3 H2)|]. split; [exact (hist_small_ext c c' E3 H3)|].
    intros T e comps Hp. destruct (H4 T e comps Hp) as [A B]. split; [exact A|exact (entry_safe_ext c c' T e comps E1 E3 B)].
  Qed.

  Lemma mut_J_step c T e comps r :
    mut_J c -> P T e comps -> apply_mutations c T e comps = Ok r -> mut_J (sr_client r).
  Proof.
    intros HJ Hp H. pose proof HJ as (Hinv & Hrel & Hsm & Hsafe).
    destruct (Hsafe T e comps Hp) as [HT Hes].
    unfold apply_mutations in H.
    destruct (al_get e (cl_s2c c)) as [cid|] eqn:He; [|inversion H; subst; exact HJ].
    destruct (get_cent c cid) as [x|] eqn:Hx; [|inversion H; subst; exact HJ].
    destruct (ce_alive x) eqn:Ha; cbn [negb] in H; [|inversion H; subst; exact HJ].
    destruct (ce_hist x) as [h|] eqn:Hh; [|inversion H; subst; exact HJ].
    destruct (tick_gtb T (h_last h)) eqn:Eg; [|inversion H; subst; exact HJ].
    apply bind_ok in H. destruct H as [h' [Eh' H]]. inversion H; subst r. clear H. cbn [sr_client].
    apply hist_set_last_tick_ok in Eh'. destruct Eh' as [Hl' _].
    assert (Hm : ce_marker x = true).
    { destruct (ce_marker x) eqn:Em; [reflexivity|]. destruct (ci_blank c Hinv cid x Hx Em) as [_ Hn]. congruence. }
    pose proof (Hsm cid x h Hx Hh) as Hhs.
    rewrite (tick_gtb_small T (h_last h) HT Hhs) in Eg.
    assert (Hsub : kinds_sub (map fst comps) (map fst (ce_comps x))).
    { destruct (Hes cid x He Hx Hm) as [Hs|[h0 [Hh0 Hle]]]; [exact Hs|]. assert (h0 = h) by congruence. subst h0. lia. }
    set (x1 := mkCEnt true (ce_pre x) (ce_marker x) (Some h') (ce_comps x)).
    set (c2 := set_cent c cid x1).
    assert (Hinv2 : cs_inv c2) by (eapply cs_inv_set_cent; [exact Hinv|exact Hx|reflexivity|cbn; congruence]).
    destruct (write_comps_props comps c2 e cid x1 Hinv2 He (get_cent_set_cent_same _ _ _) eq_refl Hm)
      as [G1 G2 (x' & Hx' & Ha' & Hm' & Hh' & _ & Hk') G4 G5 G6].
    set (c' := write_comps c2 cid comps) in *.
    assert (Hkx : kinds_equiv (map fst (ce_comps x')) (map fst (ce_comps x))).
    { intros k. rewrite (Hk' k), mem_N_app. cbn [x1 ce_comps].
      destruct (mem_N k (map fst (ce_comps x))) eqn:E1; [reflexivity|].
      destruct (mem_N k (map fst comps)) eqn:E2; [|reflexivity].
      apply mem_N_In in E2. apply Hsub in E2. apply mem_N_In in E2. congruence. }
    assert (Hoth : forall e', e' <> e -> cs_get c' e' = cs_get c e').
    { intros e' Hne. rewrite (G4 e' Hne). exact (cs_get_set_cent_other c e e' cid x1 (ci_emap c Hinv) He Hne). }
    assert (Hfwd : forall cid' y, cid' <> cid -> get_cent c cid' = Some y -> get_cent c' cid' = Some y).
    { intros cid' y Hne Hy. apply G5; [exact Hne|]. unfold c2. rewrite get_cent_set_cent_other by exact Hne. exact Hy. }
    split; [exact G1|]. split; [|split].
    - intros e'. destruct (N.eq_dec e' e) as [->|Hne]; [|rewrite (Hoth e' Hne); apply Hrel].
      specialize (Hrel e). rewrite (cs_get_mapped c e cid x He Hx), Ha, Hm in Hrel. cbn [andb] in Hrel.
      rewrite (cs_get_mapped c' e cid x' (G2 e cid He) Hx'), Ha', Hm'. cbn [andb].
      eapply opt_equiv_trans; [|exact Hrel]. exact Hkx.
    - intros cid0 x0 h0 Hx0 Hh0. destruct (N.eq_dec cid0 cid) as [->|Hne].
      + rewrite Hx' in Hx0. inversion Hx0; subst x0. rewrite Hh' in Hh0. cbn in Hh0. inversion Hh0; subst h0.
        rewrite Hl'. exact HT.
      + destruct (G6 cid0 x0 Hne Hx0) as [Hy | ->]; [|discriminate].
        unfold c2 in Hy. rewrite get_cent_set_cent_other in Hy by exact Hne. exact (Hsm cid0 x0 h0 Hy Hh0).
    - intros T1 e1 comps1 Hp1. destruct (Hsafe T1 e1 comps1 Hp1) as [HT1 Hes1]. split; [exact HT1|].
      intros cid1 x1' Hs1 Hx1 Hm1. destruct (N.eq_dec e1 e) as [->|Hne].
      + rewrite (G2 e cid He) in Hs1. inversion Hs1; subst cid1. rewrite Hx' in Hx1. inversion Hx1; subst x1'.
        destruct (Hes1 cid x He Hx Hm) as [Hs|[h0 [Hh0 Hle]]].
        * left. intros k Hk. apply Hs in Hk. apply mem_N_In. rewrite (Hkx k). apply mem_N_In. exact Hk.
        * right. assert (h0 = h) by congruence. subst h0. exists h'. split; [rewrite Hh'; reflexivity|]. lia.
      + destruct (ci_mapped c' G1 e1 cid1 Hs1) as [y [Hy Hay]]. rewrite Hx1 in Hy. inversion Hy; subst y.
        pose proof (Hoth e1 Hne) as Hg. rewrite (cs_get_mapped c' e1 cid1 x1' Hs1 Hx1), Hay, Hm1 in Hg. cbn [andb] in Hg.
        unfold cs_get in Hg. destruct (al_get e1 (cl_s2c c)) as [cid0|] eqn:E0; [|discriminate].
        assert (cid0 = cid1) by (pose proof (G2 e1 cid0 E0) as G; congruence). subst cid0.
        destruct (get_cent c cid1) as [x0|] eqn:Ex0; [|discriminate].
        assert (Hc : cid1 <> cid) by (intros ->; apply Hne; exact (s2c_inj c e1 e cid (ci_emap c Hinv) E0 He)).
        pose proof (Hfwd cid1 x0 Hc Ex0) as Hf. rewrite Hx1 in Hf. inversion Hf; subst x0.
        exact (Hes1 cid1 x1' E0 Ex0 Hm1).
  Qed.

  Lemma mut_J_body T b : forall c r, (forall e comps, In (e, comps) b -> P T e comps) ->
    mut_J c -> run_array (fun c b => apply_mutations c T (fst b) (snd b)) b c = Ok r -> mut_J (sr_client r).
  Proof.
    intros c r Hb HJ H.
    refine (run_array_rel (fun a b => mut_J a -> mut_J b) _ b _ _ _ c r H HJ); [auto|auto|].
    intros c0 [e comps] r0 Hin E HJ0. cbn [fst snd] in E. exact (mut_J_step c0 T e comps r0 HJ0 (Hb e comps Hin) E).
  Qed.
End MutStruct.

Theorem mutate_messages_srel c S c' out :
  cs_inv c -> srel c S -> mut_safe c -> apply_mutate_messages c = Ok (c', out) ->
  cs_inv c' /\ srel c' S /\ hist_small c'.
Proof.
  intros Hinv Hrel (Hm1 & Hm2 & Hm3) H.
  set (P := fun T e comps => exists m, In m (cl_buffered c) /\ tick_gtb (m_upd_tick m) (cl_upd_tick c) = false /\
                                       T = m_tick m /\ In (e, comps) (m_body m)).
  assert (HJ : mut_J S P c).
  { split; [exact Hinv|]. split; [exact Hrel|]. split; [exact Hm2|].
    intros T e comps (m & Hin & Hg & -> & Hb). split; [exact (Hm1 m Hin)|exact (Hm3 m Hin Hg e comps Hb)]. }
  rewrite apply_mutate_messages_eq in H. apply bind_ok in H. destruct H as [st [E H]].
  assert (Hst : mut_J S P (mm_client st)).
  { refine (fold_res_rel (fun a b => mut_J S P (mm_client a) -> mut_J S P (mm_client b)) _ _ _ _ _ _ _ E HJ); [auto|auto|].
    intros [[[c0 kept] acks] evs] m st1 Hin Hs HJ0. unfold mm_client in *; cbn [fst] in *. cbn [mm_step] in Hs.
    destruct (tick_gtb (m_upd_tick m) (cl_upd_tick c)) eqn:Eg.
    - inversion Hs; subst; cbn [fst]. exact HJ0.
    - apply bind_ok in Hs. destruct Hs as [r [Er Hs]].
      assert (H1 : mut_J S P (sr_client r)).
      { refine (mut_J_body S P (m_tick m) (m_body m) c0 r _ HJ0 Er). intros e comps Hb. exists m. auto. }
      change (match r with Continue c1 => c1 | Abort c1 => c1 end) with (sr_client r) in Hs.
      destruct (cl_mticks (sr_client r)) as [mtk|].
      + apply bind_ok in Hs. destruct Hs as [[mtk' done] [_ Hs]]. inversion Hs; subst; cbn [fst].
        revert H1. apply mut_J_ext; reflexivity.
      + inversion Hs; subst; cbn [fst]. exact H1. }
  destruct st as [[[c0 kept] acks] evs]. inversion H; subst. unfold mm_client in Hst; cbn [fst] in Hst.
  assert (HJ' : mut_J S P (set_buffered c0 kept (cl_mticks c0))) by (revert Hst; apply mut_J_ext; reflexivity).
  destruct HJ' as (A & B & C & _). auto.
Qed.

Theorem mutate_messages_struct c c' out :
  cs_inv c -> mut_safe c -> apply_mutate_messages c = Ok (c', out) ->
  struct_equiv (client_struct c') (client_struct c) /\ cs_inv c'.
Proof.
  intros Hinv Hs H.
  destruct (mutate_messages_srel c (client_struct c) c' out Hinv (srel_self c (cs_inv_nodup c Hinv)) Hs H) as (H1 & H2 & _).
  split; [|exact H1]. apply srel_struct_equiv; [exact (cs_inv_nodup c' H1)|exact H2].
Qed.

(* nothing buffered: nothing to check *)
Lemma mut_safe_empty c : cl_buffered c = [] -> hist_small c -> mut_safe c.
Proof. intros E H. unfold mut_safe. rewrite E. split; [intros m []|]. split; [exact H|intros m []]. Qed.

(* nothing buffered: `apply_mutate_messages` only normalises the buffer *)
Lemma mutate_messages_empty c : cl_buffered c = [] ->
  apply_mutate_messages c = Ok (set_buffered c [] (cl_mticks c), mkCFO [] []).
Proof. intros E. unfold apply_mutate_messages. rewrite E. reflexivity. Qed.

(* ================================================================== *)
(* 9. client operations and the bookkeeping steps                     *)
(* ================================================================== *)

Lemma unmapped_iff c cid : emap_wf c -> (al_get cid (cl_c2s c) = None <-> forall s, al_get s (cl_s2c c) <> Some cid).
Proof.
  intros (_ & _ & H3 & _). split.
  - intros Hn s Hs. apply H3 in Hs. congruence.
  - intros Hall. destruct (al_get cid (cl_c2s c)) as [s|] eqn:E; [|reflexivity]. apply H3 in E. exfalso. exact (Hall s E).
Qed.

Lemma cs_inv_kill_unmapped c cid x : cs_inv c -> get_cent c cid = Some x -> al_get cid (cl_c2s c) = None ->
  cs_inv (set_cent c cid (mkCEnt false (ce_pre x) false None [])).
Proof.
  intros [H1 H2 H3 H4] Hx Hun. pose proof (proj1 (unmapped_iff c cid H1) Hun) as Hno. constructor.
  - apply emap_wf_set_cent. exact H1.
  - eapply ewf_set_cent; eauto.
  - intros s cid0 Hs. cbn [set_cent cl_s2c] in Hs. rewrite get_cent_set_cent_other; [exact (H3 s cid0 Hs)|].
    intros ->. exact (Hno s Hs).
  - intros cid0 x0. destruct (N.eq_dec cid0 cid) as [->|Hne].
    + rewrite get_cent_set_cent_same. intros E; inversion E; subst. cbn. auto.
    + rewrite get_cent_set_cent_other by exact Hne. apply H4.
Qed.

Lemma find_has_pre c pc cid x : ewf c -> find (has_pre pc) (cl_ents c) = Some (cid, x) ->
  get_cent c cid = Some x /\ ce_pre x = Some pc.
Proof.
  intros [Hnd _] H. apply find_some in H. destruct H as [Hin Hp]. apply has_pre_true in Hp. cbn in Hp.
  split; [exact (al_get_in_nodup _ _ _ Hnd Hin)|exact Hp].
Qed.

Lemma cop_step c op : cs_inv c -> cop_safe c op = true ->
  cs_inv (apply_cop c op) /\ (forall e, cs_get (apply_cop c op) e = cs_get c e).
Proof.
  intros Hinv Hs. destruct op as [pc|pc]; cbn [apply_cop].
  - destruct (existsb _ (cl_ents c)); [auto|]. pose proof Hinv as [H1 H2 H3 H4].
    assert (Hold : forall cid x, get_cent c cid = Some x -> get_cent (fst (spawn_cent c (Some pc) false)) cid = Some x).
    { intros cid x H. unfold get_cent in *. cbn. apply al_get_app_some. exact H. }
    split.
    + constructor.
      * apply emap_wf_spawn. exact H1.
      * apply ewf_spawn. exact H2.
      * intros s cid Hsc. cbn in Hsc. destruct (H3 s cid Hsc) as [x [Hx Ha]]. exists x. split; [apply Hold; exact Hx|exact Ha].
      * intros cid x Hx Hm. unfold get_cent in Hx. cbn in Hx. apply al_get_snoc in Hx.
        destruct Hx as [Hx|(_ & _ & ->)]; [exact (H4 cid x Hx Hm)|]. cbn. auto.
    + intros e. unfold cs_get. change (cl_s2c (fst (spawn_cent c (Some pc) false))) with (cl_s2c c).
      destruct (al_get e (cl_s2c c)) as [cid|] eqn:E; [|reflexivity].
      destruct (H3 e cid E) as [x [Hx _]]. rewrite (Hold cid x Hx), Hx. reflexivity.
  - cbn [cop_safe] in Hs. change (fun kv : N * cent => match ce_pre (snd kv) with Some p => p =? pc | None => false end)
      with (has_pre pc).
    destruct (find (has_pre pc) (cl_ents c)) as [[cid x]|] eqn:Ef; [|auto].
    destruct (find_has_pre c pc cid x (ci_ewf c Hinv) Ef) as [Hx _].
    destruct (ce_alive x); [|auto].
    destruct (al_get cid (cl_c2s c)) eqn:Ec; [discriminate|]. split.
    + exact (cs_inv_kill_unmapped c cid x Hinv Hx Ec).
    + intros e. apply cs_get_set_cent_unmapped. exact (proj1 (unmapped_iff c cid (ci_emap c Hinv)) Ec).
Qed.

Lemma cops_step ops : forall c, cs_inv c -> cops_safe c ops = true ->
  cs_inv (fold_left apply_cop ops c) /\ (forall e, cs_get (fold_left apply_cop ops c) e = cs_get c e).
Proof.
  induction ops as [|op t IH]; intros c Hinv Hs; cbn [fold_left]; [auto|].
  cbn [cops_safe] in Hs. apply andb_prop in Hs. destruct Hs as [Hs1 Hs2].
  destruct (cop_step c op Hinv Hs1) as [H1 H2]. destruct (IH _ H1 Hs2) as [G1 G2].
  split; [exact G1|]. intros e. rewrite G2. apply H2.
Qed.

Lemma cs_inv_reset c : cs_inv c -> cs_inv (client_reset c).
Proof.
  intros [H1 H2 H3 H4]. constructor.
  - apply emap_wf_reset.
  - revert H2. apply ewf_ext; reflexivity.
  - intros s cid H. discriminate.
  - exact H4.
Qed.

Lemma client_struct_reset c : client_struct (client_reset c) = [].
Proof. reflexivity. Qed.

Lemma cs_inv_set_status c st : cs_inv c -> cs_inv (set_status c st).
Proof. apply cs_inv_ext; reflexivity. Qed.
Lemma cs_inv_set_locals c : cs_inv c -> cs_inv (set_locals c).
Proof. apply cs_inv_ext; reflexivity. Qed.
Lemma cs_inv_deliver_update c u : cs_inv c -> cs_inv (deliver_update c u).
Proof. unfold deliver_update. destruct (cl_status c); [auto|]. apply cs_inv_ext; reflexivity. Qed.
Lemma cs_inv_deliver_mutate c m : cs_inv c -> cs_inv (deliver_mutate c m).
Proof. unfold deliver_mutate. destruct (cl_status c); [auto|]. apply cs_inv_ext; reflexivity. Qed.

Lemma client_struct_ext c c' : cl_s2c c' = cl_s2c c -> cl_ents c' = cl_ents c -> client_struct c' = client_struct c.
Proof. intros E1 E3. unfold client_struct, get_cent. rewrite E1, E3. reflexivity. Qed.

Lemma client_struct_set_status c st : client_struct (set_status c st) = client_struct c.
Proof. apply client_struct_ext; reflexivity. Qed.
Lemma client_struct_set_locals c : client_struct (set_locals c) = client_struct c.
Proof. apply client_struct_ext; reflexivity. Qed.
Lemma client_struct_deliver_update c u : client_struct (deliver_update c u) = client_struct c.
Proof. unfold deliver_update. destruct (cl_status c); [reflexivity|]. apply client_struct_ext; reflexivity. Qed.
Lemma client_struct_deliver_mutate c m : client_struct (deliver_mutate c m) = client_struct c.
Proof. unfold deliver_mutate. destruct (cl_status c); [reflexivity|]. apply client_struct_ext; reflexivity. Qed.

(* ================================================================== *)
(* 10. pre-spawned entities stay unmapped without pre-spawn mappings  *)
(* ================================================================== *)

Definition pu (c : client) : Prop := pre_unmapped c /\ ents_fresh c.

Lemma pre_unmapped_ext c c' : cl_c2s c' = cl_c2s c -> cl_ents c' = cl_ents c -> pre_unmapped c -> pre_unmapped c'.
Proof. intros E2 E3 H cid x. unfold get_cent. rewrite E2, E3. apply H. Qed.

Lemma pu_ext c c' : cl_c2s c' = cl_c2s c -> cl_ents c' = cl_ents c -> cl_next c' = cl_next c -> pu c -> pu c'.
Proof. intros E2 E3 E4 [H1 H2]. split; [exact (pre_unmapped_ext c c' E2 E3 H1)|exact (ents_fresh_ext c c' E3 E4 H2)]. Qed.

Lemma pu_set_cent c cid x x' : pu c -> get_cent c cid = Some x -> ce_pre x' = ce_pre x -> pu (set_cent c cid x').
Proof.
  intros [H1 H2] Hx Hp. split; [|eapply ents_fresh_set_cent; eauto].
  intros cid0 x0. cbn [set_cent cl_c2s]. destruct (N.eq_dec cid0 cid) as [->|Hne].
  - rewrite get_cent_set_cent_same. intros E; inversion E; subst. rewrite Hp. apply (H1 cid x Hx).
  - rewrite get_cent_set_cent_other by exact Hne. apply H1.
Qed.

Lemma pu_spawn_vacant c t m : pu c -> pu (emap_vacant_insert (fst (spawn_cent c None m)) t (cl_next c)).
Proof.
  intros [H1 H2]. split.
  - intros cid x Hx Hp. unfold get_cent in Hx. cbn in Hx. apply al_get_snoc in Hx.
    destruct Hx as [Hx|(_ & _ & ->)]; [|cbn in Hp; congruence].
    cbn. pose proof (ents_fresh_lt c cid x H2 Hx) as Hlt. rewrite al_get_insert_other by lia. exact (H1 cid x Hx Hp).
  - pose proof (ents_fresh_spawn c None m H2) as H. revert H. apply ents_fresh_ext; reflexivity.
Qed.

Lemma pu_entry c e c1 cid : pu c -> entry_entity c e = Some (c1, cid) -> pu c1.
Proof.
  intros Hp. unfold entry_entity. destruct (al_get e (cl_s2c c)) as [cid0|].
  - destruct (alive c cid0); [|discriminate]. intros H; inversion H; subst; exact Hp.
  - intros H. cbn in H. inversion H; subst. exact (pu_spawn_vacant c e true Hp).
Qed.

Lemma pu_map_value c v : pu c -> pu (fst (map_value c v)).
Proof.
  intros Hp. unfold map_value. destruct v as [n|t]; [exact Hp|]. destruct (al_get t (cl_s2c c)); [exact Hp|].
  exact (pu_spawn_vacant c t false Hp).
Qed.

Lemma pu_write_one cid c kv : pu c -> pu (write_one cid c kv).
Proof.
  intros Hp. rewrite write_one_eq. pose proof (pu_map_value c (snd kv) Hp) as H.
  destruct (get_cent _ cid) as [x|] eqn:E; [|exact H]. eapply pu_set_cent; [exact H|exact E|reflexivity].
Qed.

Lemma pu_write_comps c cid comps : pu c -> pu (write_comps c cid comps).
Proof. rewrite write_comps_fold. apply Client_proofs.fold_left_inv. intros; apply pu_write_one; assumption. Qed.

Lemma pu_removals c T s kinds r : pu c -> apply_removals c T s kinds = Ok r -> pu (sr_client r).
Proof.
  intros Hp. unfold apply_removals. destruct (entry_entity c s) as [[c1 cid]|] eqn:E.
  - pose proof (pu_entry _ _ _ _ Hp E) as H1. destruct (get_cent c1 cid) as [x|] eqn:Ex.
    + intros H. apply bind_ok in H. destruct H as [x1 [E1 H]]. inversion H; subst. cbn [sr_client].
      apply confirm_tick_fields in E1. destruct E1 as (_ & A2 & _). eapply pu_set_cent; [exact H1|exact Ex|exact A2].
    + intros H; inversion H; subst. exact H1.
  - intros H; inversion H; subst. exact Hp.
Qed.

Lemma pu_changes c T s comps r : pu c -> apply_changes c T s comps = Ok r -> pu (sr_client r).
Proof.
  intros Hp. unfold apply_changes. destruct (entry_entity c s) as [[c1 cid]|] eqn:E.
  - pose proof (pu_entry _ _ _ _ Hp E) as H1. destruct (get_cent c1 cid) as [x|] eqn:Ex.
    + intros H. apply bind_ok in H. destruct H as [x1 [E1 H]]. inversion H; subst. cbn [sr_client].
      apply confirm_tick_fields in E1. destruct E1 as (_ & A2 & _). apply pu_write_comps.
      eapply pu_set_cent; [exact H1|exact Ex|exact A2].
    + intros H; inversion H; subst. exact H1.
  - intros H; inversion H; subst. exact Hp.
Qed.

Lemma pu_mutations c T s comps r : pu c -> apply_mutations c T s comps = Ok r -> pu (sr_client r).
Proof.
  intros Hp. unfold apply_mutations. destruct (al_get s (cl_s2c c)) as [cid|]; [|intros H; inversion H; exact Hp].
  destruct (get_cent c cid) as [x|] eqn:Ex; [|intros H; inversion H; exact Hp].
  destruct (negb (ce_alive x)); [intros H; inversion H; exact Hp|].
  destruct (ce_hist x) as [h|]; [|intros H; inversion H; exact Hp].
  destruct (tick_gtb T (h_last h)); [|intros H; inversion H; exact Hp].
  intros H. apply bind_ok in H. destruct H as [h' [_ H]]. inversion H; subst. cbn [sr_client].
  apply pu_write_comps. eapply pu_set_cent; [exact Hp|exact Ex|reflexivity].
Qed.

Lemma pu_despawn c s : pu c -> pu (apply_despawn c s).
Proof.
  intros [H1 H2]. split; [|apply ents_fresh_despawn; exact H2].
  unfold apply_despawn, emap_remove_server. destruct (al_get s (cl_s2c c)) as [cid|]; [|exact H1].
  cbv beta iota. rewrite get_cent_set_maps.
  assert (G : pre_unmapped (set_maps c (al_remove s (cl_s2c c)) (al_remove cid (cl_c2s c)))).
  { intros cid0 x0 Hx0 Hp0. cbn. apply al_get_remove_none. rewrite get_cent_set_maps in Hx0. exact (H1 cid0 x0 Hx0 Hp0). }
  destruct (get_cent c cid) as [x|] eqn:Ex; [|exact G]. destruct (ce_alive x); [|exact G].
  intros cid0 x0. cbn [set_cent cl_c2s]. destruct (N.eq_dec cid0 cid) as [->|Hne].
  - rewrite get_cent_set_cent_same. intros E; inversion E; subst. cbn [ce_pre]. intros Hp.
    apply (G cid x); [rewrite get_cent_set_maps; exact Ex|exact Hp].
  - rewrite get_cent_set_cent_other by exact Hne. apply G.
Qed.

Lemma pu_update_nomaps c u c' : pu c -> u_maps u = [] -> apply_update_message c u = Ok c' -> pu c'.
Proof.
  intros Hp Hm H. unfold apply_update_message in H. rewrite Hm in H. cbn [fold_left] in H.
  apply bind_ok in H. destruct H as [r3 [E3 H]].
  assert (H2 : pu (fold_left apply_despawn (u_despawns u) (set_upd_tick c (u_tick u)))).
  { apply Client_proofs.fold_left_inv; [intros; apply pu_despawn; assumption|]. revert Hp. apply pu_ext; reflexivity. }
  pose proof (run_array_inv pu _ _ (fun c0 a r P E => pu_removals c0 _ _ _ r P E) _ _ H2 E3) as H3.
  destruct r3 as [c3|c3]; cbn [sr_client] in H3; [|inversion H; subst; exact H3].
  apply bind_ok in H. destruct H as [r4 [E4 H]].
  pose proof (run_array_inv pu _ _ (fun c0 a r P E => pu_changes c0 _ _ _ r P E) _ _ H3 E4) as H4.
  destruct r4 as [c4|c4]; cbn [sr_client] in H4; inversion H; subst; exact H4.
Qed.

Lemma pu_mutate_messages c c' out : pu c -> apply_mutate_messages c = Ok (c', out) -> pu c'.
Proof.
  intros Hp H. refine (mutate_messages_rel (fun a b => pu a -> pu b) _ _ _ _ _ _ _ H Hp); [auto|auto| |].
  - intros c0 tick s comps r E P. exact (pu_mutations _ _ _ _ _ P E).
  - intros c0 b m. apply pu_ext; reflexivity.
Qed.

Lemma pu_cop c op : cs_inv c -> pu c -> pu (apply_cop c op).
Proof.
  intros Hinv [H1 H2]. destruct op as [pc|pc]; cbn [apply_cop].
  - destruct (existsb _ (cl_ents c)); [split; assumption|]. split; [|apply ents_fresh_spawn; exact H2].
    intros cid x Hx Hp. unfold get_cent in Hx. cbn in Hx. apply al_get_snoc in Hx. cbn [spawn_cent fst cl_c2s].
    destruct Hx as [Hx|(_ & -> & _)]; [exact (H1 cid x Hx Hp)|]. apply emap_wf_unmapped_fresh; [exact (ci_emap c Hinv)|lia].
  - change (fun kv : N * cent => match ce_pre (snd kv) with Some p => p =? pc | None => false end) with (has_pre pc).
    destruct (find (has_pre pc) (cl_ents c)) as [[cid x]|] eqn:Ef; [|split; assumption]. destruct (ce_alive x); [|split; assumption].
    destruct (find_has_pre c pc cid x (ci_ewf c Hinv) Ef) as [Hx _].
    eapply pu_set_cent; [split; eassumption|exact Hx|reflexivity].
Qed.

Lemma pu_cops ops : forall c, cs_inv c -> cops_safe c ops = true -> pu c -> pu (fold_left apply_cop ops c).
Proof.
  induction ops as [|op t IH]; intros c Hinv Hs Hp; cbn [fold_left]; [exact Hp|].
  cbn [cops_safe] in Hs. apply andb_prop in Hs. destruct Hs as [Hs1 Hs2].
  apply IH; [exact (proj1 (cop_step c op Hinv Hs1))|exact Hs2|exact (pu_cop c op Hinv Hp)].
Qed.

(* with unmapped pre-spawned entities every operation is safe *)
Lemma pre_unmapped_cop_safe c op : cs_inv c -> pre_unmapped c -> cop_safe c op = true.
Proof.
  intros Hinv Hp. destruct op as [pc|pc]; cbn [cop_safe]; [reflexivity|].
  destruct (find (has_pre pc) (cl_ents c)) as [[cid x]|] eqn:Ef; [|reflexivity].
  destruct (find_has_pre c pc cid x (ci_ewf c Hinv) Ef) as [Hx Hpre].
  rewrite (Hp cid x Hx); [reflexivity|congruence].
Qed.

Lemma pre_unmapped_cops_safe ops : forall c, cs_inv c -> pu c -> cops_safe c ops = true.
Proof.
  induction ops as [|op t IH]; intros c Hinv Hp; cbn [cops_safe]; [reflexivity|].
  pose proof (pre_unmapped_cop_safe c op Hinv (proj1 Hp)) as Hs. rewrite Hs. cbn [andb].
  apply IH; [exact (proj1 (cop_step c op Hinv Hs))|exact (pu_cop c op Hinv Hp)].
Qed.

Lemma pu_init track : pu (client_init track).
Proof. split; [intros cid x H; discriminate|apply ents_fresh_init]. Qed.

(* ================================================================== *)
(* 11. THEOREM (client frame)                                         *)
(* ================================================================== *)

Lemma inbox_fold_props us : forall c S c1, cs_inv c -> srel c S -> forallb no_maps us = true ->
  fold_left (res_step apply_update_message) us (Ok c) = Ok c1 ->
  cs_inv c1 /\ srel c1 (fold_left abs_apply us S) /\ (pu c -> pu c1) /\ same_buf c c1.
Proof.
  induction us as [|u t IH]; intros c S c1 Hinv Hrel Hn H.
  - cbn in H. inversion H; subst. cbn [fold_left]. split; [exact Hinv|]. split; [exact Hrel|]. split; [auto|split; reflexivity].
  - cbn [forallb] in Hn. apply andb_prop in Hn. destruct Hn as [Hn1 Hn2].
    apply fold_res_cons_ok in H. destruct H as [c2 [E H]].
    assert (Hm : u_maps u = []) by (unfold no_maps in Hn1; destruct (u_maps u); [reflexivity|discriminate]).
    destruct (update_message_srel c S u c2 Hinv Hrel Hm E) as (R2 & I2 & _ & _).
    destruct (IH c2 _ c1 I2 R2 Hn2 H) as (I1 & R1 & P1 & B1). cbn [fold_left].
    split; [exact I1|]. split; [exact R1|]. split.
    + intros Hp. apply P1. exact (pu_update_nomaps c u c2 Hp Hm E).
    + destruct (same_buf_update c u c2 E) as [A1 A2]. destruct B1 as [B1 B2]. split; congruence.
Qed.

Theorem replication_srel c S c2 out :
  cs_inv c -> srel c S -> forallb no_maps (cl_inbox_upd c) = true ->
  (forall c1, fold_left (res_step apply_update_message) (cl_inbox_upd c) (Ok c) = Ok c1 -> mut_ok (merge_mut_inbox c1)) ->
  apply_replication c = Ok (c2, out) ->
  cs_inv c2 /\ srel c2 (fold_left abs_apply (cl_inbox_upd c) S) /\ (pu c -> pu c2).
Proof.
  intros Hinv Hrel Hn Hmut H. unfold apply_replication in H. apply bind_ok in H. destruct H as [c1 [E1 H]].
  change (fold_left (res_step apply_update_message) (cl_inbox_upd c) (Ok c) = Ok c1) in E1.
  destruct (inbox_fold_props _ c S c1 Hinv Hrel Hn E1) as (I1 & R1 & P1 & _).
  fold (merge_mut_inbox c1) in H.
  assert (Im : cs_inv (merge_mut_inbox c1)) by (revert I1; apply cs_inv_ext; reflexivity).
  assert (Rm : srel (merge_mut_inbox c1) (fold_left abs_apply (cl_inbox_upd c) S)) by (revert R1; apply srel_ext; reflexivity).
  assert (Pm : pu c -> pu (merge_mut_inbox c1)) by (intros Hp; generalize (P1 Hp); apply pu_ext; reflexivity).
  destruct (Hmut c1 E1) as [Hs|He].
  - destruct (mutate_messages_srel _ _ c2 out Im Rm Hs H) as (A & B & _). split; [exact A|]. split; [exact B|].
    intros Hp. exact (pu_mutate_messages _ _ _ (Pm Hp) H).
  - rewrite (mutate_messages_empty _ He) in H. inversion H; subst c2. split; [revert Im; apply cs_inv_ext; reflexivity|].
    split; [revert Rm; apply srel_ext; reflexivity|]. intros Hp. generalize (Pm Hp). apply pu_ext; reflexivity.
Qed.

Lemma cops_srel ops c S : cs_inv c -> cops_safe c ops = true -> srel c S -> srel (fold_left apply_cop ops c) S.
Proof. intros Hinv Hs Hrel e. rewrite (proj2 (cops_step ops c Hinv Hs) e). apply Hrel. Qed.

Theorem frame_srel c S ops c' out :
  cs_inv c -> srel c S -> cl_status c = Connected ->
  forallb no_maps (cl_inbox_upd c) = true ->
  (forall c1, fold_left (res_step apply_update_message) (cl_inbox_upd c) (Ok c) = Ok c1 -> mut_ok (merge_mut_inbox c1)) ->
  (forall c2 out2, apply_replication c = Ok (c2, out2) -> cops_safe c2 ops = true) ->
  client_frame c ops = Ok (c', out) ->
  srel c' (fold_left abs_apply (cl_inbox_upd c) S) /\ cs_inv c' /\ cl_inbox_upd c' = [] /\ cl_status c' = Connected /\
  cl_upd_tick c' = last (map u_tick (cl_inbox_upd c)) (cl_upd_tick c) /\ (pu c -> pu c').
Proof.
  intros Hinv Hrel Hc Hn Hmut Hops H. destruct (frame_clears_inbox c ops c' out Hc H) as [Hi Hst].
  unfold client_frame in H. rewrite Hc, andb_false_r in H.
  apply bind_ok in H. destruct H as [[c2 out2] [E H]]. inversion H; subst c' out. clear H.
  destruct (replication_srel c S c2 out2 Hinv Hrel Hn Hmut E) as (I2 & R2 & P2).
  pose proof (Hops c2 out2 E) as Hs. destruct (cops_step ops c2 I2 Hs) as [I3 G3].
  split; [|split; [|split; [exact Hi|split; [exact Hst|split]]]].
  - apply (srel_ext (fold_left apply_cop ops c2)); [reflexivity|reflexivity|]. exact (cops_srel ops c2 _ I2 Hs R2).
  - revert I3. apply cs_inv_ext; reflexivity.
  - cbn [set_locals cl_upd_tick]. rewrite cops_keep_tick. exact (replication_tick_is_last c c2 out2 E).
  - intros Hp. generalize (pu_cops ops c2 I2 Hs (P2 Hp)). apply pu_ext; reflexivity.
Qed.

(* the statement about `client_struct` *)
Theorem frame_struct c ops c' out :
  cs_inv c -> cl_status c = Connected ->
  forallb no_maps (cl_inbox_upd c) = true ->
  (forall c1, fold_left (res_step apply_update_message) (cl_inbox_upd c) (Ok c) = Ok c1 -> mut_ok (merge_mut_inbox c1)) ->
  (forall c2 out2, apply_replication c = Ok (c2, out2) -> cops_safe c2 ops = true) ->
  client_frame c ops = Ok (c', out) ->
  struct_equiv (client_struct c') (fold_left abs_apply (cl_inbox_upd c) (client_struct c)) /\ cs_inv c' /\ cl_inbox_upd c' = [].
Proof.
  intros Hinv Hc Hn Hmut Hops H.
  destruct (frame_srel c (client_struct c) ops c' out Hinv (srel_self c (cs_inv_nodup c Hinv)) Hc Hn Hmut Hops H)
    as (R & I & E & _).
  split; [|auto]. apply srel_struct_equiv; [exact (cs_inv_nodup c' I)|exact R].
Qed.

(* the special case asked for as a fallback: nothing in the mutate inbox, nothing buffered *)
Corollary frame_struct_no_mutations c ops c' out :
  cs_inv c -> cl_status c = Connected ->
  forallb no_maps (cl_inbox_upd c) = true ->
  cl_inbox_mut c = [] -> cl_buffered c = [] ->
  (forall c2 out2, apply_replication c = Ok (c2, out2) -> cops_safe c2 ops = true) ->
  client_frame c ops = Ok (c', out) ->
  struct_equiv (client_struct c') (fold_left abs_apply (cl_inbox_upd c) (client_struct c)) /\ cs_inv c' /\ cl_inbox_upd c' = [].
Proof.
  intros Hinv Hc Hn Hm Hb Hops H. apply (frame_struct c ops c' out Hinv Hc Hn); [|exact Hops|exact H].
  intros c1 E1. right.
  destruct (inbox_fold_props _ c (client_struct c) c1 Hinv (srel_self c (cs_inv_nodup c Hinv)) Hn E1) as (_ & _ & _ & [B1 B2]).
  unfold merge_mut_inbox. cbn. rewrite B1, B2, Hm, Hb. reflexivity.
Qed.

(* a client that is not connected does not replicate *)
Lemma frame_disconnected c ops c' out :
  cs_inv c -> pu c -> srel c [] -> cl_status c = Disconnected -> client_frame c ops = Ok (c', out) ->
  cs_inv c' /\ pu c' /\ srel c' [] /\ cl_status c' = Disconnected /\ cl_inbox_upd c' = cl_inbox_upd c /\
  cl_inbox_mut c' = cl_inbox_mut c /\ cl_buffered c' = (if cl_last_not_disconnected c then [] else cl_buffered c) /\
  out = mkCFO [] [].
Proof.
  intros Hinv Hp Hrel Hc H. unfold client_frame in H. rewrite Hc in H. cbn [negb bind] in H. rewrite andb_true_r in H.
  inversion H; subst c' out. clear H.
  set (c1 := if cl_last_not_disconnected c then client_reset c else c).
  assert (H1 : cs_inv c1 /\ pu c1 /\ srel c1 [] /\ cl_status c1 = Disconnected /\ cl_inbox_upd c1 = cl_inbox_upd c /\
               cl_inbox_mut c1 = cl_inbox_mut c /\ cl_buffered c1 = (if cl_last_not_disconnected c then [] else cl_buffered c)).
  { unfold c1. destruct (cl_last_not_disconnected c); [|auto 8].
    split; [apply cs_inv_reset; exact Hinv|]. split; [|split; [|auto]].
    - split; [intros cid x _ _; reflexivity|]. generalize (proj2 Hp). apply ents_fresh_ext; reflexivity.
    - intros e. cbn. exact I. }
  destruct H1 as (I1 & P1 & R1 & S1 & B1 & B2 & B3).
  pose proof (pre_unmapped_cops_safe ops c1 I1 P1) as Hs. destruct (cops_step ops c1 I1 Hs) as [I3 G3].
  assert (Hk : forall ops0 c0, cl_status (fold_left apply_cop ops0 c0) = cl_status c0 /\
                               cl_inbox_mut (fold_left apply_cop ops0 c0) = cl_inbox_mut c0 /\
                               cl_buffered (fold_left apply_cop ops0 c0) = cl_buffered c0 /\
                               cl_inbox_upd (fold_left apply_cop ops0 c0) = cl_inbox_upd c0).
  { induction ops0 as [|op t IH]; intros c0; cbn [fold_left]; [auto|]. destruct (IH (apply_cop c0 op)) as (A & B & C & D).
    rewrite A, B, C, D. destruct op as [pc|pc]; cbn [apply_cop].
    - destruct (existsb _ (cl_ents c0)); auto.
    - destruct (find _ (cl_ents c0)) as [[cid x]|]; [|auto]. destruct (ce_alive x); auto. }
  destruct (Hk ops c1) as (K1 & K2 & K3 & K4).
  split; [revert I3; apply cs_inv_ext; reflexivity|]. split; [generalize (pu_cops ops c1 I1 Hs P1); apply pu_ext; reflexivity|].
  split; [apply (srel_ext (fold_left apply_cop ops c1)); [reflexivity|reflexivity|exact (cops_srel ops c1 _ I1 Hs R1)]|].
  cbn [set_locals cl_status cl_inbox_upd cl_inbox_mut cl_buffered]. rewrite K1, K2, K3, K4.
  auto 6.
Qed.

(* with nothing in the mutate inbox and nothing buffered a frame leaves both empty *)
Lemma cops_fields ops : forall c0,
  cl_status (fold_left apply_cop ops c0) = cl_status c0 /\ cl_inbox_mut (fold_left apply_cop ops c0) = cl_inbox_mut c0 /\
  cl_buffered (fold_left apply_cop ops c0) = cl_buffered c0 /\ cl_inbox_upd (fold_left apply_cop ops c0) = cl_inbox_upd c0.
Proof.
  induction ops as [|op t IH]; intros c0; cbn [fold_left]; [auto|]. destruct (IH (apply_cop c0 op)) as (A & B & C & D).
  rewrite A, B, C, D. destruct op as [pc|pc]; cbn [apply_cop].
  - destruct (existsb _ (cl_ents c0)); auto.
  - destruct (find _ (cl_ents c0)) as [[cid x]|]; [|auto]. destruct (ce_alive x); auto.
Qed.

Lemma frame_nomut c ops c' out :
  cl_inbox_mut c = [] -> cl_buffered c = [] -> cl_status c = Connected -> client_frame c ops = Ok (c', out) ->
  cl_inbox_mut c' = [] /\ cl_buffered c' = [].
Proof.
  intros Hm Hb Hc H. unfold client_frame in H. rewrite Hc, andb_false_r in H.
  apply bind_ok in H. destruct H as [[c2 out2] [E H]]. inversion H; subst c' out. clear H.
  cbn [set_locals cl_inbox_mut cl_buffered]. destruct (cops_fields ops c2) as (_ & -> & -> & _).
  unfold apply_replication in E. apply bind_ok in E. destruct E as [c1 [E1 E]].
  assert (Hsb : same_buf c c1).
  { refine (fold_res_rel same_buf _ _ _ _ _ _ _ E1).
    - intros a; split; reflexivity.
    - intros a b d [A1 A2] [B1 B2]. split; congruence.
    - intros c0 u c3 _. apply same_buf_update. }
  destruct Hsb as [B1 B2]. rewrite mutate_messages_empty in E by (cbn; rewrite B1, B2, Hm, Hb; reflexivity).
  inversion E; subst c2. cbn. auto.
Qed.

(* ---------- lists ---------- *)

Lemma last_snoc {A} (l : list A) a d : last (l ++ [a]) d = a.
Proof. induction l as [|b t IH]; [reflexivity|]. cbn [app]. destruct (t ++ [a]) eqn:E; [destruct t; discriminate|]. exact IH. Qed.

Lemma last_app_ne {A} (l1 l2 : list A) d : l2 <> [] -> last (l1 ++ l2) d = last l2 d.
Proof.
  intros Hne. induction l1 as [|b t IH]; [reflexivity|]. cbn [app]. destruct (t ++ l2) eqn:E.
  - destruct t; [cbn in E; congruence|discriminate].
  - exact IH.
Qed.

Lemma last_map {A B} (f : A -> B) l d : l <> [] -> forall d', last (map f l) d' = f (last l d).
Proof.
  intros Hne d'. induction l as [|a t IH]; [congruence|]. destruct t as [|b t']; [reflexivity|].
  cbn [map last] in *. apply IH. discriminate.
Qed.

Lemma app_snoc_split {A} (p q l : list A) u : p ++ q = l ++ [u] ->
  (q = [] /\ p = l ++ [u]) \/ exists q', q = q' ++ [u] /\ l = p ++ q'.
Proof.
  intros H. induction q as [|x q' _] using rev_ind.
  - left. rewrite app_nil_r in H. auto.
  - right. rewrite app_assoc in H. apply app_inj_tail in H. destruct H as [H1 ->]. exists q'. auto.
Qed.

