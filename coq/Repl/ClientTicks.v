(* src/shared/replication/client_ticks.rs -- `ClientTicks`, the per client acknowledgement
   bookkeeping, and bevy_ecs 0.16.1 `Tick::is_newer_than` (src/component.rs).

   Entities are their 64 bit patterns (N); Bevy change ticks are u32 values (N below 2^32);
   `Duration` timestamps are total nanoseconds (N; the derived `PartialOrd` of `Duration`
   is lexicographic on (secs, nanos) with nanos < 10^9, i.e. the order of the total).
   The two hash maps are association lists: first match wins, insertion keeps keys unique
   (replace in place, else append), removal deletes every binding of the key.
   The `EntityBuffer` (a pool of recycled `Vec`s, capacity reuse only) is not modelled. *)
From RV Require Import Lib.Res.
Open Scope N_scope.

(* ---------- association lists keyed by N ---------- *)

Fixpoint al_get {V : Type} (k : N) (l : list (N * V)) : option V :=
  match l with
  | [] => None
  | (k', v) :: t => if k' =? k then Some v else al_get k t
  end.

(* `HashMap::insert` / `entry(k).insert(v)`: an existing binding is REPLACED *)
Fixpoint al_insert {V : Type} (k : N) (v : V) (l : list (N * V)) : list (N * V) :=
  match l with
  | [] => [(k, v)]
  | (k', v') :: t => if k' =? k then (k, v) :: t else (k', v') :: al_insert k v t
  end.

(* `HashMap::remove` *)
Fixpoint al_remove {V : Type} (k : N) (l : list (N * V)) : list (N * V) :=
  match l with
  | [] => []
  | (k', v') :: t => if k' =? k then al_remove k t else (k', v') :: al_remove k t
  end.

(* `if let Some(v) = map.get_mut(k)` then v is replaced by f v : keys never change *)
Fixpoint al_adjust {V : Type} (f : V -> V) (k : N) (l : list (N * V)) : list (N * V) :=
  match l with
  | [] => []
  | (k', v') :: t => if k' =? k then (k', f v') :: t else (k', v') :: al_adjust f k t
  end.

Definition al_keys {V : Type} (l : list (N * V)) : list N := map fst l.

(* ---------- bevy_ecs::component::Tick ---------- *)

(* bevy_ecs-0.16.1/src/change_detection.rs *)
Definition CHECK_TICK_THRESHOLD : N := 518400000.
Definition MAX_CHANGE_AGE : N := (2 ^ 32 - 1) - (2 * CHECK_TICK_THRESHOLD - 1).

(* `Tick::relative_to`: self.tick.wrapping_sub(other.tick) *)
Definition relative_to (self other : N) : N := (self + 2 ^ 32 - other) mod 2 ^ 32.

(* this_run.relative_to(t).tick.min(MAX_CHANGE_AGE) *)
Definition tick_age (this_run t : N) : N := N.min (relative_to this_run t) MAX_CHANGE_AGE.

(* `Tick::is_newer_than(self, last_run, this_run)`: ticks_since_system > ticks_since_insert *)
Definition tick_is_newer_than (self last_run this_run : N) : bool :=
  let ticks_since_insert := tick_age this_run self in
  let ticks_since_system := tick_age this_run last_run in
  ticks_since_insert <? ticks_since_system.

(* ---------- ClientTicks ---------- *)

Record mutate_info := mkMI { mi_tick : N; mi_timestamp : N; mi_entities : list N }.

Record client_ticks := mkCT {
  ct_mutation_ticks : list (N * N);           (* entity -> change tick *)
  ct_update_tick : N;                         (* RepliconTick *)
  ct_mutations : list (N * mutate_info);      (* mutate index -> info *)
  ct_mutate_index : N                         (* u16, next index to hand out *)
}.

(* #[derive(Default)] *)
Definition ct_default : client_ticks := mkCT [] 0 [] 0.

Definition set_update_tick (ct : client_ticks) (tick : N) : client_ticks :=
  mkCT (ct_mutation_ticks ct) tick (ct_mutations ct) (ct_mutate_index ct).

(* `MutateIndex::advance` (wrapping_add) + `mutations.entry(idx).insert(info)`.
   After 65536 registrations without acknowledgement/cleanup the index wraps and the
   old entry with the same index is silently replaced.  Returns the index handed out;
   the entity list starts empty (`entities.clear()`), the caller fills it, see [add_entities]. *)
Definition register_mutate_message (ct : client_ticks) (tick timestamp : N) : client_ticks * N :=
  let mutate_index := ct_mutate_index ct in
  (mkCT (ct_mutation_ticks ct) (ct_update_tick ct)
        (al_insert mutate_index (mkMI tick timestamp []) (ct_mutations ct))
        ((mutate_index + 1) mod 2 ^ 16),
   mutate_index).

(* the `entities.extend(..)` / `push` done by the caller through the returned `&mut Vec<Entity>` *)
Definition add_entities (ct : client_ticks) (idx : N) (ents : list N) : client_ticks :=
  mkCT (ct_mutation_ticks ct) (ct_update_tick ct)
       (al_adjust (fun mi => mkMI (mi_tick mi) (mi_timestamp mi) (mi_entities mi ++ ents)) idx (ct_mutations ct))
       (ct_mutate_index ct).

Definition set_mutation_tick (ct : client_ticks) (entity tick : N) : client_ticks :=
  mkCT (al_insert entity tick (ct_mutation_ticks ct)) (ct_update_tick ct) (ct_mutations ct) (ct_mutate_index ct).

Definition mutation_tick (ct : client_ticks) (entity : N) : option N := al_get entity (ct_mutation_ticks ct).

(* body of the `for entity in &mutate_info.entities` loop *)
Definition ack_stamp (info_tick this_run last_tick : N) : N :=
  if negb (tick_is_newer_than last_tick info_tick this_run) then info_tick else last_tick.

Definition ack_entity (info_tick this_run : N) (ticks : list (N * N)) (entity : N) : list (N * N) :=
  al_adjust (ack_stamp info_tick this_run) entity ticks.

(* `tick` of the Rust signature is the receiving system's `this_run` *)
Definition ack_mutate_message (ct : client_ticks) (this_run mutate_index : N) : client_ticks :=
  match al_get mutate_index (ct_mutations ct) with
  | None => ct                                               (* "received unknown ..." *)
  | Some mutate_info =>
    mkCT (fold_left (ack_entity (mi_tick mutate_info) this_run) (mi_entities mutate_info) (ct_mutation_ticks ct))
         (ct_update_tick ct)
         (al_remove mutate_index (ct_mutations ct))
         (ct_mutate_index ct)
  end.

Definition remove_entity (ct : client_ticks) (entity : N) : client_ticks :=
  mkCT (al_remove entity (ct_mutation_ticks ct)) (ct_update_tick ct) (ct_mutations ct) (ct_mutate_index ct).

(* `retain`: entries with timestamp < min_timestamp are dropped *)
Definition cleanup_older_mutations (ct : client_ticks) (min_timestamp : N) : client_ticks :=
  mkCT (ct_mutation_ticks ct) (ct_update_tick ct)
       (filter (fun kv => negb (mi_timestamp (snd kv) <? min_timestamp)) (ct_mutations ct))
       (ct_mutate_index ct).

(* representation invariant (hash maps have unique keys, the index is a u16) *)
Definition ct_wf (ct : client_ticks) : Prop :=
  NoDup (al_keys (ct_mutation_ticks ct)) /\ NoDup (al_keys (ct_mutations ct)) /\ ct_mutate_index ct < 2 ^ 16.
