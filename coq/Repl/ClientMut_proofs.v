(* Layer 1 client: mutate messages (C02) - all-or-nothing per entity, confirmed ticks never
   move backwards along a frame, the mutation buffer. *)
From RV Require Import Lib.Res Repl.ClientTicks Repl.ClientTicks_proofs Repl.World Repl.Client Repl.Client_proofs
  Repl.ClientEnt_proofs Tick.RepliconTick Tick.RepliconTick_proofs Tick.ConfirmHistory Tick.MutateTicks.
From Coq Require Import ZifyBool ZifyN Sorting.Sorted.
Open Scope N_scope.
Ltac Zify.zify_post_hook ::= Z.div_mod_to_equations.
Arguments N.add : simpl never. Arguments N.mul : simpl never. Arguments N.pow : simpl never.
Arguments N.ltb : simpl never. Arguments N.leb : simpl never. Arguments N.div : simpl never.
Arguments N.modulo : simpl never. Arguments N.sub : simpl never. Arguments N.eqb : simpl never.

(* ================================================================== *)
(* J. writing components                                              *)
(* ================================================================== *)

Lemma kinsert_get_same {V} k (v : V) l : al_get k (kinsert k v l) = Some v.
Proof.
  induction l as [|[k' v'] t IH]; cbn [kinsert al_get]; [rewrite N.eqb_refl; reflexivity|].
  destruct (k =? k') eqn:E; [cbn [al_get]; rewrite N.eqb_refl; reflexivity|].
  destruct (k <? k') eqn:E2; cbn [al_get]; [rewrite N.eqb_refl; reflexivity|].
  destruct (k' =? k) eqn:E3; [lia|exact IH].
Qed.

Lemma kinsert_get_other {V} k k0 (v : V) l : k0 <> k -> al_get k0 (kinsert k v l) = al_get k0 l.
Proof.
  intros Hne. induction l as [|[k' v'] t IH]; cbn [kinsert al_get].
  - destruct (k =? k0) eqn:E; [lia|reflexivity].
  - destruct (k =? k') eqn:E.
    + assert (k = k') by lia; subst k'. cbn [al_get]. destruct (k =? k0) eqn:E2; [lia|reflexivity].
    + destruct (k <? k') eqn:E2; cbn [al_get].
      * destruct (k =? k0) eqn:E3; [lia|reflexivity].
      * destruct (k' =? k0); [reflexivity|exact IH].
Qed.

(* a written value: numbers as they are, references through the entity map *)
Definition val_matches (c : client) (v : val) (cv : cval) : Prop :=
  match v, cv with
  | VNat n, CNat m => n = m
  | VRef t, CRef ct => al_get t (cl_s2c c) = Some ct
  | _, _ => False
  end.

Lemma map_value_matches c v : val_matches (fst (map_value c v)) v (snd (map_value c v)).
Proof.
  unfold map_value. destruct v as [n|t]; cbn; [reflexivity|].
  destruct (al_get t (cl_s2c c)) as [cid|] eqn:E; cbn; [exact E|apply al_get_insert_same].
Qed.

Lemma val_matches_grow T c c' v cv : phase_rel T c c' -> val_matches c v cv -> val_matches c' v cv.
Proof. intros (P1 & _). destruct v, cv; cbn; auto. Qed.

Lemma map_value_get_cent c v cid x : get_cent c cid = Some x -> get_cent (fst (map_value c v)) cid = Some x.
Proof.
  intros H. unfold map_value. destruct v as [n|t]; [exact H|]. destruct (al_get t (cl_s2c c)); [exact H|].
  unfold get_cent in *; cbn. apply al_get_app_some. exact H.
Qed.

Definition same_but_comps (x x' : cent) : Prop :=
  ce_alive x' = ce_alive x /\ ce_pre x' = ce_pre x /\ ce_marker x' = ce_marker x /\ ce_hist x' = ce_hist x.

(* every listed component is written, nothing else of the entity changes *)
Lemma write_comps_all comps : forall c cid x, get_cent c cid = Some x -> NoDup (map fst comps) ->
  exists x', get_cent (write_comps c cid comps) cid = Some x' /\ same_but_comps x x' /\
    (forall k v, In (k, v) comps -> exists cv, al_get k (ce_comps x') = Some cv /\ val_matches (write_comps c cid comps) v cv) /\
    (forall k, ~ In k (map fst comps) -> al_get k (ce_comps x') = al_get k (ce_comps x)).
Proof.
  induction comps as [|[k v] t IH]; intros c cid x Hx Hnd.
  - exists x. split; [exact Hx|]. split; [repeat split|]. split; [intros k v []|reflexivity].
  - rewrite write_comps_cons. cbn [map fst] in Hnd. inversion Hnd as [|? ? Hnin Hnd']; subst.
    pose proof (map_value_get_cent c v cid x Hx) as H1. pose proof (map_value_matches c v) as Hm.
    set (c2 := write_one cid c (k, v)).
    assert (E2 : c2 = set_cent (fst (map_value c v)) cid
                   (mkCEnt (ce_alive x) (ce_pre x) (ce_marker x) (ce_hist x) (kinsert k (snd (map_value c v)) (ce_comps x)))).
    { unfold c2. rewrite write_one_eq. cbn [fst snd]. rewrite H1. reflexivity. }
    assert (Hx2 : get_cent c2 cid = Some (mkCEnt (ce_alive x) (ce_pre x) (ce_marker x) (ce_hist x) (kinsert k (snd (map_value c v)) (ce_comps x)))).
    { rewrite E2. apply get_cent_set_cent_same. }
    destruct (IH c2 cid _ Hx2 Hnd') as [x' [Hx' [Hs [Hall Hoth]]]]. exists x'. split; [exact Hx'|].
    split; [exact Hs|]. split.
    + intros k0 v0 [Heq|Hin]; [|exact (Hall _ _ Hin)]. inversion Heq; subst k0 v0.
      exists (snd (map_value c v)). split.
      * rewrite (Hoth k Hnin). cbn. apply kinsert_get_same.
      * apply (val_matches_grow 0 c2); [apply phase_rel_write_comps|].
        rewrite E2. exact Hm.
    + intros k0 Hk0. cbn [map fst In] in Hk0. rewrite Hoth by tauto. cbn. apply kinsert_get_other. intros ->. apply Hk0. left; reflexivity.
Qed.

(* ================================================================== *)
(* K. one entity of a mutate message: all or nothing                  *)
(* ================================================================== *)

Lemma hist_set_last_tick_ok h tick h' : hist_set_last_tick h tick = Ok h' ->
  h_last h' = tick /\ tick_geb tick (h_last h) = true.
Proof.
  unfold hist_set_last_tick. destruct (tick_geb tick (h_last h)) eqn:E; cbn [negb]; [|discriminate].
  intros H; inversion H; subst; cbn. auto.
Qed.

(* the entity is unknown, not alive, without history, or the message is not newer than what the
   entity already confirmed: nothing at all changes *)
Definition mutation_skipped (c : client) (tick e : N) : Prop :=
  match al_get e (cl_s2c c) with
  | None => True
  | Some cid =>
    match get_cent c cid with
    | None => True
    | Some x => ce_alive x = false \/ ce_hist x = None \/
                exists h, ce_hist x = Some h /\ tick_gtb tick (h_last h) = false
    end
  end.

Theorem mutation_all_or_nothing c tick e comps r :
  apply_mutations c tick e comps = Ok r -> NoDup (map fst comps) ->
  (mutation_skipped c tick e /\ sr_client r = c) \/
  (exists cid x h x',
     al_get e (cl_s2c c) = Some cid /\ get_cent c cid = Some x /\ ce_alive x = true /\ ce_hist x = Some h /\
     tick_gtb tick (h_last h) = true /\ tick_geb tick (h_last h) = true /\
     r = Continue (sr_client r) /\ get_cent (sr_client r) cid = Some x' /\
     ce_alive x' = true /\ ce_pre x' = ce_pre x /\ ce_marker x' = ce_marker x /\
     (exists h', ce_hist x' = Some h' /\ h_last h' = tick) /\
     (forall k v, In (k, v) comps -> exists cv, al_get k (ce_comps x') = Some cv /\ val_matches (sr_client r) v cv) /\
     (forall k, ~ In k (map fst comps) -> al_get k (ce_comps x') = al_get k (ce_comps x))).
Proof.
  unfold apply_mutations, mutation_skipped. destruct (al_get e (cl_s2c c)) as [cid|] eqn:Ee.
  2:{ intros H _; inversion H; subst. left. auto. }
  destruct (get_cent c cid) as [x|] eqn:Ex.
  2:{ intros H _; inversion H; subst. left. auto. }
  destruct (ce_alive x) eqn:Ea; cbn [negb].
  2:{ intros H _; inversion H; subst. left. auto. }
  destruct (ce_hist x) as [h|] eqn:Eh.
  2:{ intros H _; inversion H; subst. left. auto. }
  destruct (tick_gtb tick (h_last h)) eqn:Eg.
  2:{ intros H _; inversion H; subst. left. split; [|reflexivity]. right. right. exists h. auto. }
  intros H Hnd. apply bind_ok in H. destruct H as [h' [E H]]. inversion H; subst. clear H. cbn [sr_client].
  apply hist_set_last_tick_ok in E. destruct E as [El Ege]. right.
  set (x1 := mkCEnt true (ce_pre x) (ce_marker x) (Some h') (ce_comps x)).
  destruct (write_comps_all comps (set_cent c cid x1) cid x1 (get_cent_set_cent_same _ _ _) Hnd)
    as [x' [Hx' [(S1 & S2 & S3 & S4) [Hall Hoth]]]].
  exists cid, x, h, x'. do 7 (split; [first [reflexivity|assumption]|]).
  split; [exact Hx'|]. split; [exact S1|]. split; [exact S2|]. split; [exact S3|].
  split; [exists h'; split; [exact S4|exact El]|]. split; [exact Hall|exact Hoth].
Qed.

Lemma outdated_message_ignored c tick e comps cid x h :
  al_get e (cl_s2c c) = Some cid -> get_cent c cid = Some x -> ce_alive x = true -> ce_hist x = Some h ->
  tick_gtb tick (h_last h) = false -> apply_mutations c tick e comps = Ok (Continue c).
Proof. intros E1 E2 E3 E4 E5. unfold apply_mutations. rewrite E1, E2, E3, E4, E5. reflexivity. Qed.

Lemma unknown_entity_skipped c tick e comps :
  al_get e (cl_s2c c) = None -> apply_mutations c tick e comps = Ok (Continue c).
Proof. intros E1. unfold apply_mutations. rewrite E1. reflexivity. Qed.

(* ================================================================== *)
(* L. confirmed ticks along a whole client frame                      *)
(* ================================================================== *)

Definition any_lbl (l : lbl) : Prop := True.

(* with unique keys (the model never duplicates them) *)
Definition ents_nodup (c : client) : Prop := NoDup (al_keys (cl_ents c)).

Lemma ents_nodup_set_cent c cid x : ents_nodup c -> ents_nodup (set_cent c cid x).
Proof. unfold ents_nodup; cbn. apply al_insert_nodup. Qed.

Lemma NoDup_snoc {A} (l : list A) a : NoDup l -> ~ In a l -> NoDup (l ++ [a]).
Proof.
  induction l as [|b t IH]; intros Hnd Hn; cbn [app].
  - constructor; [intros []|constructor].
  - inversion Hnd as [|? ? Hnin Hnd']; subst. constructor.
    + rewrite in_app_iff. cbn [In]. intros [H|[H|[]]]; [exact (Hnin H)|]. apply Hn. left. symmetry. exact H.
    + apply IH; [exact Hnd'|]. intros H. apply Hn. right. exact H.
Qed.

Lemma ents_nodup_spawn c p m : ents_fresh c -> ents_nodup c -> ents_nodup (fst (spawn_cent c p m)).
Proof.
  unfold ents_nodup, al_keys; cbn. intros Hf Hnd. rewrite map_app. cbn [map fst].
  apply NoDup_snoc; [exact Hnd|]. apply al_get_none_keys. apply Hf. lia.
Qed.

Definition ewf (c : client) : Prop := ents_nodup c /\ ents_fresh c.

Lemma ewf_init track : ewf (client_init track).
Proof. split; [constructor|apply ents_fresh_init]. Qed.

Lemma ewf_ext c c' : cl_ents c' = cl_ents c -> cl_next c' = cl_next c -> ewf c -> ewf c'.
Proof.
  intros E1 E2 [H1 H2]. split; [unfold ents_nodup; rewrite E1; exact H1|].
  exact (ents_fresh_ext c c' E1 E2 H2).
Qed.

Lemma ewf_set_cent c cid x x' : ewf c -> get_cent c cid = Some x -> ewf (set_cent c cid x').
Proof. intros [H1 H2] Hx. split; [apply ents_nodup_set_cent; exact H1|eapply ents_fresh_set_cent; eauto]. Qed.

Lemma ewf_spawn c p m : ewf c -> ewf (fst (spawn_cent c p m)).
Proof. intros [H1 H2]. split; [apply ents_nodup_spawn; assumption|apply ents_fresh_spawn; exact H2]. Qed.

Lemma ewf_entry c s c1 cid : ewf c -> entry_entity c s = Some (c1, cid) -> ewf c1.
Proof.
  intros Hw. unfold entry_entity. destruct (al_get s (cl_s2c c)) as [cid0|].
  - destruct (alive c cid0); [|discriminate]. intros H; inversion H; subst; exact Hw.
  - intros H. cbn in H. inversion H; subst. pose proof (ewf_spawn c None true Hw) as H1.
    revert H1. apply ewf_ext; reflexivity.
Qed.

Lemma ewf_map_value c v : ewf c -> ewf (fst (map_value c v)).
Proof.
  intros Hw. unfold map_value. destruct v as [n|t]; [exact Hw|]. destruct (al_get t (cl_s2c c)); [exact Hw|].
  pose proof (ewf_spawn c None false Hw) as H1. revert H1. apply ewf_ext; reflexivity.
Qed.

Lemma ewf_write_one cid c kv : ewf c -> ewf (write_one cid c kv).
Proof.
  intros Hw. rewrite write_one_eq. pose proof (ewf_map_value c (snd kv) Hw) as H.
  destruct (get_cent _ cid) as [x|] eqn:E; [|exact H]. eapply ewf_set_cent; eauto.
Qed.

Lemma ewf_write_comps c cid comps : ewf c -> ewf (write_comps c cid comps).
Proof. rewrite write_comps_fold. apply fold_left_inv. intros; apply ewf_write_one; assumption. Qed.

Lemma ewf_removals c T s kinds r : ewf c -> apply_removals c T s kinds = Ok r -> ewf (sr_client r).
Proof.
  intros Hw. unfold apply_removals. destruct (entry_entity c s) as [[c1 cid]|] eqn:E.
  - pose proof (ewf_entry _ _ _ _ Hw E) as H1. destruct (get_cent c1 cid) as [x|] eqn:Ex.
    + intros H. apply bind_ok in H. destruct H as [x1 [_ H]]. inversion H; subst. cbn [sr_client].
      eapply ewf_set_cent; eauto.
    + intros H; inversion H; subst. exact H1.
  - intros H; inversion H; subst. exact Hw.
Qed.

Lemma ewf_changes c T s comps r : ewf c -> apply_changes c T s comps = Ok r -> ewf (sr_client r).
Proof.
  intros Hw. unfold apply_changes. destruct (entry_entity c s) as [[c1 cid]|] eqn:E.
  - pose proof (ewf_entry _ _ _ _ Hw E) as H1. destruct (get_cent c1 cid) as [x|] eqn:Ex.
    + intros H. apply bind_ok in H. destruct H as [x1 [_ H]]. inversion H; subst. cbn [sr_client].
      apply ewf_write_comps. eapply ewf_set_cent; eauto.
    + intros H; inversion H; subst. exact H1.
  - intros H; inversion H; subst. exact Hw.
Qed.

(* the relation carried along a frame: table invariants are kept and every entity only takes
   labelled steps *)
Definition frame_R (c c' : client) : Prop := ewf c -> ewf c' /\ ents_steps any_lbl c c'.

Lemma frame_R_refl c : frame_R c c.
Proof. intros Hw. split; [exact Hw|apply ents_steps_refl]. Qed.

Lemma frame_R_trans a b c : frame_R a b -> frame_R b c -> frame_R a c.
Proof.
  intros H1 H2 Hw. destruct (H1 Hw) as [Hb S1]. destruct (H2 Hb) as [Hc S2].
  split; [exact Hc|eapply ents_steps_trans; eauto].
Qed.

Lemma frame_R_same c c' : cl_ents c' = cl_ents c -> cl_next c' = cl_next c -> frame_R c c'.
Proof. intros E1 E2 Hw. split; [exact (ewf_ext _ _ E1 E2 Hw)|apply ents_steps_same; exact E1]. Qed.

Lemma any_of_phase T l : phase_T T l -> any_lbl l.
Proof. intros _; exact I. Qed.

Lemma frame_R_mapping c s pc : frame_R c (apply_entity_mapping c s pc).
Proof.
  intros Hw. destruct (mapping_cases c s pc) as [[-> _]|(cid & x & Hin & Hp & Ha & _ & ->)];
    [split; [exact Hw|apply ents_steps_refl]|].
  pose proof (al_get_in_nodup _ _ _ (proj1 Hw) Hin) as Hget. split.
  - unfold emap_insert. eapply ewf_ext; [| |eapply ewf_set_cent; [exact Hw|exact Hget]]; reflexivity.
  - unfold emap_insert. eapply ents_steps_trans; [|apply ents_steps_same; reflexivity].
    eapply ents_steps_set_cent; [exact Hget|]. eapply cent_steps_one; [exact I|apply cs_map; exact Ha].
Qed.

Lemma frame_R_despawn c s : frame_R c (apply_despawn c s).
Proof.
  intros Hw. unfold apply_despawn, emap_remove_server. destruct (al_get s (cl_s2c c)) as [cid|];
    [|split; [exact Hw|apply ents_steps_refl]].
  cbv beta iota. rewrite get_cent_set_maps. destruct (get_cent c cid) as [x|] eqn:Ex.
  - destruct (ce_alive x) eqn:Ea.
    + split.
      * eapply ewf_set_cent; [|rewrite get_cent_set_maps; exact Ex]. revert Hw. apply ewf_ext; reflexivity.
      * eapply ents_steps_trans; [apply ents_steps_same with (c' := set_maps c (al_remove s (cl_s2c c)) (al_remove cid (cl_c2s c))); reflexivity|].
        eapply ents_steps_set_cent; [rewrite get_cent_set_maps; exact Ex|].
        eapply cent_steps_one; [exact I|apply cs_despawn; exact Ea].
    + split; [revert Hw; apply ewf_ext; reflexivity|apply ents_steps_same; reflexivity].
  - split; [revert Hw; apply ewf_ext; reflexivity|apply ents_steps_same; reflexivity].
Qed.

Lemma frame_R_removals c T s kinds r : apply_removals c T s kinds = Ok r -> frame_R c (sr_client r).
Proof.
  intros H Hw. split; [exact (ewf_removals _ _ _ _ _ Hw H)|].
  destruct (phase_rel_removals _ _ _ _ _ H) as (_ & _ & _ & P4 & _).
  exact (ents_steps_weaken _ _ _ _ (any_of_phase T) P4).
Qed.

Lemma frame_R_changes c T s comps r : apply_changes c T s comps = Ok r -> frame_R c (sr_client r).
Proof.
  intros H Hw. split; [exact (ewf_changes _ _ _ _ _ Hw H)|].
  destruct (phase_rel_changes _ _ _ _ _ H) as (_ & _ & _ & P4 & _).
  exact (ents_steps_weaken _ _ _ _ (any_of_phase T) P4).
Qed.

Lemma frame_R_mutations c tick s comps r : apply_mutations c tick s comps = Ok r -> frame_R c (sr_client r).
Proof.
  unfold apply_mutations. destruct (al_get s (cl_s2c c)) as [cid|]; [|intros H; inversion H; apply frame_R_refl].
  destruct (get_cent c cid) as [x|] eqn:Ex; [|intros H; inversion H; apply frame_R_refl].
  destruct (ce_alive x) eqn:Ea; cbn [negb]; [|intros H; inversion H; apply frame_R_refl].
  destruct (ce_hist x) as [h|] eqn:Eh; [|intros H; inversion H; apply frame_R_refl].
  destruct (tick_gtb tick (h_last h)) eqn:Eg; [|intros H; inversion H; apply frame_R_refl].
  intros H. apply bind_ok in H. destruct H as [h' [E H]]. inversion H; subst. cbn [sr_client]. clear H.
  intros Hw. split.
  - apply ewf_write_comps. eapply ewf_set_cent; eauto.
  - eapply ents_steps_trans.
    + eapply ents_steps_set_cent; [exact Ex|]. eapply cent_steps_one; [exact I|].
      eapply cs_mutate; eauto.
    + destruct (phase_rel_write_comps 0 (set_cent c cid (mkCEnt true (ce_pre x) (ce_marker x) (Some h') (ce_comps x))) cid comps)
        as (_ & _ & _ & P4 & _).
      exact (ents_steps_weaken _ _ _ _ (any_of_phase 0) P4).
Qed.

Lemma frame_R_cop c op : frame_R c (apply_cop c op).
Proof.
  destruct op as [pc|pc]; cbn [apply_cop].
  - destruct (existsb _ (cl_ents c)); [apply frame_R_refl|]. intros Hw.
    split; [apply ewf_spawn; exact Hw|apply ents_steps_spawn].
  - destruct (find _ (cl_ents c)) as [[cid x]|] eqn:E; [|apply frame_R_refl].
    destruct (ce_alive x) eqn:Ea; [|apply frame_R_refl]. intros Hw.
    apply find_some in E. destruct E as [Hin _].
    pose proof (al_get_in_nodup _ _ _ (proj1 Hw) Hin) as Hget. split.
    + eapply ewf_set_cent; eauto.
    + eapply ents_steps_set_cent; [exact Hget|]. eapply cent_steps_one; [exact I|apply cs_despawn; exact Ea].
Qed.

Lemma frame_R_update c u c' : apply_update_message c u = Ok c' -> frame_R c c'.
Proof.
  apply (update_message_rel frame_R frame_R_refl frame_R_trans).
  - intros; apply frame_R_same; reflexivity.
  - apply frame_R_mapping.
  - apply frame_R_despawn.
  - intros c0 tick s kinds r. apply frame_R_removals.
  - intros c0 tick s comps r. apply frame_R_changes.
Qed.

Lemma frame_R_mutate_messages c c' out : apply_mutate_messages c = Ok (c', out) -> frame_R c c'.
Proof.
  apply (mutate_messages_rel frame_R frame_R_refl frame_R_trans).
  - apply frame_R_mutations.
  - intros; apply frame_R_same; reflexivity.
Qed.

Lemma frame_R_replication c c' out : apply_replication c = Ok (c', out) -> frame_R c c'.
Proof.
  apply (replication_rel frame_R frame_R_refl frame_R_trans).
  - apply frame_R_update.
  - intros; apply frame_R_same; reflexivity.
  - intros; apply frame_R_same; reflexivity.
  - apply frame_R_mutate_messages.
Qed.

Lemma frame_R_frame c ops c' out : client_frame c ops = Ok (c', out) -> frame_R c c'.
Proof.
  apply (frame_rel frame_R frame_R_refl frame_R_trans).
  - intros; apply frame_R_same; reflexivity.
  - apply frame_R_replication.
  - apply frame_R_cop.
  - intros; apply frame_R_same; reflexivity.
Qed.

(* ---- what labelled steps do to the confirmed tick ---- *)

Inductive tick_chain : N -> N -> Prop :=
| tc_refl a : tick_chain a a
| tc_step a b c : tick_geb b a = true -> tick_chain b c -> tick_chain a c.

Lemma tick_chain_trans a b c : tick_chain a b -> tick_chain b c -> tick_chain a c.
Proof. induction 1 as [|a b d Hg _ IH]; intros H2; [exact H2|]. eapply tc_step; eauto. Qed.

(* for ticks given by unbounded counters that stay within half the range of each other a chain is
   just "not smaller" *)
Lemma tick_geb_refl a : a < 2 ^ 32 -> tick_geb a a = true.
Proof.
  intros Ha. rewrite <- (wrap_of_N a Ha). rewrite tick_geb_spec; [lia|]. rewrite Zpow31. lia.
Qed.

Definition hist_mono (x y : cent) : Prop :=
  ce_pre y = ce_pre x /\
  (ce_alive y = true -> ce_alive x = true /\
     forall h, ce_hist x = Some h -> exists h', ce_hist y = Some h' /\ tick_chain (h_last h) (h_last h')).

Lemma cent_step_mono l x y : cent_step l x y -> hist_mono x y.
Proof.
  intros S. inversion S; subst; unfold hist_mono; cbn.
  - split; [reflexivity|]. intros _. split; [assumption|]. intros h Hh. exists h. split; [exact Hh|apply tc_refl].
  - split; [reflexivity|]. discriminate.
  - match goal with H : confirm_tick _ _ = Ok _ |- _ => apply confirm_tick_fields in H; cbn in H;
      destruct H as (Ha & Hp & _ & _ & h' & Hh & Hl & Hge) end.
    split; [exact Hp|]. intros Hy. split; [congruence|]. intros h Hx. exists h'. split; [exact Hh|].
    rewrite Hl. eapply tc_step; [exact (Hge _ Hx)|apply tc_refl].
  - split; [reflexivity|]. intros Hy. split; [exact Hy|]. intros h Hh. exists h. split; [exact Hh|apply tc_refl].
  - split; [reflexivity|]. intros _. split; [assumption|]. intros h0 Hh0.
    match goal with H : hist_set_last_tick _ _ = Ok _ |- _ => apply hist_set_last_tick_ok in H; destruct H as [Hl Hge] end.
    eexists. split; [reflexivity|]. rewrite Hl.
    match goal with H1 : tick_geb _ (h_last ?hh) = true |- _ => assert (h0 = hh) by congruence; subst h0 end.
    eapply tc_step; [exact Hge|apply tc_refl].
Qed.

Lemma hist_mono_refl x : hist_mono x x.
Proof. split; [reflexivity|]. intros Ha. split; [exact Ha|]. intros h Hh. exists h. split; [exact Hh|apply tc_refl]. Qed.

Lemma hist_mono_trans x y z : hist_mono x y -> hist_mono y z -> hist_mono x z.
Proof.
  intros [A1 A2] [B1 B2]. split; [congruence|]. intros Hz. destruct (B2 Hz) as [Hy B3].
  destruct (A2 Hy) as [Hx A3]. split; [exact Hx|]. intros h Hh. destruct (A3 _ Hh) as [h1 [Hh1 C1]].
  destruct (B3 _ Hh1) as [h2 [Hh2 C2]]. exists h2. split; [exact Hh2|eapply tick_chain_trans; eauto].
Qed.

Lemma cent_steps_mono P x y : cent_steps P x y -> hist_mono x y.
Proof.
  induction 1 as [|l x y z _ Hs _ IH]; [apply hist_mono_refl|].
  eapply hist_mono_trans; [exact (cent_step_mono _ _ _ Hs)|exact IH].
Qed.

(* C02: along a successful client frame no entity is lost, its script identity is kept, a dead
   entity is never revived, and the confirmed tick of a surviving entity only moves through
   [tick_geb] steps *)
Theorem confirmed_tick_monotone c ops c' out cid x :
  ewf c -> client_frame c ops = Ok (c', out) -> get_cent c cid = Some x ->
  exists x', get_cent c' cid = Some x' /\ hist_mono x x'.
Proof.
  intros Hw H Hx. destruct (frame_R_frame _ _ _ _ H Hw) as [_ S]. destruct (S _ _ Hx) as [x' [Hx' S']].
  exists x'. split; [exact Hx'|exact (cent_steps_mono _ _ _ S')].
Qed.

Lemma ewf_frame c ops c' out : ewf c -> client_frame c ops = Ok (c', out) -> ewf c'.
Proof. intros Hw H. exact (proj1 (frame_R_frame _ _ _ _ H Hw)). Qed.

(* in unbounded ticks: when every link of a chain stays within half the range of a reference
   window, the chain is non-decreasing *)
Lemma tick_chain_unwrapped (uz : N -> Z) a b :
  (forall p q, tick_geb q p = true -> (uz p <= uz q)%Z) -> tick_chain a b -> (uz a <= uz b)%Z.
Proof. intros Hw. induction 1 as [|a b c Hg _ IH]; [lia|]. pose proof (Hw _ _ Hg). lia. Qed.

(* ================================================================== *)
(* M. the mutation buffer                                             *)
(* ================================================================== *)

Lemma buffer_insert_in m l x : In x (buffer_insert m l) <-> x = m \/ In x l.
Proof.
  induction l as [|o t IH]; cbn [buffer_insert In].
  - split; [intros [H|[]]; auto|intros [H|[]]; auto].
  - destruct (tick_ltb (m_tick m) (m_tick o)); cbn [In]; [rewrite IH|]; intuition.
Qed.

Section Buffer.
  (* an unwrapping of the ticks in play under which the wrapping comparison is the usual one;
     it exists when the ticks are pairwise less than half the range apart, see [agrees_of_window] *)
  Variable uz : N -> Z.

  Definition agrees (ts : list N) : Prop :=
    forall a b, In a ts -> In b ts -> tick_ltb a b = (uz a <? uz b)%Z.

  Definition desc_sorted (l : list mutate_msg) : Prop :=
    StronglySorted (fun a b => (uz (m_tick b) <= uz (m_tick a))%Z) l.

  Lemma agrees_incl ts ts' : incl ts' ts -> agrees ts -> agrees ts'.
  Proof. intros Hi Ha a b Hin1 Hin2. apply Ha; apply Hi; assumption. Qed.

  Lemma buffer_insert_sorted m l :
    agrees (map m_tick (m :: l)) -> desc_sorted l -> desc_sorted (buffer_insert m l).
  Proof.
    induction l as [|o t IH]; intros Hag Hs; cbn [buffer_insert].
    - constructor; [constructor|constructor].
    - inversion Hs as [|? ? Hs' Hall]; subst.
      pose proof (Hag (m_tick m) (m_tick o) (or_introl eq_refl) (or_intror (or_introl eq_refl))) as Hcmp.
      destruct (tick_ltb (m_tick m) (m_tick o)) eqn:E.
      + constructor.
        * apply IH; [|exact Hs']. eapply agrees_incl; [|exact Hag]. intros a. cbn [map In]. tauto.
        * apply Forall_forall. intros x Hx. apply buffer_insert_in in Hx. destruct Hx as [->|Hx]; [lia|].
          rewrite Forall_forall in Hall. exact (Hall _ Hx).
      + constructor; [exact Hs|]. constructor; [lia|].
        apply Forall_forall. intros x Hx. rewrite Forall_forall in Hall. specialize (Hall _ Hx). lia.
  Qed.

  Lemma buffer_fold_sorted inbox : forall buf,
    agrees (map m_tick (inbox ++ buf)) -> desc_sorted buf ->
    desc_sorted (fold_left (fun b m => buffer_insert m b) inbox buf).
  Proof.
    induction inbox as [|m t IH]; intros buf Hag Hs; cbn [fold_left]; [exact Hs|].
    apply IH.
    - eapply agrees_incl; [|exact Hag]. intros a Ha. apply in_map_iff in Ha. destruct Ha as [x [Hx Hin]].
      apply in_map_iff. exists x. split; [exact Hx|]. apply in_app_iff in Hin. cbn [app In].
      destruct Hin as [Hin|Hin]; [right; apply in_app_iff; left; exact Hin|].
      apply buffer_insert_in in Hin. destruct Hin as [->|Hin]; [left; reflexivity|].
      right. apply in_app_iff. right. exact Hin.
    - apply buffer_insert_sorted; [|exact Hs]. eapply agrees_incl; [|exact Hag].
      intros a Ha. apply in_map_iff in Ha. destruct Ha as [x [Hx Hin]].
      apply in_map_iff. exists x. split; [exact Hx|]. cbn [app In] in *.
      destruct Hin as [Hin|Hin]; [left; exact Hin|]. right. apply in_app_iff. right. exact Hin.
  Qed.
End Buffer.

(* ticks that are the wraps of counters pairwise less than half the range apart *)
Lemma agrees_of_window (uz : N -> Z) ts :
  (forall a, In a ts -> a = wrap (uz a)) ->
  (forall a b, In a ts -> In b ts -> (Z.abs (uz a - uz b) < 2 ^ 31)%Z) ->
  agrees uz ts.
Proof.
  intros Hw Hd a b Ha Hb. rewrite (Hw a Ha) at 1. rewrite (Hw b Hb) at 1. apply tick_ltb_spec. auto.
Qed.

(* apply_mutate_messages walks the buffer in order (newest first when sorted), keeps exactly the
   messages whose update tick the client has not reached, and acknowledges exactly the others *)
Definition gated (upd : N) (m : mutate_msg) : bool := tick_gtb (m_upd_tick m) upd.

Lemma mm_fold_kept_acks upd l : forall c kept acks evs c' kept' acks' evs',
  fold_left (res_step (mm_step upd)) l (Ok (c, kept, acks, evs)) = Ok (c', kept', acks', evs') ->
  kept' = kept ++ filter (gated upd) l /\
  acks' = acks ++ map m_idx (filter (fun m => negb (gated upd m)) l).
Proof.
  induction l as [|m t IH]; intros c kept acks evs c' kept' acks' evs' H.
  - cbn in H. inversion H; subst. rewrite !app_nil_r. auto.
  - apply fold_res_cons_ok in H. destruct H as [[[[c1 kept1] acks1] evs1] [E H]].
    apply IH in H. destruct H as [-> ->]. cbn [mm_step] in E. cbn [filter].
    assert (Hg : gated upd m = tick_gtb (m_upd_tick m) upd) by reflexivity. rewrite Hg.
    destruct (tick_gtb (m_upd_tick m) upd) eqn:Eg; cbn [negb].
    + inversion E; subst. rewrite <- app_assoc. auto.
    + apply bind_ok in E. destruct E as [r [_ E]].
      destruct (cl_mticks _) as [mtk|].
      * apply bind_ok in E. destruct E as [[mtk' done] [_ E]]. inversion E; subst. cbn [map]. rewrite <- app_assoc. auto.
      * inversion E; subst. cbn [map]. rewrite <- app_assoc. auto.
Qed.

Theorem mutate_messages_kept_acks c c' out :
  apply_mutate_messages c = Ok (c', out) ->
  cl_buffered c' = filter (gated (cl_upd_tick c)) (cl_buffered c) /\
  cfo_acks out = map m_idx (filter (fun m => negb (gated (cl_upd_tick c) m)) (cl_buffered c)).
Proof.
  intros H. rewrite apply_mutate_messages_eq in H. apply bind_ok in H.
  destruct H as [[[[c1 kept] acks] evs] [E H]]. inversion H; subst. cbn.
  apply mm_fold_kept_acks in E. exact E.
Qed.

(* a kept sub-buffer of a sorted buffer is sorted *)
Lemma desc_sorted_filter uz p l : desc_sorted uz l -> desc_sorted uz (filter p l).
Proof.
  induction 1 as [|a l Hs IH Hall]; cbn [filter]; [constructor|].
  destruct (p a); [|exact IH]. constructor; [exact IH|].
  apply Forall_forall. intros x Hx. apply filter_In in Hx. rewrite Forall_forall in Hall. apply Hall. tauto.
Qed.

(* the whole frame: the buffer after apply_replication is sorted when the ticks of the old buffer
   and the mutate inbox compare like unbounded counters *)
Definition same_buf (a b : client) : Prop :=
  cl_buffered b = cl_buffered a /\ cl_inbox_mut b = cl_inbox_mut a.

Lemma same_buf_of_meta a b : same_meta a b -> same_buf a b.
Proof. intros (_ & _ & _ & _ & H5 & _ & _ & H8). split; assumption. Qed.

Lemma same_buf_update c u c' : apply_update_message c u = Ok c' -> same_buf c c'.
Proof.
  apply (update_message_rel same_buf).
  - intros a; split; reflexivity.
  - intros a b d [A1 A2] [B1 B2]. split; congruence.
  - intros; split; reflexivity.
  - intros; apply same_buf_of_meta, same_meta_mapping.
  - intros; apply same_buf_of_meta, same_meta_despawn.
  - intros c0 tick s kinds r H. apply same_buf_of_meta. exact (same_meta_removals _ _ _ _ _ H).
  - intros c0 tick s comps r H. apply same_buf_of_meta. exact (same_meta_changes _ _ _ _ _ H).
Qed.

Theorem buffer_sorted uz c c' out :
  agrees uz (map m_tick (cl_inbox_mut c ++ cl_buffered c)) -> desc_sorted uz (cl_buffered c) ->
  apply_replication c = Ok (c', out) -> desc_sorted uz (cl_buffered c').
Proof.
  intros Hag Hs H. unfold apply_replication in H. apply bind_ok in H. destruct H as [c1 [E1 H]].
  assert (Hm : same_buf c c1).
  { refine (fold_res_rel same_buf _ _ _ _ _ _ _ E1).
    - intros a; split; reflexivity.
    - intros a b d [A1 A2] [B1 B2]. split; congruence.
    - intros c0 u c2 _. apply same_buf_update. }
  destruct Hm as [Hb Hi]. apply mutate_messages_kept_acks in H. destruct H as [Hk _]. rewrite Hk. cbn.
  apply desc_sorted_filter. rewrite Hb, Hi. apply buffer_fold_sorted; assumption.
Qed.

(* ================================================================== *)
(* Q. order of the entries of the changes array (partial)             *)
(* ================================================================== *)

Definition cval_of (s2c : list (N * N)) (v : val) : cval :=
  match v with
  | VNat n => CNat n
  | VRef t => match al_get t s2c with Some cid => CRef cid | None => CRef 0 end
  end.

Definition pure_write (s2c : list (N * N)) (x : cent) (comps : list (N * val)) : cent :=
  fold_left (fun x kv => mkCEnt (ce_alive x) (ce_pre x) (ce_marker x) (ce_hist x)
                                (kinsert (fst kv) (cval_of s2c (snd kv)) (ce_comps x))) comps x.

(* every reference in the record points to a server entity the client already knows *)
Definition refs_mapped (c : client) (comps : list (N * val)) : Prop :=
  forall k t, In (k, VRef t) comps -> al_get t (cl_s2c c) <> None.

Lemma map_value_mapped c v : (forall t, v = VRef t -> al_get t (cl_s2c c) <> None) ->
  map_value c v = (c, cval_of (cl_s2c c) v).
Proof.
  intros H. destruct v as [n|t]; cbn; [reflexivity|]. specialize (H t eq_refl).
  destruct (al_get t (cl_s2c c)); [reflexivity|congruence].
Qed.

Lemma al_insert_twice {V} k (v v' : V) l : al_insert k v (al_insert k v' l) = al_insert k v l.
Proof.
  induction l as [|[k0 v0] t IH]; cbn [al_insert].
  - rewrite N.eqb_refl. reflexivity.
  - destruct (k0 =? k) eqn:E; cbn [al_insert]; [rewrite N.eqb_refl; reflexivity|rewrite E, IH; reflexivity].
Qed.

Lemma al_insert_comm {V} k1 k2 (v1 v2 : V) l : k1 <> k2 -> al_get k1 l <> None -> al_get k2 l <> None ->
  al_insert k1 v1 (al_insert k2 v2 l) = al_insert k2 v2 (al_insert k1 v1 l).
Proof.
  intros Hne. induction l as [|[k0 v0] t IH]; cbn [al_get]; [congruence|]. intros H1 H2.
  destruct (k0 =? k2) eqn:E2; destruct (k0 =? k1) eqn:E1.
  - lia.
  - assert (k0 = k2) by lia; subst k0. cbn [al_insert]. rewrite E1, N.eqb_refl. cbn [al_insert].
    rewrite E1, N.eqb_refl. reflexivity.
  - assert (k0 = k1) by lia; subst k0. cbn [al_insert]. rewrite E2, N.eqb_refl. cbn [al_insert].
    rewrite E2, N.eqb_refl. reflexivity.
  - cbn [al_insert]. rewrite E1, E2. cbn [al_insert]. rewrite E1, E2. rewrite IH; auto.
Qed.

Lemma set_cent_twice c cid x x' : set_cent (set_cent c cid x') cid x = set_cent c cid x.
Proof. unfold set_cent; cbn. rewrite al_insert_twice. reflexivity. Qed.

Lemma write_comps_pure comps : forall c cid x, refs_mapped c comps ->
  write_comps (set_cent c cid x) cid comps = set_cent c cid (pure_write (cl_s2c c) x comps).
Proof.
  induction comps as [|[k v] t IH]; intros c cid x Hr; [reflexivity|].
  rewrite write_comps_cons. rewrite write_one_eq. cbn [fst snd].
  rewrite map_value_mapped.
  2:{ intros t0 ->. apply (Hr k t0). left; reflexivity. }
  cbn [fst snd]. rewrite get_cent_set_cent_same, set_cent_twice.
  rewrite IH; [reflexivity|]. intros k0 t0 Hin. apply (Hr k0 t0). right; exact Hin.
Qed.

Lemma confirm_tick_not_err x T : confirm_tick x T <> Err.
Proof.
  unfold confirm_tick, hist_set_last_tick. destruct (ce_hist x) as [h|]; [|discriminate].
  destruct (negb (tick_geb T (h_last h))); cbn [bind]; discriminate.
Qed.

Lemma apply_changes_occupied c T e comps cid x :
  al_get e (cl_s2c c) = Some cid -> get_cent c cid = Some x -> ce_alive x = true -> refs_mapped c comps ->
  apply_changes c T e comps =
  match confirm_tick (with_marker x) T with
  | Ok x1 => Ok (Continue (set_cent c cid (pure_write (cl_s2c c) x1 comps)))
  | Err => Err
  | Panic => Panic
  end.
Proof.
  intros He Hx Ha Hr. unfold apply_changes, entry_entity, alive. rewrite He, Hx, Ha, Hx.
  destruct (confirm_tick (with_marker x) T) as [x1| |]; cbn [bind]; [|reflexivity|reflexivity].
  rewrite write_comps_pure by exact Hr. reflexivity.
Qed.

(* two adjacent entries for entities that are both already mapped (to different, alive client
   entities) and whose references are all mapped can be applied in either order: same result,
   same panics, no renaming needed *)
Theorem changes_swap_occupied c T e1 comps1 e2 comps2 cid1 cid2 x1 x2 :
  al_get e1 (cl_s2c c) = Some cid1 -> al_get e2 (cl_s2c c) = Some cid2 -> cid1 <> cid2 ->
  get_cent c cid1 = Some x1 -> ce_alive x1 = true -> get_cent c cid2 = Some x2 -> ce_alive x2 = true ->
  refs_mapped c comps1 -> refs_mapped c comps2 ->
  forall rest,
  run_array (fun c ch => apply_changes c T (fst ch) (snd ch)) ((e1, comps1) :: (e2, comps2) :: rest) c =
  run_array (fun c ch => apply_changes c T (fst ch) (snd ch)) ((e2, comps2) :: (e1, comps1) :: rest) c.
Proof.
  intros He1 He2 Hne Hx1 Ha1 Hx2 Ha2 Hr1 Hr2 rest.
  rewrite !run_array_cons. cbn [fst snd].
  rewrite (apply_changes_occupied c T e1 comps1 cid1 x1 He1 Hx1 Ha1 Hr1).
  rewrite (apply_changes_occupied c T e2 comps2 cid2 x2 He2 Hx2 Ha2 Hr2).
  destruct (confirm_tick (with_marker x1) T) as [y1| |] eqn:E1;
    destruct (confirm_tick (with_marker x2) T) as [y2| |] eqn:E2;
    rewrite ?run_array_cons; cbn [fst snd].
  all: try (rewrite (apply_changes_occupied (set_cent c cid1 _) T e2 comps2 cid2 x2 He2
                       (eq_trans (get_cent_set_cent_other _ _ _ _ (not_eq_sym Hne)) Hx2) Ha2 Hr2)).
  all: try (rewrite (apply_changes_occupied (set_cent c cid2 _) T e1 comps1 cid1 x1 He1
                       (eq_trans (get_cent_set_cent_other _ _ _ _ Hne) Hx1) Ha1 Hr1)).
  all: rewrite ?E1, ?E2; try reflexivity.
  all: try (exfalso; exact (confirm_tick_not_err _ _ E1)).
  all: try (exfalso; exact (confirm_tick_not_err _ _ E2)).
  (* both succeed: the two in-place replacements commute *)
  cbn [cl_s2c set_cent].
  assert (Heq : set_cent (set_cent c cid1 (pure_write (cl_s2c c) y1 comps1)) cid2 (pure_write (cl_s2c c) y2 comps2) =
                set_cent (set_cent c cid2 (pure_write (cl_s2c c) y2 comps2)) cid1 (pure_write (cl_s2c c) y1 comps1)).
  { unfold set_cent; cbn. f_equal. unfold get_cent in Hx1, Hx2. symmetry. apply al_insert_comm; congruence. }
  rewrite Heq. reflexivity.
Qed.

(* ... anywhere inside the array *)
Corollary changes_order_irrelevant_partial T l1 e1 comps1 e2 comps2 rest c :
  (forall c1, run_array (fun c ch => apply_changes c T (fst ch) (snd ch)) l1 c = Ok (Continue c1) ->
     exists cid1 cid2 x1 x2,
       al_get e1 (cl_s2c c1) = Some cid1 /\ al_get e2 (cl_s2c c1) = Some cid2 /\ cid1 <> cid2 /\
       get_cent c1 cid1 = Some x1 /\ ce_alive x1 = true /\ get_cent c1 cid2 = Some x2 /\ ce_alive x2 = true /\
       refs_mapped c1 comps1 /\ refs_mapped c1 comps2) ->
  run_array (fun c ch => apply_changes c T (fst ch) (snd ch)) (l1 ++ (e1, comps1) :: (e2, comps2) :: rest) c =
  run_array (fun c ch => apply_changes c T (fst ch) (snd ch)) (l1 ++ (e2, comps2) :: (e1, comps1) :: rest) c.
Proof.
  revert c. induction l1 as [|a t IH]; intros c H; cbn [app].
  - destruct (H c eq_refl) as (cid1 & cid2 & x1 & x2 & A1 & A2 & A3 & A4 & A5 & A6 & A7 & A8 & A9).
    eapply changes_swap_occupied; eauto.
  - rewrite !run_array_cons. destruct (apply_changes c T (fst a) (snd a)) as [[c1|c1]| |] eqn:E; try reflexivity.
    apply IH. intros c2 H2. apply H. rewrite run_array_cons, E. exact H2.
Qed.
