(* C02H, server half: one server frame WITH `SMap` operations, seen from one client slot.  The invariants of
   Repl/ValRefSpec.v are kept for the normal form of the client and the STRIPPED update messages, so the server half of
   Repl/ValRefSrv_proofs.v (`sendr_cli`, `sendr_slot`: a record without pending mappings) is applied to the record of the slot
   with its pending mappings cleared ([clr]): `send_for_client` reads the pending mappings only to put them into the update
   message, and - when every mapped entity is in the changes array of that message ([maps_in_changes], the premise of
   `run_maps_ok`) - the message exists with the mappings exactly when it exists without them.
   Port of Repl/ValVisFrame_proofs.v section 2 (`frame_running_v`, without `sop_ok`) and of Repl/ValRefFrame_proofs.v. *)
From RV Require Import Lib.Res Repl.ClientTicks Repl.ClientTicks_proofs Repl.World Vis.Visibility
  Tick.RepliconTick Tick.RepliconTick_proofs Tick.ConfirmHistory Tick.MutateTicks
  Repl.Server Repl.ServerSpec Repl.Server_proofs Wire.AckCodec Wire.AckCodec_proofs Repl.Ack_proofs Repl.StructSpec Repl.Struct_proofs
  Repl.StructOps_proofs Repl.StructRun_proofs
  Repl.StructVisSpec Repl.StructVis_proofs Repl.StructVisOps_proofs Repl.StructVisRun_proofs
  Repl.Client Repl.Sys Repl.Client_proofs Repl.ClientEnt_proofs Repl.ClientMut_proofs Repl.ClientSys_proofs
  Repl.ClientStructSpec Repl.ClientStruct_proofs Repl.ClientHist_proofs Repl.ClientHistMaps_proofs Repl.StructE2E_proofs Repl.StructE2EMut_proofs
  Repl.ValSpec Repl.ValSnap_proofs Repl.ValHist_proofs Repl.ValClient_proofs Repl.ValServer_proofs Repl.ValCli_proofs
  Repl.ValSrv_proofs Repl.ValFrame_proofs Repl.ValVisSpec Repl.ValVisHist_proofs Repl.ValVisCli_proofs Repl.ValVisSrv_proofs
  Repl.ValVisFrame_proofs Repl.ValRefSpec Repl.ValRefHist_proofs Repl.ValRefClient_proofs Repl.ValRefCli_proofs Repl.ValRefSrv_proofs
  Repl.ValRefFrame_proofs Repl.ValMapsSpec.
From Coq Require Import ZifyBool ZifyN.
Open Scope N_scope.
Ltac Zify.zify_post_hook ::= Z.div_mod_to_equations.
Arguments N.add : simpl never. Arguments N.mul : simpl never. Arguments N.pow : simpl never.
Arguments N.ltb : simpl never. Arguments N.leb : simpl never. Arguments N.div : simpl never.
Arguments N.modulo : simpl never. Arguments N.sub : simpl never. Arguments N.eqb : simpl never.

(* ================================================================== *)
(* 1. operations keep the acknowledgement bookkeeping (also `SMap`)   *)
(* ================================================================== *)

Definition cl_kt (cl cl' : sclient) : Prop := cl_keep cl cl' /\ sc_ticks cl' = sc_ticks cl.

Lemma cl_kt_refl cl : cl_kt cl cl.
Proof. split; [apply cl_keep_refl|reflexivity]. Qed.

Lemma cl_kt_trans a b c : cl_kt a b -> cl_kt b c -> cl_kt a c.
Proof. intros (A1 & A2) (B1 & B2). split; [exact (cl_keep_trans a b c A1 B1)|congruence]. Qed.

Lemma cl_kt_of_tkeep a b : cl_tkeep a b -> cl_kt a b.
Proof. intros (A & B & _). split; assumption. Qed.

Lemma update_client_kt s c0 cnew : NoDup (map sc_slot (sv_clients s)) ->
  In c0 (sv_clients s) -> cl_kt c0 cnew ->
  Forall2 cl_kt (sv_clients s) (sv_clients (update_client s cnew)).
Proof.
  intros Hnd Hc0 Hs. unfold update_client, set_clients. cbn [sv_clients].
  assert (H : forall l, (forall cl, In cl l -> In cl (sv_clients s)) ->
            Forall2 cl_kt l (map (fun c' => if sc_slot c' =? sc_slot cnew then cnew else c') l)).
  { induction l as [|cl l IH]; intros Hl; cbn [map]; constructor.
    - destruct (sc_slot cl =? sc_slot cnew) eqn:E; [|apply cl_kt_refl].
      assert (cl = c0); [|subst cl; exact Hs].
      apply (nodup_slot_eq (sv_clients s)); [exact Hnd|apply Hl; left; reflexivity|exact Hc0|].
      destruct Hs as [[S1 _] _]. lia.
    - apply IH. intros c1 H1. apply Hl. right. exact H1. }
  apply H. auto.
Qed.

Lemma Forall2_kt_of_tkeep l l' : Forall2 cl_tkeep l l' -> Forall2 cl_kt l l'.
Proof. induction 1; constructor; [apply cl_kt_of_tkeep; assumption|assumption]. Qed.

Lemma apply_sop_kt s op : NoDup (map sc_slot (sv_clients s)) -> Forall2 cl_kt (sv_clients s) (sv_clients (apply_sop s op)).
Proof.
  intros Hnd. destruct (sop_ok op) eqn:Eok; [exact (Forall2_kt_of_tkeep _ _ (apply_sop_tkeep s op Eok Hnd))|].
  assert (Hid : Forall2 cl_kt (sv_clients s) (sv_clients s)) by (apply Forall2_same, cl_kt_refl).
  destruct op as [e marker comps|e|e k v|e k|e k v|e|e|slot e visible|slot e pc]; try discriminate. unfold apply_sop.
  destruct (find_client s slot) as [c0|] eqn:Ef; [|exact Hid]. destruct (get_ent s e); [|exact Hid].
  destruct (sc_authorized c0 && existsb _ (sv_premap s)) eqn:Ec; [|exact Hid].
  apply andb_prop in Ec. destruct Ec as [Ha0 _].
  unfold find_client in Ef. apply find_some in Ef. destruct Ef as [Hc0 _].
  apply (update_client_kt s c0); [exact Hnd|exact Hc0|].
  split; [|reflexivity]. unfold cl_keep. cbn [sc_slot sc_authorized sc_vis sc_ticks].
  split; [reflexivity|]. split; [symmetry; exact Ha0|]. split; [tauto|]. intros st H. exact H.
Qed.

Lemma cl_kt_slots l l' : Forall2 cl_kt l l' -> map sc_slot l' = map sc_slot l.
Proof. induction 1 as [|a b l l' H _ IH]; cbn [map]; [reflexivity|]. destruct H as [[-> _] _]. rewrite IH. reflexivity. Qed.

Lemma ops_kt ops : forall s, NoDup (map sc_slot (sv_clients s)) ->
  Forall2 cl_kt (sv_clients s) (sv_clients (fold_left apply_sop ops s)).
Proof.
  induction ops as [|op t IH]; intros s Hnd; cbn [fold_left]; [apply Forall2_same, cl_kt_refl|].
  pose proof (apply_sop_kt s op Hnd) as Hk.
  eapply (Forall2_trans cl_kt cl_kt_trans); [exact Hk|]. apply IH. rewrite (cl_kt_slots _ _ Hk). exact Hnd.
Qed.

(* ================================================================== *)
(* 2. the frame of a running server                                   *)
(* ================================================================== *)

Lemma frame_running_m c s tick dt (cleanup : bool) ops parts s' fo :
  srv_ok_v s -> sv_running s = true -> NoDup (map sc_slot (sv_clients s)) ->
  server_frame c s tick dt cleanup ops parts = Ok (s', fo) ->
  let s3 := fr_pre c s tick dt cleanup ops in
  let rs := map (client_result_pure c s3 parts) (sv_clients s3) in
  srv_ok_v s3 /\ sv_removed_events s3 = [] /\ sv_now s3 = sv_now s /\
  sv_tick s3 = (if tick then tick_add (sv_tick s) 1 else sv_tick s) /\
  Forall2 cl_kt (map (fun cl => cleanup_rec c (sv_elapsed s + dt - cfg_timeout c) cleanup (ack_client (sv_now s) (sv_inbox_acks s) cl)) (sv_clients s))
          (sv_clients s3) /\
  Forall2 cl_keep (sv_clients s) (sv_clients s3) /\
  (forall t st, pending_ok s t st -> pending_ok s3 t st) /\
  (if sv_dirty s || tick
   then s' = set_last_running (set_after_send s3 (map fst rs) (sv_now s3)) /\ fo = mkFO (sv_tick s3) true (outs_of rs)
   else s' = set_last_running s3 /\ fo = mkFO (sv_tick s3) false []).
Proof.
  intros Hok Hrun Hnd H. cbv zeta.
  destruct (frame_running_pre_v c s tick dt cleanup ops Hok Hrun Hnd) as (Hok3 & Hev3 & Hrun3 & _ & Hkeep3 & Hpre3). cbv zeta in Hok3, Hev3, Hrun3, Hkeep3, Hpre3.
  unfold fr_pre. cbv zeta.
  set (s1 := with_time_tick s tick dt) in *.
  set (s2 := if cleanup then cleanup_acks c (Server.receive_acks s1) else Server.receive_acks s1) in *.
  set (s3 := fold_left apply_sop ops s2) in *.
  assert (Hcl2 : sv_clients s2 = map (fun cl => cleanup_rec c (sv_elapsed s + dt - cfg_timeout c) cleanup (ack_client (sv_now s) (sv_inbox_acks s) cl)) (sv_clients s)).
  { unfold s2. destruct cleanup.
    - unfold cleanup_acks, set_clients. cbn [sv_clients]. rewrite receive_acks_clients, map_map. reflexivity.
    - rewrite receive_acks_clients. apply map_ext. intros cl. reflexivity. }
  assert (Hnd2 : NoDup (map sc_slot (sv_clients s2))).
  { rewrite Hcl2, map_map. rewrite (map_ext (fun x => sc_slot (cleanup_rec c (sv_elapsed s + dt - cfg_timeout c) cleanup (ack_client (sv_now s) (sv_inbox_acks s) x))) sc_slot); [exact Hnd|].
    intros a. destruct (ack_client_frame (sv_now s) (sv_inbox_acks s) a) as (A1 & _). unfold cleanup_rec. destruct cleanup; cbn; exact A1. }
  assert (Hf2 : sv_now s2 = sv_now s /\ sv_tick s2 = sv_tick s1 /\ sv_dirty s2 = sv_dirty s || tick).
  { unfold s2. destruct cleanup; cbn; auto. }
  destruct Hf2 as (F3 & F4 & F5).
  destruct (ops_flags ops s2) as (B1 & _ & B3 & B4 & B5 & _). fold s3 in B1, B3, B4, B5.
  split; [exact Hok3|]. split; [exact Hev3|]. split; [change (sv_now s3 = sv_now s); congruence|].
  split; [change (sv_tick s3 = (if tick then tick_add (sv_tick s) 1 else sv_tick s)); rewrite B4, F4; reflexivity|].
  split; [change (sv_clients (buffer_removals s3)) with (sv_clients s3); rewrite <- Hcl2; exact (ops_kt ops s2 Hnd2)|].
  split; [exact Hkeep3|]. split; [exact Hpre3|].
  unfold server_frame in H. fold s1 in H. change (sv_running s1) with (sv_running s) in H. rewrite Hrun in H. cbv zeta in H. fold s2 in H. fold s3 in H.
  rewrite Hrun3 in H. change (sv_dirty (buffer_removals s3)) with (sv_dirty s3) in H. rewrite B3, F5 in H.
  destruct (sv_dirty s || tick).
  - rewrite send_replication_eq in H. cbn [bind] in H. injection H as <- <-. split; reflexivity.
  - cbn [bind] in H. injection H as <- <-. split; reflexivity.
Qed.


(* ================================================================== *)
(* 3. `send_for_client` for a record without its pending mappings     *)
(* ================================================================== *)

Lemma sort_by_key_nil {V : Type} (l : list (N * V)) : sort_by_key l = [] -> l = [].
Proof.
  destruct l as [|[k v] t]; [reflexivity|]. cbn [sort_by_key fold_right fst snd]. fold (sort_by_key t).
  destruct (sort_by_key t) as [|[k' v'] r]; cbn [insert_by_key]; [discriminate|]. destruct (k <=? k'); discriminate.
Qed.

Lemma sfc_upd_clr s r cl : sfc_upd s r (clr cl) = strip (sfc_upd s r cl).
Proof. reflexivity. Qed.

(* the message exists without the mappings exactly when it exists with them *)
Lemma sfc_clr_has_upd s r cl : (sc_pending_map cl <> [] -> changed_set s r cl <> []) ->
  sfc_has_upd s r (clr cl) = sfc_has_upd s r cl.
Proof.
  intros H. unfold sfc_has_upd, update_is_empty. rewrite sfc_upd_clr. cbn [strip u_maps u_despawns u_removals u_changes sfc_upd].
  destruct (sort_by_key (sc_pending_map cl)) as [|m t] eqn:E; [reflexivity|].
  assert (Hne : sc_pending_map cl <> []) by (intros E0; rewrite E0 in E; discriminate).
  specialize (H Hne). destruct (sfc_despawns s cl); [|reflexivity]. destruct (sfc_removals s cl); [|reflexivity].
  destruct (changed_set s r cl); [contradiction|reflexivity].
Qed.

Lemma sfc_pure_clr c s r cl p : sfc_has_upd s r (clr cl) = sfc_has_upd s r cl ->
  fst (sfc_pure c s r (clr cl) p) = fst (sfc_pure c s r cl p) /\
  co_mutates (snd (sfc_pure c s r (clr cl) p)) = co_mutates (snd (sfc_pure c s r cl p)) /\
  co_update (snd (sfc_pure c s r (clr cl) p)) = option_map strip (co_update (snd (sfc_pure c s r cl p))).
Proof.
  intros H.
  assert (E3 : sfc_ticks3 s r (clr cl) = sfc_ticks3 s r cl) by (unfold sfc_ticks3; rewrite H; reflexivity).
  assert (Ef : sfc_mut_fold c s r (clr cl) p = sfc_mut_fold c s r cl p).
  { unfold sfc_mut_fold. rewrite E3. reflexivity. }
  unfold sfc_pure. cbn [fst snd co_mutates co_update]. rewrite Ef, H. split; [reflexivity|]. split; [reflexivity|].
  destruct (sfc_has_upd s r cl); reflexivity.
Qed.

Lemma pending_ok_v_clr s cl st : pending_ok_v s cl st -> pending_ok_v s (clr cl) st.
Proof. intros [A B]. split; [exact A|exact B]. Qed.

(* ================================================================== *)
(* 4. the invariants of one slot across a frame of a running server   *)
(* ================================================================== *)

Section SFrameM.
  Variable slot : N.
  Variables SN SN' : N -> N -> server -> Prop.
  Hypothesis Hsn : forall t r s1, SN t r s1 -> SN' t r s1.
  Variables (c : cfg) (s : server) (tick : bool) (dt : N) (cleanup : bool) (ops : list sop) (parts : list (N * partition))
            (s' : server) (fo : frame_out).
  Hypothesis Hok : srv_ok_v s.
  Hypothesis Hrun : sv_running s = true.
  Hypothesis Hnd : NoDup (map sc_slot (sv_clients s)).
  Hypothesis Hvals : forallb sop_valsr ops = true.
  Hypothesis Heok : ents_okr s.
  Hypothesis Hf : server_frame c s tick dt cleanup ops parts = Ok (s', fo).
  Hypothesis Htk3 : sv_tick s <= sv_tick s'.
  Hypothesis Hsnap : fo_ran fo = true -> SN' (sv_tick s') (sv_now s) s'.
  Hypothesis Hbound : fo_ran fo = true -> forall t r s1, SN t r s1 -> t < sv_tick s'.
  Hypothesis Hpos : fo_ran fo = true -> sv_clients s' <> [] -> 1 <= sv_tick s'.
  Hypothesis Hmax : sv_now s < MAX_CHANGE_AGE.
  Hypothesis Hsnap' : forall t r s0, SN' t r s0 -> SN t r s0 \/ (fo_ran fo = true /\ t = sv_tick s' /\ r = sv_now s /\ s0 = s').
  Hypothesis Hboundr : forall t r s1, SN t r s1 -> r < sv_now s.

  Variables (cli : client) (pend : list update_msg) (muts : list mutate_msg) (acks : list N) (regs : N).
  Hypothesis Hcli : cli_invr slot SN cli pend muts.
  Hypothesis Hrec : forall rec, In rec (sv_clients s) -> sc_slot rec = slot ->
    srv_slot_invr slot SN s rec cli pend muts (acks_for slot (sv_inbox_acks s) ++ acks) /\
    ct_mutate_index (sc_ticks rec) <= regs /\ (sc_authorized rec = false -> sc_ticks rec = ct_default).
  Hypothesis Hwrap : regs + N.of_nat (length (mutates_for slot (fo_clients fo))) < 2 ^ 16.
  Hypothesis Hpend : forall rec, In rec (sv_clients s) -> sc_slot rec = slot -> sc_authorized rec = true ->
    pending_ok_v s rec (fold_left abs_apply pend (client_struct cli)).
  (* the despawn records sent to the slot name no entity referenced, visibly to the slot, in a snapshot so far *)
  Hypothesis Hdf : forall u, upd_for slot (fo_clients fo) = Some u -> forall d, In d (u_despawns u) ->
    forall t r s0, SN t r s0 -> ~ refd slot s0 d.
  (* every mapped entity is sent in the changes array of the same message *)
  Hypothesis Hmic : forall u, upd_for slot (fo_clients fo) = Some u -> maps_in_changes u.

  Local Notation s3 := (fr_pre c s tick dt cleanup ops).
  Local Notation F := (fun cl => cleanup_rec c (sv_elapsed s + dt - cfg_timeout c) cleanup (ack_client (sv_now s) (sv_inbox_acks s) cl)).
  Local Notation FR := (frame_running_m c s tick dt cleanup ops parts s' fo Hok Hrun Hnd Hf).
  Local Notation s2 := (if cleanup then cleanup_acks c (Server.receive_acks (with_time_tick s tick dt)) else Server.receive_acks (with_time_tick s tick dt)).

  Lemma sfr_ents2 : sv_ents s2 = sv_ents s.
  Proof. destruct cleanup; reflexivity. Qed.

  Lemma sfr_ents_ok : ents_okr s3.
  Proof.
    unfold fr_pre. cbv zeta. apply (ents_okr_ext (fold_left apply_sop ops s2)); [reflexivity|cbn; lia|]. apply ops_ents_okr; [exact Hvals|].
    apply (ents_okr_ext s); [exact sfr_ents2|destruct cleanup; cbn; lia|exact Heok].
  Qed.

  Lemma sfr_tick3 : sv_tick s' = sv_tick s3.
  Proof. destruct FR as (_ & _ & _ & _ & _ & _ & _ & Hc). cbv zeta in Hc. destruct (sv_dirty s || tick); destruct Hc as [-> _]; reflexivity. Qed.

  Lemma sfr_now3 : sv_now s3 = sv_now s.
  Proof. destruct FR as (_ & _ & E & _). exact E. Qed.

  Lemma sfr_now' : sv_now s3 <= sv_now s'.
  Proof.
    destruct FR as (_ & _ & _ & _ & _ & _ & _ & Hc). cbv zeta in Hc.
    destruct (sv_dirty s || tick); destruct Hc as [-> _]; cbn; lia.
  Qed.

  Lemma sfr_F_slot rec : sc_slot (F rec) = sc_slot rec /\ sc_authorized (F rec) = sc_authorized rec.
  Proof.
    destruct (ack_client_frame (sv_now s) (sv_inbox_acks s) rec) as (A1 & A2 & _). unfold cleanup_rec. destruct cleanup; cbn; auto.
  Qed.

  Lemma sfr_nodup3 : NoDup (map sc_slot (sv_clients s3)).
  Proof. destruct FR as (_ & _ & _ & _ & _ & Hk & _). cbv zeta in Hk. rewrite (cl_keep_slots _ _ Hk). exact Hnd. Qed.

  (* the record of the slot after the acknowledgements and the cleanup *)
  Lemma sfr_recF rec : In rec (sv_clients s) -> sc_slot rec = slot ->
    sc_slot (F rec) = slot /\ sc_authorized (F rec) = sc_authorized rec /\
    srv_slot_invr slot SN s (F rec) cli pend muts acks /\ ct_mutate_index (sc_ticks (F rec)) <= regs /\
    (sc_authorized rec = false -> sc_ticks (F rec) = ct_default).
  Proof.
    intros Hin Hs. destruct (Hrec rec Hin Hs) as (S1 & S2 & S3).
    destruct (ack_client_frame (sv_now s) (sv_inbox_acks s) rec) as (A1 & A2 & A3 & A4 & A5).
    set (rec2 := ack_client (sv_now s) (sv_inbox_acks s) rec) in *.
    set (rec3 := cleanup_rec c (sv_elapsed s + dt - cfg_timeout c) cleanup rec2) in *.
    assert (Hf1 : sc_slot rec3 = sc_slot rec2 /\ sc_authorized rec3 = sc_authorized rec2 /\ sc_pending_map rec3 = sc_pending_map rec2).
    { unfold rec3, cleanup_rec. destruct cleanup; cbn; auto. }
    destruct Hf1 as (B1 & B2 & B4).
    split; [congruence|]. split; [congruence|].
    (* the bookkeeping after the acknowledgements *)
    assert (H2 : srv_slot_invr slot SN s rec2 cli pend muts acks /\ ct_mutate_index (sc_ticks rec2) <= regs /\
                 (sc_authorized rec = false -> sc_ticks rec2 = ct_default)).
    { unfold rec2, ack_client. destruct (sc_authorized rec) eqn:Ea.
      - cbn [sc_ticks]. split; [|split; [|discriminate]].
        + apply (srv_slotr_ticks slot SN s (with_ticks rec (ack_all (sc_ticks rec) (sv_now s) (acks_for (sc_slot rec) (sv_inbox_acks s))))); [reflexivity|].
          apply srv_slotr_ack_all; [exact Hmax|]. rewrite Hs. exact S1.
        + assert (E : ct_mutate_index (ack_all (sc_ticks rec) (sv_now s) (acks_for (sc_slot rec) (sv_inbox_acks s))) = ct_mutate_index (sc_ticks rec)).
          { clear. generalize (sc_ticks rec) as t. induction (acks_for (sc_slot rec) (sv_inbox_acks s)) as [|i r IH]; intros t; [reflexivity|].
            rewrite ack_all_cons, IH. exact (proj1 (proj2 (ack_frame t (sv_now s) i))). }
          rewrite E. exact S2.
      - split; [|split; [exact S2|exact S3]]. apply (srv_slotr_sub slot SN s rec cli pend muts (acks_for slot (sv_inbox_acks s) ++ acks)); [auto| |exact S1].
        intros i Hi. apply in_or_app. right. exact Hi. }
    destruct H2 as (T1 & T2 & T3).
    unfold rec3, cleanup_rec. destruct cleanup; [|auto]. cbn [sc_ticks]. split; [|split; [exact T2|]].
    - apply (srv_slotr_ticks slot SN s (with_ticks rec2 (cleanup_older_mutations (sc_ticks rec2) (sv_elapsed s + dt - cfg_timeout c)))); [reflexivity|].
      apply srv_slotr_cleanup. exact T1.
    - intros Hu. rewrite (T3 Hu). reflexivity.
  Qed.

  (* the records of the slot when `send_replication` runs *)
  Lemma sfr_rec3 cl3 : In cl3 (sv_clients s3) -> sc_slot cl3 = slot ->
    exists rec, In rec (sv_clients s) /\ sc_slot rec = slot /\ sc_authorized cl3 = sc_authorized rec /\
      sc_ticks cl3 = sc_ticks (F rec) /\
      srv_slot_invr slot SN s3 cl3 cli pend muts acks /\ ct_mutate_index (sc_ticks cl3) <= regs /\
      (sc_authorized rec = false -> sc_ticks cl3 = ct_default) /\
      (sc_authorized rec = true -> pending_ok_v s3 cl3 (fold_left abs_apply pend (client_struct cli))).
  Proof.
    intros Hin Hs. destruct FR as (_ & _ & _ & _ & Htk & Hk & Hpre & _). cbv zeta in Htk, Hk, Hpre.
    destruct (Forall2_In_r _ _ _ _ Htk Hin) as [frec [Hfin ((K1 & K2 & _) & K5)]].
    apply in_map_iff in Hfin. destruct Hfin as [rec [<- Hr]].
    assert (Hsl : sc_slot rec = slot) by (rewrite <- (proj1 (sfr_F_slot rec)); congruence).
    destruct (sfr_recF rec Hr Hsl) as (R1 & R2 & R5 & R6 & R7).
    exists rec. split; [exact Hr|]. split; [exact Hsl|]. split; [congruence|]. split; [exact K5|].
    split; [|split; [rewrite K5; exact R6|split; [intros Hu; rewrite K5; exact (R7 Hu)|]]].
    - apply (srv_slotr_ticks slot SN s3 (F rec) cl3 cli pend muts acks K5).
      apply (srv_slotr_srv slot SN SN s); [auto|intros e0 a0 t0 r0 s0 _ H0 _; exact H0|rewrite <- sfr_tick3; exact Htk3|rewrite sfr_now3; lia|exact R5].
    - intros Hau.
      destruct (Forall2_In_r _ _ _ _ Hk Hin) as [rec' [Hr' Hk']].
      assert (rec' = rec) by (apply (nodup_slot_eq (sv_clients s)); [exact Hnd|exact Hr'|exact Hr|destruct Hk' as [E _]; congruence]). subst rec'.
      apply (pending_ok_v_keep s3 rec cl3 _ Hk'). apply (pending_ok_v_srv s); [exact Hpre|]. exact (Hpend rec Hr Hsl Hau).
  Qed.

  Lemma sfr_cli3 : cli_invr slot SN cli pend muts.
  Proof. exact Hcli. Qed.

  Local Notation sfr_extra := (sfr_extra slot fo).
  Local Notation sfr_newm := (sfr_newm slot fo).

  Lemma sfr_new_r t r s0 : SN' t r s0 -> SN t r s0 \/ forall t0 r0 s00, SN t0 r0 s00 -> r0 < r.
  Proof. intros H. destruct (Hsnap' t r s0 H) as [Ho|(_ & _ & -> & _)]; [left; exact Ho|right]. intros t0 r0 s00 H0. exact (Hboundr _ _ _ H0). Qed.

  (* nothing is sent to the slot *)
  Lemma sfm_quiet : sfr_extra = [] -> sfr_newm = [] ->
    (forall rec', In rec' (sv_clients s') -> sc_slot rec' = slot -> In rec' (sv_clients s3)) ->
    (fo_ran fo = true -> forall rec, In rec (sv_clients s) -> sc_slot rec = slot -> sc_authorized rec = false) ->
    cli_invr slot SN' cli (pend ++ map strip sfr_extra) (muts ++ sfr_newm) /\
    forall rec', In rec' (sv_clients s') -> sc_slot rec' = slot ->
      srv_slot_invr slot SN' s' rec' cli (pend ++ map strip sfr_extra) (muts ++ sfr_newm) acks /\
      ct_mutate_index (sc_ticks rec') <= regs + N.of_nat (length sfr_newm) /\ (sc_authorized rec' = false -> sc_ticks rec' = ct_default).
  Proof.
    intros E1 E2 Hrecs Hq. rewrite E1, E2. cbn [map]. rewrite !app_nil_r. split.
    - apply (clir_srv slot SN SN'); [exact Hsn|exact sfr_new_r| |exact Hcli].
      intros t r s0 H0. destruct (Hsnap' t r s0 H0) as [Ho|(Hran & -> & _)]; [left; exact Ho|right].
      intros u Hu. destruct (cr_pend _ _ _ _ _ Hcli u Hu) as (_ & r1 & s1 & H1 & _). pose proof (Hbound Hran _ _ _ H1). lia.
    - intros rec' Hin Hs. destruct (sfr_rec3 rec' (Hrecs rec' Hin Hs) Hs) as (rec & Hr & Hsl & Ha & _ & S1 & S2 & S3 & _).
      cbn [length]. rewrite N.add_0_r. split; [|split; [exact S2|rewrite Ha; exact S3]].
      apply (srv_slotr_srv slot SN SN' s3); [exact Hsn| |rewrite sfr_tick3; lia|exact sfr_now'|exact S1].
      intros e0 a0 t0 r0 s0 Hst H0 _. destruct (Hsnap' t0 r0 s0 H0) as [Ho|(Hran & _)]; [exact Ho|].
      exfalso. rewrite (S3 (Hq Hran rec Hr Hsl)) in Hst. discriminate.
  Qed.

  Theorem sframem_slot :
    cli_invr slot SN' cli (pend ++ map strip sfr_extra) (muts ++ sfr_newm) /\
    forall rec', In rec' (sv_clients s') -> sc_slot rec' = slot ->
      srv_slot_invr slot SN' s' rec' cli (pend ++ map strip sfr_extra) (muts ++ sfr_newm) acks /\
      ct_mutate_index (sc_ticks rec') <= regs + N.of_nat (length sfr_newm) /\ (sc_authorized rec' = false -> sc_ticks rec' = ct_default).
  Proof.
    pose proof FR as (Hok3 & Hev3 & Hnow3 & Htick3 & Htk & Hk & Hpre & Hc). cbv zeta in Hc, Htk, Hk, Hpre.
    destruct (sv_dirty s || tick) eqn:Ed.
    2:{ destruct Hc as [Es' Efo]. apply sfm_quiet.
        - unfold ValRefFrame_proofs.sfr_extra. rewrite Efo. reflexivity.
        - unfold ValRefFrame_proofs.sfr_newm. rewrite Efo. reflexivity.
        - intros rec' Hin Hs. rewrite Es' in Hin. exact Hin.
        - intros Hran. rewrite Efo in Hran. discriminate. }
    destruct Hc as [Es' Efo].
    assert (Hran : fo_ran fo = true) by (rewrite Efo; reflexivity).
    assert (Houts : fo_clients fo = outs_of (map (client_result_pure c s3 parts) (sv_clients s3))) by (rewrite Efo; reflexivity).
    assert (Hcls' : sv_clients s' = map fst (map (client_result_pure c s3 parts) (sv_clients s3))) by (rewrite Es'; reflexivity).
    pose proof sfr_nodup3 as Hnd3.
    destruct (find (fun cl => (sc_slot cl =? slot) && sc_authorized cl) (sv_clients s3)) as [rec3|] eqn:Efind.
    - (* the slot has an authorized record *)
      apply find_some in Efind. destruct Efind as [Hin3 Hb]. apply andb_prop in Hb. destruct Hb as [Hsl Hau3]. assert (Hsl' : sc_slot rec3 = slot) by lia.
      destruct (sfr_rec3 rec3 Hin3 Hsl') as (rec & Hr & Hrs & Ha & _ & R5 & R6 & _ & R8).
      assert (Hau : sc_authorized rec = true) by congruence.
      set (p := part_for parts rec3).
      pose proof (upd_for_outs c s3 parts (sv_clients s3) rec3 Hnd3 Hin3 Hau3) as Eu. rewrite Hsl' in Eu. fold p in Eu.
      pose proof (mutates_for_outs c s3 parts (sv_clients s3) rec3 Hnd3 Hin3 Hau3) as Em. rewrite Hsl' in Em. fold p in Em.
      assert (Ex0 : sfr_extra = sendr_extra s3 rec3) by (unfold ValRefFrame_proofs.sfr_extra; rewrite Houts, Eu; symmetry; apply sendr_extra_out).
      (* the record without its pending mappings behaves alike *)
      assert (Hhu : sfc_has_upd s3 (sv_now s3) (clr rec3) = sfc_has_upd s3 (sv_now s3) rec3).
      { apply sfc_clr_has_upd. intros Hpm Hcs0.
        assert (Hup : sfc_has_upd s3 (sv_now s3) rec3 = true).
        { unfold sfc_has_upd, update_is_empty, sfc_upd. cbn [u_maps u_despawns u_removals u_changes].
          destruct (sort_by_key (sc_pending_map rec3)) eqn:Esk; [apply sort_by_key_nil in Esk; contradiction|reflexivity]. }
        assert (Hmc : maps_in_changes (sfc_upd s3 (sv_now s3) rec3)).
        { apply Hmic. rewrite Houts, Eu, (sfc_update_out c s3 rec3 p), Hup. reflexivity. }
        destruct (sort_by_key (sc_pending_map rec3)) as [|[e0 pc0] t0] eqn:Esk; [apply sort_by_key_nil in Esk; contradiction|].
        assert (Hin0 : In e0 (map fst (u_changes (sfc_upd s3 (sv_now s3) rec3)))).
        { apply Hmc. unfold sfc_upd. cbn [u_maps]. rewrite Esk. left. reflexivity. }
        unfold sfc_upd in Hin0. cbn [u_changes] in Hin0. rewrite Hcs0 in Hin0. destruct Hin0. }
      destruct (sfc_pure_clr c s3 (sv_now s3) rec3 p Hhu) as (Pc1 & Pc2 & Pc3).
      assert (Ex : map strip sfr_extra = sendr_extra s3 (clr rec3)).
      { rewrite Ex0. unfold sendr_extra. rewrite Hhu. destruct (sfc_has_upd s3 (sv_now s3) rec3); reflexivity. }
      assert (En : sfr_newm = co_mutates (snd (sfc_pure c s3 (sv_now s3) (clr rec3) p))) by (unfold ValRefFrame_proofs.sfr_newm; rewrite Houts, Pc2; exact Em).
      assert (Hnewsnap : SN' (sv_tick s3) (sv_now s3) s') by (rewrite <- sfr_tick3, Hnow3; exact (Hsnap Hran)).
      assert (Hb3 : forall t r s1, SN t r s1 -> t < sv_tick s3) by (intros t r s1 H0; rewrite <- sfr_tick3; exact (Hbound Hran t r s1 H0)).
      assert (Hp3 : 1 <= sv_tick s3).
      { rewrite <- sfr_tick3. apply (Hpos Hran). rewrite Hcls'. intros En0.
        assert (Hi0 : In (fst (client_result_pure c s3 parts rec3)) (map fst (map (client_result_pure c s3 parts) (sv_clients s3)))).
        { rewrite map_map. apply in_map_iff. exists rec3. split; [reflexivity|exact Hin3]. }
        rewrite En0 in Hi0. destruct Hi0. }
      assert (He' : sv_ents s' = sv_ents s3) by (rewrite Es'; reflexivity).
      assert (Ht' : sv_tick s' = sv_tick s3) by exact sfr_tick3.
      assert (Hnw : ct_mutate_index (sc_ticks (clr rec3)) + N.of_nat (length (co_mutates (snd (sfc_pure c s3 (sv_now s3) (clr rec3) p)))) < 2 ^ 16).
      { rewrite <- En. unfold ValRefFrame_proofs.sfr_newm. cbn [clr sc_ticks]. lia. }
      assert (Hbr3 : forall t r s1, SN t r s1 -> r < sv_now s3) by (intros t r s1 H0; rewrite sfr_now3; exact (Hboundr _ _ _ H0)).
      assert (Hsn3 : forall t r s0, SN' t r s0 -> SN t r s0 \/ (t = sv_tick s3 /\ r = sv_now s3 /\ s0 = s')).
      { intros t r s0 H0. destruct (Hsnap' t r s0 H0) as [Ho|(_ & A & B & C)]; [left; exact Ho|right]. rewrite <- sfr_tick3, sfr_now3. auto. }
      assert (Hn' : sv_now s' = sv_now s3 + 1) by (rewrite Es'; reflexivity).
      assert (Hpd3 : pending_ok_v s3 (clr rec3) (fold_left abs_apply pend (client_struct cli))) by (apply pending_ok_v_clr; apply R8; exact Hau).
      (* the record of the slot after the frame *)
      assert (Hrec' : forall rec', In rec' (sv_clients s') -> sc_slot rec' = slot -> rec' = fst (sfc_pure c s3 (sv_now s3) rec3 p)).
      { intros rec' Hin Hs. rewrite Hcls', map_map in Hin. apply in_map_iff in Hin. destruct Hin as [r3 [E Hr3]].
        assert (Hs3 : sc_slot r3 = slot).
        { rewrite <- E in Hs. unfold client_result_pure in Hs. destruct (sc_authorized r3); exact Hs. }
        assert (r3 = rec3) by (apply (nodup_slot_eq (sv_clients s3)); [exact Hnd3|exact Hr3|exact Hin3|congruence]). subst r3.
        rewrite <- E. unfold client_result_pure. rewrite Hau3. reflexivity. }
      assert (Hfind' : find_client s' slot = Some (fst (sfc_pure c s3 (sv_now s3) (clr rec3) p))).
      { rewrite Pc1. unfold find_client. destruct (find (fun c0 => sc_slot c0 =? slot) (sv_clients s')) as [r0|] eqn:E0.
        - apply find_some in E0. destruct E0 as [Hi0 Hs0]. rewrite (Hrec' r0 Hi0); [reflexivity|lia].
        - exfalso. assert (Hin' : In (fst (sfc_pure c s3 (sv_now s3) rec3 p)) (sv_clients s')).
          { rewrite Hcls', map_map. apply in_map_iff. exists rec3. split; [|exact Hin3]. unfold client_result_pure. rewrite Hau3. reflexivity. }
          pose proof (find_none _ _ E0 _ Hin') as Hn. cbn [sfc_pure fst sc_slot] in Hn. lia. }
      assert (Hdf3 : forall d, In d (sfc_despawns s3 (clr rec3)) -> forall t r s0, SN t r s0 -> ~ refd slot s0 d).
      { intros d Hd. change (sfc_despawns s3 (clr rec3)) with (sfc_despawns s3 rec3) in Hd. apply (Hdf (sfc_upd s3 (sv_now s3) rec3)).
        - rewrite Houts, Eu, (sfc_update_out c s3 rec3 p).
          replace (sfc_has_upd s3 (sv_now s3) rec3) with true; [reflexivity|]. symmetry.
          unfold sfc_has_upd, update_is_empty, sfc_upd. cbn [u_maps u_despawns u_removals u_changes].
          destruct (sort_by_key (sc_pending_map rec3)); [|reflexivity]. destruct (sfc_despawns s3 rec3); [destruct Hd|reflexivity].
        - unfold sfc_upd. cbn [u_despawns]. exact Hd. }
      assert (R5c : srv_slot_invr slot SN s3 (clr rec3) cli pend muts acks) by (apply (srv_slotr_ticks slot SN s3 rec3 (clr rec3)); [reflexivity|exact R5]).
      rewrite Ex, En. split.
      + exact (sendr_cli slot SN SN' c s3 s' (clr rec3) p cli pend muts acks Hsn Hnewsnap Hb3 Hp3 He' Ht' Hok3 Hev3 eq_refl sfr_ents_ok Hcli R5c Hbr3 Hsn3 Hn' Hpd3 Hdf3 Hfind' Hnw).
      + intros rec' Hin Hs. rewrite (Hrec' rec' Hin Hs), <- Pc1. split; [|split].
        * exact (sendr_slot slot SN SN' c s3 s' (clr rec3) p cli pend muts acks Hsn Hnewsnap Hb3 Hp3 He' Ht' Hok3 Hev3 eq_refl sfr_ents_ok Hcli R5c Hbr3 Hsn3 Hn' Hpd3 Hdf3 Hfind' Hnw).
        * rewrite (proj1 (sfc_regs c s3 (clr rec3) p Hnw)). cbn [clr sc_ticks]. lia.
        * cbn. discriminate.
    - (* no authorized record: nothing is sent to the slot *)
      assert (Hnone : forall cl, In cl (sv_clients s3) -> sc_slot cl = slot -> sc_authorized cl = false).
      { intros cl Hin Hs. pose proof (find_none _ _ Efind cl Hin) as Hf0. cbn in Hf0. destruct (sc_authorized cl); [|reflexivity]. lia. }
      destruct (outs_none c s3 parts (sv_clients s3) slot Hnone) as [N1 N2].
      apply sfm_quiet.
      + unfold ValRefFrame_proofs.sfr_extra. rewrite Houts, N1. reflexivity.
      + unfold ValRefFrame_proofs.sfr_newm. rewrite Houts. exact N2.
      + intros rec' Hin Hs. rewrite Hcls', map_map in Hin. apply in_map_iff in Hin. destruct Hin as [r3 [E Hr3]].
        assert (Hs3 : sc_slot r3 = slot).
        { rewrite <- E in Hs. unfold client_result_pure in Hs. destruct (sc_authorized r3); exact Hs. }
        assert (E' : rec' = r3) by (rewrite <- E; unfold client_result_pure; rewrite (Hnone r3 Hr3 Hs3); reflexivity).
        rewrite E'. exact Hr3.
      + intros _ rec Hr Hs. destruct (Forall2_In_l _ _ _ _ Hk Hr) as [cl3 [Hin3 (K1 & K2 & _)]].
        rewrite <- K2. apply (Hnone cl3 Hin3). congruence.
  Qed.
End SFrameM.
