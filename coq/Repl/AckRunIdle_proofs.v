(* C11 end to end, R3: the idle server over whole-system runs.
   [idle_for s k]: the server runs, no removal event waits, and the authorized record of slot [k] is quiescent
   (`Ack_proofs.quiescent_for`: nothing pending, every visible entity acknowledged up to its last change).
     - idleness is kept by every step that is not the end of the slot's session (`StStop`, `StDisconnect k`) nor a server
       frame with game operations: acknowledgements of any kind (late, duplicated, unknown), cleanups, deliveries, drops,
       client frames, other clients connecting / leaving;
     - every server frame of such a tail sends the slot NO update message and no mutate data: nothing at all without
       tracking, exactly one header-only mutate message (count 1, the tick of the frame) with tracking when the frame runs
       `send_replication`;
     - the first frame that mutates an every-tick component of a visible entity sends the new value. *)
From RV Require Import Lib.Res Repl.ClientTicks Repl.ClientTicks_proofs Repl.World Vis.Visibility
  Tick.RepliconTick Tick.RepliconTick_proofs
  Repl.Server Repl.ServerSpec Repl.Server_proofs Wire.AckCodec Wire.AckCodec_proofs Repl.Ack_proofs
  Repl.StructSpec Repl.StructOps_proofs Repl.StructVisOps_proofs Repl.Client Repl.Sys Repl.Client_proofs Repl.ClientSys_proofs
  Repl.Session_proofs Repl.StructE2E_proofs Repl.StructE2EMut_proofs Repl.StructE2ESess_proofs
  Repl.ValHist_proofs Repl.ValSettle_proofs Repl.MtRunSrv_proofs Repl.MtRun_proofs
  Repl.AckRunSpec Repl.AckRunSrv_proofs Repl.AckRun_proofs.
From Coq Require Import ZifyBool ZifyN.
Open Scope N_scope.
Ltac Zify.zify_post_hook ::= Z.div_mod_to_equations.
Arguments N.add : simpl never. Arguments N.mul : simpl never. Arguments N.pow : simpl never.
Arguments N.ltb : simpl never. Arguments N.leb : simpl never. Arguments N.div : simpl never.
Arguments N.modulo : simpl never. Arguments N.sub : simpl never. Arguments N.eqb : simpl never.

Lemma Ok_inj {A} (a b : A) : Ok a = Ok b -> a = b.
Proof. intros H. inversion H. reflexivity. Qed.

Definition idle_for (s : server) (k : N) : Prop :=
  sv_running s = true /\ sv_removed_events s = [] /\
  exists cl, find_client s k = Some cl /\ sc_authorized cl = true /\ quiescent_for s cl.

(* the steps of a quiet tail for slot [k] *)
Definition idle_step (k : N) (st : step) : bool :=
  negb (ends_session k st) &&
  match st with StSFrame _ _ _ ops _ => match ops with [] => true | _ => false end | _ => true end.

(* ================================================================== *)
(* 1. quiescence and growing stamps                                   *)
(* ================================================================== *)

Definition stamps_grow (t t' : client_ticks) : Prop :=
  forall e a, mutation_tick t e = Some a -> exists a', mutation_tick t' e = Some a' /\ a <= a'.

Lemma stamps_grow_refl t : stamps_grow t t.
Proof. intros e a H. exists a. split; [exact H|lia]. Qed.

Lemma quiescent_for_mono s s' cl cl' :
  sv_ents s' = sv_ents s -> sv_despawn_buf s' = [] -> sv_removal_buf s' = [] -> sv_last_run s <= sv_last_run s' ->
  sc_vis cl' = sc_vis cl -> sc_pending_map cl' = sc_pending_map cl -> stamps_grow (sc_ticks cl) (sc_ticks cl') ->
  quiescent_for s cl -> quiescent_for s' cl'.
Proof.
  intros He Hd Hr Hl Ev Ep Hg (Hpm & _ & _ & Hvs & Hents).
  unfold quiescent_for. rewrite Ev, Ep, (replicated_ents_ext _ _ He). repeat split; auto.
  intros e x madd Hin. destruct (Hents e x madd Hin) as [Hh|[Hv (t & H1 & H2 & H3)]]; [left; exact Hh|right].
  split; [exact Hv|]. destruct (Hg e t H1) as (t' & E' & L'). exists t'. split; [exact E'|]. split; [lia|].
  intros k comp Hk. destruct (H3 k comp Hk). lia.
Qed.

(* PreUpdate only moves stamps forward *)
Lemma frame_ticks_grow c s dt cleanup cl g :
  sv_now s < MAX_CHANGE_AGE -> tk_ok g (sc_ticks cl) (sv_now s) -> stamps_grow (sc_ticks cl) (frame_ticks c s dt cleanup cl).
Proof.
  intros Hmax H. unfold frame_ticks. destruct (sv_running s); [|apply stamps_grow_refl].
  assert (Ha : stamps_grow (sc_ticks cl) (sc_ticks (ack_client (sv_now s) (sv_inbox_acks s) cl))).
  { unfold ack_client. destruct (sc_authorized cl); [|apply stamps_grow_refl]. cbn [sc_ticks].
    exact (proj1 (proj2 (ack_all_facts (sv_now s) _ Hmax _ (tk_bounded _ _ _ H)))). }
  cbv zeta. destruct cleanup; [|exact Ha]. intros e a E. rewrite cleanup_keeps_stamps. exact (Ha e a E).
Qed.

(* ================================================================== *)
(* 2. one frame without operations                                    *)
(* ================================================================== *)

Lemma frame_acks_bufs c s tick dt cleanup :
  let s2 := frame_acks c s tick dt cleanup in
  sv_ents s2 = sv_ents s /\ sv_despawn_buf s2 = sv_despawn_buf s /\ sv_removal_buf s2 = sv_removal_buf s /\
  sv_removed_events s2 = sv_removed_events s /\ sv_last_run s2 = sv_last_run s /\ sv_running s2 = sv_running s /\
  sv_now s2 = sv_now s /\ sv_elapsed s2 = sv_elapsed s + dt /\ sv_tick s2 = (if tick then tick_add (sv_tick s) 1 else sv_tick s).
Proof.
  cbv zeta. unfold frame_acks. cbn [with_time_tick sv_running]. destruct (sv_running s) eqn:Er; [|repeat split; exact Er].
  cbv zeta. destruct cleanup; repeat split; exact Er.
Qed.

(* visibility and pending mappings of a record are not touched by PreUpdate *)
Lemma frame_acks_find_vis c s tick dt cleanup k cl :
  find_client s k = Some cl ->
  exists cl', find_client (frame_acks c s tick dt cleanup) k = Some cl' /\ sc_vis cl' = sc_vis cl /\
              sc_pending_map cl' = sc_pending_map cl.
Proof.
  intros Hf. unfold frame_acks. cbn [with_time_tick sv_running].
  destruct (sv_running s) eqn:Er; [|exists cl; auto].
  cbv zeta. unfold find_client in *.
  assert (Hc : sv_clients (if cleanup then cleanup_acks c (Server.receive_acks (with_time_tick s tick dt))
                           else Server.receive_acks (with_time_tick s tick dt)) =
               map (fun cl => let a := ack_client (sv_now s) (sv_inbox_acks s) cl in
                              if cleanup then mkSC (sc_slot a) (sc_authorized a) (sc_max_size a)
                                                   (cleanup_older_mutations (sc_ticks a) (sv_elapsed s + dt - cfg_timeout c))
                                                   (sc_vis a) (sc_pending_map a)
                              else a) (sv_clients s)).
  { destruct cleanup.
    - unfold cleanup_acks. cbn [set_clients sv_clients]. rewrite receive_acks_clients. cbn [with_time_tick sv_now sv_inbox_acks sv_clients].
      rewrite map_map. reflexivity.
    - rewrite receive_acks_clients. reflexivity. }
  rewrite Hc, find_map_pres.
  - rewrite Hf. cbn [option_map]. eexists. split; [reflexivity|].
    destruct (ack_client_frame (sv_now s) (sv_inbox_acks s) cl) as (_ & _ & _ & A4 & A5).
    cbv zeta. destruct cleanup; cbn [sc_vis sc_pending_map]; auto.
  - intros y. cbv zeta. destruct (ack_client_frame (sv_now s) (sv_inbox_acks s) y) as (A1 & _).
    destruct cleanup; cbn [sc_slot]; rewrite A1; reflexivity.
Qed.

Lemma buffer_removals_nil s : sv_removed_events s = [] ->
  buffer_removals s = set_bufs s (sv_despawn_buf s) (sv_removal_buf s) [].
Proof. intros E. unfold buffer_removals. rewrite E. reflexivity. Qed.

(* the silent message of a tracking server *)
Definition header_only (t : N) (m : mutate_msg) : Prop := m_body m = [] /\ m_count m = 1 /\ m_tick m = t.

Theorem idle_frame script y G tick dt cleanup parts y' fo vs k :
  a_inv script y G -> tick_frames (script ++ [StSFrame tick dt cleanup [] parts]) < 2 ^ 31 ->
  idle_for (y_server y) k ->
  sys_step y (StSFrame tick dt cleanup [] parts) = Ok (y', OSFrame fo vs) ->
  updates_for k (fo_clients fo) = [] /\
  (if cfg_track (y_cfg y) && fo_ran fo
   then exists m, mutates_for k (fo_clients fo) = [m] /\ header_only (fo_tick fo) m
   else mutates_for k (fo_clients fo) = []) /\
  idle_for (y_server y') k.
Proof.
  intros Hi HB (Hrun & Hev & cl & Hf & Hau & Hq) H.
  destruct (sframe_step_inv _ _ _ _ _ _ _ _ H) as (fo0 & vs0 & Eo & Ef). inversion Eo; subst fo0 vs0. clear Eo.
  set (s := y_server y) in *. set (s' := y_server y') in *. set (c := y_cfg y) in *.
  pose proof (ai_nodup _ _ _ Hi) as Hnd. fold s in Hnd.
  assert (Hmax : sv_now s < MAX_CHANGE_AGE).
  { pose proof (ai_now _ _ _ Hi) as Hn. fold s in Hn. rewrite tick_frames_snoc in HB. pose proof pow31_lt_max.
    destruct (sv_dirty s); destruct (is_tick_frame _); lia. }
  pose proof (ai_tk _ _ _ Hi k cl Hf) as Htk. fold s in Htk.
  pose proof (ai_lr _ _ _ Hi) as Hlr. fold s in Hlr.
  destruct (frame_acks_bufs c s tick dt cleanup) as (B1 & B2 & B3 & B4 & B5 & B6 & B7 & _). cbv zeta in *.
  set (s2 := frame_acks c s tick dt cleanup) in *.
  assert (Epre : frame_pre c s tick dt cleanup [] = set_bufs s2 (sv_despawn_buf s2) (sv_removal_buf s2) []).
  { unfold frame_pre. cbn [fold_left]. fold s2. apply buffer_removals_nil. congruence. }
  set (pre := frame_pre c s tick dt cleanup []) in *.
  destruct Hq as (Q1 & Q2 & Q3 & Q4 & Q5).
  assert (Hq : quiescent_for s cl) by (repeat split; assumption).
  (* the record after PreUpdate *)
  pose proof (frame_slot c s tick dt cleanup [] parts s' fo k Hnd Ef) as Hs. cbv zeta in Hs. fold pre in Hs. rewrite Hf in Hs.
  destruct Hs as (clp & Ep & P1 & P2 & P3 & Hcase).
  destruct (frame_acks_find_vis c s tick dt cleanup k cl Hf) as (cl2 & E2 & V1 & V2). fold s2 in E2.
  assert (Ecl2 : cl2 = clp).
  { assert (E : find_client pre k = find_client s2 k) by (rewrite Epre; reflexivity). rewrite E, E2 in Ep. congruence. }
  subst cl2.
  assert (Hgrow : stamps_grow (sc_ticks cl) (sc_ticks clp)) by (rewrite P3; exact (frame_ticks_grow c s dt cleanup cl _ Hmax Htk)).
  assert (Hqp : quiescent_for pre clp).
  { apply (quiescent_for_mono s pre cl clp); auto; rewrite Epre; cbn [set_bufs sv_ents sv_despawn_buf sv_removal_buf sv_last_run]; try congruence. lia. }
  assert (Hrun' : sv_running s' = true).
  { destruct (server_frame_mt c s tick dt cleanup [] parts s' fo Hnd Ef) as (_ & M2 & _). congruence. }
  rewrite P2, Hau in Hcase.
  destruct Hcase as [(R1 & _ & R3 & R4 & R5)|([R1|R1] & R2 & R3 & R4)]; [|discriminate|].
  - (* the frame ran `send_replication` *)
    pose proof (send_for_client_eq c pre (sv_now s) clp (part_for parts clp)) as Heq.
    rewrite (idle_server_silent c pre (sv_now s) clp (part_for parts clp) Hqp) in Heq. apply Ok_inj in Heq. rename Heq into Hpure.
    rewrite <- Hpure in R3, R4, R5. cbn [fst snd co_mutates co_update opt_list] in R3, R4, R5.
    split; [exact R5|]. rewrite R1, andb_true_r. split.
    + assert (Hm4 := R4). unfold silent_msgs in Hm4. fold c in Hm4. fold c. destruct (cfg_track c) eqn:Et; [|exact Hm4].
      eexists. split; [exact Hm4|]. repeat split.
      destruct (server_frame_cases _ _ _ _ _ _ _ _ _ Ef) as [Hft _]. rewrite Hft.
      assert (Hin : In (mkMut (ct_update_tick (sc_ticks clp)) (sv_tick pre) 1 (ct_mutate_index (sc_ticks clp)) [])
                       (mutates_for k (fo_clients fo))) by (rewrite Hm4; left; reflexivity).
      destruct (mutates_for_in _ _ _ Hin) as (o & Ho & _ & Hmo).
      exact (proj2 (proj2 (server_frame_out_ticks _ _ _ _ _ _ _ _ _ Ef) o Ho) _ Hmo).
    + destruct (server_frame_cases _ _ _ _ _ _ _ _ _ Ef) as [_ [(_ & _ & C3 & _ & _ & C6 & C7)|(C1 & _)]]; [|congruence].
      fold pre in C3, C6. split; [exact Hrun'|].
      assert (Hfields : sv_removed_events s' = [] /\ sv_despawn_buf s' = [] /\ sv_removal_buf s' = []).
      { unfold server_frame in Ef. fold (frame_acks c s tick dt cleanup) in Ef. cbn [fold_left] in Ef. fold s2 in Ef.
        rewrite B6, Hrun in Ef. fold (frame_pre c s tick dt cleanup []) in Ef.
        change (buffer_removals s2) with pre in Ef.
        destruct (sv_dirty pre).
        - rewrite send_replication_eq in Ef. cbn [bind] in Ef. inversion Ef as [[E1 E2']].
          cbn [set_last_running set_after_send sv_removed_events sv_despawn_buf sv_removal_buf]. rewrite Epre. auto.
        - cbn [bind] in Ef. inversion Ef as [[E1 E2']]. rewrite <- E2' in R1. discriminate. }
      destruct Hfields as (G1 & G2 & G3). split; [exact G1|].
      eexists. split; [exact R3|]. split; [reflexivity|].
      apply (quiescent_for_mono pre s' clp (silent_client c pre (sv_now s) clp)).
      * exact C6.
      * exact G2.
      * exact G3.
      * rewrite C7, Epre. cbn [set_bufs sv_last_run]. rewrite B5. exact Hlr.
      * reflexivity.
      * unfold silent_client. cbn [sc_pending_map]. destruct Hqp as (Hpm & _). congruence.
      * intros e a E. exists a. split; [|lia]. unfold silent_client, silent_ticks. cbn [sc_ticks].
        destruct (cfg_track c); exact E.
      * exact Hqp.
  - (* the frame did not run it *)
    split; [exact R3|]. rewrite R1, andb_false_r. split; [exact R2|].
    unfold server_frame in Ef. fold (frame_acks c s tick dt cleanup) in Ef. cbn [fold_left] in Ef. fold s2 in Ef.
    rewrite B6, Hrun in Ef. change (buffer_removals s2) with pre in Ef.
    destruct (sv_dirty pre).
    + rewrite send_replication_eq in Ef. cbn [bind] in Ef. inversion Ef as [[E1 E2']]. rewrite <- E2' in R1. discriminate.
    + cbn [bind] in Ef. inversion Ef as [[E1 E2']]. rewrite ?E1.
      split; [exact Hrun'|]. split; [rewrite <- E1, Epre; reflexivity|].
      exists clp. split; [rewrite <- E1; exact Ep|]. split; [congruence|].
      destruct Hqp as (Hp1 & Hp2 & Hp3 & Hp45). assert (Hqp : quiescent_for pre clp) by (repeat split; auto; apply Hp45).
      apply (quiescent_for_mono pre s' clp clp); try reflexivity; try apply stamps_grow_refl; try exact Hqp;
        rewrite <- E1; cbn [set_last_running sv_ents sv_despawn_buf sv_removal_buf sv_last_run]; try assumption; try reflexivity; lia.
Qed.

(* ================================================================== *)
(* 3. the other steps                                                 *)
(* ================================================================== *)

Lemma deliver_fold_bufs slot picked : forall s,
  let s' := fold_left (fun s idxs => deliver_acks s slot idxs) picked s in
  sv_running s' = sv_running s /\ sv_removed_events s' = sv_removed_events s /\ sv_despawn_buf s' = sv_despawn_buf s /\
  sv_removal_buf s' = sv_removal_buf s /\ sv_ents s' = sv_ents s /\ sv_last_run s' = sv_last_run s.
Proof.
  induction picked as [|i t IH]; intros s; cbn [fold_left]; [repeat split|].
  destruct (IH (deliver_acks s slot i)) as (A1 & A2 & A3 & A4 & A5 & A6). cbv zeta. rewrite A1, A2, A3, A4, A5, A6.
  unfold deliver_acks. destruct (sv_running s) eqn:Er; [|repeat split; exact Er]. destruct (find_client s slot); repeat split; exact Er.
Qed.

Theorem idle_step_other y st y' o k :
  is_sframe st = false -> ends_session k st = false -> sys_step y st = Ok (y', o) ->
  idle_for (y_server y) k -> idle_for (y_server y') k.
Proof.
  intros Hnf Hes H (Hrun & Hev & cl & Hf & Hau & Hq).
  assert (Hkeep : forall s', sv_running s' = true -> sv_removed_events s' = sv_removed_events (y_server y) ->
            sv_despawn_buf s' = sv_despawn_buf (y_server y) -> sv_removal_buf s' = sv_removal_buf (y_server y) ->
            sv_ents s' = sv_ents (y_server y) -> sv_last_run s' = sv_last_run (y_server y) ->
            find_client s' k = Some cl -> idle_for s' k).
  { intros s' K1 K2 K3 K4 K5 K6 K7. split; [exact K1|]. split; [congruence|]. exists cl. split; [exact K7|]. split; [exact Hau|].
    destruct Hq as (Q1 & Q2 & Q3 & Q45). assert (Hq : quiescent_for (y_server y) cl) by (repeat split; auto; apply Q45).
    apply (quiescent_for_mono (y_server y) s' cl cl); try reflexivity; try apply stamps_grow_refl; try exact Hq; try congruence. lia. }
  assert (Hnoop : idle_for (y_server y) k) by (repeat split; [exact Hrun|exact Hev|exists cl; auto]).
  destruct st as [| |slot max|slot|slot|tick dt cleanup ops parts|slot ops|slot s2c ch w|slot s2c ch w];
    try discriminate; cbn [sys_step] in H.
  - injection H as <- _. apply Hkeep; try reflexivity. exact Hf.
  - (* connect *)
    destruct (find_client (y_server y) slot) as [c0|] eqn:Ef; [injection H as <- _; exact Hnoop|].
    destruct (al_get slot (y_clients y)); [|injection H as <- _; exact Hnoop].
    destruct (sv_running (y_server y)) eqn:Er; [|discriminate].
    injection H as <- _. cbn [set_client set_server y_server].
    assert (Hcc : connect_client (y_cfg y) (y_server y) slot max =
                  set_clients (y_server y) (sv_clients (y_server y) ++ [match cfg_auth (y_cfg y) with
                                              | AuthNone => authorized_client (y_cfg y) slot max
                                              | _ => mkSC slot false max ct_default None []
                                              end])).
    { unfold connect_client. rewrite Er, Ef. reflexivity. }
    rewrite Hcc. apply Hkeep; try reflexivity; [exact Er|].
    unfold find_client. cbn [set_clients sv_clients]. rewrite find_app. fold (find_client (y_server y) k). rewrite Hf. reflexivity.
  - (* authorize *)
    injection H as <- _. cbn [set_server y_server]. unfold authorize_client.
    destruct (find_client (y_server y) slot) as [c0|] eqn:Ef; [|exact Hnoop].
    destruct (sc_authorized c0) eqn:Ea; [exact Hnoop|].
    apply Hkeep; try reflexivity; [exact Hrun|].
    rewrite find_update_client_gen, Hf. cbn [option_map authorized_client sc_slot].
    destruct (sc_slot cl =? slot) eqn:E; [|reflexivity].
    exfalso. destruct (find_client_in _ _ _ Hf) as [_ S1]. assert (k = slot) by lia. subst k. congruence.
  - (* disconnect of another slot *)
    cbn [ends_session] in Hes.
    destruct (al_get slot (y_clients y)) as [c0|]; [|injection H as <- _; exact Hnoop].
    injection H as <- _. cbn [clear_link set_link set_client set_server y_server].
    apply Hkeep; try reflexivity; [exact Hrun|].
    unfold find_client, disconnect_client. cbn [sv_clients].
    rewrite find_filter_other by (intros x Hx; destruct (sc_slot x =? slot) eqn:E2; [lia|reflexivity]). exact Hf.
  - (* client frame *)
    destruct (al_get slot (y_clients y)) as [c0|]; [|injection H as <- _; exact Hnoop].
    destruct (client_frame c0 ops) as [[cl' cfo]| |]; cbn [bind] in H; try discriminate.
    cbv zeta in H. injection H as <- _. cbn [set_server y_server].
    destruct (cfo_acks cfo); [|destruct (cl_status cl')]; apply Hkeep; try reflexivity; try exact Hrun; exact Hf.
  - (* deliver *)
    destruct (al_get slot (y_clients y)) as [c0|]; [|injection H as <- _; exact Hnoop].
    destruct s2c.
    + destruct (ch =? 0).
      * destruct (take w (l_upd (get_link y slot))) as [picked rest]. injection H as <- _. exact Hnoop.
      * destruct (ch =? 1); [|injection H as <- _; exact Hnoop].
        destruct (take w (l_mut (get_link y slot))) as [picked rest]. injection H as <- _. exact Hnoop.
    + destruct (ch =? 0); [|injection H as <- _; exact Hnoop].
      destruct (take w (l_ack (get_link y slot))) as [picked rest]. injection H as <- _. cbn [set_server y_server].
      destruct (deliver_fold_bufs slot picked (y_server y)) as (A1 & A2 & A3 & A4 & A5 & A6).
      apply Hkeep; try assumption; [congruence|]. rewrite find_client_deliver_fold. exact Hf.
  - (* drop *)
    destruct (al_get slot (y_clients y)) as [c0|]; [|injection H as <- _; exact Hnoop].
    destruct s2c.
    + destruct (ch =? 0).
      * destruct (take w (l_upd (get_link y slot))) as [picked rest]. injection H as <- _. exact Hnoop.
      * destruct (ch =? 1); [|injection H as <- _; exact Hnoop].
        destruct (take w (l_mut (get_link y slot))) as [picked rest]. injection H as <- _. exact Hnoop.
    + destruct (ch =? 0); [|injection H as <- _; exact Hnoop].
      destruct (take w (l_ack (get_link y slot))) as [picked rest]. injection H as <- _. exact Hnoop.
Qed.

(* ================================================================== *)
(* 4. quiet tails                                                     *)
(* ================================================================== *)

Lemma tick_frames_app_le a b : tick_frames a <= tick_frames (a ++ b).
Proof.
  induction b as [|x b IH] using rev_ind; [rewrite app_nil_r; lia|].
  rewrite app_assoc, tick_frames_snoc. destruct (is_tick_frame x); lia.
Qed.

Theorem idle_tail t : forall script y G y' G' k,
  a_inv script y G -> tick_frames (script ++ t) < 2 ^ 31 -> idle_for (y_server y) k ->
  forallb (idle_step k) t = true -> arun y G t = Ok (y', G') ->
  a_inv (script ++ t) y' G' /\ idle_for (y_server y') k.
Proof.
  induction t as [|st t IH]; intros script y G y' G' k Hi HB Hid Hq H.
  - cbn in H. inversion H; subst. rewrite app_nil_r. auto.
  - cbn [arun] in H. apply bind_ok in H. destruct H as [[y1 o] [E1 H]].
    cbn [forallb] in Hq. apply andb_prop in Hq. destruct Hq as [Hst Hq]. unfold idle_step in Hst. apply andb_prop in Hst.
    destruct Hst as [Hes Hops]. apply negb_true_iff in Hes.
    replace (script ++ st :: t) with ((script ++ [st]) ++ t) in * by (rewrite <- app_assoc; reflexivity).
    assert (HB1 : tick_frames (script ++ [st]) < 2 ^ 31) by (pose proof (tick_frames_app_le (script ++ [st]) t); lia).
    apply (IH _ y1 (astep y G st)); [exact (a_inv_step _ _ _ _ _ o Hi HB1 E1)|exact HB| |exact Hq|exact H].
    destruct (is_sframe st) eqn:Esf.
    + destruct st as [| | | | |tick dt cleanup ops parts| | |]; try discriminate. destruct ops; [|discriminate].
      destruct (sframe_step_inv _ _ _ _ _ _ _ _ E1) as (fo & vs & -> & _).
      exact (proj2 (proj2 (idle_frame _ _ _ _ _ _ _ _ _ _ _ Hi HB1 Hid E1))).
    + exact (idle_step_other _ _ _ _ _ Esf Hes E1 Hid).
Qed.

(* R3, silence: after any quiet tail every server frame without operations is silent for the slot *)
Theorem idle_run script y G k t ya Ga tick dt cleanup parts yb fo vs :
  a_inv script y G -> idle_for (y_server y) k ->
  forallb (idle_step k) t = true ->
  tick_frames (script ++ t ++ [StSFrame tick dt cleanup [] parts]) < 2 ^ 31 ->
  arun y G t = Ok (ya, Ga) -> sys_step ya (StSFrame tick dt cleanup [] parts) = Ok (yb, OSFrame fo vs) ->
  updates_for k (fo_clients fo) = [] /\
  (if cfg_track (y_cfg ya) && fo_ran fo
   then exists m, mutates_for k (fo_clients fo) = [m] /\ header_only (fo_tick fo) m
   else mutates_for k (fo_clients fo) = []) /\
  idle_for (y_server yb) k.
Proof.
  intros Hi Hid Hq HB Ha Hs. rewrite app_assoc in HB.
  assert (HB1 : tick_frames (script ++ t) < 2 ^ 31) by (pose proof (tick_frames_app_le (script ++ t) [StSFrame tick dt cleanup [] parts]); lia).
  destruct (idle_tail t script y G ya Ga k Hi HB1 Hid Hq Ha) as [Hia Hida].
  exact (idle_frame _ _ _ _ _ _ _ _ _ _ _ Hia HB Hida Hs).
Qed.

(* R3, resumption: the frame that mutates an every-tick component of a visible, replicated entity sends the new value *)
Theorem idle_resume script y G tick dt cleanup parts y' fo vs k cl e x madd kd old v :
  a_inv script y G -> tick_frames (script ++ [StSFrame tick dt cleanup [SMutate e kd v] parts]) < 2 ^ 31 ->
  idle_for (y_server y) k -> find_client (y_server y) k = Some cl ->
  sys_step y (StSFrame tick dt cleanup [SMutate e kd v] parts) = Ok (y', OSFrame fo vs) -> fo_ran fo = true ->
  In (e, x, madd) (replicated_ents (y_server y)) -> vis_state_of (sc_vis cl) e <> VHidden ->
  al_get kd (se_comps x) = Some old -> val_ok (y_server y) v = true -> rate_of kd = EveryTick ->
  (exists u en, In u (updates_for k (fo_clients fo)) /\ In (e, en) (u_changes u) /\ In (kd, v) en) \/
  (exists m en, In m (mutates_for k (fo_clients fo)) /\ In (e, en) (m_body m) /\ In (kd, v) en).
Proof.
  intros Hi HB (Hrun & Hev & cl0 & Hf0 & Hau & Hq) Hf H Hran Hl Hvis Hold Hval Hrate. rewrite Hf in Hf0. inversion Hf0; subst cl0. clear Hf0.
  destruct (sframe_step_inv _ _ _ _ _ _ _ _ H) as (fo0 & vs0 & Eo & Ef). inversion Eo; subst fo0 vs0. clear Eo.
  set (s := y_server y) in *. set (s' := y_server y') in *. set (c := y_cfg y) in *.
  pose proof (ai_nodup _ _ _ Hi) as Hnd. fold s in Hnd. pose proof (ai_wf _ _ _ Hi) as Hwf. fold s in Hwf.
  assert (Hmax : sv_now s < MAX_CHANGE_AGE).
  { pose proof (ai_now _ _ _ Hi) as Hn. fold s in Hn. rewrite tick_frames_snoc in HB. pose proof pow31_lt_max.
    destruct (sv_dirty s); destruct (is_tick_frame _); lia. }
  pose proof (ai_tk _ _ _ Hi k cl Hf) as Htk. fold s in Htk. pose proof (ai_lr _ _ _ Hi) as Hlr. fold s in Hlr.
  destruct (frame_acks_bufs c s tick dt cleanup) as (B1 & B2 & B3 & B4 & B5 & B6 & B7 & _). cbv zeta in *.
  set (s2 := frame_acks c s tick dt cleanup) in *.
  set (pre := frame_pre c s tick dt cleanup [SMutate e kd v]) in *.
  destruct (frame_acks_find_vis c s tick dt cleanup k cl Hf) as (cl2 & E2 & V1 & V2). fold s2 in E2.
  pose proof (frame_acks_find c s tick dt cleanup k) as Hrec. unfold rec_of in Hrec. rewrite Hf in Hrec. fold s2 in Hrec.
  destruct Hrec as (cl2' & E2' & S1 & S2 & S3). rewrite E2 in E2'. inversion E2'; subst cl2'. clear E2'.
  assert (Hgrow : stamps_grow (sc_ticks cl) (sc_ticks cl2)) by (rewrite S3; exact (frame_ticks_grow c s dt cleanup cl _ Hmax Htk)).
  destruct Hq as (Q1 & Q2 & Q3 & Q45). assert (Hq : quiescent_for s cl) by (repeat split; auto; apply Q45).
  assert (Hq2 : quiescent_for s2 cl2) by (apply (quiescent_for_mono s s2 cl cl2); auto; try congruence; lia).
  (* the record is not touched by the operation *)
  assert (Hpre : find_client pre k = Some cl2).
  { unfold pre, frame_pre. cbn [fold_left]. fold s2. rewrite find_client_buffer_removals.
    pose proof (apply_sop_clients s2 (SMutate e kd v)) as Hc. cbn beta iota in Hc. unfold find_client in *. rewrite Hc. exact E2. }
  pose proof (frame_slot c s tick dt cleanup [SMutate e kd v] parts s' fo k Hnd Ef) as Hs. cbv zeta in Hs. fold pre in Hs. rewrite Hf in Hs.
  destruct Hs as (clp & Ep & P1 & P2 & P3 & Hcase). rewrite Hpre in Ep. inversion Ep; subst clp. clear Ep.
  destruct Hcase as [(R1 & _ & R3 & R4 & R5)|([R1|R1] & _)]; [|congruence|congruence].
  (* the entity in the state before the operation *)
  assert (Hl2 : In (e, x, madd) (replicated_ents s2)) by (rewrite (replicated_ents_ext _ _ B1); exact Hl).
  assert (Hwf2 : ents_wf s2) by exact (ents_wf_same _ _ B1 Hwf).
  destruct (replicated_ents_get s2 e x madd Hwf2 Hl2) as (Hg & Hm & Ha).
  assert (Hv2 : vis_state_of (sc_vis cl2) e = VVisible /\ exists t, mutation_tick (sc_ticks cl2) e = Some t).
  { destruct Hq2 as (_ & _ & _ & _ & Hents). destruct (Hents e x madd Hl2) as [Hh|[Hv (t & Ht & _)]].
    - rewrite V1 in Hh. contradiction.
    - split; [exact Hv|exists t; exact Ht]. }
  destruct Hv2 as [Hv2 (t & Ht)].
  assert (Htlt : t < sv_now s2).
  { rewrite B7. destruct (tk_ok_frame c s dt cleanup k cl (G k) Hmax Hf Htk) as [Tb1 _ _ _ _ _ _ _ _]. rewrite <- S3 in Tb1. exact (Tb1 e t Ht). }
  pose proof (send_for_client_eq c pre (sv_now s) cl2 (part_for parts cl2)) as Heq.
  destruct (sfc_pure c pre (sv_now s) cl2 (part_for parts cl2)) as [cl' out] eqn:Epure.
  assert (Heq2 : send_for_client c (apply_sop s2 (SMutate e kd v)) (sv_now s) cl2 (part_for parts cl2) = Ok (cl', out)).
  { rewrite <- Heq. apply send_for_client_independent; unfold pre, frame_pre; cbn [fold_left]; fold s2; try reflexivity.
    unfold buffer_removals. cbn [set_bufs sv_removal_buf].
    assert (Hev2 : sv_removed_events (apply_sop s2 (SMutate e kd v)) = []).
    { cbn [apply_sop]. rewrite Hg, Ha. assert (val_ok s2 v = true) as -> by (unfold val_ok, get_ent in *; rewrite B1; exact Hval).
      cbn [andb]. rewrite Hold. cbn. congruence. }
    rewrite Hev2. reflexivity. }
  assert (Hval2 : val_ok s2 v = true) by (unfold val_ok, get_ent in *; rewrite B1; exact Hval).
  destruct (resume_after_change c s2 (sv_now s) cl2 (part_for parts cl2) e x madd kd old v t cl' out Hq2 Hwf2 Hg Ha Hm Hold Hval2 Hrate Hv2 Ht Htlt Heq2)
    as [(u & en & U1 & U2 & U3)|(m & en & M1 & M2 & M3)].
  - left. exists u, en. rewrite R5. cbn [snd]. rewrite U1. cbn [opt_list]. split; [left; reflexivity|auto].
  - right. exists m, en. rewrite R4. cbn [snd]. auto.
Qed.

(* ================================================================== *)
(* 5. after the settle phase the server is idle for the client        *)
(* ================================================================== *)

From RV Require Import Repl.ValVisE2E_proofs Repl.ValVisSettle_proofs Repl.ValRefE2E_proofs Repl.ValRefSettle_proofs.

(* two lossless rounds after ANY history in the scope of Properties/C02G.v *)
Theorem settled_idle cfg0 nclients body slots sl y :
  let rounds := settle_round slots ++ settle_round slots in
  script_scoper cfg0 nclients (body ++ rounds) -> run (sys_init cfg0 nclients) (body ++ rounds) = Ok y ->
  In sl slots -> (exists yb, run (sys_init cfg0 nclients) body = Ok yb /\ livev body yb sl) ->
  idle_for (y_server y) sl.
Proof.
  intros rounds Hsc Hrun Hsl Hlive. pose proof Hsc as (K1 & _ & _ & K4 & _).
  destruct (settler_premises cfg0 nclients body slots sl y Hsc Hrun Hsl Hlive)
    as (Hm & c & cl & Hc & Hs & Hin & Hslot & Hau & _ & _ & Hq & Hev).
  destruct (run_erun_s _ (sys_init cfg0 nclients) [] y Hrun) as [gs Eg].
  pose proof (StructE2ESess_proofs.f_run cfg0 nclients _ y gs K1 K4 Eg) as Hf.
  destruct (ValVisE2E_proofs.f_disconnected cfg0 nclients _ y gs sl c Hf Hc) as (_ & _ & _ & D & _). destruct (D Hm Hs) as [Hr _].
  destruct (run_arun _ (sys_init cfg0 nclients) ags_empty y Hrun) as [G Ea].
  pose proof (a_inv_run cfg0 nclients _ y G K4 Ea) as Hi.
  split; [exact Hr|]. split; [exact Hev|]. exists cl. split; [|auto].
  rewrite <- Hslot. apply find_client_nodup; [exact (ai_nodup _ _ _ Hi)|exact Hin].
Qed.

(* R3 over runs from the initial state: the settle phase, then any quiet tail, then a server frame *)
Theorem settled_silent cfg0 nclients body slots sl y G t ya Ga tick dt cleanup parts yb fo vs :
  let rounds := settle_round slots ++ settle_round slots in
  script_scoper cfg0 nclients (body ++ rounds) -> arun (sys_init cfg0 nclients) ags_empty (body ++ rounds) = Ok (y, G) ->
  In sl slots -> (exists yb0, run (sys_init cfg0 nclients) body = Ok yb0 /\ livev body yb0 sl) ->
  forallb (idle_step sl) t = true ->
  tick_frames ((body ++ rounds) ++ t ++ [StSFrame tick dt cleanup [] parts]) < 2 ^ 31 ->
  arun y G t = Ok (ya, Ga) -> sys_step ya (StSFrame tick dt cleanup [] parts) = Ok (yb, OSFrame fo vs) ->
  updates_for sl (fo_clients fo) = [] /\
  (if cfg_track (y_cfg ya) && fo_ran fo
   then exists m, mutates_for sl (fo_clients fo) = [m] /\ header_only (fo_tick fo) m
   else mutates_for sl (fo_clients fo) = []) /\
  idle_for (y_server yb) sl.
Proof.
  intros rounds Hsc Ha Hsl Hlive Hq HB Ht Hs. pose proof Hsc as (_ & _ & _ & K4 & _).
  pose proof (a_inv_run cfg0 nclients _ y G K4 Ha) as Hi.
  pose proof (settled_idle cfg0 nclients body slots sl y Hsc (arun_run _ _ _ _ _ Ha) Hsl Hlive) as Hid.
  exact (idle_run _ y G sl t ya Ga tick dt cleanup parts yb fo vs Hi Hid Hq HB Ht Hs).
Qed.

Theorem settled_resume cfg0 nclients body slots sl y G t ya Ga tick dt cleanup parts yb fo vs cl e x madd kd old v :
  let rounds := settle_round slots ++ settle_round slots in
  script_scoper cfg0 nclients (body ++ rounds) -> arun (sys_init cfg0 nclients) ags_empty (body ++ rounds) = Ok (y, G) ->
  In sl slots -> (exists yb0, run (sys_init cfg0 nclients) body = Ok yb0 /\ livev body yb0 sl) ->
  forallb (idle_step sl) t = true ->
  tick_frames ((body ++ rounds) ++ t ++ [StSFrame tick dt cleanup [SMutate e kd v] parts]) < 2 ^ 31 ->
  arun y G t = Ok (ya, Ga) ->
  sys_step ya (StSFrame tick dt cleanup [SMutate e kd v] parts) = Ok (yb, OSFrame fo vs) -> fo_ran fo = true ->
  find_client (y_server ya) sl = Some cl ->
  In (e, x, madd) (replicated_ents (y_server ya)) -> vis_state_of (sc_vis cl) e <> VHidden ->
  al_get kd (se_comps x) = Some old -> val_ok (y_server ya) v = true -> rate_of kd = EveryTick ->
  (exists u en, In u (updates_for sl (fo_clients fo)) /\ In (e, en) (u_changes u) /\ In (kd, v) en) \/
  (exists m en, In m (mutates_for sl (fo_clients fo)) /\ In (e, en) (m_body m) /\ In (kd, v) en).
Proof.
  intros rounds Hsc Ha Hsl Hlive Hq HB Ht Hs Hran Hf Hl Hvis Hold Hval Hrate. pose proof Hsc as (_ & _ & _ & K4 & _).
  pose proof (a_inv_run cfg0 nclients _ y G K4 Ha) as Hi.
  pose proof (settled_idle cfg0 nclients body slots sl y Hsc (arun_run _ _ _ _ _ Ha) Hsl Hlive) as Hid.
  rewrite app_assoc in HB.
  assert (HB1 : tick_frames ((body ++ rounds) ++ t) < 2 ^ 31)
    by (pose proof (tick_frames_app_le ((body ++ rounds) ++ t) [StSFrame tick dt cleanup [SMutate e kd v] parts]); lia).
  destruct (idle_tail t _ y G ya Ga sl Hi HB1 Hid Hq Ht) as [Hia Hida].
  exact (idle_resume _ ya Ga tick dt cleanup parts yb fo vs sl cl e x madd kd old v Hia HB Hida Hf Hs Hran Hl Hvis Hold Hval Hrate).
Qed.
