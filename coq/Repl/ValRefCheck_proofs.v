(* C02G: the executable check [refs_keptb] (Repl/ValRefSpec.v) of the hypothesis [refs_kept] is sound; the client slots of
   a system never change. *)
From RV Require Import Lib.Res Repl.ClientTicks Repl.ClientTicks_proofs Repl.World Vis.Visibility
  Tick.RepliconTick Tick.ConfirmHistory Tick.MutateTicks
  Repl.Server Repl.ServerSpec Repl.Server_proofs Repl.StructSpec Repl.Struct_proofs
  Repl.Client Repl.Sys Repl.Client_proofs Repl.ClientSys_proofs
  Repl.ClientStructSpec Repl.ClientStruct_proofs Repl.StructE2E_proofs Repl.StructE2EMut_proofs Repl.StructE2ESess_proofs
  Repl.ValSpec Repl.ValSnap_proofs Repl.ValHist_proofs Repl.ValVisSpec Repl.ValVisHist_proofs Repl.ValVisCli_proofs Repl.ValRefSpec.
From Coq Require Import ZifyBool ZifyN.
Open Scope N_scope.
Ltac Zify.zify_post_hook ::= Z.div_mod_to_equations.
Arguments N.add : simpl never. Arguments N.mul : simpl never. Arguments N.pow : simpl never.
Arguments N.ltb : simpl never. Arguments N.leb : simpl never. Arguments N.div : simpl never.
Arguments N.modulo : simpl never. Arguments N.sub : simpl never. Arguments N.eqb : simpl never.

(* ================================================================== *)
(* 1. the client slots                                                *)
(* ================================================================== *)

Lemma set_client_keys y slot c c0 : al_get slot (y_clients y) = Some c0 ->
  al_keys (y_clients (set_client y slot c)) = al_keys (y_clients y).
Proof. intros H. cbn [set_client y_clients]. exact (al_keys_insert_present slot c c0 _ H). Qed.

Lemma step_client_keys y st y' o : sys_step y st = Ok (y', o) -> al_keys (y_clients y') = al_keys (y_clients y).
Proof.
  destruct st as [| |slot max|slot|slot|tick dt cleanup ops parts|slot ops|slot s2c ch w|slot s2c ch w]; cbn [sys_step]; intros H.
  - inversion H; reflexivity.
  - inversion H; reflexivity.
  - destruct (find_client (y_server y) slot); [inversion H; reflexivity|].
    destruct (al_get slot (y_clients y)) as [cl|] eqn:Ec; [|inversion H; reflexivity].
    destruct (sv_running (y_server y)); inversion H; [|reflexivity]. exact (set_client_keys _ slot _ cl Ec).
  - inversion H; reflexivity.
  - destruct (al_get slot (y_clients y)) as [cl|] eqn:Ec; inversion H; [|reflexivity]. cbn [clear_link set_link y_clients].
    exact (set_client_keys (set_server y _) slot _ cl Ec).
  - destruct (server_frame (y_cfg y) (y_server y) tick dt cleanup ops parts) as [[s' fo]| |]; cbn [bind] in H; try discriminate.
    inversion H. rewrite (proj2 (proj2 (enqueue_fields (fo_clients fo) (set_server y s')))). reflexivity.
  - destruct (al_get slot (y_clients y)) as [cl|] eqn:Ec; [|inversion H; reflexivity].
    destruct (client_frame cl ops) as [[cl' cfo]| |]; cbn [bind] in H; try discriminate. inversion H. cbn [set_server y_clients].
    destruct (cfo_acks cfo); [exact (set_client_keys y slot cl' cl Ec)|]. destruct (cl_status cl'); [|cbn [set_link y_clients]]; exact (set_client_keys y slot cl' cl Ec).
  - destruct (al_get slot (y_clients y)) as [cl|] eqn:Ec; [|inversion H; reflexivity]. destruct s2c.
    + destruct (ch =? 0).
      * destruct (take w (l_upd (get_link y slot))) as [picked rest]. inversion H. exact (set_client_keys (set_link y slot _) slot _ cl Ec).
      * destruct (ch =? 1); [|inversion H; reflexivity].
        destruct (take w (l_mut (get_link y slot))) as [picked rest]. inversion H. exact (set_client_keys (set_link y slot _) slot _ cl Ec).
    + destruct (ch =? 0); [|inversion H; reflexivity]. destruct (take w (l_ack (get_link y slot))) as [picked rest]. inversion H. reflexivity.
  - destruct (al_get slot (y_clients y)) as [cl|] eqn:Ec; [|inversion H; reflexivity]. destruct s2c.
    + destruct (ch =? 0).
      * destruct (take w (l_upd (get_link y slot))) as [picked rest]. inversion H. exact (set_client_keys (set_link y slot _) slot _ cl Ec).
      * destruct (ch =? 1); [|inversion H; reflexivity].
        destruct (take w (l_mut (get_link y slot))) as [picked rest]. inversion H. exact (set_client_keys (set_link y slot _) slot _ cl Ec).
    + destruct (ch =? 0); [|inversion H; reflexivity]. destruct (take w (l_ack (get_link y slot))) as [picked rest]. inversion H. reflexivity.
Qed.

Lemma run_client_keys script : forall y y', run y script = Ok y' -> al_keys (y_clients y') = al_keys (y_clients y).
Proof.
  induction script as [|st t IH]; intros y y' H; cbn [run] in H; [inversion H; reflexivity|].
  destruct (sys_step y st) as [[y1 o]| |] eqn:E; cbn [bind] in H; try discriminate.
  rewrite (IH y1 y' H). exact (step_client_keys y st y1 o E).
Qed.

Lemma init_client_keys cfg0 nclients : al_keys (y_clients (sys_init cfg0 nclients)) = client_slots nclients.
Proof. unfold al_keys, client_slots. cbn [sys_init y_clients]. rewrite map_map. cbn [fst]. apply map_id. Qed.

Lemma client_slot_in cfg0 nclients script y slot c :
  run (sys_init cfg0 nclients) script = Ok y -> al_get slot (y_clients y) = Some c -> In slot (client_slots nclients).
Proof.
  intros Hr Hc. rewrite <- (init_client_keys cfg0 nclients), <- (run_client_keys script _ y Hr).
  apply al_get_keys_In. rewrite Hc. discriminate.
Qed.

(* ================================================================== *)
(* 2. the check is sound                                              *)
(* ================================================================== *)

Lemma refd_vis_refs slot s d : refd slot s d -> In d (vis_refs slot s).
Proof.
  intros (e & x1 & k & c & Hv & Hk & Hval). unfold vis_refs. apply in_flat_map. exists (e, x1). split.
  - apply Server_proofs.al_get_In. exact (vrepl_ent slot s e x1 Hv).
  - cbn [fst]. rewrite Hv. unfold comp_refs. apply in_flat_map. exists (k, c). split; [exact (Server_proofs.al_get_In _ _ _ Hk)|].
    cbn [snd]. rewrite Hval. left. reflexivity.
Qed.

Section CheckSound.
  Variables (cfg0 : cfg) (nclients : N) (slot : N).
  Local Notation init := (sys_init cfg0 nclients).
  Local Notation SNof script := (snaps cfg0 nclients slot script).

  (* [seen] covers the references of the snapshots of the session *)
  Definition seen_ok (pre : list step) (seen : list N) : Prop :=
    forall t r s0, SNof pre t r s0 -> forall d, refd slot s0 d -> In d seen.

  Lemma seen_ok_step pre y st y' o seen : run init pre = Ok y -> sys_step y st = Ok (y', o) -> seen_ok pre seen ->
    seen_ok (pre ++ [st]) (if ends_session slot st then [] else seen ++ step_seen y' o slot).
  Proof.
    intros Hr Hs Hok t r s0 Hsn d Hd.
    destruct (su_snoc_inv cfg0 nclients (ends_session slot) pre y st t r s0 Hr Hsn) as [[He Hold]|(y1 & tk & dt & cu & ops & parts & fo & vs & -> & Hs1 & Hran & Es & _)].
    - rewrite He. apply in_or_app. left. exact (Hok t r s0 Hold d Hd).
    - cbn [ends_session]. rewrite Hs in Hs1. inversion Hs1; subst y1 o. apply in_or_app. right.
      unfold step_seen. rewrite Hran, Es. exact (refd_vis_refs slot s0 d Hd).
  Qed.

  Lemma refs_keptb_from_sound rest : forall pre y seen, run init pre = Ok y -> seen_ok pre seen ->
    refs_keptb_from y rest slot seen = true ->
    forall pre' st post y0, rest = pre' ++ st :: post -> run init (pre ++ pre') = Ok y0 ->
      forall d, In d (desp_step y0 st slot) -> forall t r s0, SNof (pre ++ pre') t r s0 -> ~ refd slot s0 d.
  Proof.
    induction rest as [|st0 rest0 IH]; intros pre y seen Hr Hok Hb pre' st post y0 E Hr0 d Hd t r s0 Hsn Hrf.
    - destruct pre'; discriminate.
    - cbn [refs_keptb_from] in Hb. destruct pre' as [|st1 pre''].
      + cbn [app] in E. inversion E; subst st0 rest0. rewrite app_nil_r in Hr0, Hsn. assert (y0 = y) by congruence. subst y0.
        destruct (sys_step y st) as [[y' o]| |] eqn:Es.
        * apply andb_prop in Hb. destruct Hb as [Hb _]. rewrite forallb_forall in Hb. specialize (Hb d Hd).
          pose proof (Hok t r s0 Hsn d Hrf) as Hin. apply mem_N_In in Hin. rewrite Hin in Hb. discriminate.
        * unfold desp_step in Hd. destruct st; try destruct Hd. cbn [sys_step] in Es.
          destruct (server_frame (y_cfg y) (y_server y) tick dt cleanup ops parts) as [[s' fo]| |]; cbn [bind] in Es; try discriminate; destruct Hd.
        * unfold desp_step in Hd. destruct st; try destruct Hd. cbn [sys_step] in Es.
          destruct (server_frame (y_cfg y) (y_server y) tick dt cleanup ops parts) as [[s' fo]| |]; cbn [bind] in Es; try discriminate; destruct Hd.
      + cbn [app] in E. inversion E; subst st1 rest0.
        assert (Erun : run init (pre ++ st0 :: pre'') = run init ((pre ++ [st0]) ++ pre'')) by (rewrite <- app_assoc; reflexivity).
        rewrite Erun in Hr0. assert (Esn : pre ++ st0 :: pre'' = (pre ++ [st0]) ++ pre'') by (rewrite <- app_assoc; reflexivity). rewrite Esn in Hsn.
        destruct (sys_step y st0) as [[y' o]| |] eqn:Es.
        * apply andb_prop in Hb. destruct Hb as [_ Hb].
          assert (Hr' : run init (pre ++ [st0]) = Ok y') by (rewrite run_app, Hr; cbn [bind run]; rewrite Es; reflexivity).
          exact (IH (pre ++ [st0]) y' _ Hr' (seen_ok_step pre y st0 y' o seen Hr Es Hok) Hb pre'' st post y0 eq_refl Hr0 d Hd t r s0 Hsn Hrf).
        * rewrite run_app, run_app, Hr in Hr0. cbn [bind run] in Hr0. rewrite Es in Hr0. discriminate.
        * rewrite run_app, run_app, Hr in Hr0. cbn [bind run] in Hr0. rewrite Es in Hr0. discriminate.
  Qed.

  Theorem refs_keptb_sound script : refs_keptb cfg0 nclients script slot = true -> refs_kept cfg0 nclients script slot.
  Proof.
    intros Hb pre st post y0 E Hr d Hd t r s0 Hsn.
    refine (refs_keptb_from_sound script [] init [] eq_refl _ Hb pre st post y0 E Hr d Hd t r s0 Hsn).
    intros t0 r0 s1 Hs. exfalso. destruct Hs as (p & q & y1 & y2 & tk & dt & cu & ops & parts & fo & vs & E0 & _). destruct p; discriminate.
  Qed.
End CheckSound.

Theorem refs_keptb_all_sound cfg0 nclients script : refs_keptb_all cfg0 nclients script = true ->
  forall slot, In slot (client_slots nclients) -> refs_kept cfg0 nclients script slot.
Proof.
  intros Hb slot Hin. unfold refs_keptb_all in Hb. rewrite forallb_forall in Hb. exact (refs_keptb_sound cfg0 nclients slot script (Hb slot Hin)).
Qed.
