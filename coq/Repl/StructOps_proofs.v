(* C03, server half: the invariant [pending_ok] between two ticks is preserved by every game
   operation, by `buffer_removals`, by acknowledgements.  Definitions: Repl/StructSpec.v. *)
From RV Require Import Lib.Res Repl.ClientTicks Repl.ClientTicks_proofs Repl.World Vis.Visibility
  Tick.RepliconTick Repl.Server Repl.ServerSpec Repl.Server_proofs Repl.StructSpec Repl.Struct_proofs.
From Coq Require Import ZifyBool ZifyN.
Open Scope N_scope.
Ltac Zify.zify_post_hook ::= Z.div_mod_to_equations.
Arguments N.add : simpl never. Arguments N.mul : simpl never. Arguments N.pow : simpl never.
Arguments N.ltb : simpl never. Arguments N.leb : simpl never. Arguments N.div : simpl never.
Arguments N.modulo : simpl never. Arguments N.sub : simpl never. Arguments N.eqb : simpl never.

(* ================= 1. a generic step ================= *)

(* what a step s -> s' must satisfy so that every client's invariant survives *)
Lemma pending_step s s' t st :
  sv_last_run s' = sv_last_run s ->
  incl (sv_despawn_buf s) (sv_despawn_buf s') ->
  (forall e, repl_get s' e = None -> repl_get s e = None \/ In e (sv_despawn_buf s')) ->
  (forall e x', repl_get s' e = Some x' -> ~ In e (sv_despawn_buf s') ->
     repl_get s e = None \/
     exists x, repl_get s e = Some x /\
       (forall k, In k (map fst (se_comps x)) -> ~ In k (map fst (se_comps x')) -> rem_listed s' e k) /\
       (forall k, rem_listed s e k -> ~ In k (map fst (se_comps x')) -> rem_listed s' e k) /\
       (forall k c', In (k, c') (se_comps x') ->
          sv_last_run s < c_added c' \/ exists c, In (k, c) (se_comps x) /\ c_added c = c_added c')) ->
  pending_ok s t st -> pending_ok s' t st.
Proof.
  intros Hlr HD Hgone Hstay Hp. constructor.
  - exact (pk_known _ _ _ Hp).
  - intros e Hs Hn. destruct (Hgone e Hn) as [H | H]; [|exact H]. apply HD. exact (pk_gone _ _ _ Hp e Hs H).
  - intros e ks x' Hs Hr HnD k Hm Hni.
    destruct (Hstay e x' Hr HnD) as [Hn | [x [Hx [Hi [Hii _]]]]].
    + exfalso. apply HnD, HD. apply (pk_gone _ _ _ Hp e); [rewrite Hs; discriminate|exact Hn].
    + destruct (in_dec N.eq_dec k (map fst (se_comps x))) as [Hin | Hnin].
      * apply Hi; assumption.
      * apply Hii; [|exact Hni].
        apply (pk_lost _ _ _ Hp e ks x Hs Hx); [intros H; apply HnD, HD, H|exact Hm|exact Hnin].
  - intros e ks x' Hs Hr HnD k c' Hin Hm.
    destruct (Hstay e x' Hr HnD) as [Hn | [x [Hx [_ [_ Hiii]]]]].
    + exfalso. apply HnD, HD. apply (pk_gone _ _ _ Hp e); [rewrite Hs; discriminate|exact Hn].
    + rewrite Hlr. destruct (Hiii k c' Hin) as [H | [c [Hc Heq]]]; [exact H|]. rewrite <- Heq.
      apply (pk_new _ _ _ Hp e ks x Hs Hx) with (k := k); [intros H; apply HnD, HD, H|exact Hc|exact Hm].
Qed.

(* the invariants read the server through a few fields only *)
Lemma pending_ok_ext s s' t st :
  sv_ents s' = sv_ents s -> sv_despawn_buf s' = sv_despawn_buf s -> sv_removal_buf s' = sv_removal_buf s ->
  sv_removed_events s' = sv_removed_events s -> sv_last_run s' = sv_last_run s ->
  pending_ok s t st -> pending_ok s' t st.
Proof.
  intros He Hd Hr Hv Hl Hp.
  assert (Hrg : forall e, repl_get s' e = repl_get s e) by (intros e; apply repl_get_ext; exact He).
  assert (Hli : forall e k, rem_listed s e k -> rem_listed s' e k).
  { intros e k [[ks H] | [a H]]; [left; exists ks; rewrite Hr; exact H|right; exists a; rewrite Hv; exact H]. }
  apply (pending_step s s' t st Hl).
  - rewrite Hd. apply incl_refl.
  - intros e H. left. rewrite <- Hrg. exact H.
  - intros e x' H _. right. exists x'. split; [rewrite <- Hrg; exact H|]. split; [|split].
    + intros k H1 H2. contradiction.
    + intros k H1 _. apply Hli. exact H1.
    + intros k c' H1. right. exists c'. split; [exact H1|reflexivity].
  - exact Hp.
Qed.

Lemma pending_ok_ticks s t t' st :
  (forall e, mutation_tick t' e <> None <-> mutation_tick t e <> None) ->
  pending_ok s t st -> pending_ok s t' st.
Proof.
  intros H Hp. constructor.
  - intros e. rewrite H. exact (pk_known _ _ _ Hp e).
  - exact (pk_gone _ _ _ Hp).
  - exact (pk_lost _ _ _ Hp).
  - exact (pk_new _ _ _ Hp).
Qed.

(* a client that was sent nothing fits every world *)
Lemma pending_ok_fresh s t : fresh_ticks t -> pending_ok s t [].
Proof.
  intros Hf. constructor.
  - intros e. rewrite (Hf e). cbn. tauto.
  - intros e H. cbn in H. congruence.
  - intros e ks x H. discriminate.
  - intros e ks x H. discriminate.
Qed.

Lemma srv_base_ext s s' :
  sv_ents s' = sv_ents s -> sv_removal_buf s' = sv_removal_buf s ->
  sv_removed_events s' = sv_removed_events s -> sv_last_run s' = sv_last_run s -> sv_now s' = sv_now s ->
  no_vis s' -> srv_base s -> srv_base s'.
Proof.
  intros He Hr Hv Hl Hn Hnv Hb. constructor.
  - unfold ents_wf. rewrite He. exact (so_wf s Hb).
  - exact Hnv.
  - rewrite Hl, Hn. exact (so_stamp s Hb).
  - intros e k x c Hli Hg. rewrite Hl. apply (so_fresh s Hb e k x c).
    + destruct Hli as [[ks H] | [a H]]; [left; exists ks; rewrite <- Hr; exact H|right; exists a; rewrite <- Hv; exact H].
    + unfold get_ent in *. rewrite <- He. exact Hg.
  - rewrite Hr. exact (so_rb_nodup s Hb).
Qed.

Lemma rb_repl_ext s s' :
  sv_ents s' = sv_ents s -> sv_removal_buf s' = sv_removal_buf s -> rb_repl s -> rb_repl s'.
Proof. intros He Hr H e. rewrite Hr, (repl_get_ext s s' e He). apply H. Qed.

(* ================= 2. the entity table ================= *)

Lemma get_ent_set_ent s e x' e' : get_ent (set_ent s e x') e' = if e' =? e then Some x' else get_ent s e'.
Proof. unfold get_ent, set_ent. cbn [sv_ents]. apply al_get_insert. Qed.

Lemma repl_get_set_ent s e x' e' :
  repl_get (set_ent s e x') e' =
  if e' =? e then (if se_alive x' && has_marker x' then Some x' else None) else repl_get s e'.
Proof. unfold repl_get. rewrite get_ent_set_ent. destruct (e' =? e); reflexivity. Qed.

Lemma In_kinsert {V} k (c : V) l k' c' : In (k', c') (kinsert k c l) -> (k', c') = (k, c) \/ In (k', c') l.
Proof.
  induction l as [|[k0 v0] t IH]; cbn [kinsert].
  - intros [H | []]. left. congruence.
  - destruct (k =? k0).
    + intros [H | H]; [left; congruence|right; right; exact H].
    + destruct (k <? k0).
      * intros [H | H]; [left; congruence|right; exact H].
      * intros [H | H]; [right; left; exact H|]. destruct (IH H) as [H' | H']; [left; exact H'|right; right; exact H'].
Qed.

Lemma keys_kinsert {V} k (c : V) l k0 : In k0 (map fst l) -> In k0 (map fst (kinsert k c l)).
Proof.
  induction l as [|[k1 v1] t IH]; cbn [kinsert map fst]; [intros []|].
  destruct (k =? k1) eqn:E.
  - cbn [map fst]. intros [H | H]; [left; lia|right; exact H].
  - destruct (k <? k1); cbn [map fst].
    + intros H. right. exact H.
    + intros [H | H]; [left; exact H|right; apply IH; exact H].
Qed.

Lemma In_al_remove {V} k (l : list (N * V)) k' v : In (k', v) (al_remove k l) -> In (k', v) l /\ k' <> k.
Proof.
  induction l as [|[k0 v0] t IH]; cbn [al_remove]; [intros []|].
  destruct (k0 =? k) eqn:E.
  - intros H. destruct (IH H). split; [right; assumption|assumption].
  - intros [H | H].
    + injection H as -> ->. split; [left; reflexivity|lia].
    + destruct (IH H). split; [right; assumption|assumption].
Qed.

Lemma keys_al_remove {V} k (l : list (N * V)) k0 : k0 <> k -> In k0 (map fst l) -> In k0 (map fst (al_remove k l)).
Proof.
  intros Hne H. apply (al_get_keys_In k0 (al_remove k l)). rewrite al_get_remove.
  replace (k0 =? k) with false by lia. apply al_get_keys_In. exact H.
Qed.

(* ================= 3. the shapes of an operation ================= *)

Lemma op_ok_refl s : srv_base s -> op_ok s s.
Proof. intros H. split; [exact H|]. intros _. split; auto. Qed.

(* A: the record of one entity is replaced; replication is not lost, no kind is lost, new
   components carry the current stamp *)
Lemma op_set_ent s e x' : srv_base s ->
  (forall x, repl_get s e = Some x -> se_alive x' && has_marker x' = true) ->
  (se_alive x' && has_marker x' = true -> forall x, get_ent s e = Some x ->
     forall k, In k (map fst (se_comps x)) -> In k (map fst (se_comps x'))) ->
  (forall k c', In (k, c') (se_comps x') ->
     c_added c' = sv_now s \/ exists x c, get_ent s e = Some x /\ In (k, c) (se_comps x) /\ c_added c = c_added c') ->
  op_ok s (set_ent s e x').
Proof.
  intros Hb A1 A2 A3.
  assert (Hli : forall e0 k, rem_listed (set_ent s e x') e0 k <-> rem_listed s e0 k) by (intros; reflexivity).
  split; [constructor|intros _; split].
  - apply set_ent_wf. exact (so_wf s Hb).
  - exact (so_novis s Hb).
  - exact (so_stamp s Hb).
  - intros e0 k x c Hl Hg Hin. change (sv_last_run s < c_added c). apply Hli in Hl.
    rewrite get_ent_set_ent in Hg. destruct (e0 =? e) eqn:E.
    + assert (e0 = e) by lia. subst e0. injection Hg as <-.
      destruct (A3 k c Hin) as [H | [x0 [c0 [Hg0 [Hin0 Heq]]]]].
      * rewrite H. exact (so_stamp s Hb).
      * rewrite <- Heq. exact (so_fresh s Hb e k x0 c0 Hl Hg0 Hin0).
    + exact (so_fresh s Hb e0 k x c Hl Hg Hin).
  - exact (so_rb_nodup s Hb).
  - intros Hrb e0 H. change (al_get e0 (sv_removal_buf s) <> None) in H. specialize (Hrb e0 H).
    rewrite repl_get_set_ent. destruct (e0 =? e) eqn:E; [|exact Hrb].
    assert (e0 = e) by lia. subst e0. destruct (repl_get s e) as [x|] eqn:Er; [|congruence].
    rewrite (A1 x eq_refl). discriminate.
  - intros t st. apply pending_step.
    + reflexivity.
    + apply incl_refl.
    + intros e0. rewrite repl_get_set_ent. destruct (e0 =? e) eqn:E; [|intros H; left; exact H].
      assert (e0 = e) by lia. subst e0. intros H. left.
      destruct (repl_get s e) as [x|] eqn:Er; [|reflexivity]. rewrite (A1 x eq_refl) in H. discriminate.
    + intros e0 x0. rewrite repl_get_set_ent. destruct (e0 =? e) eqn:E.
      * assert (e0 = e) by lia. subst e0. destruct (se_alive x' && has_marker x') eqn:Ea; [|discriminate].
        intros H _. injection H as <-.
        destruct (repl_get s e) as [x|] eqn:Er; [right|left; reflexivity].
        exists x. split; [reflexivity|]. pose proof (repl_get_ent s e x Er) as Hg. split; [|split].
        -- intros k H1 H2. exfalso. apply H2. exact (A2 eq_refl x Hg k H1).
        -- intros k H1 _. exact H1.
        -- intros k c' Hin. destruct (A3 k c' Hin) as [H | [x1 [c1 [Hg1 [Hin1 Heq]]]]].
           ++ left. rewrite H. exact (so_stamp s Hb).
           ++ right. exists c1. assert (x1 = x) by congruence. subst x1. split; assumption.
      * intros H _. right. exists x0. split; [exact H|]. split; [|split].
        -- intros k H1 H2. contradiction.
        -- intros k H1 _. exact H1.
        -- intros k c' Hin. right. exists c'. split; [exact Hin|reflexivity].
Qed.

Lemma rem_listed_despawn s e e0 k :
  rem_listed (buffer_despawn s e) e0 k -> rem_listed s e0 k.
Proof.
  unfold buffer_despawn. destruct (sv_running s); [|auto].
  intros [[ks [H Hk]] | H]; [|right; exact H]. left. exists ks. split; [|exact Hk].
  cbn [set_bufs sv_removal_buf] in H. rewrite al_get_remove in H. destruct (e0 =? e); [discriminate|exact H].
Qed.

(* B: an entity stops being replicated (marker removed, or despawned with the marker): observer
   `buffer_despawns` *)
Lemma op_drop s e x x' : srv_base s ->
  get_ent s e = Some x -> se_alive x' && has_marker x' = false ->
  (forall kc, In kc (se_comps x') -> In kc (se_comps x)) ->
  op_ok s (buffer_despawn (set_ent s e x') e).
Proof.
  intros Hb Hg Hdead Hsub. set (s1 := set_ent s e x').
  assert (Hents : sv_ents (buffer_despawn s1 e) = sv_ents s1) by apply sv_ents_buffer_despawn.
  assert (Hrg : forall e0, repl_get (buffer_despawn s1 e) e0 = if e0 =? e then None else repl_get s e0).
  { intros e0. rewrite (repl_get_ext s1 _ e0 Hents). unfold s1. rewrite repl_get_set_ent, Hdead. reflexivity. }
  split; [constructor|intros Hrun; split].
  - unfold ents_wf. rewrite Hents. apply set_ent_wf. exact (so_wf s Hb).
  - intros cl Hcl. rewrite sv_clients_buffer_despawn in Hcl. exact (so_novis s Hb cl Hcl).
  - unfold buffer_despawn. destruct (sv_running s1); exact (so_stamp s Hb).
  - intros e0 k y c Hl Hgy Hin.
    assert (Hlr : sv_last_run (buffer_despawn s1 e) = sv_last_run s)
      by (unfold buffer_despawn; destruct (sv_running s1); reflexivity).
    rewrite Hlr. apply rem_listed_despawn in Hl. change (rem_listed s e0 k) in Hl.
    unfold get_ent in Hgy. rewrite Hents in Hgy. change (get_ent s1 e0 = Some y) in Hgy.
    unfold s1 in Hgy. rewrite get_ent_set_ent in Hgy. destruct (e0 =? e) eqn:E.
    + assert (e0 = e) by lia. subst e0. injection Hgy as <-. exact (so_fresh s Hb e k x c Hl Hg (Hsub _ Hin)).
    + exact (so_fresh s Hb e0 k y c Hl Hgy Hin).
  - unfold buffer_despawn. destruct (sv_running s1); [|exact (so_rb_nodup s Hb)].
    cbn [set_bufs sv_removal_buf]. apply al_remove_nodup. exact (so_rb_nodup s Hb).
  - intros Hrb e0 H. rewrite Hrg. unfold buffer_despawn in H. change (sv_running s1) with (sv_running s) in H.
    rewrite Hrun in H. cbn [set_bufs sv_removal_buf] in H. rewrite al_get_remove in H.
    destruct (e0 =? e); [congruence|]. apply Hrb. exact H.
  - assert (Hbd : buffer_despawn s1 e = set_bufs s1 (sv_despawn_buf s ++ [e]) (al_remove e (sv_removal_buf s)) (sv_removed_events s)).
    { unfold buffer_despawn. change (sv_running s1) with (sv_running s). rewrite Hrun. reflexivity. }
    intros t st. apply pending_step.
    + rewrite Hbd. reflexivity.
    + rewrite Hbd. cbn [set_bufs sv_despawn_buf]. apply incl_appl, incl_refl.
    + intros e0. rewrite Hrg. destruct (e0 =? e) eqn:E; [|intros H; left; exact H].
      intros _. right. rewrite Hbd. cbn [set_bufs sv_despawn_buf]. apply in_or_app. right. left. lia.
    + intros e0 x0. rewrite Hrg. destruct (e0 =? e) eqn:E; [discriminate|].
      intros H _. right. exists x0. split; [exact H|]. split; [|split].
      * intros k H1 H2. contradiction.
      * intros k H1 _. rewrite Hbd. destruct H1 as [[ks [H1 Hk]] | H1]; [left|right; exact H1].
        exists ks. split; [|exact Hk]. cbn [set_bufs sv_removal_buf]. rewrite al_get_remove, E. exact H1.
      * intros k c' Hin. right. exists c'. split; [exact Hin|reflexivity].
Qed.

(* C: a component is removed: `RemovedComponents` event *)
Lemma op_remove s e x k : srv_base s ->
  get_ent s e = Some x -> se_alive x = true ->
  let s1 := set_ent s e (mkSEnt true (se_marker x) (al_remove k (se_comps x))) in
  op_ok s (set_bufs s1 (sv_despawn_buf s1) (sv_removal_buf s1) (sv_removed_events s1 ++ [(e, k, 0)])).
Proof.
  intros Hb Hg Ha s1. set (x' := mkSEnt true (se_marker x) (al_remove k (se_comps x))).
  set (s' := set_bufs s1 (sv_despawn_buf s1) (sv_removal_buf s1) (sv_removed_events s1 ++ [(e, k, 0)])).
  assert (Hge : forall e0, get_ent s' e0 = if e0 =? e then Some x' else get_ent s e0)
    by (intros e0; apply get_ent_set_ent).
  assert (Hrg : forall e0, repl_get s' e0 = if e0 =? e then option_map (fun _ => x') (repl_get s e) else repl_get s e0).
  { intros e0. rewrite (repl_get_ext s1 s' e0 eq_refl). unfold s1. rewrite repl_get_set_ent.
    destruct (e0 =? e) eqn:E; [|reflexivity]. unfold repl_get. rewrite Hg, Ha. unfold has_marker. cbn [se_alive se_marker x'].
    destruct (se_marker x); reflexivity. }
  assert (Hli : forall e0 k0, rem_listed s' e0 k0 <-> rem_listed s e0 k0 \/ (e0 = e /\ k0 = k)).
  { intros e0 k0. unfold rem_listed, rem_event, rem_buffered. cbn [s' set_bufs sv_removal_buf sv_removed_events s1 set_ent].
    split.
    - intros [H | [a H]]; [left; left; exact H|]. apply in_app_or in H. destruct H as [H | [H | []]].
      + left. right. exists a. exact H.
      + right. injection H as -> -> _. auto.
    - intros [[H | [a H]] | [-> ->]]; [left; exact H| |].
      + right. exists a. apply in_or_app. left. exact H.
      + right. exists 0. apply in_or_app. right. left. reflexivity. }
  split; [constructor|intros _; split].
  - apply (set_ent_wf s e x'). exact (so_wf s Hb).
  - exact (so_novis s Hb).
  - exact (so_stamp s Hb).
  - intros e0 k0 y c Hl Hgy Hin. change (sv_last_run s < c_added c). rewrite Hge in Hgy.
    apply Hli in Hl. destruct (e0 =? e) eqn:E.
    + assert (e0 = e) by lia. subst e0. injection Hgy as <-. cbn [x' se_comps] in Hin.
      apply In_al_remove in Hin. destruct Hin as [Hin Hne].
      destruct Hl as [Hl | [_ ->]]; [|congruence]. exact (so_fresh s Hb e k0 x c Hl Hg Hin).
    + destruct Hl as [Hl | [-> _]]; [|lia]. exact (so_fresh s Hb e0 k0 y c Hl Hgy Hin).
  - exact (so_rb_nodup s Hb).
  - intros Hrb e0 H. change (al_get e0 (sv_removal_buf s) <> None) in H. specialize (Hrb e0 H).
    rewrite Hrg. destruct (e0 =? e) eqn:E; [|exact Hrb]. assert (e0 = e) by lia. subst e0.
    destruct (repl_get s e); [discriminate|congruence].
  - intros t st. apply pending_step.
    + reflexivity.
    + apply incl_refl.
    + intros e0. rewrite Hrg. destruct (e0 =? e) eqn:E; [|intros H; left; exact H].
      assert (e0 = e) by lia. subst e0. intros H. left. destruct (repl_get s e); [discriminate|reflexivity].
    + intros e0 x0. rewrite Hrg. destruct (e0 =? e) eqn:E.
      * assert (e0 = e) by lia. subst e0. destruct (repl_get s e) as [y|] eqn:Er; [|discriminate].
        cbn [option_map]. intros H _. injection H as <-. right. exists y.
        assert (y = x) by (apply repl_get_ent in Er; congruence). subst y.
        split; [reflexivity|]. split; [|split].
        -- intros k0 H1 H2. apply Hli. destruct (N.eq_dec k0 k) as [-> | Hne]; [right; auto|].
           exfalso. apply H2. cbn [x' se_comps]. apply keys_al_remove; assumption.
        -- intros k0 H1 _. apply Hli. left. exact H1.
        -- intros k0 c' Hin. right. exists c'. cbn [x' se_comps] in Hin. apply In_al_remove in Hin.
           split; [apply Hin|reflexivity].
      * intros H _. right. exists x0. split; [exact H|]. split; [|split].
        -- intros k0 H1 H2. contradiction.
        -- intros k0 H1 _. apply Hli. left. exact H1.
        -- intros k0 c' Hin. right. exists c'. split; [exact Hin|reflexivity].
Qed.

(* D: only a client record changes *)
Lemma op_update_client s cnew : srv_base s -> sc_vis cnew = None -> op_ok s (update_client s cnew).
Proof.
  intros Hb Hv. split; [|intros _; split].
  - apply (srv_base_ext s); try reflexivity; [|exact Hb].
    intros cl Hcl. unfold update_client, set_clients in Hcl. cbn [sv_clients] in Hcl.
    apply in_map_iff in Hcl. destruct Hcl as [c0 [Heq Hc0]].
    destruct (sc_slot c0 =? sc_slot cnew); [subst cl; exact Hv|]. subst cl. exact (so_novis s Hb c0 Hc0).
  - apply rb_repl_ext; reflexivity.
  - intros t st. apply pending_ok_ext; reflexivity.
Qed.

(* ================= 4. every game operation ================= *)

Lemma spawn_comps_stamp (ok : val -> bool) now comps : forall acc k c,
  (forall k c, In (k, c) acc -> c_added c = now) ->
  In (k, c) (fold_left (fun acc (kv : N * val) => if ok (snd kv) then kinsert (fst kv) (mkComp (snd kv) now now) acc else acc)
                       comps acc) -> c_added c = now.
Proof.
  induction comps as [|kv comps IH]; intros acc k c Hacc; cbn [fold_left]; [apply Hacc|].
  apply IH. destruct (ok (snd kv)); [|exact Hacc].
  intros k' c' Hin. apply In_kinsert in Hin. destruct Hin as [H | H]; [|exact (Hacc _ _ H)].
  injection H as _ ->. reflexivity.
Qed.

Lemma repl_get_marker s e x : repl_get s e = Some x -> se_alive x = true /\ has_marker x = true.
Proof.
  unfold repl_get. destruct (get_ent s e) as [y|]; [|discriminate].
  destruct (se_alive y && has_marker y) eqn:E; [|discriminate]. intros H. injection H as <-.
  apply andb_prop in E. exact E.
Qed.

Theorem apply_sop_ok s op : srv_base s -> op_ok s (apply_sop s op).
Proof.
  intros Hb.
  destruct op as [e marker comps|e|e k v|e k|e k v|e|e|slot e visible|slot e pc]; unfold apply_sop.
  - (* spawn *)
    destruct (get_ent s e) as [x|] eqn:Eg; [apply op_ok_refl; exact Hb|].
    apply op_set_ent; [exact Hb| | |].
    + intros x Hr. apply repl_get_ent in Hr. congruence.
    + intros _ x Hx. congruence.
    + intros k c' Hin. left. cbn [se_comps] in Hin. eapply spawn_comps_stamp; [|exact Hin]. intros k0 c0 [].
  - (* despawn *)
    destruct (get_ent s e) as [x|] eqn:Eg; [|apply op_ok_refl; exact Hb].
    destruct (se_alive x) eqn:Ea; [|apply op_ok_refl; exact Hb].
    destruct (se_marker x) as [m|] eqn:Em.
    + apply (op_drop s e x); [exact Hb|exact Eg|reflexivity|intros kc []].
    + apply op_set_ent; [exact Hb| | |].
      * intros y Hr. pose proof (repl_get_ent _ _ _ Hr) as Hy. assert (y = x) by congruence. subst y.
        apply repl_get_marker in Hr. unfold has_marker in Hr. rewrite Em in Hr. destruct Hr; discriminate.
      * cbn. discriminate.
      * intros k c' [].
  - (* insert *)
    destruct (get_ent s e) as [x|] eqn:Eg; [|apply op_ok_refl; exact Hb].
    destruct (se_alive x && val_ok s v) eqn:Ea; [|apply op_ok_refl; exact Hb].
    apply andb_prop in Ea. destruct Ea as [Ea _].
    apply op_set_ent; [exact Hb| | |].
    + intros y Hr. pose proof (repl_get_ent _ _ _ Hr) as Hy. assert (y = x) by congruence. subst y.
      apply repl_get_marker in Hr. unfold has_marker in *. cbn [se_alive se_marker]. apply Hr.
    + intros _ y Hy k0 Hk0. assert (y = x) by congruence. subst y. cbn [se_comps]. apply keys_kinsert. exact Hk0.
    + intros k0 c' Hin. cbn [se_comps] in Hin. apply In_kinsert in Hin. destruct Hin as [H | H].
      * injection H as -> ->. destruct (al_get k (se_comps x)) as [old|] eqn:Eo.
        -- right. exists x, old. split; [exact Eg|]. split; [apply al_get_In; exact Eo|reflexivity].
        -- left. reflexivity.
      * right. exists x, c'. auto.
  - (* remove *)
    destruct (get_ent s e) as [x|] eqn:Eg; [|apply op_ok_refl; exact Hb].
    destruct (se_alive x) eqn:Ea; [|apply op_ok_refl; exact Hb].
    destruct (al_get k (se_comps x)); [|apply op_ok_refl; exact Hb].
    apply (op_remove s e x k Hb Eg Ea).
  - (* mutate *)
    destruct (get_ent s e) as [x|] eqn:Eg; [|apply op_ok_refl; exact Hb].
    destruct (se_alive x && val_ok s v) eqn:Ea; [|apply op_ok_refl; exact Hb].
    apply andb_prop in Ea. destruct Ea as [Ea _].
    destruct (al_get k (se_comps x)) as [old|] eqn:Eo; [|apply op_ok_refl; exact Hb].
    apply op_set_ent; [exact Hb| | |].
    + intros y Hr. pose proof (repl_get_ent _ _ _ Hr) as Hy. assert (y = x) by congruence. subst y.
      apply repl_get_marker in Hr. unfold has_marker in *. cbn [se_alive se_marker]. apply Hr.
    + intros _ y Hy k0 Hk0. assert (y = x) by congruence. subst y. cbn [se_comps]. apply keys_kinsert. exact Hk0.
    + intros k0 c' Hin. cbn [se_comps] in Hin. apply In_kinsert in Hin. destruct Hin as [H | H].
      * injection H as -> ->. right. exists x, old. split; [exact Eg|]. split; [apply al_get_In; exact Eo|reflexivity].
      * right. exists x, c'. auto.
  - (* mark *)
    destruct (get_ent s e) as [x|] eqn:Eg; [|apply op_ok_refl; exact Hb].
    destruct (se_alive x) eqn:Ea; [|apply op_ok_refl; exact Hb].
    destruct (se_marker x) as [m|] eqn:Em; [apply op_ok_refl; exact Hb|].
    apply op_set_ent; [exact Hb| | |].
    + intros y Hr. reflexivity.
    + intros _ y Hy k0 Hk0. assert (y = x) by congruence. subst y. exact Hk0.
    + intros k0 c' Hin. right. exists x, c'. auto.
  - (* unmark *)
    destruct (get_ent s e) as [x|] eqn:Eg; [|apply op_ok_refl; exact Hb].
    destruct (se_alive x) eqn:Ea; [|apply op_ok_refl; exact Hb].
    destruct (se_marker x) as [m|] eqn:Em; [|apply op_ok_refl; exact Hb].
    apply (op_drop s e x); [exact Hb|exact Eg|reflexivity|auto].
  - (* visibility: no client has one *)
    destruct (find_client s slot) as [c0|] eqn:Ef; [|apply op_ok_refl; exact Hb].
    destruct (get_ent s e); [|apply op_ok_refl; exact Hb].
    unfold find_client in Ef. apply find_some in Ef. destruct Ef as [Hc0 _].
    rewrite (so_novis s Hb c0 Hc0). apply op_ok_refl; exact Hb.
  - (* pre-spawn mapping *)
    destruct (find_client s slot) as [c0|] eqn:Ef; [|apply op_ok_refl; exact Hb].
    destruct (get_ent s e); [|apply op_ok_refl; exact Hb].
    destruct (sc_authorized c0 && existsb _ (sv_premap s)); [|apply op_ok_refl; exact Hb].
    unfold find_client in Ef. apply find_some in Ef. destruct Ef as [Hc0 _].
    apply op_update_client; [exact Hb|]. cbn [sc_vis]. exact (so_novis s Hb c0 Hc0).
Qed.

(* THEOREM 1 *)
Theorem apply_sop_preserves_pending s op t st :
  srv_base s -> sv_running s = true -> pending_ok s t st -> pending_ok (apply_sop s op) t st.
Proof. intros Hb Hrun. exact (proj2 (proj2 (apply_sop_ok s op Hb) Hrun) t st). Qed.

Theorem apply_sop_preserves_srv_ok s op : srv_ok s -> sv_running s = true -> srv_ok (apply_sop s op).
Proof.
  intros [Hb Hrb] Hrun. destruct (apply_sop_ok s op Hb) as [Hb' H]. split; [exact Hb'|].
  exact (proj1 (H Hrun) Hrb).
Qed.

(* in any mode (also while the server is stopped) *)
Theorem apply_sop_preserves_base s op : srv_base s -> srv_base (apply_sop s op).
Proof. intros Hb. exact (proj1 (apply_sop_ok s op Hb)). Qed.

(* ================= 5. `buffer_removals` ================= *)

Lemma In_insert_sorted x l k : In k (insert_sorted x l) <-> k = x \/ In k l.
Proof.
  induction l as [|y t IH]; cbn [insert_sorted In]; [intuition|].
  destruct (x <=? y); cbn [In]; [intuition|]. rewrite IH. intuition.
Qed.

Lemma In_sort_N l k : In k (sort_N l) <-> In k l.
Proof.
  unfold sort_N. induction l as [|x t IH]; cbn [fold_right In]; [reflexivity|].
  rewrite In_insert_sorted, IH. intuition.
Qed.

Lemma mem_N_merge k new : forall old, mem_N k (merge_kinds old new) = mem_N k old || mem_N k new.
Proof.
  unfold merge_kinds. induction new as [|n new IH]; intros old; cbn [fold_left].
  - cbn. rewrite orb_false_r. reflexivity.
  - rewrite IH, mem_N_cons. destruct (mem_N n old) eqn:En.
    + destruct (k =? n) eqn:E; [|reflexivity]. assert (k = n) by lia. subst n. rewrite En. reflexivity.
    + rewrite mem_N_app, mem_N_cons. cbn [mem_N existsb]. rewrite orb_false_r, orb_assoc. reflexivity.
Qed.

Lemma removed_kinds_In evs e k : In k (removed_kinds evs e) <-> exists a, In (e, k, a) evs.
Proof.
  unfold removed_kinds. rewrite In_sort_N.
  assert (H : forall acc, In k (fold_left (fun acc (ev : N * N * N) => let '(e', k0, _) := ev in
                 if (e' =? e) && negb (mem_N k0 acc) then k0 :: acc else acc) evs acc)
              <-> In k acc \/ exists a, In (e, k, a) evs).
  { induction evs as [|[[e' k0] a0] evs IH]; intros acc; cbn [fold_left].
    - split; [auto|]. intros [H | [a []]]. exact H.
    - rewrite IH. split.
      + intros [H | [a H]]; [|right; exists a; right; exact H].
        destruct ((e' =? e) && negb (mem_N k0 acc)) eqn:E; [|left; exact H].
        destruct H as [H | H]; [|left; exact H]. apply andb_prop in E. destruct E as [E _].
        right. exists a0. left. assert (e' = e) by lia. subst e' k0. reflexivity.
      + intros [H | [a [H | H]]].
        * left. destruct ((e' =? e) && negb (mem_N k0 acc)); [right|]; exact H.
        * injection H as -> -> ->. left. rewrite N.eqb_refl. cbn [andb].
          destruct (mem_N k acc) eqn:Em; cbn [negb]; [apply mem_N_In; exact Em|left; reflexivity].
        * right. exists a. exact H. }
  rewrite H. cbn [In]. tauto.
Qed.

Lemma event_entities_In evs e : In e (event_entities evs) <-> exists k a, In (e, k, a) evs.
Proof.
  unfold event_entities.
  assert (H : forall acc, In e (fold_left (fun acc (ev : N * N * N) => let '(e0, _, _) := ev in
                 if mem_N e0 acc then acc else acc ++ [e0]) evs acc)
              <-> In e acc \/ exists k a, In (e, k, a) evs).
  { induction evs as [|[[e0 k0] a0] evs IH]; intros acc; cbn [fold_left].
    - split; [auto|]. intros [H | [k [a []]]]. exact H.
    - rewrite IH. split.
      + intros [H | [k [a H]]]; [|right; exists k, a; right; exact H].
        destruct (mem_N e0 acc); [left; exact H|]. apply in_app_or in H.
        destruct H as [H | [H | []]]; [left; exact H|]. subst e0. right. exists k0, a0. left. reflexivity.
      + intros [H | [k [a [H | H]]]].
        * left. destruct (mem_N e0 acc); [exact H|]. apply in_or_app. left. exact H.
        * injection H as -> -> ->. left. destruct (mem_N e acc) eqn:Em; [apply mem_N_In; exact Em|].
          apply in_or_app. right. left. reflexivity.
        * right. exists k, a. exact H. }
  rewrite H. cbn [In]. tauto.
Qed.

Lemma buffer_removals_eq s :
  buffer_removals s =
  set_bufs s (sv_despawn_buf s)
           (fold_left (bstep s (sv_removed_events s)) (event_entities (sv_removed_events s)) (sv_removal_buf s)) [].
Proof. reflexivity. Qed.

Section BStep.
Variables (s : server) (evs : list (N * N * N)).

Lemma bstep_spec rb e0 :
  ((repl_get s e0 = None \/ removed_kinds evs e0 = []) /\ bstep s evs rb e0 = rb) \/
  (repl_get s e0 <> None /\ removed_kinds evs e0 <> [] /\
   exists v, bstep s evs rb e0 = al_insert e0 v rb /\
             forall k, mem_N k v = mem_N k (kinds_of rb e0) || mem_N k (removed_kinds evs e0)).
Proof.
  unfold bstep, repl_get, has_marker. destruct (get_ent s e0) as [x|]; [|left; auto].
  destruct (se_alive x && match se_marker x with Some _ => true | None => false end); [|left; auto].
  destruct (removed_kinds evs e0) as [|k0 ks0] eqn:Ek; [left; auto|].
  right. split; [discriminate|]. split; [discriminate|]. unfold kinds_of.
  destruct (al_get e0 rb) as [old|].
  - eexists. split; [reflexivity|]. intros k. apply mem_N_merge.
  - eexists. split; [reflexivity|]. intros k. reflexivity.
Qed.

Lemma bstep_mono rb e0 e k : buffered_in rb e k -> buffered_in (bstep s evs rb e0) e k.
Proof.
  intros [ks [Hg Hk]]. destruct (bstep_spec rb e0) as [[_ ->] | [_ [_ [v [-> Hv]]]]]; [exists ks; auto|].
  unfold buffered_in. rewrite al_get_insert. destruct (e =? e0) eqn:E; [|exists ks; auto].
  assert (e = e0) by lia. subst e0. exists v. split; [reflexivity|]. rewrite Hv. unfold kinds_of. rewrite Hg, Hk. reflexivity.
Qed.

Lemma bstep_sound rb e0 e k : buffered_in (bstep s evs rb e0) e k ->
  buffered_in rb e k \/ (repl_get s e <> None /\ exists a, In (e, k, a) evs).
Proof.
  destruct (bstep_spec rb e0) as [[_ ->] | [Hr [_ [v [-> Hv]]]]]; [auto|].
  intros [ks [Hg Hk]]. rewrite al_get_insert in Hg. destruct (e =? e0) eqn:E; [|left; exists ks; auto].
  assert (e = e0) by lia. subst e0. injection Hg as <-. rewrite Hv in Hk. apply orb_prop in Hk.
  destruct Hk as [Hk | Hk].
  - left. unfold kinds_of in Hk. destruct (al_get e rb) as [old|] eqn:Eo; [|discriminate]. exists old. auto.
  - right. split; [exact Hr|]. apply removed_kinds_In. apply mem_N_In. exact Hk.
Qed.

Lemma bstep_establish rb e k : repl_get s e <> None -> (exists a, In (e, k, a) evs) ->
  buffered_in (bstep s evs rb e) e k.
Proof.
  intros Hr Hev. apply removed_kinds_In in Hev.
  destruct (bstep_spec rb e) as [[[H | H] _] | [_ [_ [v [-> Hv]]]]]; [contradiction|rewrite H in Hev; destruct Hev|].
  exists v. split; [apply al_get_insert_same|]. rewrite Hv. apply mem_N_In in Hev. rewrite Hev. apply orb_true_r.
Qed.

Lemma bstep_dom rb e0 e : al_get e (bstep s evs rb e0) <> None -> al_get e rb <> None \/ repl_get s e <> None.
Proof.
  destruct (bstep_spec rb e0) as [[_ ->] | [Hr [_ [v [-> Hv]]]]]; [auto|].
  rewrite al_get_insert. destruct (e =? e0) eqn:E; [|auto]. assert (e = e0) by lia. subst e0. auto.
Qed.

Lemma bstep_nodup rb e0 : NoDup (al_keys rb) -> NoDup (al_keys (bstep s evs rb e0)).
Proof.
  destruct (bstep_spec rb e0) as [[_ ->] | [_ [_ [v [-> _]]]]]; [auto|]. apply al_insert_nodup.
Qed.

Lemma bfold_mono l e k : forall rb, buffered_in rb e k -> buffered_in (fold_left (bstep s evs) l rb) e k.
Proof.
  apply (fold_left_inv (bstep s evs) (fun rb => buffered_in rb e k)). intros rb e0 _. apply bstep_mono.
Qed.

Lemma bfold_sound l e k : forall rb, buffered_in (fold_left (bstep s evs) l rb) e k ->
  buffered_in rb e k \/ (repl_get s e <> None /\ exists a, In (e, k, a) evs).
Proof.
  induction l as [|e0 l IH]; intros rb; cbn [fold_left]; [auto|].
  intros H. destruct (IH _ H) as [H' | H']; [|auto]. apply bstep_sound in H'. exact H'.
Qed.

Lemma bfold_establish l e k : In e l -> repl_get s e <> None -> (exists a, In (e, k, a) evs) ->
  forall rb, buffered_in (fold_left (bstep s evs) l rb) e k.
Proof.
  intros Hin Hr Hev. induction l as [|e0 l IH]; [destruct Hin|]. intros rb. cbn [fold_left].
  destruct (N.eq_dec e0 e) as [-> | Hne].
  - apply bfold_mono. apply bstep_establish; assumption.
  - apply IH. destruct Hin as [H | H]; [contradiction|exact H].
Qed.

Lemma bfold_dom l e : forall rb, al_get e (fold_left (bstep s evs) l rb) <> None ->
  al_get e rb <> None \/ repl_get s e <> None.
Proof.
  induction l as [|e0 l IH]; intros rb; cbn [fold_left]; [auto|].
  intros H. destruct (IH _ H) as [H' | H']; [|auto]. apply bstep_dom in H'. exact H'.
Qed.

Lemma bfold_nodup l : forall rb, NoDup (al_keys rb) -> NoDup (al_keys (fold_left (bstep s evs) l rb)).
Proof.
  apply (fold_left_inv (bstep s evs) (fun rb => NoDup (al_keys rb))). intros rb e0 _. apply bstep_nodup.
Qed.

End BStep.

(* THEOREM 2, `buffer_removals` *)
Theorem buffer_removals_ok s : srv_base s ->
  srv_base (buffer_removals s) /\ (rb_repl s -> rb_repl (buffer_removals s)) /\
  (forall t st, pending_ok s t st -> pending_ok (buffer_removals s) t st) /\
  sv_removed_events (buffer_removals s) = [].
Proof.
  intros Hb. rewrite buffer_removals_eq.
  set (evs := sv_removed_events s). set (l := event_entities evs).
  set (rb' := fold_left (bstep s evs) l (sv_removal_buf s)).
  set (s' := set_bufs s (sv_despawn_buf s) rb' []).
  assert (Hback : forall e k, rem_listed s' e k -> rem_listed s e k).
  { intros e k [H | [a []]]. change (buffered_in rb' e k) in H. apply bfold_sound in H.
    destruct H as [H | [_ H]]; [left; exact H|right; exact H]. }
  assert (Hfwd : forall e k, repl_get s e <> None -> rem_listed s e k -> rem_listed s' e k).
  { intros e k Hr [H | H]; left; change (buffered_in rb' e k).
    - apply bfold_mono. exact H.
    - apply bfold_establish; [|exact Hr|exact H]. apply event_entities_In. destruct H as [a H]. exists k, a. exact H. }
  split; [constructor|split; [|split]].
  - exact (so_wf s Hb).
  - exact (so_novis s Hb).
  - exact (so_stamp s Hb).
  - intros e k x c Hl Hg Hin. exact (so_fresh s Hb e k x c (Hback e k Hl) Hg Hin).
  - apply bfold_nodup. exact (so_rb_nodup s Hb).
  - intros Hrb e H. change (al_get e rb' <> None) in H. apply bfold_dom in H.
    change (repl_get s e <> None). destruct H as [H | H]; [apply Hrb; exact H|exact H].
  - intros t st. apply pending_step.
    + reflexivity.
    + apply incl_refl.
    + intros e H. left. exact H.
    + intros e x' H _. right. exists x'. change (repl_get s e = Some x') in H. split; [exact H|]. split; [|split].
      * intros k H1 H2. contradiction.
      * intros k H1 _. apply Hfwd; [rewrite H; discriminate|exact H1].
      * intros k c' Hin. right. exists c'. split; [exact Hin|reflexivity].
  - reflexivity.
Qed.

Corollary buffer_removals_preserves_pending s t st :
  srv_base s -> pending_ok s t st -> pending_ok (buffer_removals s) t st.
Proof. intros Hb. exact (proj1 (proj2 (proj2 (buffer_removals_ok s Hb))) t st). Qed.

(* ================= 6. stopped frames: `age_events`, `reset` ================= *)

Lemma age_events_In s e k a :
  In (e, k, a) (sv_removed_events (age_events s)) -> exists a0, In (e, k, a0) (sv_removed_events s).
Proof.
  unfold age_events. cbn [set_bufs sv_removed_events].
  induction (sv_removed_events s) as [|[[e0 k0] a0] evs IH]; cbn [fold_right]; [intros []|].
  destruct (a0 =? 0).
  - intros [H | H]; [injection H as -> -> _; exists a0; left; reflexivity|].
    destruct (IH H) as [a1 H1]. exists a1. right. exact H1.
  - intros H. destruct (IH H) as [a1 H1]. exists a1. right. exact H1.
Qed.

Lemma age_events_base s : srv_base s -> srv_base (age_events s).
Proof.
  intros Hb. constructor.
  - exact (so_wf s Hb).
  - exact (so_novis s Hb).
  - exact (so_stamp s Hb).
  - intros e k x c Hl Hg Hin. apply (so_fresh s Hb e k x c); [|exact Hg|exact Hin].
    destruct Hl as [H | [a H]]; [left; exact H|right]. apply age_events_In in H. exact H.
  - exact (so_rb_nodup s Hb).
Qed.

Lemma reset_ok s : srv_base s -> srv_ok (reset s).
Proof.
  intros Hb. split; [constructor|].
  - exact (so_wf s Hb).
  - intros cl [].
  - exact (so_stamp s Hb).
  - intros e k x c Hl Hg Hin. apply (so_fresh s Hb e k x c); [|exact Hg|exact Hin].
    destruct Hl as [[ks [H _]] | H]; [discriminate|right; exact H].
  - constructor.
  - intros e H. cbn in H. congruence.
Qed.

(* ================= 7. acknowledgements ================= *)

Lemma cl_same_refl cl : cl_same cl cl.
Proof. unfold cl_same. tauto. Qed.

Lemma cl_same_trans a b c : cl_same a b -> cl_same b c -> cl_same a c.
Proof.
  intros [A1 [A2 [A3 A4]]] [B1 [B2 [B3 B4]]]. unfold cl_same. repeat split; try congruence.
  - intros H. apply A4, B4, H.
  - intros H. apply B4, A4, H.
Qed.

Lemma ack_keeps_known t now idx e :
  mutation_tick (ack_mutate_message t now idx) e <> None <-> mutation_tick t e <> None.
Proof.
  destruct (ack_frame t now idx) as [_ [_ [Hk _]]]. unfold mutation_tick.
  rewrite !al_get_keys_In, Hk. reflexivity.
Qed.

Lemma ack_fold_keeps_known now idxs : forall t e,
  mutation_tick (fold_left (fun t i => ack_mutate_message t now i) idxs t) e <> None <-> mutation_tick t e <> None.
Proof.
  induction idxs as [|i idxs IH]; intros t e; cbn [fold_left]; [reflexivity|].
  rewrite IH. apply ack_keeps_known.
Qed.

Lemma Forall2_refl_map {A} (P : A -> A -> Prop) (f : A -> A) l : (forall a, P a (f a)) -> Forall2 P l (map f l).
Proof. intros H. induction l; cbn [map]; constructor; auto. Qed.

Lemma Forall2_trans {A} (P : A -> A -> Prop) : (forall a b c, P a b -> P b c -> P a c) ->
  forall l1 l2 l3, Forall2 P l1 l2 -> Forall2 P l2 l3 -> Forall2 P l1 l3.
Proof.
  intros Ht l1 l2 l3 H12. revert l3. induction H12; intros l3 H23; inversion H23; subst; constructor; eauto.
Qed.

Lemma Forall2_same {A} (P : A -> A -> Prop) l : (forall a, P a a) -> Forall2 P l l.
Proof. intros H. induction l; constructor; auto. Qed.

Lemma receive_acks_same s : Forall2 cl_same (sv_clients s) (sv_clients (receive_acks s)).
Proof.
  unfold receive_acks. cbn [sv_clients]. generalize (sv_clients s) as cls.
  induction (sv_inbox_acks s) as [|[slot idxs] msgs IH]; intros cls; cbn [fold_left].
  - apply Forall2_same. apply cl_same_refl.
  - eapply (Forall2_trans cl_same cl_same_trans); [|apply IH].
    apply Forall2_refl_map. intros cl.
    destruct ((sc_slot cl =? slot) && sc_authorized cl) eqn:E; [|apply cl_same_refl].
    apply andb_prop in E. destruct E as [_ Ea]. unfold cl_same. cbn [sc_slot sc_authorized sc_vis sc_ticks].
    repeat split; auto; apply ack_fold_keeps_known.
Qed.

Lemma cleanup_acks_same c s : Forall2 cl_same (sv_clients s) (sv_clients (cleanup_acks c s)).
Proof.
  unfold cleanup_acks, set_clients. cbn [sv_clients]. apply Forall2_refl_map. intros cl.
  unfold cl_same. cbn [sc_slot sc_authorized sc_vis sc_ticks]. repeat split; auto.
Qed.

Lemma nodup_slot_eq (l : list sclient) a b :
  NoDup (map sc_slot l) -> In a l -> In b l -> sc_slot a = sc_slot b -> a = b.
Proof.
  induction l as [|c l IH]; cbn [map]; intros Hnd Ha Hb Heq; [destruct Ha|].
  inversion Hnd as [|? ? Hni Hnd']; subst. destruct Ha as [-> | Ha]; destruct Hb as [-> | Hb].
  - reflexivity.
  - exfalso. apply Hni. rewrite Heq. apply in_map. exact Hb.
  - exfalso. apply Hni. rewrite <- Heq. apply in_map. exact Ha.
  - apply IH; assumption.
Qed.

Lemma cl_same_slots l l' : Forall2 cl_same l l' -> map sc_slot l' = map sc_slot l.
Proof. induction 1 as [|a b l l' H _ IH]; cbn [map]; [reflexivity|]. destruct H as [-> _]. rewrite IH. reflexivity. Qed.

Lemma update_client_same s c0 cnew : NoDup (map sc_slot (sv_clients s)) ->
  In c0 (sv_clients s) -> cl_same c0 cnew ->
  Forall2 cl_same (sv_clients s) (sv_clients (update_client s cnew)).
Proof.
  intros Hnd Hc0 Hs. unfold update_client, set_clients. cbn [sv_clients].
  assert (H : forall l, (forall cl, In cl l -> In cl (sv_clients s)) ->
            Forall2 cl_same l (map (fun c' => if sc_slot c' =? sc_slot cnew then cnew else c') l)).
  { induction l as [|cl l IH]; intros Hl; cbn [map]; constructor.
    - destruct (sc_slot cl =? sc_slot cnew) eqn:E; [|apply cl_same_refl].
      assert (cl = c0); [|subst cl; exact Hs].
      apply (nodup_slot_eq (sv_clients s)); [exact Hnd|apply Hl; left; reflexivity|exact Hc0|].
      destruct Hs as [S1 _]. lia.
    - apply IH. intros c1 H1. apply Hl. right. exact H1. }
  apply H. auto.
Qed.

Lemma apply_sop_same s op : no_vis s -> NoDup (map sc_slot (sv_clients s)) ->
  Forall2 cl_same (sv_clients s) (sv_clients (apply_sop s op)).
Proof.
  intros Hnv Hnd.
  assert (Hid : Forall2 cl_same (sv_clients s) (sv_clients s)) by (apply Forall2_same, cl_same_refl).
  destruct op as [e marker comps|e|e k v|e k|e k v|e|e|slot e visible|slot e pc]; unfold apply_sop.
  - destruct (get_ent s e); exact Hid.
  - destruct (get_ent s e) as [x|]; [|exact Hid]. destruct (se_alive x); [|exact Hid].
    destruct (se_marker x); [rewrite sv_clients_buffer_despawn|]; exact Hid.
  - destruct (get_ent s e) as [x|]; [|exact Hid]. destruct (se_alive x && val_ok s v); exact Hid.
  - destruct (get_ent s e) as [x|]; [|exact Hid]. destruct (se_alive x); [|exact Hid].
    destruct (al_get k (se_comps x)); exact Hid.
  - destruct (get_ent s e) as [x|]; [|exact Hid]. destruct (se_alive x && val_ok s v); [|exact Hid].
    destruct (al_get k (se_comps x)); exact Hid.
  - destruct (get_ent s e) as [x|]; [|exact Hid]. destruct (se_alive x); [|exact Hid].
    destruct (se_marker x); exact Hid.
  - destruct (get_ent s e) as [x|]; [|exact Hid]. destruct (se_alive x); [|exact Hid].
    destruct (se_marker x); [rewrite sv_clients_buffer_despawn|]; exact Hid.
  - destruct (find_client s slot) as [c0|] eqn:Ef; [|exact Hid]. destruct (get_ent s e); [|exact Hid].
    unfold find_client in Ef. apply find_some in Ef. destruct Ef as [Hc0 _].
    rewrite (Hnv c0 Hc0). exact Hid.
  - destruct (find_client s slot) as [c0|] eqn:Ef; [|exact Hid]. destruct (get_ent s e); [|exact Hid].
    destruct (sc_authorized c0 && existsb _ (sv_premap s)) eqn:Ec; [|exact Hid].
    apply andb_prop in Ec. destruct Ec as [Ha _].
    unfold find_client in Ef. apply find_some in Ef. destruct Ef as [Hc0 _].
    apply (update_client_same s c0); [exact Hnd|exact Hc0|].
    unfold cl_same. cbn [sc_slot sc_authorized sc_vis sc_ticks]. repeat split; auto.
Qed.
