(* C03, server half: the update messages are the structural diffs of the server world between
   consecutive ticks (policy PAll).  Definitions: Repl/StructSpec.v. *)
From RV Require Import Lib.Res Repl.ClientTicks Repl.ClientTicks_proofs Repl.World Vis.Visibility
  Tick.RepliconTick Repl.Server Repl.ServerSpec Repl.Server_proofs Repl.StructSpec.
From Coq Require Import ZifyBool ZifyN.
Open Scope N_scope.
Ltac Zify.zify_post_hook ::= Z.div_mod_to_equations.
Arguments N.add : simpl never. Arguments N.mul : simpl never. Arguments N.pow : simpl never.
Arguments N.ltb : simpl never. Arguments N.leb : simpl never. Arguments N.div : simpl never.
Arguments N.modulo : simpl never. Arguments N.sub : simpl never. Arguments N.eqb : simpl never.

(* ================= 0. small facts ================= *)

Lemma mem_N_In k l : mem_N k l = true <-> In k l.
Proof.
  unfold mem_N. rewrite existsb_exists. split.
  - intros [x [Hx E]]. assert (k = x) by lia. subst x. exact Hx.
  - intros H. exists k. split; [exact H|apply N.eqb_refl].
Qed.

Lemma mem_N_false k l : mem_N k l = false <-> ~ In k l.
Proof.
  rewrite <- mem_N_In. destruct (mem_N k l); split; intros H; congruence.
Qed.

Lemma mem_N_cons k a l : mem_N k (a :: l) = (k =? a) || mem_N k l.
Proof. reflexivity. Qed.

Lemma mem_N_app k a b : mem_N k (a ++ b) = mem_N k a || mem_N k b.
Proof. unfold mem_N. apply existsb_app. Qed.

Lemma mem_N_filter (p : N -> bool) k l : mem_N k (filter p l) = mem_N k l && p k.
Proof.
  induction l as [|a l IH]; cbn [filter]; [reflexivity|].
  destruct (p a) eqn:Ep; rewrite ?mem_N_cons, IH.
  - destruct (k =? a) eqn:E; cbn [orb]; [|reflexivity].
    assert (k = a) by lia. subst a. rewrite Ep. destruct (mem_N k l); reflexivity.
  - destruct (k =? a) eqn:E; cbn [orb]; [|reflexivity].
    assert (k = a) by lia. subst a. rewrite Ep. destruct (mem_N k l); reflexivity.
Qed.

Lemma mem_N_kinds_remove k ks old : mem_N k (kinds_remove ks old) = mem_N k old && negb (mem_N k ks).
Proof. unfold kinds_remove. apply mem_N_filter. Qed.

Lemma al_get_insert {V} k k' (v : V) l :
  al_get k' (al_insert k v l) = if k' =? k then Some v else al_get k' l.
Proof.
  destruct (k' =? k) eqn:E.
  - assert (k' = k) by lia. subst. apply al_get_insert_same.
  - apply al_get_insert_other. lia.
Qed.

Lemma al_get_remove {V} k k' (l : list (N * V)) :
  al_get k' (al_remove k l) = if k' =? k then None else al_get k' l.
Proof.
  destruct (k' =? k) eqn:E.
  - assert (k' = k) by lia. subst. apply al_get_remove_same.
  - apply al_get_remove_other. lia.
Qed.

Lemma al_get_keys_In {V} k (l : list (N * V)) : al_get k l <> None <-> In k (al_keys l).
Proof.
  rewrite <- al_get_some_keys. destruct (al_get k l) as [v|]; split.
  - intros _. exists v. reflexivity.
  - discriminate.
  - congruence.
  - intros [v H]. discriminate.
Qed.

(* ---------- replicated entities as a function ---------- *)

Lemma repl_get_spec s e x : ents_wf s ->
  (repl_get s e = Some x <-> exists madd, In (e, x, madd) (replicated_ents s)).
Proof.
  intros Hwf. unfold repl_get, has_marker. split.
  - destruct (get_ent s e) as [y|] eqn:Eg; [|discriminate].
    destruct (se_alive y) eqn:Ea; [|discriminate]. destruct (se_marker y) as [madd|] eqn:Em; [|discriminate].
    cbn [andb]. intros H. injection H as <-. exists madd. apply replicated_ents_In.
    split; [apply al_get_In; exact Eg|]. split; assumption.
  - intros [madd Hin]. destruct (replicated_ents_get _ _ _ _ Hwf Hin) as [Hg [Hm Ha]].
    rewrite Hg, Ha, Hm. reflexivity.
Qed.

Lemma repl_get_none s e : ents_wf s -> repl_get s e = None -> ~ In e (map ent_id (replicated_ents s)).
Proof.
  intros Hwf Hn Hin. apply in_map_iff in Hin. destruct Hin as [[[e' x] madd] [He Hin]].
  cbn in He. subst e'. assert (H : repl_get s e = Some x) by (apply repl_get_spec; [exact Hwf|eauto]).
  congruence.
Qed.

Lemma repl_get_ent s e x : repl_get s e = Some x -> get_ent s e = Some x.
Proof.
  unfold repl_get. destruct (get_ent s e) as [y|]; [|discriminate].
  destruct (se_alive y && has_marker y); [|discriminate]. auto.
Qed.

Lemma struct_of_keys s : al_keys (struct_of s) = map ent_id (replicated_ents s).
Proof. unfold struct_of, al_keys. rewrite map_map. reflexivity. Qed.

Lemma al_get_struct_of s e : ents_wf s ->
  al_get e (struct_of s) = option_map (fun x => map fst (se_comps x)) (repl_get s e).
Proof.
  intros Hwf. destruct (repl_get s e) as [x|] eqn:Er; cbn [option_map].
  - apply (repl_get_spec s e x Hwf) in Er. destruct Er as [madd Hin].
    apply In_al_get_nodup.
    + rewrite struct_of_keys. apply replicated_ents_nodup. exact Hwf.
    + unfold struct_of. apply in_map_iff. exists (e, x, madd). split; [reflexivity|exact Hin].
  - apply al_get_none_keys. rewrite struct_of_keys. apply repl_get_none; assumption.
Qed.

(* ================= 1. the abstract effect, entity by entity ================= *)

Lemma despawn_fold_get D : forall st e,
  al_get e (fold_left abs_despawn D st) = if mem_N e D then None else al_get e st.
Proof.
  induction D as [|d D IH]; intros st e; cbn [fold_left]; [reflexivity|].
  rewrite IH, mem_N_cons. unfold abs_despawn. rewrite al_get_remove.
  destruct (e =? d); cbn [orb]; [destruct (mem_N e D); reflexivity|reflexivity].
Qed.

Lemma kinds_of_upd {A} (upd : A -> list N -> list N) st r e :
  kinds_of (abs_upd upd st r) e = if e =? fst r then upd (snd r) (kinds_of st (fst r)) else kinds_of st e.
Proof. unfold kinds_of at 1, abs_upd. rewrite al_get_insert. destruct (e =? fst r); reflexivity. Qed.

Lemma upd_fold_get {A} (upd : A -> list N -> list N) (h : N -> A -> bool -> bool) :
  (forall k a old, mem_N k (upd a old) = h k a (mem_N k old)) ->
  forall l st e,
  match al_get e (fold_left (abs_upd upd) l st) with
  | Some ks' => (In e (map fst l) \/ al_get e st <> None) /\
                forall k, mem_N k ks' = fold_left (fun b r => if fst r =? e then h k (snd r) b else b) l (mem_N k (kinds_of st e))
  | None => ~ In e (map fst l) /\ al_get e st = None
  end.
Proof.
  intros Hh l. induction l as [|r l IH]; intros st e; cbn [fold_left map].
  - destruct (al_get e st) as [ks|] eqn:E.
    + split; [right; discriminate|]. intros k. unfold kinds_of. rewrite E. reflexivity.
    + split; [intros []|reflexivity].
  - specialize (IH (abs_upd upd st r) e).
    assert (Hget : al_get e (abs_upd upd st r) = if e =? fst r then Some (upd (snd r) (kinds_of st (fst r))) else al_get e st)
      by (unfold abs_upd; apply al_get_insert).
    destruct (al_get e (fold_left (abs_upd upd) l (abs_upd upd st r))) as [ks'|].
    + destruct IH as [Hdom Hk]. split.
      * destruct Hdom as [H | H]; [left; right; exact H|].
        destruct (e =? fst r) eqn:E; [left; left; lia|]. right. rewrite Hget in H. exact H.
      * intros k. rewrite Hk. f_equal. rewrite kinds_of_upd, (N.eqb_sym (fst r) e).
        destruct (e =? fst r) eqn:E; [|reflexivity]. assert (e = fst r) by lia. subst e. apply Hh.
    + destruct IH as [Hni Hn]. rewrite Hget in Hn. destruct (e =? fst r) eqn:E; [discriminate|].
      split; [|exact Hn]. intros [H | H]; [lia|contradiction].
Qed.

Lemma fold_and_not {A} (f : A -> bool) (g : A -> bool) l : forall b0,
  fold_left (fun b r => if f r then b && negb (g r) else b) l b0 = b0 && negb (existsb (fun r => f r && g r) l).
Proof.
  induction l as [|r l IH]; intros b0; cbn [fold_left existsb]; [rewrite andb_true_r; reflexivity|].
  rewrite IH. destruct (f r), (g r), b0; cbn; try reflexivity; destruct (existsb _ l); reflexivity.
Qed.

Lemma fold_or {A} (f : A -> bool) (g : A -> bool) l : forall b0,
  fold_left (fun b r => if f r then b || g r else b) l b0 = b0 || existsb (fun r => f r && g r) l.
Proof.
  induction l as [|r l IH]; intros b0; cbn [fold_left existsb]; [rewrite orb_false_r; reflexivity|].
  rewrite IH. destruct (f r), (g r), b0; cbn; reflexivity.
Qed.

Lemma removal_fold_get l st e :
  match al_get e (fold_left abs_removal l st) with
  | Some ks' => (In e (map fst l) \/ al_get e st <> None) /\
                forall k, mem_N k ks' = mem_N k (kinds_of st e) && negb (existsb (fun r => (fst r =? e) && mem_N k (snd r)) l)
  | None => ~ In e (map fst l) /\ al_get e st = None
  end.
Proof.
  pose proof (upd_fold_get kinds_remove (fun k a b => b && negb (mem_N k a))
                (fun k a old => mem_N_kinds_remove k a old) l st e) as H.
  change (abs_upd kinds_remove) with abs_removal in H.
  destruct (al_get e (fold_left abs_removal l st)) as [ks'|]; [|exact H].
  destruct H as [Hd Hk]. split; [exact Hd|]. intros k. rewrite Hk.
  apply (fold_and_not (fun r : N * list N => fst r =? e) (fun r => mem_N k (snd r))).
Qed.

Lemma change_fold_get l st e :
  match al_get e (fold_left abs_change l st) with
  | Some ks' => (In e (map fst l) \/ al_get e st <> None) /\
                forall k, mem_N k ks' = mem_N k (kinds_of st e) || existsb (fun c => (fst c =? e) && mem_N k (map fst (snd c))) l
  | None => ~ In e (map fst l) /\ al_get e st = None
  end.
Proof.
  pose proof (upd_fold_get (fun (a : list (N * val)) old => old ++ map fst a) (fun k a b => b || mem_N k (map fst a))
                (fun k a old => mem_N_app k old (map fst a)) l st e) as H.
  change (abs_upd (fun (a : list (N * val)) old => old ++ map fst a)) with abs_change in H.
  destruct (al_get e (fold_left abs_change l st)) as [ks'|]; [|exact H].
  destruct H as [Hd Hk]. split; [exact Hd|]. intros k. rewrite Hk.
  apply (fold_or (fun c : N * list (N * val) => fst c =? e) (fun c => mem_N k (map fst (snd c)))).
Qed.

Lemma abs_apply_empty st u : update_is_empty u = true -> abs_apply st u = st.
Proof.
  unfold update_is_empty, abs_apply.
  destruct (u_maps u); [|discriminate]. destruct (u_despawns u); [|discriminate].
  destruct (u_removals u); [|discriminate]. destruct (u_changes u); [|discriminate]. reflexivity.
Qed.

(* ================= 2. send_for_client without a ClientVisibility ================= *)

Lemma collect_despawns_novis buf t :
  collect_despawns buf t None = (buf, fold_left remove_entity buf t, None).
Proof.
  unfold collect_despawns. cbn [fold_left].
  assert (H : forall des t0,
    fold_left (fun (acc : list N * client_ticks * option vis) e =>
                 let '(des, t, vo) := acc in
                 match vo with
                 | Some vv => (if is_visible vv e then des ++ [e] else des, remove_entity t e, Some (remove_despawned vv e))
                 | None => (des ++ [e], remove_entity t e, None)
                 end) buf (des, t0, None)
    = (des ++ buf, fold_left remove_entity buf t0, None)).
  { induction buf as [|e buf IH]; intros des t0; cbn [fold_left]; [rewrite app_nil_r; reflexivity|].
    rewrite IH, <- app_assoc. reflexivity. }
  apply (H [] t).
Qed.

Lemma remove_fold_tick D : forall t e,
  mutation_tick (fold_left remove_entity D t) e = if mem_N e D then None else mutation_tick t e.
Proof.
  induction D as [|d D IH]; intros t e; cbn [fold_left]; [reflexivity|].
  rewrite IH, mem_N_cons, remove_get_mutation_tick.
  destruct (e =? d); cbn [orb]; [destruct (mem_N e D); reflexivity|reflexivity].
Qed.

Section NoVis.
Variables (s : server) (cl : sclient) (run : N).
Hypothesis Hvis : sc_vis cl = None.

Lemma nv_despawns : sfc_despawns s cl = sv_despawn_buf s.
Proof. unfold sfc_despawns. rewrite Hvis, collect_despawns_novis. reflexivity. Qed.

Lemma nv_ticks1 : sfc_ticks1 s cl = fold_left remove_entity (sv_despawn_buf s) (sc_ticks cl).
Proof. unfold sfc_ticks1. rewrite Hvis, collect_despawns_novis. reflexivity. Qed.

Lemma nv_vis1 : sfc_vis1 s cl = None.
Proof. unfold sfc_vis1. rewrite Hvis, collect_despawns_novis. reflexivity. Qed.

Lemma nv_removals : sfc_removals s cl = sort_by_key (sv_removal_buf s).
Proof.
  unfold sfc_removals, collect_removals. rewrite nv_vis1. f_equal. apply filter_all. reflexivity.
Qed.

Lemma nv_mt1 e :
  mutation_tick (sfc_ticks1 s cl) e = if mem_N e (sv_despawn_buf s) then None else mutation_tick (sc_ticks cl) e.
Proof. rewrite nv_ticks1. apply remove_fold_tick. Qed.

Lemma nv_ecs : ents_wf s ->
  sfc_ecs s run cl = map (fun exm => (ent_id exm, nv_ec s cl exm)) (replicated_ents s).
Proof. intros Hwf. rewrite (sfc_ecs_nodup s run cl Hwf). rewrite nv_vis1. reflexivity. Qed.

Lemma nv_changed_in e en : ents_wf s ->
  (In (e, en) (changed_set s run cl) <->
   exists x madd, In (e, x, madd) (replicated_ents s) /\ ec_entry (nv_ec s cl (e, x, madd)) = Some en).
Proof.
  intros Hwf. rewrite changed_set_eq, In_entries_of, (nv_ecs Hwf). split.
  - intros [ec [Hin Hen]]. apply in_map_iff in Hin. destruct Hin as [[[e' x] madd] [Heq Hin]].
    cbn [ent_id fst] in Heq. injection Heq as -> <-. exists x, madd. split; assumption.
  - intros [x [madd [Hin Hen]]]. exists (nv_ec s cl (e, x, madd)). split; [|exact Hen].
    apply in_map_iff. exists (e, x, madd). split; [reflexivity|exact Hin].
Qed.

Lemma nv_changed_keys e : In e (map fst (changed_set s run cl)) -> In e (map ent_id (replicated_ents s)).
Proof.
  rewrite changed_set_eq. intros H. apply entries_of_keys_incl in H. rewrite sfc_ecs_ids in H. exact H.
Qed.

End NoVis.

(* ---------- collect_entity for a visible entity ---------- *)

Lemma comp_is_ins_fresh last_run ma st mt k c :
  last_run < c_added c -> comp_is_ins last_run ma st mt (k, c) = true.
Proof.
  intros H. unfold comp_is_ins, incremental. cbn [snd]. destruct mt as [t|]; [|reflexivity].
  replace (last_run <? c_added c) with true by lia. cbn [negb]. rewrite andb_false_r. reflexivity.
Qed.

Lemma cep_ins_entry last_run tick rb mt e x madd k c :
  In (k, c) (se_comps x) -> comp_is_ins last_run (last_run <? madd) VVisible mt (k, c) = true ->
  exists en, ec_entry (cep last_run tick rb mt VVisible e x madd) = Some en /\ In k (map fst en).
Proof.
  intros Hin Hins. unfold cep. cbn [is_hidden].
  set (ins := map val_of (filter (comp_is_ins last_run (last_run <? madd) VVisible mt) (se_comps x))).
  set (muts := map val_of (filter (comp_is_mut last_run tick (last_run <? madd) VVisible mt) (se_comps x))).
  assert (Hk : In (k, c_val c) ins).
  { unfold ins. apply in_map_iff. exists (k, c). split; [reflexivity|]. apply filter_In. split; assumption. }
  destruct ins as [|y ins'] eqn:Ei; [destruct Hk|].
  rewrite orb_true_r. cbn [orb app ec_entry]. eexists. split; [reflexivity|].
  change (In k (map fst ((y :: ins') ++ muts))). rewrite map_app. apply in_or_app. left.
  apply (in_map fst) in Hk. exact Hk.
Qed.

Lemma cep_entry_kinds last_run tick rb mt st e x madd en k :
  ec_entry (cep last_run tick rb mt st e x madd) = Some en -> In k (map fst en) -> In k (map fst (se_comps x)).
Proof.
  intros Hen Hk. apply cep_entry_sound in Hen. destruct Hen as [_ [_ [_ Hs]]].
  apply in_map_iff in Hk. destruct Hk as [[k' v] [Heq Hin]]. cbn in Heq. subst k'.
  destruct (Hs k v Hin) as [comp [Hc _]]. apply (in_map fst) in Hc. exact Hc.
Qed.

Lemma cep_entry_bump last_run tick rb mt st e x madd en :
  ec_entry (cep last_run tick rb mt st e x madd) = Some en -> ec_bump (cep last_run tick rb mt st e x madd) = true.
Proof. intros Hen. apply cep_entry_sound in Hen. tauto. Qed.

Lemma all_comps_keys x : map fst (all_comps x) = map fst (se_comps x).
Proof. unfold all_comps. rewrite map_map. reflexivity. Qed.

(* ================= 3. a tick sends the structural diff ================= *)

Lemma exists_changes (l : list (N * list (N * val))) e k :
  existsb (fun c => (fst c =? e) && mem_N k (map fst (snd c))) l = true <->
  exists en, In (e, en) l /\ In k (map fst en).
Proof.
  rewrite existsb_exists. split.
  - intros [[e' en] [Hin H]]. cbn [fst snd] in H. apply andb_prop in H. destruct H as [He Hk].
    assert (e' = e) by lia. subst e'. exists en. split; [exact Hin|apply mem_N_In; exact Hk].
  - intros [en [Hin Hk]]. exists (e, en). split; [exact Hin|]. cbn [fst snd]. rewrite N.eqb_refl.
    apply mem_N_In in Hk. rewrite Hk. reflexivity.
Qed.

Lemma exists_removals (l : list (N * list N)) e k :
  existsb (fun r => (fst r =? e) && mem_N k (snd r)) l = true <-> exists ks, In (e, ks) l /\ mem_N k ks = true.
Proof.
  rewrite existsb_exists. split.
  - intros [[e' ks] [Hin H]]. cbn [fst snd] in H. apply andb_prop in H. destruct H as [He Hk].
    assert (e' = e) by lia. subst e'. exists ks. split; assumption.
  - intros [ks [Hin Hk]]. exists (e, ks). split; [exact Hin|]. cbn [fst snd]. rewrite N.eqb_refl, Hk. reflexivity.
Qed.

Lemma rem_buffered_sorted s e k : NoDup (al_keys (sv_removal_buf s)) ->
  (existsb (fun r => (fst r =? e) && mem_N k (snd r)) (sort_by_key (sv_removal_buf s)) = true <-> rem_buffered s e k).
Proof.
  intros Hnd. rewrite exists_removals. unfold rem_buffered. split.
  - intros [ks [Hin Hk]]. exists ks. split; [|exact Hk]. apply In_al_get_nodup; [exact Hnd|].
    apply In_sort_by_key. exact Hin.
  - intros [ks [Hg Hk]]. exists ks. split; [|exact Hk]. apply In_sort_by_key. apply al_get_In. exact Hg.
Qed.

Lemma repl_ents_unique s e x madd x' madd' : ents_wf s ->
  In (e, x, madd) (replicated_ents s) -> In (e, x', madd') (replicated_ents s) -> x' = x /\ madd' = madd.
Proof.
  intros Hwf H1 H2. destruct (replicated_ents_get _ _ _ _ Hwf H1) as [G1 [M1 _]].
  destruct (replicated_ents_get _ _ _ _ Hwf H2) as [G2 [M2 _]].
  assert (x' = x) by congruence. subst x'. split; [reflexivity|congruence].
Qed.

Lemma nv_changed_entry s cl run e x madd en : sc_vis cl = None -> ents_wf s ->
  In (e, x, madd) (replicated_ents s) ->
  (In (e, en) (changed_set s run cl) <-> ec_entry (nv_ec s cl (e, x, madd)) = Some en).
Proof.
  intros Hvis Hwf Hin. rewrite (nv_changed_in s cl run Hvis e en Hwf). split.
  - intros [x' [madd' [Hin' Hen]]]. destruct (repl_ents_unique _ _ _ _ _ _ Hwf Hin Hin') as [-> ->]. exact Hen.
  - intros Hen. exists x, madd. split; assumption.
Qed.

Lemma kinds_equiv_iff a b : (forall k, mem_N k a = true <-> In k b) -> kinds_equiv a b.
Proof.
  intros H k. destruct (mem_N k b) eqn:Eb.
  - apply H. apply mem_N_In. exact Eb.
  - destruct (mem_N k a) eqn:Ea; [|reflexivity]. apply H in Ea. apply mem_N_In in Ea. congruence.
Qed.

Section Tick.
Variables (s : server) (cl : sclient) (run : N) (st : structure).
Hypothesis Hok : srv_ok s.
Hypothesis Hev : sv_removed_events s = [].
Hypothesis Hvis : sc_vis cl = None.
Hypothesis Hp : pending_ok s (sc_ticks cl) st.

Let Hwf : ents_wf s := so_wf s (proj1 Hok).

(* the mutation tick `collect_changes` sees *)
Lemma tick_mt1_none e : mem_N e (sv_despawn_buf s) = true \/ al_get e st = None ->
  mutation_tick (sfc_ticks1 s cl) e = None.
Proof.
  intros H. rewrite (nv_mt1 s cl Hvis). destruct (mem_N e (sv_despawn_buf s)) eqn:Ed; [reflexivity|].
  destruct H as [H | H]; [discriminate|].
  destruct (mutation_tick (sc_ticks cl) e) eqn:Em; [|reflexivity].
  exfalso. apply (proj1 (pk_known _ _ _ Hp e)); [rewrite Em; discriminate|exact H].
Qed.

Lemma tick_fresh_entry e x madd : In (e, x, madd) (replicated_ents s) ->
  mutation_tick (sfc_ticks1 s cl) e = None ->
  nv_ec s cl (e, x, madd) = mkEC (Some (all_comps x)) [] true.
Proof.
  intros Hin Hmt. unfold nv_ec. cbn [ent_id fst snd]. apply cep_full; [discriminate|left; exact Hmt].
Qed.

Theorem tick_struct : struct_equiv (abs_apply st (sfc_upd s run cl)) (struct_of s).
Proof.
  intros e. rewrite (al_get_struct_of s e Hwf).
  unfold abs_apply, sfc_upd. cbn [u_despawns u_removals u_changes].
  rewrite (nv_despawns s cl Hvis), (nv_removals s cl Hvis).
  set (D := sv_despawn_buf s). set (R := sort_by_key (sv_removal_buf s)).
  set (S1 := fold_left abs_despawn D st). set (S2 := fold_left abs_removal R S1).
  set (CH := changed_set s run cl).
  pose proof (change_fold_get CH S2 e) as HC.
  pose proof (removal_fold_get R S1 e) as HR.
  assert (H1 : al_get e S1 = if mem_N e D then None else al_get e st) by apply despawn_fold_get.
  pose proof Hok as [Hb Hrb]. destruct Hb as [_ Hnv Hstamp Hfr Hnd].
  destruct (repl_get s e) as [x|] eqn:Er; cbn [option_map].
  - (* replicated *)
    destruct (proj1 (repl_get_spec s e x Hwf) Er) as [madd Hin].
    assert (Hchg : forall k, existsb (fun c => (fst c =? e) && mem_N k (map fst (snd c))) CH = true <->
                             exists en, ec_entry (nv_ec s cl (e, x, madd)) = Some en /\ In k (map fst en)).
    { intros k. rewrite exists_changes. split; intros [en [H Hk]]; exists en; (split; [|exact Hk]);
        apply (nv_changed_entry s cl run e x madd en Hvis Hwf Hin); exact H. }
    assert (Hrm : forall k, existsb (fun r => (fst r =? e) && mem_N k (snd r)) R = true <-> rem_buffered s e k)
      by (intros k; apply rem_buffered_sorted; exact Hnd).
    assert (HS1 : forall k, mem_N k (kinds_of S1 e) = if mem_N e D then false else mem_N k (kinds_of st e)).
    { intros k. unfold kinds_of at 1. rewrite H1. destruct (mem_N e D); reflexivity. }
    assert (HS2 : forall k, mem_N k (kinds_of S2 e) =
                            mem_N k (kinds_of S1 e) && negb (existsb (fun r => (fst r =? e) && mem_N k (snd r)) R)).
    { intros k. unfold kinds_of at 1. fold S2 in HR. destruct (al_get e S2) as [ks2|].
      - apply HR.
      - destruct HR as [_ HR]. unfold kinds_of. rewrite HR. reflexivity. }
    (* the entry of a fresh entity *)
    assert (Hfresh : mem_N e D = true \/ al_get e st = None ->
                     ec_entry (nv_ec s cl (e, x, madd)) = Some (all_comps x)).
    { intros H. rewrite (tick_fresh_entry e x madd Hin (tick_mt1_none e H)). reflexivity. }
    (* the entity is present afterwards *)
    assert (Hpres : al_get e (fold_left abs_change CH S2) <> None).
    { fold S2 in HR. destruct (al_get e (fold_left abs_change CH S2)); [discriminate|].
      destruct HC as [HC1 HC2]. destruct (mem_N e D) eqn:Ed.
      - exfalso. apply HC1.
        assert (HinC : In (e, all_comps x) CH)
          by (apply (nv_changed_entry s cl run e x madd _ Hvis Hwf Hin); apply Hfresh; left; reflexivity).
        apply (in_map fst) in HinC. exact HinC.
      - destruct (al_get e st) as [ks|] eqn:Es.
        + exfalso. destruct (al_get e S2); [discriminate|]. destruct HR as [_ HR]. congruence.
        + exfalso. apply HC1.
          assert (HinC : In (e, all_comps x) CH)
            by (apply (nv_changed_entry s cl run e x madd _ Hvis Hwf Hin); apply Hfresh; right; reflexivity).
          apply (in_map fst) in HinC. exact HinC. }
    destruct (al_get e (fold_left abs_change CH S2)) as [ks3|]; [|congruence].
    destruct HC as [_ HC]. apply kinds_equiv_iff. intros k. rewrite HC, HS2, HS1. split.
    + (* sound *)
      intros H. apply orb_prop in H. destruct H as [H | H].
      * apply andb_prop in H. destruct H as [Hk Hnr].
        destruct (mem_N e D) eqn:Ed; [discriminate|].
        unfold kinds_of in Hk. destruct (al_get e st) as [ks|] eqn:Es; [|discriminate].
        destruct (in_dec N.eq_dec k (map fst (se_comps x))) as [Hi | Hni]; [exact Hi|exfalso].
        assert (Hl : rem_listed s e k).
        { apply (pk_lost _ _ _ Hp e ks x Es Er); [|exact Hk|exact Hni].
          intros HD. apply mem_N_In in HD. fold D in HD. congruence. }
        destruct Hl as [Hl | [a Ha]]; [|rewrite Hev in Ha; destruct Ha].
        apply Hrm in Hl. rewrite Hl in Hnr. discriminate.
      * apply Hchg in H. destruct H as [en [Hen Hk]]. eapply cep_entry_kinds; eassumption.
    + (* complete *)
      intros Hk. apply in_map_iff in Hk. destruct Hk as [[k' c] [Heq Hkc]]. cbn in Heq. subst k'.
      assert (Hins : sv_last_run s < c_added c ->
                     existsb (fun c0 => (fst c0 =? e) && mem_N k (map fst (snd c0))) CH = true).
      { intros Hlt. apply Hchg. unfold nv_ec. cbn [ent_id fst snd].
        eapply cep_ins_entry; [exact Hkc|apply comp_is_ins_fresh; exact Hlt]. }
      destruct (mem_N e D) eqn:Ed.
      { apply orb_true_intro. right. apply Hchg. exists (all_comps x). split; [apply Hfresh; left; reflexivity|].
        rewrite all_comps_keys. apply (in_map fst) in Hkc. exact Hkc. }
      destruct (al_get e st) as [ks|] eqn:Es.
      2:{ apply orb_true_intro. right. apply Hchg. exists (all_comps x). split; [apply Hfresh; right; reflexivity|].
          rewrite all_comps_keys. apply (in_map fst) in Hkc. exact Hkc. }
      unfold kinds_of. rewrite Es.
      destruct (mem_N k ks) eqn:Eks.
      * destruct (existsb (fun r => (fst r =? e) && mem_N k (snd r)) R) eqn:Erm; [|reflexivity].
        cbn [andb negb orb]. apply Hins. apply Hrm in Erm.
        apply (Hfr e k x c); [left; exact Erm|apply repl_get_ent; exact Er|exact Hkc].
      * cbn [andb orb]. apply Hins. apply (pk_new _ _ _ Hp e ks x Es Er) with (k := k); [|exact Hkc|exact Eks].
        intros HD. apply mem_N_In in HD. fold D in HD. congruence.
  - (* not replicated *)
    assert (Hnc : ~ In e (map fst CH)).
    { intros H. apply (nv_changed_keys s cl run) in H. exact (repl_get_none s e Hwf Er H). }
    assert (Hnr : ~ In e (map fst R)).
    { intros H. apply in_map_iff in H. destruct H as [[e' ks] [Heq Hin]]. cbn in Heq. subst e'.
      unfold R in Hin. apply (proj1 (In_sort_by_key _ _)) in Hin. apply (Hrb e); [|exact Er].
      apply al_get_keys_In. apply (in_map fst) in Hin. exact Hin. }
    assert (HS1 : al_get e S1 = None).
    { rewrite H1. destruct (mem_N e D) eqn:Ed; [reflexivity|].
      destruct (al_get e st) as [ks|] eqn:Es; [|reflexivity]. exfalso.
      assert (HD : In e (sv_despawn_buf s)) by (apply (pk_gone _ _ _ Hp e); [rewrite Es; discriminate|exact Er]).
      apply mem_N_In in HD. fold D in HD. congruence. }
    assert (HS2 : al_get e S2 = None).
    { fold S2 in HR. destruct (al_get e S2); [|reflexivity]. destruct HR as [[H | H] _]; contradiction. }
    destruct (al_get e (fold_left abs_change CH S2)); [|exact I].
    destruct HC as [[H | H] _]; contradiction.
Qed.

(* ... also when the message is empty and therefore not sent *)
Corollary tick_struct_send :
  struct_equiv (abs_send st (if sfc_has_upd s run cl then Some (sfc_upd s run cl) else None)) (struct_of s).
Proof.
  unfold sfc_has_upd. destruct (update_is_empty (sfc_upd s run cl)) eqn:E; cbn [negb abs_send].
  - rewrite <- (abs_apply_empty st _ E). exact tick_struct.
  - exact tick_struct.
Qed.

(* the bookkeeping after the tick knows exactly the replicated entities *)
Lemma tick_known e :
  mutation_tick (sfc_ticks2 s run cl) e <> None <-> repl_get s e <> None.
Proof.
  destruct (sfc_ticks2_fields s run cl) as [_ [_ [_ H]]]. rewrite H. clear H.
  rewrite (nv_ecs s cl run Hvis Hwf).
  destruct (repl_get s e) as [x|] eqn:Er.
  - split; [discriminate|intros _].
    destruct (proj1 (repl_get_spec s e x Hwf) Er) as [madd Hin].
    match goal with |- (if ?b then _ else _) <> _ => destruct b eqn:Eb end; [discriminate|].
    destruct (mutation_tick (sfc_ticks1 s cl) e) eqn:Em; [discriminate|]. exfalso.
    assert (Hex : existsb (fun eec : N * ent_changes => (fst eec =? e) && ec_bump (snd eec))
                    (map (fun exm => (ent_id exm, nv_ec s cl exm)) (replicated_ents s)) = true).
    { apply existsb_exists. exists (e, nv_ec s cl (e, x, madd)). split.
      - apply in_map_iff. exists (e, x, madd). split; [reflexivity|exact Hin].
      - cbn [fst snd]. rewrite N.eqb_refl, (tick_fresh_entry e x madd Hin Em). reflexivity. }
    congruence.
  - match goal with |- (if ?b then _ else _) <> _ <-> _ => destruct b eqn:Eb end.
    + exfalso. apply existsb_exists in Eb. destruct Eb as [[e' ec] [Hin He]]. cbn [fst snd] in He.
      apply andb_prop in He. destruct He as [He _]. assert (e' = e) by lia. subst e'.
      apply (in_map fst) in Hin. rewrite map_map in Hin. cbn [fst] in Hin.
      exact (repl_get_none s e Hwf Er Hin).
    + rewrite (nv_mt1 s cl Hvis). destruct (mem_N e (sv_despawn_buf s)) eqn:Ed; [tauto|].
      split; [|congruence]. intros Hm. exfalso.
      assert (HD : In e (sv_despawn_buf s)).
      { apply (pk_gone _ _ _ Hp e); [|exact Er]. apply (pk_known _ _ _ Hp e). exact Hm. }
      apply mem_N_In in HD. congruence.
Qed.

End Tick.

Lemma repl_get_ext s s' e : sv_ents s' = sv_ents s -> repl_get s' e = repl_get s e.
Proof. intros H. unfold repl_get, get_ent. rewrite H. reflexivity. Qed.

Lemma struct_of_ext s s' : sv_ents s' = sv_ents s -> struct_of s' = struct_of s.
Proof. intros H. unfold struct_of, replicated_ents. rewrite H. reflexivity. Qed.

(* a structure equal to the replicated one needs no explanation by the buffers *)
Lemma pending_ok_synced s t : ents_wf s ->
  (forall e, mutation_tick t e <> None <-> repl_get s e <> None) -> pending_ok s t (struct_of s).
Proof.
  intros Hwf Hk. constructor.
  - intros e. rewrite Hk, (al_get_struct_of s e Hwf). destruct (repl_get s e); cbn; split; congruence.
  - intros e H Hn. rewrite (al_get_struct_of s e Hwf), Hn in H. cbn in H. congruence.
  - intros e ks x Hs Hr _ k Hm Hni. rewrite (al_get_struct_of s e Hwf), Hr in Hs. cbn in Hs.
    injection Hs as <-. apply mem_N_In in Hm. contradiction.
  - intros e ks x Hs Hr _ k c Hin Hm. rewrite (al_get_struct_of s e Hwf), Hr in Hs. cbn in Hs.
    injection Hs as <-. apply mem_N_false in Hm. exfalso. apply Hm. apply (in_map fst) in Hin. exact Hin.
Qed.

Lemma srv_ok_after_send s cls run : srv_ok s -> sv_removed_events s = [] ->
  (forall cl, In cl cls -> sc_vis cl = None) -> srv_ok (set_after_send s cls run).
Proof.
  intros [Hb _] Hev Hcls. split; [constructor|].
  - exact (so_wf s Hb).
  - exact Hcls.
  - cbn. lia.
  - intros e k x c [[ks [H _]] | [a H]]; cbn in H; [discriminate|]. rewrite Hev in H. destruct H.
  - constructor.
  - intros e H. cbn in H. congruence.
Qed.

(* THEOREM 3 *)
Theorem tick_sends_diff c s run cl p cl' out st cls :
  srv_ok s -> sv_removed_events s = [] -> sc_vis cl = None ->
  pending_ok s (sc_ticks cl) st ->
  send_for_client c s run cl p = Ok (cl', out) ->
  struct_equiv (abs_send st (co_update out)) (struct_of s) /\
  pending_ok (set_after_send s cls run) (sc_ticks cl') (struct_of s) /\
  sc_vis cl' = None /\ sc_slot cl' = sc_slot cl /\ sc_authorized cl' = true /\ co_slot out = sc_slot cl.
Proof.
  intros Hok Hev Hvis Hp H. apply sfc_result in H. destruct H as [-> ->].
  cbn [co_update sc_ticks sc_vis sc_slot sc_authorized co_slot].
  split; [apply tick_struct_send; assumption|]. split; [|rewrite (nv_vis1 s cl Hvis); auto].
  rewrite <- (struct_of_ext s (set_after_send s cls run)) by reflexivity.
  apply pending_ok_synced; [exact (so_wf s (proj1 Hok))|].
  intros e. rewrite (repl_get_ext s (set_after_send s cls run)) by reflexivity.
  rewrite <- (tick_known s cl run st Hok Hvis Hp e).
  destruct (mut_ticks_fields run (sv_elapsed s) (sfc_parts c s run cl p) (sfc_ticks3 s run cl)) as [M1 _].
  destruct (sfc_ticks3_fields s run cl) as [M2 _].
  unfold mutation_tick. rewrite M1, M2. reflexivity.
Qed.

(* ---------- the boolean test used by the examples is sound ---------- *)

Lemma kinds_eqb_sound a b : kinds_eqb a b = true -> kinds_equiv a b.
Proof.
  unfold kinds_eqb. intros H. apply andb_prop in H. destruct H as [H1 H2].
  rewrite forallb_forall in H1, H2. apply kinds_equiv_iff. intros k. split.
  - intros Hk. apply mem_N_In. apply H1. apply mem_N_In. exact Hk.
  - intros Hk. apply H2. exact Hk.
Qed.

Lemma struct_eqb_sound a b : struct_eqb a b = true -> struct_equiv a b.
Proof.
  unfold struct_eqb. intros H. apply andb_prop in H. destruct H as [H1 H2].
  rewrite forallb_forall in H1, H2. intros e.
  destruct (al_get e a) as [ka|] eqn:Ea.
  - specialize (H1 (e, ka) (al_get_In _ _ _ Ea)). cbn [fst] in H1.
    destruct (al_get e b) as [kb|]; [|discriminate]. unfold kinds_of in H1. rewrite Ea in H1.
    apply kinds_eqb_sound. exact H1.
  - destruct (al_get e b) as [kb|] eqn:Eb; [|exact I].
    specialize (H2 (e, kb) (al_get_In _ _ _ Eb)). cbn [fst] in H2. rewrite Ea in H2. discriminate.
Qed.

Lemma all_synced_sound g : all_synced g = true ->
  forall cl, In cl (sv_clients (g_srv g)) -> sc_authorized cl = true ->
    struct_equiv (sent_of (sc_slot cl) (g_sent g)) (struct_of (g_srv g)).
Proof.
  unfold all_synced. intros H cl Hin Ha. rewrite forallb_forall in H. specialize (H cl Hin).
  rewrite Ha in H. cbn [negb orb] in H. apply struct_eqb_sound. exact H.
Qed.
