(* C09F, over whole-system runs: the frame of a CONNECTED client in a session (mode MLive, Repl/StructE2ESess_proofs.v)
   does not panic, in every state `run (sys_init cfg n) script` reaches for scripts within the premises of
   C03F / C12E (`script_okf`, `parts_small`, fewer than 2^31 tick frames).

   (a) the tracker: `m_inv` (Repl/MtRun_proofs.v) says that the tracker is the replay of the applied messages and
       that applied ++ buffered ++ inbox ++ queue ++ lost is a permutation of what the server sent in this session;
       what the next frame applies is part of buffered ++ inbox, so the calls still follow the sender's protocol of
       Layer 0 and `mt_confirm` succeeds (`mt_refines_from_default`).
   (b) the confirm histories: a NEW invariant [np_inv] on top of `f_inv` (Repl/StructE2ESess_proofs.v): for a live
       connected client there is a watermark W (the value of `cl_next` at the last reset) such that the entity map only
       points at client entities >= W and every history of such an entity has a last tick t with
         t <= tick_frames script,  t "used" by the server (the next tick it sends with is larger),
         t < the tick of every update message in the inbox or in the queue;
       and the client's update tick is used and below every pending tick, or the entity map is empty (only then can a
       mutate message be applied whose update tick is that of a pending update message: replication at tick 0).
       The steps: an update message of the inbox is newer than every history (FIFO, strictly increasing ticks:
       `cd_incr` of `f_inv`); a mutate message the frame applies was produced before every update message still
       queued (`mmsg_ok` + the gate `m_upd_tick <= cl_upd_tick`); a message the server produces has a tick that is
       not used yet. *)
From Coq Require Import Permutation.
From RV Require Import Lib.Res Repl.ClientTicks Repl.ClientTicks_proofs Repl.World Vis.Visibility Repl.Server Repl.ServerSpec
  Repl.Client Repl.Sys Tick.RepliconTick Tick.RepliconTick_proofs Tick.ConfirmHistory Tick.MutateTicks Tick.MutateTicks_proofs Tick.TickSpec
  Repl.Client_proofs Repl.ClientEnt_proofs Repl.ClientMut_proofs Repl.ClientSys_proofs Repl.ClientStructSpec Repl.ClientStruct_proofs
  Repl.ClientHist_proofs Repl.Session_proofs Repl.StructSpec Repl.StructVisSpec Repl.StructVisRun_proofs
  Repl.StructE2E_proofs Repl.StructE2EMut_proofs Repl.StructE2EVis_proofs Repl.StructE2ESess_proofs
  Repl.MtRunSpec Repl.MtRunCli_proofs Repl.MtRun_proofs Repl.MtRunThm_proofs Repl.SessRun_proofs Repl.NoPanicCli_proofs.
From Coq Require Import ZifyBool ZifyN.
Open Scope N_scope.
Ltac Zify.zify_post_hook ::= Z.div_mod_to_equations.
Arguments N.add : simpl never. Arguments N.mul : simpl never. Arguments N.pow : simpl never.
Arguments N.ltb : simpl never. Arguments N.leb : simpl never. Arguments N.div : simpl never.
Arguments N.modulo : simpl never. Arguments N.sub : simpl never. Arguments N.eqb : simpl never.

(* ================================================================== *)
(* 1. the tracker of a live slot                                      *)
(* ================================================================== *)

Lemma protocol_sub sent l rest : srv_proto true sent -> Permutation sent (l ++ rest) -> sender_protocol (zcalls l).
Proof.
  intros Hp Hperm t cnt Hin. unfold zcalls in Hin. apply in_map_iff in Hin. destruct Hin as [m [E Hm]]. inversion E; subst t cnt. clear E.
  assert (Hsub : forall m0, In m0 l -> In m0 sent).
  { intros m0 H0. apply (Permutation_in m0 (Permutation_sym Hperm)). apply in_or_app. left. exact H0. }
  destruct (Hp m (Hsub m Hm)) as (Q1 & Q2 & Q3). split; [exact Q1|]. split; [exact Q2|]. split.
  - intros c' Hin'. unfold zcalls in Hin'. apply in_map_iff in Hin'. destruct Hin' as [m' [E' Hm']]. inversion E' as [[Et Ec]].
    assert (Ett : m_tick m' = m_tick m) by lia. destruct (Hp m' (Hsub m' Hm')) as (_ & _ & Q3'). rewrite Q3', Ett, Q3. reflexivity.
  - rewrite calls_for_zcalls, Q3. pose proof (count_tick_perm (m_tick m) _ _ Hperm) as Hc. rewrite count_tick_app in Hc. lia.
Qed.

Lemma frame_applied_sub c : exists kept, Permutation (cl_buffered c ++ cl_inbox_mut c) (frame_applied c ++ kept).
Proof.
  unfold frame_applied. destruct (fold_left (res_step apply_update_message) (cl_inbox_upd c) (Ok c)) as [c1| |] eqn:E1;
    [|exists (cl_buffered c ++ cl_inbox_mut c); apply Permutation_refl|exists (cl_buffered c ++ cl_inbox_mut c); apply Permutation_refl].
  cbv zeta. set (cm := merge_mut_inbox c1).
  destruct (inbox_fold_same_buf_mt (cl_inbox_upd c) c c1 E1) as (B1 & B2 & _).
  exists (filter (gated (cl_upd_tick cm)) (cl_buffered cm)).
  assert (Hp : Permutation (cl_buffered c ++ cl_inbox_mut c) (cl_buffered cm)).
  { cbn [cm merge_mut_inbox clear_inboxes set_buffered cl_buffered]. rewrite B1, B2.
    eapply Permutation_trans; [apply Permutation_app_comm|]. apply fold_buffer_insert_perm. }
  eapply Permutation_trans; [exact Hp|]. apply filter_split_perm.
Qed.

Theorem tracker_live cfg0 script y G slot c :
  m_inv cfg0 script y G -> tick_frames script < 2 ^ 31 ->
  al_get slot (y_clients y) = Some c -> mode_of script slot = MLive -> cl_status c = Connected ->
  forall m0, cl_mticks c = Some m0 -> mt_confirm_all m0 (ncalls (frame_applied c)) <> Panic.
Proof.
  intros Hinv Hb Hc Hmode Hconn m0 Em0.
  destruct (mi_slots _ _ _ _ Hinv slot c Hc) as (A1 & _ & _ & A4). rewrite Hmode in A4. cbn [mode_ok] in A4.
  destruct A4 as [(B1 & _)|(_ & _ & _ & L)]; [congruence|]. unfold live_ok in L.
  unfold replay_ok in A1. rewrite Em0 in A1. destruct A1 as (Htr & bs & Erep & _).
  destruct (frame_applied_sub c) as [kept Hk]. set (fa := frame_applied c) in *.
  set (rest := kept ++ l_mut (get_link y slot) ++ mg_lost (G slot)).
  assert (Hperm : Permutation (mg_sent (G slot)) ((mg_appl (G slot) ++ fa) ++ rest)).
  { eapply Permutation_trans; [exact L|]. rewrite <- app_assoc. apply Permutation_app_head. unfold rest.
    rewrite (app_assoc (cl_buffered c)), (app_assoc fa). apply Permutation_app_tail. exact Hk. }
  pose proof (mi_proto _ _ _ _ Hinv slot) as Hproto. rewrite Htr in Hproto.
  pose proof (protocol_sub _ _ _ Hproto Hperm) as Hsp.
  assert (Hsmall : forall m, In m (mg_appl (G slot) ++ fa) -> m_tick m < 2 ^ 31).
  { intros m Hm. assert (Hs : In m (mg_sent (G slot))).
    { apply (Permutation_in m (Permutation_sym Hperm)). apply in_or_app. left. exact Hm. }
    pose proof (mi_before _ _ _ _ Hinv slot m Hs) as Hbf. pose proof (mi_tick _ _ _ _ Hinv) as Ht.
    destruct (sv_dirty (y_server y)); lia. }
  assert (Hok : mcalls_ok 0 mlog_empty (zcalls (mg_appl (G slot) ++ fa))).
  { apply mcalls_ok_from_protocol; [exact Hsp|]. apply (appl_half_range cfg0 script Hb); [exact Hsmall|rewrite Zpow31; lia]. }
  destruct (mt_refines_from_default _ Hok) as (m' & E' & _).
  rewrite (wrap_zcalls cfg0 script Hb _ Hsmall), ncalls_app, mt_confirm_all_app, Erep in E'. cbn [bind] in E'.
  intros Hp. rewrite Hp in E'. discriminate.
Qed.

(* ================================================================== *)
(* 2. the invariant on the histories                                  *)
(* ================================================================== *)

Definition used (s : server) (t : N) : Prop := if sv_dirty s then t < sv_tick s else t <= sv_tick s.
Definition psi (TB : N) (s : server) (t : N) : Prop := t <= TB /\ used s t.

Definition np_conn (TB : N) (s : server) (lupd : list update_msg) (c : client) : Prop :=
  (exists W, cli W (fun t => psi TB s t /\ below (cl_inbox_upd c ++ lupd) t) c) /\
  ((used s (cl_upd_tick c) /\ below (cl_inbox_upd c ++ lupd) (cl_upd_tick c)) \/ cl_s2c c = []).

Definition np_inv (script : list step) (y : sys) : Prop :=
  forall slot c, al_get slot (y_clients y) = Some c -> mode_of script slot = MLive -> cl_status c = Connected ->
    np_conn (tick_frames script) (y_server y) (l_upd (get_link y slot)) c.

Lemma np_conn_keep TB TB' s s' lupd lupd' c c' :
  np_conn TB s lupd c -> TB <= TB' -> (forall t, used s t -> used s' t) ->
  (forall t, used s t -> below (cl_inbox_upd c ++ lupd) t -> below (cl_inbox_upd c' ++ lupd') t) ->
  cl_s2c c' = cl_s2c c -> cl_ents c' = cl_ents c -> cl_next c' = cl_next c -> cl_upd_tick c' = cl_upd_tick c ->
  np_conn TB' s' lupd' c'.
Proof.
  intros [[W Hw] Hd] Hle Hu Hb E1 E2 E3 E4. split.
  - exists W. apply (cli_ext W _ c c' E1 E2 E3). revert Hw. apply cli_mono. intros t [[P1 P2] P3].
    split; [split; [lia|exact (Hu t P2)]|exact (Hb t P2 P3)].
  - rewrite E1, E4. destruct Hd as [[D1 D2]|D]; [left; split; [exact (Hu _ D1)|exact (Hb _ D1 D2)]|right; exact D].
Qed.

Lemma below_incl (A B : list update_msg) t : (forall u, In u B -> In u A) -> below A t -> below B t.
Proof. intros H HA u Hu. apply HA. apply H. exact Hu. Qed.

Lemma deliver_mutates_repl p : forall cl,
  cl_status (fold_left deliver_mutate p cl) = cl_status cl /\ cl_s2c (fold_left deliver_mutate p cl) = cl_s2c cl /\
  cl_ents (fold_left deliver_mutate p cl) = cl_ents cl /\ cl_next (fold_left deliver_mutate p cl) = cl_next cl /\
  cl_upd_tick (fold_left deliver_mutate p cl) = cl_upd_tick cl /\ cl_inbox_upd (fold_left deliver_mutate p cl) = cl_inbox_upd cl.
Proof.
  induction p as [|m t IH]; intros cl; cbn [fold_left]; [auto 10|].
  destruct (IH (deliver_mutate cl m)) as (A & B & C & D & E & F). rewrite A, B, C, D, E, F.
  unfold deliver_mutate. destruct (cl_status cl) eqn:Es; cbn; rewrite ?Es; auto 10.
Qed.

Lemma deliver_updates_in p : forall cl u, In u (cl_inbox_upd (fold_left deliver_update p cl)) -> In u (cl_inbox_upd cl) \/ In u p.
Proof.
  induction p as [|a t IH]; intros cl u H; cbn [fold_left] in H; [left; exact H|].
  destruct (IH _ _ H) as [H1|H1]; [|right; right; exact H1].
  unfold deliver_update in H1. destruct (cl_status cl); [left; exact H1|]. cbn in H1. apply in_app_or in H1.
  destruct H1 as [H1|[<-|[]]]; [left; exact H1|right; left; reflexivity].
Qed.

Section NPRun.
  Variables (cfg0 : cfg) (nclients : N).

  (* steps that keep the modes, the ticks, and the parts of the clients the invariant reads, and do not add
     update messages to inbox ++ queue *)
  Lemma np_same script st y y' :
    np_inv script y ->
    (forall slot m, mode_step slot m st = m) -> is_tick_frame st = false ->
    (forall t, used (y_server y) t -> used (y_server y') t) ->
    (forall slot c', al_get slot (y_clients y') = Some c' -> cl_status c' = Connected ->
       exists c, al_get slot (y_clients y) = Some c /\ cl_status c = Connected /\
         (forall u, In u (cl_inbox_upd c' ++ l_upd (get_link y' slot)) -> In u (cl_inbox_upd c ++ l_upd (get_link y slot))) /\
         cl_s2c c' = cl_s2c c /\ cl_ents c' = cl_ents c /\ cl_next c' = cl_next c /\ cl_upd_tick c' = cl_upd_tick c) ->
    np_inv (script ++ [st]) y'.
  Proof.
    intros Hinv Hmode Hnt Hu Hcl slot c' Hc' Hm Hconn. rewrite mode_of_snoc, Hmode in Hm.
    destruct (Hcl slot c' Hc' Hconn) as (c & Hc & Hs & Hb & E1 & E2 & E3 & E4).
    rewrite tick_frames_snoc, Hnt.
    exact (np_conn_keep _ _ _ _ _ _ _ _ (Hinv slot c Hc Hm Hs) (N.le_refl _) Hu (fun t _ => below_incl _ _ t Hb) E1 E2 E3 E4).
  Qed.

  Lemma np_start script y : np_inv script y -> np_inv (script ++ [StStart]) (set_server y (set_running (y_server y) true)).
  Proof.
    intros Hinv. apply (np_same script StStart y); try reflexivity; [exact Hinv|intros t H; exact H|].
    intros slot c' Hc' Hs. exists c'. auto 10.
  Qed.

  Lemma np_stop script (y' : sys) : np_inv (script ++ [StStop]) y'.
  Proof.
    intros slot c _ Hm _. rewrite mode_of_snoc in Hm. cbn [mode_step] in Hm. destruct (mode_of script slot); discriminate.
  Qed.

  Lemma authorize_flags c s slot : sv_tick (authorize_client c s slot) = sv_tick s /\ sv_dirty (authorize_client c s slot) = sv_dirty s.
  Proof. unfold authorize_client. destruct (find_client s slot) as [cl|]; [|auto]. destruct (sc_authorized cl); auto. Qed.

  Lemma connect_flags c s slot max : sv_tick (connect_client c s slot max) = sv_tick s /\ sv_dirty (connect_client c s slot max) = sv_dirty s.
  Proof. unfold connect_client. destruct (sv_running s); [|auto]. destruct (find_client s slot); auto. Qed.

  Lemma used_flags s s' t : sv_tick s' = sv_tick s -> sv_dirty s' = sv_dirty s -> used s t -> used s' t.
  Proof. unfold used. intros -> ->. auto. Qed.

  Lemma np_authorize script y slot0 : np_inv script y ->
    np_inv (script ++ [StAuthorize slot0]) (set_server y (authorize_client (y_cfg y) (y_server y) slot0)).
  Proof.
    intros Hinv. apply (np_same script (StAuthorize slot0) y); try reflexivity; [exact Hinv| |].
    - intros t. destruct (authorize_flags (y_cfg y) (y_server y) slot0) as [A B]. apply used_flags; assumption.
    - intros slot c' Hc' Hs. exists c'. auto 10.
  Qed.

  Lemma np_disconnect script y slot0 y' o : np_inv script y -> sys_step y (StDisconnect slot0) = Ok (y', o) ->
    np_inv (script ++ [StDisconnect slot0]) y'.
  Proof.
    intros Hinv H slot c' Hc' Hm Hconn. rewrite mode_disconnect in Hm. destruct (slot0 =? slot) eqn:E.
    { destruct (mode_of script slot); discriminate. }
    assert (Hne : slot <> slot0) by lia. rewrite tick_frames_snoc. cbn [is_tick_frame].
    cbn [sys_step] in H. destruct (al_get slot0 (y_clients y)) as [cl|] eqn:Ec; inversion H; subst y' o; clear H.
    - cbn [clear_link set_link set_client set_server y_clients] in Hc'.
      rewrite al_get_insert_other in Hc' by exact Hne.
      unfold clear_link. rewrite get_link_set_link_other by exact Hne.
      change (get_link (set_client ?a ?b ?c) slot) with (get_link a slot). change (get_link (set_server ?a ?b) slot) with (get_link a slot).
      cbn [set_link set_client set_server y_server].
      refine (np_conn_keep _ _ _ _ _ _ _ _ (Hinv slot c' Hc' Hm Hconn) (N.le_refl _) _ (fun t _ H => H) eq_refl eq_refl eq_refl eq_refl).
      intros t. apply used_flags; reflexivity.
    - exact (Hinv slot c' Hc' Hm Hconn).
  Qed.

  (* a state that differs from [y] in one link and one re-inserted client *)
  Lemma np_link script st y slot0 cl cl' lu lm la :
    np_inv script y -> (forall slot m, mode_step slot m st = m) -> is_tick_frame st = false ->
    al_get slot0 (y_clients y) = Some cl ->
    (forall u, In u (cl_inbox_upd cl' ++ lu) -> In u (cl_inbox_upd cl ++ l_upd (get_link y slot0))) ->
    cl_status cl' = cl_status cl -> cl_s2c cl' = cl_s2c cl -> cl_ents cl' = cl_ents cl -> cl_next cl' = cl_next cl ->
    cl_upd_tick cl' = cl_upd_tick cl ->
    np_inv (script ++ [st]) (set_client (set_link y slot0 (mkLink lu lm la)) slot0 cl').
  Proof.
    intros Hinv Hmode Hnt Ec Hin Es E1 E2 E3 E4. apply (np_same script st y); try assumption; [intros t H; exact H|].
    intros slot c' Hc' Hs. cbn [set_client y_clients set_link] in Hc'.
    change (get_link (set_client ?a ?b ?c) slot) with (get_link a slot).
    destruct (N.eq_dec slot slot0) as [->|Hne].
    - rewrite al_get_insert_same in Hc'. inversion Hc'; subst c'. exists cl. rewrite get_link_set_link_same. cbn [l_upd].
      split; [exact Ec|]. split; [congruence|]. auto 10.
    - rewrite al_get_insert_other in Hc' by exact Hne. exists c'. rewrite get_link_set_link_other by exact Hne. auto 10.
  Qed.

  Lemma np_transport script st y y' o : transport_step st = true -> np_inv script y -> sys_step y st = Ok (y', o) ->
    np_inv (script ++ [st]) y'.
  Proof.
    intros Ht Hinv H.
    assert (Hnt : is_tick_frame st = false) by (destruct st; try discriminate; reflexivity).
    assert (Hmode : forall slot m, mode_step slot m st = m) by (intros slot m; destruct st; try discriminate; reflexivity).
    assert (Hnoop : np_inv (script ++ [st]) y).
    { apply (np_same script st y); try assumption; [intros t H0; exact H0|]. intros slot c' Hc' Hs. exists c'. auto 10. }
    assert (Hacks : forall slot0 s' la, sv_tick s' = sv_tick (y_server y) -> sv_dirty s' = sv_dirty (y_server y) ->
              np_inv (script ++ [st]) (set_server (set_link y slot0 (mkLink (l_upd (get_link y slot0)) (l_mut (get_link y slot0)) la)) s')).
    { intros slot0 s' la X1 X2. apply (np_same script st y); try assumption; [intros t; apply used_flags; assumption|].
      intros slot c' Hc' Hs. exists c'. change (get_link (set_server ?a ?b) slot) with (get_link a slot).
      split; [exact Hc'|]. split; [exact Hs|]. split; [|auto].
      destruct (N.eq_dec slot slot0) as [->|Hne]; [rewrite get_link_set_link_same|rewrite get_link_set_link_other by exact Hne]; auto. }
    destruct st as [| | | | | | |slot0 s2c ch w|slot0 s2c ch w]; try discriminate; cbn [sys_step] in H.
    - destruct (al_get slot0 (y_clients y)) as [cl|] eqn:Ec; [|inversion H; subst y' o; exact Hnoop].
      destruct s2c.
      + destruct (ch =? 0).
        * destruct (take w (l_upd (get_link y slot0))) as [picked rest] eqn:Etk. inversion H; subst y' o. clear H.
          destruct (deliver_updates_fields picked cl) as (A & B & C & D & E & F & G & K). cbv zeta in A, B, C, D, E, F, G, K.
          apply (np_link script _ y slot0 cl); try assumption.
          intros u Hu. apply in_app_or in Hu. apply in_or_app. destruct Hu as [Hu|Hu].
          -- destruct (deliver_updates_in picked cl u Hu) as [H1|H1]; [left; exact H1|right; exact (take_in _ _ _ _ u Etk (or_introl H1))].
          -- right. exact (take_in _ _ _ _ u Etk (or_intror Hu)).
        * destruct (ch =? 1); [|inversion H; subst y' o; exact Hnoop].
          destruct (take w (l_mut (get_link y slot0))) as [picked rest] eqn:Etk. inversion H; subst y' o. clear H.
          destruct (deliver_mutates_repl picked cl) as (A & B & C & D & E & F).
          apply (np_link script _ y slot0 cl); try assumption. rewrite F. auto.
      + destruct (ch =? 0); [|inversion H; subst y' o; exact Hnoop].
        destruct (take w (l_ack (get_link y slot0))) as [picked rest] eqn:Etk. inversion H; subst y' o. clear H.
        destruct (deliver_acks_fold_flags slot0 picked (y_server y)) as (X1 & X2 & _). apply Hacks; assumption.
    - destruct (al_get slot0 (y_clients y)) as [cl|] eqn:Ec; [|inversion H; subst y' o; exact Hnoop].
      destruct s2c.
      + destruct (ch =? 0).
        * destruct (take w (l_upd (get_link y slot0))) as [picked rest] eqn:Etk. inversion H; subst y' o. clear H.
          apply (np_link script _ y slot0 cl); try assumption; try reflexivity.
          intros u Hu. apply in_app_or in Hu. apply in_or_app. destruct Hu as [Hu|Hu]; [left; exact Hu|right; exact (take_in _ _ _ _ u Etk (or_intror Hu))].
        * destruct (ch =? 1); [|inversion H; subst y' o; exact Hnoop].
          destruct (take w (l_mut (get_link y slot0))) as [picked rest] eqn:Etk. inversion H; subst y' o. clear H.
          apply (np_link script _ y slot0 cl); try assumption; try reflexivity. auto.
      + destruct (ch =? 0); [|inversion H; subst y' o; exact Hnoop].
        destruct (take w (l_ack (get_link y slot0))) as [picked rest] eqn:Etk. inversion H; subst y' o. clear H.
        apply Hacks; reflexivity.
  Qed.

  Lemma np_connect script y gs slot0 max y' o :
    f_inv cfg0 nclients script y gs ->
    (forall cl, al_get slot0 (y_clients y) = Some cl -> cl_status cl = Disconnected -> cl_s2c cl = []) ->
    sess_step_ok script (StConnect slot0 max) = true ->
    np_inv script y -> sys_step y (StConnect slot0 max) = Ok (y', o) -> np_inv (script ++ [StConnect slot0 max]) y'.
  Proof.
    intros Hf Hclean Hs Hinv H.
    assert (Hnoop : np_inv (script ++ [StConnect slot0 max]) y).
    { intros slot c Hc Hm Hconn. destruct (mode_connect script slot0 max slot Hs) as [Em Hpre]. rewrite Em in Hm.
      rewrite tick_frames_snoc. cbn [is_tick_frame]. apply Hinv; [exact Hc| |exact Hconn].
      destruct (slot0 =? slot) eqn:E; [|exact Hm]. assert (slot0 = slot) by lia. subst slot0.
      destruct (Hpre eq_refl) as [Hp|Hp]; [|exact Hp]. exfalso.
      pose proof (sv_mode _ _ _ _ _ _ _ _ _ _ (fi_slots _ _ _ _ _ Hf slot c Hc)) as Hmi. rewrite Hp in Hmi. cbn [mode_inv] in Hmi.
      destruct Hmi as (A & _). congruence. }
    cbn [sys_step] in H. destruct (find_client (y_server y) slot0) as [r|] eqn:Ef; [inversion H; subst y' o; exact Hnoop|].
    destruct (al_get slot0 (y_clients y)) as [cl|] eqn:Ec; [|inversion H; subst y' o; exact Hnoop].
    destruct (sv_running (y_server y)) eqn:Er; [|inversion H; subst y' o; exact Hnoop].
    inversion H; subst y' o. clear H.
    intros slot c' Hc' Hm Hconn. rewrite tick_frames_snoc. cbn [is_tick_frame]. cbn [set_client set_server y_clients y_server] in *.
    change (get_link (mkSys ?a ?b ?c ?d) slot) with (get_link y slot).
    destruct (N.eq_dec slot slot0) as [->|Hne].
    - rewrite al_get_insert_same in Hc'. inversion Hc'; subst c'.
      pose proof (fi_slots _ _ _ _ _ Hf slot0 cl Ec) as [_ [_ Hfresh] _ Hmi].
      assert (Hd : cl_status cl = Disconnected).
      { destruct (status_dec cl) as [Hd|Hd]; [exact Hd|]. exfalso. destruct (mode_connect script slot0 max slot0 Hs) as [_ Hpre].
        destruct (Hpre eq_refl) as [Hp|Hp]; rewrite Hp in Hmi; cbn [mode_inv] in Hmi.
        - destruct Hmi as (A & _). congruence.
        - destruct Hmi as (A & _). apply (proj2 A) in Hd. apply has_rec_find in Hd. congruence. }
      pose proof (Hclean cl eq_refl Hd) as Hnil.
      split; [|right; exact Hnil].
      exists (fun cid => cl_next cl <= cid). apply (cli_ext _ _ cl); try reflexivity. apply cli_fresh; assumption.
    - rewrite al_get_insert_other in Hc' by exact Hne.
      destruct (mode_connect script slot0 max slot Hs) as [Em _]. rewrite Em in Hm. replace (slot0 =? slot) with false in Hm by lia.
      refine (np_conn_keep _ _ _ _ _ _ _ _ (Hinv slot c' Hc' Hm Hconn) (N.le_refl _) _ (fun t _ H => H) eq_refl eq_refl eq_refl eq_refl).
      intros t. destruct (connect_flags (y_cfg y) (y_server y) slot0 max) as [A B]. apply used_flags; assumption.
  Qed.

  (* ---------- a server frame ---------- *)
  Lemma np_sframe script y gs tick dt (cleanup : bool) ops parts y' o :
    f_inv cfg0 nclients script y gs -> np_inv script y -> forallb sop_ok ops = true ->
    tick_frames (script ++ [StSFrame tick dt cleanup ops parts]) < 2 ^ 31 ->
    sys_step y (StSFrame tick dt cleanup ops parts) = Ok (y', o) ->
    np_inv (script ++ [StSFrame tick dt cleanup ops parts]) y'.
  Proof.
    intros Hf Hinv Hops Hbound H. pose proof Hf as [Hcfg Hg Hnm Htk Hslots].
    intros slot c Hc Hm Hconn. rewrite mode_of_snoc in Hm. cbn [mode_step] in Hm.
    cbn [sys_step] in H. rewrite Hcfg in H. set (s := y_server y) in *.
    destruct (server_frame cfg0 s tick dt cleanup ops parts) as [[s' fo]| |] eqn:Ef; cbn [bind] in H; try discriminate.
    inversion H; subst y' o. clear H. set (outs := fo_clients fo) in *.
    destruct (server_frame_clients_v cfg0 (mkG s gs) tick dt cleanup ops parts s' fo Hg Hnm Hops Ef)
      as (_ & _ & _ & _ & N5 & _ & N7 & _). cbn [g_srv] in *. fold outs in N5, N7.
    destruct (server_frame_ticks_v cfg0 s tick dt cleanup ops parts s' fo Ef) as (K1 & _ & K3 & _ & K5). fold outs in K5.
    destruct (enqueue_fields outs (set_server y s')) as (_ & Q2 & Q3).
    rewrite Q3 in Hc. cbn [set_server y_clients] in Hc. rewrite Q2. cbn [set_server y_server].
    rewrite enqueue_lupd. change (get_link (set_server y s') slot) with (get_link y slot).
    rewrite (updates_for_upd_for slot outs N5).
    pose proof (sv_mode _ _ _ _ _ _ _ _ _ _ (Hslots slot c Hc)) as Hmi. rewrite Hm in Hmi. cbn [mode_inv] in Hmi.
    destruct Hmi as (_ & _ & Hlive). destruct (Hlive Hconn) as [Er _]. specialize (K3 Er).
    pose proof Npow31 as P31. pose proof Npow32 as P32.
    rewrite tick_frames_snoc in *. cbn [is_tick_frame] in *.
    assert (Htke : sv_tick s' = (if tick then sv_tick s + 1 else sv_tick s)).
    { rewrite K3. destruct tick; [|reflexivity]. apply tick_add_one. lia. }
    assert (Hu : forall t, used s t -> used s' t).
    { intros t Ht. unfold used in *. rewrite K1, Htke. destruct (sv_dirty s), tick; lia. }
    refine (np_conn_keep _ _ _ _ _ _ _ _ (Hinv slot c Hc Hm Hconn) _ Hu _ eq_refl eq_refl eq_refl eq_refl); [destruct tick; lia|].
    intros t Ht Hb. destruct (upd_for slot outs) as [u'|] eqn:Eu; [|rewrite app_nil_r; exact Hb].
    destruct (upd_for_in slot outs u' Eu) as (o1 & Ho1 & _ & Eo1). destruct (N7 o1 u' Ho1 Eo1) as [_ Etk].
    assert (Hne : outs <> []) by (intros E0; rewrite E0 in Ho1; destruct Ho1).
    destruct (K5 Hne) as [_ Hstrict].
    intros u Hin. rewrite app_assoc in Hin. apply in_app_or in Hin. destruct Hin as [Hin|[<-|[]]]; [exact (Hb u Hin)|].
    rewrite Etk, Htke. unfold used in Ht. unfold s in *. destruct Hstrict as [->|Hd]; [cbv iota; destruct (sv_dirty (y_server y)); lia|rewrite Hd in Ht; destruct tick; lia].
  Qed.

  (* ---------- a client frame ---------- *)
  Lemma frame_upd_tick c ops c' out : client_frame c ops = Ok (c', out) -> cl_status c = Connected ->
    cl_upd_tick c' = last (map u_tick (cl_inbox_upd c)) (cl_upd_tick c).
  Proof.
    intros H Hc. unfold client_frame in H. rewrite Hc, andb_false_r in H.
    apply bind_ok in H. destruct H as [[c2 out2] [E H]]. inversion H; subst c' out. clear H.
    cbn [set_locals cl_upd_tick]. rewrite cops_keep_tick. exact (replication_tick_is_last c c2 out2 E).
  Qed.

  Lemma incr_le_last p : forall q u, ticks_incr (p ++ q) -> In u p -> u_tick u <= u_tick (last p dflt_upd).
  Proof.
    induction p as [|a t IH]; intros q u Hi Hu; [destruct Hu|]. destruct t as [|b t'].
    - destruct Hu as [<-|[]]. cbn. lia.
    - assert (Hi' : ticks_incr ((b :: t') ++ q)).
      { intros p0 q0 E x z Hx Hz. apply (Hi (a :: p0) q0); [cbn [app]; rewrite <- E; reflexivity|right; exact Hx|exact Hz]. }
      change (last (a :: b :: t') dflt_upd) with (last (b :: t') dflt_upd).
      destruct Hu as [<-|Hu]; [|exact (IH q u Hi' Hu)].
      pose proof (IH q b Hi' (or_introl eq_refl)) as H1.
      pose proof (Hi [a] ((b :: t') ++ q) eq_refl a b (or_introl eq_refl) (or_introl eq_refl)). lia.
  Qed.

  Lemma last_map_in (I : list update_msg) d : I <> [] -> exists u, In u I /\ last (map u_tick I) d = u_tick u /\
    forall q, ticks_incr (I ++ q) -> below q (u_tick u).
  Proof.
    intros Hne. exists (last I dflt_upd). split; [apply last_in; exact Hne|]. split.
    - induction I as [|a t IH]; [congruence|]. destruct t as [|b t']; [reflexivity|].
      change (last (map u_tick (a :: b :: t')) d) with (last (map u_tick (b :: t')) d).
      change (last (a :: b :: t') dflt_upd) with (last (b :: t') dflt_upd). apply IH. discriminate.
    - intros q Hi z Hz. apply (Hi I q eq_refl); [apply last_in; exact Hne|exact Hz].
  Qed.

  Lemma incr_suffix (l1 l2 : list update_msg) : ticks_incr (l1 ++ l2) -> ticks_incr l2.
  Proof. intros H p q E a b Ha Hb. apply (H (l1 ++ p) q); [rewrite E, app_assoc; reflexivity|apply in_or_app; right; exact Ha|exact Hb]. Qed.

  Lemma np_cframe script y gs slot0 ops y' o :
    f_inv cfg0 nclients script y gs -> np_inv script y -> tick_frames script < 2 ^ 31 ->
    sys_step y (StCFrame slot0 ops) = Ok (y', o) -> np_inv (script ++ [StCFrame slot0 ops]) y'.
  Proof.
    intros Hf Hinv Hb H. pose proof Hf as [Hcfg Hg Hnm Htk Hslots].
    intros slot c' Hc' Hm Hconn. rewrite mode_cframe in Hm. rewrite tick_frames_snoc. cbn [is_tick_frame].
    destruct (al_get slot0 (y_clients y)) as [cl|] eqn:Ec.
    2:{ cbn [sys_step] in H. rewrite Ec in H. inversion H; subst y' o.
        destruct (slot0 =? slot) eqn:E; [assert (slot0 = slot) by lia; subst; congruence|]. exact (Hinv slot c' Hc' Hm Hconn). }
    destruct (client_frame cl ops) as [[cl' cfo]| |] eqn:Efr;
      [|cbn [sys_step] in H; rewrite Ec, Efr in H; discriminate|cbn [sys_step] in H; rewrite Ec, Efr in H; discriminate].
    destruct (cframe_sys y slot0 ops cl cl' cfo y' o Ec Efr H) as (_ & F2 & F3 & [pcs F4]).
    rewrite F2 in Hc'. rewrite F3, F4.
    assert (Hflags : forall t, used (y_server y) t -> used (publish_pre (y_server y) slot0 pcs) t) by (intros t; apply used_flags; reflexivity).
    destruct (N.eq_dec slot slot0) as [->|Hne].
    2:{ rewrite al_get_insert_other in Hc' by exact Hne. replace (slot0 =? slot) with false in Hm by lia.
        exact (np_conn_keep _ _ _ _ _ _ _ _ (Hinv slot c' Hc' Hm Hconn) (N.le_refl _) Hflags (fun t _ H0 => H0) eq_refl eq_refl eq_refl eq_refl). }
    rewrite al_get_insert_same in Hc'. inversion Hc'; subst c'. clear Hc'. rewrite N.eqb_refl in Hm.
    assert (Hm0 : mode_of script slot0 = MLive) by (destruct (mode_of script slot0); congruence).
    assert (Hcc : cl_status cl = Connected) by (rewrite <- (client_frame_status cl ops cl' cfo Efr); exact Hconn).
    destruct (Hinv slot0 cl Ec Hm0 Hcc) as [[W Hw] Hd].
    pose proof (sv_mode _ _ _ _ _ _ _ _ _ _ (Hslots slot0 cl Ec)) as Hmi. rewrite Hm0 in Hmi. cbn [mode_inv] in Hmi.
    destruct Hmi as (_ & _ & Hlive). destruct (Hlive Hcc) as [Er [applied [[C1 C2 C3 C4 C5 C6 C7 C8] [L1 L2 L3 L4 L5 L6]]]].
    set (s := y_server y) in *. set (lupd := l_upd (get_link y slot0)) in *.
    pose proof Npow31 as P31.
    assert (Hincr : ticks_incr (cl_inbox_upd cl ++ lupd)) by (apply (incr_suffix applied); exact C5).
    assert (Hpsi_u : forall u, In u (cl_inbox_upd cl ++ lupd) -> psi (tick_frames script) s (u_tick u)).
    { intros u Hu. destruct (L3 u (in_or_app _ _ _ (or_intror Hu))) as [X Y]. split; [lia|]. unfold used. rewrite Y. exact X. }
    assert (HI : forall u, In u (cl_inbox_upd cl) -> u_tick u < 2 ^ 31 /\ u_maps u = [] /\ psi (tick_frames script) s (u_tick u)).
    { intros u Hu. split; [exact (C4 u (in_or_app _ _ _ (or_intror (in_or_app _ _ _ (or_introl Hu)))))|]. split.
      - rewrite forallb_forall in C2. specialize (C2 u (in_or_app _ _ _ (or_introl Hu))). unfold no_maps in C2.
        destruct (u_maps u); [reflexivity|discriminate].
      - apply Hpsi_u. apply in_or_app. left. exact Hu. }
    set (uf := last (map u_tick (cl_inbox_upd cl)) (cl_upd_tick cl)).
    assert (HG : (below lupd uf /\ uf < 2 ^ 31 /\ used s uf) \/ (cl_s2c cl = [] /\ cl_inbox_upd cl = [])).
    { assert (Hcase : cl_inbox_upd cl = [] \/ cl_inbox_upd cl <> []) by (destruct (cl_inbox_upd cl); [left; reflexivity|right; discriminate]).
      destruct Hcase as [EI|EI].
      - unfold uf. rewrite EI in *. cbn [map last app] in *. destruct Hd as [[D1 D2]|D]; [left|right; auto]. split; [exact D2|]. split; [|exact D1].
        unfold used in D1. destruct (sv_dirty s); lia.
      - left. destruct (last_map_in (cl_inbox_upd cl) (cl_upd_tick cl) EI) as (u & Hu & El & Hbl). fold uf in El. rewrite El.
        split; [exact (Hbl lupd Hincr)|]. destruct (HI u Hu) as (X1 & _ & X3). split; [exact X1|exact (proj2 X3)]. }
    assert (Hmm : (forall m, In m (frame_applied cl) -> psi (tick_frames script) s (m_tick m) /\ below lupd (m_tick m)) \/
                  (cl_s2c cl = [] /\ cl_inbox_upd cl = [])).
    { destruct HG as [(G1 & G2 & G3)|G]; [left|right; exact G].
      intros m Hma. unfold frame_applied in Hma.
      destruct (fold_left (res_step apply_update_message) (cl_inbox_upd cl) (Ok cl)) as [c1| |] eqn:E1; [|destruct Hma|destruct Hma].
      cbv zeta in Hma. apply filter_In in Hma. destruct Hma as [Hin Hgt].
      assert (Etick : cl_upd_tick (merge_mut_inbox c1) = uf) by (cbn; exact (update_fold_tick _ _ _ E1)).
      rewrite Etick in Hgt.
      assert (Hin0 : In m (cl_inbox_mut cl ++ cl_buffered cl)).
      { destruct (inbox_fold_same_buf_mt _ _ _ E1) as (B1 & B2 & _). cbn [merge_mut_inbox clear_inboxes set_buffered cl_buffered] in Hin.
        rewrite B1, B2 in Hin. exact (fold_buffer_insert_in _ _ _ Hin). }
      assert (Hq : In m (l_mut (get_link y slot0) ++ cl_inbox_mut cl ++ cl_buffered cl)) by (apply in_or_app; right; exact Hin0).
      destruct (L4 m Hq) as [X Y]. split; [split; [lia|unfold used; rewrite Y; exact X]|].
      destruct (C7 m Hq) as (Hs & p & q & Esent & Hup & Hq0 & _).
      intros u Hu. assert (Hus : In u (p ++ q)) by (rewrite <- Esent; apply in_or_app; right; apply in_or_app; right; exact Hu).
      apply in_app_or in Hus. destruct Hus as [Hp|Hq1]; [exfalso|exact (Hq0 u Hq1)].
      assert (Hpne : p <> []) by (intros E0; rewrite E0 in Hp; destruct Hp).
      pose proof (Hup Hpne) as Eup.
      assert (Hle : u_tick u <= u_tick (last p dflt_upd)) by (apply (incr_le_last p q); [rewrite <- Esent; exact C5|exact Hp]).
      assert (Hsl : u_tick (last p dflt_upd) < 2 ^ 31).
      { apply C4. rewrite Esent. apply in_or_app. left. apply last_in. exact Hpne. }
      apply negb_true_iff in Hgt. unfold gated in Hgt. rewrite Eup, tick_gtb_small in Hgt by (unfold small_tick; lia).
      pose proof (G1 u Hu). destruct (N.ltb_spec uf (u_tick (last p dflt_upd))); [discriminate|lia]. }
    destruct (frame_cli W (psi (tick_frames script) s) lupd cl ops cl' cfo Hcc Hincr HI Hw Hmm Efr) as [R1 R2].
    destruct (frame_clears_inbox cl ops cl' cfo Hcc Efr) as [Ei _].
    split.
    - exists W. rewrite Ei. cbn [app]. revert R1. apply cli_mono. intros t [[P1 P2] P3]. split; [split; [exact P1|exact (Hflags t P2)]|exact P3].
    - rewrite Ei. cbn [app]. rewrite (frame_upd_tick cl ops cl' cfo Efr Hcc). fold uf.
      destruct HG as [(G1 & G2 & G3)|G]; [left; split; [exact (Hflags _ G3)|exact G1]|right; exact (R2 G)].
  Qed.

  (* ---------- the invariant of a run ---------- *)
  Lemma np_init : np_inv [] (sys_init cfg0 nclients).
  Proof. intros slot c _ Hm. cbn in Hm. discriminate. Qed.

  Lemma okf_snoc t st : script_okf (t ++ [st]) = true ->
    script_okf t = true /\ legal_step st = true /\ no_smap_step st = true /\ sess_step_ok t st = true.
  Proof.
    intros Hok. unfold script_okf, legal, no_smap in *. rewrite !forallb_app, sessions_ok_snoc in Hok. cbn [forallb] in Hok.
    rewrite !andb_true_r in Hok.
    apply andb_prop in Hok. destruct Hok as [Hok S]. apply andb_prop in Hok. destruct Hok as [L M].
    apply andb_prop in S. destruct S as [S1 S2]. apply andb_prop in L. destruct L as [L1 L2]. apply andb_prop in M. destruct M as [M1 M2].
    rewrite L1, M1, S1. auto.
  Qed.

  Lemma okf_sessions t : script_okf t = true -> sessions_ok t = true.
  Proof. intros H. unfold script_okf in H. apply andb_prop in H. exact (proj2 H). Qed.

  Theorem np_run script : forall y,
    script_okf script = true -> parts_small script = true -> tick_frames script < 2 ^ 31 ->
    run (sys_init cfg0 nclients) script = Ok y -> np_inv script y.
  Proof.
    induction script as [|st t IH] using rev_ind; intros y Hok Hps Hb H.
    - cbn in H. inversion H; subst. exact np_init.
    - destruct (okf_snoc t st Hok) as (Hok1 & L2 & M2 & S2).
      unfold parts_small in Hps. rewrite forallb_app in Hps. apply andb_prop in Hps. destruct Hps as [Hps1 _].
      pose proof (tick_frames_mono t st) as Hmono.
      rewrite run_app in H. destruct (run (sys_init cfg0 nclients) t) as [y1| |] eqn:E1; cbn [bind] in H; try discriminate.
      cbn [run] in H. destruct (sys_step y1 st) as [[y2 o]| |] eqn:E2; cbn [bind] in H; try discriminate. inversion H; subst y. clear H.
      assert (Hb1 : tick_frames t < 2 ^ 31) by lia.
      pose proof (IH y1 Hok1 Hps1 Hb1 eq_refl) as Hnp.
      destruct (run_erun_s t (sys_init cfg0 nclients) [] y1 E1) as [gs1 Eg].
      pose proof (f_run cfg0 nclients t y1 gs1 Hok1 Hb1 Eg) as Hf.
      destruct st as [| |slot max|slot|slot|tick dt cleanup ops parts|slot ops|slot s2c ch w|slot s2c ch w].
      + cbn [sys_step] in E2. inversion E2; subst y2 o. exact (np_start t y1 Hnp).
      + apply np_stop.
      + refine (np_connect t y1 gs1 slot max y2 o Hf _ S2 Hnp E2).
        intros cl Hc Hd. destruct (run_mrun t (sys_init cfg0 nclients) mgs_empty y1 E1) as [G1 Em].
        destruct (mode_connect t slot max slot S2) as [_ Hpre].
        assert (Hmode : mode_of t slot = MClean \/ mode_of t slot = MLive /\ cl_status cl = Disconnected).
        { destruct (Hpre eq_refl) as [Hp|Hp]; [left; exact Hp|right; auto]. }
        destruct (run_clean_is_initial cfg0 nclients t y1 G1 slot cl (okf_sessions t Hok1) Hps1 Hb1 Em Hc Hmode) as [Hrs _].
        unfold repl_state in Hrs. inversion Hrs. reflexivity.
      + cbn [sys_step] in E2. inversion E2; subst y2 o. pose proof (fi_cfg _ _ _ _ _ Hf) as Hcfg. exact (np_authorize t y1 slot Hnp).
      + exact (np_disconnect t y1 slot y2 o Hnp E2).
      + exact (np_sframe t y1 gs1 tick dt cleanup ops parts y2 o Hf Hnp M2 Hb E2).
      + exact (np_cframe t y1 gs1 slot ops y2 o Hf Hnp Hb1 E2).
      + exact (np_transport t (StDeliver slot s2c ch w) y1 y2 o eq_refl Hnp E2).
      + exact (np_transport t (StDrop slot s2c ch w) y1 y2 o eq_refl Hnp E2).
  Qed.

  (* ---------- no panic ---------- *)

  (* no client runs a frame between a `StStop` that hit its session and its `StDisconnect` *)
  Definition is_stale (m : smode) : bool := match m with MStale => true | _ => false end.
  Definition stale_step_ok (pre : list step) (st : step) : bool :=
    match st with StCFrame slot _ => negb (is_stale (mode_of pre slot)) | _ => true end.
  Fixpoint nsf_from (pre script : list step) : bool :=
    match script with
    | [] => true
    | st :: r => stale_step_ok pre st && nsf_from (pre ++ [st]) r
    end.
  Definition no_stale_cframe (script : list step) : bool := nsf_from [] script.

  Lemma nsf_from_snoc a : forall pre st, nsf_from pre (a ++ [st]) = nsf_from pre a && stale_step_ok (pre ++ a) st.
  Proof.
    induction a as [|x t IH]; intros pre st; cbn [app nsf_from].
    - rewrite app_nil_r, andb_true_r. reflexivity.
    - rewrite IH, <- app_assoc. cbn [app]. rewrite andb_assoc. reflexivity.
  Qed.

  Lemma no_stale_snoc script st : no_stale_cframe (script ++ [st]) = no_stale_cframe script && stale_step_ok script st.
  Proof. unfold no_stale_cframe. rewrite nsf_from_snoc. reflexivity. Qed.

  Lemma step_panic_source y st : sys_step y st = Panic ->
    exists slot ops cl, st = StCFrame slot ops /\ al_get slot (y_clients y) = Some cl /\ cl_status cl = Connected /\ client_frame cl ops = Panic.
  Proof.
    intros H. assert (Hr : run y [st] = Panic) by (cbn [run]; rewrite H; reflexivity).
    destruct (run_panic_source [st] y Hr) as (pre & slot & ops & post & y1 & cl & E & Hpre & Hc & Hs & Hp).
    destruct pre as [|a pre'].
    - cbn in E. inversion E; subst. cbn in Hpre. inversion Hpre; subst y1. exists slot, ops, cl. auto.
    - cbn in E. inversion E as [[Ea Et]]. destruct pre'; discriminate.
  Qed.

  (* the frame of a live connected client in a reachable state *)
  Theorem live_frame_nopanic script y gs G slot cl ops :
    f_inv cfg0 nclients script y gs -> m_inv cfg0 script y G -> np_inv script y -> tick_frames script < 2 ^ 31 ->
    al_get slot (y_clients y) = Some cl -> mode_of script slot = MLive -> cl_status cl = Connected ->
    client_frame cl ops <> Panic.
  Proof.
    intros Hf Hmi Hnp Hb Ec Hm0 Hcc. pose proof Hf as [Hcfg Hg Hnm Htk Hslots].
    apply frame_nopanic; [exact Hcc| |exact (tracker_live cfg0 script y G slot cl Hmi Hb Ec Hm0 Hcc)].
    destruct (Hnp slot cl Ec Hm0 Hcc) as [[W Hw] _].
    pose proof (sv_mode _ _ _ _ _ _ _ _ _ _ (Hslots slot cl Ec)) as Hmo. rewrite Hm0 in Hmo. cbn [mode_inv] in Hmo.
    destruct Hmo as (_ & _ & Hlive). destruct (Hlive Hcc) as [Er [applied [[C1 C2 C3 C4 C5 C6 C7 C8] [L1 L2 L3 L4 L5 L6]]]].
    set (s := y_server y) in *. set (lupd := l_upd (get_link y slot)) in *.
    assert (Hincr : ticks_incr (cl_inbox_upd cl ++ lupd)) by (apply (incr_suffix applied); exact C5).
    refine (proj1 (inbox_safe W (psi (tick_frames script) s) (cl_inbox_upd cl) lupd cl Hincr _ Hw)).
    intros u Hu. split; [exact (C4 u (in_or_app _ _ _ (or_intror (in_or_app _ _ _ (or_introl Hu)))))|]. split.
    - rewrite forallb_forall in C2. specialize (C2 u (in_or_app _ _ _ (or_introl Hu))). unfold no_maps in C2.
      destruct (u_maps u); [reflexivity|discriminate].
    - destruct (L3 u (in_or_app _ _ _ (or_intror (in_or_app _ _ _ (or_introl Hu))))) as [X Y]. split; [lia|]. unfold used. rewrite Y. exact X.
  Qed.

  Theorem run_nopanic script :
    script_okf script = true -> parts_small script = true -> tick_frames script < 2 ^ 31 -> no_stale_cframe script = true ->
    run (sys_init cfg0 nclients) script <> Panic.
  Proof.
    induction script as [|st t IH] using rev_ind; intros Hok Hps Hb Hns; [cbn; discriminate|].
    destruct (okf_snoc t st Hok) as (Hok1 & L2 & M2 & S2).
    pose proof Hps as Hps0. unfold parts_small in Hps. rewrite forallb_app in Hps. apply andb_prop in Hps. destruct Hps as [Hps1 _].
    pose proof (tick_frames_mono t st) as Hmono. assert (Hb1 : tick_frames t < 2 ^ 31) by lia.
    rewrite no_stale_snoc in Hns. apply andb_prop in Hns. destruct Hns as [Hns1 Hns2].
    rewrite run_app. pose proof (IH Hok1 Hps1 Hb1 Hns1) as N1. pose proof (run_noerr t (sys_init cfg0 nclients)) as N2.
    destruct (run (sys_init cfg0 nclients) t) as [y1| |] eqn:E1; [|congruence|congruence]. cbn [bind run].
    destruct (sys_step y1 st) as [[y2 o]| |] eqn:E2; [cbn [bind]; discriminate|cbn [bind]; discriminate|]. exfalso.
    destruct (step_panic_source y1 st E2) as (slot & ops & cl & -> & Ec & Hcc & Hp).
    destruct (run_erun_s t (sys_init cfg0 nclients) [] y1 E1) as [gs1 Eg].
    pose proof (f_run cfg0 nclients t y1 gs1 Hok1 Hb1 Eg) as Hf.
    destruct (run_mrun t (sys_init cfg0 nclients) mgs_empty y1 E1) as [G1 Em].
    pose proof (m_inv_run cfg0 nclients t y1 G1 (okf_sessions t Hok1) Hps1 Hb1 Em) as Hmi.
    pose proof (np_run t y1 Hok1 Hps1 Hb1 E1) as Hnp.
    pose proof (sv_mode _ _ _ _ _ _ _ _ _ _ (fi_slots _ _ _ _ _ Hf slot cl Ec)) as Hmo.
    cbn [stale_step_ok] in Hns2.
    destruct (mode_of t slot) eqn:Em0; cbn [mode_inv is_stale negb] in *.
    - destruct Hmo as (A & _). congruence.
    - exact (live_frame_nopanic t y1 gs1 G1 slot cl ops Hf Hmi Hnp Hb1 Ec Em0 Hcc Hp).
    - destruct Hmo as (A & _). congruence.
    - discriminate.
  Qed.
End NPRun.
