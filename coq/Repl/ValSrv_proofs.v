(* C02E: the invariants of Repl/ValSpec.v ([cli_inv], [srv_slot_inv]) under the server's actions:
   more snapshots, game operations, acknowledgements, cleanup, `send_for_client`. *)
From RV Require Import Lib.Res Repl.ClientTicks Repl.ClientTicks_proofs Repl.World Vis.Visibility
  Tick.RepliconTick Tick.RepliconTick_proofs Tick.ConfirmHistory Tick.MutateTicks
  Repl.Server Repl.ServerSpec Repl.Server_proofs Wire.AckCodec Wire.AckCodec_proofs Repl.Ack_proofs Repl.StructSpec Repl.Struct_proofs
  Repl.StructOps_proofs Repl.StructRun_proofs
  Repl.Client Repl.Sys Repl.Client_proofs Repl.ClientEnt_proofs Repl.ClientMut_proofs Repl.ClientSys_proofs
  Repl.ClientStructSpec Repl.ClientStruct_proofs Repl.ClientHist_proofs Repl.StructE2E_proofs Repl.StructE2EMut_proofs
  Repl.ValSpec Repl.ValSnap_proofs Repl.ValHist_proofs Repl.ValClient_proofs Repl.ValServer_proofs Repl.ValCli_proofs.
From Coq Require Import ZifyBool ZifyN.
Open Scope N_scope.
Ltac Zify.zify_post_hook ::= Z.div_mod_to_equations.
Arguments N.add : simpl never. Arguments N.mul : simpl never. Arguments N.pow : simpl never.
Arguments N.ltb : simpl never. Arguments N.leb : simpl never. Arguments N.div : simpl never.
Arguments N.modulo : simpl never. Arguments N.sub : simpl never. Arguments N.eqb : simpl never.

(* ================================================================== *)
(* 1. more snapshots, a later server state, more messages on their way *)
(* ================================================================== *)

Section Grow.
  Variables SN SN' : N -> N -> server -> Prop.
  Hypothesis Hsn : forall t r s1, SN t r s1 -> SN' t r s1.
  Variables (s s' : server) (c : client) (pend extra : list update_msg).
  Hypothesis Hdead : forall e, dead s e -> dead s' e.
  Hypothesis Hnew : forall e u, dead s e -> In u extra -> ~ mentions u e.

  Lemma cg_grow g g' e t : g <= g' -> cg s c pend g e t -> cg s' c (pend ++ extra) g' e t.
  Proof.
    intros Hg [(u & Hu & Hlt & Hm & Hle)|[Hh|(Hd & Hn & Hno)]].
    - left. exists u. split; [apply in_or_app; left; exact Hu|]. split; [lia|auto].
    - right. left. exact Hh.
    - right. right. split; [exact (Hdead e Hd)|]. split; [exact Hn|]. intros u Hu. apply in_app_or in Hu.
      destruct Hu as [Hu|Hu]; [exact (Hno u Hu)|exact (Hnew e u Hd Hu)].
  Qed.

  Lemma conf_since_grow g g' e a : g <= g' -> conf_since SN s c pend g e a -> conf_since SN' s' c (pend ++ extra) g' e a.
  Proof. intros Hg (t_a & s_a & H1 & H2). exists t_a, s_a. split; [exact (Hsn _ _ _ H1)|exact (cg_grow g g' e t_a Hg H2)]. Qed.

  Lemma upd_ok_grow u : upd_ok SN s c pend u -> upd_ok SN' s' c (pend ++ extra) u.
  Proof.
    intros (Hsh & r & s1 & H1 & Hp). split; [exact Hsh|]. exists r, s1. split; [exact (Hsn _ _ _ H1)|].
    intros e Hm. destruct (Hp e Hm) as [Hv Hc]. split; [exact Hv|]. destruct Hc as [Hf|(a & Hs & Hcs)]; [left; exact Hf|right].
    exists a. split; [exact Hs|]. apply (conf_since_grow (u_tick u)); [lia|exact Hcs].
  Qed.

  (* (a new snapshot is newer than all the old ones) *)
  Lemma mut_ok_grow m : (forall t r s0, SN' t r s0 -> SN t r s0 \/ forall t0 r0 s00, SN t0 r0 s00 -> r0 < r) ->
    mut_ok SN s c pend m -> mut_ok SN' s' c (pend ++ extra) m.
  Proof.
    intros Hsn' (Hle & r & s1 & H1 & Hp). split; [exact Hle|]. exists r, s1. split; [exact (Hsn _ _ _ H1)|].
    intros e vals Hin. destruct (Hp e vals Hin) as (Hv & a & Hs & Hcs & Hks). split; [exact Hv|]. exists a. split; [exact Hs|].
    split; [apply (conf_since_grow (m_upd_tick m + 1)); [lia|exact Hcs]|].
    intros t0 r0 s0 H0 Ha Hr. destruct (Hsn' _ _ _ H0) as [Hold|Hnewer]; [exact (Hks t0 r0 s0 Hold Ha Hr)|].
    pose proof (Hnewer _ _ _ H1). lia.
  Qed.
End Grow.

(* a later server state, more snapshots, the same messages *)
Lemma cli_inv_srv (SN SN' : N -> N -> server -> Prop) s s' c pend muts :
  (forall t r s1, SN t r s1 -> SN' t r s1) ->
  (forall t r s0, SN' t r s0 -> SN t r s0 \/ forall t0 r0 s00, SN t0 r0 s00 -> r0 < r) ->
  (forall e, dead s e -> dead s' e) ->
  cli_inv SN s c pend muts -> cli_inv SN' s' c pend muts.
Proof.
  intros Hsn Hsn' Hdead [H1 H2 H3 H4 H5 H6 H7 H8 H9 H10 H11].
  constructor; try assumption.
  - intros e x h Hh. destruct (H4 e x h Hh) as (r & s1 & x1 & A & B). exists r, s1, x1. split; [exact (Hsn _ _ _ A)|exact B].
  - destruct H5 as [H5|(r & s1 & H5)]; [left; exact H5|right; exists r, s1; exact (Hsn _ _ _ H5)].
  - intros u Hu. rewrite <- (app_nil_r pend). apply (upd_ok_grow SN SN' Hsn s s' c pend [] Hdead); [intros e u0 _ []|exact (H8 u Hu)].
  - intros m Hm. rewrite <- (app_nil_r pend). apply (mut_ok_grow SN SN' Hsn s s' c pend [] Hdead); [intros e u0 _ []|exact Hsn'|exact (H9 m Hm)].
  - intros p u q E e He. destruct (H10 p u q E e He) as (A & B). split; [exact (Hdead e A)|exact B].
  - intros p u q E. destruct (H11 p u q E) as (r & s1 & A & B). exists r, s1. split; [exact (Hsn _ _ _ A)|exact B].
Qed.

Lemma srv_slot_srv (SN SN' : N -> N -> server -> Prop) s s' cl c pend muts acks :
  (forall t r s1, SN t r s1 -> SN' t r s1) ->
  (forall e a t r s0, mutation_tick (sc_ticks cl) e = Some a -> SN' t r s0 -> a <= r -> SN t r s0) ->
  (forall e, dead s e -> dead s' e) -> sv_tick s <= sv_tick s' -> sv_now s <= sv_now s' ->
  srv_slot_inv SN s cl c pend muts acks -> srv_slot_inv SN' s' cl c pend muts acks.
Proof.
  intros Hsn Hback Hdead Ht Hn [H1 H2 H3 H4 H5 H6 H7 H8 H9 H10 H11 H12].
  assert (G : forall g g' e a, g <= g' -> conf_since SN s c pend g e a -> conf_since SN' s' c pend g' e a).
  { intros g g' e a Hg Hc. rewrite <- (app_nil_r pend).
    apply (conf_since_grow SN SN' Hsn s s' c pend [] Hdead (fun e0 u0 _ (F : In u0 []) => match F with end) g g' e a Hg Hc). }
  constructor; try assumption.
  - intros e a Hst. apply (G (sv_tick s + 1)); [lia|exact (H1 e a Hst)].
  - intros i info e Hi Hinfo He. apply (G 0); [lia|exact (H2 i info e Hi Hinfo He)].
  - intros m info Hm Hinfo. destruct (H3 m info Hm Hinfo) as [[s1 A] B]. split; [exists s1; exact (Hsn _ _ _ A)|exact B].
  - lia.
  - intros e a Hst t r s0 Hs0 Hle. exact (H9 e a Hst t r s0 (Hback e a t r s0 Hst Hs0 Hle) Hle).
  - destruct H10 as [A B]. split; [intros e a Hst; pose proof (A e a Hst); lia|intros i info Hi; pose proof (B i info Hi); lia].
Qed.

(* ================================================================== *)
(* 2. acknowledgements and cleanup                                    *)
(* ================================================================== *)

Definition with_ticks (cl : sclient) (t : client_ticks) : sclient :=
  mkSC (sc_slot cl) (sc_authorized cl) (sc_max_size cl) t (sc_vis cl) (sc_pending_map cl).

Lemma srv_slot_ack (SN : N -> N -> server -> Prop) s cl c pend muts i acks :
  sv_now s < MAX_CHANGE_AGE ->
  srv_slot_inv SN s cl c pend muts (i :: acks) ->
  srv_slot_inv SN s (with_ticks cl (ack_mutate_message (sc_ticks cl) (sv_now s) i)) c pend muts acks.
Proof.
  intros Hmax [H1 H2 H3 H4 H5 H6 H7 H8 H9 [H10a H10b] H11 H12]. set (now := sv_now s) in *.
  destruct (ack_frame (sc_ticks cl) now i) as (F1 & F2 & F3 & F4). cbv zeta in F1, F2, F3, F4.
  assert (Hget : forall j info, al_get j (ct_mutations (ack_mutate_message (sc_ticks cl) now i)) = Some info ->
            al_get j (ct_mutations (sc_ticks cl)) = Some info).
  { intros j info Hj. rewrite F4 in Hj. destruct (N.eq_dec j i) as [->|Hne]; [rewrite al_get_remove_same in Hj; discriminate|].
    rewrite al_get_remove_other in Hj by exact Hne. exact Hj. }
  (* the stamps only grow *)
  assert (Hmono : forall e a', mutation_tick (ack_mutate_message (sc_ticks cl) now i) e = Some a' ->
            exists a, mutation_tick (sc_ticks cl) e = Some a /\ a <= a' /\ a' < now).
  { intros e a' Hst. rewrite ack_stamps in Hst. destruct (al_get i (ct_mutations (sc_ticks cl))) as [info|] eqn:Ei.
    - destruct (existsb (N.eqb e) (mi_entities info)).
      + destruct (mutation_tick (sc_ticks cl) e) as [a|] eqn:Ea; [|discriminate]. cbn [option_map] in Hst. inversion Hst; subst a'.
        pose proof (H10a e a Ea). pose proof (H10b i info Ei). exists a. split; [reflexivity|].
        rewrite (ack_stamp_max (ClientTicks.mi_tick info) now a) by lia. lia.
      + exists a'. split; [exact Hst|]. pose proof (H10a e a' Hst). lia.
    - exists a'. split; [exact Hst|]. pose proof (H10a e a' Hst). lia. }
  constructor; cbn [with_ticks sc_ticks].
  - intros e a Hst. destruct (ack_bounded_by_message_tick (sc_ticks cl) now i e) as [E|(info & old & Hinfo & Hin & _ & E)].
    + rewrite E in Hst. exact (H1 e a Hst).
    + rewrite E in Hst. inversion Hst; subst a. destruct (H2 i info e (or_introl eq_refl) Hinfo Hin) as (t_a & s_a & A & B).
      exists t_a, s_a. split; [exact A|]. destruct B as [(u & _ & Hlt & _)|B]; [lia|right; exact B].
  - intros j info e Hj Hinfo He. exact (H2 j info e (or_intror Hj) (Hget j info Hinfo) He).
  - intros m info Hm Hinfo. exact (H3 m info Hm (Hget _ info Hinfo)).
  - intros m Hm. rewrite F2. exact (H4 m Hm).
  - intros j Hj. rewrite F2. exact (H5 j (or_intror Hj)).
  - rewrite F1. exact H6.
  - intros u Hu. rewrite F1. exact (H7 u Hu).
  - rewrite F4. apply al_remove_nodup. exact H8.
  - intros e a' Hst t r s0 Hs0 Hle. destruct (Hmono e a' Hst) as (a & Ha & Hle' & _). apply (H9 e a Ha t r s0 Hs0). lia.
  - split.
    + intros e a' Hst. destruct (Hmono e a' Hst) as (_ & _ & _ & Hlt). exact Hlt.
    + intros j info Hj. exact (H10b j info (Hget j info Hj)).
  - intros m Hm. rewrite F1. exact (H11 m Hm).
  - rewrite F1. exact H12.
Qed.

Lemma with_ticks_same cl : with_ticks cl (sc_ticks cl) = cl.
Proof. destruct cl; reflexivity. Qed.

Lemma with_ticks_twice cl t t' : with_ticks (with_ticks cl t) t' = with_ticks cl t'.
Proof. reflexivity. Qed.

Lemma srv_slot_ack_all (SN : N -> N -> server -> Prop) s c pend muts idxs : sv_now s < MAX_CHANGE_AGE -> forall cl acks,
  srv_slot_inv SN s cl c pend muts (idxs ++ acks) ->
  srv_slot_inv SN s (with_ticks cl (ack_all (sc_ticks cl) (sv_now s) idxs)) c pend muts acks.
Proof.
  intros Hmax. induction idxs as [|i t IH]; intros cl acks H.
  - unfold ack_all. cbn [fold_left]. rewrite with_ticks_same. exact H.
  - rewrite ack_all_cons. cbn [app] in H. apply (srv_slot_ack SN s cl c pend muts i (t ++ acks) Hmax) in H.
    apply IH in H. cbn [with_ticks sc_ticks] in H. exact H.
Qed.

Lemma srv_slot_cleanup (SN : N -> N -> server -> Prop) s cl c pend muts acks min_ts :
  srv_slot_inv SN s cl c pend muts acks ->
  srv_slot_inv SN s (with_ticks cl (cleanup_older_mutations (sc_ticks cl) min_ts)) c pend muts acks.
Proof.
  intros [H1 H2 H3 H4 H5 H6 H7 H8 H9 [H10a H10b] H11 H12].
  assert (Hget : forall j info, al_get j (ct_mutations (cleanup_older_mutations (sc_ticks cl) min_ts)) = Some info ->
            al_get j (ct_mutations (sc_ticks cl)) = Some info).
  { intros j info Hj. cbn [cleanup_older_mutations ct_mutations] in Hj. rewrite (al_get_filter (fun info => negb (mi_timestamp info <? min_ts))) in Hj by exact H8.
    destruct (al_get j (ct_mutations (sc_ticks cl))) as [v|]; [|discriminate].
    destruct (negb (mi_timestamp v <? min_ts)); [exact Hj|discriminate]. }
  constructor; cbn [with_ticks sc_ticks].
  - exact H1.
  - intros j info e Hj Hinfo He. exact (H2 j info e Hj (Hget j info Hinfo) He).
  - intros m info Hm Hinfo. exact (H3 m info Hm (Hget _ info Hinfo)).
  - exact H4.
  - exact H5.
  - exact H6.
  - exact H7.
  - cbn [cleanup_older_mutations ct_mutations]. apply al_filter_nodup. exact H8.
  - exact H9.
  - split; [exact H10a|]. intros j info Hj. exact (H10b j info (Hget j info Hj)).
  - exact H11.
  - exact H12.
Qed.

(* the parts of [srv_slot_inv] only read the acknowledgement bookkeeping of the record *)
Lemma srv_slot_ticks (SN : N -> N -> server -> Prop) s cl cl' c pend muts acks :
  sc_ticks cl' = sc_ticks cl -> srv_slot_inv SN s cl c pend muts acks -> srv_slot_inv SN s cl' c pend muts acks.
Proof. intros E [H1 H2 H3 H4 H5 H6 H7 H8 H9 H10 H11 H12]. constructor; rewrite E; assumption. Qed.

Lemma srv_slot_sub (SN : N -> N -> server -> Prop) s cl c pend muts acks muts' acks' :
  (forall m, In m muts' -> In m muts) -> (forall i, In i acks' -> In i acks) ->
  srv_slot_inv SN s cl c pend muts acks -> srv_slot_inv SN s cl c pend muts' acks'.
Proof.
  intros Hm Ha [H1 H2 H3 H4 H5 H6 H7 H8 H9 H10 H11 H12]. constructor; try assumption.
  - intros i info e Hi. apply H2. apply Ha. exact Hi.
  - intros m info Hin. apply H3. apply Hm. exact Hin.
  - intros m Hin. apply H4. apply Hm. exact Hin.
  - intros i Hi. apply H5. apply Ha. exact Hi.
  - intros m Hin. apply H11. apply Hm. exact Hin.
Qed.

Lemma srv_slot_default (SN : N -> N -> server -> Prop) s cl c : sc_ticks cl = ct_default -> cl_upd_tick c = 0 ->
  srv_slot_inv SN s cl c [] [] [].
Proof.
  intros E E0. constructor; rewrite E.
  - intros e a H. discriminate.
  - intros i info e [].
  - intros m info [].
  - intros m [].
  - intros i [].
  - cbn. lia.
  - intros u [].
  - constructor.
  - intros e a H. discriminate.
  - split; [intros e a H; discriminate|intros i info H; discriminate].
  - intros m [].
  - cbn. symmetry. exact E0.
Qed.


(* ================================================================== *)
(* 3. send_for_client                                                 *)
(* ================================================================== *)

Lemma keys_insert_by_key {V} k (v : V) l k0 : In k0 (map fst (insert_by_key k v l)) <-> k0 = k \/ In k0 (map fst l).
Proof.
  induction l as [|[k' v'] t IH]; cbn [insert_by_key map fst In]; [intuition|].
  destruct (k <=? k'); cbn [map fst In]; [intuition|]. rewrite IH. intuition.
Qed.

Lemma nodup_insert_by_key {V} k (v : V) l : ~ In k (map fst l) -> NoDup (map fst l) -> NoDup (map fst (insert_by_key k v l)).
Proof.
  induction l as [|[k' v'] t IH]; cbn [insert_by_key map fst]; intros Hn Hnd; [constructor; [intros []|constructor]|].
  destruct (k <=? k'); cbn [map fst]; [constructor; assumption|].
  inversion Hnd as [|? ? Hk' Ht]; subst. constructor.
  - rewrite keys_insert_by_key. intros [->|H]; [apply Hn; left; reflexivity|exact (Hk' H)].
  - apply IH; [intros H; apply Hn; right; exact H|exact Ht].
Qed.

Lemma keys_sort_by_key {V} (l : list (N * V)) k : In k (map fst (sort_by_key l)) <-> In k (map fst l).
Proof.
  unfold sort_by_key. induction l as [|[k0 v0] t IH]; cbn [fold_right map fst In]; [reflexivity|].
  rewrite keys_insert_by_key, IH. intuition.
Qed.

Lemma nodup_sort_by_key {V} (l : list (N * V)) : NoDup (map fst l) -> NoDup (map fst (sort_by_key l)).
Proof.
  unfold sort_by_key. induction l as [|[k0 v0] t IH]; cbn [fold_right map fst]; intros H; [constructor|].
  inversion H as [|? ? Hk Ht]; subst. apply nodup_insert_by_key; [|exact (IH Ht)].
  fold (sort_by_key t). rewrite keys_sort_by_key. exact Hk.
Qed.

Section Send.
  Variables SN SN' : N -> N -> server -> Prop.
  Variables (c : cfg) (s3 s' : server) (cl3 : sclient) (p : partition) (cli : client)
            (pend : list update_msg) (muts : list mutate_msg) (acks : list N).
  Hypothesis Hsn : forall t r s1, SN t r s1 -> SN' t r s1.
  Hypothesis Hnewsnap : SN' (sv_tick s3) (sv_now s3) s'.
  Hypothesis Hbound : forall t r s1, SN t r s1 -> t < sv_tick s3.
  Hypothesis Hpos : 1 <= sv_tick s3.
  Hypothesis Hents' : sv_ents s' = sv_ents s3.
  Hypothesis Htick' : sv_tick s' = sv_tick s3.
  Hypothesis Hok : srv_ok s3.
  Hypothesis Hev : sv_removed_events s3 = [].
  Hypothesis Hvis : sc_vis cl3 = None.
  Hypothesis Hpm : sc_pending_map cl3 = [].
  Hypothesis Heok : ents_ok s3.
  Hypothesis Hdb : db_ok s3.
  Hypothesis Hcli : cli_inv SN s3 cli pend muts.
  Hypothesis Hslot : srv_slot_inv SN s3 cl3 cli pend muts acks.
  Hypothesis Hboundr : forall t r s1, SN t r s1 -> r < sv_now s3.
  Hypothesis Hsn' : forall t r s0, SN' t r s0 -> SN t r s0 \/ (t = sv_tick s3 /\ r = sv_now s3 /\ s0 = s').
  Hypothesis Hnow' : sv_now s' = sv_now s3 + 1.
  Hypothesis Hp3 : pending_ok s3 (sc_ticks cl3) (fold_left abs_apply pend (client_struct cli)).

  Local Notation S0 := (fold_left abs_apply pend (client_struct cli)).
  Local Notation run := (sv_now s3).
  Local Notation P := (sfc_pure c s3 (sv_now s3) cl3 p).
  Local Notation ecof e x madd := (nv_ec s3 cl3 (e, x, madd)).
  Local Notation upd := (sfc_upd s3 (sv_now s3) cl3).

  Hypothesis Hnowrap : ct_mutate_index (sc_ticks cl3) + N.of_nat (length (co_mutates (snd P))) < 2 ^ 16.

  Let Hwf : ents_wf s3 := so_wf s3 (proj1 Hok).

  Lemma send_dead e : dead s3 e <-> dead s' e.
  Proof. unfold dead, get_ent. rewrite Hents'. reflexivity. Qed.

  (* a replicated entity *)
  Lemma send_repl e x madd : In (e, x, madd) (replicated_ents s3) ->
    get_ent s3 e = Some x /\ get_ent s' e = Some x /\ se_alive x = true /\ ~ dead s3 e /\
    mem_N e (sv_despawn_buf s3) = false /\ comps_ok (sv_now s3) (se_comps x) /\ se_marker x = Some madd.
  Proof.
    intros Hin. destruct (replicated_ents_get s3 e x madd Hwf Hin) as (Hg & Hm & Ha).
    assert (Hnd : ~ dead s3 e) by (intros (x0 & Hx0 & Hd); congruence).
    split; [exact Hg|]. split; [unfold get_ent; rewrite Hents'; exact Hg|]. split; [exact Ha|]. split; [exact Hnd|].
    split; [|split; [exact (Heok e x Hg)|exact Hm]].
    apply not_true_is_false. intros Hmem. apply Hnd. apply Hdb. apply mem_N_In. exact Hmem.
  Qed.

  Lemma send_mt e x madd : In (e, x, madd) (replicated_ents s3) ->
    ecof e x madd = cep (sv_last_run s3) (sv_tick s3) (sv_removal_buf s3) (mutation_tick (sc_ticks cl3) e) VVisible e x madd.
  Proof.
    intros Hin. destruct (send_repl e x madd Hin) as (_ & _ & _ & _ & Hmem & _).
    unfold nv_ec. cbn [ent_id fst snd]. rewrite (nv_mt1 s3 cl3 Hvis), Hmem. reflexivity.
  Qed.

  Lemma comps_in_get (x : sent) k cc : comps_ok (sv_now s3) (se_comps x) -> (In (k, cc) (se_comps x) <-> al_get k (se_comps x) = Some cc).
  Proof. intros [Hs _]. apply ksorted_In_get. exact Hs. Qed.

  (* what the entity contributes, and what it promises *)
  Lemma send_ent e x madd : In (e, x, madd) (replicated_ents s3) ->
    let ec := ecof e x madd in
    entry_vals s' e (ec_vals ec) /\
    ((ec_entry ec = Some (ec_vals ec) /\ ec_bump ec = true /\ entry_full s' e (ec_vals ec)) \/
     exists a, mutation_tick (sc_ticks cl3) e = Some a /\ entry_since s' e (ec_vals ec) a /\
       ((ec_bump ec = true /\ ec_muts ec = [] /\ (ec_entry ec = None -> ec_vals ec = [] /\ al_get e (sv_removal_buf s3) <> None)) \/
        (ec_bump ec = false /\ ec_entry ec = None /\ ec_muts ec = ec_vals ec /\ al_get e (sv_removal_buf s3) = None))).
  Proof.
    intros Hin. cbv zeta. destruct (send_repl e x madd Hin) as (Hg & Hg' & Ha & Hnd & Hmem & Hcok & Hmk).
    rewrite (send_mt e x madd Hin). pose proof Hcok as [Hsorted Hall].
    assert (Hnodup : NoDup (map fst (se_comps x))) by exact (ksorted_nodup _ Hsorted).
    assert (Hsub : forall vals, NoDup (map fst vals) ->
              (forall k v, In (k, v) vals -> exists cc, In (k, cc) (se_comps x) /\ v = c_val cc) -> entry_vals s' e vals).
    { intros vals Hn Hv. split; [exact Hn|]. exists x. split; [exact Hg'|]. intros k v Hkv. destruct (Hv k v Hkv) as (cc & Hcc & ->).
      destruct (Hall k cc Hcc) as (_ & Hnat & _). split; [exact Hnat|]. exists cc. split; [apply comps_in_get; assumption|reflexivity]. }
    destruct (mutation_tick (sc_ticks cl3) e) as [a|] eqn:Emt.
    2:{ destruct (cep_new_vals (sv_last_run s3) (sv_tick s3) (sv_removal_buf s3) None e x madd (or_introl eq_refl)) as (E1 & E2 & E3).
        rewrite E1. split.
        - apply Hsub; [unfold all_comps; rewrite vs_keys_val_of; exact Hnodup|]. intros k v Hkv. unfold all_comps in Hkv.
          apply in_map_iff in Hkv. destruct Hkv as [[k0 cc] [E Hkc]]. unfold val_of in E. cbn in E. inversion E; subst k0 v. exists cc. auto.
        - left. split; [rewrite E3; reflexivity|]. split; [exact E2|]. intros x1 k cc Hx1 Hk. rewrite Hg' in Hx1. inversion Hx1; subst x1.
          unfold all_comps. rewrite vs_keys_val_of. apply in_map_iff. exists (k, cc). split; [reflexivity|]. apply comps_in_get; assumption. }
    destruct (sv_last_run s3 <? madd) eqn:Ema.
    { destruct (cep_new_vals (sv_last_run s3) (sv_tick s3) (sv_removal_buf s3) (Some a) e x madd (or_intror Ema)) as (E1 & E2 & E3).
      rewrite E1. split.
      - apply Hsub; [unfold all_comps; rewrite vs_keys_val_of; exact Hnodup|]. intros k v Hkv. unfold all_comps in Hkv.
        apply in_map_iff in Hkv. destruct Hkv as [[k0 cc] [E Hkc]]. unfold val_of in E. cbn in E. inversion E; subst k0 v. exists cc. auto.
      - left. split; [rewrite E3; reflexivity|]. split; [exact E2|]. intros x1 k cc Hx1 Hk. rewrite Hg' in Hx1. inversion Hx1; subst x1.
        unfold all_comps. rewrite vs_keys_val_of. apply in_map_iff. exists (k, cc). split; [reflexivity|]. apply comps_in_get; assumption. }
    assert (Hk01 : forall k cc, In (k, cc) (se_comps x) -> kind01 k = true) by (intros k cc Hkc; exact (proj1 (Hall k cc Hkc))).
    destruct (cep_known_vals (sv_last_run s3) (sv_tick s3) (sv_removal_buf s3) a e x madd Ema Hnodup) as [Hn Hv].
    split; [apply Hsub; assumption|]. right. exists a. split; [reflexivity|]. split.
    - intros x1 k cc Hx1 Hk. rewrite Hg' in Hx1. inversion Hx1; subst x1.
      apply (cep_known_cover (sv_last_run s3) (sv_tick s3) (sv_removal_buf s3) a e x madd Ema Hk01 k cc). apply comps_in_get; assumption.
    - destruct (cep_known_shape (sv_last_run s3) (sv_tick s3) (sv_removal_buf s3) a e x madd Ema) as [(E1 & E2 & E3)|(E1 & E2 & E3 & E4 & E5 & E6)].
      + left. split; [exact E2|]. split; [exact E3|]. intros Hnone. unfold ec_vals. rewrite Hnone, E3. split; [reflexivity|].
        (* no entry although bumped: only a pending removal can be the reason *)
        unfold cep in Hnone, E2 |- *. cbn [is_hidden] in *. rewrite Ema in *. cbn [orb is_gained] in *.
        destruct (al_get e (sv_removal_buf s3)); [discriminate|]. exfalso.
        match type of Hnone with ec_entry (if ?b then _ else _) = None => destruct b eqn:Eb end; [|cbn in E2; discriminate].
        match type of Eb with (match ?l with [] => false | _ :: _ => true end || false) = true => destruct l eqn:El end; [discriminate|].
        cbn [app] in Hnone. discriminate.
      + right. split; [exact E3|]. split; [exact E2|]. split; [rewrite E4, E1; reflexivity|exact E6].
  Qed.

  (* ---------- the update message ---------- *)

  Lemma send_upd_fields :
    u_tick upd = sv_tick s3 /\ u_maps upd = [] /\ u_despawns upd = sv_despawn_buf s3 /\
    u_removals upd = sort_by_key (sv_removal_buf s3) /\ u_changes upd = changed_set s3 run cl3.
  Proof.
    unfold sfc_upd. cbn [u_tick u_maps u_despawns u_removals u_changes]. rewrite Hpm, (nv_despawns s3 cl3 Hvis), (nv_removals s3 cl3 Hvis).
    repeat split; reflexivity.
  Qed.

  Lemma send_mentions_repl e : mentions upd e -> exists x madd, In (e, x, madd) (replicated_ents s3).
  Proof.
    destruct send_upd_fields as (_ & _ & _ & Er & Ec). unfold mentions. rewrite Er, Ec. intros [H|H].
    - rewrite keys_sort_by_key in H. assert (Hg : al_get e (sv_removal_buf s3) <> None) by (apply al_get_keys_iff; exact H).
      pose proof (proj2 Hok e Hg) as Hr. destruct (repl_get s3 e) as [x|] eqn:Ex; [|congruence].
      apply (repl_get_spec s3 e x Hwf) in Ex. destruct Ex as [madd Hin]. exists x, madd. exact Hin.
    - apply in_map_iff in H. destruct H as [[e' en] [E Hin]]. cbn in E. subst e'.
      destruct (sfc_change_entry s3 cl3 Hvis Hwf e en Hin) as (x & madd & Hr & _). exists x, madd. exact Hr.
  Qed.

  Lemma send_not_dead e : mentions upd e -> ~ dead s3 e.
  Proof. intros Hm. destruct (send_mentions_repl e Hm) as (x & madd & Hin). exact (proj1 (proj2 (proj2 (proj2 (send_repl e x madd Hin))))). Qed.

  Lemma send_changes_get e x madd : In (e, x, madd) (replicated_ents s3) ->
    al_get e (changed_set s3 run cl3) = ec_entry (ecof e x madd).
  Proof.
    intros Hin. pose proof (proj1 (changed_mutated_nodup s3 run cl3 Hwf)) as Hnd.
    destruct (ec_entry (ecof e x madd)) as [en|] eqn:Een.
    - apply In_al_get_nodup; [exact Hnd|]. apply (nv_changed_entry s3 cl3 run e x madd en Hvis Hwf Hin). exact Een.
    - destruct (al_get e (changed_set s3 run cl3)) as [en|] eqn:Eg; [|reflexivity]. apply Server_proofs.al_get_In in Eg.
      apply (nv_changed_entry s3 cl3 run e x madd en Hvis Hwf Hin) in Eg. congruence.
  Qed.

  Lemma send_mentions e : mentions upd e ->
    exists x madd, In (e, x, madd) (replicated_ents s3) /\ al_dflt e (u_changes upd) = ec_vals (ecof e x madd) /\
                   ec_bump (ecof e x madd) = true.
  Proof.
    intros Hm. destruct (send_mentions_repl e Hm) as (x & madd & Hin). exists x, madd. split; [exact Hin|].
    destruct send_upd_fields as (_ & _ & _ & Er & Ec). unfold al_dflt. rewrite Ec, (send_changes_get e x madd Hin).
    destruct (ec_entry (ecof e x madd)) as [en|] eqn:Een.
    - split; [unfold ec_vals; rewrite Een; reflexivity|]. unfold nv_ec in *. exact (cep_entry_bump _ _ _ _ _ _ _ _ _ Een).
    - destruct (send_ent e x madd Hin) as (_ & [(E & _)|(a & _ & _ & [(B & M & F)|(B & _ & _ & R)])]); [congruence| |].
      + destruct (F Een) as [Ev _]. rewrite Ev. auto.
      + exfalso. destruct Hm as [Hm|Hm].
        * rewrite Er, keys_sort_by_key in Hm. apply al_get_keys_iff in Hm. congruence.
        * rewrite Ec in Hm. apply al_get_keys_iff in Hm. rewrite (send_changes_get e x madd Hin), Een in Hm. congruence.
  Qed.

  Lemma send_shape : upd_shape upd.
  Proof.
    destruct send_upd_fields as (_ & Em & _ & Er & Ec). split; [exact Em|]. split.
    - rewrite Er. apply nodup_sort_by_key. exact (so_rb_nodup s3 (proj1 Hok)).
    - split; [rewrite Ec; exact (proj1 (changed_mutated_nodup s3 run cl3 Hwf))|].
      intros e vals Hin. rewrite Ec in Hin. destruct (sfc_change_entry s3 cl3 Hvis Hwf e vals Hin) as (x & madd & Hr & Een).
      destruct (send_ent e x madd Hr) as ((_ & x1 & _ & Hv) & _). unfold ec_vals in Hv. rewrite Een in Hv.
      intros k v Hkv. exact (proj1 (Hv k v Hkv)).
  Qed.

  Lemma send_has_upd e : mentions upd e -> sfc_has_upd s3 run cl3 = true.
  Proof.
    intros [H|H]; unfold sfc_has_upd, update_is_empty.
    - destruct (u_removals upd); [destruct H|]. destruct (u_maps upd), (u_despawns upd); reflexivity.
    - destruct (u_changes upd); [destruct H|]. destruct (u_maps upd), (u_despawns upd), (u_removals upd); reflexivity.
  Qed.

  Lemma send_pend_lt u : In u pend -> u_tick u < sv_tick s3.
  Proof. intros Hu. destruct (cv_pend SN s3 cli pend muts Hcli u Hu) as (_ & r & s1 & H1 & _). exact (Hbound _ _ _ H1). Qed.

  (* a stamp the server held before this run is still backed, whatever is appended *)
  Lemma send_conf_old extra g e a : (forall e u, dead s3 e -> In u extra -> ~ mentions u e) ->
    ~ dead s3 e -> mutation_tick (sc_ticks cl3) e = Some a ->
    (forall u, In u pend -> u_tick u < g) ->
    conf_since SN' s' cli (pend ++ extra) g e a.
  Proof.
    intros Hnew Hnd Hst Hlt. destruct (sv_K SN s3 cl3 cli pend muts acks Hslot e a Hst) as (t_a & s_a & A & B).
    exists t_a, s_a. split; [exact (Hsn _ _ _ A)|]. destruct B as [(u & Hu & _ & Hm & Hle)|[B|(Hd & _)]].
    - left. exists u. split; [apply in_or_app; left; exact Hu|]. split; [exact (Hlt u Hu)|auto].
    - right. left. exact B.
    - contradiction.
  Qed.

  Lemma send_upd_ok extra : In upd extra -> (forall u, In u extra -> u = upd) -> upd_ok SN' s' cli (pend ++ extra) upd.
  Proof.
    intros Hin Hex. split; [exact send_shape|]. destruct send_upd_fields as (Et & _). exists run, s'. split; [rewrite Et; exact Hnewsnap|].
    intros e Hm. destruct (send_mentions e Hm) as (x & madd & Hr & Ed & Hb). rewrite Ed.
    destruct (send_ent e x madd Hr) as (Hv & Hc). split; [exact Hv|].
    destruct Hc as [(_ & _ & Hf)|(a & Hst & Hs & _)]; [left; exact Hf|right]. exists a. split; [exact Hs|]. rewrite Et.
    apply send_conf_old; [|exact (send_not_dead e Hm)|exact Hst|exact send_pend_lt].
    intros e0 u Hd Hu. rewrite (Hex u Hu). intros Hm0. exact (send_not_dead e0 Hm0 Hd).
  Qed.

  (* ---------- the structure ---------- *)

  Lemma send_diff : struct_equiv (abs_send S0 (co_update (snd P))) (struct_of s').
  Proof.
    rewrite (struct_of_ext s3 s' Hents').
    exact (proj1 (tick_sends_diff c s3 run cl3 p (fst P) (snd P) S0 [] Hok Hev Hvis Hp3 (sfc_send_eq c s3 cl3 p))).
  Qed.

  Lemma send_S_untouched e : ~ mentions upd e -> mem_N e (sv_despawn_buf s3) = false ->
    al_get e (abs_send S0 (co_update (snd P))) = al_get e S0.
  Proof.
    intros Hnm Hmem. rewrite (sfc_update_out c s3 cl3 p). destruct (sfc_has_upd s3 run cl3); [|reflexivity]. cbn [abs_send].
    apply untouched_get. destruct send_upd_fields as (_ & _ & Ed & _). unfold untouched. rewrite Ed.
    split; [intros Hin; apply mem_N_In in Hin; congruence|]. unfold mentions in Hnm. tauto.
  Qed.

  Lemma send_new_r t r s0 : SN' t r s0 -> SN t r s0 \/ forall t0 r0 s00, SN t0 r0 s00 -> r0 < r.
  Proof. intros H. destruct (Hsn' t r s0 H) as [Ho|(_ & -> & _)]; [left; exact Ho|right]. intros t0 r0 s00 H0. exact (Hboundr _ _ _ H0). Qed.

  (* an entity whose stamp is kept and that the update message does not mention: same kinds since that stamp, up to the new snapshot *)
  Lemma send_kstable e a : mutation_tick (sc_ticks cl3) e = Some a -> ~ mentions upd e -> mem_N e (sv_despawn_buf s3) = false ->
    forall t r s0, SN' t r s0 -> a <= r ->
      opt_equiv (al_get e (struct_of s0)) (al_get e (abs_send S0 (co_update (snd P)))) /\
      opt_equiv (al_get e (struct_of s0)) (al_get e (struct_of s')).
  Proof.
    intros Hst Hnm Hmem t r s0 Hs0 Ha.
    assert (Hd : opt_equiv (al_get e (abs_send S0 (co_update (snd P)))) (al_get e (struct_of s'))) by exact (proj1 (struct_equiv_pointwise _ _) send_diff e).
    destruct (Hsn' t r s0 Hs0) as [Ho|(_ & _ & ->)].
    - pose proof (sv_SK SN s3 cl3 cli pend muts acks Hslot e a Hst t r s0 Ho Ha) as H1. rewrite <- (send_S_untouched e Hnm Hmem) in H1.
      split; [exact H1|exact (opt_equiv_trans _ _ _ H1 Hd)].
    - split; [apply opt_equiv_sym; exact Hd|apply opt_equiv_refl].
  Qed.

  (* ---------- the mutate messages ---------- *)

  Lemma send_mut_ok extra m : (forall u, In u extra -> u = upd /\ sfc_has_upd s3 run cl3 = true) ->
    In m (co_mutates (snd P)) -> mut_ok SN' s' cli (pend ++ extra) m.
  Proof.
    intros Hex Hm. destruct (sfc_mut_header c s3 cl3 p m Hm) as [Ht Hu].
    assert (Hle : m_upd_tick m <= sv_tick s3).
    { rewrite Hu. destruct (sfc_has_upd s3 run cl3); [lia|exact (sv_ut SN s3 cl3 cli pend muts acks Hslot)]. }
    split; [rewrite Ht; exact Hle|]. exists run, s'. split; [rewrite Ht; exact Hnewsnap|].
    intros e vals Hb. destruct (sfc_mut_entry c s3 cl3 p Hvis Hwf m e vals Hm Hb) as (x & madd & Hr & Emu & Hne & Een & Ebump).
    destruct (send_repl e x madd Hr) as (_ & _ & _ & Hnd & _).
    destruct (send_ent e x madd Hr) as (Hv & [(_ & B & _)|(a & Hst & Hs & [(B & _)|(_ & _ & Ev & Erb)])]); [congruence|congruence|].
    rewrite Emu in Ev. rewrite <- Ev in Hv, Hs. split; [exact Hv|]. exists a. split; [exact Hs|].
    assert (Hnm : ~ mentions upd e).
    { destruct send_upd_fields as (_ & _ & _ & Er & Ec). unfold mentions. rewrite Er, Ec, keys_sort_by_key. intros [Hm0|Hm0].
      - apply al_get_keys_iff in Hm0. congruence.
      - apply al_get_keys_iff in Hm0. rewrite (send_changes_get e x madd Hr), Een in Hm0. congruence. }
    split.
    - apply send_conf_old; [|exact Hnd|exact Hst|].
      + intros e0 u Hd Hin. rewrite (proj1 (Hex u Hin)). intros Hm0. exact (send_not_dead e0 Hm0 Hd).
      + intros u0 Hu0. rewrite Hu. destruct (sfc_has_upd s3 run cl3).
        * pose proof (send_pend_lt u0 Hu0). lia.
        * pose proof (sv_utp SN s3 cl3 cli pend muts acks Hslot u0 Hu0). lia.
    - intros t r s0 Hs0 Ha _. exact (proj2 (send_kstable e a Hst Hnm (proj1 (proj2 (proj2 (proj2 (proj2 (send_repl e x madd Hr))))))
                                              t r s0 Hs0 Ha)).
  Qed.

  (* ---------- the invariants after the send ---------- *)

  Definition send_extra : list update_msg := if sfc_has_upd s3 run cl3 then [upd] else [].

  Lemma send_extra_out : send_extra = match co_update (snd P) with Some u => [u] | None => [] end.
  Proof. unfold send_extra. rewrite (sfc_update_out c s3 cl3 p). destruct (sfc_has_upd s3 run cl3); reflexivity. Qed.

  Lemma send_extra_in u : In u send_extra -> u = upd /\ sfc_has_upd s3 run cl3 = true.
  Proof. unfold send_extra. destruct (sfc_has_upd s3 run cl3); [intros [<-|[]]; auto|intros []]. Qed.

  Lemma send_new_dead e u : dead s3 e -> In u send_extra -> ~ mentions u e.
  Proof. intros Hd Hu Hm. rewrite (proj1 (send_extra_in u Hu)) in Hm. exact (send_not_dead e Hm Hd). Qed.

  Lemma send_dead_fwd e : dead s3 e -> dead s' e.
  Proof. apply send_dead. Qed.

  Theorem send_cli : cli_inv SN' s' cli (pend ++ send_extra) (muts ++ co_mutates (snd P)).
  Proof.
    pose proof Hcli as [H1 H2 H3 H4 H5 H6 H7 H8 H9 H10 H11]. destruct send_upd_fields as (Et & _ & Ed & _).
    constructor; try assumption.
    - intros e x h Hh. destruct (H4 e x h Hh) as (r & s1 & x1 & A & B). exists r, s1, x1. split; [exact (Hsn _ _ _ A)|exact B].
    - destruct H5 as [H5|(r & s1 & H5)]; [left; exact H5|right; exists r, s1; exact (Hsn _ _ _ H5)].
    - intros u Hu. apply in_app_or in Hu. destruct Hu as [Hu|Hu]; [exact (H6 u Hu)|].
      rewrite (proj1 (send_extra_in u Hu)), Et. destruct H5 as [->|(r & s1 & H5)]; [lia|exact (Hbound _ _ _ H5)].
    - unfold send_extra. destruct (sfc_has_upd s3 run cl3); [|rewrite app_nil_r; exact H7].
      apply ticks_incr_snoc; [exact H7|]. intros a Ha. rewrite Et. exact (send_pend_lt a Ha).
    - intros u Hu. apply in_app_or in Hu. destruct Hu as [Hu|Hu].
      + apply (upd_ok_grow SN SN' Hsn s3 s' cli pend send_extra send_dead_fwd send_new_dead). exact (H8 u Hu).
      + destruct (send_extra_in u Hu) as [-> _]. apply send_upd_ok; [exact Hu|]. intros u0 Hu0. exact (proj1 (send_extra_in u0 Hu0)).
    - intros m Hm. apply in_app_or in Hm. destruct Hm as [Hm|Hm].
      + apply (mut_ok_grow SN SN' Hsn s3 s' cli pend send_extra send_dead_fwd send_new_dead); [exact send_new_r|exact (H9 m Hm)].
      + apply send_mut_ok; [exact send_extra_in|exact Hm].
    - intros p0 u q E e He.
      assert (Hcase : (exists q', q = q' ++ send_extra /\ pend = p0 ++ u :: q') \/ (q = [] /\ In u send_extra /\ p0 = pend)).
      { unfold send_extra in *. destruct (sfc_has_upd s3 run cl3).
        - symmetry in E. apply app_snoc_split in E. destruct E as [[E1 E2]|[q' [E1 E2]]]; [discriminate|].
          destruct q' as [|f q'']; cbn [app] in E1.
          + injection E1 as Eu Eq. right. rewrite app_nil_r in E2. split; [exact Eq|]. split; [left; symmetry; exact Eu|symmetry; exact E2].
          + injection E1 as Eu Eq. left. exists q''. split; [exact Eq|]. rewrite Eu. exact E2.
        - rewrite app_nil_r in E. left. exists q. split; [rewrite app_nil_r; reflexivity|exact E]. }
      destruct Hcase as [(q' & -> & Ep)|(-> & Hu & ->)].
      + destruct (H10 p0 u q' Ep e He) as (A & B & C). split; [exact (send_dead_fwd e A)|]. split; [exact B|].
        intros u' Hu'. apply in_app_or in Hu'. destruct Hu' as [Hu'|Hu']; [exact (C u' Hu')|exact (send_new_dead e u' A Hu')].
      + destruct (send_extra_in u Hu) as [-> _]. rewrite Ed in He. pose proof (Hdb e He) as Hd.
        split; [exact (send_dead_fwd e Hd)|]. split; [intros Hm; exact (send_not_dead e Hm Hd)|intros u' []].
    - intros p0 u q E.
      assert (Hcase : (exists q', q = q' ++ send_extra /\ pend = p0 ++ u :: q') \/ (q = [] /\ In u send_extra /\ p0 = pend)).
      { unfold send_extra in *. destruct (sfc_has_upd s3 run cl3).
        - symmetry in E. apply app_snoc_split in E. destruct E as [[E1 E2]|[q' [E1 E2]]]; [discriminate|].
          destruct q' as [|f q'']; cbn [app] in E1.
          + injection E1 as Eu Eq. right. rewrite app_nil_r in E2. split; [exact Eq|]. split; [left; symmetry; exact Eu|symmetry; exact E2].
          + injection E1 as Eu Eq. left. exists q''. split; [exact Eq|]. rewrite Eu. exact E2.
        - rewrite app_nil_r in E. left. exists q. split; [rewrite app_nil_r; reflexivity|exact E]. }
      destruct Hcase as [(q' & _ & Ep)|(_ & Hu & ->)].
      + destruct (H11 p0 u q' Ep) as (r & s1 & A & B). exists r, s1. split; [exact (Hsn _ _ _ A)|exact B].
      + destruct (send_extra_in u Hu) as [-> Hhas]. exists run, s'. split; [rewrite Et; exact Hnewsnap|].
        rewrite fold_left_app. cbn [fold_left]. pose proof send_diff as Hd. rewrite (sfc_update_out c s3 cl3 p), Hhas in Hd. exact Hd.
  Qed.

  Lemma mut_ticks_entry this_run elapsed parts : forall t i info,
    al_get i (ct_mutations (mut_ticks this_run elapsed t parts)) = Some info ->
    al_get i (ct_mutations t) = Some info \/ ClientTicks.mi_tick info = this_run.
  Proof.
    induction parts as [|ents r IH]; intros t i info H; [left; exact H|]. rewrite mut_ticks_cons in H.
    destruct (IH _ i info H) as [H0|H0]; [|right; exact H0].
    destruct (reg_step_fields this_run elapsed t ents) as (_ & _ & _ & F4 & F5).
    destruct (N.eq_dec i (ct_mutate_index t)) as [->|Hne].
    - rewrite F4 in H0. inversion H0. right. reflexivity.
    - rewrite (F5 i Hne) in H0. left. exact H0.
  Qed.

  Lemma mut_ticks_nodup this_run elapsed parts : forall t,
    NoDup (al_keys (ct_mutations t)) -> NoDup (al_keys (ct_mutations (mut_ticks this_run elapsed t parts))).
  Proof.
    induction parts as [|ents r IH]; intros t H; [exact H|]. rewrite mut_ticks_cons. apply IH.
    unfold ServerSpec.reg_step, register_mutate_message, add_entities. cbn [fst ct_mutations].
    rewrite al_keys_adjust. apply al_insert_nodup. exact H.
  Qed.

  Theorem send_slot : srv_slot_inv SN' s' (fst P) cli (pend ++ send_extra) (muts ++ co_mutates (snd P)) acks.
  Proof.
    pose proof Hslot as [K1 K2 K3 K4 K5 K6 K7 K8 K9 [K10a K10b] K11 K12]. destruct send_upd_fields as (Et & _).
    destruct (sfc_regs c s3 cl3 p Hnowrap) as (R1 & R2 & R3). cbv zeta in R1, R2, R3.
    assert (Hut' : ct_update_tick (sc_ticks (fst P)) = if sfc_has_upd s3 run cl3 then sv_tick s3 else ct_update_tick (sc_ticks cl3)).
    { rewrite (sfc_ticks_final c s3 cl3 p). rewrite (proj1 (proj2 (mut_ticks_fields run (sv_elapsed s3) _ _))).
      exact (proj2 (proj2 (proj2 (sfc_ticks3_fields s3 run cl3)))). }
    constructor.
    - (* K *)
      intros e a Hst. rewrite Htick'.
      assert (Hkept : (forall x madd, In (e, x, madd) (replicated_ents s3) -> ec_bump (ecof e x madd) = false) ->
                conf_since SN' s' cli (pend ++ send_extra) (sv_tick s3 + 1) e a).
      { intros Hnb. rewrite (sfc_stamp_kept c s3 cl3 p Hvis Hwf e Hnb) in Hst.
        destruct (mem_N e (sv_despawn_buf s3)); [discriminate|].
        apply (conf_since_grow SN SN' Hsn s3 s' cli pend send_extra send_dead_fwd send_new_dead (sv_tick s3 + 1)); [lia|exact (K1 e a Hst)]. }
      destruct (repl_get s3 e) as [x|] eqn:Ex.
      + apply (repl_get_spec s3 e x Hwf) in Ex. destruct Ex as [madd Hin].
        destruct (ec_bump (ecof e x madd)) eqn:Eb.
        * rewrite (sfc_stamp_bumped c s3 cl3 p Hvis Hwf e x madd Hin Eb) in Hst. inversion Hst; subst a.
          exists (sv_tick s3), s'. split; [exact Hnewsnap|]. left.
          assert (Hm : mentions upd e).
          { destruct send_upd_fields as (_ & _ & _ & Er & Ec). unfold mentions. rewrite Er, Ec, keys_sort_by_key.
            destruct (ec_entry (ecof e x madd)) as [en|] eqn:Een.
            - right. apply al_get_keys_iff. rewrite (send_changes_get e x madd Hin), Een. discriminate.
            - left. apply al_get_keys_iff. destruct (send_ent e x madd Hin) as (_ & [(E & _)|(a0 & _ & _ & [(_ & _ & F)|(B & _)])]); [congruence| |congruence].
              exact (proj2 (F Een)). }
          exists upd. split; [apply in_or_app; right; unfold send_extra; rewrite (send_has_upd e Hm); left; reflexivity|].
          split; [lia|]. split; [exact Hm|lia].
        * apply Hkept. intros x' madd' Hin'. destruct (repl_ents_unique s3 e x madd x' madd' Hwf Hin Hin') as [-> ->]. exact Eb.
      + apply Hkept. intros x madd Hin. exfalso. assert (repl_get s3 e = Some x) by (apply repl_get_spec; [exact Hwf|exists madd; exact Hin]). congruence.
    - (* acknowledgements on their way *)
      intros i info e Hi Hinfo He. rewrite (R3 i (K5 i Hi)) in Hinfo.
      apply (conf_since_grow SN SN' Hsn s3 s' cli pend send_extra send_dead_fwd send_new_dead 0); [lia|exact (K2 i info e Hi Hinfo He)].
    - (* registered messages *)
      intros m info Hm Hinfo. apply in_app_or in Hm. destruct Hm as [Hm|Hm].
      + rewrite (R3 (m_idx m) (K4 m Hm)) in Hinfo. destruct (K3 m info Hm Hinfo) as [[s1 A] B]. split; [exists s1; exact (Hsn _ _ _ A)|exact B].
      + destruct (R2 m Hm) as (_ & Hreg). rewrite Hreg in Hinfo. inversion Hinfo; subst info. cbn [ClientTicks.mi_tick mi_entities].
        split; [|reflexivity]. exists s'. rewrite (proj1 (sfc_mut_header c s3 cl3 p m Hm)). exact Hnewsnap.
    - intros m Hm. apply in_app_or in Hm. destruct Hm as [Hm|Hm]; [pose proof (K4 m Hm); lia|exact (proj2 (proj1 (R2 m Hm)))].
    - intros i Hi. pose proof (K5 i Hi). lia.
    - rewrite Hut', Htick'. destruct (sfc_has_upd s3 run cl3); [lia|exact K6].
    - intros u Hu. rewrite Hut'. apply in_app_or in Hu. destruct Hu as [Hu|Hu].
      + destruct (sfc_has_upd s3 run cl3); [pose proof (send_pend_lt u Hu); lia|exact (K7 u Hu)].
      + destruct (send_extra_in u Hu) as [-> ->]. lia.
    - rewrite (sfc_ticks_final c s3 cl3 p). apply mut_ticks_nodup. rewrite (proj1 (proj2 (sfc_ticks3_fields s3 run cl3))). exact K8.
    - (* kinds since the acknowledged stamp *)
      intros e a Hst t r s0 Hs0 Ha.
      assert (Efold : fold_left abs_apply (pend ++ send_extra) (client_struct cli) = abs_send S0 (co_update (snd P))).
      { rewrite fold_left_app, send_extra_out. destruct (co_update (snd P)); reflexivity. }
      rewrite Efold.
      assert (Hnewcase : a = run -> opt_equiv (al_get e (struct_of s0)) (al_get e (abs_send S0 (co_update (snd P))))).
      { intros ->. destruct (Hsn' t r s0 Hs0) as [Ho|(_ & _ & ->)]; [pose proof (Hboundr _ _ _ Ho); lia|].
        apply opt_equiv_sym. exact (proj1 (struct_equiv_pointwise _ _) send_diff e). }
      assert (Hkept : (forall x madd, In (e, x, madd) (replicated_ents s3) -> ec_bump (ecof e x madd) = false) ->
                opt_equiv (al_get e (struct_of s0)) (al_get e (abs_send S0 (co_update (snd P))))).
      { intros Hnb. rewrite (sfc_stamp_kept c s3 cl3 p Hvis Hwf e Hnb) in Hst.
        destruct (mem_N e (sv_despawn_buf s3)) eqn:Emem; [discriminate|].
        assert (Hnm : ~ mentions upd e).
        { intros Hm. destruct (send_mentions e Hm) as (x & madd & Hin & _ & Hb). rewrite (Hnb x madd Hin) in Hb. discriminate. }
        exact (proj1 (send_kstable e a Hst Hnm Emem t r s0 Hs0 Ha)). }
      destruct (repl_get s3 e) as [x|] eqn:Ex.
      + apply (repl_get_spec s3 e x Hwf) in Ex. destruct Ex as [madd Hin].
        destruct (ec_bump (ecof e x madd)) eqn:Eb.
        * rewrite (sfc_stamp_bumped c s3 cl3 p Hvis Hwf e x madd Hin Eb) in Hst. inversion Hst; subst a. exact (Hnewcase eq_refl).
        * apply Hkept. intros x' madd' Hin'. destruct (repl_ents_unique s3 e x madd x' madd' Hwf Hin Hin') as [-> ->]. exact Eb.
      + apply Hkept. intros x madd Hin. exfalso. assert (repl_get s3 e = Some x) by (apply repl_get_spec; [exact Hwf|exists madd; exact Hin]). congruence.
    - (* stamps below the counter *)
      rewrite Hnow'. split.
      + intros e a Hst. rewrite (sfc_stamp_after c s3 cl3 p Hvis e) in Hst.
        destruct (existsb _ (sfc_ecs s3 run cl3)); [inversion Hst; lia|]. destruct (mem_N e (sv_despawn_buf s3)); [discriminate|].
        pose proof (K10a e a Hst). lia.
      + intros i info Hi. destruct (N.lt_ge_cases i (ct_mutate_index (sc_ticks cl3))) as [Hlt|Hge].
        * rewrite (R3 i Hlt) in Hi. pose proof (K10b i info Hi). lia.
        * rewrite (sfc_ticks_final c s3 cl3 p) in Hi.
          destruct (mut_ticks_entry run (sv_elapsed s3) (sfc_parts c s3 run cl3 p) (sfc_ticks3 s3 run cl3) i info Hi) as [Hold|Hnew].
          -- rewrite (proj1 (proj2 (sfc_ticks3_fields s3 run cl3))) in Hold. pose proof (K10b i info Hold). lia.
          -- rewrite Hnew. lia.
    - intros m Hm. rewrite Hut'. apply in_app_or in Hm. destruct Hm as [Hm|Hm].
      + pose proof (K11 m Hm). destruct (sfc_has_upd s3 run cl3); lia.
      + rewrite (proj2 (sfc_mut_header c s3 cl3 p m Hm)). lia.
    - rewrite Hut'. unfold send_extra. destruct (sfc_has_upd s3 run cl3).
      + rewrite map_app. cbn [map]. rewrite last_snoc. exact (eq_sym Et).
      + rewrite app_nil_r. exact K12.
  Qed.

  (* ---------- after the send, every replicated entity is covered ---------- *)

  (* its acknowledged stamp is not older than any of its components, or a mutate message of this run that is
     registered under its index carries it *)
  Lemma send_covered e x madd : In (e, x, madd) (replicated_ents s3) ->
    (exists a, mutation_tick (sc_ticks (fst P)) e = Some a /\ forall k cc, In (k, cc) (se_comps x) -> c_changed cc <= a) \/
    (mutation_tick (sc_ticks (fst P)) e <> None /\
     exists m, In m (co_mutates (snd P)) /\ In e (map fst (m_body m)) /\
       al_get (m_idx m) (ct_mutations (sc_ticks (fst P))) = Some (mkMI run (sv_elapsed s3) (map fst (m_body m))) /\
       forall k cc, In (k, cc) (se_comps x) -> c_changed cc <= run).
  Proof.
    intros Hin. destruct (send_repl e x madd Hin) as (Hg & _ & _ & Hnd & Hmem & Hcok & _).
    assert (Hle : forall k cc, In (k, cc) (se_comps x) -> c_changed cc <= run).
    { intros k cc Hk. exact (proj2 (proj2 (proj2 (proj2 Hcok k cc Hk)))). }
    destruct (ec_bump (ecof e x madd)) eqn:Eb.
    - left. exists run. split; [exact (sfc_stamp_bumped c s3 cl3 p Hvis Hwf e x madd Hin Eb)|exact Hle].
    - assert (Hkept : mutation_tick (sc_ticks (fst P)) e = mutation_tick (sc_ticks cl3) e).
      { rewrite (sfc_stamp_kept c s3 cl3 p Hvis Hwf e); [rewrite Hmem; reflexivity|].
        intros x' madd' Hin'. destruct (repl_ents_unique s3 e x madd x' madd' Hwf Hin Hin') as [-> ->]. exact Eb. }
      destruct (send_ent e x madd Hin) as (_ & [(_ & B & _)|(a & Hst & Hs & [(B & _)|(_ & Een & Ev & _)])]); [congruence|congruence|].
      destruct (ec_muts (ecof e x madd)) as [|kv0 r0] eqn:Em.
      + left. exists a. split; [rewrite Hkept; exact Hst|]. intros k cc Hk.
        destruct (Hs x k cc (proj1 (proj2 (send_repl e x madd Hin))) (proj1 (comps_in_get x k cc Hcok) Hk)) as [Hi|Hc]; [|exact Hc].
        rewrite <- Ev in Hi. destruct Hi.
      + right. split; [rewrite Hkept, Hst; discriminate|].
        assert (Hms : In e (map fst (mutated_set s3 run cl3))).
        { apply in_map_iff. exists (e, kv0 :: r0). split; [reflexivity|]. rewrite mutated_set_eq, In_muts_of.
          exists (ecof e x madd). split; [|split; [exact Em|discriminate]].
          rewrite (nv_ecs s3 cl3 run Hvis Hwf). apply in_map_iff. exists (e, x, madd). split; [reflexivity|exact Hin]. }
        destruct (sfc_mut_covered c s3 cl3 p e Hms) as (m & Hm & Hem). exists m. split; [exact Hm|]. split; [exact Hem|].
        split; [exact (proj2 (proj1 (proj2 (sfc_regs c s3 cl3 p Hnowrap)) m Hm))|exact Hle].
  Qed.
End Send.
