(* C01 in the shape of the property: after the lossless schedule the test harness uses (a ticking server
   frame without operations; for every client: deliver all updates, deliver all mutations, run the client,
   deliver its acknowledgements), run twice, the premises of the convergence theorem (Q, Repl/ValE2E_proofs.v)
   hold for every connected, authorized client of the schedule. *)
From RV Require Import Lib.Res Repl.ClientTicks Repl.ClientTicks_proofs Repl.World Vis.Visibility
  Tick.RepliconTick Tick.RepliconTick_proofs Tick.ConfirmHistory Tick.MutateTicks
  Repl.Server Repl.ServerSpec Repl.Server_proofs Wire.AckCodec Wire.AckCodec_proofs Repl.Ack_proofs Repl.StructSpec Repl.Struct_proofs
  Repl.StructOps_proofs Repl.StructRun_proofs
  Repl.Client Repl.Sys Repl.Client_proofs Repl.ClientEnt_proofs Repl.ClientMut_proofs Repl.ClientSys_proofs
  Repl.ClientStructSpec Repl.ClientStruct_proofs Repl.ClientHist_proofs Repl.StructE2E_proofs Repl.StructE2EMut_proofs
  Repl.ValSpec Repl.ValSnap_proofs Repl.ValHist_proofs Repl.ValClient_proofs Repl.ValServer_proofs Repl.ValCli_proofs
  Repl.ValSrv_proofs Repl.ValFrame_proofs Repl.ValE2E_proofs.
From RV Require Repl.Converge.
From Coq Require Import ZifyBool ZifyN.
Open Scope N_scope.
Ltac Zify.zify_post_hook ::= Z.div_mod_to_equations.
Arguments N.add : simpl never. Arguments N.mul : simpl never. Arguments N.pow : simpl never.
Arguments N.ltb : simpl never. Arguments N.leb : simpl never. Arguments N.div : simpl never.
Arguments N.modulo : simpl never. Arguments N.sub : simpl never. Arguments N.eqb : simpl never.

(* ================================================================== *)
(* 1. the `Replicated` marker is never stamped in the future          *)
(* ================================================================== *)

Definition markers_ok (s : server) : Prop :=
  forall e x madd, get_ent s e = Some x -> se_marker x = Some madd -> madd <= sv_now s.

Lemma markers_ok_ext s s' : sv_ents s' = sv_ents s -> sv_now s <= sv_now s' -> markers_ok s -> markers_ok s'.
Proof. intros E Hn H e x madd Hx Hm. unfold get_ent in Hx. rewrite E in Hx. pose proof (H e x madd Hx Hm). lia. Qed.

Lemma markers_set_ent s e x' : markers_ok s -> (forall madd, se_marker x' = Some madd -> madd <= sv_now s) -> markers_ok (set_ent s e x').
Proof.
  intros H Hx' e0 x madd Hx Hm. rewrite get_ent_set_ent in Hx. change (sv_now (set_ent s e x')) with (sv_now s).
  destruct (e0 =? e); [inversion Hx; subst x; exact (Hx' madd Hm)|exact (H e0 x madd Hx Hm)].
Qed.

Lemma apply_sop_markers s op : markers_ok s -> markers_ok (apply_sop s op).
Proof.
  intros H.
  assert (Hbd : forall s0 e0, markers_ok s0 -> markers_ok (buffer_despawn s0 e0)).
  { intros s0 e0 H0. apply (markers_ok_ext s0); [apply sv_ents_buffer_despawn| |exact H0].
    unfold buffer_despawn. destruct (sv_running s0); cbn; lia. }
  destruct op as [e marker comps|e|e k v|e k|e k v|e|e|slot e visible|slot e pc]; unfold apply_sop.
  - destruct (get_ent s e); [exact H|]. apply markers_set_ent; [exact H|]. cbn. intros madd Hm. destruct marker; [inversion Hm; lia|discriminate].
  - destruct (get_ent s e) as [x|] eqn:Ex; [|exact H]. destruct (se_alive x); [|exact H].
    assert (H1 : markers_ok (set_ent s e (mkSEnt false None []))) by (apply markers_set_ent; [exact H|cbn; discriminate]).
    destruct (se_marker x); [apply Hbd; exact H1|exact H1].
  - destruct (get_ent s e) as [x|] eqn:Ex; [|exact H]. destruct (se_alive x && val_ok s v); [|exact H].
    apply markers_set_ent; [exact H|]. cbn. intros madd Hm. exact (H e x madd Ex Hm).
  - destruct (get_ent s e) as [x|] eqn:Ex; [|exact H]. destruct (se_alive x); [|exact H].
    destruct (al_get k (se_comps x)); [|exact H].
    apply (markers_ok_ext (set_ent s e (mkSEnt true (se_marker x) (al_remove k (se_comps x))))); [reflexivity|cbn; lia|].
    apply markers_set_ent; [exact H|]. cbn. intros madd Hm. exact (H e x madd Ex Hm).
  - destruct (get_ent s e) as [x|] eqn:Ex; [|exact H]. destruct (se_alive x && val_ok s v); [|exact H].
    destruct (al_get k (se_comps x)); [|exact H]. apply markers_set_ent; [exact H|]. cbn. intros madd Hm. exact (H e x madd Ex Hm).
  - destruct (get_ent s e) as [x|] eqn:Ex; [|exact H]. destruct (se_alive x); [|exact H].
    destruct (se_marker x); [exact H|]. apply markers_set_ent; [exact H|]. cbn. intros madd Hm. inversion Hm. lia.
  - destruct (get_ent s e) as [x|] eqn:Ex; [|exact H]. destruct (se_alive x); [|exact H].
    destruct (se_marker x); [|exact H]. apply Hbd. apply markers_set_ent; [exact H|cbn; discriminate].
  - destruct (find_client s slot) as [c0|]; [|exact H]. destruct (get_ent s e); [|exact H]. destruct (sc_vis c0); exact H.
  - destruct (find_client s slot) as [c0|]; [|exact H]. destruct (get_ent s e); [|exact H].
    destruct (sc_authorized c0 && existsb _ (sv_premap s)); exact H.
Qed.

Lemma ops_markers ops : forall s, markers_ok s -> markers_ok (fold_left apply_sop ops s).
Proof. induction ops as [|op t IH]; intros s H; cbn [fold_left]; [exact H|]. apply IH. apply apply_sop_markers. exact H. Qed.

Lemma markers_run script : forall y y', run y script = Ok y' -> markers_ok (y_server y) -> markers_ok (y_server y').
Proof.
  induction script as [|st t IH]; intros y y' H H0; cbn [run] in H; [inversion H; subst; exact H0|].
  destruct (sys_step y st) as [[y1 o]| |] eqn:E; cbn [bind] in H; try discriminate. apply (IH y1 y' H).
  destruct (is_sframe st) eqn:Esf.
  - destruct st as [| | | | |tick dt cleanup ops parts| | |]; try discriminate.
    destruct (sframe_step_inv _ _ _ _ _ _ _ _ E) as (fo & vs & _ & Ef).
    destruct (server_frame_core _ _ _ _ _ _ _ _ _ Ef) as (s2 & A1 & A2 & _ & A4 & Hcase).
    apply (markers_ok_ext (fold_left apply_sop ops s2)); [exact A4| |apply ops_markers; apply (markers_ok_ext (y_server y)); [exact A1|lia|exact H0]].
    rewrite ops_now, A2. destruct Hcase as [(_ & _ & _ & N1 & _)|(_ & N1 & _)]; rewrite N1; lia.
  - destruct (nonframe_fields y st y1 o E Esf) as [(A & B & _) _]. apply (markers_ok_ext (y_server y)); [exact A|lia|exact H0].
Qed.

Lemma markers_init cfg0 n : markers_ok (y_server (sys_init cfg0 n)).
Proof. intros e x madd Hx. discriminate. Qed.

(* ================================================================== *)
(* 2. what processing acknowledgements does to the stamps             *)
(* ================================================================== *)

Definition ct_bounded (ct : client_ticks) (now : N) : Prop :=
  (forall e a, mutation_tick ct e = Some a -> a < now) /\
  (forall i info, al_get i (ct_mutations ct) = Some info -> ClientTicks.mi_tick info < now).

Lemma ack_one_facts ct now i : now < MAX_CHANGE_AGE -> ct_bounded ct now ->
  ct_bounded (ack_mutate_message ct now i) now /\
  (forall e a, mutation_tick ct e = Some a -> exists a', mutation_tick (ack_mutate_message ct now i) e = Some a' /\ a <= a') /\
  (forall info e a, al_get i (ct_mutations ct) = Some info -> In e (mi_entities info) -> mutation_tick ct e = Some a ->
     exists a', mutation_tick (ack_mutate_message ct now i) e = Some a' /\ ClientTicks.mi_tick info <= a').
Proof.
  intros Hmax [B1 B2].
  assert (Hst : forall e a, mutation_tick ct e = Some a ->
            exists a', mutation_tick (ack_mutate_message ct now i) e = Some a' /\ a <= a' /\ a' < now /\
              (forall info, al_get i (ct_mutations ct) = Some info -> In e (mi_entities info) -> ClientTicks.mi_tick info <= a')).
  { intros e a Ha. rewrite ack_stamps. destruct (al_get i (ct_mutations ct)) as [info|] eqn:Ei.
    - destruct (existsb (N.eqb e) (mi_entities info)) eqn:Ex.
      + rewrite Ha. cbn [option_map]. pose proof (B1 e a Ha). pose proof (B2 i info Ei).
        rewrite (ack_stamp_max (ClientTicks.mi_tick info) now a) by lia. eexists. split; [reflexivity|].
        split; [lia|]. split; [lia|]. intros info0 E0 _. inversion E0; subst info0. lia.
      + exists a. split; [exact Ha|]. split; [lia|]. split; [exact (B1 e a Ha)|]. intros info0 E0 Hin. inversion E0; subst info0.
        exfalso. assert (Hex : existsb (N.eqb e) (mi_entities info) = true) by (apply existsb_exists; exists e; split; [exact Hin|lia]). congruence.
    - exists a. split; [exact Ha|]. split; [lia|]. split; [exact (B1 e a Ha)|]. intros info0 E0. discriminate. }
  split; [split|split].
  - intros e a' Ha'. destruct (mutation_tick ct e) as [a|] eqn:Ea.
    + destruct (Hst e a Ea) as (a2 & E2 & _ & Hlt & _). congruence.
    + exfalso. pose proof (proj1 (ack_keeps_known ct now i e)) as Hk. apply Hk; [rewrite Ha'; discriminate|exact Ea].
  - intros j info Hj. destruct (N.eq_dec j i) as [->|Hne]; [rewrite ack_entry_removed in Hj; discriminate|].
    rewrite ack_other_entries in Hj by exact Hne. exact (B2 j info Hj).
  - intros e a Ha. destruct (Hst e a Ha) as (a' & E & Hle & _). exists a'. auto.
  - intros info e a Ei Hin Ha. destruct (Hst e a Ha) as (a' & E & _ & _ & Hcov). exists a'. split; [exact E|exact (Hcov info Ei Hin)].
Qed.

Lemma ack_all_facts now idxs : now < MAX_CHANGE_AGE -> forall ct, ct_bounded ct now ->
  ct_bounded (ack_all ct now idxs) now /\
  (forall e a, mutation_tick ct e = Some a -> exists a', mutation_tick (ack_all ct now idxs) e = Some a' /\ a <= a') /\
  (forall i info e a, In i idxs -> al_get i (ct_mutations ct) = Some info -> In e (mi_entities info) -> mutation_tick ct e = Some a ->
     exists a', mutation_tick (ack_all ct now idxs) e = Some a' /\ ClientTicks.mi_tick info <= a').
Proof.
  intros Hmax. induction idxs as [|j r IH]; intros ct Hb.
  - split; [exact Hb|]. split; [intros e a Ha; exists a; split; [exact Ha|lia]|]. intros i info e a [].
  - rewrite ack_all_cons. destruct (ack_one_facts ct now j Hmax Hb) as (Hb1 & Hm1 & Hc1).
    destruct (IH _ Hb1) as (Hb2 & Hm2 & Hc2). split; [exact Hb2|]. split.
    + intros e a Ha. destruct (Hm1 e a Ha) as (a1 & E1 & L1). destruct (Hm2 e a1 E1) as (a2 & E2 & L2). exists a2. split; [exact E2|lia].
    + intros i info e a Hi Ei Hin Ha. destruct (N.eq_dec i j) as [->|Hne].
      * destruct (Hc1 info e a Ei Hin Ha) as (a1 & E1 & L1). destruct (Hm2 e a1 E1) as (a2 & E2 & L2). exists a2. split; [exact E2|lia].
      * destruct Hi as [Hi|Hi]; [congruence|]. destruct (Hm1 e a Ha) as (a1 & E1 & L1).
        apply (Hc2 i info e a1 Hi); [rewrite ack_other_entries by exact Hne; exact Ei|exact Hin|exact E1].
Qed.

(* ================================================================== *)
(* 3. the steps of the lossless schedule                              *)
(* ================================================================== *)

Definition settle_slot (sl : N) : list step :=
  [StDeliver sl true 0 All; StDeliver sl true 1 All; StCFrame sl []; StDeliver sl false 0 All].
Definition settle_frame : step := StSFrame true 16 false [] [].
Definition settle_round (slots : list N) : list step := settle_frame :: flat_map settle_slot slots.

(* the steps of a round after the server frame *)
Inductive settle_nf : step -> Prop :=
| snf_upd sl : settle_nf (StDeliver sl true 0 All)
| snf_mut sl : settle_nf (StDeliver sl true 1 All)
| snf_cf sl : settle_nf (StCFrame sl [])
| snf_ack sl : settle_nf (StDeliver sl false 0 All).

Lemma settle_slot_nf sl : Forall settle_nf (settle_slot sl).
Proof. repeat constructor. Qed.

Lemma settle_slots_nf slots : Forall settle_nf (flat_map settle_slot slots).
Proof.
  induction slots as [|a t IH]; cbn [flat_map]; [constructor|]. apply Forall_app. split; [apply settle_slot_nf|exact IH].
Qed.

Definition step_slot (st : step) : N :=
  match st with StDeliver s _ _ _ | StCFrame s _ => s | _ => 0 end.

(* the parts of the server the steps between two frames leave alone *)
Definition srv_same (s s' : server) : Prop :=
  sv_ents s' = sv_ents s /\ sv_despawn_buf s' = sv_despawn_buf s /\ sv_removal_buf s' = sv_removal_buf s /\
  sv_removed_events s' = sv_removed_events s /\ sv_last_run s' = sv_last_run s /\ sv_now s' = sv_now s /\
  sv_clients s' = sv_clients s /\ sv_running s' = sv_running s.

Lemma srv_same_refl s : srv_same s s.
Proof. unfold srv_same. repeat split. Qed.

Lemma deliver_acks_same slot0 picked : forall s, srv_same s (fold_left (fun s idxs => deliver_acks s slot0 idxs) picked s).
Proof.
  induction picked as [|idxs t IH]; intros s; cbn [fold_left]; [apply srv_same_refl|].
  destruct (IH (deliver_acks s slot0 idxs)) as (A1 & A2 & A3 & A4 & A5 & A6 & A7 & A8).
  assert (H1 : srv_same s (deliver_acks s slot0 idxs)).
  { unfold deliver_acks. destruct (sv_running s) eqn:E; [|apply srv_same_refl]. destruct (find_client s slot0); [|apply srv_same_refl].
    unfold srv_same. cbn. repeat split. symmetry. exact E. }
  destruct H1 as (B1 & B2 & B3 & B4 & B5 & B6 & B7 & B8). unfold srv_same. repeat split; congruence.
Qed.

Lemma deliver_acks_other slot0 picked sl : sl <> slot0 -> forall s,
  acks_for sl (sv_inbox_acks (fold_left (fun s idxs => deliver_acks s slot0 idxs) picked s)) = acks_for sl (sv_inbox_acks s).
Proof.
  intros Hne. induction picked as [|idxs t IH]; intros s; cbn [fold_left]; [reflexivity|]. rewrite IH.
  unfold deliver_acks. destruct (sv_running s); [|reflexivity]. destruct (find_client s slot0); [|reflexivity].
  cbn [sv_inbox_acks]. rewrite acks_for_app, (acks_for_other sl slot0 idxs Hne), app_nil_r. reflexivity.
Qed.

Lemma deliver_acks_own slot0 picked : forall s, sv_running s = true -> find_client s slot0 <> None ->
  acks_for slot0 (sv_inbox_acks (fold_left (fun s idxs => deliver_acks s slot0 idxs) picked s)) =
  acks_for slot0 (sv_inbox_acks s) ++ concat picked.
Proof.
  induction picked as [|idxs t IH]; intros s Hr Hf; cbn [fold_left concat]; [rewrite app_nil_r; reflexivity|].
  assert (E : deliver_acks s slot0 idxs =
              mkSrv (sv_running s) (sv_last_running s) (sv_now s) (sv_last_run s) (sv_tick s) (sv_dirty s) (sv_elapsed s)
                    (sv_ents s) (sv_despawn_buf s) (sv_removal_buf s) (sv_removed_events s) (sv_clients s)
                    (sv_inbox_acks s ++ [(slot0, idxs)]) (sv_premap s)).
  { unfold deliver_acks. rewrite Hr. destruct (find_client s slot0); [reflexivity|congruence]. }
  rewrite IH; [|rewrite E; exact Hr|rewrite E; exact Hf]. rewrite E. cbn [sv_inbox_acks].
  rewrite acks_for_app, acks_for_same, <- app_assoc. reflexivity.
Qed.

(* the shapes of the four steps *)
Lemma step_upd y sl c y' o : al_get sl (y_clients y) = Some c -> sys_step y (StDeliver sl true 0 All) = Ok (y', o) ->
  y' = set_client (set_link y sl (mkLink [] (l_mut (get_link y sl)) (l_ack (get_link y sl)))) sl
                  (fold_left deliver_update (l_upd (get_link y sl)) c).
Proof. intros Hc H. cbn [sys_step] in H. rewrite Hc in H. change (0 =? 0) with true in H. cbn [take] in H. inversion H. reflexivity. Qed.

Lemma step_mut y sl c y' o : al_get sl (y_clients y) = Some c -> sys_step y (StDeliver sl true 1 All) = Ok (y', o) ->
  y' = set_client (set_link y sl (mkLink (l_upd (get_link y sl)) [] (l_ack (get_link y sl)))) sl
                  (fold_left deliver_mutate (l_mut (get_link y sl)) c).
Proof.
  intros Hc H. cbn [sys_step] in H. rewrite Hc in H. change (1 =? 0) with false in H. change (1 =? 1) with true in H.
  cbn [take] in H. inversion H. reflexivity.
Qed.

Lemma step_ack y sl c y' o : al_get sl (y_clients y) = Some c -> sys_step y (StDeliver sl false 0 All) = Ok (y', o) ->
  y' = set_server (set_link y sl (mkLink (l_upd (get_link y sl)) (l_mut (get_link y sl)) []))
                  (fold_left (fun s idxs => deliver_acks s sl idxs) (l_ack (get_link y sl)) (y_server y)).
Proof. intros Hc H. cbn [sys_step] in H. rewrite Hc in H. change (0 =? 0) with true in H. cbn [take] in H. inversion H. reflexivity. Qed.

Lemma step_noclient y st y' o : settle_nf st -> al_get (step_slot st) (y_clients y) = None -> sys_step y st = Ok (y', o) -> y' = y.
Proof. intros Hnf Hc H. destruct Hnf; cbn [step_slot] in Hc; cbn [sys_step] in H; rewrite Hc in H; inversion H; reflexivity. Qed.

(* a step of another slot *)
Lemma step_other y st y' o sl : settle_nf st -> step_slot st <> sl -> sys_step y st = Ok (y', o) ->
  get_link y' sl = get_link y sl /\ al_get sl (y_clients y') = al_get sl (y_clients y) /\
  srv_same (y_server y) (y_server y') /\ acks_for sl (sv_inbox_acks (y_server y')) = acks_for sl (sv_inbox_acks (y_server y)).
Proof.
  intros Hnf Hne H.
  destruct (al_get (step_slot st) (y_clients y)) as [c0|] eqn:Ec.
  2:{ rewrite (step_noclient y st y' o Hnf Ec H). split; [reflexivity|]. split; [reflexivity|]. split; [apply srv_same_refl|reflexivity]. }
  destruct Hnf as [s0|s0|s0|s0]; cbn [step_slot] in Hne, Ec.
  - rewrite (step_upd y s0 c0 y' o Ec H). change (get_link (set_client ?a ?b ?c1) sl) with (get_link a sl).
    rewrite get_link_set_link_other by congruence. cbn [set_client set_link y_clients y_server]. rewrite al_get_insert_other by congruence.
    split; [reflexivity|]. split; [reflexivity|]. split; [apply srv_same_refl|reflexivity].
  - rewrite (step_mut y s0 c0 y' o Ec H). change (get_link (set_client ?a ?b ?c1) sl) with (get_link a sl).
    rewrite get_link_set_link_other by congruence. cbn [set_client set_link y_clients y_server]. rewrite al_get_insert_other by congruence.
    split; [reflexivity|]. split; [reflexivity|]. split; [apply srv_same_refl|reflexivity].
  - pose proof H as H0. cbn [sys_step] in H. rewrite Ec in H.
    destruct (client_frame c0 []) as [[c0' cfo]| |] eqn:Ef; cbn [bind] in H; try discriminate.
    destruct (cframe_links y s0 [] c0 c0' cfo y' o Ec Ef H0) as ([pcs G1] & G2 & G3 & _).
    split; [apply G3; congruence|]. split; [rewrite G2; apply al_get_insert_other; congruence|].
    rewrite G1. split; [unfold srv_same; repeat split|reflexivity].
  - rewrite (step_ack y s0 c0 y' o Ec H). change (get_link (set_server ?a ?b) sl) with (get_link a sl).
    rewrite get_link_set_link_other by congruence. cbn [set_server set_link y_clients y_server].
    split; [reflexivity|]. split; [reflexivity|]. split; [apply deliver_acks_same|apply deliver_acks_other; congruence].
Qed.

Lemma fold_buffer_insert_in' inbox : forall buf x, In x (inbox ++ buf) -> In x (fold_left (fun b m => buffer_insert m b) inbox buf).
Proof.
  induction inbox as [|m t IH]; intros buf x Hin; cbn [fold_left app] in *; [exact Hin|].
  apply IH. apply in_or_app. destruct Hin as [<-|Hin]; [right; apply buffer_insert_in; left; reflexivity|].
  apply in_app_or in Hin. destruct Hin as [Hin|Hin]; [left; exact Hin|right; apply buffer_insert_in; right; exact Hin].
Qed.

Lemma last_cases {A} (l : list A) d : (l = [] /\ last l d = d) \/ In (last l d) l.
Proof.
  induction l as [|a t IH]; [left; split; reflexivity|]. right. destruct t as [|b t']; [left; reflexivity|].
  change (last (a :: b :: t') d) with (last (b :: t') d). destruct IH as [[IH _]|IH]; [discriminate|right; exact IH].
Qed.

(* ================================================================== *)
(* 4. reachable states                                                *)
(* ================================================================== *)

Section Settle.
  Variables (cfg0 : cfg) (nclients : N).
  Hypothesis Hpol : cfg_policy cfg0 = PAll.
  Local Notation init := (sys_init cfg0 nclients).
  Local Notation SNof script := (snap cfg0 nclients script).
  Local Notation scope := (script_scope cfg0 nclients).

  Record facts (script : list step) (y : sys) (gs : list (N * structure)) : Prop := mkFacts {
    f_scope : scope script;
    f_run : run init script = Ok y;
    f_erun : erun init [] script = Ok (y, gs);
    f_m : m_inv cfg0 nclients script y gs;
    f_h : srv_hist cfg0 nclients script (y_server y);
    f_v : v_inv cfg0 nclients script y;
    f_mk : markers_ok (y_server y);
    f_max : sv_now (y_server y) < MAX_CHANGE_AGE
  }.

  Lemma get_facts script y : scope script -> run init script = Ok y -> exists gs, facts script y gs.
  Proof.
    intros Hsc Hr. pose proof Hsc as (K1 & K2 & K3 & K4 & K5). destruct (run_erun script init [] y Hr) as [gs Eg]. exists gs.
    pose proof (hist_run cfg0 nclients Hpol script y K1 K2 K4 Hr) as Hh.
    constructor; [exact Hsc|exact Hr|exact Eg|exact (m_run cfg0 nclients Hpol script y gs K1 K4 Eg)|exact Hh
                  |exact (v_run cfg0 nclients Hpol script y Hsc Hr)| |].
    - exact (markers_run script init y Hr (markers_init cfg0 nclients)).
    - pose proof (now_bound cfg0 nclients Hpol script y K1 K4 Hr) as Hnb. pose proof (sh_tick _ _ _ _ Hh) as Ht0.
      pose proof max_change_age_far as Hfar. destruct (sv_dirty (y_server y)); lia.
  Qed.

  Lemma conn_rec script y gs sl c : facts script y gs -> al_get sl (y_clients y) = Some c -> cl_status c = Connected ->
    sv_running (y_server y) = true /\ find_client (y_server y) sl <> None /\
    exists cl, In cl (sv_clients (y_server y)) /\ sc_slot cl = sl.
  Proof.
    intros F Hc Hs. pose proof (f_m _ _ _ F) as [Hcfg Hg Hnm Hrn Hlr Htk Hslots].
    pose proof (proj2 (ms_rec _ _ _ _ _ _ _ _ _ (Hslots sl c Hc)) Hs) as Hrec.
    split; [|split; [apply has_rec_find; exact Hrec|exact Hrec]].
    destruct (sv_running (y_server y)) eqn:E; [reflexivity|]. destruct Hrec as [cl [Hin _]]. rewrite (Hrn eq_refl) in Hin. destruct Hin.
  Qed.

  (* once every update message has reached the client no mutate message waits for a later one *)
  Lemma gate_all script y gs sl c : facts script y gs -> al_get sl (y_clients y) = Some c -> cl_status c = Connected ->
    l_upd (get_link y sl) = [] ->
    forall m, In m (muts_of y sl c) -> gated (last (map u_tick (cl_inbox_upd c)) (cl_upd_tick c)) m = false.
  Proof.
    intros F Hc Hs Hl m Hm. destruct (conn_rec script y gs sl c F Hc Hs) as (_ & _ & cl & Hin & Hsl).
    pose proof (f_v _ _ _ F sl c Hc) as [_ V2 V3]. specialize (V2 Hs). destruct (V3 Hs cl Hin Hsl) as (S & _).
    pose proof (f_scope _ _ _ F) as (K1 & K2 & K3 & K4 & K5).
    destruct (snap_facts cfg0 nclients script _ (f_h _ _ _ F) K4) as (_ & _ & SNsmall).
    unfold pend_of in V2, S. rewrite Hl, app_nil_r in V2, S.
    pose proof (sv_mupd _ _ _ _ _ _ _ S m Hm) as H1. pose proof (sv_last _ _ _ _ _ _ _ S) as H2. rewrite H2 in H1.
    pose proof Npow31 as P31.
    assert (HT : small_tick (last (map u_tick (cl_inbox_upd c)) (cl_upd_tick c))).
    { destruct (last_cases (map u_tick (cl_inbox_upd c)) (cl_upd_tick c)) as [[_ E]|Hin'].
      - rewrite E. destruct (cv_ut _ _ _ _ _ V2) as [->|(r & s1 & H0)]; [unfold small_tick; lia|exact (SNsmall _ _ _ H0)].
      - apply in_map_iff in Hin'. destruct Hin' as [u [Eu Hu]]. destruct (cv_pend _ _ _ _ _ V2 u Hu) as (_ & r & s1 & H0 & _).
        rewrite <- Eu. exact (SNsmall _ _ _ H0). }
    unfold gated. rewrite tick_gtb_small; [lia| |exact HT]. unfold small_tick in *. lia.
  Qed.

  (* ---------- the four steps on the slot itself ---------- *)

  Lemma upd_same y sl c y' o : al_get sl (y_clients y) = Some c -> cl_status c = Connected ->
    sys_step y (StDeliver sl true 0 All) = Ok (y', o) ->
    exists c', al_get sl (y_clients y') = Some c' /\ cl_status c' = Connected /\ y_server y' = y_server y /\
      l_upd (get_link y' sl) = [] /\ l_mut (get_link y' sl) = l_mut (get_link y sl) /\
      l_ack (get_link y' sl) = l_ack (get_link y sl) /\
      cl_inbox_upd c' = cl_inbox_upd c ++ l_upd (get_link y sl) /\ cl_inbox_mut c' = cl_inbox_mut c /\
      cl_buffered c' = cl_buffered c /\ cl_upd_tick c' = cl_upd_tick c.
  Proof.
    intros Hc Hs H. rewrite (step_upd y sl c y' o Hc H). eexists. split; [cbn [set_client y_clients]; apply al_get_insert_same|].
    destruct (deliver_updates_fields (l_upd (get_link y sl)) c) as (A & B & C & D & E & F & G & K). cbv zeta in A, B, C, D, E, F, G, K.
    destruct (deliver_updates_inbox (l_upd (get_link y sl)) c Hs) as [Hi Hst].
    change (get_link (set_client ?a ?b ?c1) sl) with (get_link a sl). rewrite get_link_set_link_same. cbn [l_upd l_mut l_ack].
    repeat split; assumption.
  Qed.

  Lemma mut_same y sl c y' o : al_get sl (y_clients y) = Some c -> cl_status c = Connected ->
    sys_step y (StDeliver sl true 1 All) = Ok (y', o) ->
    exists c', al_get sl (y_clients y') = Some c' /\ cl_status c' = Connected /\ y_server y' = y_server y /\
      l_upd (get_link y' sl) = l_upd (get_link y sl) /\ l_mut (get_link y' sl) = [] /\
      l_ack (get_link y' sl) = l_ack (get_link y sl) /\
      cl_inbox_upd c' = cl_inbox_upd c /\ cl_inbox_mut c' = cl_inbox_mut c ++ l_mut (get_link y sl) /\
      cl_buffered c' = cl_buffered c /\ cl_upd_tick c' = cl_upd_tick c.
  Proof.
    intros Hc Hs H. rewrite (step_mut y sl c y' o Hc H). eexists. split; [cbn [set_client y_clients]; apply al_get_insert_same|].
    destruct (deliver_mutates_fields (l_mut (get_link y sl)) c Hs) as (A & B & C & D & E & F & G & K & L). cbv zeta in A, B, C, D, E, F, G, K, L.
    change (get_link (set_client ?a ?b ?c1) sl) with (get_link a sl). rewrite get_link_set_link_same. cbn [l_upd l_mut l_ack].
    repeat split; assumption.
  Qed.

  Lemma ack_same script y gs sl c y' o : facts script y gs -> al_get sl (y_clients y) = Some c -> cl_status c = Connected ->
    sys_step y (StDeliver sl false 0 All) = Ok (y', o) ->
    al_get sl (y_clients y') = Some c /\ srv_same (y_server y) (y_server y') /\
    acks_for sl (sv_inbox_acks (y_server y')) = acks_for sl (sv_inbox_acks (y_server y)) ++ concat (l_ack (get_link y sl)) /\
    l_upd (get_link y' sl) = l_upd (get_link y sl) /\ l_mut (get_link y' sl) = l_mut (get_link y sl) /\
    l_ack (get_link y' sl) = [].
  Proof.
    intros F Hc Hs H. destruct (conn_rec script y gs sl c F Hc Hs) as (Hr & Hf & _).
    rewrite (step_ack y sl c y' o Hc H). change (get_link (set_server ?a ?b) sl) with (get_link a sl).
    rewrite get_link_set_link_same. cbn [set_server set_link y_clients y_server l_upd l_mut l_ack].
    split; [exact Hc|]. split; [apply deliver_acks_same|]. split; [apply deliver_acks_own; assumption|]. repeat split.
  Qed.

  Lemma cf_same script y gs sl c y' o : facts script y gs -> al_get sl (y_clients y) = Some c -> cl_status c = Connected ->
    sys_step y (StCFrame sl []) = Ok (y', o) ->
    let B := fold_left (fun b m => buffer_insert m b) (cl_inbox_mut c) (cl_buffered c) in
    exists c', al_get sl (y_clients y') = Some c' /\ cl_status c' = Connected /\ srv_same (y_server y) (y_server y') /\
      sv_inbox_acks (y_server y') = sv_inbox_acks (y_server y) /\
      l_upd (get_link y' sl) = l_upd (get_link y sl) /\ l_mut (get_link y' sl) = l_mut (get_link y sl) /\
      concat (l_ack (get_link y' sl)) =
        concat (l_ack (get_link y sl)) ++ map m_idx (filter (fun m => negb (gated (cl_upd_tick c') m)) B) /\
      (map m_idx (filter (fun m => negb (gated (cl_upd_tick c') m)) B) = [] -> l_ack (get_link y' sl) = l_ack (get_link y sl)) /\
      cl_inbox_upd c' = [] /\ cl_inbox_mut c' = [] /\ cl_buffered c' = filter (gated (cl_upd_tick c')) B /\
      cl_upd_tick c' = last (map u_tick (cl_inbox_upd c)) (cl_upd_tick c).
  Proof.
    intros F Hc Hs H B. pose proof (f_scope _ _ _ F) as (K1 & K2 & K3 & K4 & K5).
    destruct (snap_facts cfg0 nclients script _ (f_h _ _ _ F) K4) as (SNinj & SNkeep & SNsmall).
    assert (SNwf : forall t r s1, SNof script t r s1 -> ents_wf s1) by (intros t r s1; exact (snap_wf cfg0 nclients Hpol script t r s1 K1 K2 K4)).
    pose proof (f_v _ _ _ F sl c Hc) as [_ V2 _]. specialize (V2 Hs). unfold pend_of, muts_of in V2.
    cbn [sys_step] in H. rewrite Hc in H. destruct (client_frame c []) as [[c' cfo]| |] eqn:Ef; cbn [bind] in H; try discriminate.
    destruct (cli_frame (SNof script) SNinj SNkeep SNsmall SNwf (y_server y) c (l_upd (get_link y sl))
                (l_mut (get_link y sl) ++ cl_inbox_mut c ++ cl_buffered c) [] c' cfo V2
                (fun m Hm => in_or_app _ _ m (or_intror Hm)) Hs Ef) as (_ & _ & Ei & Em & Est & _ & _ & _ & Htk & Hbuf & Hacks).
    fold B in Hbuf, Hacks.
    exists c'. rewrite <- Hacks.
    destruct (cfo_acks cfo) as [|a0 ar] eqn:Ea; [|rewrite Est in H]; inversion H; subst y' o; clear H;
      change (get_link (set_server ?a ?b) sl) with (get_link a sl); cbn [set_server y_server];
      (split; [cbn [set_client set_link y_clients]; apply al_get_insert_same|]); (split; [exact Est|]);
      (split; [unfold srv_same; repeat split|]); (split; [reflexivity|]).
    - change (get_link (set_client ?a ?b ?c1) sl) with (get_link a sl). rewrite app_nil_r. repeat split; assumption.
    - rewrite get_link_set_link_same. cbn [l_upd l_mut l_ack]. rewrite concat_app. cbn [concat]. rewrite app_nil_r.
      repeat split; try assumption. discriminate.
  Qed.

  (* ---------- nothing that is on its way gets lost ---------- *)

  Definition idxs (y : sys) (sl : N) (c : client) : list N := map m_idx (muts_of y sl c) ++ acks_of y sl.

  Definition xfer (y y' : sys) (sl : N) : Prop :=
    forall c, al_get sl (y_clients y) = Some c -> cl_status c = Connected ->
      exists c', al_get sl (y_clients y') = Some c' /\ cl_status c' = Connected /\
                 forall i, In i (idxs y sl c) -> In i (idxs y' sl c').

  Lemma step_srv_same y st y' o : settle_nf st -> sys_step y st = Ok (y', o) -> srv_same (y_server y) (y_server y').
  Proof.
    intros Hnf H. destruct (al_get (step_slot st) (y_clients y)) as [c0|] eqn:Ec.
    2:{ rewrite (step_noclient y st y' o Hnf Ec H). apply srv_same_refl. }
    destruct Hnf as [s0|s0|s0|s0]; cbn [step_slot] in Ec.
    - rewrite (step_upd y s0 c0 y' o Ec H). apply srv_same_refl.
    - rewrite (step_mut y s0 c0 y' o Ec H). apply srv_same_refl.
    - pose proof H as H0. cbn [sys_step] in H. rewrite Ec in H.
      destruct (client_frame c0 []) as [[c0' cfo]| |] eqn:Ef; cbn [bind] in H; try discriminate.
      destruct (cframe_links y s0 [] c0 c0' cfo y' o Ec Ef H0) as ([pcs G1] & _). rewrite G1. unfold srv_same. repeat split.
    - rewrite (step_ack y s0 c0 y' o Ec H). apply deliver_acks_same.
  Qed.

  Lemma step_xfer script y gs st y' o sl : facts script y gs -> settle_nf st -> sys_step y st = Ok (y', o) -> xfer y y' sl.
  Proof.
    intros F Hnf H c Hc Hs. destruct (N.eq_dec (step_slot st) sl) as [Heq|Hne].
    2:{ destruct (step_other y st y' o sl Hnf Hne H) as (A & B & _ & D). exists c. split; [rewrite B; exact Hc|]. split; [exact Hs|].
        intros i Hi. unfold idxs, muts_of, acks_of in *. rewrite A, D. exact Hi. }
    destruct Hnf as [s0|s0|s0|s0]; cbn [step_slot] in Heq; subst s0.
    - destruct (upd_same y sl c y' o Hc Hs H) as (c' & A1 & A2 & A3 & A4 & A5 & A6 & A7 & A8 & A9 & A10).
      exists c'. split; [exact A1|]. split; [exact A2|]. intros i Hi. unfold idxs, muts_of, acks_of in *. rewrite A3, A5, A6, A8, A9. exact Hi.
    - destruct (mut_same y sl c y' o Hc Hs H) as (c' & A1 & A2 & A3 & A4 & A5 & A6 & A7 & A8 & A9 & A10).
      exists c'. split; [exact A1|]. split; [exact A2|]. intros i Hi. unfold idxs, muts_of, acks_of in *. rewrite A3, A5, A6, A8, A9.
      rewrite !map_app, !in_app_iff in *. tauto.
    - destruct (cf_same script y gs sl c y' o F Hc Hs H) as (c' & A1 & A2 & A3 & A4 & A5 & A6 & A7 & _ & A9 & A10 & A11 & A12).
      cbv zeta in A7, A11. exists c'. split; [exact A1|]. split; [exact A2|]. intros i Hi. unfold idxs, muts_of, acks_of in *.
      rewrite A4, A6, A7, A10, A11. cbn [app]. rewrite !map_app, !in_app_iff in *.
      assert (Hb : forall m, In m (cl_inbox_mut c ++ cl_buffered c) ->
                In (m_idx m) (map m_idx (filter (gated (cl_upd_tick c')) (fold_left (fun b m => buffer_insert m b) (cl_inbox_mut c) (cl_buffered c)))) \/
                In (m_idx m) (map m_idx (filter (fun m => negb (gated (cl_upd_tick c') m)) (fold_left (fun b m => buffer_insert m b) (cl_inbox_mut c) (cl_buffered c))))).
      { intros m Hm. apply fold_buffer_insert_in' in Hm. destruct (gated (cl_upd_tick c') m) eqn:Eg; [left|right]; apply in_map; apply filter_In;
          (split; [exact Hm|]); rewrite Eg; reflexivity. }
      destruct Hi as [[Hi|[Hi|Hi]]|[Hi|Hi]]; [tauto| | |tauto|tauto].
      + apply in_map_iff in Hi. destruct Hi as [m [<- Hm]]. destruct (Hb m (in_or_app _ _ m (or_introl Hm))); tauto.
      + apply in_map_iff in Hi. destruct Hi as [m [<- Hm]]. destruct (Hb m (in_or_app _ _ m (or_intror Hm))); tauto.
    - destruct (ack_same script y gs sl c y' o F Hc Hs H) as (A1 & A2 & A3 & A4 & A5 & A6).
      exists c. split; [exact A1|]. split; [exact Hs|]. intros i Hi. unfold idxs, muts_of, acks_of in *. rewrite A3, A5, A6. cbn [concat].
      rewrite app_nil_r. exact Hi.
  Qed.

  Lemma facts_step script y gs st rest y1 o : facts script y gs -> scope ((script ++ [st]) ++ rest) ->
    sys_step y st = Ok (y1, o) -> exists gs1, facts (script ++ [st]) y1 gs1.
  Proof.
    intros F Hsc H. assert (Hr : run init (script ++ [st]) = Ok y1).
    { rewrite run_app, (f_run _ _ _ F). cbn [bind run]. rewrite H. reflexivity. }
    exact (get_facts _ _ (scope_prefix cfg0 nclients _ rest y1 Hsc Hr) Hr).
  Qed.

  (* ---------- a connected client stays connected ---------- *)

  Definition conn (y : sys) (sl : N) : Prop := exists c, al_get sl (y_clients y) = Some c /\ cl_status c = Connected.

  Lemma step_conn script y gs st y' o sl : facts script y gs -> settle_nf st -> sys_step y st = Ok (y', o) ->
    conn y sl -> conn y' sl.
  Proof.
    intros F Hnf H (c & Hc & Hs). destruct (step_xfer script y gs st y' o sl F Hnf H c Hc Hs) as (c' & A & B & _). exists c'. auto.
  Qed.

  (* ---------- the queues of a slot are empty ---------- *)

  Definition emptied (y : sys) (sl : N) : Prop :=
    exists c, al_get sl (y_clients y) = Some c /\ cl_status c = Connected /\
      l_upd (get_link y sl) = [] /\ l_mut (get_link y sl) = [] /\ l_ack (get_link y sl) = [] /\
      cl_inbox_upd c = [] /\ cl_inbox_mut c = [] /\ cl_buffered c = [].

  Lemma filter_none {A} (f : A -> bool) l : (forall x, In x l -> f x = false) -> filter f l = [].
  Proof.
    induction l as [|a t IH]; intros H; cbn [filter]; [reflexivity|]. rewrite (H a (or_introl eq_refl)). apply IH.
    intros x Hx. apply H. right. exact Hx.
  Qed.

  Lemma step_emptied script y gs st y' o sl : facts script y gs -> settle_nf st -> sys_step y st = Ok (y', o) ->
    emptied y sl -> emptied y' sl.
  Proof.
    intros F Hnf H (c & Hc & Hs & E1 & E2 & E3 & E4 & E5 & E6). destruct (N.eq_dec (step_slot st) sl) as [Heq|Hne].
    2:{ destruct (step_other y st y' o sl Hnf Hne H) as (A & B & _). exists c. rewrite A, B. auto 10. }
    destruct Hnf as [s0|s0|s0|s0]; cbn [step_slot] in Heq; subst s0.
    - destruct (upd_same y sl c y' o Hc Hs H) as (c' & A1 & A2 & A3 & A4 & A5 & A6 & A7 & A8 & A9 & A10).
      exists c'. rewrite A4, A5, A6, A7, A8, A9, E1, E2, E3, E4, E5, E6. auto 10.
    - destruct (mut_same y sl c y' o Hc Hs H) as (c' & A1 & A2 & A3 & A4 & A5 & A6 & A7 & A8 & A9 & A10).
      exists c'. rewrite A4, A5, A6, A7, A8, A9, E1, E2, E3, E4, E5, E6. auto 10.
    - destruct (cf_same script y gs sl c y' o F Hc Hs H) as (c' & A1 & A2 & A3 & A4 & A5 & A6 & A7 & A8 & A9 & A10 & A11 & A12).
      cbv zeta in A7, A8, A11. rewrite E5, E6 in A8, A11. cbn [fold_left filter map] in A8, A11.
      exists c'. rewrite A5, A6, (A8 eq_refl), A9, A10, A11, E1, E2, E3. auto 10.
    - destruct (ack_same script y gs sl c y' o F Hc Hs H) as (A1 & A2 & A3 & A4 & A5 & A6).
      exists c. rewrite A4, A5, A6, E1, E2. auto 10.
  Qed.

  Lemma block_emptied script y gs sl y' : facts script y gs -> scope (script ++ settle_slot sl) -> conn y sl ->
    run y (settle_slot sl) = Ok y' -> emptied y' sl.
  Proof.
    intros F Hsc (c & Hc & Hs) H. unfold settle_slot in *. cbn [run] in H.
    destruct (sys_step y (StDeliver sl true 0 All)) as [[y1 o1]| |] eqn:S1; cbn [bind] in H; try discriminate.
    destruct (sys_step y1 (StDeliver sl true 1 All)) as [[y2 o2]| |] eqn:S2; cbn [bind] in H; try discriminate.
    destruct (sys_step y2 (StCFrame sl [])) as [[y3 o3]| |] eqn:S3; cbn [bind] in H; try discriminate.
    destruct (sys_step y3 (StDeliver sl false 0 All)) as [[y4 o4]| |] eqn:S4; cbn [bind] in H; try discriminate.
    inversion H; subst y4. clear H.
    destruct (facts_step script y gs _ [StDeliver sl true 1 All; StCFrame sl []; StDeliver sl false 0 All] y1 o1 F
                ltac:(rewrite <- app_assoc; exact Hsc) S1) as [gs1 F1].
    destruct (facts_step _ y1 gs1 _ [StCFrame sl []; StDeliver sl false 0 All] y2 o2 F1
                ltac:(rewrite <- !app_assoc; exact Hsc) S2) as [gs2 F2].
    destruct (facts_step _ y2 gs2 _ [StDeliver sl false 0 All] y3 o3 F2 ltac:(rewrite <- !app_assoc; exact Hsc) S3) as [gs3 F3].
    destruct (upd_same y sl c y1 o1 Hc Hs S1) as (c1 & A1 & A2 & A3 & A4 & A5 & A6 & A7 & A8 & A9 & A10).
    destruct (mut_same y1 sl c1 y2 o2 A1 A2 S2) as (c2 & B1 & B2 & B3 & B4 & B5 & B6 & B7 & B8 & B9 & B10).
    rewrite A4 in B4.
    destruct (cf_same _ y2 gs2 sl c2 y3 o3 F2 B1 B2 S3) as (c3 & C1 & C2 & C3 & C4 & C5 & C6 & C7 & C8 & C9 & C10 & C11 & C12).
    cbv zeta in C7, C8, C11. rewrite B4 in C5. rewrite B5 in C6.
    assert (Hg : cl_buffered c3 = []).
    { rewrite C11. apply filter_none. intros m Hm. rewrite C12. apply (gate_all _ y2 gs2 sl c2 F2 B1 B2 B4).
      apply fold_buffer_insert_in in Hm. unfold muts_of. apply in_or_app. right. exact Hm. }
    destruct (ack_same _ y3 gs3 sl c3 y' o4 F3 C1 C2 S4) as (D1 & D2 & D3 & D4 & D5 & D6).
    exists c3. rewrite D4, D5, D6, C5, C6. auto 10.
  Qed.

  (* ---------- sequences of steps ---------- *)

  Lemma steps_pres (R : sys -> Prop) :
    (forall script y gs st y' o, facts script y gs -> settle_nf st -> sys_step y st = Ok (y', o) -> R y -> R y') ->
    forall l script y y', Forall settle_nf l -> scope (script ++ l) -> run init script = Ok y -> run y l = Ok y' -> R y -> R y'.
  Proof.
    intros Hstep. induction l as [|st t IH]; intros script y y' Hnf Hsc Hr H HR; cbn [run] in H; [inversion H; subst; exact HR|].
    destruct (sys_step y st) as [[y1 o]| |] eqn:E; cbn [bind] in H; try discriminate.
    inversion Hnf as [|? ? Hst Ht]; subst.
    destruct (get_facts script y (scope_prefix cfg0 nclients script (st :: t) y Hsc Hr) Hr) as [gs F].
    apply (IH (script ++ [st]) y1 y' Ht); [rewrite <- app_assoc; exact Hsc| |exact H|exact (Hstep script y gs st y1 o F Hst E HR)].
    rewrite run_app, Hr. cbn [bind run]. rewrite E. reflexivity.
  Qed.

  Lemma blocks_emptied sl : forall slots script y y', In sl slots -> scope (script ++ flat_map settle_slot slots) ->
    run init script = Ok y -> run y (flat_map settle_slot slots) = Ok y' -> conn y sl -> emptied y' sl.
  Proof.
    induction slots as [|a t IH]; intros script y y' Hin Hsc Hr H Hcn; [destruct Hin|].
    cbn [flat_map] in *. rewrite run_app in H. destruct (run y (settle_slot a)) as [ya| |] eqn:Ea; cbn [bind] in H; try discriminate.
    assert (Hra : run init (script ++ settle_slot a) = Ok ya) by (rewrite run_app, Hr; exact Ea).
    rewrite app_assoc in Hsc. pose proof (scope_prefix cfg0 nclients _ _ ya Hsc Hra) as Hsca.
    destruct (N.eq_dec a sl) as [->|Hne].
    - destruct (get_facts script y (scope_prefix cfg0 nclients _ _ y Hsca Hr) Hr) as [gs F].
      pose proof (block_emptied script y gs sl ya F Hsca Hcn Ea) as He.
      exact (steps_pres (fun y => emptied y sl) (fun script y gs st y' o F Hnf H => step_emptied script y gs st y' o sl F Hnf H)
               (flat_map settle_slot t) _ ya y' (settle_slots_nf t) Hsc Hra H He).
    - destruct Hin as [->|Hin]; [congruence|]. apply (IH (script ++ settle_slot a) ya y' Hin Hsc Hra H).
      exact (steps_pres (fun y => conn y sl) (fun script y gs st y' o F Hnf H => step_conn script y gs st y' o sl F Hnf H)
               (settle_slot a) script y ya (settle_slot_nf a) Hsca Hr Ea Hcn).
  Qed.

  (* ---------- everything replicated has been sent ---------- *)

  Definition covered (y : sys) (sl : N) (c : client) (cl : sclient) (e : N) (x : sent) : Prop :=
    exists a, mutation_tick (sc_ticks cl) e = Some a /\
      ((forall k cc, In (k, cc) (se_comps x) -> c_changed cc <= a) \/
       exists i info, In i (idxs y sl c) /\ al_get i (ct_mutations (sc_ticks cl)) = Some info /\ In e (mi_entities info) /\
                      forall k cc, In (k, cc) (se_comps x) -> c_changed cc <= ClientTicks.mi_tick info).

  Definition sent_all (y : sys) (sl : N) : Prop :=
    exists c cl, al_get sl (y_clients y) = Some c /\ cl_status c = Connected /\
      In cl (sv_clients (y_server y)) /\ sc_slot cl = sl /\ sc_authorized cl = true /\
      sv_despawn_buf (y_server y) = [] /\ sv_removal_buf (y_server y) = [] /\ sv_removed_events (y_server y) = [] /\
      forall e x madd, In (e, x, madd) (replicated_ents (y_server y)) ->
        madd <= sv_last_run (y_server y) /\ (forall k cc, In (k, cc) (se_comps x) -> c_changed cc <= sv_last_run (y_server y)) /\
        covered y sl c cl e x.

  Lemma step_sent_all script y gs st y' o sl : facts script y gs -> settle_nf st -> sys_step y st = Ok (y', o) ->
    sent_all y sl -> sent_all y' sl.
  Proof.
    intros F Hnf H (c & cl & Hc & Hs & Hin & Hsl & Hau & B1 & B2 & B3 & Hall).
    destruct (step_srv_same y st y' o Hnf H) as (S1 & S2 & S3 & S4 & S5 & S6 & S7 & S8).
    destruct (step_xfer script y gs st y' o sl F Hnf H c Hc Hs) as (c' & A & B & Hidx).
    exists c', cl. rewrite S2, S3, S4, S5, S7, (replicated_ents_ext _ _ S1). repeat split; try assumption.
    - exact (proj1 (Hall e x madd H0)).
    - exact (proj1 (proj2 (Hall e x madd H0))).
    - destruct (proj2 (proj2 (Hall e x madd H0))) as (a & Ha & [Hcov|(i & info & Hi & Hinfo & He & Hcov)]); exists a; (split; [exact Ha|]);
        [left; exact Hcov|right]. exists i, info. split; [exact (Hidx i Hi)|auto].
  Qed.

  (* ---------- the server has nothing left to send ---------- *)

  Definition quiet (y : sys) (sl : N) : Prop :=
    exists c cl, al_get sl (y_clients y) = Some c /\ cl_status c = Connected /\
      In cl (sv_clients (y_server y)) /\ sc_slot cl = sl /\ sc_authorized cl = true /\
      quiescent_for (y_server y) cl /\ sv_removed_events (y_server y) = [].

  Lemma step_quiet script y gs st y' o sl : facts script y gs -> settle_nf st -> sys_step y st = Ok (y', o) ->
    quiet y sl -> quiet y' sl.
  Proof.
    intros F Hnf H (c & cl & Hc & Hs & Hin & Hsl & Hau & Hq & Hev).
    destruct (step_srv_same y st y' o Hnf H) as (S1 & S2 & S3 & S4 & S5 & S6 & S7 & S8).
    destruct (step_xfer script y gs st y' o sl F Hnf H c Hc Hs) as (c' & A & B & _).
    exists c', cl. rewrite S4, S7. do 5 (split; [assumption|]). split; [|exact Hev].
    pose proof Hq as (_ & Q2 & Q3 & _).
    apply (quiescent_for_transfer (y_server y) (y_server y') cl cl); [exact S1|congruence|congruence|lia|apply sc_equiv_refl|exact Hq].
  Qed.

  (* ================================================================== *)
  (* 5. the server frame of a round                                     *)
  (* ================================================================== *)

  Lemma ack_client_index now inbox cl : ct_mutate_index (sc_ticks (ack_client now inbox cl)) = ct_mutate_index (sc_ticks cl).
  Proof.
    unfold ack_client. destruct (sc_authorized cl); [|reflexivity]. cbn [sc_ticks].
    generalize (sc_ticks cl) as t. induction (acks_for (sc_slot cl) inbox) as [|i r IH]; intros t; [reflexivity|].
    rewrite ack_all_cons, IH. exact (proj1 (proj2 (ack_frame t now i))).
  Qed.

  Lemma frame_shape script y gs y' o sl c cl :
    facts script y gs -> scope (script ++ [settle_frame]) -> sys_step y settle_frame = Ok (y', o) ->
    al_get sl (y_clients y) = Some c -> cl_status c = Connected ->
    In cl (sv_clients (y_server y)) -> sc_slot cl = sl -> sc_authorized cl = true ->
    let s := y_server y in
    let s3 := fr_pre cfg0 s true 16 false [] in
    let rec3 := ack_client (sv_now s) (sv_inbox_acks s) cl in
    let P := sfc_pure cfg0 s3 (sv_now s3) rec3 [] in
    (srv_ok s3 /\ sv_removed_events s3 = [] /\ sv_now s3 = sv_now s /\ sv_ents s3 = sv_ents s /\ sv_last_run s3 = sv_last_run s /\
     sv_despawn_buf s3 = sv_despawn_buf s /\ (sv_removed_events s = [] -> sv_removal_buf s3 = sv_removal_buf s)) /\
    (sc_slot rec3 = sl /\ sc_authorized rec3 = true /\ sc_vis rec3 = None /\ sc_pending_map rec3 = [] /\
     ct_mutate_index (sc_ticks rec3) + N.of_nat (length (co_mutates (snd P))) < 2 ^ 16) /\
    y_server y' = set_last_running (set_after_send s3 (map fst (map (client_result_pure cfg0 s3 []) (sv_clients s3))) (sv_now s3)) /\
    y_clients y' = y_clients y /\ In (fst P) (sv_clients (y_server y')) /\
    l_mut (get_link y' sl) = l_mut (get_link y sl) ++ co_mutates (snd P) /\
    l_ack (get_link y' sl) = l_ack (get_link y sl) /\ sv_inbox_acks (y_server y') = [].
  Proof.
    intros F Hsc H Hc Hs Hin Hsl Hau s s3 rec3 P.
    pose proof (f_m _ _ _ F) as [Hcfg Hg Hnm Hrn Hlr Htk Hslots].
    destruct (conn_rec script y gs sl c F Hc Hs) as (Hrun & _). fold s in Hrun.
    pose proof H as H0. unfold settle_frame in H. cbn [sys_step] in H. rewrite Hcfg in H. fold s in H.
    destruct (server_frame cfg0 s true 16 false [] []) as [[s' fo]| |] eqn:Ef; cbn [bind] in H; try discriminate.
    inversion H; subst y' o. clear H.
    destruct (enqueue_fields (fo_clients fo) (set_server y s')) as (Q1 & Q2 & Q3). cbn [set_server y_server y_clients] in Q2, Q3.
    pose proof (frame_running cfg0 s true 16 false [] [] s' fo (gi_srv _ Hg) Hrun (gi_slots _ Hg) eq_refl Ef) as FR. cbv zeta in FR.
    fold s3 in FR. destruct FR as (Hok3 & Hev3 & Hnow3 & Htick3 & Hcl3 & Hc3). rewrite orb_true_r in Hc3. destruct Hc3 as [Es' Efo].
    assert (Hcl3' : sv_clients s3 = map (ack_client (sv_now s) (sv_inbox_acks s)) (sv_clients s)).
    { rewrite Hcl3. apply map_ext. intros a. reflexivity. }
    destruct (ack_client_frame (sv_now s) (sv_inbox_acks s) cl) as (A1 & A2 & _ & A4 & A5). fold rec3 in A1, A2, A4, A5.
    assert (Hin3 : In rec3 (sv_clients s3)) by (rewrite Hcl3'; apply in_map; exact Hin).
    assert (Hau3 : sc_authorized rec3 = true) by congruence.
    assert (Hsl3 : sc_slot rec3 = sl) by congruence.
    assert (Hnd3 : NoDup (map sc_slot (sv_clients s3))).
    { rewrite Hcl3', map_map. rewrite (map_ext (fun x => sc_slot (ack_client (sv_now s) (sv_inbox_acks s) x)) sc_slot); [exact (gi_slots _ Hg)|].
      intros a. exact (proj1 (ack_client_frame _ _ a)). }
    pose proof (mutates_for_outs cfg0 s3 [] (sv_clients s3) rec3 Hnd3 Hin3 Hau3) as Em. rewrite Hsl3 in Em.
    change (part_for [] rec3) with (@nil (list N)) in Em. fold P in Em.
    assert (Houts : fo_clients fo = outs_of (map (client_result_pure cfg0 s3 []) (sv_clients s3))) by (rewrite Efo; reflexivity).
    split; [|split; [|split; [|split; [|split; [|split; [|split]]]]]].
    - split; [exact Hok3|]. split; [exact Hev3|]. split; [exact Hnow3|]. split; [reflexivity|]. split; [reflexivity|]. split; [reflexivity|].
      intros Hev. unfold s3, fr_pre, buffer_removals. cbv zeta. cbn [fold_left sv_removal_buf set_bufs].
      change (sv_removed_events (Server.receive_acks (with_time_tick s true 16))) with (sv_removed_events s). rewrite Hev. reflexivity.
    - split; [exact Hsl3|]. split; [exact Hau3|]. split; [rewrite A4; exact (so_novis s (proj1 (gi_srv _ Hg)) cl Hin)|].
      split; [rewrite A5; exact (Hnm cl Hin)|].
      pose proof (f_v _ _ _ F sl c Hc) as [_ _ V3]. destruct (V3 Hs cl Hin Hsl) as (_ & Hreg & _).
      destruct Hsc as (_ & _ & _ & _ & K5). specialize (K5 sl).
      rewrite (regs_snoc cfg0 nclients script y settle_frame _ _ sl (f_run _ _ _ F) H0) in K5. unfold regs_step, settle_frame in K5.
      rewrite Hcfg in K5. fold s in K5. rewrite Ef, Houts, Em in K5. unfold rec3. rewrite ack_client_index, Hreg. exact K5.
    - rewrite Q2. rewrite Hnow3 in *. exact Es'.
    - exact Q3.
    - rewrite Q2, Es'. cbn [set_last_running set_after_send sv_clients]. rewrite map_map. apply in_map_iff. exists rec3. split; [|exact Hin3].
      unfold client_result_pure. rewrite Hau3. reflexivity.
    - rewrite enqueue_lmut. change (get_link (set_server y s') sl) with (get_link y sl). rewrite Houts, Em. reflexivity.
    - rewrite enqueue_lack. reflexivity.
    - rewrite Q2. exact (proj2 (frame_inbox cfg0 s true 16 false [] [] s' fo Ef) Hrun).
  Qed.

  Definition live (y : sys) (sl : N) : Prop :=
    exists c cl, al_get sl (y_clients y) = Some c /\ cl_status c = Connected /\
      In cl (sv_clients (y_server y)) /\ sc_slot cl = sl /\ sc_authorized cl = true.

  (* after the frame every replicated entity is acknowledged, or on its way in a mutate message of this run *)
  Lemma frame_sent script y gs y' o sl : facts script y gs -> scope (script ++ [settle_frame]) ->
    sys_step y settle_frame = Ok (y', o) -> live y sl -> sent_all y' sl.
  Proof.
    intros F Hsc H (c & cl & Hc & Hs & Hin & Hsl & Hau).
    destruct (frame_shape script y gs y' o sl c cl F Hsc H Hc Hs Hin Hsl Hau) as
      ((Hok3 & Hev3 & Hnow3 & Hents3 & Hlr3 & Hdb3 & _) & (R1 & R2 & R3 & R4 & R5) & Es' & Ecl' & Hin' & Elm & _ & _).
    set (s := y_server y) in *. set (s3 := fr_pre cfg0 s true 16 false []) in *.
    set (rec3 := ack_client (sv_now s) (sv_inbox_acks s) cl) in *. set (P := sfc_pure cfg0 s3 (sv_now s3) rec3 []) in *.
    pose proof (f_h _ _ _ F) as Hh. fold s in Hh.
    assert (Heok3 : ents_ok s3) by (apply (ents_ok_ext s); [exact Hents3|lia|exact (hist_ents_ok _ _ _ _ Hh)]).
    assert (Hdbok3 : db_ok s3).
    { intros e He. rewrite Hdb3 in He. apply (dead_ext s); [exact Hents3|]. exact (sh_db _ _ _ _ Hh e He). }
    assert (He' : sv_ents (y_server y') = sv_ents s3) by (rewrite Es'; reflexivity).
    exists c, (fst P). split; [rewrite Ecl'; exact Hc|]. split; [exact Hs|]. split; [exact Hin'|]. split; [exact R1|]. split; [reflexivity|].
    split; [rewrite Es'; reflexivity|]. split; [rewrite Es'; reflexivity|]. split; [rewrite Es'; exact Hev3|].
    rewrite (replicated_ents_ext _ _ He'). assert (Elr : sv_last_run (y_server y') = sv_now s3) by (rewrite Es'; reflexivity). rewrite Elr.
    intros e x madd Hr.
    destruct (send_repl s3 (y_server y') He' Hok3 Heok3 Hdbok3 e x madd Hr) as (G1 & _ & _ & _ & _ & (_ & Hcok) & G7).
    split; [|split].
    - rewrite Hnow3. apply (f_mk _ _ _ F e x madd); [|exact G7]. fold s. unfold get_ent in *. rewrite <- Hents3. exact G1.
    - intros k cc Hk. exact (proj2 (proj2 (proj2 (Hcok k cc Hk)))).
    - destruct (send_covered cfg0 s3 (y_server y') rec3 [] He' Hok3 R3 Heok3 Hdbok3 R5 e x madd Hr) as [(a & Ha & Hcov)|(Hst & m & Hm & Hem & Hreg & Hcov)].
      + exists a. split; [exact Ha|left; exact Hcov].
      + fold P in Hst, Hm, Hreg. destruct (mutation_tick (sc_ticks (fst P)) e) as [a|] eqn:Ea; [|congruence]. exists a. split; [exact Ea|right].
        exists (m_idx m), (mkMI (sv_now s3) (sv_elapsed s3) (map fst (m_body m))). split; [|split; [exact Hreg|split; [exact Hem|exact Hcov]]].
        unfold idxs. apply in_or_app. left. apply in_map. unfold muts_of. apply in_or_app. left. rewrite Elm. apply in_or_app. right. exact Hm.
  Qed.

  (* with every acknowledgement back the next frame finds nothing to send *)
  Lemma frame_quiet script y gs y' o sl : facts script y gs -> scope (script ++ [settle_frame]) ->
    sys_step y settle_frame = Ok (y', o) -> sent_all y sl -> emptied y sl -> quiet y' sl.
  Proof.
    intros F Hsc H (c & cl & Hc & Hs & Hin & Hsl & Hau & B1 & B2 & B3 & Hall) (c0 & Hc0 & _ & E1 & E2 & E3 & E4 & E5 & E6).
    assert (c0 = c) by congruence. subst c0.
    destruct (frame_shape script y gs y' o sl c cl F Hsc H Hc Hs Hin Hsl Hau) as
      ((Hok3 & Hev3 & Hnow3 & Hents3 & Hlr3 & Hdb3 & Hrb3) & (R1 & R2 & R3 & R4 & R5) & Es' & Ecl' & Hin' & _ & _ & _).
    set (s := y_server y) in *. set (s3 := fr_pre cfg0 s true 16 false []) in *.
    set (rec3 := ack_client (sv_now s) (sv_inbox_acks s) cl) in *. set (P := sfc_pure cfg0 s3 (sv_now s3) rec3 []) in *.
    pose proof (f_h _ _ _ F) as Hh. fold s in Hh.
    assert (Heok3 : ents_ok s3) by (apply (ents_ok_ext s); [exact Hents3|lia|exact (hist_ents_ok _ _ _ _ Hh)]).
    assert (Hdbok3 : db_ok s3).
    { intros e He. rewrite Hdb3 in He. apply (dead_ext s); [exact Hents3|]. exact (sh_db _ _ _ _ Hh e He). }
    assert (He' : sv_ents (y_server y') = sv_ents s3) by (rewrite Es'; reflexivity).
    (* the stamps after the acknowledgements *)
    pose proof (f_v _ _ _ F sl c Hc) as [_ _ V3]. destruct (V3 Hs cl Hin Hsl) as (S & _ & _).
    pose proof (sv_le _ _ _ _ _ _ _ S) as Hb. fold s in Hb.
    destruct (ack_all_facts (sv_now s) (acks_for sl (sv_inbox_acks s)) (f_max _ _ _ F) (sc_ticks cl) Hb) as (_ & Hmono & Hcov).
    assert (Et3 : sc_ticks rec3 = ack_all (sc_ticks cl) (sv_now s) (acks_for sl (sv_inbox_acks s))).
    { unfold rec3, ack_client. rewrite Hau, Hsl. reflexivity. }
    assert (Eidx : idxs y sl c = acks_for sl (sv_inbox_acks s)).
    { unfold idxs, muts_of, acks_of. rewrite E2, E3, E5, E6. cbn [app map concat]. apply app_nil_r. }
    assert (Hset : forall e x madd, In (e, x, madd) (replicated_ents s3) -> ent_settled (sv_last_run s3) (sc_ticks rec3) e x madd).
    { intros e x madd Hr.
      destruct (send_repl s3 (y_server y') He' Hok3 Heok3 Hdbok3 e x madd Hr) as (_ & _ & _ & _ & _ & (_ & Hcok) & _).
      rewrite (replicated_ents_ext _ _ Hents3) in Hr. destruct (Hall e x madd Hr) as (Hm & Hch & a & Ha & Hcv). fold s in Hm, Hch.
      assert (Hst : exists a', mutation_tick (sc_ticks rec3) e = Some a' /\ forall k cc, In (k, cc) (se_comps x) -> c_changed cc <= a').
      { rewrite Et3. destruct Hcv as [Hcv|(i & info & Hi & Hinfo & He & Hcv)].
        - destruct (Hmono e a Ha) as (a' & E' & Hle). exists a'. split; [exact E'|]. intros k cc Hk. specialize (Hcv k cc Hk). lia.
        - rewrite Eidx in Hi. destruct (Hcov i info e a Hi Hinfo He Ha) as (a' & E' & Hle). exists a'. split; [exact E'|].
          intros k cc Hk. specialize (Hcv k cc Hk). lia. }
      destruct Hst as (a' & E' & Hle). exists a'. split; [exact E'|]. rewrite Hlr3. split; [lia|].
      intros k cc Hk. split; [exact (Hle k cc Hk)|]. specialize (Hch k cc Hk). pose proof (Hcok k cc Hk) as (_ & _ & Hac & _). lia. }
    assert (Hq : quiescent_for s3 rec3).
    { split; [exact R4|]. split; [rewrite Hdb3; exact B1|]. split; [rewrite (Hrb3 B3); exact B2|]. split; [rewrite R3; exact I|].
      intros e x madd Hr. right. split; [rewrite R3; reflexivity|exact (Hset e x madd Hr)]. }
    pose proof (idle_server_silent cfg0 s3 (sv_now s3) rec3 [] Hq) as Hsil. rewrite send_for_client_eq in Hsil. fold P in Hsil.
    assert (EP : fst P = silent_client cfg0 s3 (sv_now s3) rec3) by (apply (f_equal (fun r => match r with Ok p => fst p | _ => fst P end)) in Hsil; exact Hsil).
    exists c, (fst P). split; [rewrite Ecl'; exact Hc|]. split; [exact Hs|]. split; [exact Hin'|]. split; [exact R1|]. split; [reflexivity|].
    split; [|rewrite Es'; exact Hev3].
    rewrite EP. apply (quiescent_for_transfer s3 (y_server y') rec3); [exact He'|rewrite Es'; reflexivity|rewrite Es'; reflexivity| | |exact Hq].
    - rewrite Es'. cbn [set_last_running set_after_send sv_last_run]. rewrite Hlr3, Hnow3. pose proof (sh_now _ _ _ _ Hh). lia.
    - apply silent_client_equiv; [exact R2|exact Hq].
  Qed.

  (* ================================================================== *)
  (* 6. two lossless rounds give the premises of the convergence theorem *)
  (* ================================================================== *)

  Lemma sent_all_conn y sl : sent_all y sl -> conn y sl.
  Proof. intros (c & cl & Hc & Hs & _). exists c. auto. Qed.

  Lemma quiet_conn y sl : quiet y sl -> conn y sl.
  Proof. intros (c & cl & Hc & Hs & _). exists c. auto. Qed.

  Lemma run_snoc script y st y' o : run init script = Ok y -> sys_step y st = Ok (y', o) -> run init (script ++ [st]) = Ok y'.
  Proof. intros Hr H. rewrite run_app, Hr. cbn [bind run]. rewrite H. reflexivity. Qed.

  Theorem settle_premises body slots sl y :
    scope (body ++ settle_round slots ++ settle_round slots) ->
    run init (body ++ settle_round slots ++ settle_round slots) = Ok y ->
    In sl slots -> (exists yb, run init body = Ok yb /\ live yb sl) ->
    exists c cl, al_get sl (y_clients y) = Some c /\ cl_status c = Connected /\
      In cl (sv_clients (y_server y)) /\ sc_slot cl = sl /\ sc_authorized cl = true /\
      l_upd (get_link y sl) = [] /\ cl_inbox_upd c = [] /\ quiescent_for (y_server y) cl /\ sv_removed_events (y_server y) = [].
  Proof.
    intros Hsc Hrun Hsl (yb & Rb & Hlive). set (B := flat_map settle_slot slots) in *.
    assert (Ew : body ++ settle_round slots ++ settle_round slots = (((body ++ [settle_frame]) ++ B) ++ [settle_frame]) ++ B).
    { unfold settle_round. fold B. rewrite <- !app_assoc. reflexivity. }
    rewrite Ew in Hsc, Hrun.
    rewrite run_app in Hrun. destruct (run init (((body ++ [settle_frame]) ++ B) ++ [settle_frame])) as [y3| |] eqn:R3; cbn [bind] in Hrun; try discriminate.
    pose proof R3 as R3'. rewrite run_app in R3'. destruct (run init ((body ++ [settle_frame]) ++ B)) as [y2| |] eqn:R2; cbn [bind] in R3'; try discriminate.
    pose proof R2 as R2'. rewrite run_app in R2'. destruct (run init (body ++ [settle_frame])) as [y1| |] eqn:R1; cbn [bind] in R2'; try discriminate.
    pose proof R1 as R1'. rewrite run_app, Rb in R1'. cbn [bind run] in R1'.
    destruct (sys_step yb settle_frame) as [[y1' o1]| |] eqn:S1; cbn [bind] in R1'; try discriminate. inversion R1'; subst y1'. clear R1'.
    cbn [run] in R3'. destruct (sys_step y2 settle_frame) as [[y3' o3]| |] eqn:S3; cbn [bind] in R3'; try discriminate. inversion R3'; subst y3'. clear R3'.
    pose proof (scope_prefix cfg0 nclients _ _ y3 Hsc R3) as Hsc3. pose proof (scope_prefix cfg0 nclients _ _ y2 Hsc3 R2) as Hsc2.
    pose proof (scope_prefix cfg0 nclients _ _ y1 Hsc2 R1) as Hsc1. pose proof (scope_prefix cfg0 nclients _ _ yb Hsc1 Rb) as Hscb.
    destruct (get_facts body yb Hscb Rb) as [gsb Fb]. destruct (get_facts _ y2 Hsc2 R2) as [gs2 F2].
    (* round 1 *)
    pose proof (frame_sent body yb gsb y1 o1 sl Fb Hsc1 S1 Hlive) as Hsent1.
    pose proof (steps_pres (fun y => sent_all y sl) (fun script y gs st y' o F Hnf H => step_sent_all script y gs st y' o sl F Hnf H)
                  B _ y1 y2 (settle_slots_nf slots) Hsc2 R1 R2' Hsent1) as Hsent2.
    pose proof (blocks_emptied sl slots _ y1 y2 Hsl Hsc2 R1 R2' (sent_all_conn y1 sl Hsent1)) as Hemp2.
    (* round 2 *)
    pose proof (frame_quiet _ y2 gs2 y3 o3 sl F2 Hsc3 S3 Hsent2 Hemp2) as Hq3.
    pose proof (steps_pres (fun y => quiet y sl) (fun script y gs st y' o F Hnf H => step_quiet script y gs st y' o sl F Hnf H)
                  B _ y3 y (settle_slots_nf slots) Hsc R3 Hrun Hq3) as Hq.
    pose proof (blocks_emptied sl slots _ y3 y Hsl Hsc R3 Hrun (quiet_conn y3 sl Hq3)) as Hemp.
    destruct Hq as (c & cl & Hc & Hs & Hin & Hs' & Hau & Hqf & Hev). destruct Hemp as (c0 & Hc0 & _ & E1 & _ & _ & E4 & _).
    assert (c0 = c) by congruence. subst c0. exists c, cl. auto 12.
  Qed.

  Theorem e2e_settles body slots sl y :
    scope (body ++ settle_round slots ++ settle_round slots) ->
    run init (body ++ settle_round slots ++ settle_round slots) = Ok y ->
    In sl slots -> (exists yb, run init body = Ok yb /\ live yb sl) ->
    exists c cl, al_get sl (y_clients y) = Some c /\ cl_status c = Connected /\
      In cl (sv_clients (y_server y)) /\ sc_slot cl = sl /\ sc_authorized cl = true /\
      struct_equiv (client_struct c) (struct_of (y_server y)) /\
      forall e k, cview c e k = option_map cv_nat (sview (y_server y) e k).
  Proof.
    intros Hsc Hrun Hsl Hlive.
    destruct (settle_premises body slots sl y Hsc Hrun Hsl Hlive) as (c & cl & Hc & Hs & Hin & Hs' & Hau & E1 & E2 & Hq & Hev).
    exists c, cl. do 5 (split; [assumption|]).
    exact (e2e_converged cfg0 nclients Hpol _ y sl c cl Hsc Hrun Hc Hs Hin Hs' Hau E1 E2 Hq Hev).
  Qed.
End Settle.

(* ================================================================== *)
(* 7. the settle phase of Repl/Converge.v is such a schedule          *)
(* ================================================================== *)

Lemma run_steps_run l : forall acc,
  fold_left (fun acc st => let* y := acc in let* (y', _) := sys_step y st in Ok y') l acc = let* y := acc in run y l.
Proof.
  induction l as [|st t IH]; intros acc; cbn [fold_left run].
  - destruct acc; reflexivity.
  - rewrite IH. destruct acc as [y| |]; cbn [bind]; [|reflexivity|reflexivity].
    destruct (sys_step y st) as [[y' o]| |]; reflexivity.
Qed.

Definition settle_step (st : step) : Prop := st = settle_frame \/ settle_nf st.

Lemma settle_step_keys y st y' o : settle_step st -> sys_step y st = Ok (y', o) -> Converge.slots y' = Converge.slots y.
Proof.
  unfold Converge.slots. intros [->|Hnf] H.
  - unfold settle_frame in H. cbn [sys_step] in H.
    destruct (server_frame (y_cfg y) (y_server y) true 16 false [] []) as [[s' fo]| |]; cbn [bind] in H; try discriminate.
    inversion H; subst y' o. rewrite (proj2 (proj2 (enqueue_fields (fo_clients fo) (set_server y s')))). reflexivity.
  - destruct (al_get (step_slot st) (y_clients y)) as [c0|] eqn:Ec.
    2:{ rewrite (step_noclient y st y' o Hnf Ec H). reflexivity. }
    destruct Hnf as [s0|s0|s0|s0]; cbn [step_slot] in Ec.
    + rewrite (step_upd y s0 c0 y' o Ec H). cbn [set_client set_link y_clients]. exact (al_keys_insert_present s0 _ c0 _ Ec).
    + rewrite (step_mut y s0 c0 y' o Ec H). cbn [set_client set_link y_clients]. exact (al_keys_insert_present s0 _ c0 _ Ec).
    + pose proof H as H0. cbn [sys_step] in H. rewrite Ec in H.
      destruct (client_frame c0 []) as [[c0' cfo]| |] eqn:Ef; cbn [bind] in H; try discriminate.
      destruct (cframe_links y s0 [] c0 c0' cfo y' o Ec Ef H0) as (_ & G2 & _). rewrite G2. exact (al_keys_insert_present s0 _ c0 _ Ec).
    + rewrite (step_ack y s0 c0 y' o Ec H). reflexivity.
Qed.

Lemma settle_steps_keys l : forall y y', Forall settle_step l -> run y l = Ok y' -> Converge.slots y' = Converge.slots y.
Proof.
  induction l as [|st t IH]; intros y y' Hf H; cbn [run] in H; [inversion H; reflexivity|].
  destruct (sys_step y st) as [[y1 o]| |] eqn:E; cbn [bind] in H; try discriminate. inversion Hf as [|? ? Hst Ht]; subst.
  rewrite (IH y1 y' Ht H). exact (settle_step_keys y st y1 o Hst E).
Qed.

Lemma settle_round_steps slots : Forall settle_step (settle_round slots).
Proof.
  unfold settle_round. constructor; [left; reflexivity|]. apply Forall_forall. intros st Hin. right.
  exact (proj1 (Forall_forall _ _) (settle_slots_nf slots) st Hin).
Qed.

Lemma converge_round_run y : Converge.settle_round y = run y (settle_round (Converge.slots y)).
Proof.
  unfold Converge.settle_round, Converge.run_steps, Converge.canonical_parts. rewrite run_steps_run. cbn [bind run fold_left].
  unfold settle_round. cbn [run]. fold settle_frame.
  destruct (sys_step y settle_frame) as [[y1 o]| |] eqn:E; cbn [bind]; [|reflexivity|reflexivity].
  rewrite run_steps_run. cbn [bind]. rewrite (settle_step_keys y settle_frame y1 o (or_introl eq_refl) E). reflexivity.
Qed.

Lemma converge_settle2 y y' : Converge.settle 2 y = Ok y' ->
  run y (settle_round (Converge.slots y) ++ settle_round (Converge.slots y)) = Ok y'.
Proof.
  cbn [Converge.settle]. rewrite converge_round_run. intros H. rewrite run_app.
  destruct (run y (settle_round (Converge.slots y))) as [y1| |] eqn:E1; cbn [bind] in H |- *; try discriminate.
  rewrite converge_round_run in H. rewrite (settle_steps_keys _ y y1 (settle_round_steps _) E1) in H.
  destruct (run y1 (settle_round (Converge.slots y))) as [y2| |]; cbn [bind] in H; try discriminate. exact H.
Qed.

(* C01 for the fragment, in the shape of the property: two rounds of the settle phase of Repl/Converge.v after any
   script in scope (the scope covers the settle steps as well: they take two ticks and may register mutate messages) *)
Theorem e2e_settle_converges cfg0 nclients body yb y sl :
  cfg_policy cfg0 = PAll ->
  let rounds := settle_round (Converge.slots yb) ++ settle_round (Converge.slots yb) in
  script_scope cfg0 nclients (body ++ rounds) ->
  run (sys_init cfg0 nclients) body = Ok yb -> Converge.settle 2 yb = Ok y -> live yb sl ->
  exists c cl, al_get sl (y_clients y) = Some c /\ cl_status c = Connected /\
    In cl (sv_clients (y_server y)) /\ sc_slot cl = sl /\ sc_authorized cl = true /\
    struct_equiv (client_struct c) (struct_of (y_server y)) /\
    forall e k, cview c e k = option_map cv_nat (sview (y_server y) e k).
Proof.
  intros Hpol rounds Hsc Rb Hset Hlive. pose proof (converge_settle2 yb y Hset) as Hrun. fold rounds in Hrun.
  apply (e2e_settles cfg0 nclients Hpol body (Converge.slots yb) sl y Hsc); [rewrite run_app, Rb; exact Hrun| |exists yb; auto].
  destruct Hlive as (c & cl & Hc & _). unfold Converge.slots. apply in_map_iff. exists (sl, c). split; [reflexivity|].
  clear -Hc. induction (y_clients yb) as [|[k v] t IH]; [discriminate|]. cbn [al_get] in Hc. destruct (k =? sl) eqn:E.
  - inversion Hc; subst v. left. f_equal. lia.
  - right. exact (IH Hc).
Qed.
