(* C01 in the shape of the property WITH PRE-SPAWN MAPPINGS: after the lossless schedule the test harness uses, run twice,
   the premises of the convergence theorem (Q, Repl/ValMapsE2E_proofs.v) hold for every live, connected, authorized client.
   Port of Repl/ValRefSettle_proofs.v; the scope is [script_scopem] (`script_okg` + `run_maps_ok`): the update messages that
   are applied during the settle rounds may still carry mappings registered by the body of the script. *)
From RV Require Import Lib.Res Repl.ClientTicks Repl.ClientTicks_proofs Repl.World Vis.Visibility Vis.VisSpec Vis.Visibility_proofs
  Tick.RepliconTick Tick.RepliconTick_proofs Tick.ConfirmHistory Tick.MutateTicks
  Repl.Server Repl.ServerSpec Repl.Server_proofs Wire.AckCodec Wire.AckCodec_proofs Repl.Ack_proofs Repl.StructSpec Repl.Struct_proofs
  Repl.StructOps_proofs Repl.StructRun_proofs
  Repl.StructVisSpec Repl.StructVis_proofs Repl.StructVisOps_proofs Repl.StructVisRun_proofs
  Repl.Client Repl.Sys Repl.Client_proofs Repl.ClientEnt_proofs Repl.ClientMut_proofs Repl.ClientSys_proofs
  Repl.ClientStructSpec Repl.ClientStruct_proofs Repl.ClientHist_proofs Repl.StructE2E_proofs Repl.StructE2EMut_proofs
  Repl.StructE2EVis_proofs Repl.StructE2ESess_proofs
  Repl.ValSpec Repl.ValSnap_proofs Repl.ValHist_proofs Repl.ValClient_proofs Repl.ValServer_proofs Repl.ValCli_proofs
  Repl.ValSrv_proofs Repl.ValFrame_proofs Repl.ValE2E_proofs Repl.ValSettle_proofs
  Repl.ValVisSpec Repl.ValVisHist_proofs Repl.ValVisCli_proofs Repl.ValVisSrv_proofs Repl.ValVisFrame_proofs Repl.ValVisE2E_proofs Repl.ValVisSettle_proofs
  Repl.ValRefSpec Repl.ValRefHist_proofs Repl.ValRefClient_proofs Repl.ValRefCli_proofs Repl.ValRefSrv_proofs Repl.ValRefFrame_proofs Repl.ValRefE2E_proofs
  Repl.ClientMaps_proofs Repl.ClientHistMaps_proofs Repl.StructE2EMaps_proofs Repl.ValRefSettle_proofs
  Repl.ValMapsSpec Repl.ValMapsNorm_proofs Repl.ValMapsCli_proofs Repl.ValMapsSrv_proofs Repl.ValMapsE2E_proofs.
From RV Require Repl.Converge.
From Coq Require Import ZifyBool ZifyN.
Open Scope N_scope.
Ltac Zify.zify_post_hook ::= Z.div_mod_to_equations.
Arguments N.add : simpl never. Arguments N.mul : simpl never. Arguments N.pow : simpl never.
Arguments N.ltb : simpl never. Arguments N.leb : simpl never. Arguments N.div : simpl never.
Arguments N.modulo : simpl never. Arguments N.sub : simpl never. Arguments N.eqb : simpl never.

Section SettleM.
  Variables (cfg0 : cfg) (nclients : N).
  Local Notation init := (sys_init cfg0 nclients).
  Local Notation SNof slot script := (snaps cfg0 nclients slot script).
  Local Notation scope := (script_scopem cfg0 nclients).

  Record factsm (script : list step) (y : sys) (gs : list (N * structure)) : Prop := mkFactsM {
    gm_scope : scope script;
    gm_run : run init script = Ok y;
    gm_erun : erun_s init [] script = Ok (y, gs);
    gm_f : g_inv cfg0 nclients script y gs;
    gm_h : srv_histr cfg0 nclients script (y_server y);
    gm_mk : markers_ok (y_server y);
    gm_max : sv_now (y_server y) < MAX_CHANGE_AGE
  }.

  (* the invariants of a live, connected slot *)
  Local Notation live_inv F := (wm_live cfg0 nclients _ _ _ _ (gm_scope _ _ _ F) (gm_run _ _ _ F)).

  (* a step of a script in scope satisfies the premise about mappings *)
  Lemma scope_step_ok script st rest y : scope (script ++ st :: rest) -> run init script = Ok y -> step_maps_ok y st.
  Proof.
    intros (_ & Hm & _) Hr. change (script ++ st :: rest) with (script ++ [st] ++ rest) in Hm. rewrite app_assoc in Hm.
    apply run_maps_ok_app in Hm. exact (proj2 (proj1 (run_maps_ok_snoc script init st) Hm) y Hr).
  Qed.

  Lemma get_factsm script y : scope script -> run init script = Ok y -> exists gs, factsm script y gs.
  Proof.
    intros Hsc Hr. pose proof Hsc as (K1 & Km & K2 & K3 & K4 & K5). destruct (run_erun_s script init [] y Hr) as [gs Eg]. exists gs.
    constructor; [exact Hsc|exact Hr|exact Eg|exact (g_run cfg0 nclients script y gs K1 Km K4 Eg)|exact (histr_run cfg0 nclients script y K2 K4 Hr)| |].
    - exact (markers_run script init y Hr (markers_init cfg0 nclients)).
    - pose proof (now_boundv cfg0 nclients script y Hr) as Hnb. pose proof max_change_age_far as Hfar. rewrite pow31_val in *. lia.
  Qed.

  Lemma conn_recm script y gs sl c : factsm script y gs -> al_get sl (y_clients y) = Some c ->
    mode_of script sl = MLive -> cl_status c = Connected ->
    sv_running (y_server y) = true /\ find_client (y_server y) sl <> None /\
    exists cl, In cl (sv_clients (y_server y)) /\ sc_slot cl = sl.
  Proof.
    intros F Hc Hm Hs. destruct (g_disconnectedm cfg0 nclients script y gs sl c (gm_f _ _ _ F) Hc) as (_ & _ & D2 & _).
    destruct (D2 Hm Hs) as (Hr & Hrec & _). split; [exact Hr|]. split; [apply has_rec_find; exact Hrec|exact Hrec].
  Qed.

  (* once every update message has reached the client no mutate message waits for a later one *)
  Lemma gate_allm script y gs sl c : factsm script y gs -> al_get sl (y_clients y) = Some c ->
    mode_of script sl = MLive -> cl_status c = Connected ->
    l_upd (get_link y sl) = [] ->
    forall m, In m (muts_of y sl c) -> gated (last (map u_tick (cl_inbox_upd c)) (cl_upd_tick c)) m = false.
  Proof.
    intros F Hc Hmd Hs Hl m Hm. destruct (conn_recm script y gs sl c F Hc Hmd Hs) as (_ & _ & cl & Hin & Hsl).
    destruct (live_inv F Hc Hmd Hs) as (_ & _ & _ & V3 & V4). destruct (V4 cl Hin Hsl) as (S & _).
    destruct (snaps_factsr cfg0 nclients sl script _ (gm_h _ _ _ F)) as (_ & _ & SNsmall & _).
    unfold pend_of in V3, S. rewrite Hl, app_nil_r in V3, S.
    pose proof (sr_mupd _ _ _ _ _ _ _ _ S m Hm) as H1. pose proof (sr_last _ _ _ _ _ _ _ _ S) as H2. rewrite H2 in H1.
    cbn [ncl cl_upd_tick] in H1. rewrite map_tick_strip in H1.
    pose proof Npow31 as P31.
    assert (HT : small_tick (last (map u_tick (cl_inbox_upd c)) (cl_upd_tick c))).
    { destruct (last_cases (map u_tick (cl_inbox_upd c)) (cl_upd_tick c)) as [[_ E]|Hin'].
      - rewrite E. destruct (cr_ut _ _ _ _ _ V3) as [E0|(r & s1 & H0)]; [cbn [ncl cl_upd_tick] in E0; rewrite E0; unfold small_tick; lia|exact (SNsmall _ _ _ H0)].
      - apply in_map_iff in Hin'. destruct Hin' as [u [Eu Hu]]. destruct (cr_pend _ _ _ _ _ V3 (strip u) (in_map strip _ u Hu)) as (_ & r & s1 & H0 & _).
        rewrite <- Eu. exact (SNsmall _ _ _ H0). }
    unfold gated. rewrite tick_gtb_small; [lia| |exact HT]. unfold small_tick in *. lia.
  Qed.

  (* ---------- the four steps on the slot itself ---------- *)

  Lemma ack_samem script y gs sl c y' o : factsm script y gs -> al_get sl (y_clients y) = Some c ->
    mode_of script sl = MLive -> cl_status c = Connected ->
    sys_step y (StDeliver sl false 0 All) = Ok (y', o) ->
    al_get sl (y_clients y') = Some c /\ srv_same (y_server y) (y_server y') /\
    acks_for sl (sv_inbox_acks (y_server y')) = acks_for sl (sv_inbox_acks (y_server y)) ++ concat (l_ack (get_link y sl)) /\
    l_upd (get_link y' sl) = l_upd (get_link y sl) /\ l_mut (get_link y' sl) = l_mut (get_link y sl) /\
    l_ack (get_link y' sl) = [].
  Proof.
    intros F Hc Hm Hs H. destruct (conn_recm script y gs sl c F Hc Hm Hs) as (Hr & Hf & _).
    rewrite (step_ack y sl c y' o Hc H). change (get_link (set_server ?a ?b) sl) with (get_link a sl).
    rewrite get_link_set_link_same. cbn [set_server set_link y_clients y_server l_upd l_mut l_ack].
    split; [exact Hc|]. split; [apply deliver_acks_same|]. split; [apply deliver_acks_own; assumption|]. repeat split.
  Qed.

  Lemma cf_samem script y gs sl c y' o : factsm script y gs -> al_get sl (y_clients y) = Some c ->
    mode_of script sl = MLive -> cl_status c = Connected -> step_maps_ok y (StCFrame sl []) ->
    sys_step y (StCFrame sl []) = Ok (y', o) ->
    let B := fold_left (fun b m => buffer_insert m b) (cl_inbox_mut c) (cl_buffered c) in
    exists c', al_get sl (y_clients y') = Some c' /\ cl_status c' = Connected /\ srv_same (y_server y) (y_server y') /\
      sv_inbox_acks (y_server y') = sv_inbox_acks (y_server y) /\
      l_upd (get_link y' sl) = l_upd (get_link y sl) /\ l_mut (get_link y' sl) = l_mut (get_link y sl) /\
      concat (l_ack (get_link y' sl)) =
        concat (l_ack (get_link y sl)) ++ map m_idx (filter (fun m => negb (gated (cl_upd_tick c') m)) B) /\
      (map m_idx (filter (fun m => negb (gated (cl_upd_tick c') m)) B) = [] -> l_ack (get_link y' sl) = l_ack (get_link y sl)) /\
      cl_inbox_upd c' = [] /\ cl_inbox_mut c' = [] /\ cl_buffered c' = filter (gated (cl_upd_tick c')) B /\
      cl_upd_tick c' = last (map u_tick (cl_inbox_upd c)) (cl_upd_tick c).
  Proof.
    intros F Hc Hm Hs Hok H B.
    destruct (snaps_factsr cfg0 nclients sl script _ (gm_h _ _ _ F)) as (SNinj & SNkeep & SNsmall & SNwf).
    destruct (live_inv F Hc Hm Hs) as (Hnb & _ & _ & V3 & _). unfold pend_of, muts_of in V3. rewrite map_app in V3.
    cbn [step_maps_ok] in Hok. specialize (Hok c Hc).
    cbn [sys_step] in H. rewrite Hc in H. destruct (client_frame c []) as [[c' cfo]| |] eqn:Ef; cbn [bind] in H; try discriminate.
    destruct (clim_frame sl (SNof sl script) SNinj SNkeep SNsmall SNwf c (map strip (l_upd (get_link y sl)))
                (l_mut (get_link y sl) ++ cl_inbox_mut c ++ cl_buffered c) [] c' cfo Hnb V3
                (fun m Hm0 => in_or_app _ _ m (or_intror Hm0)) Hs (proj1 Hok Hs) (fun _ _ _ => eq_refl) Ef) as (_ & _ & _ & Ei & Em & Est & _ & _ & _ & Htk & Hbuf & Hacks).
    fold B in Hbuf, Hacks.
    exists c'. rewrite <- Hacks.
    destruct (cfo_acks cfo) as [|a0 ar] eqn:Ea; [|rewrite Est in H]; inversion H; subst y' o; clear H;
      change (get_link (set_server ?a ?b) sl) with (get_link a sl); cbn [set_server y_server];
      (split; [cbn [set_client set_link y_clients]; apply al_get_insert_same|]); (split; [exact Est|]);
      (split; [unfold srv_same; repeat split|]); (split; [reflexivity|]).
    - change (get_link (set_client ?a ?b ?c1) sl) with (get_link a sl). rewrite app_nil_r. repeat split; assumption.
    - rewrite get_link_set_link_same. cbn [l_upd l_mut l_ack]. rewrite concat_app. cbn [concat]. rewrite app_nil_r.
      repeat split; try assumption. discriminate.
  Qed.

  (* ---------- nothing that is on its way gets lost ---------- *)

  Lemma step_xferm script y gs st y' o sl : factsm script y gs -> mode_of script sl = MLive -> step_maps_ok y st ->
    settle_nf st -> sys_step y st = Ok (y', o) -> xferv y y' sl.
  Proof.
    intros F Hmd Hok Hnf H c Hc Hs. destruct (N.eq_dec (step_slot st) sl) as [Heq|Hne].
    2:{ destruct (step_other y st y' o sl Hnf Hne H) as (A & B & _ & D). exists c. split; [rewrite B; exact Hc|]. split; [exact Hs|].
        intros i Hi. unfold idxs, muts_of, acks_of in *. rewrite A, D. exact Hi. }
    destruct Hnf as [s0|s0|s0|s0]; cbn [step_slot] in Heq; subst s0.
    - destruct (upd_same y sl c y' o Hc Hs H) as (c' & A1 & A2 & A3 & A4 & A5 & A6 & A7 & A8 & A9 & A10).
      exists c'. split; [exact A1|]. split; [exact A2|]. intros i Hi. unfold idxs, muts_of, acks_of in *. rewrite A3, A5, A6, A8, A9. exact Hi.
    - destruct (mut_same y sl c y' o Hc Hs H) as (c' & A1 & A2 & A3 & A4 & A5 & A6 & A7 & A8 & A9 & A10).
      exists c'. split; [exact A1|]. split; [exact A2|]. intros i Hi. unfold idxs, muts_of, acks_of in *. rewrite A3, A5, A6, A8, A9.
      rewrite !map_app, !in_app_iff in *. tauto.
    - destruct (cf_samem script y gs sl c y' o F Hc Hmd Hs Hok H) as (c' & A1 & A2 & A3 & A4 & A5 & A6 & A7 & _ & A9 & A10 & A11 & A12).
      cbv zeta in A7, A11. exists c'. split; [exact A1|]. split; [exact A2|]. intros i Hi. unfold idxs, muts_of, acks_of in *.
      rewrite A4, A6, A7, A10, A11. cbn [app]. rewrite !map_app, !in_app_iff in *.
      assert (Hb : forall m, In m (cl_inbox_mut c ++ cl_buffered c) ->
                In (m_idx m) (map m_idx (filter (gated (cl_upd_tick c')) (fold_left (fun b m => buffer_insert m b) (cl_inbox_mut c) (cl_buffered c)))) \/
                In (m_idx m) (map m_idx (filter (fun m => negb (gated (cl_upd_tick c') m)) (fold_left (fun b m => buffer_insert m b) (cl_inbox_mut c) (cl_buffered c))))).
      { intros m Hm. apply fold_buffer_insert_in' in Hm. destruct (gated (cl_upd_tick c') m) eqn:Eg; [left|right]; apply in_map; apply filter_In;
          (split; [exact Hm|]); rewrite Eg; reflexivity. }
      destruct Hi as [[Hi|[Hi|Hi]]|[Hi|Hi]]; [tauto| | |tauto|tauto].
      + apply in_map_iff in Hi. destruct Hi as [m [<- Hm]]. destruct (Hb m (in_or_app _ _ m (or_introl Hm))); tauto.
      + apply in_map_iff in Hi. destruct Hi as [m [<- Hm]]. destruct (Hb m (in_or_app _ _ m (or_intror Hm))); tauto.
    - destruct (ack_samem script y gs sl c y' o F Hc Hmd Hs H) as (A1 & A2 & A3 & A4 & A5 & A6).
      exists c. split; [exact A1|]. split; [exact Hs|]. intros i Hi. unfold idxs, muts_of, acks_of in *. rewrite A3, A5, A6. cbn [concat].
      rewrite app_nil_r. exact Hi.
  Qed.

  Lemma factsm_step script y gs st rest y1 o : factsm script y gs -> scope ((script ++ [st]) ++ rest) ->
    sys_step y st = Ok (y1, o) -> exists gs1, factsm (script ++ [st]) y1 gs1.
  Proof.
    intros F Hsc H. assert (Hr : run init (script ++ [st]) = Ok y1).
    { rewrite run_app, (gm_run _ _ _ F). cbn [bind run]. rewrite H. reflexivity. }
    exact (get_factsm _ _ (scopem_prefix cfg0 nclients _ rest y1 Hsc Hr) Hr).
  Qed.

  (* ---------- a connected client stays connected ---------- *)

  Lemma step_connm script y gs st y' o sl : factsm script y gs -> mode_of script sl = MLive -> step_maps_ok y st -> settle_nf st -> sys_step y st = Ok (y', o) ->
    conn y sl -> conn y' sl.
  Proof.
    intros F Hm Hok Hnf H (c & Hc & Hs). destruct (step_xferm script y gs st y' o sl F Hm Hok Hnf H c Hc Hs) as (c' & A & B & _). exists c'. auto.
  Qed.

  (* ---------- the queues of a slot are empty ---------- *)

  Lemma step_emptiedm script y gs st y' o sl : factsm script y gs -> mode_of script sl = MLive -> step_maps_ok y st -> settle_nf st -> sys_step y st = Ok (y', o) ->
    emptied y sl -> emptied y' sl.
  Proof.
    intros F Hmd Hok Hnf H (c & Hc & Hs & E1 & E2 & E3 & E4 & E5 & E6). destruct (N.eq_dec (step_slot st) sl) as [Heq|Hne].
    2:{ destruct (step_other y st y' o sl Hnf Hne H) as (A & B & _). exists c. rewrite A, B. auto 10. }
    destruct Hnf as [s0|s0|s0|s0]; cbn [step_slot] in Heq; subst s0.
    - destruct (upd_same y sl c y' o Hc Hs H) as (c' & A1 & A2 & A3 & A4 & A5 & A6 & A7 & A8 & A9 & A10).
      exists c'. rewrite A4, A5, A6, A7, A8, A9, E1, E2, E3, E4, E5, E6. auto 10.
    - destruct (mut_same y sl c y' o Hc Hs H) as (c' & A1 & A2 & A3 & A4 & A5 & A6 & A7 & A8 & A9 & A10).
      exists c'. rewrite A4, A5, A6, A7, A8, A9, E1, E2, E3, E4, E5, E6. auto 10.
    - destruct (cf_samem script y gs sl c y' o F Hc Hmd Hs Hok H) as (c' & A1 & A2 & A3 & A4 & A5 & A6 & A7 & A8 & A9 & A10 & A11 & A12).
      cbv zeta in A7, A8, A11. rewrite E5, E6 in A8, A11. cbn [fold_left filter map] in A8, A11.
      exists c'. rewrite A5, A6, (A8 eq_refl), A9, A10, A11, E1, E2, E3. auto 10.
    - destruct (ack_samem script y gs sl c y' o F Hc Hmd Hs H) as (A1 & A2 & A3 & A4 & A5 & A6).
      exists c. rewrite A4, A5, A6, E1, E2. auto 10.
  Qed.

  Lemma block_emptiedm script y gs sl y' : factsm script y gs -> mode_of script sl = MLive -> scope (script ++ settle_slot sl) -> conn y sl ->
    run y (settle_slot sl) = Ok y' -> emptied y' sl.
  Proof.
    intros F Hmd Hsc (c & Hc & Hs) H. unfold settle_slot in *. cbn [run] in H.
    destruct (sys_step y (StDeliver sl true 0 All)) as [[y1 o1]| |] eqn:S1; cbn [bind] in H; try discriminate.
    destruct (sys_step y1 (StDeliver sl true 1 All)) as [[y2 o2]| |] eqn:S2; cbn [bind] in H; try discriminate.
    destruct (sys_step y2 (StCFrame sl [])) as [[y3 o3]| |] eqn:S3; cbn [bind] in H; try discriminate.
    destruct (sys_step y3 (StDeliver sl false 0 All)) as [[y4 o4]| |] eqn:S4; cbn [bind] in H; try discriminate.
    inversion H; subst y4. clear H.
    destruct (factsm_step script y gs _ [StDeliver sl true 1 All; StCFrame sl []; StDeliver sl false 0 All] y1 o1 F
                ltac:(rewrite <- app_assoc; exact Hsc) S1) as [gs1 F1].
    destruct (factsm_step _ y1 gs1 _ [StCFrame sl []; StDeliver sl false 0 All] y2 o2 F1
                ltac:(rewrite <- !app_assoc; exact Hsc) S2) as [gs2 F2].
    destruct (factsm_step _ y2 gs2 _ [StDeliver sl false 0 All] y3 o3 F2 ltac:(rewrite <- !app_assoc; exact Hsc) S3) as [gs3 F3].
    assert (M1 : mode_of (script ++ [StDeliver sl true 0 All]) sl = MLive) by (rewrite mode_of_snoc, Hmd; reflexivity).
    assert (M2 : mode_of ((script ++ [StDeliver sl true 0 All]) ++ [StDeliver sl true 1 All]) sl = MLive) by (rewrite mode_of_snoc, M1; reflexivity).
    assert (M3 : mode_of (((script ++ [StDeliver sl true 0 All]) ++ [StDeliver sl true 1 All]) ++ [StCFrame sl []]) sl = MLive).
    { rewrite mode_of_snoc, M2. cbn [mode_step]. rewrite N.eqb_refl. reflexivity. }
    destruct (upd_same y sl c y1 o1 Hc Hs S1) as (c1 & A1 & A2 & A3 & A4 & A5 & A6 & A7 & A8 & A9 & A10).
    destruct (mut_same y1 sl c1 y2 o2 A1 A2 S2) as (c2 & B1 & B2 & B3 & B4 & B5 & B6 & B7 & B8 & B9 & B10).
    rewrite A4 in B4.
    assert (Hok3 : step_maps_ok y2 (StCFrame sl [])).
    { apply (scope_step_ok ((script ++ [StDeliver sl true 0 All]) ++ [StDeliver sl true 1 All]) _ [StDeliver sl false 0 All]); [rewrite <- !app_assoc; exact Hsc|exact (gm_run _ _ _ F2)]. }
    destruct (cf_samem _ y2 gs2 sl c2 y3 o3 F2 B1 M2 B2 Hok3 S3) as (c3 & C1 & C2 & C3 & C4 & C5 & C6 & C7 & C8 & C9 & C10 & C11 & C12).
    cbv zeta in C7, C8, C11. rewrite B4 in C5. rewrite B5 in C6.
    assert (Hg : cl_buffered c3 = []).
    { rewrite C11. apply filter_none. intros m Hm. rewrite C12. apply (gate_allm _ y2 gs2 sl c2 F2 B1 M2 B2 B4).
      apply fold_buffer_insert_in in Hm. unfold muts_of. apply in_or_app. right. exact Hm. }
    destruct (ack_samem _ y3 gs3 sl c3 y' o4 F3 C1 M3 C2 S4) as (D1 & D2 & D3 & D4 & D5 & D6).
    exists c3. rewrite D4, D5, D6, C5, C6. auto 10.
  Qed.

  (* ---------- sequences of steps ---------- *)

  Lemma steps_presm sl (R : sys -> Prop) :
    (forall script y gs st y' o, factsm script y gs -> mode_of script sl = MLive -> step_maps_ok y st -> settle_nf st -> sys_step y st = Ok (y', o) -> R y -> R y') ->
    forall l script y y', Forall settle_nf l -> scope (script ++ l) -> mode_of script sl = MLive -> run init script = Ok y -> run y l = Ok y' -> R y -> R y'.
  Proof.
    intros Hstep. induction l as [|st t IH]; intros script y y' Hnf Hsc Hm Hr H HR; cbn [run] in H; [inversion H; subst; exact HR|].
    destruct (sys_step y st) as [[y1 o]| |] eqn:E; cbn [bind] in H; try discriminate.
    inversion Hnf as [|? ? Hst Ht]; subst.
    destruct (get_factsm script y (scopem_prefix cfg0 nclients script (st :: t) y Hsc Hr) Hr) as [gs F].
    apply (IH (script ++ [st]) y1 y' Ht); [rewrite <- app_assoc; exact Hsc|rewrite mode_of_snoc; apply settle_nf_mode; assumption| |exact H|exact (Hstep script y gs st y1 o F Hm (scope_step_ok script st t y Hsc Hr) Hst E HR)].
    rewrite run_app, Hr. cbn [bind run]. rewrite E. reflexivity.
  Qed.

  Lemma blocks_emptiedm sl : forall slots script y y', In sl slots -> scope (script ++ flat_map settle_slot slots) ->
    mode_of script sl = MLive ->
    run init script = Ok y -> run y (flat_map settle_slot slots) = Ok y' -> conn y sl -> emptied y' sl.
  Proof.
    induction slots as [|a t IH]; intros script y y' Hin Hsc Hm Hr H Hcn; [destruct Hin|].
    cbn [flat_map] in *. rewrite run_app in H. destruct (run y (settle_slot a)) as [ya| |] eqn:Ea; cbn [bind] in H; try discriminate.
    assert (Hra : run init (script ++ settle_slot a) = Ok ya) by (rewrite run_app, Hr; exact Ea).
    rewrite app_assoc in Hsc. pose proof (scopem_prefix cfg0 nclients _ _ ya Hsc Hra) as Hsca.
    assert (Hma : mode_of (script ++ settle_slot a) sl = MLive) by (apply settle_nf_modes; [apply settle_slot_nf|exact Hm]).
    destruct (N.eq_dec a sl) as [->|Hne].
    - destruct (get_factsm script y (scopem_prefix cfg0 nclients _ _ y Hsca Hr) Hr) as [gs F].
      pose proof (block_emptiedm script y gs sl ya F Hm Hsca Hcn Ea) as He.
      exact (steps_presm sl (fun y => emptied y sl) (fun script y gs st y' o F Hm0 Hok Hnf H => step_emptiedm script y gs st y' o sl F Hm0 Hok Hnf H)
               (flat_map settle_slot t) _ ya y' (settle_slots_nf t) Hsc Hma Hra H He).
    - destruct Hin as [->|Hin]; [congruence|]. apply (IH (script ++ settle_slot a) ya y' Hin Hsc Hma Hra H).
      exact (steps_presm sl (fun y => conn y sl) (fun script y gs st y' o F Hm0 Hok Hnf H => step_connm script y gs st y' o sl F Hm0 Hok Hnf H)
               (settle_slot a) script y ya (settle_slot_nf a) Hsca Hm Hr Ea Hcn).
  Qed.

  (* ---------- everything replicated and visible has been sent ---------- *)

  Lemma step_sent_allm script y gs st y' o sl : factsm script y gs -> mode_of script sl = MLive -> step_maps_ok y st -> settle_nf st -> sys_step y st = Ok (y', o) ->
    sent_allv y sl -> sent_allv y' sl.
  Proof.
    intros F Hmd Hok Hnf H (c & cl & Hc & Hs & Hin & Hsl & Hau & B1 & B2 & B3 & Hvs & Hpm & Hall).
    destruct (step_srv_same y st y' o Hnf H) as (S1 & S2 & S3 & S4 & S5 & S6 & S7 & S8).
    destruct (step_xferm script y gs st y' o sl F Hmd Hok Hnf H c Hc Hs) as (c' & A & B & Hidx).
    exists c', cl. rewrite S2, S3, S4, S5, S7, (replicated_ents_ext _ _ S1). do 10 (split; [assumption|]).
    intros e x madd Hr. destruct (Hall e x madd Hr) as [Hh|(Hv & Hm & Hch & a & Ha & Hcv)]; [left; exact Hh|right].
    split; [exact Hv|]. split; [exact Hm|]. split; [exact Hch|]. exists a. split; [exact Ha|].
    destruct Hcv as [Hcov|(i & info & Hi & Hinfo & He & Hcov)]; [left; exact Hcov|right]. exists i, info. split; [exact (Hidx i Hi)|auto].
  Qed.

  (* ---------- the server has nothing left to send ---------- *)

  Lemma step_quietm script y gs st y' o sl : factsm script y gs -> mode_of script sl = MLive -> step_maps_ok y st -> settle_nf st -> sys_step y st = Ok (y', o) ->
    quiet y sl -> quiet y' sl.
  Proof.
    intros F Hmd Hok Hnf H (c & cl & Hc & Hs & Hin & Hsl & Hau & Hq & Hev).
    destruct (step_srv_same y st y' o Hnf H) as (S1 & S2 & S3 & S4 & S5 & S6 & S7 & S8).
    destruct (step_xferm script y gs st y' o sl F Hmd Hok Hnf H c Hc Hs) as (c' & A & B & _).
    exists c', cl. rewrite S4, S7. do 5 (split; [assumption|]). split; [|exact Hev].
    pose proof Hq as (_ & Q2 & Q3 & _).
    apply (quiescent_for_transfer (y_server y) (y_server y') cl cl); [exact S1|congruence|congruence|lia|apply sc_equiv_refl|exact Hq].
  Qed.

  (* ================================================================== *)
  (* the server frame of a round                                        *)
  (* ================================================================== *)

  Lemma fr_pre_nil_clientsm s : sv_clients (fr_pre cfg0 s true 16 false []) = map (ack_client (sv_now s) (sv_inbox_acks s)) (sv_clients s).
  Proof. unfold fr_pre. cbv zeta. cbn [fold_left]. change (sv_clients (buffer_removals ?a)) with (sv_clients a). rewrite receive_acks_clients. reflexivity. Qed.

  Lemma frame_shapem script y gs y' o sl c cl :
    factsm script y gs -> scope (script ++ [settle_frame]) -> sys_step y settle_frame = Ok (y', o) ->
    al_get sl (y_clients y) = Some c -> mode_of script sl = MLive -> cl_status c = Connected ->
    In cl (sv_clients (y_server y)) -> sc_slot cl = sl -> sc_authorized cl = true ->
    let s := y_server y in
    let s3 := fr_pre cfg0 s true 16 false [] in
    let rec3 := ack_client (sv_now s) (sv_inbox_acks s) cl in
    let P := sfc_pure cfg0 s3 (sv_now s3) rec3 [] in
    (srv_ok_v s3 /\ sv_removed_events s3 = [] /\ sv_now s3 = sv_now s /\ sv_ents s3 = sv_ents s /\ sv_last_run s3 = sv_last_run s /\
     sv_despawn_buf s3 = sv_despawn_buf s /\ (sv_removed_events s = [] -> sv_removal_buf s3 = sv_removal_buf s) /\
     sv_tick s3 = sv_tick s + 1) /\
    (sc_slot rec3 = sl /\ sc_authorized rec3 = true /\ sc_vis rec3 = sc_vis cl /\ sc_pending_map rec3 = sc_pending_map cl /\
     ct_mutate_index (sc_ticks rec3) + N.of_nat (length (co_mutates (snd P))) < 2 ^ 16) /\
    y_server y' = set_last_running (set_after_send s3 (map fst (map (client_result_pure cfg0 s3 []) (sv_clients s3))) (sv_now s3)) /\
    y_clients y' = y_clients y /\ In (fst P) (sv_clients (y_server y')) /\
    l_mut (get_link y' sl) = l_mut (get_link y sl) ++ co_mutates (snd P) /\
    l_ack (get_link y' sl) = l_ack (get_link y sl) /\ sv_inbox_acks (y_server y') = [].
  Proof.
    intros F Hsc H Hc Hmd Hs Hin Hsl Hau s s3 rec3 P.
    pose proof (gm_f _ _ _ F) as Hf. pose proof (gi2_cfg _ _ _ _ _ Hf) as Hcfg. pose proof (gi2_ginv _ _ _ _ _ Hf) as Hg.
    destruct (conn_recm script y gs sl c F Hc Hmd Hs) as (Hrun & _). fold s in Hrun.
    pose proof H as H0. unfold settle_frame in H. cbn [sys_step] in H. rewrite Hcfg in H. fold s in H.
    destruct (server_frame cfg0 s true 16 false [] []) as [[s' fo]| |] eqn:Ef; cbn [bind] in H; try discriminate.
    inversion H; subst y' o. clear H.
    destruct (enqueue_fields (fo_clients fo) (set_server y s')) as (Q1 & Q2 & Q3). cbn [set_server y_server y_clients] in Q2, Q3.
    pose proof (frame_running_v cfg0 s true 16 false [] [] s' fo (gv_srv _ Hg) Hrun (gv_slots _ Hg) eq_refl Ef) as FR. cbv zeta in FR.
    fold s3 in FR. destruct FR as (Hok3 & Hev3 & Hnow3 & Htick3 & _ & _ & _ & Hc3). rewrite orb_true_r in Hc3. destruct Hc3 as [Es' Efo].
    pose proof (fr_pre_nil_clientsm s) as Hcl3'. fold s3 in Hcl3'.
    destruct (ack_client_frame (sv_now s) (sv_inbox_acks s) cl) as (A1 & A2 & _ & A4 & A5). fold rec3 in A1, A2, A4, A5.
    assert (Hin3 : In rec3 (sv_clients s3)) by (rewrite Hcl3'; apply in_map; exact Hin).
    assert (Hau3 : sc_authorized rec3 = true) by congruence.
    assert (Hsl3 : sc_slot rec3 = sl) by congruence.
    assert (Hnd3 : NoDup (map sc_slot (sv_clients s3))).
    { rewrite Hcl3', map_map. rewrite (map_ext (fun x => sc_slot (ack_client (sv_now s) (sv_inbox_acks s) x)) sc_slot); [exact (gv_slots _ Hg)|].
      intros a. exact (proj1 (ack_client_frame _ _ a)). }
    pose proof (mutates_for_outs cfg0 s3 [] (sv_clients s3) rec3 Hnd3 Hin3 Hau3) as Em. rewrite Hsl3 in Em.
    change (part_for [] rec3) with (@nil (list N)) in Em. fold P in Em.
    assert (Houts : fo_clients fo = outs_of (map (client_result_pure cfg0 s3 []) (sv_clients s3))) by (rewrite Efo; reflexivity).
    pose proof (hr_tick _ _ _ _ (gm_h _ _ _ F)) as Htk. fold s in Htk.
    assert (Htadd : tick_add (sv_tick s) 1 = sv_tick s + 1).
    { unfold tick_add. apply N.mod_small. rewrite pow32_val. destruct (gm_scope _ _ _ F) as (_ & _ & _ & _ & K4 & _). rewrite pow31_val in K4. lia. }
    split; [|split; [|split; [|split; [|split; [|split; [|split]]]]]].
    - split; [exact Hok3|]. split; [exact Hev3|]. split; [exact Hnow3|]. split; [reflexivity|]. split; [reflexivity|]. split; [reflexivity|].
      split; [|rewrite Htick3; exact Htadd].
      intros Hev. unfold s3, fr_pre, buffer_removals. cbv zeta. cbn [fold_left sv_removal_buf set_bufs].
      change (sv_removed_events (Server.receive_acks (with_time_tick s true 16))) with (sv_removed_events s). rewrite Hev. reflexivity.
    - split; [exact Hsl3|]. split; [exact Hau3|]. split; [exact A4|].
      split; [exact A5|].
      destruct (live_inv F Hc Hmd Hs) as (_ & _ & _ & _ & V4). destruct (V4 cl Hin Hsl) as (_ & Hreg & _).
      destruct Hsc as (_ & _ & _ & _ & _ & K5 & _). specialize (K5 sl).
      rewrite (regsv_snoc cfg0 nclients script y settle_frame _ _ sl (gm_run _ _ _ F) H0) in K5. unfold regs_step, settle_frame in K5.
      rewrite Hcfg in K5. fold s in K5. rewrite Ef, Houts, Em in K5. unfold rec3. rewrite ack_client_index. lia.
    - rewrite Q2. rewrite Hnow3 in *. exact Es'.
    - exact Q3.
    - rewrite Q2, Es'. cbn [set_last_running set_after_send sv_clients]. rewrite map_map. apply in_map_iff. exists rec3. split; [|exact Hin3].
      unfold client_result_pure. rewrite Hau3. reflexivity.
    - rewrite enqueue_lmut. change (get_link (set_server y s') sl) with (get_link y sl). rewrite Houts, Em. reflexivity.
    - rewrite enqueue_lack. reflexivity.
    - rewrite Q2. exact (proj2 (frame_inbox cfg0 s true 16 false [] [] s' fo Ef) Hrun).
  Qed.

  (* a live, connected, authorized client *)
  (* the record of the slot when the frame sends *)
  Lemma rec3_pendingm script y gs sl c cl : factsm script y gs -> al_get sl (y_clients y) = Some c ->
    In cl (sv_clients (y_server y)) -> sc_slot cl = sl -> sc_authorized cl = true ->
    match sc_vis cl with Some v => vis_legal v | None => True end.
  Proof.
    intros F Hc Hin Hsl Hau. pose proof (gi2_ginv _ _ _ _ _ (gm_f _ _ _ F)) as Hg.
    destruct (gv_clients _ Hg cl Hin Hau) as [Hp _]. exact (pending_ok_v_legal _ _ _ Hp).
  Qed.

  (* after the frame every replicated entity visible to the client is acknowledged, or on its way in a mutate message of
     this run; the ClientVisibility of the record is settled *)
  Lemma frame_sentm script y gs y' o sl : factsm script y gs -> scope (script ++ [settle_frame]) ->
    sys_step y settle_frame = Ok (y', o) -> livev script y sl -> sent_allv y' sl.
  Proof.
    intros F Hsc H (Hmd & c & cl & Hc & Hs & Hin & Hsl & Hau).
    destruct (frame_shapem script y gs y' o sl c cl F Hsc H Hc Hmd Hs Hin Hsl Hau) as
      ((Hok3 & Hev3 & Hnow3 & Hents3 & Hlr3 & Hdb3 & _ & Htick3) & (R1 & R2 & R3 & R4 & R5) & Es' & Ecl' & Hin' & Elm & _ & _).
    set (s := y_server y) in *. set (s3 := fr_pre cfg0 s true 16 false []) in *.
    set (rec3 := ack_client (sv_now s) (sv_inbox_acks s) cl) in *. set (P := sfc_pure cfg0 s3 (sv_now s3) rec3 []) in *.
    pose proof (gm_h _ _ _ F) as Hh. fold s in Hh.
    assert (Heok3 : ents_okr s3) by (apply (ents_okr_ext s); [exact Hents3|lia|exact (hr_ents _ _ _ _ Hh)]).
    assert (He' : sv_ents (y_server y') = sv_ents s3) by (rewrite Es'; reflexivity).
    pose proof (rec3_pendingm script y gs sl c cl F Hc Hin Hsl Hau) as Hleg. rewrite <- R3 in Hleg.
    (* the visibility the frame reads, and the one it leaves *)
    assert (Hvis' : sc_vis (fst P) = match sfc_vis1 s3 rec3 with Some v => Some (update v) | None => None end) by reflexivity.
    assert (Hmidleg : match sfc_vis1 s3 rec3 with Some v => vis_legal v | None => True end).
    { destruct (sc_vis rec3) as [v|] eqn:Ev.
      - rewrite (sv_vis1 s3 rec3 v Ev). apply mid_legal. exact Hleg.
      - rewrite (nv_vis1 s3 rec3 Ev). exact I. }
    assert (Hstate : forall e, vis_state_of (sc_vis (fst P)) e =
              if vis_visible (sfc_vis1 s3 rec3) e then VVisible else VHidden).
    { intros e. rewrite Hvis'. destruct (sfc_vis1 s3 rec3) as [v|]; [|reflexivity]. cbn [vis_state_of vis_visible]. apply update_state. exact Hmidleg. }
    exists c, (fst P). split; [rewrite Ecl'; exact Hc|]. split; [exact Hs|]. split; [exact Hin'|]. split; [exact R1|]. split; [reflexivity|].
    split; [rewrite Es'; reflexivity|]. split; [rewrite Es'; reflexivity|]. split; [rewrite Es'; exact Hev3|].
    split; [rewrite Hvis'; destruct (sfc_vis1 s3 rec3); [apply update_settles|exact I]|]. split; [reflexivity|].
    rewrite (replicated_ents_ext _ _ He'). assert (Elr : sv_last_run (y_server y') = sv_now s3) by (rewrite Es'; reflexivity). rewrite Elr.
    intros e x madd Hr. rewrite Hstate. destruct (vis_visible (sfc_vis1 s3 rec3) e) eqn:Ev; [right|left; reflexivity].
    split; [reflexivity|].
    destruct (rv_repl s3 (y_server y') He' Hok3 Heok3 e x madd Hr) as (G1 & _ & (_ & Hcok) & G7).
    split; [|split].
    - rewrite Hnow3. apply (gm_mk _ _ _ F e x madd); [|exact G7]. fold s. unfold get_ent in *. rewrite <- Hents3. exact G1.
    - intros k cc Hk. exact (proj2 (proj2 (Hcok k cc Hk))).
    - assert (Hnh : vis_state_of (sfc_vis1 s3 rec3) e <> VHidden) by (apply vis_visible_state; exact Ev).
      assert (Hpos3 : 1 <= sv_tick s3) by lia.
      assert (Hn' : sv_now (y_server y') = sv_now s3 + 1) by (rewrite Es'; reflexivity).
      assert (Ht' : sv_tick (y_server y') = sv_tick s3) by (rewrite Es'; reflexivity).
      destruct (sendr_covered sl (fun _ _ _ => False) (fun t r s0 => t = sv_tick s3 /\ r = sv_now s3 /\ s0 = y_server y')
                  cfg0 s3 (y_server y') rec3 [] (fun t r s1 (Hx : False) => match Hx with end) (fun t r s1 (Hx : False) => match Hx with end)
                  Hpos3 He' Ht' Hok3 Heok3 (fun t r s1 (Hx : False) => match Hx with end) (fun t r s0 Hx => or_intror Hx) Hn'
                  (fun d _ t r s0 (Hx : False) => match Hx with end) R5 e x madd Hr Hnh)
        as [(a & Ha & Hcov)|(Hst & m & Hm & Hem & Hreg & Hcov)].
      + exists a. split; [exact Ha|left; exact Hcov].
      + fold P in Hst, Hm, Hreg. destruct (mutation_tick (sc_ticks (fst P)) e) as [a|] eqn:Ea; [|congruence]. exists a. split; [exact Ea|right].
        exists (m_idx m), (mkMI (sv_now s3) (sv_elapsed s3) (map fst (m_body m))). split; [|split; [exact Hreg|split; [exact Hem|exact Hcov]]].
        unfold idxs. apply in_or_app. left. apply in_map. unfold muts_of. apply in_or_app. left. rewrite Elm. apply in_or_app. right. exact Hm.
  Qed.

  (* with every acknowledgement back the next frame finds nothing to send *)
  Lemma frame_quietm script y gs y' o sl : factsm script y gs -> mode_of script sl = MLive -> scope (script ++ [settle_frame]) ->
    sys_step y settle_frame = Ok (y', o) -> sent_allv y sl -> emptied y sl -> quiet y' sl.
  Proof.
    intros F Hmd Hsc H (c & cl & Hc & Hs & Hin & Hsl & Hau & B1 & B2 & B3 & Hvs & Hpm & Hall) (c0 & Hc0 & _ & E1 & E2 & E3 & E4 & E5 & E6).
    assert (c0 = c) by congruence. subst c0.
    destruct (frame_shapem script y gs y' o sl c cl F Hsc H Hc Hmd Hs Hin Hsl Hau) as
      ((Hok3 & Hev3 & Hnow3 & Hents3 & Hlr3 & Hdb3 & Hrb3 & _) & (R1 & R2 & R3 & R4 & R5) & Es' & Ecl' & Hin' & _ & _ & _).
    set (s := y_server y) in *. set (s3 := fr_pre cfg0 s true 16 false []) in *.
    set (rec3 := ack_client (sv_now s) (sv_inbox_acks s) cl) in *. set (P := sfc_pure cfg0 s3 (sv_now s3) rec3 []) in *.
    pose proof (gm_h _ _ _ F) as Hh. fold s in Hh.
    assert (Heok3 : ents_okr s3) by (apply (ents_okr_ext s); [exact Hents3|lia|exact (hr_ents _ _ _ _ Hh)]).
    assert (He' : sv_ents (y_server y') = sv_ents s3) by (rewrite Es'; reflexivity).
    (* the stamps after the acknowledgements *)
    destruct (live_inv F Hc Hmd Hs) as (_ & _ & _ & _ & V4). destruct (V4 cl Hin Hsl) as (S & _ & _).
    pose proof (sr_le _ _ _ _ _ _ _ _ S) as Hb. fold s in Hb.
    destruct (ack_all_facts (sv_now s) (acks_for sl (sv_inbox_acks s)) (gm_max _ _ _ F) (sc_ticks cl) Hb) as (_ & Hmono & Hcov).
    assert (Et3 : sc_ticks rec3 = ack_all (sc_ticks cl) (sv_now s) (acks_for sl (sv_inbox_acks s))).
    { unfold rec3, ack_client. rewrite Hau, Hsl. reflexivity. }
    assert (Eidx : idxs y sl c = acks_for sl (sv_inbox_acks s)).
    { unfold idxs, muts_of, acks_of. rewrite E2, E3, E5, E6. cbn [app map concat]. apply app_nil_r. }
    assert (Hq : quiescent_for s3 rec3).
    { split; [rewrite R4; exact Hpm|]. split; [rewrite Hdb3; exact B1|]. split; [rewrite (Hrb3 B3); exact B2|]. split; [rewrite R3; exact Hvs|].
      intros e x madd Hr. rewrite R3.
      rewrite (replicated_ents_ext _ _ Hents3) in Hr. destruct (Hall e x madd Hr) as [Hh0|(Hv & Hm & Hch & a & Ha & Hcv)]; [left; exact Hh0|right].
      split; [exact Hv|]. fold s in Hm, Hch.
      assert (Hr3 : In (e, x, madd) (replicated_ents s3)) by (rewrite (replicated_ents_ext _ _ Hents3); exact Hr).
      destruct (rv_repl s3 (y_server y') He' Hok3 Heok3 e x madd Hr3) as (_ & _ & (_ & Hcok) & _).
      assert (Hst : exists a', mutation_tick (sc_ticks rec3) e = Some a' /\ forall k cc, In (k, cc) (se_comps x) -> c_changed cc <= a').
      { rewrite Et3. destruct Hcv as [Hcv|(i & info & Hi & Hinfo & He & Hcv)].
        - destruct (Hmono e a Ha) as (a' & E' & Hle). exists a'. split; [exact E'|]. intros k cc Hk. specialize (Hcv k cc Hk). lia.
        - rewrite Eidx in Hi. destruct (Hcov i info e a Hi Hinfo He Ha) as (a' & E' & Hle). exists a'. split; [exact E'|].
          intros k cc Hk. specialize (Hcv k cc Hk). lia. }
      destruct Hst as (a' & E' & Hle). exists a'. split; [exact E'|]. rewrite Hlr3. split; [lia|].
      intros k cc Hk. split; [exact (Hle k cc Hk)|]. specialize (Hch k cc Hk). pose proof (Hcok k cc Hk) as (_ & Hac & _). lia. }
    pose proof (idle_server_silent cfg0 s3 (sv_now s3) rec3 [] Hq) as Hsil. rewrite send_for_client_eq in Hsil. fold P in Hsil.
    assert (EP : fst P = silent_client cfg0 s3 (sv_now s3) rec3) by (apply (f_equal (fun r => match r with Ok p => fst p | _ => fst P end)) in Hsil; exact Hsil).
    exists c, (fst P). split; [rewrite Ecl'; exact Hc|]. split; [exact Hs|]. split; [exact Hin'|]. split; [exact R1|]. split; [reflexivity|].
    split; [|rewrite Es'; exact Hev3].
    rewrite EP. apply (quiescent_for_transfer s3 (y_server y') rec3); [exact He'|rewrite Es'; reflexivity|rewrite Es'; reflexivity| | |exact Hq].
    - rewrite Es'. cbn [set_last_running set_after_send sv_last_run]. rewrite Hlr3, Hnow3. pose proof (hr_now _ _ _ _ Hh). lia.
    - apply silent_client_equiv; [exact R2|exact Hq].
  Qed.

  (* ================================================================== *)
  (* two lossless rounds give the premises of the convergence theorem   *)
  (* ================================================================== *)

  Lemma sent_allm_conn y sl : sent_allv y sl -> conn y sl.
  Proof. intros (c & cl & Hc & Hs & _). exists c. auto. Qed.

  Theorem settlem_premises body slots sl y :
    scope (body ++ settle_round slots ++ settle_round slots) ->
    run init (body ++ settle_round slots ++ settle_round slots) = Ok y ->
    In sl slots -> (exists yb, run init body = Ok yb /\ livev body yb sl) ->
    mode_of (body ++ settle_round slots ++ settle_round slots) sl = MLive /\
    exists c cl, al_get sl (y_clients y) = Some c /\ cl_status c = Connected /\
      In cl (sv_clients (y_server y)) /\ sc_slot cl = sl /\ sc_authorized cl = true /\
      l_upd (get_link y sl) = [] /\ cl_inbox_upd c = [] /\ quiescent_for (y_server y) cl /\ sv_removed_events (y_server y) = [].
  Proof.
    intros Hsc Hrun Hsl (yb & Rb & Hlive). set (B := flat_map settle_slot slots) in *.
    assert (Ew : body ++ settle_round slots ++ settle_round slots = (((body ++ [settle_frame]) ++ B) ++ [settle_frame]) ++ B).
    { unfold settle_round. fold B. rewrite <- !app_assoc. reflexivity. }
    rewrite Ew in Hsc, Hrun |- *.
    rewrite run_app in Hrun. destruct (run init (((body ++ [settle_frame]) ++ B) ++ [settle_frame])) as [y3| |] eqn:R3; cbn [bind] in Hrun; try discriminate.
    pose proof R3 as R3'. rewrite run_app in R3'. destruct (run init ((body ++ [settle_frame]) ++ B)) as [y2| |] eqn:R2; cbn [bind] in R3'; try discriminate.
    pose proof R2 as R2'. rewrite run_app in R2'. destruct (run init (body ++ [settle_frame])) as [y1| |] eqn:R1; cbn [bind] in R2'; try discriminate.
    pose proof R1 as R1'. rewrite run_app, Rb in R1'. cbn [bind run] in R1'.
    destruct (sys_step yb settle_frame) as [[y1' o1]| |] eqn:S1; cbn [bind] in R1'; try discriminate. inversion R1'; subst y1'. clear R1'.
    cbn [run] in R3'. destruct (sys_step y2 settle_frame) as [[y3' o3]| |] eqn:S3; cbn [bind] in R3'; try discriminate. inversion R3'; subst y3'. clear R3'.
    pose proof (scopem_prefix cfg0 nclients _ _ y3 Hsc R3) as Hsc3. pose proof (scopem_prefix cfg0 nclients _ _ y2 Hsc3 R2) as Hsc2.
    pose proof (scopem_prefix cfg0 nclients _ _ y1 Hsc2 R1) as Hsc1. pose proof (scopem_prefix cfg0 nclients _ _ yb Hsc1 Rb) as Hscb.
    destruct (get_factsm body yb Hscb Rb) as [gsb Fb]. destruct (get_factsm _ y2 Hsc2 R2) as [gs2 F2].
    pose proof (proj1 Hlive) as M0.
    pose proof (settle_frame_mode body sl M0) as M1.
    pose proof (settle_nf_modes B _ sl (settle_slots_nf slots) M1) as M2.
    pose proof (settle_frame_mode _ sl M2) as M3.
    pose proof (settle_nf_modes B _ sl (settle_slots_nf slots) M3) as M4.
    split; [exact M4|].
    (* round 1 *)
    pose proof (frame_sentm body yb gsb y1 o1 sl Fb Hsc1 S1 Hlive) as Hsent1.
    pose proof (steps_presm sl (fun y => sent_allv y sl) (fun script y gs st y' o F Hm Hok Hnf H => step_sent_allm script y gs st y' o sl F Hm Hok Hnf H)
                  B _ y1 y2 (settle_slots_nf slots) Hsc2 M1 R1 R2' Hsent1) as Hsent2.
    pose proof (blocks_emptiedm sl slots _ y1 y2 Hsl Hsc2 M1 R1 R2' (sent_allm_conn y1 sl Hsent1)) as Hemp2.
    (* round 2 *)
    pose proof (frame_quietm _ y2 gs2 y3 o3 sl F2 M2 Hsc3 S3 Hsent2 Hemp2) as Hq3.
    pose proof (steps_presm sl (fun y => quiet y sl) (fun script y gs st y' o F Hm Hok Hnf H => step_quietm script y gs st y' o sl F Hm Hok Hnf H)
                  B _ y3 y (settle_slots_nf slots) Hsc M3 R3 Hrun Hq3) as Hq.
    pose proof (blocks_emptiedm sl slots _ y3 y Hsl Hsc M3 R3 Hrun (quiet_conn y3 sl Hq3)) as Hemp.
    destruct Hq as (c & cl & Hc & Hs & Hin & Hs' & Hau & Hqf & Hev). destruct Hemp as (c0 & Hc0 & _ & E1 & _ & _ & E4 & _).
    assert (c0 = c) by congruence. subst c0. exists c, cl. auto 12.
  Qed.

  Theorem e2em_settles body slots sl y :
    scope (body ++ settle_round slots ++ settle_round slots) ->
    run init (body ++ settle_round slots ++ settle_round slots) = Ok y ->
    In sl slots -> (exists yb, run init body = Ok yb /\ livev body yb sl) ->
    exists c cl, al_get sl (y_clients y) = Some c /\ cl_status c = Connected /\
      In cl (sv_clients (y_server y)) /\ sc_slot cl = sl /\ sc_authorized cl = true /\
      struct_equiv (client_struct c) (struct_vis (y_server y) cl) /\
      forall e k, view_agrees c sl (y_server y) e k.
  Proof.
    intros Hsc Hrun Hsl Hlive.
    destruct (settlem_premises body slots sl y Hsc Hrun Hsl Hlive) as (Hm & c & cl & Hc & Hs & Hin & Hs' & Hau & E1 & E2 & Hq & Hev).
    exists c, cl. do 5 (split; [assumption|]).
    exact (e2em_converged cfg0 nclients _ y sl c cl Hsc Hrun Hc Hm Hs Hin Hs' Hau E1 E2 Hq Hev).
  Qed.
End SettleM.

(* C01 for the fragment, in the shape of the property: two rounds of the settle phase of Repl/Converge.v after any
   script in scope (the scope covers the settle steps as well: they take two ticks and may register mutate messages) *)
Theorem e2em_settle_converges cfg0 nclients body yb y sl :
  let rounds := settle_round (Converge.slots yb) ++ settle_round (Converge.slots yb) in
  script_scopem cfg0 nclients (body ++ rounds) ->
  run (sys_init cfg0 nclients) body = Ok yb -> Converge.settle 2 yb = Ok y -> livev body yb sl ->
  exists c cl, al_get sl (y_clients y) = Some c /\ cl_status c = Connected /\
    In cl (sv_clients (y_server y)) /\ sc_slot cl = sl /\ sc_authorized cl = true /\
    struct_equiv (client_struct c) (struct_vis (y_server y) cl) /\
    forall e k, view_agrees c sl (y_server y) e k.
Proof.
  intros rounds Hsc Rb Hset Hlive. pose proof (converge_settle2 yb y Hset) as Hrun. fold rounds in Hrun.
  apply (e2em_settles cfg0 nclients body (Converge.slots yb) sl y Hsc); [rewrite run_app, Rb; exact Hrun| |exists yb; auto].
  destruct Hlive as (_ & c & cl & Hc & _). unfold Converge.slots. apply in_map_iff. exists (sl, c). split; [reflexivity|].
  clear -Hc. induction (y_clients yb) as [|[k v] t IH]; [discriminate|]. cbn [al_get] in Hc. destruct (k =? sl) eqn:E.
  - inversion Hc; subst v. left. f_equal. lia.
  - right. exact (IH Hc).
Qed.

(* ... the values, read the way Repl/Converge.v compares them: the client holds a nat exactly where the server replicates
   that nat to it, and a reference exactly where the server replicates a reference to the entity the client's map sends
   the client-side reference back to *)
Theorem e2em_settle_values cfg0 nclients body yb y sl :
  let rounds := settle_round (Converge.slots yb) ++ settle_round (Converge.slots yb) in
  script_scopem cfg0 nclients (body ++ rounds) ->
  run (sys_init cfg0 nclients) body = Ok yb -> Converge.settle 2 yb = Ok y -> livev body yb sl ->
  exists c, al_get sl (y_clients y) = Some c /\
    (forall e k n, cview c e k = Some (CNat n) <-> sviewv sl (y_server y) e k = Some (VNat n)) /\
    (forall e k t, sviewv sl (y_server y) e k = Some (VRef t) <->
                   exists cid, cview c e k = Some (CRef cid) /\ al_get cid (cl_c2s c) = Some t).
Proof.
  intros rounds Hsc Rb Hset Hlive.
  destruct (e2em_settle_converges cfg0 nclients body yb y sl Hsc Rb Hset Hlive) as (c & cl & Hc & _ & _ & _ & _ & _ & Hv).
  exists c. split; [exact Hc|]. split.
  - intros e k n. specialize (Hv e k). unfold view_agrees, opt_vrel in Hv.
    destruct (cview c e k) as [[m|cid]|]; destruct (sviewv sl (y_server y) e k) as [[m'|t]|]; cbn [vrel] in Hv; try destruct Hv;
      split; intros H; inversion H; subst; try reflexivity.
  - intros e k t. specialize (Hv e k). unfold view_agrees, opt_vrel in Hv. split.
    + intros H. rewrite H in Hv. destruct (cview c e k) as [[m|cid]|]; cbn [vrel] in Hv; try contradiction. exists cid. auto.
    + intros (cid & H & Ht). rewrite H in Hv. destruct (sviewv sl (y_server y) e k) as [[m'|t']|]; cbn [vrel] in Hv; try contradiction. congruence.
Qed.
